(* Proofs/CodecTotal.v — no reader of the model can panic on a byte string (every Panic of the model sits in a
   constructor assert; the readers validate before calling the constructors).  Property C12 (overlaps C06). *)
From VBase Require Import MachInt.
From VModel Require Import Codec.
From VProofs Require Import CodecPrim CodecTypes.
Open Scope Z_scope.

Definition any {A} : A -> Prop := fun _ => True.

Lemma safe_any {A} (P : A -> Prop) r : safeP P r -> safeP any r.
Proof. apply safe_weaken. intros; exact I. Qed.

Lemma safe_peek_u8 : safeP (fun b => 0 <= b < 256) peek_u8.
Proof. intros [|b r] H; cbn; auto. inversion H; subst. auto. Qed.

Lemma safe_if {A} (P : A -> Prop) (c : bool) (r1 r2 : Rd A) : safeP P r1 -> safeP P r2 -> safeP P (if c then r1 else r2).
Proof. destruct c; auto. Qed.

Lemma safe_read_bool : safeP any read_bool.
Proof.
  unfold read_bool. eapply safe_bind; [apply safe_read_u8|]. intros b _.
  repeat apply safe_if; try apply safe_fail; apply safe_ret; exact I.
Qed.

Lemma safe_read_usize : safeP any read_usize.
Proof.
  unfold read_usize. eapply safe_bind; [apply safe_peek_u8|]. intros fb _.
  eapply (safe_bind any).
  - apply safe_if.
    + eapply safe_bind; [apply safe_read_u8|]. intros _ _. apply (safe_any _ _ (safe_read_uint 8)).
    + eapply safe_bind; [apply safe_read_slice|]. intros v _. apply safe_ret. exact I.
  - intros r _. apply safe_if; [apply safe_fail | apply safe_ret; exact I].
Qed.

Lemma safe_read_many_nat {A} (P : A -> Prop) (r : Rd A) n : safeP P r -> safeP (Forall P) (read_many_nat r n).
Proof.
  intros Hr. induction n as [|n IH]; intros bs Hbs; cbn [read_many_nat]; [auto|].
  specialize (Hr bs Hbs). destruct (r bs) as [[a bs']| |]; auto. destruct Hr as [Pa Hbs'].
  specialize (IH bs' Hbs'). destruct (read_many_nat r n bs') as [[l bs'']| |]; auto.
  destruct IH. auto.
Qed.

Lemma safe_read_many {A} (P : A -> Prop) (r : Rd A) n : safeP P r -> safeP (Forall P) (read_many r n).
Proof.
  intros Hr. destruct (Z_le_gt_dec n 0) as [Hn | Hn].
  - intros bs Hbs. unfold read_many. destruct n; try lia; auto.
  - intros bs Hbs. rewrite <- (Z2Nat.id n) by lia. rewrite read_many_spec. now apply safe_read_many_nat.
Qed.

Lemma safe_read_option {A} (P : A -> Prop) (r : Rd A) : safeP P r -> safeP any (read_option r).
Proof.
  intros Hr. unfold read_option. eapply safe_bind; [apply safe_read_bool|]. intros c _.
  apply safe_if; [|apply safe_ret; exact I].
  eapply safe_bind; [exact Hr|]. intros v _. apply safe_ret. exact I.
Qed.

Lemma safe_read_vec_of {A} (P : A -> Prop) (r : Rd A) : safeP P r -> safeP (Forall P) (read_vec_of r).
Proof.
  intros Hr. unfold read_vec_of. eapply safe_bind; [apply safe_read_usize|]. intros n _. now apply safe_read_many.
Qed.

Lemma safe_read_blob k : safeP is_bytes (read_blob k).
Proof. unfold read_blob, read_vec. eapply safe_bind; [apply safe_read_uint|]. intros n _. apply safe_read_slice. Qed.

Lemma safe_read_string u : safeP any (read_string u).
Proof.
  unfold read_string. eapply safe_bind; [apply safe_read_usize|]. intros n _.
  eapply safe_bind; [apply (safe_read_many _ _ n safe_read_u8)|]. intros d _.
  apply safe_if; [apply safe_ret; exact I | apply safe_fail].
Qed.

Lemma safe_read_felt k M : safeP any (read_felt k M).
Proof.
  unfold read_felt. eapply safe_bind; [apply safe_read_uint|]. intros v _.
  apply safe_if; [apply safe_fail | apply safe_ret; exact I].
Qed.

Theorem read_Context_no_panic : safeP any read_Context.
Proof.
  unfold read_Context. eapply safe_bind; [apply read_TraceInfo_no_panic|]. intros t _.
  eapply safe_bind; [apply safe_read_u8|]. intros n _.
  apply safe_if; [apply safe_fail|].
  eapply safe_bind; [apply safe_read_slice|]. intros m _.
  eapply safe_bind; [apply read_ProofOptions_no_panic|]. intros o _.
  repeat apply safe_if; try apply safe_fail. apply safe_ret. exact I.
Qed.

(* the reader accepts exactly what Context::new accepts (for the trace info and options it has read) *)
Theorem read_Context_total :
  safeP (fun c => wf_TraceInfo (ctx_trace_info c) /\ wf_ProofOptions (ctx_options c) /\ 1 <= len (ctx_modulus c) <= 255 /\
                  Context_new (ctx_modulus c) (ctx_trace_info c) (ctx_options c) = Ok c) read_Context.
Proof.
  unfold read_Context. eapply safe_bind; [apply read_TraceInfo_no_panic|]. intros t Ht.
  eapply safe_bind; [apply safe_read_u8|]. intros n Hn.
  destruct (n =? 0) eqn:C0; [apply safe_fail|].
  eapply (safe_bind (fun m => len m = n)).
  { intros bs Hbs. unfold read_vec, read_slice. destruct (n <=? len bs); [|exact I].
    unfold read_array. destruct (take (Z.to_nat n) bs) as [[h tl]|] eqn:E; [|exact I].
    destruct (take_is_bytes _ _ _ _ E Hbs). destruct (take_length _ _ _ _ E) as [_ Hl].
    split; auto. unfold len. rewrite Hl, Z2Nat.id by (cbv beta in Hn; lia). reflexivity. }
  intros m Hm.
  eapply safe_bind; [apply read_ProofOptions_no_panic|]. intros o Ho.
  destruct (ti_length t >? 2 ^ 32 - 1) eqn:C1; [apply safe_fail|].
  destruct ((ti_length t * po_blowup_factor o <=? usize_max) && (ti_length t * po_blowup_factor o <=? 2 ^ 32 - 1)) eqn:C2;
    [|apply safe_fail].
  apply safe_ret. cbn [ctx_trace_info ctx_options ctx_modulus].
  apply andb_prop in C2. destruct C2 as [C2 C3].
  apply Z.eqb_neq in C0. cbv beta in Hn.
  repeat split; auto; try lia.
  unfold Context_new, assert_. rewrite C2, C3.
  rewrite Z.gtb_ltb in C1. apply Z.ltb_ge in C1. destruct (Z.leb_spec (ti_length t) (2 ^ 32 - 1)); [reflexivity | lia].
Qed.

Theorem read_Queries_no_panic : safeP any read_Queries.
Proof.
  unfold read_Queries. eapply safe_bind; [apply safe_read_blob|]. intros v _.
  eapply safe_bind; [apply safe_read_blob|]. intros p _. apply safe_ret. exact I.
Qed.

Theorem read_OodFrame_no_panic : safeP any read_OodFrame.
Proof.
  unfold read_OodFrame. eapply safe_bind; [apply safe_read_blob|]. intros t _.
  eapply safe_bind; [apply safe_read_blob|]. intros l _.
  eapply safe_bind; [apply safe_read_blob|]. intros e _. apply safe_ret. exact I.
Qed.

Theorem read_FriProofLayer_no_panic : safeP any read_FriProofLayer.
Proof.
  unfold read_FriProofLayer. eapply safe_bind; [apply (safe_read_uint 4)|]. intros n _.
  apply safe_if; [apply safe_fail|].
  eapply safe_bind; [apply safe_read_slice|]. intros v _.
  eapply safe_bind; [apply safe_read_blob|]. intros p _. apply safe_ret. exact I.
Qed.

Theorem read_FriProof_no_panic : safeP any read_FriProof.
Proof.
  unfold read_FriProof. eapply safe_bind; [apply safe_read_u8|]. intros n _.
  eapply safe_bind; [apply (safe_read_many _ _ n read_FriProofLayer_no_panic)|]. intros layers _.
  eapply safe_bind; [apply safe_read_blob|]. intros r _.
  eapply safe_bind; [apply safe_read_u8|]. intros np _.
  apply safe_if; [apply safe_fail | apply safe_ret; exact I].
Qed.

Theorem read_Proof_no_panic : safeP any read_Proof.
Proof.
  unfold read_Proof. eapply safe_bind; [apply read_Context_no_panic|]. intros c _.
  eapply safe_bind; [apply safe_read_u8|]. intros nuq _.
  eapply safe_bind; [apply (safe_read_blob 2)|]. intros com _.
  eapply safe_bind; [apply (safe_read_many _ _ _ read_Queries_no_panic)|]. intros tq _.
  eapply safe_bind; [apply read_Queries_no_panic|]. intros cq _.
  eapply safe_bind; [apply read_OodFrame_no_panic|]. intros ood _.
  eapply safe_bind; [apply read_FriProof_no_panic|]. intros fri _.
  eapply safe_bind; [apply (safe_read_uint 8)|]. intros nonce _.
  eapply safe_bind; [apply (safe_read_option _ _ (safe_read_vec_of _ _ safe_read_u8))|]. intros gkr _.
  apply safe_ret. exact I.
Qed.
