(* C09/C14: the wrappers of math/src/fft/concurrent.rs (evaluate_poly_with_offset, interpolate_poly,
   interpolate_poly_with_offset) on top of split_radix_fft equal their serial counterparts, hence satisfy the
   same specifications (direct evaluation on the coset / inverse of evaluation), n = 4^(K+1) and 2*4^(K+1).
   The batched scalings (clone_and_shift, the batch_size-strided offset powers) are modelled as the sequential
   map; their batch independence is C14_scale_par_spec / C14_get_power_series_with_offset_any_T.  stdlib style. *)
From Coq Require Import List Arith Bool ZArith Lia.
From VBase Require Import FieldOps.
From VModel Require Import FFT FFTSplit.
From VProofs Require Import FFTSpec FFTRefine FFTEval FFTOffset FFTSegments FFTTranspose.
From VProofs Require FFTSplit.
Import ListNotations.

Section Wrappers.
Context {F : Type} (O : FOps F) (L : FLaws O).
Local Notation fz := (fzero O).
Local Notation peval := (peval O).
Local Notation fpow := (fpow O).

Variable tw : list F.
Variables K s : nat.
Variable w : F.
Hypothesis Hs : s <= 1.
Hypothesis Hlt : length tw = 2 ^ (S K + K + s).
Hypothesis Ht : tw_ok O tw (S K + S K + s) w.
Hypothesis Hw : root_cond O (S K + S K + s) w.

Let split_ok (x : list F) (Hl : length x = 2 ^ (S K + S K + s)) :
  split_radix_fft O x tw = Some (fft_in_place_top O x tw) := split_radix_is_fft O L tw K s w x Hs Hl Hlt Ht Hw.

(* whenever the serial function returns, the concurrent one returns the same vector *)
Lemma evaluate_poly_with_offset_concurrent_eq two_adicity root_of_unity p offset blowup y :
  length p = 2 ^ (S K + S K + s) ->
  evaluate_poly_with_offset O two_adicity root_of_unity p tw offset blowup = Some y ->
  evaluate_poly_with_offset_concurrent O root_of_unity p tw offset blowup = Some y.
Proof.
  intros Hl H. unfold evaluate_poly_with_offset in H.
  destruct (negb (is_pow2 (length p))); [discriminate|].
  destruct (negb (is_pow2 blowup)); [discriminate|].
  destruct (negb (length p =? length tw * 2)); [discriminate|].
  destruct (two_adicity <? Nat.log2 (length p * blowup)); [discriminate|].
  destruct (feqb O offset fz); [discriminate|].
  unfold evaluate_poly_with_offset_concurrent.
  rewrite (sequence_some _ (fun i => fft_in_place_top O
             (shift_by_series O p (fone O)
                (fmul O (fpow_N O (root_of_unity (Nat.log2 (length p * blowup))) (N.of_nat (permute_index blowup i))) offset)) tw)).
  - exact H.
  - intros i _. apply split_ok. rewrite (shift_by_series_length O). exact Hl.
Qed.

Lemma interpolate_poly_concurrent_eq two_adicity v y :
  length v = 2 ^ (S K + S K + s) ->
  interpolate_poly O two_adicity v tw = Some y -> interpolate_poly_concurrent O v tw = Some y.
Proof.
  intros Hl H. unfold interpolate_poly in H.
  destruct (negb (is_pow2 (length v))); [discriminate|].
  destruct (negb (length v =? length tw * 2)); [discriminate|].
  destruct (two_adicity <? Nat.log2 (length v)); [discriminate|].
  unfold interpolate_poly_concurrent. rewrite (split_ok v Hl). exact H.
Qed.

Lemma interpolate_poly_with_offset_concurrent_eq two_adicity v offset y :
  length v = 2 ^ (S K + S K + s) ->
  interpolate_poly_with_offset O two_adicity v tw offset = Some y ->
  interpolate_poly_with_offset_concurrent O v tw offset = Some y.
Proof.
  intros Hl H. unfold interpolate_poly_with_offset in H.
  destruct (negb (is_pow2 (length v))); [discriminate|].
  destruct (negb (length v =? length tw * 2)); [discriminate|].
  destruct (two_adicity <? Nat.log2 (length v)); [discriminate|].
  destruct (feqb O offset fz); [discriminate|].
  unfold interpolate_poly_with_offset_concurrent. rewrite (split_ok v Hl). exact H.
Qed.

End Wrappers.

Section WrapperSpecs.
Context {F : Type} (O : FOps F) (L : FLaws O).
Add Ring Fring6 : (FLaws_ring_theory O L).
Local Notation fz := (fzero O).
Local Notation f1 := (fone O).
Local Infix "*f" := (fmul O) (at level 40, left associativity).
Local Notation "-f x" := (fneg O x) (at level 35, right associativity).
Local Notation peval := (peval O).
Local Notation fpow := (fpow O).

Lemma root_cond_inv k w winv : root_cond O (S k) w -> w *f winv = f1 -> root_cond O (S k) winv.
Proof.
  cbn [root_cond]. intros Hw Hinv.
  assert (H : fpow w (2 ^ k) *f fpow winv (2 ^ k) = f1) by (rewrite <- (fpow_mul_base O L), Hinv; apply (fpow_one O L)).
  rewrite Hw in H. transitivity (-f (-f f1 *f fpow winv (2 ^ k))); [ring | rewrite H; reflexivity].
Qed.

(* concurrent::evaluate_poly_with_offset: result[i] = p(offset * g^i), every blowup 2^b *)
Theorem evaluate_poly_with_offset_concurrent_correct root_of_unity tw K s b g offset (p : list F) :
  s <= 1 -> length p = 2 ^ (S K + S K + s) -> length tw = 2 ^ (S K + K + s) ->
  root_of_unity (S K + S K + s + b) = g -> root_cond O (S K + S K + s + b) g ->
  tw_ok O tw (S K + S K + s) (fpow g (2 ^ b)) -> offset <> fz ->
  evaluate_poly_with_offset_concurrent O root_of_unity p tw offset (2 ^ b)
    = Some (map (fun i => peval p (offset *f fpow g i)) (seq 0 (2 ^ (S K + S K + s + b)))).
Proof.
  intros Hs Hl Hlt Hg Hgc Ht Hoff.
  assert (Hw : root_cond O (S K + S K + s) (fpow g (2 ^ b))) by (apply (VProofs.FFTSplit.root_cond_pow O L); exact Hgc).
  apply (evaluate_poly_with_offset_concurrent_eq O L tw K s (fpow g (2 ^ b)) Hs Hlt Ht Hw (S K + S K + s + b)); [exact Hl|].
  assert (Hlt' : length tw = 2 ^ (K + S K + s)) by (rewrite Hlt; f_equal; lia).
  exact (evaluate_poly_with_offset_correct O L (S (K + S K + s) + b) root_of_unity tw (K + S K + s) b g offset p
           Hl Hlt' (le_n _) Hg Hgc Ht Hoff).
Qed.

(* concurrent::interpolate_poly / interpolate_poly_with_offset invert evaluation *)
Theorem interpolate_poly_concurrent_correct itw K s w winv (p : list F) :
  s <= 1 -> length p = 2 ^ (S K + S K + s) -> length itw = 2 ^ (S K + K + s) ->
  root_cond O (S K + S K + s) w -> w *f winv = f1 -> tw_ok O itw (S K + S K + s) winv ->
  two_pow_f O (S K + S K + s) *f n_inv O (S K + S K + s) = f1 ->
  interpolate_poly_concurrent O (map (fun i => peval p (fpow w i)) (seq 0 (2 ^ (S K + S K + s)))) itw = Some p.
Proof.
  intros Hs Hl Hlt Hw Hinv Ht Hn.
  assert (Hwi : root_cond O (S K + S K + s) winv) by (apply (root_cond_inv (K + S K + s) w winv); assumption).
  apply (interpolate_poly_concurrent_eq O L itw K s winv Hs Hlt Ht Hwi (S K + S K + s));
    [rewrite map_length, seq_length; reflexivity|].
  assert (Hlt' : length itw = 2 ^ (K + S K + s)) by (rewrite Hlt; f_equal; lia).
  exact (interpolate_evaluate O L (S (K + S K + s)) itw (K + S K + s) w winv p Hl Hlt' (le_n _) Hw Hinv Ht Hn).
Qed.

Theorem interpolate_poly_with_offset_concurrent_correct itw K s w winv offset (p : list F) :
  s <= 1 -> length p = 2 ^ (S K + S K + s) -> length itw = 2 ^ (S K + K + s) ->
  root_cond O (S K + S K + s) w -> w *f winv = f1 -> tw_ok O itw (S K + S K + s) winv -> offset <> fz ->
  two_pow_f O (S K + S K + s) *f n_inv O (S K + S K + s) = f1 ->
  interpolate_poly_with_offset_concurrent O
    (map (fun i => peval p (offset *f fpow w i)) (seq 0 (2 ^ (S K + S K + s)))) itw offset = Some p.
Proof.
  intros Hs Hl Hlt Hw Hinv Ht Hoff Hn.
  assert (Hwi : root_cond O (S K + S K + s) winv) by (apply (root_cond_inv (K + S K + s) w winv); assumption).
  apply (interpolate_poly_with_offset_concurrent_eq O L itw K s winv Hs Hlt Ht Hwi (S K + S K + s));
    [rewrite map_length, seq_length; reflexivity|].
  assert (Hlt' : length itw = 2 ^ (K + S K + s)) by (rewrite Hlt; f_equal; lia).
  exact (interpolate_evaluate_with_offset O L (S (K + S K + s)) itw (K + S K + s) w winv offset p
           Hl Hlt' (le_n _) Hw Hinv Ht Hoff Hn).
Qed.

End WrapperSpecs.
