(* C04 — non-vacuity examples and seeded-defect examples for the transcript theorems.  stdlib style. *)
From Coq Require Import List Arith Bool.
From VModel Require Import Transcript.
From VProofs Require Import TranscriptRun.
Import ListNotations.

(* main 1, aux 1 (1 random element), 1+1 transition constraints, 1+0 assertions, 1 composition column,
   quadratic extension, 1 FRI layer, grinding 1, 2 queries *)
Definition s0 : shape := mkShape 1 1 1 1 1 1 0 1 2 1 1 2 None.
(* single segment, base field, no FRI layer (remainder only), no grinding *)
Definition s1 : shape := mkShape 3 0 0 3 0 2 0 2 1 0 0 1 None.
(* Lagrange kernel column: 1 main + 2 aux columns, 2 ordinary random elements, GKR step drawing 3 elements, log2 n = 3 *)
Definition s2 : shape := mkShape 1 2 2 1 1 1 1 1 1 0 0 1 (Some (3, 3)).

Definition good0 : list event :=
  [EvNew [CtxElems; PubInputs]; EvReseed (TraceCommitment 0); EvDraw 0 2; EvReseed (TraceCommitment 1);
   EvDraw 0 2; EvDraw 1 2; EvDraw 2 2; EvReseed ConstraintCommitment; EvDraw 0 2;
   EvReseed HashOodTraceFrame; EvReseed HashOodConstraintEvals; EvDraw 0 2; EvDraw 1 2; EvDraw 2 2;
   EvReseed (FriLayerCommitment 0); EvDraw 0 2; EvReseed RemainderCommitment;
   EvCheckPow PowNonce; EvDrawInts PowNonce 2].

Definition good0_verifier : list event :=
  [EvNew [CtxElems; PubInputs]; EvReseed (TraceCommitment 0); EvDraw 0 2; EvReseed (TraceCommitment 1);
   EvDraw 0 2; EvDraw 1 2; EvDraw 2 2; EvReseed ConstraintCommitment; EvDraw 0 2;
   EvReseed HashOodTraceFrame; EvReseed HashOodConstraintEvals; EvDraw 0 2; EvDraw 1 2; EvDraw 2 2;
   EvReseed (FriLayerCommitment 0); EvDraw 0 2; EvReseed RemainderCommitment; EvDraw 0 2;
   EvCheckPow PowNonce; EvDrawInts PowNonce 2].

Example prover_s0 : map fst (prover s0) = good0.
Proof. reflexivity. Qed.
Example verifier_s0 : map fst (verifier s0) = good0_verifier.
Proof. reflexivity. Qed.
Example prover_s1 : map fst (prover s1) =
  [EvNew [CtxElems; PubInputs]; EvReseed (TraceCommitment 0); EvDraw 0 1; EvDraw 1 1; EvDraw 2 1; EvDraw 3 1; EvDraw 4 1;
   EvReseed ConstraintCommitment; EvDraw 0 1; EvReseed HashOodTraceFrame; EvReseed HashOodConstraintEvals;
   EvDraw 0 1; EvDraw 1 1; EvDraw 2 1; EvDraw 3 1; EvDraw 4 1; EvReseed RemainderCommitment;
   EvCheckPow PowNonce; EvDrawInts PowNonce 1].
Proof. reflexivity. Qed.

(* the challenges and the messages each has absorbed, for s0 *)
Example run_s0_ood : In (OodPoint, CDraw (Reseed (Reseed (Reseed (Seed [CtxElems; PubInputs]) (TraceCommitment 0))
                                          (TraceCommitment 1)) ConstraintCommitment) 0) (run cs_init (prover s0)).
Proof. cbn. auto 12. Qed.

(* the executable checker accepts the model's lists ... *)
Example log_ok_good0 : log_ok false s0 good0 = true.
Proof. reflexivity. Qed.
Example log_ok_good0_verifier : log_ok true s0 good0_verifier = true.
Proof. reflexivity. Qed.
Example log_ok_s1 : log_ok false s1 (map fst (prover s1)) = true /\ log_ok true s1 (map fst (verifier s1)) = true.
Proof. split; reflexivity. Qed.

(* ... and rejects each seeded weakening of the transcript (same number of draws, so an honest run still verifies) *)
(* OOD constraint evaluations not absorbed (consistently on both sides) *)
Example mutant_ood_evals_not_absorbed : log_ok false s0
  [EvNew [CtxElems; PubInputs]; EvReseed (TraceCommitment 0); EvDraw 0 2; EvReseed (TraceCommitment 1);
   EvDraw 0 2; EvDraw 1 2; EvDraw 2 2; EvReseed ConstraintCommitment; EvDraw 0 2;
   EvReseed HashOodTraceFrame; EvDraw 0 2; EvDraw 1 2; EvDraw 2 2;
   EvReseed (FriLayerCommitment 0); EvDraw 0 2; EvReseed RemainderCommitment;
   EvCheckPow PowNonce; EvDrawInts PowNonce 2] = false.
Proof. reflexivity. Qed.
(* two absorptions swapped *)
Example mutant_ood_swapped : log_ok false s0
  [EvNew [CtxElems; PubInputs]; EvReseed (TraceCommitment 0); EvDraw 0 2; EvReseed (TraceCommitment 1);
   EvDraw 0 2; EvDraw 1 2; EvDraw 2 2; EvReseed ConstraintCommitment; EvDraw 0 2;
   EvReseed HashOodConstraintEvals; EvReseed HashOodTraceFrame; EvDraw 0 2; EvDraw 1 2; EvDraw 2 2;
   EvReseed (FriLayerCommitment 0); EvDraw 0 2; EvReseed RemainderCommitment;
   EvCheckPow PowNonce; EvDrawInts PowNonce 2] = false.
Proof. reflexivity. Qed.
(* DEEP coefficients drawn before the OOD frame is absorbed *)
Example mutant_deep_before_ood : log_ok false s0
  [EvNew [CtxElems; PubInputs]; EvReseed (TraceCommitment 0); EvDraw 0 2; EvReseed (TraceCommitment 1);
   EvDraw 0 2; EvDraw 1 2; EvDraw 2 2; EvReseed ConstraintCommitment; EvDraw 0 2;
   EvDraw 1 2; EvDraw 2 2; EvDraw 3 2; EvReseed HashOodTraceFrame; EvReseed HashOodConstraintEvals;
   EvReseed (FriLayerCommitment 0); EvDraw 0 2; EvReseed RemainderCommitment;
   EvCheckPow PowNonce; EvDrawInts PowNonce 2] = false.
Proof. reflexivity. Qed.
(* FRI alpha drawn before the layer commitment is absorbed *)
Example mutant_alpha_before_commitment : log_ok false s0
  [EvNew [CtxElems; PubInputs]; EvReseed (TraceCommitment 0); EvDraw 0 2; EvReseed (TraceCommitment 1);
   EvDraw 0 2; EvDraw 1 2; EvDraw 2 2; EvReseed ConstraintCommitment; EvDraw 0 2;
   EvReseed HashOodTraceFrame; EvReseed HashOodConstraintEvals; EvDraw 0 2; EvDraw 1 2; EvDraw 2 2;
   EvDraw 3 2; EvReseed (FriLayerCommitment 0); EvReseed RemainderCommitment;
   EvCheckPow PowNonce; EvDrawInts PowNonce 2] = false.
Proof. reflexivity. Qed.
(* auxiliary randomness drawn before the main-trace commitment *)
Example mutant_aux_rand_before_main_commitment : log_ok false s0
  [EvNew [CtxElems; PubInputs]; EvDraw 0 2; EvReseed (TraceCommitment 0); EvReseed (TraceCommitment 1);
   EvDraw 0 2; EvDraw 1 2; EvDraw 2 2; EvReseed ConstraintCommitment; EvDraw 0 2;
   EvReseed HashOodTraceFrame; EvReseed HashOodConstraintEvals; EvDraw 0 2; EvDraw 1 2; EvDraw 2 2;
   EvReseed (FriLayerCommitment 0); EvDraw 0 2; EvReseed RemainderCommitment;
   EvCheckPow PowNonce; EvDrawInts PowNonce 2] = false.
Proof. reflexivity. Qed.
(* a commitment reseed removed on both sides *)
Example mutant_constraint_commitment_not_absorbed : log_ok false s0
  [EvNew [CtxElems; PubInputs]; EvReseed (TraceCommitment 0); EvDraw 0 2; EvReseed (TraceCommitment 1);
   EvDraw 0 2; EvDraw 1 2; EvDraw 2 2; EvDraw 3 2;
   EvReseed HashOodTraceFrame; EvReseed HashOodConstraintEvals; EvDraw 0 2; EvDraw 1 2; EvDraw 2 2;
   EvReseed (FriLayerCommitment 0); EvDraw 0 2; EvReseed RemainderCommitment;
   EvCheckPow PowNonce; EvDrawInts PowNonce 2] = false.
Proof. reflexivity. Qed.
(* positions drawn before the remainder commitment is absorbed *)
Example mutant_positions_before_remainder : log_ok false s0
  [EvNew [CtxElems; PubInputs]; EvReseed (TraceCommitment 0); EvDraw 0 2; EvReseed (TraceCommitment 1);
   EvDraw 0 2; EvDraw 1 2; EvDraw 2 2; EvReseed ConstraintCommitment; EvDraw 0 2;
   EvReseed HashOodTraceFrame; EvReseed HashOodConstraintEvals; EvDraw 0 2; EvDraw 1 2; EvDraw 2 2;
   EvReseed (FriLayerCommitment 0); EvDraw 0 2;
   EvCheckPow PowNonce; EvDrawInts PowNonce 2; EvReseed RemainderCommitment] = false.
Proof. reflexivity. Qed.
(* the seed without the public inputs *)
Example mutant_seed_without_pub_inputs : log_ok false s0 (EvNew [CtxElems] :: tl good0) = false.
Proof. reflexivity. Qed.

(* Lagrange-kernel shape: GKR draws first, then the ordinary auxiliary randomness (counter continuing), 3+1 more composition
   coefficients, 1 more DEEP coefficient *)
Example prover_s2 : map fst (prover s2) =
  [EvNew [CtxElems; PubInputs]; EvReseed (TraceCommitment 0); EvDraw 0 1; EvDraw 1 1; EvDraw 2 1; EvDraw 3 1; EvDraw 4 1;
   EvReseed (TraceCommitment 1);
   EvDraw 0 1; EvDraw 1 1; EvDraw 2 1; EvDraw 3 1; EvDraw 4 1; EvDraw 5 1; EvDraw 6 1; EvDraw 7 1;
   EvReseed ConstraintCommitment; EvDraw 0 1; EvReseed HashOodTraceFrame; EvReseed HashOodConstraintEvals;
   EvDraw 0 1; EvDraw 1 1; EvDraw 2 1; EvDraw 3 1; EvDraw 4 1; EvReseed RemainderCommitment;
   EvCheckPow PowNonce; EvDrawInts PowNonce 1].
Proof. reflexivity. Qed.

Definition uses_s2_good : list use :=
  [UseUnobserved; UseUnobserved; UseGkr; UseGkr; UseGkr; UseAux; UseAux] ++ repeat UseUnobserved 21.
(* seeded change C04-m2: the verifier takes the ordinary auxiliary randomness BEFORE the GKR randomness: same coin
   operations, different use of the first draws *)
Definition uses_s2_swapped : list use :=
  [UseUnobserved; UseUnobserved; UseAux; UseAux; UseGkr; UseGkr; UseGkr] ++ repeat UseUnobserved 21.

Example log_ok_uses_s2 : log_ok_uses false s2 (map fst (prover s2)) uses_s2_good = true.
Proof. reflexivity. Qed.
Example mutant_aux_rand_before_gkr : log_ok_uses false s2 (map fst (prover s2)) uses_s2_swapped = false.
Proof. reflexivity. Qed.
