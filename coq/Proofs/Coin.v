(* C19 — lemmas about the coin model (Model/Coin.v).  stdlib style.
   Everything is proved for arbitrary hash oracles (Section variables); no collision resistance is assumed. *)
From VBase Require Import MachInt.
From VModel Require Import ToyHash Coin.
Open Scope Z_scope.

(* ------------------------------------------------------------------------------------------------ *)
(* integers: is_pow2, ctz, little-endian bytes                                                       *)

Lemma is_pow2_spec x : is_pow2 x = true <-> exists k, 0 <= k /\ x = 2 ^ k.
Proof.
  unfold is_pow2. rewrite andb_true_iff, Z.ltb_lt, Z.eqb_eq. split.
  - intros [Hpos Hl]. exists (Z.log2 x). split; [apply Z.log2_nonneg|].
    destruct (Z.log2_spec x Hpos) as [Hlo Hhi].
    destruct (Z.eq_dec x (2 ^ Z.log2 x)) as [|Hne]; [assumption|exfalso].
    assert (Hb1 : Z.testbit x (Z.log2 x) = true) by (apply Z.bit_log2; lia).
    assert (Hl2 : Z.log2 (x - 1) = Z.log2 x).
    { apply Z.log2_unique; [apply Z.log2_nonneg|]. rewrite Z.pow_succ_r in Hhi by apply Z.log2_nonneg.
      rewrite <- Z.add_1_r, Z.pow_add_r, Z.pow_1_r by (try apply Z.log2_nonneg; lia). lia. }
    assert (Hb2 : Z.testbit (x - 1) (Z.log2 x) = true).
    { rewrite <- Hl2. apply Z.bit_log2.
      assert (0 < 2 ^ Z.log2 x) by (apply Z.pow_pos_nonneg; [lia|apply Z.log2_nonneg]). lia. }
    assert (Hb : Z.testbit (Z.land x (x - 1)) (Z.log2 x) = true) by (rewrite Z.land_spec, Hb1, Hb2; reflexivity).
    rewrite Hl, Z.bits_0 in Hb. discriminate.
  - intros [k [Hk ->]]. split; [apply Z.pow_pos_nonneg; lia|].
    replace (2 ^ k - 1) with (Z.ones k) by (rewrite Z.ones_equiv; lia).
    rewrite Z.land_ones by assumption. apply Z.mod_same.
    assert (0 < 2 ^ k) by (apply Z.pow_pos_nonneg; lia). lia.
Qed.

Lemma land_pow2_mask a k : 0 <= k -> Z.land a (2 ^ k - 1) = a mod 2 ^ k.
Proof. intros Hk. replace (2 ^ k - 1) with (Z.ones k) by (rewrite Z.ones_equiv; lia). apply Z.land_ones; assumption. Qed.

Definition ctz_go : nat -> Z -> Z -> Z :=
  fix go (f : nat) (x k : Z) : Z :=
    match f with O => k | S f' => if Z.odd x then k else go f' (x / 2) (k + 1) end.

Lemma ctz_unfold n x : ctz n x = if x =? 0 then n else ctz_go (Z.to_nat n) x 0.
Proof. reflexivity. Qed.

Lemma ctz_go_range f x k : k <= ctz_go f x k <= k + Z.of_nat f.
Proof.
  revert x k. induction f as [|f IH]; intros x k; cbn [ctz_go]; [lia|].
  destruct (Z.odd x); [lia|]. specialize (IH (x / 2) (k + 1)). lia.
Qed.

Lemma ctz_range n x : 0 <= n -> 0 <= ctz n x <= n.
Proof.
  intros Hn. rewrite ctz_unfold. destruct (x =? 0); [lia|].
  pose proof (ctz_go_range (Z.to_nat n) x 0). lia.
Qed.

(* the value returned by ctz_go divides x exactly that many times: x = 2^(r-k) * odd *)
Lemma ctz_go_spec f x k : 0 < x < 2 ^ Z.of_nat f -> 0 <= k ->
  let r := ctz_go f x k in x mod 2 ^ (r - k) = 0 /\ Z.odd (x / 2 ^ (r - k)) = true.
Proof.
  revert x k. induction f as [|f IH]; intros x k Hx Hk; cbn [ctz_go].
  - simpl in Hx. lia.
  - destruct (Z.odd x) eqn:Ho.
    + rewrite Z.sub_diag. cbn. rewrite Z.mod_1_r, Z.div_1_r. auto.
    + assert (He : x = 2 * (x / 2)).
      { pose proof (Zodd_mod x) as Hm. rewrite Ho in Hm. unfold Zeq_bool in Hm.
        pose proof (Z.div_mod x 2). destruct (x mod 2 ?= 1) eqn:Hc; try discriminate;
        pose proof (Z.mod_pos_bound x 2); rewrite ?Z.compare_lt_iff, ?Z.compare_gt_iff in Hc; lia. }
      assert (Hx2 : 0 < x / 2 < 2 ^ Z.of_nat f).
      { rewrite Nat2Z.inj_succ, Z.pow_succ_r in Hx by lia. lia. }
      specialize (IH (x / 2) (k + 1) Hx2 ltac:(lia)). cbv zeta in IH.
      pose proof (ctz_go_range f (x / 2) (k + 1)) as Hr.
      set (r := ctz_go f (x / 2) (k + 1)) in *.
      replace (r - k) with (Z.succ (r - (k + 1))) by lia.
      rewrite Z.pow_succ_r by lia. destruct IH as [IH1 IH2].
      assert (Hp : 0 < 2 ^ (r - (k + 1))) by (apply Z.pow_pos_nonneg; lia).
      split.
      * rewrite He at 1. rewrite Z.mul_mod_distr_l by lia. rewrite IH1. lia.
      * rewrite He at 1. rewrite Z.div_mul_cancel_l by lia. exact IH2.
Qed.

Theorem ctz_spec n x : 0 <= n -> 0 < x < 2 ^ n ->
  x mod 2 ^ ctz n x = 0 /\ Z.odd (x / 2 ^ ctz n x) = true.
Proof.
  intros Hn Hx. rewrite ctz_unfold. destruct (x =? 0) eqn:E; [apply Z.eqb_eq in E; lia|].
  pose proof (ctz_go_spec (Z.to_nat n) x 0) as H. rewrite Z2Nat.id in H by assumption.
  specialize (H Hx ltac:(lia)). cbv zeta in H. rewrite Z.sub_0_r in H. exact H.
Qed.

(* t <= ctz x  <->  2^t divides x   (for 0 <= t <= n; ctz n 0 = n) *)
Theorem ctz_ge_iff n x t : 0 <= t <= n -> 0 <= x < 2 ^ n -> (t <= ctz n x <-> x mod 2 ^ t = 0).
Proof.
  intros Ht Hx. destruct (Z.eq_dec x 0) as [->|Hne].
  - rewrite ctz_unfold. cbn [Z.eqb]. rewrite Z.mod_0_l; [lia|]. assert (0 < 2 ^ t) by (apply Z.pow_pos_nonneg; lia). lia.
  - assert (Hn : 0 <= n) by lia.
    destruct (ctz_spec n x Hn ltac:(lia)) as [Hd Ho]. pose proof (ctz_range n x Hn) as Hr.
    set (r := ctz n x) in *.
    assert (Hpr : 0 < 2 ^ r) by (apply Z.pow_pos_nonneg; lia).
    assert (Hpt : 0 < 2 ^ t) by (apply Z.pow_pos_nonneg; lia).
    split.
    + intros Hle. apply Z.mod_divide; [lia|]. apply Z.divide_trans with (2 ^ r).
      * exists (2 ^ (r - t)). rewrite <- Z.pow_add_r by lia. f_equal. lia.
      * apply Z.mod_divide; [lia|assumption].
    + intros Hm. destruct (Z_le_gt_dec t r) as [|Hgt]; [assumption|exfalso].
      (* 2^(r+1) | x contradicts oddness of x / 2^r *)
      apply Z.mod_divide in Hm; [|lia]. destruct Hm as [q Hq].
      assert (Hx' : x = (q * 2 ^ (t - r - 1) * 2) * 2 ^ r).
      { rewrite Hq. replace t with ((t - r - 1) + 1 + r) at 1 by lia.
        rewrite !Z.pow_add_r by lia. rewrite Z.pow_1_r. ring. }
      rewrite Hx' in Ho. rewrite Z.div_mul in Ho by lia.
      rewrite Z.mul_comm, Z.odd_mul in Ho. cbn in Ho. discriminate.
Qed.

Lemma of_le_bytes_nonneg l : Forall (fun b => 0 <= b) l -> 0 <= of_le_bytes l.
Proof. induction 1; cbn [of_le_bytes]; lia. Qed.

Lemma of_le_bytes_bound l : Forall (fun b => 0 <= b < 256) l -> 0 <= of_le_bytes l < 256 ^ Z.of_nat (length l).
Proof.
  induction 1 as [|b l Hb _ IH]; cbn [of_le_bytes length]; [cbn; lia|].
  rewrite Nat2Z.inj_succ, Z.pow_succ_r by lia. lia.
Qed.

Lemma Forall_firstn {A} (P : A -> Prop) n l : Forall P l -> Forall P (firstn n l).
Proof. intros H. revert n. induction H; intros [|n]; cbn; constructor; auto. Qed.

Lemma Forall_skipn {A} (P : A -> Prop) n l : Forall P l -> Forall P (skipn n l).
Proof. intros H. revert n. induction H; intros [|n]; cbn; auto. Qed.

(* ------------------------------------------------------------------------------------------------ *)
(* from_random_bytes                                                                                 *)

Lemma chunks_length eb k l : length (chunks eb k l) = k.
Proof. revert l. induction k; intros l; cbn; [reflexivity|now rewrite IHk]. Qed.

Lemma chunks_Forall P eb k l : Forall P l -> Forall (Forall P) (chunks eb k l).
Proof.
  revert l. induction k; intros l H; cbn; constructor.
  - apply Forall_firstn; assumption.
  - apply IHk, Forall_skipn; assumption.
Qed.

Theorem from_random_bytes_valid k bytes e : from_random_bytes k bytes = Some e ->
  length bytes = elem_bytes k /\ length e = fk_deg k /\ Forall (fun v => v < fk_M k) e /\
  e = map of_le_bytes (chunks (fk_eb k) (fk_deg k) bytes).
Proof.
  unfold from_random_bytes. destruct (Nat.eqb (length bytes) (elem_bytes k)) eqn:El; cbn [negb]; [|discriminate].
  destruct (forallb _ _) eqn:Ef; [|discriminate]. intros [= <-].
  apply Nat.eqb_eq in El. rewrite map_length, chunks_length. repeat split; try assumption.
  rewrite forallb_forall in Ef. apply Forall_forall. intros v Hv. apply Z.ltb_lt, Ef, Hv.
Qed.

Theorem from_random_bytes_nonneg k bytes e : Forall (fun b => 0 <= b) bytes ->
  from_random_bytes k bytes = Some e -> Forall (fun v => 0 <= v) e.
Proof.
  intros Hb H. apply from_random_bytes_valid in H. destruct H as (_ & _ & _ & ->).
  apply Forall_forall. intros v Hv. apply in_map_iff in Hv. destruct Hv as [ch [<- Hin]].
  apply of_le_bytes_nonneg.
  pose proof (chunks_Forall (fun b => 0 <= b) (fk_eb k) (fk_deg k) bytes Hb) as Hc.
  rewrite Forall_forall in Hc. apply Hc, Hin.
Qed.

(* exact acceptance condition: the rejection test is "some coefficient >= M" and nothing else *)
Theorem from_random_bytes_accepts k bytes : length bytes = elem_bytes k ->
  Forall (fun v => v < fk_M k) (map of_le_bytes (chunks (fk_eb k) (fk_deg k) bytes)) ->
  from_random_bytes k bytes = Some (map of_le_bytes (chunks (fk_eb k) (fk_deg k) bytes)).
Proof.
  intros Hl Hf. unfold from_random_bytes. rewrite Hl, Nat.eqb_refl. cbn [negb].
  replace (forallb _ _) with true; [reflexivity|]. symmetry. apply forallb_forall.
  rewrite Forall_forall in Hf. intros v Hv. apply Z.ltb_lt, Hf, Hv.
Qed.

Theorem from_random_bytes_rejects k bytes v :
  In v (map of_le_bytes (chunks (fk_eb k) (fk_deg k) bytes)) -> fk_M k <= v -> from_random_bytes k bytes = None.
Proof.
  intros Hin Hge. unfold from_random_bytes. destruct (negb _); [reflexivity|].
  destruct (forallb _ _) eqn:Ef; [|reflexivity]. rewrite forallb_forall in Ef.
  specialize (Ef v Hin). apply Z.ltb_lt in Ef. lia.
Qed.

(* ------------------------------------------------------------------------------------------------ *)
Section CoinProofs.
  Variable D : Type.
  Variable hash_elements : list Z -> D.
  Variable merge : D -> D -> D.
  Variable merge_with_int : D -> Z -> D.
  Variable dbytes : D -> list Z.

  Local Notation coin := (coin D).
  Local Notation next := (coin_next D merge_with_int).
  Local Notation le64 := (le64 D dbytes).
  Local Notation check_lz := (coin_check_lz D merge_with_int dbytes).
  Local Notation draw_loop := (draw_loop D merge_with_int dbytes).
  Local Notation draw := (coin_draw D merge_with_int dbytes).
  Local Notation ints_loop := (ints_loop D merge_with_int dbytes).
  Local Notation draw_integers := (coin_draw_integers D merge_with_int dbytes).
  Local Notation reseed := (coin_reseed D merge).
  Local Notation new := (coin_new D hash_elements).
  Local Notation step := (step D merge merge_with_int dbytes).
  Local Notation run := (run D merge merge_with_int dbytes).
  Local Notation op := (op D).

  (* the digest handed out by the j-th PRNG call after the state (s, cnt) *)
  Definition prng (s : D) (cnt : Z) (j : Z) : D := merge_with_int s (cnt + j).
  (* the slice of it that draw::<E> looks at *)
  Definition draw_bytes (k : fkind) (s : D) (cnt j : Z) : list Z := firstn (elem_bytes k) (dbytes (prng s cnt j)).

  Lemma next_spec c c' d : next c = Some (c', d) ->
    seed c' = seed c /\ counter c' = counter c + 1 /\ d = prng (seed c) (counter c) 1 /\ counter c + 1 < 2 ^ 64.
  Proof.
    unfold coin_next, prng. destruct (counter c + 1 <? 2 ^ 64) eqn:E; [|discriminate].
    intros [= <- <-]. apply Z.ltb_lt in E. cbn. auto.
  Qed.

  Lemma next_some c : counter c + 1 < 2 ^ 64 ->
    next c = Some (mkCoin (seed c) (counter c + 1), prng (seed c) (counter c) 1).
  Proof. intros H. unfold coin_next, prng. apply Z.ltb_lt in H. rewrite H. reflexivity. Qed.

  Lemma next_none c : 2 ^ 64 <= counter c + 1 -> next c = None.
  Proof. intros H. unfold coin_next. apply Z.ltb_ge in H. rewrite H. reflexivity. Qed.

  (* ---------------------------------------------------------------------------------------------- draw *)

  (* Complete specification of the rejection loop. *)
  Theorem draw_loop_spec k f c c' r : draw_loop k f c = (c', r) ->
    counter c + Z.of_nat f < 2 ^ 64 -> (elem_bytes k <= 32)%nat ->
    seed c' = seed c /\
    match r with
    | Ok e => exists j, 1 <= j <= Z.of_nat f /\ counter c' = counter c + j /\
                        from_random_bytes k (draw_bytes k (seed c) (counter c) j) = Some e /\
                        forall i, 1 <= i < j -> from_random_bytes k (draw_bytes k (seed c) (counter c) i) = None
    | Err => counter c' = counter c + Z.of_nat f /\
             forall i, 1 <= i <= Z.of_nat f -> from_random_bytes k (draw_bytes k (seed c) (counter c) i) = None
    | Panic => False
    end.
  Proof.
    revert c c' r. induction f as [|f IH]; intros c c' r H Hov Hsz; cbn [Coin.draw_loop] in H.
    - injection H as <- <-. split; [reflexivity|]. split; [cbn; lia|]. intros i Hi. cbn in Hi. lia.
    - rewrite Nat2Z.inj_succ in *. rewrite next_some in H by lia.
      replace (32 <? elem_bytes k)%nat with false in H by (symmetry; apply Nat.ltb_ge; assumption).
      fold (draw_bytes k (seed c) (counter c) 1) in H.
      destruct (from_random_bytes k (draw_bytes k (seed c) (counter c) 1)) as [e|] eqn:Ef.
      + injection H as <- <-. split; [reflexivity|]. exists 1. cbn [counter]. repeat split; try lia; try assumption.
      + apply IH in H; [|cbn [counter]; lia|assumption]. cbn [seed counter] in H. destruct H as [Hs Hr].
        split; [assumption|]. destruct r as [e| |]; [| |assumption].
        * destruct Hr as [j [Hj [Hc [Hv Hn]]]]. exists (j + 1). repeat split; try lia.
          -- unfold draw_bytes, prng in *. replace (counter c + (j + 1)) with (counter c + 1 + j) by lia. assumption.
          -- intros i Hi. destruct (Z.eq_dec i 1) as [->|Hne]; [assumption|].
             specialize (Hn (i - 1) ltac:(lia)). unfold draw_bytes, prng in *.
             replace (counter c + 1 + (i - 1)) with (counter c + i) in Hn by lia. assumption.
        * destruct Hr as [Hc Hn]. split; [lia|]. intros i Hi.
          destruct (Z.eq_dec i 1) as [->|Hne]; [assumption|].
          specialize (Hn (i - 1) ltac:(lia)). unfold draw_bytes, prng in *.
          replace (counter c + 1 + (i - 1)) with (counter c + i) in Hn by lia. assumption.
  Qed.

  (* unconditional facts: the seed never changes, the counter never decreases and moves by at most [fuel] *)
  Lemma draw_loop_state k f c : 0 <= counter c ->
    seed (fst (draw_loop k f c)) = seed c /\
    counter c <= counter (fst (draw_loop k f c)) <= counter c + Z.of_nat f.
  Proof.
    revert c. induction f as [|f IH]; intros c Hc; cbn [Coin.draw_loop].
    - cbn. split; [reflexivity|lia].
    - rewrite Nat2Z.inj_succ. destruct (next c) as [[c1 d]|] eqn:En; [|cbn; split; [reflexivity|lia]].
      apply next_spec in En. destruct En as (Hs & Hk & _ & _).
      destruct (32 <? elem_bytes k)%nat; [cbn [fst]; split; [exact Hs|lia]|].
      destruct (from_random_bytes _ _); [cbn [fst]; split; [exact Hs|lia]|].
      specialize (IH c1 ltac:(lia)). destruct IH as [IH1 IH2]. split; [congruence|lia].
  Qed.

  (* every element returned by draw is valid, for all hash oracles, all states (no side condition at all) *)
  Theorem draw_loop_valid k f c c' e : draw_loop k f c = (c', Ok e) ->
    length e = fk_deg k /\ Forall (fun v => v < fk_M k) e.
  Proof.
    revert c. induction f as [|f IH]; intros c H; cbn [Coin.draw_loop] in H; [discriminate|].
    destruct (next c) as [[c1 d]|]; [|discriminate].
    destruct (32 <? elem_bytes k)%nat; [discriminate|].
    destruct (from_random_bytes _ _) as [e'|] eqn:Ef; [|eapply IH; eassumption].
    injection H as <- <-. apply from_random_bytes_valid in Ef. destruct Ef as (_ & Hl & Hv & _). split; assumption.
  Qed.

  Theorem draw_loop_nonneg k f c c' e : (forall d, Forall (fun b => 0 <= b) (dbytes d)) ->
    draw_loop k f c = (c', Ok e) -> Forall (fun v => 0 <= v) e.
  Proof.
    intros Hb. revert c. induction f as [|f IH]; intros c H; cbn [Coin.draw_loop] in H; [discriminate|].
    destruct (next c) as [[c1 d]|]; [|discriminate].
    destruct (32 <? elem_bytes k)%nat; [discriminate|].
    destruct (from_random_bytes _ _) as [e'|] eqn:Ef; [|eapply IH; eassumption].
    injection H as <- <-. eapply from_random_bytes_nonneg; [|eassumption]. apply Forall_firstn, Hb.
  Qed.

  (* Panic domain of draw: element wider than the 32-byte view (after one PRNG call), or counter overflow *)
  Lemma draw_loop_panic_oversize k f c : (32 < elem_bytes k)%nat -> counter c + 1 < 2 ^ 64 ->
    draw_loop k (S f) c = (mkCoin (seed c) (counter c + 1), Panic).
  Proof.
    intros Hsz Hov. cbn [Coin.draw_loop]. rewrite next_some by assumption.
    apply Nat.ltb_lt in Hsz. rewrite Hsz. reflexivity.
  Qed.

  Theorem draw_panic_oversize k c : (32 < elem_bytes k)%nat -> counter c + 1 < 2 ^ 64 ->
    draw k c = (mkCoin (seed c) (counter c + 1), Panic).
  Proof. intros. unfold coin_draw, draw_tries. apply draw_loop_panic_oversize; assumption. Qed.

  Lemma draw_loop_advances k f c : 0 <= counter c -> counter c + 1 < 2 ^ 64 ->
    counter c + 1 <= counter (fst (draw_loop k (S f) c)).
  Proof.
    intros H0 Hov. cbn [Coin.draw_loop]. rewrite next_some by assumption.
    destruct (32 <? elem_bytes k)%nat; [cbn; lia|]. destruct (from_random_bytes _ _); [cbn; lia|].
    pose proof (draw_loop_state k f (mkCoin (seed c) (counter c + 1)) ltac:(cbn; lia)) as H. cbn [counter] in H. lia.
  Qed.

  Theorem draw_advances k c : 0 <= counter c -> counter c + 1 < 2 ^ 64 ->
    counter c + 1 <= counter (fst (draw k c)).
  Proof. intros. unfold coin_draw, draw_tries. apply draw_loop_advances; assumption. Qed.

  (* ---------------------------------------------------------------------------------------------- draw_integers *)

  (* the j-th integer produced after state (s, cnt) *)
  Definition int_at (s : D) (cnt mask : Z) (j : nat) : Z := Z.land (le64 (prng s cnt (Z.of_nat j))) mask.
  Definition ints_vals (s : D) (cnt mask : Z) (m : nat) : list Z := map (int_at s cnt mask) (seq 1 m).

  Lemma ints_vals_length s cnt mask m : length (ints_vals s cnt mask m) = m.
  Proof. unfold ints_vals. now rewrite map_length, seq_length. Qed.

  Lemma ints_vals_shift s cnt mask m :
    ints_vals s cnt mask (S m) = int_at s cnt mask 1 :: ints_vals s (cnt + 1) mask m.
  Proof.
    unfold ints_vals. cbn [seq map]. f_equal. rewrite <- seq_shift, map_map. apply map_ext. intros j.
    unfold int_at, prng. do 3 f_equal. lia.
  Qed.

  (* the loop stops as soon as the length equals n; if that never happens it runs [f] times *)
  Lemma ints_loop_spec f c mask n acc : counter c + Z.of_nat f < 2 ^ 64 ->
    let need := n - Z.of_nat (length acc) in
    let m := if (1 <=? need) && (need <=? Z.of_nat f) then Z.to_nat need else f in
    ints_loop f c mask n acc =
      Some (mkCoin (seed c) (counter c + Z.of_nat m), acc ++ ints_vals (seed c) (counter c) mask m).
  Proof.
    revert c acc. induction f as [|f IH]; intros c acc Hov; cbv zeta; cbn [Coin.ints_loop].
    - destruct ((1 <=? _) && (_ <=? Z.of_nat 0)) eqn:E.
      + apply andb_true_iff in E. rewrite !Z.leb_le in E. cbn in E. lia.
      + cbn. rewrite app_nil_r, Z.add_0_r. destruct c; reflexivity.
    - rewrite Nat2Z.inj_succ in *. rewrite next_some by lia.
      fold (le64 (prng (seed c) (counter c) 1)).
      rewrite app_length. cbn [length]. rewrite Nat.add_1_r, Nat2Z.inj_succ.
      destruct (Z.succ (Z.of_nat (length acc)) =? n) eqn:En.
      + apply Z.eqb_eq in En.
        replace ((1 <=? n - Z.of_nat (length acc)) && (n - Z.of_nat (length acc) <=? Z.succ (Z.of_nat f))) with true
          by (symmetry; apply andb_true_iff; rewrite !Z.leb_le; lia).
        replace (n - Z.of_nat (length acc)) with 1 by lia. cbn [Z.to_nat Pos.to_nat Pos.iter_op Nat.add].
        unfold ints_vals. cbn [seq map]. unfold int_at. reflexivity.
      + apply Z.eqb_neq in En.
        rewrite IH by (cbn [counter]; lia). cbv zeta. cbn [seed counter].
        rewrite app_length. cbn [length]. rewrite Nat.add_1_r, Nat2Z.inj_succ.
        set (need := n - Z.of_nat (length acc)).
        replace (n - Z.succ (Z.of_nat (length acc))) with (need - 1) by (unfold need; lia).
        destruct ((1 <=? need) && (need <=? Z.succ (Z.of_nat f))) eqn:E1.
        * apply andb_true_iff in E1. rewrite !Z.leb_le in E1.
          assert (need <> 1) by (unfold need; lia).
          replace ((1 <=? need - 1) && (need - 1 <=? Z.of_nat f)) with true
            by (symmetry; apply andb_true_iff; rewrite !Z.leb_le; lia).
          replace (Z.to_nat need) with (S (Z.to_nat (need - 1))) by lia.
          rewrite ints_vals_shift, <- app_assoc. cbn [app]. unfold int_at.
          do 2 f_equal. f_equal. lia.
        * replace ((1 <=? need - 1) && (need - 1 <=? Z.of_nat f)) with false.
          2:{ symmetry. apply andb_false_iff. apply andb_false_iff in E1. rewrite !Z.leb_gt in *.
              unfold need in *. lia. }
          rewrite ints_vals_shift, <- app_assoc. cbn [app]. unfold int_at.
          do 2 f_equal. f_equal. lia.
  Qed.

  Definition nonce_seed (c : coin) (nonce : Z) : D := merge_with_int (seed c) nonce.

  (* Exact behaviour of draw_integers on its whole domain (n, dom arbitrary integers >= 0). *)
  Theorem draw_integers_spec c n dom nonce : 0 <= n ->
    let s' := nonce_seed c nonce in
    draw_integers c n dom nonce =
      if negb (is_pow2 dom) then (c, Panic)
      else if dom <=? n then (c, Err)
      else if n =? 0 then (mkCoin s' 1000, Ok (ints_vals s' 0 (dom - 1) 1000))
      else if n <=? 1000 then (mkCoin s' n, Ok (ints_vals s' 0 (dom - 1) (Z.to_nat n)))
      else (mkCoin s' 1000, Err).
  Proof.
    intros Hn. cbv zeta. unfold coin_draw_integers, nonce_seed.
    destruct (is_pow2 dom); cbn [negb]; [|reflexivity].
    destruct (n <? dom) eqn:Elt.
    2:{ apply Z.ltb_ge in Elt. apply Z.leb_le in Elt. rewrite Elt. reflexivity. }
    apply Z.ltb_lt in Elt. replace (dom <=? n) with false by (symmetry; apply Z.leb_gt; lia). cbn [negb].
    unfold draw_tries. rewrite ints_loop_spec by (cbn; lia). cbv zeta. cbn [seed counter length].
    rewrite Z.sub_0_r, app_nil_l.
    destruct (n =? 0) eqn:E0.
    - apply Z.eqb_eq in E0. subst n. cbn [Z.leb Z.compare andb]. rewrite ints_vals_length.
      cbn [Z.ltb Z.of_nat Z.compare]. replace (Z.of_nat 1000 <? 0) with false by reflexivity. reflexivity.
    - apply Z.eqb_neq in E0. destruct (n <=? 1000) eqn:E1.
      + apply Z.leb_le in E1.
        replace ((1 <=? n) && (n <=? Z.of_nat 1000)) with true
          by (symmetry; apply andb_true_iff; rewrite !Z.leb_le; lia).
        rewrite ints_vals_length. replace (Z.of_nat (Z.to_nat n) <? n) with false by (symmetry; apply Z.ltb_ge; lia).
        rewrite Z2Nat.id by lia. reflexivity.
      + apply Z.leb_gt in E1.
        replace ((1 <=? n) && (n <=? Z.of_nat 1000)) with false
          by (symmetry; apply andb_false_iff; right; apply Z.leb_gt; lia).
        rewrite ints_vals_length. replace (Z.of_nat 1000 <? n) with true by (symmetry; apply Z.ltb_lt; lia).
        reflexivity.
  Qed.

  (* each value is the PRNG word reduced modulo the domain size, hence in [0, dom) *)
  Lemma int_at_mod s cnt k j : 0 <= k -> int_at s cnt (2 ^ k - 1) j = le64 (prng s cnt (Z.of_nat j)) mod 2 ^ k.
  Proof. intros Hk. unfold int_at. apply land_pow2_mask; assumption. Qed.

  Lemma ints_vals_range s cnt k m : 0 <= k -> Forall (fun v => 0 <= v < 2 ^ k) (ints_vals s cnt (2 ^ k - 1) m).
  Proof.
    intros Hk. apply Forall_forall. intros v Hv. unfold ints_vals in Hv. apply in_map_iff in Hv.
    destruct Hv as [j [<- _]]. rewrite int_at_mod by assumption. apply Z.mod_pos_bound.
    apply Z.pow_pos_nonneg; lia.
  Qed.

  (* the contract of the property text: counts 1..1000 below a power-of-two domain size *)
  Theorem draw_integers_ok c n dom nonce : is_pow2 dom = true -> 1 <= n <= 1000 -> n < dom ->
    exists vals, draw_integers c n dom nonce = (mkCoin (nonce_seed c nonce) n, Ok vals) /\
                 Z.of_nat (length vals) = n /\ Forall (fun v => 0 <= v < dom) vals /\
                 vals = map (fun j => le64 (prng (nonce_seed c nonce) 0 (Z.of_nat j)) mod dom) (seq 1 (Z.to_nat n)).
  Proof.
    intros Hp Hn Hlt. apply is_pow2_spec in Hp as Hk. destruct Hk as [k [Hk ->]].
    pose proof (draw_integers_spec c n (2 ^ k) nonce ltac:(lia)) as H. cbv zeta in H.
    rewrite Hp in H. cbn [negb] in H.
    replace (2 ^ k <=? n) with false in H by (symmetry; apply Z.leb_gt; lia).
    replace (n =? 0) with false in H by (symmetry; apply Z.eqb_neq; lia).
    replace (n <=? 1000) with true in H by (symmetry; apply Z.leb_le; lia).
    eexists. split; [exact H|]. rewrite ints_vals_length. split; [lia|]. split.
    - apply ints_vals_range; assumption.
    - unfold ints_vals. apply map_ext. intros j. apply int_at_mod; assumption.
  Qed.

  Theorem draw_integers_panic_iff c n dom nonce : 0 <= n ->
    (snd (draw_integers c n dom nonce) = Panic <-> ~ exists k, 0 <= k /\ dom = 2 ^ k).
  Proof.
    intros Hn. pose proof (draw_integers_spec c n dom nonce Hn) as H. cbv zeta in H. rewrite H. clear H.
    destruct (is_pow2 dom) eqn:Ep; cbn [negb].
    - apply is_pow2_spec in Ep.
      destruct (dom <=? n); [|destruct (n =? 0); [|destruct (n <=? 1000)]]; cbn;
        (split; [discriminate|intros Hc; contradiction]).
    - cbn. split; [intros _|reflexivity]. intros Hk. apply is_pow2_spec in Hk. congruence.
  Qed.

  Theorem draw_integers_err_iff c n dom nonce : 0 <= n ->
    (snd (draw_integers c n dom nonce) = Err <-> (is_pow2 dom = true /\ (dom <= n \/ 1000 < n))).
  Proof.
    intros Hn. pose proof (draw_integers_spec c n dom nonce Hn) as H. cbv zeta in H. rewrite H. clear H.
    destruct (is_pow2 dom) eqn:Ep; cbn [negb].
    - destruct (dom <=? n) eqn:El; [apply Z.leb_le in El; cbn; split; [intros _; split; [reflexivity|lia]|reflexivity]|].
      apply Z.leb_gt in El. destruct (n =? 0) eqn:E0; [apply Z.eqb_eq in E0; cbn; split; [discriminate|lia]|].
      destruct (n <=? 1000) eqn:E1; cbn.
      + apply Z.leb_le in E1. split; [discriminate|lia].
      + apply Z.leb_gt in E1. split; [intros _; split; [reflexivity|lia]|reflexivity].
    - cbn. split; [discriminate|]. intros [Hc _]. discriminate.
  Qed.

  (* the quirk outside the property's quantifier: zero requested values -> 1000 values *)
  Theorem draw_integers_zero_count c dom nonce : is_pow2 dom = true ->
    exists vals, draw_integers c 0 dom nonce = (mkCoin (nonce_seed c nonce) 1000, Ok vals) /\ length vals = 1000%nat.
  Proof.
    intros Hp. pose proof (draw_integers_spec c 0 dom nonce ltac:(lia)) as H. cbv zeta in H.
    rewrite Hp in H. cbn [negb] in H.
    assert (0 < dom) by (unfold is_pow2 in Hp; apply andb_true_iff in Hp; destruct Hp as [Hp _]; apply Z.ltb_lt in Hp; lia).
    replace (dom <=? 0) with false in H by (symmetry; apply Z.leb_gt; lia). cbn [Z.eqb] in H.
    eexists. split; [exact H|]. apply ints_vals_length.
  Qed.

  Lemma draw_integers_state c n dom nonce : 0 <= n ->
    let c' := fst (draw_integers c n dom nonce) in
    (is_pow2 dom && (n <? dom) = true -> seed c' = nonce_seed c nonce /\ 0 <= counter c' <= 1000) /\
    (is_pow2 dom && (n <? dom) = false -> c' = c).
  Proof.
    intros Hn. cbv zeta. rewrite draw_integers_spec by assumption. cbv zeta.
    destruct (is_pow2 dom); cbn [negb andb].
    - destruct (n <? dom) eqn:E.
      + apply Z.ltb_lt in E. replace (dom <=? n) with false by (symmetry; apply Z.leb_gt; lia).
        split; [intros _|discriminate].
        destruct (n =? 0); [cbn; split; [reflexivity|lia]|].
        destruct (n <=? 1000) eqn:E1; cbn; (split; [reflexivity|]); [apply Z.leb_le in E1|]; lia.
      + apply Z.ltb_ge in E. replace (dom <=? n) with true by (symmetry; apply Z.leb_le; lia).
        split; [discriminate|reflexivity].
    - split; [discriminate|reflexivity].
  Qed.

  (* ---------------------------------------------------------------------------------------------- check_leading_zeros, PoW *)

  Theorem check_lz_pure c v : fst (step c (OpLz v)) = c.
  Proof. reflexivity. Qed.

  Theorem check_lz_range c v : 0 <= check_lz c v <= 64.
  Proof. unfold coin_check_lz. apply ctz_range. lia. Qed.

  (* meaning of the measure: 2^t divides the little-endian u64 head of hash(seed || nonce) *)
  Theorem check_lz_ge_iff c v t : (forall d, Forall (fun b => 0 <= b < 256) (dbytes d)) -> 0 <= t <= 64 ->
    (t <= check_lz c v <-> le64 (merge_with_int (seed c) v) mod 2 ^ t = 0).
  Proof.
    intros Hb Ht. unfold coin_check_lz. apply ctz_ge_iff; [assumption|].
    unfold Coin.le64. pose proof (of_le_bytes_bound (firstn 8 (dbytes (merge_with_int (seed c) v)))
                                    (Forall_firstn _ 8 _ (Hb _))) as H.
    destruct H as [H0 H1]. split; [assumption|].
    eapply Z.lt_le_trans; [exact H1|]. change (2 ^ 64) with (256 ^ 8).
    apply Z.pow_le_mono_r; [lia|]. rewrite firstn_length. lia.
  Qed.

  Local Notation search_pred := (pow_search_pred D merge_with_int dbytes).
  Local Notation verifier_accepts := (pow_verifier_accepts D merge_with_int dbytes).
  Local Notation grind_from := (grind_from D merge_with_int dbytes).
  Local Notation grind := (grind D merge_with_int dbytes).

  Theorem pow_pred_agree c gf nonce : search_pred c gf nonce = verifier_accepts c gf nonce.
  Proof.
    unfold pow_search_pred, pow_verifier_accepts. destruct (Z.leb_spec gf (check_lz c nonce));
      destruct (Z.ltb_spec (check_lz c nonce) gf); try reflexivity; lia.
  Qed.

  Lemma grind_from_sound f c gf n0 n : grind_from f c gf n0 = Some n ->
    n0 <= n < 2 ^ 64 - 1 /\ verifier_accepts c gf n = true /\
    forall m, n0 <= m < n -> verifier_accepts c gf m = false.
  Proof.
    revert n0. induction f as [|f IH]; intros n0 H; cbn [Coin.grind_from] in H; [discriminate|].
    destruct (n0 <? 2 ^ 64 - 1) eqn:Eb; [|discriminate]. apply Z.ltb_lt in Eb.
    destruct (search_pred c gf n0) eqn:Ep.
    - injection H as <-. rewrite pow_pred_agree in Ep. repeat split; try lia; try assumption.
    - apply IH in H. destruct H as (Hr & Ha & Hm). repeat split; try lia; try assumption.
      intros m Hm'. destruct (Z.eq_dec m n0) as [->|Hne]; [rewrite <- pow_pred_agree; assumption|].
      apply Hm. lia.
  Qed.

  Lemma grind_from_complete f c gf n0 n : n0 <= n < n0 + Z.of_nat f -> n < 2 ^ 64 - 1 ->
    verifier_accepts c gf n = true -> exists n', grind_from f c gf n0 = Some n' /\ n' <= n.
  Proof.
    revert n0. induction f as [|f IH]; intros n0 Hr Hb Ha; [cbn in Hr; lia|].
    cbn [Coin.grind_from]. replace (n0 <? 2 ^ 64 - 1) with true by (symmetry; apply Z.ltb_lt; lia).
    destruct (search_pred c gf n0) eqn:Ep; [exists n0; split; [reflexivity|lia]|].
    assert (n <> n0) by (intros ->; rewrite pow_pred_agree in Ep; congruence).
    rewrite Nat2Z.inj_succ in Hr. apply IH; try assumption. lia.
  Qed.

  (* The nonce found by the prover's search passes the verifier's test on a coin in the same state, is the
     least such nonce >= 1, and its measure is the trailing-zero count of the head of the very seed that
     draw_integers(.., nonce) installs for the query positions. *)
  Theorem pow_measure_agree fuel c gf nonce : grind fuel c gf = Some nonce ->
    1 <= nonce < 2 ^ 64 - 1 /\
    verifier_accepts c gf nonce = true /\
    (forall m, 1 <= m < nonce -> verifier_accepts c gf m = false) /\
    (forall n dom, 0 <= n -> is_pow2 dom && (n <? dom) = true ->
       check_lz c nonce = ctz 64 (le64 (seed (fst (draw_integers c n dom nonce))))).
  Proof.
    intros H. apply grind_from_sound in H. destruct H as (Hr & Ha & Hm).
    split; [lia|]. split; [exact Ha|]. split; [exact Hm|].
    intros n dom Hn Hv. destruct (draw_integers_state c n dom nonce Hn) as [Hs _]. destruct (Hs Hv) as [-> _].
    reflexivity.
  Qed.

  Theorem grind_complete fuel c gf nonce : 1 <= nonce <= Z.of_nat fuel -> nonce < 2 ^ 64 - 1 ->
    verifier_accepts c gf nonce = true -> exists n', grind fuel c gf = Some n' /\ n' <= nonce.
  Proof. intros Hr Hb Ha. unfold Coin.grind. apply grind_from_complete; try assumption. lia. Qed.

  (* ---------------------------------------------------------------------------------------------- histories *)

  Lemma run_app c a b :
    run c (a ++ b) = let (c1, o1) := run c a in let (c2, o2) := run c1 b in (c2, o1 ++ o2).
  Proof.
    revert c. induction a as [|o a IH]; intros c; cbn [app Coin.run].
    - destruct (run c b). reflexivity.
    - destruct (step c o) as [c1 x]. rewrite IH. destruct (run c1 a) as [c2 o1]. destruct (run c2 b). reflexivity.
  Qed.

  (* equal histories => equal final states and equal outputs (the model has no hidden input) *)
  Theorem coin_deterministic e1 e2 ops1 ops2 : e1 = e2 -> ops1 = ops2 -> run (new e1) ops1 = run (new e2) ops2.
  Proof. intros -> ->. reflexivity. Qed.

  (* outputs of a prefix of the history do not depend on what is done later *)
  Theorem outputs_causal c a b : firstn (length a) (snd (run c (a ++ b))) = snd (run c a).
  Proof.
    rewrite run_app. destruct (run c a) as [c1 o1] eqn:E. destruct (run c1 b) as [c2 o2]. cbn [snd].
    assert (Hl : length o1 = length a).
    { clear -E. revert c c1 o1 E. induction a as [|o a IH]; intros c c1 o1 E; cbn [Coin.run] in E.
      - injection E as <- <-. reflexivity.
      - destruct (step c o) as [c' x]. destruct (run c' a) as [c'' xs] eqn:E'. injection E as <- <-.
        cbn. f_equal. eapply IH; eassumption. }
    rewrite <- Hl, firstn_app, Nat.sub_diag, firstn_all. cbn. apply app_nil_r.
  Qed.

  Local Notation absorb := (absorb D).
  Local Notation absorb_step := (absorb_step D merge merge_with_int).
  Local Notation chain_seed := (chain_seed D hash_elements merge merge_with_int).
  Local Notation op_absorb := (@op_absorb D).
  Local Notation absorbs := (@absorbs D).

  Definition wf_op (o : op) : Prop := match o with OpInts n _ _ => 0 <= n | _ => True end.

  Lemma step_seed c o : wf_op o -> 0 <= counter c ->
    seed (fst (step c o)) = fold_left absorb_step (op_absorb o) (seed c) /\ 0 <= counter (fst (step c o)).
  Proof.
    intros Hw Hc. destruct o as [d|k|n dom nonce|v]; cbn [Coin.step Coin.op_absorb fold_left].
    - cbn. split; [reflexivity|lia].
    - unfold coin_draw. pose proof (draw_loop_state k draw_tries c Hc) as H.
      destruct (draw_loop k draw_tries c) as [c' r]. cbn [fst] in *. split; [tauto|lia].
    - cbn in Hw. destruct (draw_integers_state c n dom nonce Hw) as [H1 H2].
      destruct (draw_integers c n dom nonce) as [c' r]. cbn [fst] in *.
      destruct (is_pow2 dom && (n <? dom)).
      + destruct (H1 eq_refl) as [-> ?]. cbn. split; [reflexivity|lia].
      + rewrite (H2 eq_refl). cbn. split; [reflexivity|lia].
    - cbn. split; [reflexivity|lia].
  Qed.

  Lemma run_seed c ops : Forall wf_op ops -> 0 <= counter c ->
    seed (fst (run c ops)) = fold_left absorb_step (absorbs ops) (seed c) /\ 0 <= counter (fst (run c ops)).
  Proof.
    intros Hw. revert c. induction Hw as [|o ops Ho _ IH]; intros c Hc; cbn [Coin.run].
    - cbn. split; [reflexivity|assumption].
    - destruct (step_seed c o Ho Hc) as [Hs Hc1]. destruct (step c o) as [c1 x]. cbn [fst] in *.
      specialize (IH c1 Hc1). destruct (run c1 ops) as [c2 xs]. cbn [fst] in *.
      unfold Coin.absorbs. cbn [flat_map]. rewrite fold_left_app, <- Hs. exact IH.
  Qed.

  (* the seed after a history is the hash chain over the absorbed data, nothing else *)
  Theorem seed_of_history e ops : Forall wf_op ops -> seed (fst (run (new e) ops)) = chain_seed e (absorbs ops).
  Proof. intros Hw. destruct (run_seed (new e) ops Hw) as [H _]; [cbn; lia|]. exact H. Qed.

  (* the counter is the number of PRNG calls since the last absorb: it is reset by reseed ... *)
  Definition is_reader (o : op) : Prop := match o with OpDraw _ | OpLz _ => True | _ => False end.

  Theorem draws_before_reseed_forgotten c pre d : Forall is_reader pre -> 0 <= counter c ->
    fst (run c (pre ++ [OpReseed d])) = reseed c d.
  Proof.
    intros Hp. revert c. induction Hp as [|o pre Ho _ IH]; intros c Hc; cbn [app Coin.run].
    - reflexivity.
    - assert (Hs : seed (fst (step c o)) = seed c /\ 0 <= counter (fst (step c o))).
      { destruct o as [?|k|? ? ?|v]; cbn in Ho; try contradiction; cbn [Coin.step].
        - unfold coin_draw. pose proof (draw_loop_state k draw_tries c Hc) as H.
          destruct (draw_loop k draw_tries c). cbn [fst] in *. split; [tauto|lia].
        - cbn. split; [reflexivity|assumption]. }
      destruct (step c o) as [c1 x]. cbn [fst] in Hs. destruct Hs as [Hs Hc1].
      specialize (IH c1 Hc1). destruct (run c1 (pre ++ [OpReseed d])) as [c2 xs]. cbn [fst] in *.
      rewrite IH. unfold coin_reseed. rewrite Hs. reflexivity.
  Qed.

  (* ... consequently everything after the reseed is the same whatever was drawn before it *)
  Corollary outputs_after_reseed_independent c pre1 pre2 d rest :
    Forall is_reader pre1 -> Forall is_reader pre2 -> 0 <= counter c ->
    run (fst (run c (pre1 ++ [OpReseed d]))) rest = run (fst (run c (pre2 ++ [OpReseed d]))) rest.
  Proof. intros H1 H2 Hc. rewrite !draws_before_reseed_forgotten by assumption. reflexivity. Qed.

  (* ... and it grows by at most 1000 per operation, so the u64 never overflows in < 2^64/1000 operations *)
  Lemma step_counter c o : wf_op o -> 0 <= counter c ->
    0 <= counter (fst (step c o)) <= counter c + 1000.
  Proof.
    intros Hw Hc. destruct o as [d|k|n dom nonce|v]; cbn [Coin.step].
    - cbn. lia.
    - unfold coin_draw. pose proof (draw_loop_state k draw_tries c Hc) as H.
      destruct (draw_loop k draw_tries c). cbn [fst] in *. unfold draw_tries in H. lia.
    - cbn in Hw. destruct (draw_integers_state c n dom nonce Hw) as [H1 H2].
      destruct (draw_integers c n dom nonce) as [c' r]. cbn [fst] in *.
      destruct (is_pow2 dom && (n <? dom)).
      + destruct (H1 eq_refl) as [_ ?]. lia.
      + rewrite (H2 eq_refl). lia.
    - cbn. lia.
  Qed.

  Theorem counter_bound c ops : Forall wf_op ops -> 0 <= counter c ->
    0 <= counter (fst (run c ops)) <= counter c + 1000 * Z.of_nat (length ops).
  Proof.
    intros Hw. revert c. induction Hw as [|o ops Ho _ IH]; intros c Hc; cbn [Coin.run length].
    - cbn. lia.
    - pose proof (step_counter c o Ho Hc) as H1. destruct (step c o) as [c1 x]. cbn [fst] in *.
      specialize (IH c1 ltac:(lia)). destruct (run c1 ops) as [c2 xs]. cbn [fst] in *.
      rewrite Nat2Z.inj_succ. lia.
  Qed.

  (* a draw strictly advances the counter: one more draw since the last reseed => a different hash input *)
  Theorem extra_draw_changes_input c k : 0 <= counter c -> counter c + 1 < 2 ^ 64 ->
    next_input D (fst (step c (OpDraw k))) <> next_input D c.
  Proof.
    intros Hc Hov. cbn [Coin.step]. pose proof (draw_advances k c Hc Hov) as H.
    destruct (draw k c) as [c' r]. cbn [fst] in *. unfold next_input. intros [= _ He]. lia.
  Qed.

  Theorem more_draws_larger_counter c ks : 0 <= counter c ->
    counter c + 1000 * Z.of_nat (length ks) < 2 ^ 64 ->
    counter c + Z.of_nat (length ks) <= counter (fst (run c (map (@OpDraw D) ks))).
  Proof.
    revert c. induction ks as [|k ks IH]; intros c Hc Hov; cbn [map Coin.run length].
    - cbn. lia.
    - cbn [length] in Hov. rewrite Nat2Z.inj_succ in *. cbn [Coin.step].
      pose proof (draw_advances k c Hc ltac:(lia)) as Ha.
      pose proof (draw_loop_state k draw_tries c Hc) as Hs. change (Z.of_nat draw_tries) with 1000 in Hs.
      unfold coin_draw in *.
      destruct (draw_loop k draw_tries c) as [c1 r]. cbn [fst] in *.
      specialize (IH c1 ltac:(lia) ltac:(lia)). destruct (run c1 (map (@OpDraw D) ks)) as [c2 xs]. cbn [fst] in *. lia.
  Qed.

  (* ---------------------------------------------------------------------------------------------- injectivity of hash inputs *)
  Variable deqb : D -> D -> bool.
  Hypothesis deqb_spec : forall a b, deqb a b = true <-> a = b.

  Local Notation find_collision_rev := (find_collision_rev D hash_elements merge merge_with_int deqb).
  Local Notation find_collision := (find_collision D hash_elements merge merge_with_int deqb).
  Local Notation valid_collision := (valid_collision D hash_elements merge merge_with_int).

  Lemma zlist_eqb_spec a b : zlist_eqb a b = true <-> a = b.
  Proof.
    unfold zlist_eqb. rewrite andb_true_iff, Nat.eqb_eq. split.
    - intros [Hl Hf]. revert b Hl Hf. induction a as [|x a IH]; intros [|y b] Hl Hf; try discriminate; [reflexivity|].
      cbn in Hf. apply andb_true_iff in Hf. destruct Hf as [Hx Hf]. apply Z.eqb_eq in Hx. cbn in Hx. subst y.
      f_equal. apply IH; [cbn in Hl; lia|assumption].
    - intros <-. split; [reflexivity|]. induction a as [|x a IH]; [reflexivity|]. cbn. rewrite Z.eqb_refl. exact IH.
  Qed.

  Lemma chain_seed_snoc e p a : chain_seed e (rev (a :: p)) = absorb_step (chain_seed e (rev p)) a.
  Proof. unfold Coin.chain_seed. cbn [rev]. rewrite fold_left_app. reflexivity. Qed.

  Lemma find_collision_rev_valid e1 r1 e2 r2 :
    (e1, r1) <> (e2, r2) -> chain_seed e1 (rev r1) = chain_seed e2 (rev r2) ->
    valid_collision (find_collision_rev e1 r1 e2 r2).
  Proof.
    revert r2. induction r1 as [|a1 p1 IH]; intros [|a2 p2] Hne Heq.
    - cbn [Coin.find_collision_rev]. destruct (zlist_eqb e1 e2) eqn:E.
      + apply zlist_eqb_spec in E. subst. contradiction.
      + cbn. split; [|exact Heq]. intros ->. rewrite (proj2 (zlist_eqb_spec e2 e2) eq_refl) in E. discriminate.
    - rewrite chain_seed_snoc in Heq. destruct a2; cbn in *; exact Heq.
    - rewrite chain_seed_snoc in Heq. destruct a1; cbn in *; symmetry; exact Heq.
    - rewrite !chain_seed_snoc in Heq. destruct a1 as [d1|n1], a2 as [d2|n2]; cbn [Coin.find_collision_rev].
      + destruct (deqb _ _ && deqb d1 d2) eqn:E.
        * apply andb_true_iff in E. destruct E as [Es Ed]. apply deqb_spec in Es, Ed. subst d2.
          apply IH; [|exact Es]. intros [= -> ->]. contradiction.
        * cbn in *. split; [|exact Heq]. intros [= Hs Hd].
          rewrite (proj2 (deqb_spec _ _) Hs), (proj2 (deqb_spec _ _) Hd) in E. discriminate.
      + cbn in *. exact Heq.
      + cbn in *. symmetry. exact Heq.
      + destruct (deqb _ _ && (n1 =? n2)) eqn:E.
        * apply andb_true_iff in E. destruct E as [Es Ed]. apply deqb_spec in Es. apply Z.eqb_eq in Ed. subst n2.
          apply IH; [|exact Es]. intros [= -> ->]. contradiction.
        * cbn in *. split; [|exact Heq]. intros [= Hs Hd].
          rewrite (proj2 (deqb_spec _ _) Hs), Hd, Z.eqb_refl in E. discriminate.
  Qed.

  Theorem chain_seed_injective_or_collision e1 a1 e2 a2 : (e1, a1) <> (e2, a2) ->
    chain_seed e1 a1 <> chain_seed e2 a2 \/ valid_collision (find_collision e1 a1 e2 a2).
  Proof.
    intros Hne. destruct (deqb (chain_seed e1 a1) (chain_seed e2 a2)) eqn:E.
    - right. apply deqb_spec in E. unfold Coin.find_collision. apply find_collision_rev_valid.
      + intros [= -> Hr]. apply (f_equal (@rev _)) in Hr. rewrite !rev_involutive in Hr. subst. contradiction.
      + rewrite !rev_involutive. exact E.
    - left. intros Heq. apply deqb_spec in Heq. congruence.
  Qed.

  (* Histories of the same shape (same sequence of reseed / draw_integers absorbs): the exhibited collision is
     a collision of ONE oracle (two different argument tuples of hash_elements, of merge, or of merge_with_int),
     never a cross-oracle coincidence.  For histories of different shapes a coincidence such as
     hash_elements e = merge a b is possible without any collision of the underlying hash function: the Rescue
     hashers define merge(a, b) = hash_elements(a ++ b) and the byte hashers hash the plain concatenation in
     all three functions (see Proofs/CoinToy.v, shape_ambiguity_toy). *)
  Definition absorb_kind (a : absorb) : bool := match a with AData _ => true | ANonce _ => false end.
  Definition is_cross (x : collision D) : bool :=
    match x with
    | CrossElemsMerge _ _ _ _ | CrossElemsMergeInt _ _ _ _ | CrossMergeMergeInt _ _ _ _ _ => true
    | _ => false
    end.

  Lemma find_collision_rev_same_shape e1 r1 e2 r2 : map absorb_kind r1 = map absorb_kind r2 ->
    is_cross (find_collision_rev e1 r1 e2 r2) = false.
  Proof.
    revert r2. induction r1 as [|a1 p1 IH]; intros [|a2 p2] Hk; cbn in Hk; try discriminate.
    - cbn [Coin.find_collision_rev]. destruct (zlist_eqb e1 e2); reflexivity.
    - injection Hk as Hk1 Hk2. destruct a1, a2; cbn in Hk1; try discriminate; cbn [Coin.find_collision_rev].
      + destruct (_ && _); [apply IH; assumption|reflexivity].
      + destruct (_ && _); [apply IH; assumption|reflexivity].
  Qed.

  Theorem same_shape_collision_is_proper e1 a1 e2 a2 : map absorb_kind a1 = map absorb_kind a2 ->
    is_cross (find_collision e1 a1 e2 a2) = false.
  Proof.
    intros Hk. unfold Coin.find_collision. apply find_collision_rev_same_shape.
    rewrite !map_rev. f_equal. exact Hk.
  Qed.

  (* Two histories that differ in the seed elements, in any absorbed reseed datum or nonce (or in the
     number / order of absorbs), or in the number of PRNG calls since the last absorb, feed different
     (seed, counter) pairs to merge_with_int at the next draw — unless find_collision returns an
     explicit collision / cross-oracle coincidence of the hash oracles. *)
  Theorem history_inputs_injective e1 ops1 e2 ops2 : Forall wf_op ops1 -> Forall wf_op ops2 ->
    let c1 := fst (run (new e1) ops1) in
    let c2 := fst (run (new e2) ops2) in
    (e1, absorbs ops1) <> (e2, absorbs ops2) \/ counter c1 <> counter c2 ->
    next_input D c1 <> next_input D c2 \/
    valid_collision (find_collision e1 (absorbs ops1) e2 (absorbs ops2)).
  Proof.
    intros Hw1 Hw2 c1 c2 [Hne|Hc].
    - destruct (chain_seed_injective_or_collision _ _ _ _ Hne) as [Hs|Hcol]; [left|right; exact Hcol].
      unfold next_input, c1, c2. rewrite !seed_of_history by assumption. intros [= Hs' _]. contradiction.
    - left. unfold next_input. intros [= _ He]. lia.
  Qed.
End CoinProofs.

(* ------------------------------------------------------------------------------------------------ *)
(* The model depends on its hash oracles only through their values: two oracle triples that agree pointwise give
   the same runs (no hidden state, no dependence on anything but the history). *)
Section OracleExt.
  Variable D : Type.
  Variables (m1 m2 : D -> D -> D) (i1 i2 : D -> Z -> D) (b1 b2 : D -> list Z).
  Hypothesis Hm : forall a b, m1 a b = m2 a b.
  Hypothesis Hi : forall a n, i1 a n = i2 a n.
  Hypothesis Hb : forall a, b1 a = b2 a.

  Lemma next_ext c : coin_next D i1 c = coin_next D i2 c.
  Proof. unfold coin_next. rewrite Hi. reflexivity. Qed.

  Lemma draw_loop_ext k f c : draw_loop D i1 b1 k f c = draw_loop D i2 b2 k f c.
  Proof.
    revert c. induction f as [|f IH]; intros c; cbn [draw_loop]; [reflexivity|].
    rewrite next_ext. destruct (coin_next D i2 c) as [[c' d]|]; [|reflexivity].
    rewrite Hb. destruct (32 <? elem_bytes k)%nat; [reflexivity|]. destruct (from_random_bytes _ _); [reflexivity|apply IH].
  Qed.

  Lemma ints_loop_ext f c mask n acc : ints_loop D i1 b1 f c mask n acc = ints_loop D i2 b2 f c mask n acc.
  Proof.
    revert c acc. induction f as [|f IH]; intros c acc; cbn [ints_loop]; [reflexivity|].
    rewrite next_ext. destruct (coin_next D i2 c) as [[c' d]|]; [|reflexivity].
    unfold le64. rewrite Hb. destruct (_ =? n); [reflexivity|apply IH].
  Qed.

  Lemma step_ext c o : step D m1 i1 b1 c o = step D m2 i2 b2 c o.
  Proof.
    destruct o as [d|k|n dom nonce|v]; cbn [step].
    - unfold coin_reseed. rewrite Hm. reflexivity.
    - unfold coin_draw. rewrite draw_loop_ext. reflexivity.
    - unfold coin_draw_integers. rewrite Hi, ints_loop_ext. reflexivity.
    - unfold coin_check_lz, le64. rewrite Hi, Hb. reflexivity.
  Qed.

  Theorem run_oracle_ext c ops : run D m1 i1 b1 c ops = run D m2 i2 b2 c ops.
  Proof.
    revert c. induction ops as [|o ops IH]; intros c; cbn [run]; [reflexivity|].
    rewrite step_ext. destruct (step D m2 i2 b2 c o) as [c1 x]. rewrite IH. reflexivity.
  Qed.
End OracleExt.
