(* Proofs/UntrustedBulk.v — C06: no bulk read with an untrusted, unbounded length is reachable in Proof::from_bytes.
   read_Proof_chk (Model/Untrusted.v: read_Proof with the `pos + n` of SliceReader::check_eor made explicit at every bulk
   read) coincides with read_Proof on every input shorter than 2^63 bytes, so the overflow branch is dead; the same bulk
   read applied to the vint64 length of the GKR proof is not (gkr_bulk_read_refuted). *)
From VBase Require Import MachInt.
From VModel Require Import Codec Untrusted.
From VProofs Require Import CodecPrim CodecTypes CodecTotal UntrustedParse UntrustedAlloc.
Open Scope Z_scope.

(* [agree total rc r]: on byte input which is a rest of a source of [total] bytes the two readers coincide *)
Definition agree (total : Z) {T} (rc r : Rd T) : Prop := forall bs, is_bytes bs -> len bs <= total -> rc bs = r bs.

Lemma agree_refl total {T} (r : Rd T) : agree total r r.
Proof. intros bs _ _. reflexivity. Qed.

Lemma agree_bind total {T U} (P : T -> Prop) (rc r : Rd T) (fc f : T -> Rd U) :
  agree total rc r -> okP P r -> eats 0 r -> (forall a, P a -> agree total (fc a) (f a)) -> agree total (bind rc fc) (bind r f).
Proof.
  intros Hr Hok He Hf bs Hbs Hl. unfold bind. rewrite (Hr bs Hbs Hl).
  destruct (r bs) as [[a rest]| |] eqn:E; auto.
  destruct (Hok bs Hbs a rest E) as [Pa Hrest]. specialize (He bs a rest E). apply Hf; auto. lia.
Qed.

Lemma agree_bind_same total {T U} (rc r : Rd T) (f : T -> Rd U) : agree total rc r -> agree total (bind rc f) (bind r f).
Proof. intros Hr bs Hbs Hl. unfold bind. now rewrite (Hr bs Hbs Hl). Qed.

Lemma agree_if total {T} (c : bool) (a1 a2 b1 b2 : Rd T) :
  agree total a1 b1 -> agree total a2 b2 -> agree total (if c then a1 else a2) (if c then b1 else b2).
Proof. destruct c; auto. Qed.

Lemma okP_any {T} (r : Rd T) : safeP any r -> okP (fun _ => True) r.
Proof. intros H. apply okP_of_safe. eapply safe_weaken; [|exact H]. auto. Qed.

(* the heart: with a length below 2^63 the checked bulk read is Codec's read_slice *)
Lemma agree_slice total n : total < 2 ^ 63 -> 0 <= n < 2 ^ 63 -> agree total (read_slice_chk total n) (read_slice n).
Proof.
  intros Ht Hn bs Hbs Hl. unfold read_slice_chk, bind, check_eor. pose proof (len_nonneg bs).
  destruct (Z.gtb_spec (total - len bs + n) usize_max); [unfold usize_max in *; lia|].
  destruct (Z.gtb_spec (total - len bs + n) total).
  - unfold read_slice. destruct (Z.leb_spec n (len bs)); [lia | reflexivity].
  - reflexivity.
Qed.

Lemma agree_blob total k : total < 2 ^ 63 -> (k <= 4)%nat -> agree total (read_blob_chk total k) (read_blob k).
Proof.
  intros Ht Hk. unfold read_blob_chk, read_blob, read_vec, read_vec_chk.
  eapply agree_bind; [apply agree_refl | apply okP_of_safe, safe_read_uint | eapply eats_weaken; [|apply eats_read_uint]; lia |].
  intros n Hn. cbv beta in Hn. apply agree_slice; auto.
  assert (256 ^ Z.of_nat k <= 256 ^ 4) by (apply Z.pow_le_mono_r; lia). change (256 ^ 4) with 4294967296 in *. lia.
Qed.

(* read_many of agreeing readers *)
Lemma agree_many_nat total {T} (rc r : Rd T) n : agree total rc r -> okP (fun _ => True) r -> eats 0 r ->
  agree total (read_many_nat rc n) (read_many_nat r n).
Proof.
  intros Ha Hok He. induction n as [|n IH]; intros bs Hbs Hl; cbn [read_many_nat]; [reflexivity|].
  rewrite (Ha bs Hbs Hl). destruct (r bs) as [[a rest]| |] eqn:E; auto.
  destruct (Hok bs Hbs a rest E) as [_ Hrest]. specialize (He bs a rest E). rewrite (IH rest Hrest ltac:(lia)). reflexivity.
Qed.

Lemma agree_many total {T} (rc r : Rd T) n : agree total rc r -> okP (fun _ => True) r -> eats 0 r ->
  agree total (read_many rc n) (read_many r n).
Proof.
  intros Ha Hok He bs Hbs Hl. destruct (Z_le_gt_dec n 0).
  - unfold read_many. destruct n; try lia; reflexivity.
  - rewrite <- (Z2Nat.id n) by lia. rewrite !read_many_spec. apply (agree_many_nat total rc r (Z.to_nat n) Ha Hok He bs Hbs Hl).
Qed.

Lemma eats_many_nat {T} (r : Rd T) n : eats 0 r -> eats 0 (read_many_nat r n).
Proof.
  intros He. induction n as [|n IH]; intros bs a rest E; cbn [read_many_nat] in E.
  - inversion E; subst. lia.
  - destruct (r bs) as [[x bs']| |] eqn:E1; try discriminate.
    destruct (read_many_nat r n bs') as [[l bs'']| |] eqn:E2; try discriminate. inversion E; subst.
    specialize (He bs x bs' E1). specialize (IH bs' l rest E2). lia.
Qed.

Lemma eats_many {T} (r : Rd T) n : eats 0 r -> eats 0 (read_many r n).
Proof.
  intros He bs a rest E. destruct (Z_le_gt_dec n 0).
  - unfold read_many in E. destruct n; try lia; inversion E; subst; lia.
  - rewrite <- (Z2Nat.id n) in E by lia. rewrite read_many_spec in E. eapply eats_many_nat; eauto.
Qed.

Section Agree.
  Variable total : Z.
  Hypothesis Ht : total < 2 ^ 63.

  Lemma agree_TraceInfo : agree total (read_TraceInfo_chk total) read_TraceInfo.
  Proof.
    unfold read_TraceInfo_chk, read_TraceInfo.
    eapply agree_bind; [apply agree_refl | apply okP_of_safe, safe_read_u8 | eapply eats_weaken; [|apply eats_read_u8]; lia|]. intros main _.
    apply agree_if; [apply agree_refl|].
    eapply agree_bind; [apply agree_refl | apply okP_of_safe, safe_read_u8 | eapply eats_weaken; [|apply eats_read_u8]; lia|]. intros aux _.
    apply agree_if; [apply agree_refl|].
    eapply agree_bind; [apply agree_refl | apply okP_of_safe, safe_read_u8 | eapply eats_weaken; [|apply eats_read_u8]; lia|]. intros rands _.
    apply agree_if; [apply agree_refl|]. apply agree_if; [apply agree_refl|].
    eapply agree_bind; [apply agree_refl | apply okP_of_safe, safe_read_u8 | eapply eats_weaken; [|apply eats_read_u8]; lia|]. intros e _.
    apply agree_if; [apply agree_refl|]. apply agree_if; [apply agree_refl|].
    eapply agree_bind; [apply agree_refl | apply okP_of_safe, (safe_read_uint 2) | eapply eats_weaken; [|apply (eats_read_uint 2)]; lia|].
    intros n Hn. cbv beta in Hn. change (256 ^ Z.of_nat 2) with 65536 in Hn.
    apply agree_bind_same. apply agree_if; [|apply agree_refl].
    unfold read_vec_chk, read_vec. apply agree_slice; auto. lia.
  Qed.

  Lemma agree_Context : agree total (read_Context_chk total) read_Context.
  Proof.
    unfold read_Context_chk, read_Context.
    eapply agree_bind; [apply agree_TraceInfo | apply okP_any, (safe_any _ _ read_TraceInfo_no_panic) | apply eats_read_TraceInfo|]. intros t _.
    eapply agree_bind; [apply agree_refl | apply okP_of_safe, safe_read_u8 | eapply eats_weaken; [|apply eats_read_u8]; lia|]. intros n Hn.
    cbv beta in Hn. apply agree_if; [apply agree_refl|].
    apply agree_bind_same. unfold read_vec_chk, read_vec. apply agree_slice; auto. lia.
  Qed.

  Lemma agree_Queries : agree total (read_Queries_chk total) read_Queries.
  Proof.
    unfold read_Queries_chk, read_Queries.
    eapply agree_bind; [apply agree_blob; auto | apply okP_any, (safe_any _ _ (safe_read_blob 4)) | eapply eats_weaken; [|apply (eats_read_blob 4)]; lia|]. intros v _.
    apply agree_bind_same. apply agree_blob; auto.
  Qed.

  Lemma agree_OodFrame : agree total (read_OodFrame_chk total) read_OodFrame.
  Proof.
    unfold read_OodFrame_chk, read_OodFrame.
    eapply agree_bind; [apply agree_blob; auto | apply okP_any, (safe_any _ _ (safe_read_blob 2)) | eapply eats_weaken; [|apply (eats_read_blob 2)]; lia|]. intros t _.
    eapply agree_bind; [apply agree_blob; auto | apply okP_any, (safe_any _ _ (safe_read_blob 2)) | eapply eats_weaken; [|apply (eats_read_blob 2)]; lia|]. intros l _.
    apply agree_bind_same. apply agree_blob; auto.
  Qed.

  Lemma agree_FriProofLayer : agree total (read_FriProofLayer_chk total) read_FriProofLayer.
  Proof.
    unfold read_FriProofLayer_chk, read_FriProofLayer, read_u32.
    eapply agree_bind; [apply agree_refl | apply okP_of_safe, (safe_read_uint 4) | eapply eats_weaken; [|apply (eats_read_uint 4)]; lia|].
    intros n Hn. cbv beta in Hn. change (256 ^ Z.of_nat 4) with 4294967296 in Hn.
    apply agree_if; [apply agree_refl|].
    eapply agree_bind; [unfold read_vec_chk, read_vec; apply agree_slice; auto; lia | unfold read_vec; apply okP_any, (safe_any _ _ (safe_read_slice n)) | unfold read_vec; apply eats_read_slice|].
    intros v _. apply agree_bind_same. apply agree_blob; auto.
  Qed.

  Lemma agree_FriProof : agree total (read_FriProof_chk total) read_FriProof.
  Proof.
    unfold read_FriProof_chk, read_FriProof.
    eapply agree_bind; [apply agree_refl | apply okP_of_safe, safe_read_u8 | eapply eats_weaken; [|apply eats_read_u8]; lia|]. intros n _.
    eapply agree_bind.
    - apply agree_many; [apply agree_FriProofLayer | apply okP_any, read_FriProofLayer_no_panic | eapply eats_weaken; [|apply eats_read_FriProofLayer]; lia].
    - apply okP_any. eapply safe_any. apply (safe_read_many _ _ n read_FriProofLayer_no_panic).
    - apply eats_many. eapply eats_weaken; [|apply eats_read_FriProofLayer]; lia.
    - intros layers _. apply agree_bind_same. apply agree_blob; auto.
  Qed.

  Lemma eats_read_OodFrame : eats 0 read_OodFrame.
  Proof.
    unfold read_OodFrame. replace 0 with (0 + (0 + (0 + 0))) by lia.
    apply eats_bind; [eapply eats_weaken; [|apply (eats_read_blob 2)]; lia|]. intros t.
    apply eats_bind; [eapply eats_weaken; [|apply (eats_read_blob 2)]; lia|]. intros l.
    apply eats_bind; [eapply eats_weaken; [|apply (eats_read_blob 2)]; lia|]. intros e. apply eats_ret.
  Qed.

  Theorem agree_Proof : agree total (read_Proof_chk total) read_Proof.
  Proof.
    unfold read_Proof_chk, read_Proof.
    eapply agree_bind; [apply agree_Context | apply okP_any, read_Context_no_panic | apply eats_read_Context|]. intros c _.
    eapply agree_bind; [apply agree_refl | apply okP_of_safe, safe_read_u8 | eapply eats_weaken; [|apply eats_read_u8]; lia|]. intros nuq _.
    eapply agree_bind; [apply agree_blob; auto | apply okP_any, (safe_any _ _ (safe_read_blob 2)) | eapply eats_weaken; [|apply (eats_read_blob 2)]; lia|]. intros com _.
    eapply agree_bind.
    - apply agree_many; [apply agree_Queries | apply okP_any, read_Queries_no_panic | eapply eats_weaken; [|apply eats_read_Queries]; lia].
    - apply okP_any. eapply safe_any. apply (safe_read_many _ _ _ read_Queries_no_panic).
    - apply eats_many. eapply eats_weaken; [|apply eats_read_Queries]; lia.
    - intros tq _.
      eapply agree_bind; [apply agree_Queries | apply okP_any, read_Queries_no_panic | eapply eats_weaken; [|apply eats_read_Queries]; lia|]. intros cq _.
      eapply agree_bind; [apply agree_OodFrame | apply okP_any, read_OodFrame_no_panic | apply eats_read_OodFrame|]. intros ood _.
      apply agree_bind_same. apply agree_FriProof.
  Qed.
End Agree.

(* Proof::from_bytes with the position arithmetic of check_eor at every bulk read IS the reader of Codec.v: the overflow
   branch of `pos + n` is unreachable, for every input a slice can hold *)
Theorem read_Proof_chk_eq : forall bs, is_bytes bs -> len bs < 2 ^ 63 -> read_Proof_chk (len bs) bs = read_Proof bs.
Proof. intros bs Hbs Hl. apply (agree_Proof (len bs) Hl bs Hbs). lia. Qed.

(* ... whereas a bulk read of the GKR component's vint64 length panics: 10 bytes `01 00 F6 FF FF FF FF FF FF FF` at the end
   of a 10-byte source (tag, 9-byte length 2^64 - 10: position 10 + length wraps to 0) *)
Theorem gkr_bulk_read_refuted :
  read_gkr_bulk 10 [1; 0; 246; 255; 255; 255; 255; 255; 255; 255] = Panic /\
  read_option (read_vec_of read_u8) [1; 0; 246; 255; 255; 255; 255; 255; 255; 255] = Err Eof.
Proof. vm_compute. split; reflexivity. Qed.
