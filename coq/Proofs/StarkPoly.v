(* C01 — polynomial layer of the completeness proof: root-factor lemma, divisibility by the vanishing polynomial
   of a set of distinct roots, the vanishing polynomial of the trace domain, segments of the composition
   polynomial.  stdlib style.  All statements are for every `FOps F` satisfying the field laws `FLaws`. *)
From Coq Require Import List Arith Bool Lia Ring Field FinFun.
From VBase Require Import FieldOps.
From VModel Require Import Stark.
Import ListNotations.

Section Poly.
Context {F : Type} (O : FOps F) (L : FLaws O).
Local Notation zero := (fzero O).
Local Notation one := (fone O).
Local Notation "a +f b" := (fadd O a b) (at level 50, left associativity).
Local Notation "a -f b" := (fsub O a b) (at level 50, left associativity).
Local Notation "a *f b" := (fmul O a b) (at level 40, left associativity).
Local Notation peval := (peval O).
Local Notation fpow := (fpow O).
Local Notation pprod := (pprod O).
Local Notation syn1 := (syn1 O).

Add Ring Fring : (FLaws_ring_theory O L).
Add Field Ffield : (FLaws_field_theory O L).

(* ------------------------------------------------------------------ field facts *)
Lemma feqb_true a b : feqb O a b = true -> a = b.
Proof. apply (fl_eqb_spec O L). Qed.
Lemma feqb_refl a : feqb O a a = true.
Proof. now apply (fl_eqb_spec O L). Qed.
Lemma feqb_false a b : feqb O a b = false -> a <> b.
Proof. intros H E. subst. rewrite feqb_refl in H. discriminate. Qed.
Lemma feqb_neq a b : a <> b -> feqb O a b = false.
Proof. intros H. destruct (feqb O a b) eqn:E; auto. apply feqb_true in E. contradiction. Qed.

Lemma fmul_integral a b : a *f b = zero -> a = zero \/ b = zero.
Proof.
  intros H. destruct (feqb O a zero) eqn:E. { left. now apply feqb_true. }
  right. apply feqb_false in E.
  assert (b = finv O a *f (a *f b)) as ->. { field. exact E. }
  rewrite H. ring.
Qed.
Lemma fsub_eq_zero a b : a -f b = zero -> a = b.
Proof. intros H. assert (a = (a -f b) +f b) as -> by ring. rewrite H. ring. Qed.
Lemma fsub_neq_zero a b : a <> b -> a -f b <> zero.
Proof. intros H E. apply H. now apply fsub_eq_zero. Qed.

Lemma fpow_add x a b : fpow x (a + b) = fpow x a *f fpow x b.
Proof. induction a; simpl; [ring | rewrite IHa; ring]. Qed.
Lemma fpow_mul x a b : fpow x (a * b) = fpow (fpow x b) a.
Proof. induction a; simpl; [reflexivity | rewrite fpow_add, IHa; reflexivity]. Qed.
Lemma fpow_one n : fpow one n = one.
Proof. induction n; simpl; [reflexivity | rewrite IHn; ring]. Qed.

(* ------------------------------------------------------------------ evaluation *)
Lemma peval_app p q x : peval (p ++ q) x = peval p x +f fpow x (length p) *f peval q x.
Proof. induction p; simpl; [ring | rewrite IHp; ring]. Qed.
Lemma peval_repeat_zero n x : peval (repeat zero n) x = zero.
Proof. induction n; simpl; [reflexivity | rewrite IHn; ring]. Qed.
Lemma peval_removelast q x : last q zero = zero -> peval (removelast q) x = peval q x.
Proof.
  induction q as [|h t IH]; [reflexivity|]. destruct t as [|t0 t1].
  - simpl. intros ->. ring.
  - intros H. change (removelast (h :: t0 :: t1)) with (h :: removelast (t0 :: t1)).
    change (last (h :: t0 :: t1) zero) with (last (t0 :: t1) zero) in H.
    cbn [Stark.peval]. rewrite (IH H). reflexivity.
Qed.
Lemma removelast_length {A} (l : list A) : length (removelast l) = length l - 1.
Proof. induction l as [|h t IH]; [reflexivity|]. destruct t; [reflexivity|]. simpl in *. rewrite IH. lia. Qed.

(* ------------------------------------------------------------------ one pass of synthetic division = root factor *)
Lemma syn1_spec root : forall p q c, syn1 p root = (q, c) ->
  (forall x, peval p x = (x -f root) *f peval q x +f c) /\ length q = length p /\ c = peval p root /\
  (p <> [] -> last q zero = zero).
Proof.
  induction p as [|h t IH]; intros q c E.
  - simpl in E. inversion E; subst. simpl. repeat split; intros; try ring; try reflexivity; try congruence.
  - cbn [Stark.syn1] in E. destruct (syn1 t root) as [t' ct] eqn:Et. inversion E; subst q c. clear E.
    destruct (IH t' ct eq_refl) as (H1 & H2 & H3 & H4).
    split. { intros x. cbn [Stark.peval]. rewrite (H1 x). ring. }
    split. { simpl. now rewrite H2. }
    split. { cbn [Stark.peval]. rewrite H3. ring. }
    intros _. destruct t as [|t0 t1].
    + simpl in Et. inversion Et; subst. reflexivity.
    + destruct t' as [|u t']; [simpl in H2; discriminate|].
      change (last (ct :: u :: t') zero) with (last (u :: t') zero). apply H4. discriminate.
Qed.

(* p(a) = 0  ->  p = (x - a) * q  with  deg q = deg p - 1 *)
Theorem root_factor p a : peval p a = zero ->
  exists q, length q = length p - 1 /\ forall x, peval p x = (x -f a) *f peval q x.
Proof.
  intros H. destruct (syn1 p a) as [q c] eqn:E. destruct (syn1_spec a p q c E) as (H1 & H2 & H3 & H4).
  exists (removelast q). split. { rewrite removelast_length. lia. }
  intros x. destruct p as [|h t].
  - simpl in E. inversion E; subst. simpl. ring.
  - rewrite peval_removelast by (apply H4; discriminate). rewrite (H1 x), H3, H. ring.
Qed.

(* the general form used by the DEEP quotients: (p(x) - p(a)) = (x - a) * q(x), q = fst (syn1 p a) *)
Lemma syn1_quotient p a x : peval p x -f peval p a = (x -f a) *f peval (fst (syn1 p a)) x.
Proof.
  destruct (syn1 p a) as [q c] eqn:E. destruct (syn1_spec a p q c E) as (H1 & _ & H3 & _).
  simpl. rewrite (H1 x), H3. ring.
Qed.

(* deep_quotients_are_polys: (T(x) - T(z)) / (x - z) is a polynomial with one coefficient less than T, namely the
   output of syn_div_in_place(T - T(z), 1, z) without its (zero) top coefficient *)
Theorem deep_quotient_is_poly T z :
  exists q, length q = length T - 1 /\ forall x, peval T x -f peval T z = (x -f z) *f peval q x.
Proof.
  destruct (syn1 T z) as [q c] eqn:E. destruct (syn1_spec z T q c E) as (H1 & H2 & H3 & H4).
  exists (removelast q). split. { rewrite removelast_length. lia. }
  intros x. destruct T as [|h t].
  - simpl in E. inversion E; subst. simpl. ring.
  - rewrite peval_removelast by (apply H4; discriminate). rewrite (H1 x), H3. ring.
Qed.

(* ------------------------------------------------------------------ divisibility by a vanishing polynomial *)
Lemma pprod_app xs ys x : pprod (xs ++ ys) x = pprod xs x *f pprod ys x.
Proof. induction xs; simpl; [ring | rewrite IHxs; ring]. Qed.
Lemma pprod_root : forall xs r, In r xs -> pprod xs r = zero.
Proof. induction xs as [|a t IH]; simpl; intros r H; [contradiction|]. destruct H as [->|H]; [ring | rewrite (IH r H); ring]. Qed.
Lemma pprod_nonroot : forall xs r, ~ In r xs -> pprod xs r <> zero.
Proof.
  induction xs as [|a t IH]; simpl; intros r H. { apply (fl_one_neq_zero O L). }
  intros E. apply fmul_integral in E. destruct E as [E|E].
  - apply H. left. symmetry. now apply fsub_eq_zero.
  - apply (IH r); tauto.
Qed.

(* a polynomial vanishing on a set of distinct points is divisible by the vanishing polynomial of the set *)
Theorem vanish_divisible : forall roots p, NoDup roots -> (forall r, In r roots -> peval p r = zero) ->
  exists q, length q = length p - length roots /\ forall x, peval p x = pprod roots x *f peval q x.
Proof.
  induction roots as [|a t IH]; intros p ND H.
  - exists p. split; [simpl; lia|]. intros x. simpl. ring.
  - inversion ND as [|? ? Hna ND']; subst.
    destruct (root_factor p a (H a (or_introl eq_refl))) as (q1 & Hl1 & Hq1).
    assert (Hr : forall r, In r t -> peval q1 r = zero).
    { intros r Hr. assert (E : (r -f a) *f peval q1 r = zero). { rewrite <- Hq1. apply H. now right. }
      apply fmul_integral in E. destruct E as [E|E]; [|exact E].
      exfalso. apply Hna. apply fsub_eq_zero in E. now subst. }
    destruct (IH q1 ND' Hr) as (q & Hl & Hq).
    exists q. split. { simpl. lia. }
    intros x. rewrite Hq1, Hq. simpl. ring.
Qed.

(* ... hence a polynomial with at least as many distinct roots as coefficients is zero everywhere *)
Corollary too_many_roots p roots : NoDup roots -> length p <= length roots ->
  (forall r, In r roots -> peval p r = zero) -> forall x, peval p x = zero.
Proof.
  intros ND Hl H x. destruct (vanish_divisible roots p ND H) as (q & Hq & E).
  assert (q = []) as -> by (destruct q; [reflexivity | simpl in Hq; lia]).
  rewrite E. simpl. ring.
Qed.

(* ------------------------------------------------------------------ the vanishing polynomial of the trace domain *)
(* coefficient form of prod (x - r) *)
Fixpoint linmul_aux (prev : F) (q : list F) (r : F) : list F :=
  match q with [] => [prev] | c :: t => (prev -f r *f c) :: linmul_aux c t r end.
Definition linmul (q : list F) (r : F) : list F := linmul_aux zero q r.
Fixpoint roots_poly (xs : list F) : list F := match xs with [] => [one] | r :: t => linmul (roots_poly t) r end.

Lemma linmul_aux_peval x : forall q prev r, peval (linmul_aux prev q r) x = prev +f (x -f r) *f peval q x.
Proof. induction q as [|c t IH]; intros; simpl; [ring | rewrite IH; ring]. Qed.
Lemma linmul_aux_length : forall q prev r, length (linmul_aux prev q r) = S (length q).
Proof. induction q; intros; simpl; [reflexivity | now rewrite IHq]. Qed.
Lemma linmul_aux_last : forall q prev r, q <> [] -> last (linmul_aux prev q r) zero = last q zero.
Proof.
  induction q as [|c t IH]; intros prev r H; [congruence|]. destruct t as [|c1 t1]; [reflexivity|].
  change (linmul_aux prev (c :: c1 :: t1) r) with ((prev -f r *f c) :: linmul_aux c (c1 :: t1) r).
  assert (E : linmul_aux c (c1 :: t1) r <> []) by (simpl; discriminate).
  destruct (linmul_aux c (c1 :: t1) r) as [|u v] eqn:Eu; [congruence|].
  change (last ((prev -f r *f c) :: u :: v) zero) with (last (u :: v) zero). rewrite <- Eu.
  rewrite IH by discriminate. reflexivity.
Qed.
Lemma roots_poly_peval xs x : peval (roots_poly xs) x = pprod xs x.
Proof. induction xs; simpl; [ring | unfold linmul; rewrite linmul_aux_peval, IHxs; ring]. Qed.
Lemma roots_poly_length xs : length (roots_poly xs) = S (length xs).
Proof. induction xs; simpl; [reflexivity | unfold linmul; now rewrite linmul_aux_length, IHxs]. Qed.
Lemma roots_poly_nonempty xs : roots_poly xs <> [].
Proof. intros E. pose proof (roots_poly_length xs) as H. rewrite E in H. discriminate. Qed.
Lemma roots_poly_monic xs : last (roots_poly xs) zero = one.
Proof. induction xs; simpl; [reflexivity | unfold linmul; rewrite linmul_aux_last by apply roots_poly_nonempty; exact IHxs]. Qed.

Lemma peval_last_split p x : p <> [] -> peval p x = peval (removelast p) x +f last p zero *f fpow x (length p - 1).
Proof.
  intros H. rewrite (app_removelast_last zero H) at 1. rewrite peval_app, removelast_length. simpl. ring.
Qed.

(* g is a primitive n-th root of unity: g^n = 1 and the powers g^0 .. g^(n-1) are pairwise distinct *)
Definition primitive_root (g : F) (n : nat) : Prop :=
  fpow g n = one /\ forall i j, i < n -> j < n -> fpow g i = fpow g j -> i = j.

Lemma domain_length g n : length (domain O g n) = n.
Proof. unfold domain. now rewrite map_length, seq_length. Qed.
Lemma In_domain g n r : In r (domain O g n) <-> exists i, i < n /\ r = fpow g i.
Proof.
  unfold domain. rewrite in_map_iff. split.
  - intros (i & <- & Hi). apply in_seq in Hi. exists i. split; [lia | reflexivity].
  - intros (i & Hi & ->). exists i. split; [reflexivity | apply in_seq; lia].
Qed.
Lemma domain_NoDup g n m : primitive_root g n -> m <= n -> NoDup (domain O g m).
Proof.
  intros [_ Hinj] Hm. unfold domain. induction m as [|m IH].
  - constructor.
  - rewrite seq_S, map_app. simpl.
    assert (E : forall (l : list F) a, NoDup l -> ~ In a l -> NoDup (l ++ [a])).
    { intros l a Hl Ha. apply NoDup_rev in Hl. rewrite <- (rev_involutive (l ++ [a])). apply NoDup_rev.
      rewrite rev_app_distr. simpl. constructor; [now rewrite <- in_rev | exact Hl]. }
    apply E. { apply IH. lia. }
    rewrite in_map_iff. intros (i & Hi & Hin). apply in_seq in Hin. apply Hinj in Hi; lia.
Qed.

(* C16's zero-set statement, proved here: prod_{i<n} (x - g^i) = x^n - 1 *)
Theorem domain_vanishing g n : primitive_root g n -> 0 < n ->
  forall x, pprod (domain O g n) x = fpow x n -f one.
Proof.
  intros Hg Hn x. pose proof Hg as [Hgn _].
  set (R := roots_poly (domain O g n)).
  (* D := x^n - 1 - R has length <= n (the leading coefficients cancel) and n distinct roots *)
  set (D := padd O (sub_const O (repeat zero n) one) (pscale O (fneg O one) (removelast R))).
  assert (HlR : length R = S n) by (unfold R; now rewrite roots_poly_length, domain_length).
  assert (Hpadd : forall a b y, peval (padd O a b) y = peval a y +f peval b y).
  { induction a as [|a0 a IH]; intros [|b0 b] y; simpl; try ring. rewrite IH. ring. }
  assert (Hpaddl : forall a b, length (padd O a b) = Nat.max (length a) (length b)).
  { induction a as [|a0 a IH]; intros [|b0 b]; simpl; try reflexivity. now rewrite IH. }
  assert (Hscale : forall k p y, peval (pscale O k p) y = k *f peval p y).
  { intros k p y. induction p; simpl; [ring | rewrite IHp; ring]. }
  assert (Hsc : forall y, peval (sub_const O (repeat zero n) one) y = zero -f one).
  { intros y. destruct n; [lia|]. simpl. rewrite peval_repeat_zero. ring. }
  assert (HR : forall y, peval R y = peval (removelast R) y +f fpow y n).
  { intros y. rewrite (peval_last_split R y) by (unfold R; apply roots_poly_nonempty).
    replace (last R zero) with one by (unfold R; now rewrite roots_poly_monic). rewrite HlR. replace (S n - 1) with n by lia. ring. }
  assert (HD : forall y, peval D y = fpow y n -f one -f peval R y).
  { intros y. unfold D. rewrite Hpadd, Hscale, Hsc, HR. ring. }
  assert (HDl : length D <= n).
  { unfold D. rewrite Hpaddl. unfold pscale. rewrite map_length, removelast_length, HlR.
    destruct n; [lia|]. simpl. rewrite repeat_length. lia. }
  assert (Hz : forall y, peval D y = zero).
  { apply (too_many_roots D (domain O g n)).
    - apply (domain_NoDup g n n Hg). lia.
    - now rewrite domain_length.
    - intros r Hr. rewrite HD. unfold R. rewrite roots_poly_peval, (pprod_root _ _ Hr).
      apply In_domain in Hr. destruct Hr as (i & _ & ->).
      rewrite <- fpow_mul, Nat.mul_comm, fpow_mul, Hgn, fpow_one. ring. }
  specialize (Hz x). rewrite HD in Hz. unfold R in Hz. rewrite roots_poly_peval in Hz.
  symmetry. apply fsub_eq_zero. exact Hz.
Qed.

(* the same for a coset c * <h> of an m-th root of unity h (the zero set of an assertion divisor x^m - c^m,
   c = g^first_step, h = g^stride):  prod_{i<m} (x - c h^i) = x^m - c^m *)
Definition coset (c h : F) (m : nat) : list F := map (fun i => c *f fpow h i) (seq 0 m).

Lemma fpow_mul_base a b : forall k, fpow (a *f b) k = fpow a k *f fpow b k.
Proof. induction k as [|k IH]; simpl; [ring | rewrite IH; ring]. Qed.

Lemma coset_NoDup c h m : primitive_root h m -> c <> zero -> NoDup (coset c h m).
Proof.
  intros Hh Hc. unfold coset.
  assert (E : coset c h m = map (fun y => c *f y) (domain O h m)) by (unfold coset, domain; now rewrite map_map).
  unfold coset in E. rewrite E. apply FinFun.Injective_map_NoDup; [|apply (domain_NoDup h m m Hh); lia].
  intros a b Hab. assert (Hz : c *f (a -f b) = zero) by (replace (c *f (a -f b)) with (c *f a -f c *f b) by ring; rewrite Hab; ring).
  apply fmul_integral in Hz. destruct Hz as [Hz|Hz]; [contradiction | now apply fsub_eq_zero].
Qed.

Theorem coset_vanishing c h m : primitive_root h m -> 0 < m -> c <> zero ->
  forall x, pprod (coset c h m) x = fpow x m -f fpow c m.
Proof.
  intros Hh Hm Hc x. pose proof Hh as [Hhm _].
  set (R := roots_poly (coset c h m)).
  set (D := padd O (sub_const O (repeat zero m) (fpow c m)) (pscale O (fneg O one) (removelast R))).
  assert (Hlc : length (coset c h m) = m) by (unfold coset; now rewrite map_length, seq_length).
  assert (HlR : length R = S m) by (unfold R; now rewrite roots_poly_length, Hlc).
  assert (Hpadd : forall a b y, peval (padd O a b) y = peval a y +f peval b y).
  { induction a as [|a0 a IH]; intros [|b0 b] y; simpl; try ring. rewrite IH. ring. }
  assert (Hpaddl : forall a b, length (padd O a b) = Nat.max (length a) (length b)).
  { induction a as [|a0 a IH]; intros [|b0 b]; simpl; try reflexivity. now rewrite IH. }
  assert (Hscale : forall k p y, peval (pscale O k p) y = k *f peval p y).
  { intros k p y. induction p; simpl; [ring | rewrite IHp; ring]. }
  assert (Hsc : forall y, peval (sub_const O (repeat zero m) (fpow c m)) y = zero -f fpow c m).
  { intros y. destruct m; [lia|]. cbn [repeat Stark.sub_const Stark.peval]. rewrite peval_repeat_zero. ring. }
  assert (HR : forall y, peval R y = peval (removelast R) y +f fpow y m).
  { intros y. rewrite (peval_last_split R y) by (unfold R; apply roots_poly_nonempty).
    replace (last R zero) with one by (unfold R; now rewrite roots_poly_monic). rewrite HlR.
    replace (S m - 1) with m by lia. ring. }
  assert (HD : forall y, peval D y = fpow y m -f fpow c m -f peval R y).
  { intros y. unfold D. rewrite Hpadd, Hscale, Hsc, HR. ring. }
  assert (HDl : length D <= m).
  { unfold D. rewrite Hpaddl. unfold pscale. rewrite map_length, removelast_length, HlR.
    destruct m; [lia|]. cbn [repeat Stark.sub_const length]. rewrite repeat_length. lia. }
  assert (Hz : forall y, peval D y = zero).
  { apply (too_many_roots D (coset c h m)).
    - now apply coset_NoDup.
    - now rewrite Hlc.
    - intros r Hr. rewrite HD. unfold R. rewrite roots_poly_peval, (pprod_root _ _ Hr).
      unfold coset in Hr. apply in_map_iff in Hr. destruct Hr as (i & <- & _).
      rewrite fpow_mul_base. rewrite <- fpow_mul, Nat.mul_comm, fpow_mul, Hhm, fpow_one. ring. }
  specialize (Hz x). rewrite HD in Hz. unfold R in Hz. rewrite roots_poly_peval in Hz.
  symmetry. apply fsub_eq_zero. exact Hz.
Qed.

(* ------------------------------------------------------------------ constraint quotients are polynomials *)
(* exemption points g^(n-e) .. g^(n-1) (ConstraintDivisor::from_transition) *)
Definition exempt (g : F) (n e : nat) : list F := map (fpow g) (seq (n - e) e).

Lemma domain_split g n e : e <= n -> domain O g n = domain O g (n - e) ++ exempt g n e.
Proof.
  intros H. unfold domain, exempt. rewrite <- map_app. f_equal.
  replace n with ((n - e) + e) at 1 by lia. rewrite seq_app. reflexivity.
Qed.

(* If the combined numerator N (a polynomial: sum of alpha_i * C_i(T(x), T(g x), periodic(x))) vanishes on all
   non-exempt steps, then N = Z * Q for the divisor Z(x) = (x^n - 1) / prod_exempt (x - e) that
   ConstraintDivisor::evaluate_at computes, with Q a polynomial of length |N| - (n - e):
   N(x) * prod_exempt(x) = (x^n - 1) * Q(x) for EVERY x, hence Q(x) = N(x) / Z(x) wherever Z(x) is defined and non-zero. *)
Theorem quotient_is_poly g n e N : primitive_root g n -> 0 < n -> e <= n ->
  (forall i, i < n - e -> peval N (fpow g i) = zero) ->
  exists Q, length Q = length N - (n - e) /\
    (forall x, peval N x = pprod (domain O g (n - e)) x *f peval Q x) /\
    (forall x, peval N x *f pprod (exempt g n e) x = (fpow x n -f one) *f peval Q x).
Proof.
  intros Hg Hn He Hv.
  destruct (vanish_divisible (domain O g (n - e)) N) as (Q & Hl & HQ).
  - apply (domain_NoDup g n); [exact Hg | lia].
  - intros r Hr. apply In_domain in Hr. destruct Hr as (i & Hi & ->). now apply Hv.
  - exists Q. rewrite domain_length in Hl. split; [exact Hl|]. split; [exact HQ|].
    intros x. rewrite <- (domain_vanishing g n Hg Hn), (domain_split g n e He), pprod_app, HQ. ring.
Qed.

(* ------------------------------------------------------------------ segments of the composition polynomial *)
Lemma ood_lhs_shift n z : forall hs i, ood_lhs O n z i hs = fpow z (i * n) *f ood_lhs O n z 0 hs.
Proof.
  induction hs as [|h t IH]; intros i; simpl; [ring|].
  rewrite (IH (S i)), (IH 1). simpl. rewrite Nat.add_0_r, fpow_add. ring.
Qed.

(* H(z) = sum_i z^(i n) H_i(z) when the coefficients of H fit into the columns *)
Theorem segments_eval n : forall cols H z, length H <= n * cols ->
  ood_lhs O n z 0 (evals O (segment H n cols) z) = peval H z.
Proof.
  induction cols as [|k IH]; intros H z Hl.
  - assert (H = []) as -> by (destruct H; [reflexivity | simpl in Hl; lia]). reflexivity.
  - destruct H as [|h0 t]; [reflexivity|]. remember (h0 :: t) as H eqn:EH.
    assert (E : segment H n (S k) = firstn n H :: segment (skipn n H) n k) by (subst H; reflexivity).
    clear EH h0 t.
    destruct (Nat.leb_spec (length H) n) as [Hs|Hs].
    + (* everything is in the first column *)
      rewrite E. cbn [evals map Stark.ood_lhs]. rewrite firstn_all2 by lia. rewrite skipn_all2 by lia.
      assert (Z0 : forall c i, ood_lhs O n z i (evals O (segment [] n c) z) = zero) by (intros [|c] i; reflexivity).
      unfold evals in Z0 |- *. rewrite Z0. simpl. ring.
    + rewrite E. cbn [evals map Stark.ood_lhs]. fold (evals O (segment (skipn n H) n k) z).
      rewrite ood_lhs_shift, IH by (rewrite skipn_length; nia).
      rewrite <- (firstn_skipn n H) at 3. rewrite peval_app, firstn_length_le by lia. simpl. rewrite Nat.add_0_r. ring.
Qed.

End Poly.
