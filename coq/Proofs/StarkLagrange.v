(* C01 — round "Lagrange in the model", part 2: completeness of the protocol WITH a Lagrange-kernel column
   (Model/StarkLagrange.v).  Re-uses the stage lemmas of Proofs/StarkPoly.v / StarkDeep.v / StarkComplete.v and adds
   only the Lagrange terms: the DEEP term (T_l - p_S) / Z_S and the Lagrange constraint terms of the OOD equation.
   stdlib style. *)
From Coq Require Import List Arith Bool Lia Ring Field ZArith.
From VBase Require Import MachInt FieldOps.
From VModel Require Import Stark StarkLagrange.
From VModel Require Enforce EnforceLagrange Composition.
From VProofs Require Import StarkPoly StarkDeep StarkComplete.
Import ListNotations.
Local Open Scope nat_scope.

Lemma NoDup_map_inj_in {A B} (f : A -> B) : forall l,
  (forall a b, In a l -> In b l -> f a = f b -> a = b) -> NoDup l -> NoDup (map f l).
Proof.
  induction l as [|a l IH]; intros Hinj Hnd; [constructor|].
  inversion Hnd as [|? ? Hna Hnd']; subst. cbn [map]. constructor.
  - intros Hin. apply in_map_iff in Hin. destruct Hin as (b & Hb & Hbl).
    assert (b = a) by (apply Hinj; [now right | now left | exact Hb]). subst b. contradiction.
  - apply IH; [|exact Hnd']. intros x y Hx Hy. apply Hinj; now right.
Qed.

Section LagAlg.
Context {F : Type} (O : FOps F) (L : FLaws O).
Local Notation zero := (fzero O).
Local Notation one := (fone O).
Local Notation "a +f b" := (fadd O a b) (at level 50, left associativity).
Local Notation "a -f b" := (fsub O a b) (at level 50, left associativity).
Local Notation "a *f b" := (fmul O a b) (at level 40, left associativity).
Local Notation peval := (peval O).
Local Notation fpow := (fpow O).
Local Notation pprod := (pprod O).
Local Notation evals := (evals O).
Add Ring FringL : (FLaws_ring_theory O L).
Add Field FfieldL : (FLaws_field_theory O L).

(* ---------------------------------------------------------------- syn_div_roots_in_place *)
Lemma syn_roots_shape n : 0 < n -> forall roots p, roots <> [] -> length p = n ->
  length (syn_roots O p roots) = n /\ last (syn_roots O p roots) zero = zero.
Proof.
  intros Hn. induction roots as [|r t IH]; intros p Hne Hl; [congruence|].
  cbn [syn_roots]. destruct (syn1_shape O L n Hn p r Hl) as [L1 Z1].
  destruct t as [|r' t']; [cbn [syn_roots]; now split|].
  apply IH; [discriminate | exact L1].
Qed.

Lemma syn_roots_eval : forall roots p, NoDup roots -> (forall r, In r roots -> peval p r = zero) ->
  forall x, peval p x = pprod roots x *f peval (syn_roots O p roots) x.
Proof.
  induction roots as [|r t IH]; intros p Hnd Hv x; cbn [syn_roots Stark.pprod]; [ring|].
  inversion Hnd as [|? ? Hnr Hnd']; subst.
  set (q := fst (syn1 O p r)).
  assert (Hq : forall y, peval p y = (y -f r) *f peval q y).
  { intros y. pose proof (syn1_quotient O L p r y) as E. fold q in E. rewrite (Hv r (or_introl eq_refl)) in E.
    transitivity (peval p y -f zero); [ring | exact E]. }
  assert (Hqv : forall r', In r' t -> peval q r' = zero).
  { intros r' Hr'. pose proof (Hq r') as E. rewrite (Hv r' (or_intror Hr')) in E. symmetry in E.
    destruct (fmul_integral O L _ _ E) as [E0|E0]; [|exact E0].
    exfalso. apply (fsub_eq_zero O L) in E0. subst r'. contradiction. }
  rewrite (Hq x), (IH q Hnd' Hqv x). ring.
Qed.

(* ---------------------------------------------------------------- the opening points of the kernel column *)
Lemma lag_pts_length g z v : length (lag_pts O g z v) = S v.
Proof. unfold lag_pts. cbn [length]. now rewrite map_length, seq_length. Qed.

Lemma fmul_cancel_r a b z : z <> zero -> a *f z = b *f z -> a = b.
Proof.
  intros Hz E. assert (E0 : (a -f b) *f z = zero) by (transitivity (a *f z -f b *f z); [ring | rewrite E; ring]).
  destruct (fmul_integral O L _ _ E0) as [H|H]; [now apply (fsub_eq_zero O L) | contradiction].
Qed.

Lemma lag_pts_NoDup g n v z : n = 2 ^ v -> primitive_root O g n -> z <> zero -> NoDup (lag_pts O g z v).
Proof.
  intros Hn [_ Hinj] Hz.
  assert (E : lag_pts O g z v = map (fun e => fpow g e *f z) (0 :: map (fun i => 2 ^ i) (seq 0 v))).
  { unfold lag_pts. cbn [map Stark.fpow]. f_equal; [ring|]. now rewrite map_map. }
  rewrite E. apply NoDup_map_inj_in.
  - assert (Hb : forall e, In e (0 :: map (fun i => 2 ^ i) (seq 0 v)) -> e < n).
    { intros e [<-|He]; [rewrite Hn; pose proof (Nat.pow_nonzero 2 v); lia|].
      apply in_map_iff in He. destruct He as (i & <- & Hi). apply in_seq in Hi. rewrite Hn. apply Nat.pow_lt_mono_r; lia. }
    intros a b Ha Hb' Hab. apply Hinj; [now apply Hb | now apply Hb|]. now apply (fmul_cancel_r _ _ z Hz).
  - constructor.
    + intros Hin. apply in_map_iff in Hin. destruct Hin as (i & Hi & _). pose proof (Nat.pow_nonzero 2 i). lia.
    + apply NoDup_map_inj_in; [|apply seq_NoDup]. intros a b _ _ Hab. apply (Nat.pow_inj_r 2) in Hab; [exact Hab | lia].
Qed.

(* ---------------------------------------------------------------- the DEEP term of the kernel column *)
Variable interp_pts : list F -> list F -> list F.
(* C20 (polynom::interpolate): on distinct points the result passes through the points and has at most |xs| coefficients *)
Hypothesis interp_pts_spec : forall xs ys, NoDup xs -> length ys = length xs ->
  length (interp_pts xs ys) <= length xs /\
  forall m, m < length xs -> peval (interp_pts xs ys) (nth m xs zero) = nth m ys zero.

Lemma peval_psub a b x : peval (psub O a b) x = peval a x -f peval b x.
Proof. unfold psub. rewrite (peval_padd O L), (peval_pscale O L). ring. Qed.

Section OnePoint.
Variables (n v : nat) (g z : F) (Lp : list F).
Hypothesis n_eq : n = 2 ^ v.
Hypothesis g_prim : primitive_root O g n.
Hypothesis z_nz : z <> zero.
Hypothesis Lp_len : length Lp = n.
Hypothesis v_pos : 1 <= v.
Let xs := lag_pts O g z v.
Let lf := lag_frame O g v Lp z.
Let pS := interp_pts xs lf.
Let N := psub O Lp pS.

Lemma xs_NoDup : NoDup xs. Proof. exact (lag_pts_NoDup g n v z n_eq g_prim z_nz). Qed.
Lemma lf_length : length lf = length xs. Proof. unfold lf, lag_frame. now rewrite map_length. Qed.
Lemma Sv_le_n : S v <= n. Proof. rewrite n_eq. pose proof (Nat.pow_gt_lin_r 2 v). lia. Qed.

Lemma N_length : length N = n.
Proof.
  unfold N, psub. rewrite (padd_length O), (pscale_length O), Lp_len.
  destruct (interp_pts_spec xs lf xs_NoDup lf_length) as [Hl _]. fold pS in Hl.
  unfold xs in Hl. rewrite lag_pts_length in Hl. pose proof Sv_le_n. lia.
Qed.

Lemma N_vanishes r : In r xs -> peval N r = zero.
Proof.
  intros Hr. destruct (In_nth xs r zero Hr) as (m & Hm & <-).
  unfold N. rewrite peval_psub.
  destruct (interp_pts_spec xs lf xs_NoDup lf_length) as [_ Hp]. fold pS in Hp. rewrite (Hp m Hm).
  assert (El : nth m lf zero = peval Lp (nth m xs zero)).
  { change lf with (map (peval Lp) xs).
    rewrite (nth_indep (map (peval Lp) xs) zero (peval Lp zero)); [apply map_nth | rewrite map_length; exact Hm]. }
  rewrite El. ring.
Qed.

(* (T_l - p_S) = Z_S * quotient, and the quotient keeps n coefficients with a zero top one *)
Lemma deep_lag_eval lcc x :
  pprod xs x *f peval (deep_lag O interp_pts lcc Lp xs lf) x = (peval Lp x -f peval pS x) *f lcc.
Proof.
  unfold deep_lag. fold pS N. rewrite (peval_pscale O L).
  pose proof (syn_roots_eval xs N xs_NoDup N_vanishes x) as E. unfold N at 1 in E. rewrite peval_psub in E.
  rewrite E. ring.
Qed.

Lemma deep_lag_shape lcc :
  length (deep_lag O interp_pts lcc Lp xs lf) = n /\ last (deep_lag O interp_pts lcc Lp xs lf) zero = zero.
Proof.
  unfold deep_lag. fold pS N.
  assert (Hn : 0 < n) by (pose proof Sv_le_n; lia).
  destruct (syn_roots_shape n Hn xs N) as [L1 Z1].
  - unfold xs, lag_pts. discriminate.
  - exact N_length.
  - split; [now rewrite (pscale_length O) | rewrite (last_pscale O L), Z1; ring].
Qed.

(* the verifier's recomputation of the trace part at a queried x that is none of the opening points *)
Lemma v_trace_lag_eval gam lcc Ts x : ~ In x xs ->
  v_trace_lag O interp_pts g v z x gam lcc (evals (Ts ++ [Lp]) x) (evals Ts z) (evals Ts (z *f g)) lf
  = v_trace O g z x gam (evals Ts x) (evals Ts z) (evals Ts (z *f g))
    +f peval (deep_lag O interp_pts lcc Lp xs lf) x.
Proof.
  intros Hx. unfold v_trace_lag, v_trace. fold xs pS.
  assert (Ee : evals (Ts ++ [Lp]) x = evals Ts x ++ [peval Lp x]) by (unfold Stark.evals; now rewrite map_app).
  rewrite Ee, removelast_last, last_last.
  pose proof (deep_lag_eval lcc x) as E.
  set (Qx := peval (deep_lag O interp_pts lcc Lp xs lf) x) in *.
  (* xs = z :: g^1 z :: rest *)
  destruct v as [|v']; [lia|].
  assert (Exs : xs = z :: (fpow g 1 *f z) :: map (fun i => fpow g (2 ^ i) *f z) (seq 1 v')) by reflexivity.
  set (rest := map (fun i => fpow g (2 ^ i) *f z) (seq 1 v')) in *.
  rewrite Exs in E, Hx. cbn [skipn]. rewrite Exs. cbn [skipn Stark.pprod] in *.
  assert (H1 : x -f z <> zero). { apply (fsub_neq_zero O L). intros ->. apply Hx. now left. }
  assert (H2 : x -f z *f g <> zero).
  { apply (fsub_neq_zero O L). intros E2. apply Hx. right. left. rewrite E2. cbn [Stark.fpow]. ring. }
  assert (H3 : pprod rest x <> zero). { apply (pprod_nonroot O L). intros Hin. apply Hx. now do 2 right. }
  set (t1 := dot O gam (map (fun p => fst p -f snd p) (combine (evals Ts x) (evals Ts z)))).
  set (t2 := dot O gam (map (fun p => fst p -f snd p) (combine (evals Ts x) (evals Ts (z *f g))))).
  set (R := pprod rest x) in *. set (lv := peval Lp x) in *. set (ps := peval pS x) in *.
  assert (E' : (lv -f ps) *f lcc = (x -f z) *f ((x -f z *f g) *f R) *f Qx).
  { rewrite <- E. cbn [Stark.fpow]. ring. }
  transitivity ((t1 *f (x -f z *f g) +f t2 *f (x -f z) +f ((x -f z) *f ((x -f z *f g) *f R) *f Qx) *f finv O R) *f finv O ((x -f z) *f (x -f z *f g))).
  { rewrite <- E'. reflexivity. }
  field. repeat split; assumption.
Qed.
End OnePoint.

End LagAlg.

Lemma succ_lt_pow2 v : 2 <= v -> S v < 2 ^ v.
Proof.
  induction 1 as [|m Hm IH]; [cbn; lia|]. cbn [Nat.pow]. lia.
Qed.

(* ================================================================================================ *)
Section CompleteLag.
Context {F : Type} (O : FOps F) (L : FLaws O).
Local Notation zero := (fzero O).
Local Notation "a +f b" := (fadd O a b) (at level 50, left associativity).
Local Notation "a -f b" := (fsub O a b) (at level 50, left associativity).
Local Notation "a *f b" := (fmul O a b) (at level 40, left associativity).
Local Notation peval := (peval O).
Local Notation evals := (evals O).
Add Ring FringL2 : (FLaws_ring_theory O L).

Variables (Digest Opening FriProof : Type).
Variable commit : list (list F) -> Digest.
Variable open_prove : list (list F) -> list F -> Opening.
Variable open_ok : Digest -> list F -> list (list F) -> Opening -> bool.
Variable fri_prove : list F -> list F -> FriProof.
Variable fri_verify : FriProof -> nat -> list F -> list F -> bool.
Variable air_eval : F -> list F -> list F -> F.
Variable interp_ce : (F -> F) -> list F.
Variable interp_pts : list F -> list F -> list F.

Variables (n cols ce_size v : nat) (g : F).
Variable ce_coset : list F.
Variable lde : list F.

(* ---- stage hypotheses: the SAME ones as in Proofs/StarkComplete.v (discharged there from C10 / C15 / C09), plus
   C20's interpolation through distinct points *)
Hypothesis merkle_complete : forall (cs : list (list F)) xs, incl xs lde -> NoDup xs -> xs <> [] -> length xs <= 255 ->
  open_ok (commit cs) xs (map (evals cs) xs) (open_prove cs xs) = true.
Hypothesis fri_complete : forall d xs, length d = n -> last d zero = zero -> incl xs lde -> xs <> [] -> length xs <= 255 ->
  fri_verify (fri_prove d xs) (n - 2) xs (map (peval d) xs) = true.
Hypothesis interp_pts_spec : forall xs ys, NoDup xs -> length ys = length xs ->
  length (interp_pts xs ys) <= length xs /\
  forall m, m < length xs -> peval (interp_pts xs ys) (nth m xs zero) = nth m ys zero.

Local Notation prove_lag := (prove_lag O interp_pts Digest Opening FriProof commit open_prove fri_prove air_eval interp_ce).
Local Notation verify_lag := (verify_lag O interp_pts Digest Opening FriProof open_ok fri_verify air_eval).

(* the combined constraint evaluation of an AIR with a kernel column, as a function of the point *)
Definition cfun (lc : LagC) (Ts : list (list F)) (Lp : list F) (x : F) : F :=
  air_eval x (evals Ts x) (evals Ts (x *f g)) +f lag_tot O lc (lag_frame O g v Lp x) x.

Theorem stark_complete_lagrange_core (dbg : bool) (lc : @LagC F) (cP cV : @Coin F) (lcc : F)
    (Ts : list (list F)) (Lp : list F) (Q : list F) :
  n = 2 ^ v -> 2 <= v -> primitive_root O g n -> 1 <= cols -> n * cols <= ce_size ->
  Ts <> [] -> Forall (fun p => length p = n) Ts -> length Lp = n ->
  length Q <= n * cols ->
  (forall x, ~ In x (domain O g n) -> cfun lc Ts Lp x = peval Q x) ->
  interp_ce (cfun lc Ts Lp) = Q ++ repeat zero (ce_size - length Q) ->
  (* the OOD frame of the kernel column has the shape the Lagrange constraints index into (v + 1 entries, v constraints) *)
  lag_eval O lc (lag_frame O g v Lp (c_z cP)) (c_z cP) <> None ->
  cV = cP ->
  ~ In (c_z cP) (domain O g n) -> c_z cP <> zero -> c_z cP *f g <> zero ->
  incl (c_xs cP) lde -> NoDup (c_xs cP) -> c_xs cP <> [] -> length (c_xs cP) <= 255 ->
  (* the query points are none of the opening points z, g z, g^2 z, g^4 z, .. of the kernel column *)
  (forall x, In x (c_xs cP) -> ~ In x (lag_pts O g (c_z cP) v)) ->
  exists pf, prove_lag (mkParams n g cols false dbg) v lc cP lcc Ts Lp = Done pf /\
             verify_lag (mkParams n g cols false dbg) v lc cV lcc pf = VAccept.
Proof.
  intros Hnv Hv Hg Hcols Hce HTs HTl HLl HQl HQ EH Hle -> Hz Hz0 Hzg0 Hxs Hnd Hne H255 Hxz.
  pose proof (succ_lt_pow2 v Hv) as Hsv. rewrite <- Hnv in Hsv.
  assert (Hn : 2 <= n) by lia. assert (Hn0 : 0 < n) by lia. assert (Hv1 : 1 <= v) by lia.
  set (z := c_z cP) in *.
  set (H := interp_ce (cfun lc Ts Lp)) in *.
  assert (HHl : n * cols <= length H). { rewrite EH, app_length, repeat_length. lia. }
  set (Hs := segment H n cols).
  destruct (segment_shape n Hn0 cols H HHl) as [S1 S2]. fold Hs in S1, S2.
  set (cur := evals Ts z). set (nxt := evals Ts (z *f g)). set (hz := evals Hs z).
  set (lf := lag_frame O g v Lp z). set (xs := lag_pts O g z v).
  set (d0 := deep_trace O n g z (c_gamma cP) Ts cur nxt).
  set (dl := deep_lag O interp_pts lcc Lp xs lf).
  set (d0' := padd O dl d0).
  set (d := deep_constraints O z (c_delta cP) Hs hz d0').
  destruct (deep_trace_shape O L n g z (c_gamma cP) Ts Hn0 HTl cur nxt) as [D01 D02]. fold d0 in D01, D02.
  destruct (deep_lag_shape O L interp_pts interp_pts_spec n v g z Lp Hnv Hg Hz0 HLl Hv1 lcc) as [DL1 DL2]. fold xs lf dl in DL1, DL2.
  assert (D0'1 : length d0' = n) by (unfold d0'; rewrite (padd_length O), DL1, D01; lia).
  assert (D0'2 : last d0' zero = zero).
  { unfold d0'. rewrite (last_padd O), DL2, D02; [ring | lia |]. destruct dl; [simpl in DL1; lia | discriminate]. }
  destruct (deep_constraints_shape O L n z Hn0 (c_delta cP) Hs hz d0' S2 D0'1 D0'2) as [D1 D2]. fold d in D1, D2.
  set (Tall := Ts ++ [Lp]).
  exists (mkProofL Digest Opening FriProof (commit Tall) (commit Hs) cur nxt hz lf
            (map (evals Tall) (c_xs cP)) (map (evals Hs) (c_xs cP))
            (open_prove Tall (c_xs cP)) (open_prove Hs (c_xs cP)) (fri_prove d (c_xs cP))).
  split.
  - unfold StarkLagrange.prove_lag. cbn [p_n p_g p_cols p_strict p_dbg]. fold z. fold (cfun lc Ts Lp). fold H.
    assert (C0 : (degree_of O H <? n * cols) = true).
    { apply Nat.ltb_lt. rewrite EH, (degree_of_app_zeros O L).
      destruct Q as [|q0 Q']; [simpl; nia|]. pose proof (degree_of_lt_length O (q0 :: Q') ltac:(discriminate)). lia. }
    rewrite C0. cbn [negb]. rewrite andb_false_r. fold Hs.
    assert (C1 : (length Hs =? cols) && forallb (fun h : list F => length h =? n) Hs = true).
    { rewrite S1, Nat.eqb_refl. simpl. apply forallb_forall. intros h Hh. rewrite Forall_forall in S2. rewrite (S2 h Hh). apply Nat.eqb_refl. }
    rewrite C1. cbn [negb]. destruct Ts as [|T0 Ts']; [congruence|].
    replace (n <? 2) with false by (symmetry; apply Nat.ltb_ge; lia).
    pose proof (feqb_neq O L z zero Hz0) as X0. pose proof (feqb_neq O L (z *f g) zero Hzg0) as X1.
    rewrite X0, X1. cbn [orb].
    fold cur nxt hz lf xs d0 dl d0' d.
    assert (C2 : (length xs <? length Lp) = true).
    { apply Nat.ltb_lt. unfold xs. rewrite lag_pts_length, HLl. exact Hsv. }
    rewrite C2. cbn [negb].
    assert (A0 : deep_assert O false n d0' = true).
    { unfold deep_assert. apply Nat.leb_le. rewrite <- D0'1. now apply (degree_of_top_zero O L). }
    assert (A1 : deep_assert O false n d = true).
    { unfold deep_assert. apply Nat.leb_le. rewrite <- D1. now apply (degree_of_top_zero O L). }
    rewrite A0, A1. reflexivity.
  - unfold StarkLagrange.verify_lag.
    cbn [p_n p_g pl_cur pl_nxt pl_hz pl_lframe pl_trace_root pl_comp_root pl_trows pl_hrows pl_topen pl_hopen pl_fri]. fold z lf.
    destruct (lag_eval O lc lf z) as [lv|] eqn:Elv; [|exfalso; exact (Hle Elv)].
    (* the OOD consistency equation, Lagrange terms included *)
    assert (E1 : air_eval z cur nxt +f lv = peval Q z).
    { rewrite <- (HQ z Hz). unfold cfun. fold z cur nxt lf. unfold lag_tot. now rewrite Elv. }
    assert (E2 : ood_lhs O n z 0 hz = peval Q z).
    { unfold hz, Hs. rewrite (segment_firstn n Hn0), (segments_eval O L) by (rewrite firstn_length; lia).
      rewrite EH. apply (peval_firstn_padded O L). exact HQl. }
    rewrite E1, E2, (feqb_refl O L). cbn [negb].
    rewrite (merkle_complete Tall _ Hxs Hnd Hne H255), (merkle_complete Hs _ Hxs Hnd Hne H255). cbn [negb].
    assert (E3 : forall qs, (forall x, In x qs -> ~ In x xs) ->
      map3 (fun x tr hr => v_trace_lag O interp_pts g v z x (c_gamma cP) lcc tr cur nxt lf
                           +f v_constraints O z x (c_delta cP) hr hz) qs (map (evals Tall) qs) (map (evals Hs) qs)
      = map (peval d) qs).
    { induction qs as [|x qs IH]; intros Hx; [reflexivity|]. cbn [map map3]. f_equal.
      - pose proof (Hx x (or_introl eq_refl)) as Hxx.
        assert (X1 : x <> z). { intros ->. apply Hxx. unfold xs, lag_pts. now left. }
        assert (X2 : x <> z *f g).
        { intros E. apply Hxx. unfold xs, lag_pts. right. destruct v as [|v']; [lia|]. cbn [seq map]. left.
          rewrite E. cbn [Stark.fpow Nat.pow]. ring. }
        unfold Tall, cur, nxt, lf, xs.
        rewrite (v_trace_lag_eval O L interp_pts interp_pts_spec n v g z Lp Hnv Hg Hz0 HLl Hv1 (c_gamma cP) lcc Ts x Hxx).
        fold xs lf dl. unfold d, hz.
        rewrite (deep_constraints_eval O L z x X1). unfold d0'. rewrite (peval_padd O L).
        unfold d0, cur, nxt. rewrite (deep_trace_eval O L n g z (c_gamma cP) Ts Hn0 x X1 X2).
        unfold v_constraints. rewrite !(dot_sub O L). ring.
      - apply IH. intros y Hy. apply Hx. now right. }
    rewrite (E3 _ Hxz), (fri_complete d (c_xs cP) D1 D2 Hxs Hne H255). reflexivity.
Qed.

End CompleteLag.

(* ================================================================================================ *)
(* From "the kernel column is the honest one" to the premises of the core theorem: C16 (rows) -> part 1 (points) -> C17
   (each Lagrange quotient is a polynomial, lag_def is ONE coefficient list) -> the combined quotient Qc + Ql. *)
From VProofs Require CompositionBase CompositionLagrange CompositionLagrangePoly StarkLagrangeRows.

Section ValidLag.
Context {F : Type} (O : FOps F) (L : FLaws O).
Local Notation zero := (fzero O).
Local Notation one := (fone O).
Local Notation "a +f b" := (fadd O a b) (at level 50, left associativity).
Local Notation "a -f b" := (fsub O a b) (at level 50, left associativity).
Local Notation "a *f b" := (fmul O a b) (at level 40, left associativity).
Local Notation peval := (peval O).
Local Notation evals := (evals O).
Local Notation fpow := (fpow O).
Add Ring FringL3 : (FLaws_ring_theory O L).

Variables (n v : nat) (g : F).
Hypothesis n_eq : n = 2 ^ v.
Hypothesis g_prim : primitive_root O g n.
Variable lc : @LagC F.
(* the shape LagrangeKernelTransitionConstraints::new produces (C16_lagrange_count): v coefficients, v divisors x^(2^idx) - 1 *)
Hypothesis coef_len : length (EnforceLagrange.l_coef (lc_t lc)) = v.
Hypothesis rr_len : length (lc_rr lc) = v.
Hypothesis div_len : length (EnforceLagrange.l_div (lc_t lc)) = v.
Hypothesis div_spec : forall idx, idx < v ->
  nth idx (EnforceLagrange.l_div (lc_t lc)) (Enforce.mkD [] []) = Enforce.mkD [((2 ^ Z.of_nat idx)%Z, one)] [].
Hypothesis v_lt_64 : v < 64.

Local Notation ldef_on := (CompositionLagrange.lag_def_on O v (lc_t lc) (lc_rr lc) (lc_lb lc)).

(* the verifier's (C16) evaluation of the Lagrange constraints is defined on every frame of v + 1 entries and is C17's lag_def_on *)
Lemma lag_eval_is_def c x : length c = S v -> lag_eval O lc c x = Some (ldef_on c x).
Proof.
  intros Hc. unfold lag_eval.
  destruct (CompositionLagrange.verifier_lagrange_agrees O L 1 1 1 1 ltac:(lia) ltac:(lia) ltac:(lia) eq_refl v
              (repeat zero (Composition.lde_size 1 1)) (repeat_length _ _) (lc_t lc) (lc_rr lc) (lc_lb lc)
              coef_len rr_len div_len div_spec v_lt_64 c x Hc) as [E1 E2].
  rewrite E1, E2. reflexivity.
Qed.

Lemma lag_frame_length Lp x : length (lag_frame O g v Lp x) = S v.
Proof. unfold lag_frame. now rewrite map_length, lag_pts_length. Qed.

Lemma lag_tot_is_def Lp x :
  lag_tot O lc (lag_frame O g v Lp x) x = CompositionLagrange.lag_def O n (fun _ => g) v Lp (lc_t lc) (lc_rr lc) (lc_lb lc) x.
Proof.
  unfold lag_tot. rewrite (lag_eval_is_def _ x (lag_frame_length Lp x)).
  unfold CompositionLagrange.lag_def. f_equal.
  unfold lag_frame, lag_pts, CompositionLagrange.lag_frame, Composition.gtrace. cbn [map]. now rewrite map_map.
Qed.

(* off the trace domain no Lagrange divisor vanishes *)
Lemma off_domain_lag_good x : 0 < n -> ~ In x (domain O g n) -> CompositionLagrangePoly.lag_good O v x.
Proof.
  intros Hn Hx.
  assert (Hxn : fpow x n <> one).
  { intros E. apply (pprod_nonroot O L _ _ Hx). rewrite (domain_vanishing O L g n g_prim Hn), E. ring. }
  split.
  - intros ->. apply Hxn. apply (fpow_one O L).
  - intros idx Hi E. apply Hxn.
    replace n with (2 ^ (v - idx) * 2 ^ idx) by (rewrite n_eq, <- Nat.pow_add_r; f_equal; lia).
    rewrite (fpow_mul O L). change (Composition.cpow O x (2 ^ idx)) with (fpow x (2 ^ idx)) in E. rewrite E.
    apply (fpow_one O L).
Qed.

(* the HONEST kernel column: Lp takes the values of C16's lag_kernel_col on the trace domain *)
Variable Lp : list F.
Hypothesis Lp_honest : forall i, i < n -> peval Lp (fpow g i) = nth i (kernel_col O (lc_rr lc) v) zero.

Theorem honest_lag_quotient : 0 < n ->
  exists Ql, length Ql <= length Lp /\
    forall x, ~ In x (domain O g n) -> lag_tot O lc (lag_frame O g v Lp x) x = peval Ql x.
Proof.
  intros Hn.
  destruct (CompositionLagrangePoly.lag_def_is_poly O L n v g n_eq g_prim Lp (lc_rr lc) rr_len
              (StarkLagrangeRows.honest_numer_vanishes O L n v g n_eq (lc_rr lc) rr_len Lp Lp_honest)
              (StarkLagrangeRows.honest_first_cell O L n v g n_eq (lc_rr lc) rr_len Lp Lp_honest Hn)
              (fun _ => g) eq_refl (lc_t lc) (lc_lb lc)) as (Ql & Hl & HQl).
  exists Ql. split; [exact Hl|]. intros x Hx. rewrite lag_tot_is_def. apply HQl. now apply off_domain_lag_good.
Qed.
End ValidLag.

Section CapstoneLag.
Context {F : Type} (O : FOps F) (L : FLaws O).
Local Notation zero := (fzero O).
Local Notation one := (fone O).
Local Notation "a +f b" := (fadd O a b) (at level 50, left associativity).
Local Notation "a *f b" := (fmul O a b) (at level 40, left associativity).
Local Notation peval := (peval O).
Local Notation evals := (evals O).
Add Ring FringL4 : (FLaws_ring_theory O L).

Variables (Digest Opening FriProof : Type).
Variable commit : list (list F) -> Digest.
Variable open_prove : list (list F) -> list F -> Opening.
Variable open_ok : Digest -> list F -> list (list F) -> Opening -> bool.
Variable fri_prove : list F -> list F -> FriProof.
Variable fri_verify : FriProof -> nat -> list F -> list F -> bool.
Variable air_eval : F -> list F -> list F -> F.
Variable interp_ce : (F -> F) -> list F.
Variable interp_pts : list F -> list F -> list F.
Variables (n cols ce_size v : nat) (g : F).
Variable ce_coset : list F.
Variable lde : list F.

(* stage hypotheses: exactly those of Proofs/StarkComplete.v (Merkle C10, FRI C15, interpolation over the ce coset C09, coset off
   the trace domain) plus C20's interpolation through distinct points *)
Hypothesis merkle_complete : forall (cs : list (list F)) xs, incl xs lde -> NoDup xs -> xs <> [] -> length xs <= 255 ->
  open_ok (commit cs) xs (map (evals cs) xs) (open_prove cs xs) = true.
Hypothesis fri_complete : forall d xs, length d = n -> last d zero = zero -> incl xs lde -> xs <> [] -> length xs <= 255 ->
  fri_verify (fri_prove d xs) (n - 2) xs (map (peval d) xs) = true.
Hypothesis interp_pts_spec : forall xs ys, NoDup xs -> length ys = length xs ->
  length (interp_pts xs ys) <= length xs /\
  forall m, m < length xs -> peval (interp_pts xs ys) (nth m xs zero) = nth m ys zero.
Hypothesis interp_complete : forall f Q, length Q <= ce_size -> (forall x, In x ce_coset -> f x = peval Q x) ->
  interp_ce f = Q ++ repeat zero (ce_size - length Q).
Hypothesis coset_off_domain : forall x, In x ce_coset -> ~ In x (domain O g n).

Local Notation prove_lag := (prove_lag O interp_pts Digest Opening FriProof commit open_prove fri_prove air_eval interp_ce).
Local Notation verify_lag := (verify_lag O interp_pts Digest Opening FriProof open_ok fri_verify air_eval).

(* stark_complete_lagrange_partial: a valid trace of an AIR WITH a Lagrange-kernel column — the ordinary (main + aux) part is valid
   (its combined constraint evaluation is a polynomial Qc fitting the composition columns, as in stark_complete_partial) and the
   kernel column is the honest one for the random elements rr that the GKR step handed to BOTH sides — is proved and accepted.
   "_partial": the stages Merkle / FRI / ce-interpolation / point interpolation are the named hypotheses above. *)
Theorem stark_complete_lagrange_partial (dbg : bool) (lc : @LagC F) (cP cV : @Coin F) (lcc : F)
    (Ts : list (list F)) (Lp : list F) (Qc : list F) :
  n = 2 ^ v -> 2 <= v -> v < 64 -> primitive_root O g n -> 1 <= cols -> n * cols <= ce_size ->
  Ts <> [] -> Forall (fun p => length p = n) Ts -> length Lp = n ->
  (* valid ordinary part *)
  length Qc <= n * cols ->
  (forall x, ~ In x (domain O g n) -> air_eval x (evals Ts x) (evals Ts (x *f g)) = peval Qc x) ->
  (* the Lagrange constraints have the shape LagrangeKernelTransitionConstraints::new builds (C16_lagrange_count) *)
  length (EnforceLagrange.l_coef (lc_t lc)) = v -> length (lc_rr lc) = v -> length (EnforceLagrange.l_div (lc_t lc)) = v ->
  (forall idx, idx < v ->
     nth idx (EnforceLagrange.l_div (lc_t lc)) (Enforce.mkD [] []) = Enforce.mkD [((2 ^ Z.of_nat idx)%Z, one)] []) ->
  (* honest kernel column *)
  (forall i, i < n -> peval Lp (fpow O g i) = nth i (kernel_col O (lc_rr lc) v) zero) ->
  (* transcript (C04) and GKR (outside the library): the verifier works with the prover's coin values and the same lc *)
  cV = cP ->
  ~ In (c_z cP) (domain O g n) -> c_z cP <> zero -> c_z cP *f g <> zero ->
  incl (c_xs cP) lde -> NoDup (c_xs cP) -> c_xs cP <> [] -> length (c_xs cP) <= 255 ->
  (forall x, In x (c_xs cP) -> ~ In x (lag_pts O g (c_z cP) v)) ->
  exists pf, prove_lag (mkParams n g cols false dbg) v lc cP lcc Ts Lp = Done pf /\
             verify_lag (mkParams n g cols false dbg) v lc cV lcc pf = VAccept.
Proof.
  intros Hnv Hv Hv64 Hg Hcols Hce HTs HTl HLl HQcl HQc Hcl Hrl Hdl Hds Hhon Hc Hz Hz0 Hzg0 Hxs Hnd Hne H255 Hxz.
  assert (Hn0 : 0 < n) by (rewrite Hnv; pose proof (Nat.pow_nonzero 2 v); lia).
  destruct (honest_lag_quotient O L n v g Hnv Hg lc Hcl Hrl Hdl Hds Hv64 Lp Hhon Hn0) as (Ql & HQll & HQl).
  set (Q := padd O Qc Ql).
  assert (HQlen : length Q <= n * cols) by (unfold Q; rewrite (padd_length O); nia).
  assert (HQ : forall x, ~ In x (domain O g n) -> cfun O air_eval v g lc Ts Lp x = peval Q x).
  { intros x Hx. unfold cfun, Q. rewrite (peval_padd O L), (HQc x Hx), (HQl x Hx). reflexivity. }
  apply (stark_complete_lagrange_core O L Digest Opening FriProof commit open_prove open_ok fri_prove fri_verify air_eval
           interp_ce interp_pts n cols ce_size v g lde merkle_complete fri_complete interp_pts_spec dbg lc cP cV lcc Ts Lp Q);
    try assumption.
  - apply interp_complete; [lia|]. intros x Hx. apply HQ. now apply coset_off_domain.
  - rewrite (lag_eval_is_def O L n v Hnv lc Hcl Hrl Hdl Hds Hv64 _ _ (lag_frame_length O v g Lp (c_z cP))). discriminate.
Qed.
End CapstoneLag.
