(* C14 — generic fork-join theory: tasks with disjoint footprints commute, hence every task-level schedule
   (permutation) and every step-level interleaving of a phase gives the same final store.  stdlib style. *)
From Coq Require Import List Arith Bool Lia PeanoNat Permutation.
From VModel Require Import FFT Par.
Import ListNotations.

(* ---------------------------------------------------------------- lupd / nth *)
Lemma par_length_lupd {A} (l : list A) i v : length (lupd l i v) = length l.
Proof. revert i; induction l as [|h t IH]; intros [|i]; cbn; auto. Qed.

Lemma par_nth_lupd_same {A} (l : list A) i v d : i < length l -> nth i (lupd l i v) d = v.
Proof. revert i; induction l as [|h t IH]; intros [|i] H; cbn in *; try lia; auto. apply IH; lia. Qed.

Lemma par_nth_lupd_other {A} (l : list A) i j v d : i <> j -> nth j (lupd l i v) d = nth j l d.
Proof.
  revert i j; induction l as [|h t IH]; intros [|i] [|j] H; cbn; auto; try lia; try (apply IH; lia).
Qed.

Lemma par_lupd_oob {A} (l : list A) i v : length l <= i -> lupd l i v = l.
Proof. revert i; induction l as [|h t IH]; intros [|i] H; cbn in *; auto; try lia. f_equal; apply IH; lia. Qed.

Lemma par_lupd_app {A} (pre post : list A) a b : lupd (pre ++ a :: post) (length pre) b = pre ++ b :: post.
Proof. induction pre as [|h t IH]; cbn; auto. f_equal; exact IH. Qed.

Lemma par_nth_lupd {A} (l : list A) i j v d :
  nth j (lupd l i v) d = if (i =? j) && (i <? length l) then v else nth j l d.
Proof.
  destruct (Nat.eqb_spec i j) as [->|Hne]; cbn [andb].
  - destruct (Nat.ltb_spec j (length l)).
    + apply par_nth_lupd_same; assumption.
    + rewrite par_lupd_oob by assumption. reflexivity.
  - apply par_nth_lupd_other; assumption.
Qed.

Section Commute.
Context {V : Type} (dflt : V).
Notation task := (task V).

(* semantic well-formedness of the declared footprints *)
Definition task_ok (t : task) : Prop :=
  (forall s, length (t_run t s) = length s) /\
  (forall s i, ~ In i (t_writes t) -> nth i (t_run t s) dflt = nth i s dflt) /\
  (forall s s', length s = length s' -> (forall i, In i (t_reads t) -> nth i s dflt = nth i s' dflt) ->
     forall i, In i (t_writes t) -> nth i (t_run t s) dflt = nth i (t_run t s') dflt).

Definition disjoint (l1 l2 : list nat) : Prop := forall i, In i l1 -> ~ In i l2.

(* no write/write and no read/write overlap *)
Definition independent (t1 t2 : task) : Prop :=
  disjoint (t_writes t1) (t_writes t2) /\ disjoint (t_writes t1) (t_reads t2) /\ disjoint (t_writes t2) (t_reads t1).

Lemma independent_sym t1 t2 : independent t1 t2 -> independent t2 t1.
Proof.
  intros (A & B & C). repeat split; auto.
  intros i H1 H2. exact (A i H2 H1).
Qed.

Lemma exec_app (a b : list task) s : exec (a ++ b) s = exec b (exec a s).
Proof. unfold exec. apply fold_left_app. Qed.

Lemma exec_cons (x : task) l s : exec (x :: l) s = exec l (t_run x s).
Proof. reflexivity. Qed.

Lemma exec_length ts : Forall task_ok ts -> forall s, length (exec ts s) = length s.
Proof.
  induction 1 as [|t ts Ht _ IH]; intros s; [reflexivity|].
  rewrite exec_cons, IH. apply Ht.
Qed.

(* two independent tasks commute *)
Lemma commute2 t1 t2 s : task_ok t1 -> task_ok t2 -> independent t1 t2 ->
  t_run t2 (t_run t1 s) = t_run t1 (t_run t2 s).
Proof.
  intros (L1 & F1 & D1) (L2 & F2 & D2) (Hww & Hwr & Hrw).
  apply nth_ext with (d := dflt) (d' := dflt).
  - rewrite L2, L1, L1, L2. reflexivity.
  - intros i _.
    destruct (in_dec Nat.eq_dec i (t_writes t1)) as [I1|N1].
    + assert (N2 : ~ In i (t_writes t2)) by (apply Hww; exact I1).
      rewrite F2 by exact N2.
      apply D1; [symmetry; apply L2| |exact I1].
      intros j Hj. symmetry. apply F2. intro Hj2. exact (Hrw j Hj2 Hj).
    + rewrite (F1 (t_run t2 s)) by exact N1.
      destruct (in_dec Nat.eq_dec i (t_writes t2)) as [I2|N2].
      * apply D2; [apply L1| |exact I2].
        intros j Hj. apply F1. intro Hj1. exact (Hwr j Hj1 Hj).
      * rewrite F2 by exact N2. rewrite F2 by exact N2. apply F1; exact N1.
Qed.

(* a task independent of every task of a list can be moved across the list *)
Lemma commute_past x l : task_ok x -> Forall task_ok l -> Forall (independent x) l ->
  forall s, exec l (t_run x s) = t_run x (exec l s).
Proof.
  intros Hx Hl Hi. induction l as [|y l IH]; intros s; [reflexivity|].
  inversion Hl; subst. inversion Hi; subst.
  rewrite !exec_cons. rewrite (commute2 x y) by assumption. apply IH; assumption.
Qed.

(* ---------------------------------------------------------------- task-level schedules *)
Lemma FOP_perm {A} (R : A -> A -> Prop) : (forall a b, R a b -> R b a) ->
  forall l l', Permutation l l' -> ForallOrdPairs R l -> ForallOrdPairs R l'.
Proof.
  intros Hsym l l' P. induction P as [|x l l' P IH|x y l|l l' l'' P1 IH1 P2 IH2]; intros H.
  - constructor.
  - inversion H; subst. constructor; [eapply Permutation_Forall; eassumption|auto].
  - inversion H as [|? ? Hy H']; subst. inversion H' as [|? ? Hx H'']; subst.
    inversion Hy; subst. constructor; [constructor; auto|constructor; assumption].
  - auto.
Qed.

(* disjoint_commute: pairwise independent well-formed tasks give the same final store under EVERY permutation *)
Theorem disjoint_commute : forall ts ts', Permutation ts ts' ->
  Forall task_ok ts -> ForallOrdPairs independent ts ->
  forall s, exec ts s = exec ts' s.
Proof.
  intros ts ts' P. induction P as [|x l l' P IH|x y l|l l' l'' P1 IH1 P2 IH2]; intros Hok Hind s.
  - reflexivity.
  - inversion Hok; subst. inversion Hind; subst. rewrite !exec_cons. apply IH; assumption.
  - inversion Hok as [|? ? Hy Hok']; subst. inversion Hok' as [|? ? Hx Hok'']; subst.
    inversion Hind as [|? ? Hyl _]; subst. inversion Hyl; subst.
    rewrite !exec_cons. f_equal. apply commute2; assumption.
  - rewrite IH1 by assumption. apply IH2.
    + eapply Permutation_Forall; eassumption.
    + eapply FOP_perm; [exact independent_sym|eassumption|assumption].
Qed.

(* in particular for the schedules of the model: [reorder ts sched] with sched a permutation of the positions *)
Lemma reorder_perm (ts : list task) sched : Permutation sched (seq 0 (length ts)) -> Permutation (reorder ts sched) ts.
Proof.
  intros P. unfold reorder.
  eapply Permutation_trans; [apply Permutation_map; exact P|].
  assert (E : map (fun k => nth k ts idle) (seq 0 (length ts)) = ts).
  { apply nth_ext with (d := idle) (d' := idle).
    - rewrite map_length, seq_length. reflexivity.
    - intros n Hn. rewrite map_length, seq_length in Hn.
      rewrite (nth_indep _ idle (nth 0 ts idle)) by (rewrite map_length, seq_length; exact Hn).
      rewrite (map_nth (fun k => nth k ts idle) (seq 0 (length ts)) 0 n).
      rewrite seq_nth by exact Hn. reflexivity. }
  rewrite E. apply Permutation_refl.
Qed.

Corollary schedule_independent ts sched : Permutation sched (seq 0 (length ts)) ->
  Forall task_ok ts -> ForallOrdPairs independent ts ->
  forall s, exec (reorder ts sched) s = exec ts s.
Proof.
  intros P Hok Hind s. symmetry. apply disjoint_commute; try assumption.
  apply Permutation_sym, reorder_perm; exact P.
Qed.

(* ---------------------------------------------------------------- step-level interleavings *)
(* steps of DIFFERENT tasks are independent *)
Definition cross_independent (tss : list (list task)) : Prop :=
  forall a b, a <> b -> forall x y, In x (nth a tss []) -> In y (nth b tss []) -> independent x y.

Lemma exec_concat_split (pre : list (list task)) (mid : list task) post s :
  exec (concat (pre ++ mid :: post)) s = exec (mid ++ concat post) (exec (concat pre) s).
Proof. rewrite concat_app, exec_app. cbn [concat]. reflexivity. Qed.

Theorem merge_by_spec : forall choices tss out rest,
  merge_by choices tss = (out, rest) ->
  Forall (Forall task_ok) tss -> cross_independent tss ->
  forall s, exec (out ++ concat rest) s = exec (concat tss) s.
Proof.
  induction choices as [|c cs IH]; intros tss out rest E Hok Hci s.
  - cbn in E. inversion E; subst. reflexivity.
  - cbn [merge_by] in E. destruct (nth c tss []) as [|x r] eqn:En.
    + eapply IH; eassumption.
    + destruct (merge_by cs (lupd tss c r)) as [out' rest'] eqn:Em. inversion E; subst out rest.
      assert (Hc : c < length tss).
      { destruct (Nat.ltb_spec c (length tss)); [assumption|]. rewrite nth_overflow in En by assumption. discriminate. }
      destruct (nth_split tss [] Hc) as (pre & post & Etss & Hlen). rewrite En in Etss.
      assert (El : lupd tss c r = pre ++ r :: post).
      { rewrite Etss at 1. rewrite <- Hlen. apply par_lupd_app. }
      (* well-formedness of the pieces *)
      assert (Hok' : Forall (Forall task_ok) (pre ++ (x :: r) :: post)) by (rewrite <- Etss; exact Hok).
      apply Forall_app in Hok'. destruct Hok' as [Hpre Hrest]. apply Forall_cons_iff in Hrest. destruct Hrest as [Hxr Hpost].
      apply Forall_cons_iff in Hxr. destruct Hxr as [Hx Hr].
      cbn [app]. rewrite exec_cons.
      rewrite (IH (lupd tss c r) out' rest' Em).
      * rewrite El, Etss. rewrite !exec_concat_split.
        rewrite commute_past; [reflexivity|exact Hx| |].
        -- apply Forall_concat. exact Hpre.
        -- apply Forall_forall. intros y Hy. apply in_concat in Hy. destruct Hy as (l & Hl & Hyl).
           destruct (In_nth pre l [] Hl) as (a & Ha & Eal).
           apply (Hci c a); [lia| |].
           ++ rewrite En. left. reflexivity.
           ++ rewrite Etss. rewrite app_nth1 by exact Ha. rewrite Eal. exact Hyl.
      * rewrite El. apply Forall_app. split; [exact Hpre|constructor; assumption].
      * intros a b Hab x' y' Hx' Hy'. apply (Hci a b Hab).
        -- rewrite par_nth_lupd in Hx'. destruct ((c =? a) && (c <? length tss)) eqn:Eb; [|exact Hx'].
           apply andb_prop in Eb. destruct Eb as [Eb _]. apply Nat.eqb_eq in Eb. subst a. rewrite En. right. exact Hx'.
        -- rewrite par_nth_lupd in Hy'. destruct ((c =? b) && (c <? length tss)) eqn:Eb; [|exact Hy'].
           apply andb_prop in Eb. destruct Eb as [Eb _]. apply Nat.eqb_eq in Eb. subst b. rewrite En. right. exact Hy'.
Qed.

Lemma all_empty_concat {A} (tss : list (list A)) : all_empty tss = true -> concat tss = [].
Proof.
  induction tss as [|l tss IH]; cbn; [reflexivity|]. destruct l; [|discriminate]. cbn. exact IH.
Qed.

(* every complete interleaving of the atomic steps = the tasks one after the other *)
Theorem interleave_commute : forall choices tss out rest,
  merge_by choices tss = (out, rest) -> all_empty rest = true ->
  Forall (Forall task_ok) tss -> cross_independent tss ->
  forall s, exec out s = exec (concat tss) s.
Proof.
  intros choices tss out rest E He Hok Hci s.
  rewrite <- (merge_by_spec choices tss out rest E Hok Hci s).
  rewrite (all_empty_concat rest He), app_nil_r. reflexivity.
Qed.

(* ---------------------------------------------------------------- composite tasks *)
Lemma exec_map_compose (tss : list (list task)) s : exec (map compose tss) s = exec (concat tss) s.
Proof.
  revert s; induction tss as [|l tss IH]; intros s; [reflexivity|].
  cbn [map concat]. rewrite exec_cons, exec_app. cbn [compose t_run]. apply IH.
Qed.

Lemma compose_ok steps : Forall task_ok steps -> task_ok (compose steps).
Proof.
  intros Hok. unfold compose, task_ok; cbn [t_run t_reads t_writes]. repeat split.
  - apply exec_length; exact Hok.
  - induction Hok as [|t ts Ht _ IH]; intros s i Hn; [reflexivity|].
    cbn [flat_map] in Hn. rewrite in_app_iff in Hn. rewrite exec_cons, IH by tauto.
    apply Ht. tauto.
  - (* invariant: the two stores agree on the whole footprint R (which contains every read and write) *)
    set (R := flat_map (fun t => t_reads t ++ t_writes t) steps).
    assert (G : forall ts, Forall task_ok ts -> (forall t i, In t ts -> In i (t_reads t) \/ In i (t_writes t) -> In i R) ->
                forall s s', length s = length s' -> (forall i, In i R -> nth i s dflt = nth i s' dflt) ->
                forall i, In i R -> nth i (exec ts s) dflt = nth i (exec ts s') dflt).
    { induction 1 as [|t ts (L & F & D) _ IH]; intros Hsub s s' Hl Hag i Hi; [apply Hag; exact Hi|].
      rewrite !exec_cons. apply IH.
      - intros t' j Ht'. apply Hsub. right. exact Ht'.
      - rewrite !L. exact Hl.
      - intros j Hj. destruct (in_dec Nat.eq_dec j (t_writes t)) as [Iw|Nw].
        + apply D; [exact Hl| |exact Iw]. intros k Hk. apply Hag. apply (Hsub t k); [left; reflexivity|left; exact Hk].
        + rewrite !F by exact Nw. apply Hag; exact Hj.
      - exact Hi. }
    intros s s' Hl Hag i Hi. apply (G steps Hok); try assumption.
    + intros t j Ht Hj. unfold R. apply in_flat_map. exists t. split; [exact Ht|]. apply in_app_iff. exact Hj.
    + unfold R. apply in_flat_map in Hi. destruct Hi as (t & Ht & Hit). apply in_flat_map. exists t. split; [exact Ht|].
      apply in_app_iff. right. exact Hit.
Qed.

Lemma compose_independent l1 l2 :
  (forall x y, In x l1 -> In y l2 -> independent x y) -> independent (compose l1) (compose l2).
Proof.
  intros H. unfold independent, disjoint; cbn [compose t_reads t_writes]. repeat split; intros i H1 H2;
    apply in_flat_map in H1; destruct H1 as (x & Hx & Hix); apply in_flat_map in H2; destruct H2 as (y & Hy & Hiy).
  - destruct (H x y Hx Hy) as (A & _ & _). exact (A i Hix Hiy).
  - destruct (H x y Hx Hy) as (A & B & _). apply in_app_iff in Hiy. destruct Hiy; [exact (B i Hix H0)|exact (A i Hix H0)].
  - destruct (H y x Hy Hx) as (A & _ & C). apply in_app_iff in Hiy. destruct Hiy; [exact (C i Hix H0)|exact (A i H0 Hix)].
Qed.

Lemma cross_independent_pairs (tss : list (list task)) :
  cross_independent tss -> ForallOrdPairs independent (map compose tss).
Proof.
  induction tss as [|l tss IH]; intros H; [constructor|]. cbn [map]. constructor.
  - apply Forall_forall. intros t Ht. apply in_map_iff in Ht. destruct Ht as (l2 & <- & Hl2).
    destruct (In_nth tss l2 [] Hl2) as (b & Hb & Eb).
    apply compose_independent. intros x y Hx Hy. apply (H 0 (S b)); [lia|exact Hx|]. cbn [nth]. rewrite Eb. exact Hy.
  - apply IH. intros a b Hab x y Hx Hy. apply (H (S a) (S b)); [lia|exact Hx|exact Hy].
Qed.

(* a phase whose tasks are step lists: every task-level schedule and every complete step-level interleaving
   produce the store of the canonical order *)
Theorem phase_schedule_independent (tss : list (list task)) :
  Forall (Forall task_ok) tss -> cross_independent tss ->
  (forall sched s, Permutation sched (seq 0 (length tss)) ->
     exec (reorder (map compose tss) sched) s = exec (concat tss) s) /\
  (forall choices out rest s, merge_by choices tss = (out, rest) -> all_empty rest = true ->
     exec out s = exec (concat tss) s).
Proof.
  intros Hok Hci. split.
  - intros sched s P. rewrite schedule_independent.
    + apply exec_map_compose.
    + rewrite map_length. exact P.
    + apply Forall_forall. intros t Ht. apply in_map_iff in Ht. destruct Ht as (l & <- & Hl).
      apply compose_ok. rewrite Forall_forall in Hok. apply Hok. exact Hl.
    + apply cross_independent_pairs. exact Hci.
  - intros choices out rest s E He. eapply interleave_commute; eassumption.
Qed.

(* ---------------------------------------------------------------- atomic steps *)
Lemma cell_task_ok rd w (f : list V -> V) :
  (forall s s', length s = length s' -> (forall i, In i rd -> nth i s dflt = nth i s' dflt) -> f s = f s') ->
  task_ok (cell_task rd w f).
Proof.
  intros Hf. unfold task_ok, cell_task; cbn [t_run t_reads t_writes]. repeat split.
  - intros s. apply par_length_lupd.
  - intros s i Hn. apply par_nth_lupd_other. intros ->. apply Hn. left. reflexivity.
  - intros s s' Hl Hag i [<-|[]]. rewrite !par_nth_lupd, Nat.eqb_refl, Hl. cbn [andb].
    destruct (Nat.ltb_spec w (length s')) as [Hlt|Hge]; [apply Hf; assumption|].
    rewrite !nth_overflow; auto; lia.
Qed.

(* boolean footprint checks are sound *)
Lemma mem_In i l : mem i l = true <-> In i l.
Proof.
  unfold mem. rewrite existsb_exists. split.
  - intros (x & Hx & E). apply Nat.eqb_eq in E. subst. exact Hx.
  - intros H. exists i. split; [exact H|apply Nat.eqb_refl].
Qed.

Lemma disjointb_sound l1 l2 : disjointb l1 l2 = true -> disjoint l1 l2.
Proof.
  unfold disjointb, disjoint. rewrite forallb_forall. intros H i Hi Hi2.
  specialize (H i Hi). apply negb_true_iff in H. apply mem_In in Hi2. congruence.
Qed.

Lemma independentb_sound t1 t2 : independentb t1 t2 = true -> independent t1 t2.
Proof.
  unfold independentb. intros H. apply andb_prop in H. destruct H as [H C]. apply andb_prop in H. destruct H as [A B].
  repeat split; apply disjointb_sound; assumption.
Qed.

Lemma pairwiseb_sound {A} (r : A -> A -> bool) (R : A -> A -> Prop) :
  (forall a b, r a b = true -> R a b) -> forall l, pairwiseb r l = true -> ForallOrdPairs R l.
Proof.
  intros Hr. induction l as [|x l IH]; intros H; [constructor|]. cbn in H. apply andb_prop in H. destruct H as [H1 H2].
  constructor; [|auto]. apply Forall_forall. intros y Hy. apply Hr. rewrite forallb_forall in H1. auto.
Qed.

End Commute.
