(* C10 — batch openings: prove_batch succeeds and get_root recomputes the root (all depths). *)
From Coq Require Import ZArith List Bool Lia.
From VBase Require Import MachInt.
From VModel Require Import Merkle.
From VProofs Require Import MerkleBase MerkleSingle MerkleIdx.
Import ListNotations.
Open Scope Z_scope.

(* ---------------------------------------------------------------- upd / map *)
Lemma upd_nat_map {A B} (f : A -> B) (l : list A) n x :
  upd_nat (map f l) n (f x) = match upd_nat l n x with Some l' => Some (map f l') | None => None end.
Proof.
  revert n. induction l as [|a l IH]; intros n; [reflexivity|]. destruct n as [|n]; [reflexivity|].
  simpl. rewrite IH. destruct (upd_nat l n x); reflexivity.
Qed.

Lemma upd_map {A B} (f : A -> B) (l l' : list A) i x : upd l i x = Ok l' -> upd (map f l) i (f x) = Ok (map f l').
Proof.
  unfold upd. destruct (i <? 0); [discriminate|]. rewrite upd_nat_map.
  destruct (upd_nat l (Z.to_nat i) x); [|discriminate]. intros [= ->]. reflexivity.
Qed.

Lemma idx_map {A B} (f : A -> B) (l : list A) i x : idx l i = Ok x -> idx (map f l) i = Ok (f x).
Proof.
  unfold idx. destruct (i <? 0); [discriminate|]. rewrite nth_error_map.
  destruct (nth_error l (Z.to_nat i)); [|discriminate]. intros [= ->]. reflexivity.
Qed.

Lemma match_nonempty {A B} (l : list A) (a b : B) : l <> [] -> match l with [] => a | _ :: _ => b end = b.
Proof. destruct l; [congruence|reflexivity]. Qed.

Lemma idx_nth_error {A} (l : list A) i x : 0 <= i -> nth_error l (Z.to_nat i) = Some x -> idx l i = Ok x.
Proof. intros Hi E. unfold idx. destruct (Z.ltb_spec i 0); [lia|]. rewrite E. reflexivity. Qed.

Section Batch.
Variable D : Type.
Variable D_eqb : D -> D -> bool.
Hypothesis D_eqb_spec : forall a b, D_eqb a b = true <-> a = b.
Variable d0 : D.
Variable merge : D -> D -> D.

Notation mtree := (mtree D).
Notation bproof := (bproof D).
Notation hval := (hval D d0).
Notation znth := (znth D d0).
Notation wf_tree := (wf_tree D d0 merge).
Notation pb_scan := (pb_scan D).
Notation pb_levels := (pb_levels D).
Notation pb_first := (pb_first D).
Notation pb_leaf := (pb_leaf D).
Notation push_at := (push_at D).
Notation gscan := (gscan D merge).
Notation glevels := (glevels D merge).
Notation gfirst := (gfirst D merge).
Notation gleaf := (gleaf D).
Notation gstep := (gstep D merge).
Notation gsib := (gsib D).
Notation gcore := (gcore D merge).
Notation get_root := (get_root D merge).
Notation mt_prove_batch := (mt_prove_batch D d0).

(* ---------------------------------------------------------------- unfolding lemmas *)
Lemma pb_scan_unfold tn a rest i nodes :
  pb_scan tn (a :: rest) i nodes =
  if merged a rest then
    '(nodesF, next) <- pb_scan tn (tl rest) (i + 2) nodes ;; Ok (nodesF, Z.shiftr (Z.lxor a 1) 1 :: next)
  else
    x <- idx tn (Z.lxor a 1) ;;
    nodes1 <- push_at nodes i x ;;
    '(nodesF, next) <- pb_scan tn rest (i + 1) nodes1 ;; Ok (nodesF, Z.shiftr (Z.lxor a 1) 1 :: next).
Proof. destruct rest as [|b rest']; [reflexivity|]. cbn [Merkle.pb_scan merged tl]. destruct (b =? Z.lxor a 1); reflexivity. Qed.

Lemma gscan_unfold pn a rest i v ptrs ptm :
  gscan pn (a :: rest) i v ptrs ptm =
  if merged a rest then
    match bt_get (Z.lxor a 1) v with
    | None => Err InvalidProof
    | Some s =>
      '(v1, ptm1, pi) <- gstep a s v ptm ;;
      '(vF, ptrsF, ptmF, next) <- gscan pn (tl rest) (i + 2) v1 ptrs ptm1 ;;
      Ok (vF, ptrsF, ptmF, pi :: next)
    end
  else
    '(s, ptrs1) <- gsib pn ptrs i ;;
    '(v1, ptm1, pi) <- gstep a s v ptm ;;
    '(vF, ptrsF, ptmF, next) <- gscan pn rest (i + 1) v1 ptrs1 ptm1 ;;
    Ok (vF, ptrsF, ptmF, pi :: next).
Proof. destruct rest as [|b rest']; [reflexivity|]. cbn [Merkle.gscan merged tl]. destruct (b =? Z.lxor a 1); reflexivity. Qed.

Lemma merged_inv a rest : merged a rest = true -> exists rest', rest = Z.lxor a 1 :: rest'.
Proof. destruct rest as [|b r]; [discriminate|]. simpl. intros E. apply Z.eqb_eq in E. subst. eauto. Qed.

Lemma tl_length_le {A} (l : list A) : (length (tl l) <= length l)%nat.
Proof. destruct l; simpl; lia. Qed.

Lemma In_tl {A} (x : A) l : In x (tl l) -> In x l.
Proof. destruct l; simpl; auto. Qed.

(* ---------------------------------------------------------------- push_at *)
Lemma push_at_inv nodes i x nodes1 :
  push_at nodes i x = Ok nodes1 ->
  exists nd, 0 <= i < zlen nodes /\ nth_error nodes (Z.to_nat i) = Some nd /\ upd nodes i (nd ++ [x]) = Ok nodes1 /\
             length nodes1 = length nodes /\ Forall2 prefix nodes nodes1.
Proof.
  unfold Merkle.push_at. intros E. apply bind_Ok in E. destruct E as (nd & E1 & E2).
  apply idx_inv in E1. destruct E1 as [Hi E1]. exists nd. split; [assumption|]. split; [assumption|]. split; [assumption|].
  apply upd_inv in E2. destruct E2 as (_ & L & Nn). split; [assumption|].
  eapply (Forall2_upd prefix); try eassumption; [apply prefix_refl|apply prefix_app].
Qed.

Lemma push_at_ok nodes i x : 0 <= i < zlen nodes -> exists nodes1, push_at nodes i x = Ok nodes1.
Proof.
  intros Hi. unfold Merkle.push_at. rewrite (idx_Ok _ _ []) by assumption. cbn [bind].
  destruct (upd_Ok nodes i (nth (Z.to_nat i) nodes [] ++ [x]) Hi) as (l' & E & _). eauto.
Qed.

(* ---------------------------------------------------------------- the tree *)
Variable t : mtree.
Variable d : nat.
Hypothesis WF : wf_tree d t.
Hypothesis Hd : (d <= 62)%nat.
Let N := 2 ^ Z.of_nat d.
Let tn := mt_nodes t.

Definition leaf (k : Z) : D := znth (mt_leaves t) k.

Lemma Npos : 2 <= N.
Proof. apply (N_pos D d0 merge t d); assumption. Qed.

Lemma Neven : N mod 2 = 0.
Proof. apply (N_even D d0 merge t d); assumption. Qed.

Lemma Nsmall : 2 * N <= usz.
Proof. unfold N. eapply N_small; eassumption. Qed.

Lemma tn_len : zlen tn = N.
Proof. exact (wf_nodes _ _ _ _ _ WF). Qed.

Lemma leaves_len : zlen (mt_leaves t) = N.
Proof. exact (wf_leaves _ _ _ _ _ WF). Qed.

Lemma sib_range a : 2 <= a < N -> 0 <= Z.lxor a 1 < N.
Proof.
  intros H. pose proof Neven. pose proof Npos. rewrite lxor1 by lia.
  pose proof (Z.div_mod a 2 ltac:(lia)). pose proof (Z.div_mod N 2 ltac:(lia)). destruct (mod2_cases a); lia.
Qed.

Lemma idx_tn k : 0 <= k < N -> idx tn k = Ok (hval t k).
Proof.
  intros H. rewrite (idx_Ok _ _ d0) by (rewrite tn_len; assumption).
  rewrite (hval_node D d0 merge t d) by assumption. reflexivity.
Qed.

(* ---------------------------------------------------------------- pb_scan / pb_levels *)
Lemma pb_scan_inv : forall n I i nodes nodes' next, (length I <= n)%nat ->
  pb_scan tn I i nodes = Ok (nodes', next) ->
  Forall2 prefix nodes nodes' /\ (length next <= length I)%nat /\
  (forall b, In b next -> exists a, In a I /\ b = Z.lxor a 1 / 2) /\ (I <> [] -> next <> []).
Proof.
  induction n as [|n IH]; intros I i nodes nodes' next Hn E.
  - destruct I; [|simpl in Hn; lia]. cbn in E. injection E as <- <-.
    split; [apply Forall2_refl; apply prefix_refl|]. split; [lia|]. split; [intros ? []|congruence].
  - destruct I as [|a rest].
    + cbn in E. injection E as <- <-.
      split; [apply Forall2_refl; apply prefix_refl|]. split; [simpl; lia|]. split; [intros ? []|congruence].
    + rewrite pb_scan_unfold in E. destruct (merged a rest) eqn:Em.
      * apply bind_Ok in E. destruct E as ([nodesF next'] & E1 & E2). injection E2 as <- <-.
        apply IH in E1; [|pose proof (tl_length_le rest); simpl in Hn; lia].
        destruct E1 as (F & L & P & _). split; [assumption|]. split; [pose proof (tl_length_le rest); simpl; lia|].
        split; [|congruence]. intros b [<-|Hb].
        -- exists a. split; [left; reflexivity|]. apply shiftr1.
        -- apply P in Hb. destruct Hb as (a' & Ha & ->). exists a'. split; [right; apply In_tl; assumption|reflexivity].
      * apply bind_Ok in E. destruct E as (x & _ & E). apply bind_Ok in E. destruct E as (nodes1 & Ep & E).
        apply bind_Ok in E. destruct E as ([nodesF next'] & E1 & E2). injection E2 as <- <-.
        apply push_at_inv in Ep. destruct Ep as (nd & _ & _ & _ & _ & F1).
        apply IH in E1; [|simpl in Hn; lia]. destruct E1 as (F & L & P & _).
        split; [eapply Forall2_trans; [exact (@prefix_trans D)|eassumption|eassumption]|].
        split; [simpl; lia|]. split; [|congruence]. intros b [<-|Hb].
        -- exists a. split; [left; reflexivity|]. apply shiftr1.
        -- apply P in Hb. destruct Hb as (a' & Ha & ->). exists a'. split; [right; assumption|reflexivity].
Qed.

Lemma pb_scan_ok : forall n I i nodes, (length I <= n)%nat ->
  (forall a, In a I -> 2 <= a < N) -> 0 <= i -> i + zlen I <= zlen nodes ->
  exists r, pb_scan tn I i nodes = Ok r.
Proof.
  induction n as [|n IH]; intros I i nodes Hn Hr Hi Hl.
  - destruct I; [|simpl in Hn; lia]. cbn. eauto.
  - destruct I as [|a rest]; [cbn; eauto|].
    rewrite pb_scan_unfold. rewrite zlen_cons in Hl. destruct (merged a rest) eqn:Em.
    + destruct (merged_inv _ _ Em) as (rest' & ->). cbn [tl]. rewrite zlen_cons in Hl.
      destruct (IH rest' (i + 2) nodes) as ([nf nx] & E); [simpl in Hn; lia| |lia|lia|].
      { intros a' Ha. apply Hr. right. right. assumption. }
      rewrite E. cbn [bind]. eauto.
    + rewrite idx_tn by (apply sib_range; apply Hr; left; reflexivity). cbn [bind].
      destruct (push_at_ok nodes i (hval t (Z.lxor a 1))) as (nodes1 & Ep); [pose proof (zlen_nonneg rest); lia|].
      rewrite Ep. cbn [bind]. apply push_at_inv in Ep. destruct Ep as (_ & _ & _ & _ & L1 & _).
      destruct (IH rest (i + 1) nodes1) as ([nf nx] & E); [simpl in Hn; lia| |lia| |].
      { intros a' Ha. apply Hr. right. assumption. }
      { unfold zlen in *. rewrite L1. lia. }
      rewrite E. cbn [bind]. eauto.
Qed.

Lemma pb_levels_mono : forall k I nodes NF, pb_levels k tn I nodes = Ok NF -> Forall2 prefix nodes NF.
Proof.
  induction k as [|k IH]; intros I nodes NF E.
  - cbn in E. injection E as <-. apply Forall2_refl. apply prefix_refl.
  - cbn [Merkle.pb_levels] in E. apply bind_Ok in E. destruct E as ([nodes1 next] & E1 & E2).
    apply (pb_scan_inv (length I)) in E1; [|lia]. destruct E1 as (F & _). apply IH in E2.
    eapply Forall2_trans; [exact (@prefix_trans D)|eassumption|eassumption].
Qed.

Lemma parent_range (k : nat) a : 2 ^ (Z.of_nat k + 1) <= a < 2 ^ (Z.of_nat k + 2) ->
  2 ^ Z.of_nat k <= Z.lxor a 1 / 2 < 2 ^ (Z.of_nat k + 1).
Proof.
  intros H. assert (0 < 2 ^ (Z.of_nat k + 1)) by (apply pow2_pos; lia).
  rewrite lxor1_div2 by lia. apply div2_range; [lia|assumption].
Qed.

Lemma pb_levels_ok : forall (k : nat) I nodes,
  (forall a, In a I -> 2 ^ Z.of_nat k <= a < 2 ^ (Z.of_nat k + 1)) -> 2 ^ (Z.of_nat k + 1) <= N ->
  zlen I <= zlen nodes ->
  exists NF, pb_levels k tn I nodes = Ok NF.
Proof.
  induction k as [|k IH]; intros I nodes Hr HN Hl.
  - cbn. eauto.
  - cbn [Merkle.pb_levels]. rewrite Nat2Z.inj_succ in *. unfold Z.succ in *.
    assert (0 < 2 ^ Z.of_nat k) by (apply pow2_pos; lia).
    assert (H2 : 2 ^ (Z.of_nat k + 1) = 2 * 2 ^ Z.of_nat k) by (rewrite Z.pow_add_r by lia; change (2 ^ 1) with 2; lia).
    destruct (pb_scan_ok (length I) I 0 nodes) as ([nodes1 next] & E); [lia| |lia|lia|].
    { intros a Ha. apply Hr in Ha. lia. }
    rewrite E. cbn [bind]. apply (pb_scan_inv (length I)) in E; [|lia]. destruct E as (F & L & P & _).
    apply IH.
    + intros b Hb. apply P in Hb. destruct Hb as (a & Ha & ->). apply parent_range.
      replace (Z.of_nat k + 2) with (Z.of_nat k + 1 + 1) by lia. apply Hr. assumption.
    + etransitivity; [|exact HN]. apply pow2_le_mono. lia.
    + apply Forall2_len in F. unfold zlen in *. lia.
Qed.

(* ---------------------------------------------------------------- get_root side: one level *)
Definition vsound (v : bmap D) : Prop := forall k x, bt_get k v = Some x -> 1 <= k /\ x = hval t k.

Lemma vsound_insert v k : vsound v -> 1 <= k -> vsound (bt_insert k (hval t k) v).
Proof.
  intros Hv Hk k2 x. rewrite bt_get_insert. destruct (Z.eqb_spec k2 k); [intros [= <-]; subst; auto|apply Hv].
Qed.

(* every entry of the partial tree of an honest run is the tree's node value *)
Definition ptmsound (m : bmap D) : Prop := forall k x, bt_get k m = Some x -> x = hval t k.

Lemma ptmsound_insert m k : ptmsound m -> ptmsound (bt_insert k (hval t k) m).
Proof.
  intros Hm k2 x. rewrite bt_get_insert. destruct (Z.eqb_spec k2 k); [intros [= <-]; subst; auto|apply Hm].
Qed.

Lemma gstep_ok a s v ptm :
  2 <= a < N -> vsound v -> bt_get a v <> None -> s = hval t (Z.lxor a 1) ->
  exists ptm1, gstep a s v ptm = Ok (bt_insert (a / 2) (hval t (a / 2)) v, ptm1, a / 2) /\
               (ptmsound ptm -> ptmsound ptm1).
Proof.
  intros Ha Hv Hg ->. unfold Merkle.gstep. destruct (bt_get a v) as [node|] eqn:E; [|congruence].
  apply Hv in E. destruct E as [_ ->]. rewrite shiftr1.
  pose proof Npos.
  assert (C := climb_step D d0 merge t d WF Hd a ltac:(lia)).
  destruct (Z.land a 1 =? 0); cbn [negb]; rewrite C; (eexists; split; [reflexivity|]; intros Hs; apply ptmsound_insert, ptmsound_insert; assumption).
Qed.

Lemma scan_complete : forall n I i nodes nodes' next NF v ptm, (length I <= n)%nat ->
  pb_scan tn I i nodes = Ok (nodes', next) ->
  Forall2 prefix nodes' NF -> 0 <= i ->
  (forall a, In a I -> 2 <= a < N) ->
  vsound v -> (forall a, In a I -> bt_get a v <> None) ->
  exists v' ptm', gscan NF I i v (map zlen nodes) ptm = Ok (v', map zlen nodes', ptm', next) /\
    vsound v' /\ (forall k, bt_get k v <> None -> bt_get k v' <> None) /\
    (forall b, In b next -> bt_get b v' <> None) /\ (ptmsound ptm -> ptmsound ptm').
Proof.
  induction n as [|n IH]; intros I i nodes nodes' next NF v ptm Hn E HF Hi Hr Hv Hk.
  - destruct I; [|simpl in Hn; lia]. cbn in E. injection E as <- <-. cbn. exists v, ptm. split; [reflexivity|]. split; [assumption|]. split; [auto|]. split; [intros ? []|auto].
  - destruct I as [|a rest].
    { cbn in E. injection E as <- <-. cbn. exists v, ptm. split; [reflexivity|]. split; [assumption|]. split; [auto|]. split; [intros ? []|auto]. }
    assert (Ha : 2 <= a < N) by (apply Hr; left; reflexivity).
    rewrite pb_scan_unfold in E. rewrite gscan_unfold. destruct (merged a rest) eqn:Em.
    + destruct (merged_inv _ _ Em) as (rest' & ->). cbn [tl] in *.
      apply bind_Ok in E. destruct E as ([nodesF next'] & E1 & E2). injection E2 as <- <-.
      assert (Hs : In (Z.lxor a 1) (a :: Z.lxor a 1 :: rest')) by (right; left; reflexivity).
      destruct (bt_get (Z.lxor a 1) v) as [s|] eqn:Es; [|apply Hk in Hs; congruence].
      apply Hv in Es. destruct Es as [_ ->].
      destruct (gstep_ok a (hval t (Z.lxor a 1)) v ptm Ha Hv (Hk a (or_introl eq_refl)) eq_refl) as (ptm1 & Eg & Hs1).
      rewrite Eg. cbn [bind].
      assert (Hv1 : vsound (bt_insert (a / 2) (hval t (a / 2)) v)).
      { apply vsound_insert; [assumption|]. pose proof (Z.div_mod a 2 ltac:(lia)). pose proof (Z.mod_pos_bound a 2 ltac:(lia)). lia. }
      destruct (IH rest' (i + 2) nodes nodesF next' NF (bt_insert (a / 2) (hval t (a / 2)) v) ptm1 ltac:(simpl in Hn; lia) E1 HF ltac:(lia)) as (v' & ptm' & Eg2 & Hv' & Hk' & Hn' & Hs').
      { intros a' Ha'. apply Hr. right. right. assumption. }
      { exact Hv1. }
      { intros a' Ha'. rewrite bt_get_insert. destruct (a' =? a / 2); [discriminate|]. apply Hk. right. right. assumption. }
      rewrite Eg2. cbn [bind]. exists v', ptm'. split.
      { rewrite shiftr1, lxor1_div2 by lia. reflexivity. }
      split; [assumption|]. split.
      { intros k Hk0. apply Hk'. rewrite bt_get_insert. destruct (k =? a / 2); [discriminate|assumption]. }
      split; [|intros Hs0; apply Hs', Hs1; assumption].
      intros b [<-|Hb]; [|apply Hn'; assumption].
      apply Hk'. rewrite shiftr1, lxor1_div2 by lia. rewrite bt_get_insert_same. discriminate.
    + apply bind_Ok in E. destruct E as (x & Ex & E). apply bind_Ok in E. destruct E as (nodes1 & Ep & E).
      apply bind_Ok in E. destruct E as ([nodesF next'] & E1 & E2). injection E2 as <- <-.
      rewrite idx_tn in Ex by (apply sib_range; assumption). injection Ex as <-.
      destruct (push_at_inv _ _ _ _ Ep) as (nd & Hi2 & End & Eu & L1 & F1).
      pose proof (pb_scan_inv (length rest) rest (i + 1) nodes1 nodesF next' (le_n _) E1) as (F2 & _).
      (* the node read by get_root *)
      assert (End1 : nth_error nodes1 (Z.to_nat i) = Some (nd ++ [hval t (Z.lxor a 1)])).
      { apply upd_inv in Eu. destruct Eu as (_ & _ & Nn). rewrite Nn, Nat.eqb_refl. reflexivity. }
      destruct (Forall2_nth _ _ _ _ _ F2 End1) as (ndF & EndF & P1).
      destruct (Forall2_nth _ _ _ _ _ HF EndF) as (ndN & EndN & P2).
      pose proof (prefix_snoc_nth _ _ _ (prefix_trans _ _ _ P1 P2)) as [Ex Hlen].
      unfold Merkle.gsib.
      rewrite (idx_map zlen nodes i nd) by (apply idx_nth_error; [lia|assumption]). cbn [bind].
      rewrite (idx_nth_error NF i ndN) by (lia || assumption). cbn [bind].
      destruct (Z.leb_spec (zlen ndN) (zlen nd)); [unfold zlen in *; lia|].
      rewrite (idx_nth_error ndN (zlen nd) (hval t (Z.lxor a 1))) by (try apply zlen_nonneg; unfold zlen; rewrite Nat2Z.id; assumption).
      cbn [bind].
      assert (Eu2 : upd (map zlen nodes) i (zlen nd + 1) = Ok (map zlen nodes1)).
      { replace (zlen nd + 1) with (zlen (nd ++ [hval t (Z.lxor a 1)])) by (rewrite zlen_app; reflexivity).
        apply upd_map. assumption. }
      rewrite Eu2. cbn [bind].
      destruct (gstep_ok a (hval t (Z.lxor a 1)) v ptm Ha Hv (Hk a (or_introl eq_refl)) eq_refl) as (ptm1 & Eg & Hs1).
      rewrite Eg. cbn [bind].
      assert (Hv1 : vsound (bt_insert (a / 2) (hval t (a / 2)) v)).
      { apply vsound_insert; [assumption|]. pose proof (Z.div_mod a 2 ltac:(lia)). pose proof (Z.mod_pos_bound a 2 ltac:(lia)). lia. }
      destruct (IH rest (i + 1) nodes1 nodesF next' NF (bt_insert (a / 2) (hval t (a / 2)) v) ptm1 ltac:(simpl in Hn; lia) E1 HF ltac:(lia)) as (v' & ptm' & Eg2 & Hv' & Hk' & Hn' & Hs').
      { intros a' Ha'. apply Hr. right. assumption. }
      { exact Hv1. }
      { intros a' Ha'. rewrite bt_get_insert. destruct (a' =? a / 2); [discriminate|]. apply Hk. right. assumption. }
      rewrite Eg2. cbn [bind]. exists v', ptm'. split.
      { rewrite shiftr1, lxor1_div2 by lia. reflexivity. }
      split; [assumption|]. split.
      { intros k Hk0. apply Hk'. rewrite bt_get_insert. destruct (k =? a / 2); [discriminate|assumption]. }
      split; [|intros Hs0; apply Hs', Hs1; assumption].
      intros b [<-|Hb]; [|apply Hn'; assumption].
      apply Hk'. rewrite shiftr1, lxor1_div2 by lia. rewrite bt_get_insert_same. discriminate.
Qed.

(* ---------------------------------------------------------------- all levels *)
Lemma levels_complete : forall (k : nat) I nodes NF v ptm,
  pb_levels k tn I nodes = Ok NF ->
  (forall a, In a I -> 2 ^ Z.of_nat k <= a < 2 ^ (Z.of_nat k + 1)) -> 2 ^ (Z.of_nat k + 1) <= N ->
  vsound v -> (forall a, In a I -> bt_get a v <> None) ->
  exists v' ptm', glevels k NF I v (map zlen nodes) ptm = Ok (v', map zlen NF, ptm') /\ vsound v' /\
                  (I <> [] -> bt_get 1 v' <> None) /\ (ptmsound ptm -> ptmsound ptm').
Proof.
  induction k as [|k IH]; intros I nodes NF v ptm E Hr HN Hv Hk.
  - cbn in E. injection E as <-. cbn. exists v, ptm. split; [reflexivity|]. split; [assumption|]. split; [|auto].
    intros Hne. destruct I as [|a r]; [congruence|]. specialize (Hr a (or_introl eq_refl)). cbn in Hr.
    assert (a = 1) by lia. subst a. apply Hk. left. reflexivity.
  - cbn [Merkle.pb_levels] in E. cbn [Merkle.glevels]. rewrite Nat2Z.inj_succ in *. unfold Z.succ in *.
    assert (0 < 2 ^ Z.of_nat k) by (apply pow2_pos; lia).
    assert (H2 : 2 ^ (Z.of_nat k + 1) = 2 * 2 ^ Z.of_nat k) by (rewrite Z.pow_add_r by lia; change (2 ^ 1) with 2; lia).
    apply bind_Ok in E. destruct E as ([nodes1 next] & E1 & E2).
    pose proof (pb_levels_mono _ _ _ _ E2) as F2.
    pose proof (pb_scan_inv (length I) I 0 nodes nodes1 next (le_n _) E1) as (_ & _ & P & Pne).
    destruct (scan_complete (length I) I 0 nodes nodes1 next NF v ptm (le_n _) E1 F2 ltac:(lia)) as (v1 & ptm1 & Eg & Hv1 & Hk1 & Hn1 & Hs1).
    { intros a Ha. apply Hr in Ha. lia. }
    { assumption. }
    { assumption. }
    rewrite Eg. cbn [bind].
    destruct (IH next nodes1 NF v1 ptm1 E2) as (v' & ptm' & Eg2 & Hv' & H1 & Hs').
    + intros b Hb. apply P in Hb. destruct Hb as (a & Ha & ->). apply parent_range.
      replace (Z.of_nat k + 2) with (Z.of_nat k + 1 + 1) by lia. apply Hr. assumption.
    + etransitivity; [|exact HN]. apply pow2_le_mono. lia.
    + assumption.
    + assumption.
    + exists v', ptm'. split; [assumption|]. split; [assumption|].
      split; [intros Hne; apply H1; apply Pne; assumption|intros Hs0; apply Hs', Hs1; assumption].
Qed.

(* ---------------------------------------------------------------- first loops *)
Lemma hval_leaf_pair e : 0 <= e -> e mod 2 = 0 -> e + 1 < N ->
  merge (leaf e) (leaf (e + 1)) = hval t ((e + N) / 2) /\ 1 <= (e + N) / 2 < N.
Proof.
  intros He Hev HeN. pose proof Npos. pose proof Neven.
  pose proof (Z.div_mod (e + N) 2 ltac:(lia)). pose proof (Z.div_mod e 2 ltac:(lia)). pose proof (Z.div_mod N 2 ltac:(lia)).
  assert (Hm : (e + N) mod 2 = 0).
  { replace (e + N) with (0 + (e / 2 + N / 2) * 2) by lia. rewrite Z.mod_add by lia. reflexivity. }
  split; [|lia].
  rewrite (wf_merge _ _ _ _ _ WF ((e + N) / 2)) by (fold N; lia).
  rewrite !(hval_leaf D d0 merge t d) by (assumption || (fold N; lia)). fold N. unfold leaf. do 2 f_equal; lia.
Qed.

Section First.
Variable indexes : list Z.
Variable imap : bmap Z.
Hypothesis IM : imap_ok indexes imap.
Let m := length indexes.

Definition miss1 (k : Z) : list D := match bt_get k imap with Some _ => [] | None => [leaf k] end.
Definition miss (e : Z) : list D := miss1 e ++ miss1 (e + 1).

Lemma pb_leaf_ok k leaves : 0 <= k < N -> length leaves = m ->
  exists leaves', pb_leaf t imap k leaves = Ok (leaves', miss1 k) /\ length leaves' = m /\
    forall k' j, bt_get k' imap = Some j ->
      (k' = k \/ nth_error leaves (Z.to_nat j) = Some (leaf k')) -> nth_error leaves' (Z.to_nat j) = Some (leaf k').
Proof.
  intros Hk HL. unfold Merkle.pb_leaf. rewrite (idx_Ok _ _ d0) by (rewrite leaves_len; lia). cbn [bind].
  change (nth (Z.to_nat k) (mt_leaves t) d0) with (leaf k). unfold miss1.
  destruct (bt_get k imap) as [j0|] eqn:E.
  - pose proof (imap_ok_range _ _ _ _ IM E) as Hj0.
    destruct (upd_Ok leaves j0 (leaf k)) as (l' & Eu & L & Nn); [unfold zlen in *; fold m in Hj0; lia|].
    rewrite Eu. cbn [bind]. exists l'. split; [reflexivity|]. split; [lia|].
    intros k' j Ek' Hor. rewrite Nn. pose proof (imap_ok_range _ _ _ _ IM Ek') as Hj.
    destruct (Nat.eqb_spec (Z.to_nat j) (Z.to_nat j0)) as [Heq|Hne].
    + assert (j = j0) by lia. subst j. rewrite (imap_ok_inj _ _ _ _ _ IM Ek' E). reflexivity.
    + destruct Hor as [->|H]; [|exact H]. rewrite E in Ek'. injection Ek' as ->. contradiction.
  - exists leaves. split; [reflexivity|]. split; [assumption|]. intros k' j Ek' [->|H]; [congruence|assumption].
Qed.

Lemma pb_first_ok : forall norm leaves0, length leaves0 = m ->
  (forall e, In e norm -> 0 <= e /\ e mod 2 = 0 /\ e + 1 < N) ->
  exists leavesF,
    pb_first t imap N norm leaves0 = Ok (leavesF, map miss norm, map (fun e => (e + N) / 2) norm) /\
    length leavesF = m /\
    forall k j, bt_get k imap = Some j ->
      (In (k - k mod 2) norm \/ nth_error leaves0 (Z.to_nat j) = Some (leaf k)) ->
      nth_error leavesF (Z.to_nat j) = Some (leaf k).
Proof.
  induction norm as [|e rest IH]; intros leaves0 HL Hr.
  - exists leaves0. cbn. split; [reflexivity|]. split; [assumption|]. intros k j E [[]|H]; assumption.
  - cbn [Merkle.pb_first]. destruct (Hr e (or_introl eq_refl)) as (He0 & Hev & HeN). pose proof Nsmall.
    destruct (pb_leaf_ok e leaves0) as (l1 & E1 & L1 & P1); [lia|assumption|]. rewrite E1. cbn [bind].
    rewrite uadd_Ok by lia. cbn [bind].
    destruct (pb_leaf_ok (e + 1) l1) as (l2 & E2 & L2 & P2); [lia|assumption|]. rewrite E2. cbn [bind].
    rewrite uadd_Ok by lia. cbn [bind].
    destruct (IH l2 L2) as (lF & EF & LF & PF); [intros e' He'; apply Hr; right; assumption|].
    rewrite EF. cbn [bind]. exists lF. split; [cbn [map]; rewrite shiftr1; reflexivity|]. split; [assumption|].
    intros k j Ek [[Hin|Hin]|H0].
    + apply PF; [assumption|]. right. destruct (mod2_cases k) as [Ek2|Ek2]; rewrite Ek2 in Hin.
      * assert (k = e) by lia. subst k. apply P2; [assumption|]. right. apply P1; [assumption|]. left. reflexivity.
      * assert (k = e + 1) by lia. subst k. apply P2; [assumption|]. left. reflexivity.
    + apply PF; [assumption|]. left. assumption.
    + apply PF; [assumption|]. right. apply P2; [assumption|]. right. apply P1; [assumption|]. right. assumption.
Qed.

(* the proof handed to get_root *)
Variable LF : list D.
Variable NF : list (list D).
Variable norm0 : list Z.
Let p : bproof := {| bp_leaves := LF; bp_nodes := NF; bp_depth := Z.of_nat d |}.
Hypothesis HLFlen : length LF = m.
Hypothesis HLF : forall k j, bt_get k imap = Some j -> In (k - k mod 2) norm0 ->
  nth_error LF (Z.to_nat j) = Some (leaf k).

Lemma gleafv_ok k j : bt_get k imap = Some j -> In (k - k mod 2) norm0 -> gleafv D p j = Ok (leaf k).
Proof.
  intros E Hin. unfold Merkle.gleafv. cbn [bp_leaves p]. pose proof (imap_ok_range _ _ _ _ IM E) as Hj.
  destruct (Z.leb_spec (zlen LF) j); [unfold zlen in *; fold m in Hj; lia|].
  apply idx_nth_error; [lia|]. apply HLF; assumption.
Qed.

Lemma gleaf_ok s e ndN :
  0 <= s -> nth_error NF (Z.to_nat s) = Some ndN -> prefix (miss e) ndN ->
  0 <= e -> e mod 2 = 0 -> e + 1 < N -> In e norm0 ->
  (bt_get e imap <> None \/ bt_get (e + 1) imap <> None) ->
  gleaf p imap s e = Ok (leaf e, leaf (e + 1), zlen (miss e)).
Proof.
  intros Hs En [r Hp] He Hev HeN Hin Hor. pose proof Nsmall.
  assert (He1 : (e + 1) - (e + 1) mod 2 = e).
  { pose proof (Z.div_mod e 2 ltac:(lia)). replace (e + 1) with (1 + (e / 2) * 2) at 2 by lia.
    rewrite Z.mod_add by lia. change (1 mod 2) with 1. lia. }
  assert (He0 : e - e mod 2 = e) by lia.
  unfold Merkle.gleaf. rewrite uadd_Ok by lia. cbn [bind].
  unfold Merkle.gnode0. cbn [bp_nodes p]. rewrite (idx_nth_error NF s ndN) by assumption. cbn [bind].
  unfold miss, miss1 in *.
  destruct (bt_get e imap) as [j1|] eqn:E1; destruct (bt_get (e + 1) imap) as [j2|] eqn:E2.
  - rewrite (gleafv_ok e j1 E1) by (rewrite He0; assumption). cbn [bind].
    rewrite (gleafv_ok (e + 1) j2 E2) by (rewrite He1; assumption). reflexivity.
  - rewrite (gleafv_ok e j1 E1) by (rewrite He0; assumption). cbn [bind].
    subst ndN. reflexivity.
  - subst ndN. cbn [app bind]. rewrite (gleafv_ok (e + 1) j2 E2) by (rewrite He1; assumption). reflexivity.
  - destruct Hor; congruence.
Qed.

Lemma gfirst_ok : forall norm s v ptm NFr,
  skipn (Z.to_nat s) NF = NFr -> 0 <= s ->
  Forall2 (fun e nd => prefix (miss e) nd) norm NFr ->
  (forall e, In e norm -> 0 <= e /\ e mod 2 = 0 /\ e + 1 < N /\ In e norm0 /\
                          (bt_get e imap <> None \/ bt_get (e + 1) imap <> None)) ->
  vsound v ->
  exists v' ptm',
    gfirst p imap N norm s v ptm =
      Ok (v', map (fun e => zlen (miss e)) norm, ptm', map (fun e => (e + N) / 2) norm) /\
    vsound v' /\ (forall k, bt_get k v <> None -> bt_get k v' <> None) /\
    (forall e, In e norm -> bt_get ((e + N) / 2) v' <> None) /\ (ptmsound ptm -> ptmsound ptm').
Proof.
  induction norm as [|e rest IH]; intros s v ptm NFr Hsk Hs HF Hr Hv.
  - cbn. exists v, ptm. split; [reflexivity|]. split; [assumption|]. split; [auto|]. split; [intros ? []|auto].
  - destruct NFr as [|nd NFr']; [inversion HF|]. assert (Hp : prefix (miss e) nd) by (inversion HF; assumption).
    assert (HF' : Forall2 (fun e nd => prefix (miss e) nd) rest NFr') by (inversion HF; assumption).
    apply skipn_cons_nth in Hsk. destruct Hsk as [En Hsk'].
    destruct (Hr e (or_introl eq_refl)) as (He & Hev & HeN & Hin & Hor). pose proof Nsmall.
    cbn [Merkle.gfirst]. rewrite (gleaf_ok s e nd) by assumption. cbn [bind].
    rewrite uadd_Ok by lia. cbn [bind]. rewrite shiftr1. rewrite (Z.add_comm N e).
    destruct (hval_leaf_pair e He Hev HeN) as [Hm Hrange]. rewrite Hm.
    destruct (IH (s + 1) (bt_insert ((e + N) / 2) (hval t ((e + N) / 2)) v)
                 (bt_insert ((e + N) / 2) (hval t ((e + N) / 2))
                    (bt_insert (Z.lxor (e + N) 1) (leaf (e + 1)) (bt_insert (e + N) (leaf e) ptm))) NFr')
      as (v' & ptm' & Eg & Hv' & Hk' & Hn' & Hs').
    + replace (Z.to_nat (s + 1)) with (S (Z.to_nat s)) by lia. assumption.
    + lia.
    + assumption.
    + intros e' He'. apply Hr. right. assumption.
    + apply vsound_insert; [assumption|lia].
    + rewrite Eg. cbn [bind]. exists v', ptm'. split; [reflexivity|]. split; [assumption|]. split.
      * intros k Hk0. apply Hk'. rewrite bt_get_insert. destruct (k =? (e + N) / 2); [discriminate|assumption].
      * split; [intros e' [<-|He']; [|apply Hn'; assumption]; apply Hk'; rewrite bt_get_insert_same; discriminate|].
        intros Hs0. apply Hs'. apply ptmsound_insert.
        assert (Hx : Z.lxor (e + N) 1 = e + N + 1).
        { apply lxor1_even; [pose proof Npos; lia|]. pose proof Neven. pose proof Npos.
          pose proof (Z.div_mod e 2 ltac:(lia)). pose proof (Z.div_mod N 2 ltac:(lia)).
          replace (e + N) with (0 + (e / 2 + N / 2) * 2) by lia. rewrite Z.mod_add by lia. reflexivity. }
        rewrite Hx.
        replace (leaf (e + 1)) with (hval t (e + N + 1)) by (rewrite (hval_leaf D d0 merge t d) by (assumption || (fold N; lia)); fold N; unfold leaf; f_equal; lia).
        apply ptmsound_insert.
        replace (leaf e) with (hval t (e + N)) by (rewrite (hval_leaf D d0 merge t d) by (assumption || (fold N; lia)); fold N; unfold leaf; f_equal; lia).
        apply ptmsound_insert. assumption.
Qed.

End First.

(* ---------------------------------------------------------------- batch_complete *)
Lemma all_consumed_map (nodes : list (list D)) : all_consumed D (map zlen nodes) nodes = true.
Proof. induction nodes as [|nd r IH]; [reflexivity|]. cbn. rewrite Z.eqb_refl. exact IH. Qed.

Lemma mt_depth_ok : mt_depth D t = Ok (Z.of_nat d).
Proof.
  unfold Merkle.mt_depth. rewrite leaves_len. pose proof Npos.
  destruct (Z.leb_spec N 0); [lia|]. unfold N. rewrite Z.log2_pow2 by lia. reflexivity.
Qed.

(* prove_batch succeeds and the verification core (shared by get_root and into_paths) recomputes the
   root on its result, whatever the initial partial tree; an honest partial tree stays honest *)
Theorem batch_complete_core : forall indexes,
  indexes <> [] -> zlen indexes <= 255 -> NoDup indexes -> (forall i, In i indexes -> 0 <= i < N) ->
  exists p, mt_prove_batch t indexes = Ok p /\ bp_depth p = Z.of_nat d /\
    length (bp_leaves p) = length indexes /\
    (forall j i, nth_error indexes j = Some i -> nth_error (bp_leaves p) j = Some (leaf i)) /\
    (forall ptm0, exists v ptm, gcore p indexes ptm0 = Ok (v, ptm) /\ bt_get 1 v = Some (hval t 1) /\
                                (ptmsound ptm0 -> ptmsound ptm)).
Proof.
  intros indexes Hne Hlen ND Hr. pose proof Npos. pose proof Neven as HNe. pose proof Nsmall.
  pose proof (wf_d _ _ _ _ _ WF) as Hd1.
  destruct (map_indexes_complete indexes (Z.of_nat d)) as (imap & Emi & IM & Lmi); [lia|assumption|intros x Hx; apply Hr; assumption|].
  set (norm := normalize_indexes indexes).
  assert (Hnorm : forall e, In e norm -> 0 <= e /\ e mod 2 = 0 /\ e + 1 < N /\ In e norm /\
                            (bt_get e imap <> None \/ bt_get (e + 1) imap <> None)).
  { intros e He. pose proof He as He'. apply normalize_In in He. destruct He as (i & Hi & ->).
    pose proof (Hr i Hi) as Hir. pose proof (Z.div_mod i 2 ltac:(lia)). pose proof (Z.div_mod N 2 ltac:(lia)).
    assert ((i - i mod 2) mod 2 = 0).
    { replace (i - i mod 2) with (0 + (i / 2) * 2) by lia. rewrite Z.mod_add by lia. reflexivity. }
    destruct (imap_ok_In _ _ i IM ND Hi) as (j & Ej).
    destruct (mod2_cases i) as [Ei|Ei]; rewrite Ei in *.
    - repeat split; try lia; try assumption. left. replace (i - 0) with i by lia. congruence.
    - repeat split; try lia; try assumption. right. replace (i - 1 + 1) with i by lia. congruence. }
  unfold Merkle.mt_prove_batch. rewrite match_nonempty by assumption.
  unfold max_paths. destruct (Z.ltb_spec 255 (zlen indexes)); [lia|].
  rewrite mt_depth_ok. cbn [bind]. rewrite Emi. cbn [bind]. fold norm.
  rewrite leaves_len.
  destruct (pb_first_ok indexes imap IM norm (repeat d0 (length imap))) as (LF & Epf & LLF & PLF).
  { rewrite repeat_length. assumption. }
  { intros e He. destruct (Hnorm e He) as (? & ? & ? & _). auto. }
  fold N. rewrite Epf. cbn [bind].
  set (nodes0 := map (miss imap) norm) in *. set (next := map (fun e => (e + N) / 2) norm) in *.
  set (d' := pred d). assert (Hdd : Z.of_nat d = Z.of_nat d' + 1) by (unfold d'; lia).
  replace (Z.to_nat (Z.of_nat d - 1)) with d' by lia.
  assert (HN2 : N = 2 * 2 ^ Z.of_nat d').
  { unfold N. rewrite Hdd, Z.pow_add_r by lia. change (2 ^ 1) with 2. lia. }
  assert (0 < 2 ^ Z.of_nat d') by (apply pow2_pos; lia).
  assert (Hnext : forall a, In a next -> 2 ^ Z.of_nat d' <= a < 2 ^ (Z.of_nat d' + 1)).
  { intros a Ha. unfold next in Ha. apply in_map_iff in Ha. destruct Ha as (e & <- & He).
    destruct (Hnorm e He) as (He0 & Hev & HeN & _). rewrite Z.pow_add_r by lia. change (2 ^ 1) with 2.
    pose proof (Z.div_mod (e + N) 2 ltac:(lia)). pose proof (Z.mod_pos_bound (e + N) 2 ltac:(lia)). lia. }
  assert (HNl : 2 ^ (Z.of_nat d' + 1) <= N).
  { rewrite Z.pow_add_r by lia. change (2 ^ 1) with 2. lia. }
  destruct (pb_levels_ok d' next nodes0 Hnext HNl) as (NFin & Epl).
  { unfold next, nodes0, zlen. rewrite !map_length. lia. }
  change (pb_levels d' (mt_nodes t) next nodes0 = Ok NFin) in Epl.
  rewrite Epl. cbn [bind]. eexists. split; [reflexivity|]. cbn [bp_depth bp_leaves bp_nodes].
  assert (Hmod : Z.of_nat d mod 256 = Z.of_nat d) by (apply Z.mod_small; lia).
  split; [exact Hmod|]. split; [lia|]. split.
  { intros j i Hj. rewrite <- (Nat2Z.id j) at 1. apply (PLF i (Z.of_nat j)).
    - apply IM. split; [lia|]. rewrite Nat2Z.id. assumption.
    - left. apply normalize_In. exists i. split; [apply nth_error_In in Hj; assumption|reflexivity]. }
  (* the verification core on the produced proof *)
  intros ptm0.
  pose proof (pb_levels_mono _ _ _ _ Epl) as Fpl.
  assert (Hlen0 : length NFin = length norm).
  { apply Forall2_len in Fpl. unfold nodes0 in Fpl. rewrite map_length in Fpl. lia. }
  destruct (gfirst_ok indexes imap IM LF NFin norm LLF) with (norm := norm) (s := 0) (v := @nil (Z * D)) (ptm := ptm0) (NFr := NFin)
    as (v1 & ptm1 & Egf & Hv1 & _ & Hk1 & Hs1).
  { intros k j Ek Hin. apply PLF; [assumption|]. left. assumption. }
  { reflexivity. }
  { lia. }
  { clear - Fpl. unfold nodes0 in Fpl. remember norm as nm eqn:En. clear En. revert NFin Fpl.
    induction nm as [|e r IH]; intros NFin Fpl; inversion Fpl; subst; constructor; auto. }
  { exact Hnorm. }
  { intros k x Hk0. discriminate. }
  destruct (levels_complete d' next nodes0 NFin v1 ptm1 Epl Hnext HNl Hv1) as (v' & ptm' & Egl & Hv' & Hroot1 & Hs2).
  { intros a Ha. unfold next in Ha. apply in_map_iff in Ha. destruct Ha as (e & <- & He). apply Hk1. assumption. }
  exists v', ptm'. split.
  { unfold Merkle.gcore. cbn [bp_depth bp_nodes bp_leaves]. rewrite Hmod. rewrite Emi. cbn [bind]. fold norm.
    replace (zlen norm =? zlen NFin) with true by (symmetry; apply Z.eqb_eq; unfold zlen; lia). cbn [negb].
    fold N.
    replace {| bp_leaves := LF; bp_nodes := NFin; bp_depth := Z.of_nat d |}
      with {| bp_leaves := LF; bp_nodes := NFin; bp_depth := Z.of_nat d mod 256 |} in Egf by (rewrite Hmod; reflexivity).
    rewrite Hmod in Egf. rewrite Egf. cbn [bind].
    replace (map (fun e => zlen (miss imap e)) norm) with (map zlen nodes0) by (unfold nodes0; rewrite map_map; reflexivity).
    fold next. replace (Z.to_nat (Z.of_nat d - 1)) with d' by lia.
    rewrite Egl. cbn [bind]. rewrite all_consumed_map. reflexivity. }
  split; [|intros Hs0; apply Hs2, Hs1; assumption].
  assert (Hnn : next <> []).
  { unfold next. pose proof (normalize_nonempty indexes Hne) as Hnz. fold norm in Hnz. destruct norm; [congruence|discriminate]. }
  specialize (Hroot1 Hnn). destruct (bt_get 1 v') as [r|] eqn:Er; [|congruence].
  apply Hv' in Er. destruct Er as [_ ->]. reflexivity.
Qed.

Theorem batch_complete_tree : forall indexes,
  indexes <> [] -> zlen indexes <= 255 -> NoDup indexes -> (forall i, In i indexes -> 0 <= i < N) ->
  exists p, mt_prove_batch t indexes = Ok p /\ bp_depth p = Z.of_nat d /\
    length (bp_leaves p) = length indexes /\
    (forall j i, nth_error indexes j = Some i -> nth_error (bp_leaves p) j = Some (leaf i)) /\
    get_root p indexes = Ok (hval t 1).
Proof.
  intros indexes Hne Hlen ND Hr.
  destruct (batch_complete_core indexes Hne Hlen ND Hr) as (p & E & Hdep & HL & HLv & Hc).
  exists p. split; [assumption|]. split; [assumption|]. split; [assumption|]. split; [assumption|].
  destruct (Hc []) as (v & ptm & Eg & Er & _).
  unfold Merkle.get_root. rewrite match_nonempty by assumption. unfold max_paths.
  destruct (Z.ltb_spec 255 (zlen indexes)); [lia|].
  replace (zlen indexes =? zlen (bp_leaves p)) with true by (symmetry; apply Z.eqb_eq; unfold zlen; lia). cbn [negb].
  rewrite Eg. cbn [bind]. rewrite Er. reflexivity.
Qed.

(* the exact shape of prove_batch's result *)
Theorem prove_batch_shape : forall indexes,
  indexes <> [] -> zlen indexes <= 255 -> NoDup indexes -> (forall i, In i indexes -> 0 <= i < N) ->
  exists imap LF NF, map_indexes indexes (Z.of_nat d) = Ok imap /\ imap_ok indexes imap /\
    length LF = length indexes /\
    (forall j i, nth_error indexes j = Some i -> nth_error LF j = Some (leaf i)) /\
    pb_levels (pred d) (mt_nodes t) (map (fun e => (e + N) / 2) (normalize_indexes indexes))
              (map (miss imap) (normalize_indexes indexes)) = Ok NF /\
    mt_prove_batch t indexes = Ok {| bp_leaves := LF; bp_nodes := NF; bp_depth := Z.of_nat d |}.
Proof.
  intros indexes Hne Hlen ND Hr. pose proof Npos. pose proof Neven as HNe. pose proof Nsmall.
  pose proof (wf_d _ _ _ _ _ WF) as Hd1.
  destruct (map_indexes_complete indexes (Z.of_nat d)) as (imap & Emi & IM & Lmi); [lia|assumption|intros x Hx; apply Hr; assumption|].
  set (norm := normalize_indexes indexes).
  assert (Hnorm : forall e, In e norm -> 0 <= e /\ e mod 2 = 0 /\ e + 1 < N /\ In e norm /\
                            (bt_get e imap <> None \/ bt_get (e + 1) imap <> None)).
  { intros e He. pose proof He as He'. apply normalize_In in He. destruct He as (i & Hi & ->).
    pose proof (Hr i Hi) as Hir. pose proof (Z.div_mod i 2 ltac:(lia)). pose proof (Z.div_mod N 2 ltac:(lia)).
    assert ((i - i mod 2) mod 2 = 0).
    { replace (i - i mod 2) with (0 + (i / 2) * 2) by lia. rewrite Z.mod_add by lia. reflexivity. }
    destruct (imap_ok_In _ _ i IM ND Hi) as (j & Ej).
    destruct (mod2_cases i) as [Ei|Ei]; rewrite Ei in *.
    - repeat split; try lia; try assumption. left. replace (i - 0) with i by lia. congruence.
    - repeat split; try lia; try assumption. right. replace (i - 1 + 1) with i by lia. congruence. }
  unfold Merkle.mt_prove_batch. rewrite match_nonempty by assumption.
  unfold max_paths. destruct (Z.ltb_spec 255 (zlen indexes)); [lia|].
  rewrite mt_depth_ok. cbn [bind]. rewrite Emi. cbn [bind]. fold norm.
  rewrite leaves_len.
  destruct (pb_first_ok indexes imap IM norm (repeat d0 (length imap))) as (LF & Epf & LLF & PLF).
  { rewrite repeat_length. assumption. }
  { intros e He. destruct (Hnorm e He) as (? & ? & ? & _). auto. }
  fold N. rewrite Epf. cbn [bind].
  set (nodes0 := map (miss imap) norm) in *. set (next := map (fun e => (e + N) / 2) norm) in *.
  set (d' := pred d). assert (Hdd : Z.of_nat d = Z.of_nat d' + 1) by (unfold d'; lia).
  replace (Z.to_nat (Z.of_nat d - 1)) with d' by lia.
  assert (HN2 : N = 2 * 2 ^ Z.of_nat d').
  { unfold N. rewrite Hdd, Z.pow_add_r by lia. change (2 ^ 1) with 2. lia. }
  assert (0 < 2 ^ Z.of_nat d') by (apply pow2_pos; lia).
  assert (Hnext : forall a, In a next -> 2 ^ Z.of_nat d' <= a < 2 ^ (Z.of_nat d' + 1)).
  { intros a Ha. unfold next in Ha. apply in_map_iff in Ha. destruct Ha as (e & <- & He).
    destruct (Hnorm e He) as (He0 & Hev & HeN & _). rewrite Z.pow_add_r by lia. change (2 ^ 1) with 2.
    pose proof (Z.div_mod (e + N) 2 ltac:(lia)). pose proof (Z.mod_pos_bound (e + N) 2 ltac:(lia)). lia. }
  assert (HNl : 2 ^ (Z.of_nat d' + 1) <= N).
  { rewrite Z.pow_add_r by lia. change (2 ^ 1) with 2. lia. }
  destruct (pb_levels_ok d' next nodes0 Hnext HNl) as (NFin & Epl).
  { unfold next, nodes0, zlen. rewrite !map_length. lia. }
  change (pb_levels d' (mt_nodes t) next nodes0 = Ok NFin) in Epl.
  exists imap, LF, NFin. split; [reflexivity|]. split; [assumption|]. split; [lia|]. split.
  { intros j i Hj. rewrite <- (Nat2Z.id j) at 1. apply (PLF i (Z.of_nat j)).
    - apply IM. split; [lia|]. rewrite Nat2Z.id. assumption.
    - left. apply normalize_In. exists i. split; [apply nth_error_In in Hj; assumption|reflexivity]. }
  split; [exact Epl|].
  rewrite Epl. cbn [bind]. rewrite Z.mod_small by lia. reflexivity.
Qed.

End Batch.

Section BatchTop.
Variable D : Type.
Variable D_eqb : D -> D -> bool.
Hypothesis D_eqb_spec : forall a b, D_eqb a b = true <-> a = b.
Variable d0 : D.
Variable merge : D -> D -> D.

Theorem batch_complete : forall leaves t (d : nat) root indexes,
  mt_new D d0 merge leaves = Ok t -> zlen leaves = 2 ^ Z.of_nat d -> (d <= 62)%nat -> mt_root D t = Ok root ->
  indexes <> [] -> zlen indexes <= 255 -> NoDup indexes -> (forall i, In i indexes -> 0 <= i < zlen leaves) ->
  exists p, mt_prove_batch D d0 t indexes = Ok p /\ bp_depth p = Z.of_nat d /\
    length (bp_leaves p) = length indexes /\
    (forall j i, nth_error indexes j = Some i -> nth_error (bp_leaves p) j = nth_error leaves (Z.to_nat i)) /\
    get_root D merge p indexes = Ok root /\
    verify_batch D D_eqb merge root indexes p = Ok tt.
Proof.
  intros leaves t d root indexes Hnew Hlen Hd Hroot Hne Hl ND Hr.
  destruct (build_nodes_spec D d0 merge _ _ Hnew) as [HL [d' WF]].
  assert (d' = d).
  { pose proof (wf_leaves _ _ _ _ _ WF) as E. rewrite HL, Hlen in E. apply Z.pow_inj_r in E; lia. }
  subst d'. rewrite (root_hval D d0 merge t d WF) in Hroot; try assumption. injection Hroot as <-.
  destruct (batch_complete_tree D d0 merge t d WF Hd indexes Hne Hl ND) as (p & E & Hdep & HLn & HLv & Hg).
  { intros i Hi. rewrite <- Hlen. apply Hr. assumption. }
  exists p. split; [assumption|]. split; [assumption|]. split; [assumption|]. split; [|split; [assumption|]].
  - intros j i Hj. rewrite (HLv j i Hj). unfold leaf, znth. rewrite HL. symmetry. apply nth_error_nth'.
    pose proof (Hr i (nth_error_In _ _ Hj)). unfold zlen in *. lia.
  - unfold Merkle.verify_batch. rewrite Hg. cbn [bind].
    replace (D_eqb _ _) with true by (symmetry; apply D_eqb_spec; reflexivity). reflexivity.
Qed.

End BatchTop.
