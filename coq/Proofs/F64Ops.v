(* f64 public operations against integer arithmetic mod M (generated terms from Gen/F64.v). *)
From VBase Require Import MachInt.
From VGen Require Import F64.
From VProofs Require Import F64Red.
Open Scope Z_scope.

Definition repr (x : Z) : Prop := 0 <= x < M.
(* 2^-64 mod M *)
Definition Rinv : Z := 18446744065119617025.
Lemma Rinv_ok : (2^64 * Rinv) mod M = 1. Proof. reflexivity. Qed.
Definition val (x : Z) : Z := (x * Rinv) mod M.

Lemma M_pos : 0 < M. Proof. reflexivity. Qed.
Lemma val_range x : 0 <= val x < M. Proof. apply Z.mod_pos_bound, M_pos. Qed.

Lemma mont_cancel r x : (r * 2^64) mod M = x mod M -> r mod M = (x * Rinv) mod M.
Proof.
  intros H.
  assert (E : (r * (2^64 * Rinv)) mod M = (x * Rinv) mod M).
  { rewrite Z.mul_assoc, <- Z.mul_mod_idemp_l, H, Z.mul_mod_idemp_l by (unfold M; lia). reflexivity. }
  rewrite <- Z.mul_mod_idemp_r, Rinv_ok, Z.mul_1_r in E by (unfold M; lia). exact E.
Qed.

Lemma val_inj a b : repr a -> repr b -> val a = val b -> a = b.
Proof.
  unfold val, repr. intros Ha Hb H.
  assert (E : forall x, (x * Rinv * 2^64) mod M = x mod M).
  { intros x. rewrite <- Z.mul_assoc, <- Z.mul_mod_idemp_r, (Z.mul_comm Rinv), Rinv_ok, Z.mul_1_r by (unfold M; lia). reflexivity. }
  assert (E2 : (a * Rinv * 2^64) mod M = (b * Rinv * 2^64) mod M).
  { rewrite <- (Z.mul_mod_idemp_l (a * Rinv)), H, Z.mul_mod_idemp_l by (unfold M; lia). reflexivity. }
  rewrite !E, !Z.mod_small in E2 by assumption. exact E2.
Qed.

(* ---- mul / new / as_int ---- *)
Theorem f64_mul_spec a b : repr a -> repr b ->
  repr (f64_mul a b) /\ val (f64_mul a b) = (val a * val b) mod M.
Proof.
  unfold repr. intros Ha Hb. unfold f64_mul.
  assert (Hab : 0 <= a * b < 2^64 * M) by (unfold M in *; nia).
  assert (Hw : wrap 128 (a * b) = a * b) by (apply Z.mod_small; unfold M in *; nia).
  rewrite Hw. destruct (mont_red_cst_spec _ Hab) as [Hr Hc]. split; [exact Hr|].
  apply mont_cancel in Hc. rewrite Z.mod_small in Hc by exact Hr.
  unfold val. rewrite Hc.
  rewrite Z.mul_mod_idemp_l by (unfold M; lia).
  rewrite <- Z.mul_mod by (unfold M; lia). f_equal. ring.
Qed.

Theorem f64_mul_ok_spec a b : repr a -> repr b -> f64_mul_ok a b = true.
Proof.
  unfold repr, f64_mul_ok, in_u. intros Ha Hb.
  assert (0 <= a * b < 2^128) by (unfold M in *; nia).
  apply andb_true_iff; split; lia.
Qed.

Theorem f64_new_spec v : 0 <= v < 2^64 -> repr (f64_new v) /\ val (f64_new v) = v mod M.
Proof.
  intros Hv. unfold f64_new.
  assert (Hab : 0 <= v * f64_R2 < 2^64 * M) by (unfold M, f64_R2 in *; nia).
  assert (Hw : wrap 128 (v * f64_R2) = v * f64_R2) by (apply Z.mod_small; unfold M, f64_R2 in *; nia).
  rewrite Hw. destruct (mont_red_cst_spec _ Hab) as [Hr Hc]. split; [exact Hr|].
  apply mont_cancel in Hc. rewrite Z.mod_small in Hc by exact Hr.
  unfold val. rewrite Hc, Z.mul_mod_idemp_l by (unfold M; lia).
  replace (v * f64_R2 * Rinv * Rinv) with (v * (f64_R2 * Rinv * Rinv)) by ring.
  rewrite <- Z.mul_mod_idemp_r by (unfold M; lia).
  replace ((f64_R2 * Rinv * Rinv) mod M) with 1 by reflexivity. now rewrite Z.mul_1_r.
Qed.

Theorem f64_as_int_spec x : 0 <= x < 2^64 -> f64_as_int x = val x.
Proof.
  intros Hx. unfold f64_as_int. rewrite mont_to_int_eq by exact Hx.
  assert (Hab : 0 <= x < 2^64 * M) by (unfold M; lia).
  destruct (mont_red_cst_spec _ Hab) as [Hr Hc].
  apply mont_cancel in Hc. rewrite Z.mod_small in Hc by exact Hr. exact Hc.
Qed.

Corollary f64_as_int_new v : 0 <= v < 2^64 -> f64_as_int (f64_new v) = v mod M.
Proof.
  intros Hv. destruct (f64_new_spec v Hv) as [Hr Hval].
  rewrite f64_as_int_spec; [exact Hval| unfold repr, M in Hr; lia].
Qed.

(* ---- add / sub / neg / double ---- *)
Theorem f64_add_eq a b : repr a -> repr b -> f64_add a b = (a + b) mod M.
Proof.
  unfold repr. intros Ha Hb. unfold f64_add.
  assert (Hw : wrap 64 (f64_M - b) = M - b) by (apply Z.mod_small; unfold f64_M, M in *; lia).
  rewrite Hw.
  assert (Hmb : 0 <= M - b <= M) by lia.
  destruct (Z.eq_dec b 0) as [->|Hnz].
  - (* M - 0 = M is not < M: handle directly *)
    unfold ovf_sub, wrap, b2z, M in *.
    destruct (Z.ltb_spec a (18446744069414584321 - 0)) as [H|H]; [|lia].
    assert (E1 : (0 - 1) mod 2^32 = 2^32 - 1) by reflexivity. rewrite E1.
    assert (E2 : (a - (18446744069414584321 - 0)) mod 2^64 = a - 18446744069414584321 + 2^64)
      by (apply (mod_eq _ _ (-1)); lia).
    rewrite E2, Z.add_0_r, (Z.mod_small a) by lia.
    rewrite Z.mod_small by lia. lia.
  - pose proof (sub_fix a (M - b) Ha ltac:(lia)) as Hs.
    destruct (ovf_sub 64 a (M - b)) as [r c]. rewrite Hs.
    replace (a - (M - b)) with (a + b + (-1) * M) by ring.
    apply Z.mod_add. unfold M; lia.
Qed.

Theorem f64_add_ok_spec a b : repr b -> f64_add_ok a b = true.
Proof. unfold repr, f64_add_ok, in_u, f64_M, M. intros Hb. apply andb_true_iff; split; lia. Qed.

Theorem f64_sub_eq a b : repr a -> repr b -> f64_sub a b = (a - b) mod M.
Proof.
  intros Ha Hb. unfold f64_sub. pose proof (sub_fix a b Ha Hb) as Hs.
  destruct (ovf_sub 64 a b) as [r c]. exact Hs.
Qed.

Lemma f64_ZERO_eq : f64_ZERO = 0. Proof. reflexivity. Qed.
Lemma f64_ONE_eq : f64_ONE = 4294967295. Proof. reflexivity. Qed.
Lemma val_ONE : val f64_ONE = 1. Proof. reflexivity. Qed.
Lemma val_ZERO : val f64_ZERO = 0. Proof. reflexivity. Qed.

Theorem f64_neg_eq a : repr a -> f64_neg a = (- a) mod M.
Proof.
  intros Ha. unfold f64_neg. rewrite f64_ZERO_eq, f64_sub_eq by (exact Ha || (unfold repr, M; lia)).
  reflexivity.
Qed.

(* final "subtract M once if possible" step shared by the repaired double / mul_small *)
Lemma cond_sub x : 0 <= x < 2^64 ->
  (let '(red, under) := ovf_sub 64 x f64_M in if under then x else red) = if x <? M then x else x - M.
Proof.
  intros Hx. unfold ovf_sub. rewrite M_eq.
  destruct (Z.ltb_spec x M) as [H|H]; [reflexivity|].
  apply Z.mod_small. unfold M in *. lia.
Qed.

Theorem f64_double_eq a : repr a -> f64_double a = (2 * a) mod M.
Proof.
  unfold repr. intros Ha. unfold f64_double.
  assert (Hs : shl 128 a 1 = 2 * a) by (unfold shl; rewrite Z.mod_small; unfold M in *; lia).
  rewrite Hs. cbv beta iota zeta.
  destruct (Z.lt_ge_cases (2 * a) (2^64)) as [H|H].
  - assert (E : wrap 64 (wrap 64 (2 * a) - wrap 64 (f64_M * wrap 64 (shr (2 * a) 64))) = 2 * a).
    { unfold wrap, shr. rewrite (Z.div_small (2 * a)) by lia.
      replace (0 mod 2^64) with 0 by reflexivity. rewrite Z.mul_0_r.
      replace (0 mod 2^64) with 0 by reflexivity. rewrite Z.sub_0_r, Z.mod_mod by lia.
      apply Z.mod_small; lia. }
    rewrite E, cond_sub by lia.
    destruct (Z.ltb_spec (2 * a) M) as [H2|H2].
    + symmetry; apply Z.mod_small; lia.
    + symmetry. apply (mod_eq _ _ 1); unfold M in *; lia.
  - assert (E : wrap 64 (wrap 64 (2 * a) - wrap 64 (f64_M * wrap 64 (shr (2 * a) 64))) = 2 * a - M).
    { unfold wrap, shr.
      assert (E1 : (2 * a) / 2^64 = 1) by (apply (div_eq _ _ 1 (2 * a - 2^64)); unfold M in *; lia).
      rewrite E1. replace (1 mod 2^64) with 1 by reflexivity. rewrite Z.mul_1_r.
      replace (f64_M mod 2^64) with M by reflexivity.
      assert (E2 : (2 * a) mod 2^64 = 2 * a - 2^64) by (apply (mod_eq _ _ 1); unfold M in *; lia).
      rewrite E2. apply (mod_eq _ _ (-1)); unfold M in *; lia. }
    rewrite E, cond_sub by (unfold M in *; lia).
    destruct (Z.ltb_spec (2 * a - M) M) as [H2|H2]; [|unfold M in *; lia].
    symmetry. apply (mod_eq _ _ 1); unfold M in *; lia.
Qed.

Theorem f64_double_ok_spec a : repr a -> f64_double_ok a = true.
Proof.
  unfold repr, f64_double_ok. intros Ha.
  assert (Hs : shl 128 a 1 = 2 * a) by (unfold shl; rewrite Z.mod_small; unfold M in *; lia).
  rewrite Hs. unfold in_u, wrap, shr, f64_M.
  assert (0 <= (2 * a) / 2^64 <= 1).
  { split; [apply Z.div_pos; lia|]. apply Z.lt_succ_r, Z.div_lt_upper_bound; unfold M in *; lia. }
  rewrite (Z.mod_small ((2 * a) / 2^64)) by lia.
  apply andb_true_iff; split; nia.
Qed.

(* ---- mul_small (repaired): canonical result, value = a * r ---- *)
Theorem f64_mul_small_spec a r : repr a -> 0 <= r < 2^32 ->
  repr (f64_mul_small a r) /\ f64_mul_small a r = (a * r) mod M.
Proof.
  unfold repr. intros Ha Hr. unfold f64_mul_small.
  assert (Hs : wrap 128 (a * r) = a * r) by (apply Z.mod_small; unfold M in *; nia).
  rewrite Hs. set (s := a * r).
  set (hi := s / 2^64). set (lo := s mod 2^64).
  assert (Hlo : 0 <= lo < 2^64) by (apply Z.mod_pos_bound; lia).
  assert (Hhi : 0 <= hi < 2^32).
  { unfold hi, s. split; [apply Z.div_pos; nia|apply Z.div_lt_upper_bound; unfold M in *; nia]. }
  assert (Hsplit : s = hi * 2^64 + lo) by (unfold hi, lo; pose proof (Z.div_mod s (2^64)); lia).
  assert (E1 : wrap 64 (shr s 64) = hi) by (unfold wrap, shr; fold hi; apply Z.mod_small; lia).
  assert (E2 : wrap 64 s = lo) by reflexivity.
  rewrite E1, E2.
  assert (E3 : shl 64 hi 32 = hi * 2^32) by (unfold shl; apply Z.mod_small; nia).
  rewrite E3.
  assert (E4 : wrap 64 (hi * 2^32 - hi) = hi * (2^32 - 1)) by (unfold wrap; rewrite Z.mod_small; nia).
  rewrite E4. set (zz := hi * (2^32 - 1)).
  assert (Hzz : 0 <= zz <= (2^32-1) * (2^32 - 1)) by (unfold zz; nia).
  (* s = hi*2^64 + lo == hi*(2^32-1) + lo  (mod M) *)
  assert (Hcong : (lo + zz) mod M = s mod M).
  { rewrite Hsplit. unfold zz. replace (hi * 2^64 + lo) with (lo + hi * (2^32-1) + hi * M) by (unfold M; ring).
    rewrite Z.mod_add by (unfold M; lia). reflexivity. }
  cbv beta iota zeta. unfold ovf_add.
  destruct (Z.leb_spec (2^64) (lo + zz)) as [Ho|Ho]; cbv beta iota zeta.
  - assert (E6 : wrap 64 ((lo + zz) mod 2^64 + wrap 32 (0 - b2z true)) = lo + zz - M).
    { assert (E5 : (lo + zz) mod 2^64 = lo + zz - 2^64) by (apply (mod_eq _ _ 1); lia).
      rewrite E5. unfold b2z. replace (wrap 32 (0 - 1)) with (2^32 - 1) by reflexivity.
      unfold wrap, M; apply (mod_eq _ _ 0); lia. }
    rewrite E6, cond_sub by (unfold M; lia).
    destruct (Z.ltb_spec (lo + zz - M) M) as [H2|H2]; [|unfold M in *; lia].
    split; [unfold M in *; lia|]. rewrite <- Hcong. symmetry. apply (mod_eq _ _ 1); unfold M in *; lia.
  - assert (E6 : wrap 64 ((lo + zz) mod 2^64 + wrap 32 (0 - b2z false)) = lo + zz).
    { assert (E5 : (lo + zz) mod 2^64 = lo + zz) by (apply Z.mod_small; lia).
      rewrite E5. unfold b2z. replace (wrap 32 (0 - 0)) with 0 by reflexivity.
      rewrite Z.add_0_r. apply Z.mod_small; lia. }
    rewrite E6, cond_sub by lia.
    destruct (Z.ltb_spec (lo + zz) M) as [H2|H2].
    + split; [lia|]. rewrite <- Hcong. symmetry. apply Z.mod_small; lia.
    + split; [unfold M in *; lia|]. rewrite <- Hcong. symmetry. apply (mod_eq _ _ 1); unfold M in *; lia.
Qed.

(* ---- equality: the raw-word comparison is Leibniz equality on words ---- *)
Lemma sar63 x : - 2^63 <= x < 2^63 -> shr x 63 = if x <? 0 then -1 else 0.
Proof.
  intros Hx. unfold shr. destruct (Z.ltb_spec x 0) as [H|H].
  - apply (div_eq _ _ (-1) (x + 2^63)); lia.
  - apply Z.div_small; lia.
Qed.

Lemma lor_neg_pos t : 0 < t < 2^64 -> 2^63 <= Z.lor t (wrap 64 (- t)) < 2^64.
Proof.
  intros Ht.
  assert (Hn : wrap 64 (-t) = 2^64 - t) by (apply (mod_eq _ _ (-1)); lia).
  rewrite Hn. split.
  - (* bit 63 of t or of 2^64 - t is set *)
    destruct (Z.lt_ge_cases t (2^63)) as [H|H].
    + assert (Hb : Z.testbit (2^64 - t) 63 = true).
      { apply Z.testbit_true; [lia|]. 
        replace ((2^64 - t) / 2^63) with 1 by (symmetry; apply (div_eq _ _ 1 (2^63 - t)); lia).
        reflexivity. }
      assert (Hb' : Z.testbit (Z.lor t (2^64 - t)) 63 = true) by (rewrite Z.lor_spec, Hb; apply orb_true_r).
      destruct (Z.lt_ge_cases (Z.lor t (2^64 - t)) (2^63)) as [Hlt|]; [|assumption].
      assert (Hnn : 0 <= Z.lor t (2^64 - t)) by (apply Z.lor_nonneg; lia).
      rewrite Z.bits_above_log2 in Hb'; [discriminate|exact Hnn|].
      destruct (Z.eq_dec (Z.lor t (2^64 - t)) 0) as [E0|E0]; [rewrite E0; reflexivity|].
      apply Z.log2_lt_pow2; lia.
    + assert (Hb : Z.testbit t 63 = true).
      { apply Z.testbit_true; [lia|].
        replace (t / 2^63) with 1 by (symmetry; apply (div_eq _ _ 1 (t - 2^63)); lia).
        reflexivity. }
      assert (Hb' : Z.testbit (Z.lor t (2^64 - t)) 63 = true) by (rewrite Z.lor_spec, Hb; reflexivity).
      destruct (Z.lt_ge_cases (Z.lor t (2^64 - t)) (2^63)) as [Hlt|]; [|assumption].
      assert (Hnn : 0 <= Z.lor t (2^64 - t)) by (apply Z.lor_nonneg; lia).
      rewrite Z.bits_above_log2 in Hb'; [discriminate|exact Hnn|].
      destruct (Z.eq_dec (Z.lor t (2^64 - t)) 0) as [E0|E0]; [rewrite E0; reflexivity|].
      apply Z.log2_lt_pow2; lia.
  - assert (Hnn : 0 <= Z.lor t (2^64 - t)) by (apply Z.lor_nonneg; lia).
    destruct (Z.eq_dec (Z.lor t (2^64 - t)) 0) as [E0|E0]; [rewrite E0; lia|].
    apply Z.log2_lt_pow2; [lia|].
    rewrite Z.log2_lor by lia.
    apply Z.max_lub_lt; apply Z.log2_lt_pow2; lia.
Qed.

Theorem f64_eq_spec a b : 0 <= a < 2^64 -> 0 <= b < 2^64 -> f64_eq a b = (a =? b).
Proof.
  intros Ha Hb. unfold f64_eq, f64_equals.
  set (t := Z.lxor a b).
  assert (Ht : 0 <= t < 2^64).
  { unfold t. split; [apply Z.lxor_nonneg; lia|].
    destruct (Z.eq_dec (Z.lxor a b) 0) as [E0|E0]; [rewrite E0; lia|].
    assert (0 <= Z.lxor a b) by (apply Z.lxor_nonneg; lia).
    apply Z.log2_lt_pow2; [lia|].
    eapply Z.le_lt_trans; [apply Z.log2_lxor; lia|].
    destruct (Z.eq_dec a 0) as [->|]; destruct (Z.eq_dec b 0) as [->|]; cbn; try lia;
      apply Z.max_lub_lt; try (apply Z.log2_lt_pow2; lia); cbn; lia. }
  destruct (Z.eqb_spec a b) as [E|E].
  - subst b. unfold t. rewrite Z.lxor_nilpotent. reflexivity.
  - assert (Hnz : t <> 0) by (unfold t; intros H0; apply Z.lxor_eq in H0; contradiction).
    pose proof (lor_neg_pos t ltac:(lia)) as Hl.
    set (w := Z.lor t (wrap 64 (- t))) in *.
    assert (Hsw : swrap 64 w = w - 2^64).
    { unfold swrap. replace (64 - 1) with 63 by reflexivity.
      rewrite (mod_eq (w + 2^63) (2^64) 1 (w - 2^63)) by lia. lia. }
    rewrite Hsw, sar63 by lia.
    destruct (Z.ltb_spec (w - 2^64) 0) as [_|]; [|lia].
    reflexivity.
Qed.
