(* C10 — non-vacuity: the hypotheses of the C10 theorems are satisfiable, shown on concrete instances
   (digests = Z, merge a b = 3a + b + 1, which has collisions, and merge a b = a + b). *)
From Coq Require Import ZArith List Bool Lia.
From VBase Require Import MachInt.
From VModel Require Import Merkle.
From VProofs Require Import MerkleBase MerkleSingle MerkleIdx MerkleBatch MerkleTotal MerkleBind MerkleRound.
Import ListNotations.
Open Scope Z_scope.

Definition mg (a b : Z) : Z := 3 * a + b + 1.
Definition ad (a b : Z) : Z := a + b.

Definition ex_leaves : list Z := [10; 20; 30; 40; 50; 60; 70; 80].
Definition ex_tree : mtree Z :=
  {| mt_nodes := [0; 1781; 285; 925; 51; 131; 211; 291]; mt_leaves := ex_leaves |}.

Example ex_new : mt_new Z 0 mg ex_leaves = Ok ex_tree.
Proof. vm_compute. reflexivity. Qed.

Example ex_root : mt_root Z ex_tree = Ok 1781.
Proof. reflexivity. Qed.

(* hypotheses of single_complete: depth 3, position 5 *)
Example ex_single_hyps :
  mt_new Z 0 mg ex_leaves = Ok ex_tree /\ zlen ex_leaves = 2 ^ Z.of_nat 3 /\ (3 <= 62)%nat /\
  mt_root Z ex_tree = Ok 1781 /\ 0 <= 5 < zlen ex_leaves.
Proof. repeat split; try reflexivity; try (vm_compute; congruence); lia. Qed.

Example ex_single_run : mt_prove Z ex_tree 5 = Ok [60; 50; 291; 285] /\ verify Z Z.eqb mg 1781 5 [60; 50; 291; 285] = Ok tt.
Proof. split; vm_compute; reflexivity. Qed.

(* hypotheses of single_binding with p <> p': the collision branch is inhabited (merge = +) *)
Example ex_binding_hyps :
  verify Z Z.eqb ad 3 0 [1; 2] = Ok tt /\ verify Z Z.eqb ad 3 0 [2; 1] = Ok tt /\ length [1; 2] = length [2; 1] /\
  find_collision Z Z.eqb 0 ad 0 [1; 2] [2; 1] = Some ((1, 2), (2, 1)) /\ is_collision Z ad ((1, 2), (2, 1)).
Proof. repeat split; try (vm_compute; reflexivity). vm_compute. congruence. Qed.

(* a deeper collision: same leaf pair, different upper sibling *)
Example ex_binding_deep :
  verify Z Z.eqb ad 10 1 [1; 2; 7] = Ok tt /\ verify Z Z.eqb ad 10 1 [2; 2; 6] = Ok tt /\
  exists c, find_collision Z Z.eqb 0 ad 1 [1; 2; 7] [2; 2; 6] = Some c /\ is_collision Z ad c.
Proof.
  split; [vm_compute; reflexivity|]. split; [vm_compute; reflexivity|].
  eexists. split; [vm_compute; reflexivity|]. vm_compute. split; congruence.
Qed.

(* hypotheses of batch_complete: unsorted positions with a sibling pair and a lone leaf *)
Example ex_batch_hyps :
  [5; 0; 4] <> [] /\ zlen [5; 0; 4] <= 255 /\ NoDup [5; 0; 4] /\ (forall i, In i [5; 0; 4] -> 0 <= i < zlen ex_leaves).
Proof.
  split; [discriminate|]. split; [vm_compute; congruence|]. split.
  - repeat constructor; simpl; intuition discriminate.
  - intros i [<-|[<-|[<-|[]]]]; vm_compute; split; congruence.
Qed.

Example ex_batch_run :
  mt_prove_batch Z 0 ex_tree [5; 0; 4] = Ok {| bp_leaves := [60; 10; 50]; bp_nodes := [[20; 131]; [291]]; bp_depth := 3 |} /\
  get_root Z mg {| bp_leaves := [60; 10; 50]; bp_nodes := [[20; 131]; [291]]; bp_depth := 3 |} [5; 0; 4] = Ok 1781 /\
  into_paths Z mg {| bp_leaves := [60; 10; 50]; bp_nodes := [[20; 131]; [291]]; bp_depth := 3 |} [5; 0; 4]
    = Ok [[60; 50; 291; 285]; [10; 20; 131; 925]; [50; 60; 291; 285]] /\
  from_paths Z 0 [[60; 50; 291; 285]; [10; 20; 131; 925]; [50; 60; 291; 285]] [5; 0; 4]
    = Ok {| bp_leaves := [60; 10; 50]; bp_nodes := [[20; 131]; [291]]; bp_depth := 3 |}.
Proof. repeat split; vm_compute; reflexivity. Qed.

(* shape mutations are errors, not acceptance and not panics (repaired behaviour) *)
Example ex_surplus_node :
  get_root Z mg {| bp_leaves := [60; 10; 50]; bp_nodes := [[20; 131]; [291; 7]]; bp_depth := 3 |} [5; 0; 4] = Err InvalidProof.
Proof. vm_compute. reflexivity. Qed.

Example ex_surplus_leaf :
  get_root Z mg {| bp_leaves := [60; 10; 50; 7]; bp_nodes := [[20; 131]; [291]]; bp_depth := 3 |} [5; 0; 4] = Err InvalidProof.
Proof. vm_compute. reflexivity. Qed.

Example ex_depth_64 :
  get_root Z mg {| bp_leaves := [60; 10; 50]; bp_nodes := [[20; 131]; [291]]; bp_depth := 64 |} [5; 0; 4] = Err InvalidProof /\
  into_paths Z mg {| bp_leaves := [60; 10; 50]; bp_nodes := [[20; 131]; [291]]; bp_depth := 200 |} [5; 0; 4] = Err InvalidProof.
Proof. split; vm_compute; reflexivity. Qed.

Example ex_wrong_leaf :
  get_root Z mg {| bp_leaves := [61; 10; 50]; bp_nodes := [[20; 131]; [291]]; bp_depth := 3 |} [5; 0; 4] = Ok 1784.
Proof. vm_compute. reflexivity. Qed.

Example ex_short_path : verify Z Z.eqb mg 1781 5 [60] = Err InvalidProof /\ verify Z Z.eqb mg 1781 13 [60; 50; 291; 285] = Err (LeafIndexOutOfBounds 8 13).
Proof. split; vm_compute; reflexivity. Qed.

(* batch binding: hypotheses satisfiable with a WRONG claimed leaf, the collision branch is inhabited (merge = +) *)
Definition ad_tree : mtree Z := {| mt_nodes := [0; 10; 3; 7]; mt_leaves := [1; 2; 3; 4] |}.

Example ex_ad_new : mt_new Z 0 ad [1; 2; 3; 4] = Ok ad_tree.
Proof. vm_compute. reflexivity. Qed.

Example ex_batch_binding_hyps :
  get_root Z ad {| bp_leaves := [2]; bp_nodes := [[1; 7]]; bp_depth := 2 |} [0] = Ok 10 /\
  mt_root Z ad_tree = Ok 10 /\
  find_batch_collision Z Z.eqb 0 ad ad_tree {| bp_leaves := [2]; bp_nodes := [[1; 7]]; bp_depth := 2 |} [0] = Some ((2, 1), (1, 2)) /\
  is_collision Z ad ((2, 1), (1, 2)).
Proof. repeat split; try (vm_compute; reflexivity). vm_compute. congruence. Qed.

Example ex_batch_binding_two_hyps :
  get_root Z ad {| bp_leaves := [1; 4]; bp_nodes := [[2]; [3]]; bp_depth := 2 |} [0; 3] = Ok 10 /\
  get_root Z ad {| bp_leaves := [2; 4]; bp_nodes := [[1]; [3]]; bp_depth := 2 |} [0; 3] = Ok 10 /\
  find_batch_collision2 Z Z.eqb 0 ad {| bp_leaves := [1; 4]; bp_nodes := [[2]; [3]]; bp_depth := 2 |}
    {| bp_leaves := [2; 4]; bp_nodes := [[1]; [3]]; bp_depth := 2 |} [0; 3] = Some ((1, 2), (2, 1)).
Proof. repeat split; vm_compute; reflexivity. Qed.

(* into_paths on an honest opening = the individual proves (unsorted positions) *)
Example ex_into_paths_spec :
  into_paths Z mg {| bp_leaves := [60; 10; 50]; bp_nodes := [[20; 131]; [291]]; bp_depth := 3 |} [5; 0; 4]
  = mapM (mt_prove Z ex_tree) [5; 0; 4].
Proof. vm_compute. reflexivity. Qed.
