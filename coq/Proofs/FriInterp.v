(* C15 — uniqueness of polynomial interpolation, exactness of the Lagrange form used by the model verifier
   ([interp_eval] = polynom::interpolate_batch + eval), and the folding identity for every folding factor:
   the value the prover computes for a row (inverse DFT, scaling, Horner at alpha) is the value at alpha of THE
   polynomial of degree < N through the row, which is also what the verifier computes.  Any field with FLaws.
   stdlib style. *)
From Coq Require Import List Arith Bool Lia Ring Field.
From VBase Require Import FieldOps.
From VModel Require Import Fri.
From VProofs Require Import FriField.
Import ListNotations.

Section Interp.
Context {F : Type} (O : FOps F) (L : FLaws O).
Add Ring Fring2 : (FLaws_ring_theory O L).
Add Field Ffield2 : (FLaws_field_theory O L).

Local Notation zero := (fzero O).
Local Notation one := (fone O).
Local Infix "+f" := (fadd O) (at level 50, left associativity).
Local Infix "-f" := (fsub O) (at level 50, left associativity).
Local Infix "*f" := (fmul O) (at level 40, left associativity).
Local Notation "-f x" := (fneg O x) (at level 35, right associativity).
Local Notation peval := (peval O).
Local Notation fpow := (fpow O).

(* ---------------------------------------------------------------- coefficient-list arithmetic (proof side only) *)
Fixpoint padd (a b : list F) : list F :=
  match a, b with
  | [], _ => b
  | _, [] => a
  | x :: a', y :: b' => (x +f y) :: padd a' b'
  end.
Definition pscale (c : F) (a : list F) : list F := map (fun x => c *f x) a.

Lemma peval_padd : forall a b x, peval (padd a b) x = peval a x +f peval b x.
Proof.
  induction a as [|c a IH]; intros [|d b] x; cbn [padd Fri.peval]; try ring. rewrite IH. ring.
Qed.
Lemma padd_length : forall a b, length (padd a b) = Nat.max (length a) (length b).
Proof. induction a as [|c a IH]; intros [|d b]; cbn [padd length Nat.max]; auto. Qed.
Lemma peval_pscale c a x : peval (pscale c a) x = c *f peval a x.
Proof. induction a as [|d a IH]; cbn [pscale map Fri.peval]; [ring | unfold pscale in IH; rewrite IH; ring]. Qed.
Lemma pscale_length c a : length (pscale c a) = length a.
Proof. apply map_length. Qed.

(* (X - r) * p *)
Definition lin_mul (p : list F) (r : F) : list F := padd (zero :: p) (pscale (-f r) p).
Lemma peval_lin_mul p r x : peval (lin_mul p r) x = (x -f r) *f peval p x.
Proof. unfold lin_mul. rewrite peval_padd, peval_pscale. cbn [Fri.peval]. ring. Qed.
Lemma lin_mul_length p r : length (lin_mul p r) = S (length p).
Proof. unfold lin_mul. rewrite padd_length, pscale_length. cbn [length]. lia. Qed.

(* quotient of the division by (X - r) *)
Fixpoint quot (p : list F) (r : F) : list F :=
  match p with
  | [] => []
  | c :: t => match t with [] => [] | _ => peval t r :: quot t r end
  end.

Lemma quot_length p r : length (quot p r) = length p - 1.
Proof.
  induction p as [|c t IH]; [reflexivity|]. destruct t as [|d t']; [reflexivity|].
  change (quot (c :: d :: t') r) with (peval (d :: t') r :: quot (d :: t') r).
  cbn [length] in *. rewrite IH. lia.
Qed.

Lemma quot_spec p r x : peval p x = (x -f r) *f peval (quot p r) x +f peval p r.
Proof.
  induction p as [|c t IH]; [cbn; ring|]. destruct t as [|d t'].
  - cbn. ring.
  - change (quot (c :: d :: t') r) with (peval (d :: t') r :: quot (d :: t') r).
    cbn [Fri.peval] in *. rewrite IH. ring.
Qed.

(* ---------------------------------------------------------------- a polynomial with too many roots vanishes *)
Theorem roots_zero : forall xs p, length p <= length xs -> NoDup xs ->
  (forall x, In x xs -> peval p x = zero) -> forall a, peval p a = zero.
Proof.
  induction xs as [|r xs IH]; intros p Hlen Hnd Hroots a.
  - destruct p; [reflexivity | cbn in Hlen; lia].
  - inversion Hnd as [|? ? Hnotin Hnd']; subst.
    rewrite (quot_spec p r a), (Hroots r (or_introl eq_refl)).
    rewrite (IH (quot p r)); [ring | rewrite quot_length; cbn [length] in Hlen; lia | assumption |].
    intros x Hx. pose proof (Hroots x (or_intror Hx)) as Hz.
    rewrite (quot_spec p r x), (Hroots r (or_introl eq_refl)) in Hz.
    replace ((x -f r) *f peval (quot p r) x +f zero) with ((x -f r) *f peval (quot p r) x) in Hz by ring.
    apply (fmul_integral O L) in Hz. destruct Hz as [Hz|Hz]; [|assumption].
    apply (fsub_zero O L) in Hz. subst. contradiction.
Qed.

(* interpolation is unique: two coefficient lists of length <= n that agree on n distinct points agree everywhere *)
Theorem interp_unique : forall xs p q, length p <= length xs -> length q <= length xs -> NoDup xs ->
  (forall x, In x xs -> peval p x = peval q x) -> forall a, peval p a = peval q a.
Proof.
  intros xs p q Hp Hq Hnd Hag a.
  assert (Z : peval (padd p (pscale (-f one) q)) a = zero).
  { apply (roots_zero xs); [rewrite padd_length, pscale_length; lia | assumption |].
    intros x Hx. rewrite peval_padd, peval_pscale, (Hag x Hx). ring. }
  rewrite peval_padd, peval_pscale in Z. apply (fsub_zero O L). rewrite <- Z. ring.
Qed.

(* ---------------------------------------------------------------- the Lagrange form *)
Lemma prod_diff_root : forall l a, In a l -> prod_diff O a l = zero.
Proof.
  induction l as [|x t IH]; intros a; cbn [In prod_diff]; [tauto|].
  intros [->|H]; [ring | rewrite (IH a H); ring].
Qed.

Lemma prod_diff_nonzero : forall l a, ~ In a l -> prod_diff O a l <> zero.
Proof.
  induction l as [|x t IH]; intros a Hn; cbn [prod_diff]; [apply (fl_one_neq_zero O L)|].
  intros H. apply (fmul_integral O L) in H. destruct H as [H|H].
  - apply (fsub_zero O L) in H. subst. apply Hn. now left.
  - apply (IH a); [intros Hi; apply Hn; now right | assumption].
Qed.

Fixpoint prod_poly (l : list F) : list F :=
  match l with [] => [one] | x :: t => lin_mul (prod_poly t) x end.
Lemma peval_prod_poly : forall l a, peval (prod_poly l) a = prod_diff O a l.
Proof.
  induction l as [|x t IH]; intros a; cbn [prod_poly prod_diff]; [cbn; ring|].
  rewrite peval_lin_mul, IH. reflexivity.
Qed.
Lemma prod_poly_length l : length (prod_poly l) = S (length l).
Proof. induction l; cbn [prod_poly length]; [reflexivity | now rewrite lin_mul_length, IHl]. Qed.

Fixpoint lagrange_poly_from (pre post ys : list F) : list F :=
  match post, ys with
  | x :: post', y :: ys' =>
      let others := pre ++ post' in
      padd (pscale (y *f finv O (prod_diff O x others)) (prod_poly others)) (lagrange_poly_from (pre ++ [x]) post' ys')
  | _, _ => []
  end.

Lemma peval_lagrange_poly : forall post pre ys a,
  peval (lagrange_poly_from pre post ys) a = lagrange_from O pre post ys a.
Proof.
  induction post as [|x post IH]; intros pre [|y ys] a; cbn [lagrange_poly_from lagrange_from]; try reflexivity.
  rewrite peval_padd, peval_pscale, peval_prod_poly, IH. reflexivity.
Qed.

Lemma lagrange_poly_length : forall post pre ys,
  length (lagrange_poly_from pre post ys) <= length pre + length post.
Proof.
  induction post as [|x post IH]; intros pre [|y ys]; cbn [lagrange_poly_from length]; try lia.
  rewrite padd_length, pscale_length, prod_poly_length, app_length.
  specialize (IH (pre ++ [x]) ys). rewrite app_length in IH. cbn [length] in IH. lia.
Qed.

(* the Lagrange form vanishes on the nodes already passed and takes the prescribed values on the others *)
Lemma lagrange_from_nodes : forall post pre ys, NoDup (pre ++ post) -> length ys = length post ->
  (forall a, In a pre -> lagrange_from O pre post ys a = zero) /\
  (forall i x y, nth_error post i = Some x -> nth_error ys i = Some y -> lagrange_from O pre post ys x = y).
Proof.
  induction post as [|x post IH]; intros pre ys Hnd Hlen.
  - split; [reflexivity | intros [|i] ? ? H; discriminate].
  - destruct ys as [|y ys]; [discriminate|]. injection Hlen as Hlen.
    assert (Hnd' : NoDup ((pre ++ [x]) ++ post)) by (rewrite <- app_assoc; exact Hnd).
    destruct (IH (pre ++ [x]) ys Hnd' Hlen) as [IH1 IH2].
    assert (Hx : ~ In x (pre ++ post)) by (apply NoDup_remove_2 in Hnd; exact Hnd).
    cbn [lagrange_from]. split.
    + intros a Ha. rewrite (prod_diff_root (pre ++ post) a) by (apply in_or_app; now left).
      rewrite IH1 by (apply in_or_app; now left). ring.
    + intros [|i] x0 y0 Hp Hy; cbn in Hp, Hy.
      * injection Hp as <-. injection Hy as <-.
        rewrite IH1 by (apply in_or_app; right; now left).
        pose proof (prod_diff_nonzero _ _ Hx). field. assumption.
      * assert (Hin : In x0 post) by (eapply nth_error_In; eassumption).
        rewrite (prod_diff_root (pre ++ post) x0) by (apply in_or_app; now right).
        rewrite (IH2 i x0 y0 Hp Hy). ring.
Qed.

(* exactness: on distinct nodes the Lagrange form reproduces every polynomial with at most |nodes| coefficients *)
Theorem lagrange_exact : forall xs p a, NoDup xs -> length p <= length xs ->
  interp_eval O xs (map (peval p) xs) a = peval p a.
Proof.
  intros xs p a Hnd Hlen. unfold interp_eval. rewrite <- peval_lagrange_poly.
  apply (interp_unique xs); [apply (lagrange_poly_length xs []) | assumption | assumption |].
  intros x Hx. rewrite peval_lagrange_poly.
  destruct (In_nth_error xs x Hx) as [i Hi].
  destruct (lagrange_from_nodes xs [] (map (peval p) xs) Hnd (map_length _ _)) as [_ H].
  apply (H i); [assumption | now rewrite nth_error_map, Hi].
Qed.

(* ---------------------------------------------------------------- rows: nodes x * w^j *)
Section Rows.
Variable N : nat.
Variable w winv : F.
Hypothesis w_pow : fpow w N = one.
Hypothesis w_prim : forall d, 0 < d < N -> fpow w d <> one.
Hypothesis w_inv : w *f winv = one.
Hypothesis N_nonzero : fnat O N <> zero.

Definition row_nodes (x : F) : list F := map (fun j => x *f fpow w j) (seq 0 N).

Lemma w_pow_inj i j : i < N -> j < N -> fpow w i = fpow w j -> i = j.
Proof.
  assert (G : forall i j, i < j -> j < N -> fpow w i <> fpow w j).
  { intros a b Hab Hb E. apply (w_prim (b - a)); [lia|].
    assert (Hw : fpow w a <> zero).
    { apply (fpow_nonzero O L). intros Hz. rewrite Hz in w_inv.
      replace (zero *f winv) with zero in w_inv by ring. symmetry in w_inv. now apply (fl_one_neq_zero O L). }
    replace b with (b - a + a) in E by lia. rewrite (fpow_add O L) in E.
    assert (E2 : (fpow w (b - a) -f one) *f fpow w a = zero) by (transitivity (fpow w (b - a) *f fpow w a -f fpow w a); [ring | rewrite <- E; ring]).
    apply (fmul_integral O L) in E2. destruct E2 as [E2|E2]; [now apply (fsub_zero O L) | contradiction]. }
  intros Hi Hj E. destruct (lt_eq_lt_dec i j) as [[H|H]|H]; [exfalso; now apply (G i j) | assumption | exfalso; apply (G j i); auto].
Qed.

Lemma NoDup_map_in {A B} (f : A -> B) (l : list A) :
  (forall x y, In x l -> In y l -> f x = f y -> x = y) -> NoDup l -> NoDup (map f l).
Proof.
  induction l as [|a l IH]; intros Hinj Hnd; cbn [map]; constructor; inversion Hnd; subst.
  - intros Hin. apply in_map_iff in Hin. destruct Hin as [y [E Hy]].
    assert (y = a) by (apply Hinj; [now right | now left | assumption]). subst. contradiction.
  - apply IH; [|assumption]. intros x y Hx Hy. apply Hinj; now right.
Qed.

Lemma row_nodes_NoDup x : x <> zero -> NoDup (row_nodes x).
Proof.
  intros Hx. unfold row_nodes. apply NoDup_map_in; [|apply seq_NoDup].
  intros i j Hi Hj E. apply in_seq in Hi, Hj. apply w_pow_inj; [lia | lia |].
  transitivity (finv O x *f (x *f fpow w i)); [field; assumption | rewrite E; field; assumption].
Qed.

Lemma row_nodes_length x : length (row_nodes x) = N.
Proof. unfold row_nodes. now rewrite map_length, seq_length. Qed.

Local Notation row_poly x row := (scale_series O (idft O N winv row) (finv O (fnat O N)) (finv O x)).

Lemma row_poly_length x row : length (row_poly x row) = N.
Proof.
  assert (G : forall v a b, length (scale_series O v a b) = length v).
  { induction v; intros; cbn [scale_series length]; auto. }
  rewrite G. apply (idft_length O L).
Qed.

Lemma row_poly_values x row : x <> zero -> length row = N -> map (peval (row_poly x row)) (row_nodes x) = row.
Proof.
  intros Hx Hlen. unfold row_nodes. rewrite map_map.
  apply (nth_ext _ _ zero zero); [now rewrite map_length, seq_length|].
  intros m Hm. rewrite map_length, seq_length in Hm.
  rewrite (nth_indep _ zero (peval (row_poly x row) (x *f fpow w 0))) by now rewrite map_length, seq_length.
  rewrite (map_nth (fun j => peval (row_poly x row) (x *f fpow w j)) (seq 0 N) 0 m), seq_nth by assumption.
  apply (row_poly_interpolates O L N w winv w_pow w_prim w_inv); assumption.
Qed.

(* per-layer consistency of prover and verifier: for EVERY row (low degree or not) the verifier's interpolant of
   the opened row at alpha equals the value the prover's apply_drp computes for that row *)
Theorem verifier_row_eq_prover_row : forall x row alpha, x <> zero -> length row = N ->
  interp_eval O (row_nodes x) row alpha = drp_row O N winv (finv O (fnat O N)) (finv O x) alpha row.
Proof.
  intros x row alpha Hx Hlen. unfold drp_row.
  rewrite <- (row_poly_values x row Hx Hlen) at 1.
  apply lagrange_exact; [now apply row_nodes_NoDup | rewrite row_poly_length, row_nodes_length; lia].
Qed.

(* the folding identity for folding factor N: if the row holds the values, at the row's points x * w^j, of a
   polynomial with coefficient list A of length <= N (for f(X) = sum_j X^j f_j(X^N): A_j = f_j(x^N)), then the
   folded value is A evaluated at alpha, i.e. sum_j alpha^j f_j(x^N) *)
Theorem drp_row_identity : forall x A alpha, x <> zero -> length A <= N ->
  drp_row O N winv (finv O (fnat O N)) (finv O x) alpha (map (peval A) (row_nodes x)) = peval A alpha.
Proof.
  intros x A alpha Hx HA. rewrite <- verifier_row_eq_prover_row; [|assumption | now rewrite map_length, row_nodes_length].
  apply lagrange_exact; [now apply row_nodes_NoDup | now rewrite row_nodes_length].
Qed.

(* the folding identity in the form of the property text: f(y) = sum_{j<N} y^j f_j(y^N), given by its N
   coefficient slices fs = [f_0; ...; f_{N-1}] *)
Definition fval (fs : list (list F)) (y : F) : F := peval (map (fun fj => peval fj (fpow y N)) fs) y.

(* sum_j alpha^j f_j as a coefficient list *)
Fixpoint fold_slices (alpha : F) (fs : list (list F)) : list F :=
  match fs with [] => [] | fj :: t => padd fj (pscale alpha (fold_slices alpha t)) end.

Lemma peval_fold_slices : forall fs alpha y,
  peval (fold_slices alpha fs) y = peval (map (fun fj => peval fj y) fs) alpha.
Proof.
  induction fs as [|fj t IH]; intros alpha y; cbn [fold_slices map Fri.peval]; [reflexivity|].
  rewrite peval_padd, peval_pscale, IH. reflexivity.
Qed.

(* degree propagation: the folded polynomial has no more coefficients than the longest slice
   (for deg f <= d the slices have at most floor(d/N) + 1 coefficients) *)
Lemma fold_slices_length : forall fs alpha k, (forall fj, In fj fs -> length fj <= k) ->
  length (fold_slices alpha fs) <= k.
Proof.
  induction fs as [|fj t IH]; intros alpha k H; cbn [fold_slices length]; [lia|].
  rewrite padd_length, pscale_length.
  specialize (IH alpha k (fun f Hf => H f (or_intror Hf))). specialize (H fj (or_introl eq_refl)). lia.
Qed.

Lemma row_point_pow x m : fpow (x *f fpow w m) N = fpow x N.
Proof.
  rewrite (fpow_mul_base O L), <- (fpow_mul O L), Nat.mul_comm, (fpow_mul O L), w_pow, (fpow_one O L). ring.
Qed.

Theorem drp_identity : forall x fs alpha, x <> zero -> length fs = N ->
  drp_row O N winv (finv O (fnat O N)) (finv O x) alpha (map (fval fs) (row_nodes x))
  = peval (fold_slices alpha fs) (fpow x N).
Proof.
  intros x fs alpha Hx Hlen.
  set (A := map (fun fj => peval fj (fpow x N)) fs).
  assert (E : map (fval fs) (row_nodes x) = map (peval A) (row_nodes x)).
  { unfold row_nodes. rewrite !map_map. apply map_ext. intros m. unfold fval, A. now rewrite row_point_pow. }
  rewrite E, drp_row_identity by (try assumption; unfold A; rewrite map_length; lia).
  unfold A. now rewrite peval_fold_slices.
Qed.

End Rows.

End Interp.
