(* Proofs/CodecExamples.v — non-vacuity witnesses for the hypotheses of the C12 theorems, and concrete
   boundary round trips evaluated by vm_compute.  Property C12. *)
From VBase Require Import MachInt.
From VModel Require Import Codec.
From VProofs Require Import CodecPrim CodecTypes.
Open Scope Z_scope.

Definition po_max : ProofOptions := mkPO 255 128 32 FE_Cubic 16 255.
Definition po_min : ProofOptions := mkPO 1 2 0 FE_None 2 0.

Lemma wf_po_max : wf_ProofOptions po_max.
Proof. apply wf_ProofOptions_explicit. cbn. repeat split; try lia; tauto. Qed.
Lemma wf_po_min : wf_ProofOptions po_min.
Proof. apply wf_ProofOptions_explicit. cbn. repeat split; try lia; tauto. Qed.

Definition ti_255 : TraceInfo := mkTI 255 0 0 8 [].
Definition ti_aux0 : TraceInfo := mkTI 3 2 0 8 [].
Definition ti_small : TraceInfo := mkTI 1 0 0 8 [].

Lemma wf_ti_small : wf_TraceInfo ti_small.
Proof. exists 1, 0, 0, 8, []. repeat split; try lia. Qed.

(* 65535 metadata bytes are accepted and decoded *)
Definition ti_meta_max : TraceInfo := mkTI 200 55 255 (2 ^ 20) (repeat 171 (Z.to_nat 65535)).
Lemma wf_ti_meta_max : wf_TraceInfo ti_meta_max.
Proof.
  exists 200, 55, 255, (2 ^ 20), (repeat 171 (Z.to_nat 65535)). repeat split; try lia.
  all: unfold TraceInfo_new_multi_segment, assert_, len; rewrite repeat_length, Z2Nat.id by lia; reflexivity.
Qed.
(* ... while 65536 are rejected by the constructor *)
Lemma ti_meta_too_long : TraceInfo_new_multi_segment 1 0 0 8 (repeat 0 (Z.to_nat 65536)) = Panic.
Proof. unfold TraceInfo_new_multi_segment, assert_, len. rewrite repeat_length, Z2Nat.id by lia. reflexivity. Qed.
Lemma ti_256_columns : TraceInfo_new_multi_segment 255 1 1 8 [] = Panic.
Proof. reflexivity. Qed.

Definition f64_modulus_bytes : bytes := to_le_bytes 8 M64.
Definition f128_modulus_bytes : bytes := to_le_bytes 16 M128.

Definition ctx_small : Context := mkCtx ti_small f64_modulus_bytes po_min.
Lemma wf_ctx_small : wf_Context ctx_small.
Proof.
  exists f64_modulus_bytes, ti_small, po_min. split; [exact wf_ti_small|]. split; [exact wf_po_min|].
  split; [vm_compute; split; [discriminate | reflexivity] | reflexivity].
Qed.

(* largest trace length / LDE domain accepted by Context::new *)
Definition ctx_big : Context := mkCtx (mkTI 255 0 0 (2 ^ 24) []) f128_modulus_bytes po_max.
Lemma wf_ctx_big : wf_Context ctx_big.
Proof.
  exists f128_modulus_bytes, (mkTI 255 0 0 (2 ^ 24) []), po_max. split.
  - exists 255, 0, 0, (2 ^ 24), []. repeat split; try lia.
  - split; [exact wf_po_max|]. split; [vm_compute; split; [discriminate | reflexivity] | reflexivity].
Qed.
Lemma ctx_lde_too_big : Context_new f64_modulus_bytes (mkTI 1 0 0 (2 ^ 31) []) po_min = Panic.
Proof. reflexivity. Qed.

Definition q_ex : Queries := mkQ [0] [1; 0; 0; 0; 0; 0; 0; 0].
Definition fri_ex : FriProof := mkFri [mkFL [1; 2; 3; 4] [5; 6]; mkFL [9] []] [7; 7; 7; 7; 7; 7; 7; 7] 0.

Lemma wf_fri_ex : wf_FriProof fri_ex.
Proof.
  unfold wf_FriProof, fri_ex, len. cbn [fri_layers fri_remainder fri_num_partitions length Z.of_nat Pos.of_succ_nat Pos.succ].
  repeat split; try lia.
  repeat constructor; unfold len; cbn [fl_values fl_paths length Z.of_nat Pos.of_succ_nat Pos.succ]; lia.
Qed.

Definition proof_ex : Proof :=
  mkProof ctx_small 1 [1; 2; 3] [q_ex] q_ex (mkOod [2; 1; 1] [0] [4; 4]) fri_ex 12345 (Some [1; 2]).

Lemma wf_proof_ex : wf_Proof proof_ex.
Proof.
  unfold wf_Proof, proof_ex. cbn [pr_context pr_num_unique_queries pr_commitments pr_trace_queries
    pr_constraint_queries pr_ood_frame pr_fri_proof pr_pow_nonce pr_gkr_proof].
  assert (Hq : wf_Queries q_ex) by (unfold wf_Queries, q_ex, len; cbn [q_values q_paths length Z.of_nat Pos.of_succ_nat Pos.succ]; lia).
  split; [exact wf_ctx_small|]. split; [lia|].
  split; [unfold wf_Commitments, len; cbn [length Z.of_nat Pos.of_succ_nat Pos.succ]; lia|].
  split; [reflexivity|]. split; [repeat constructor; exact Hq|]. split; [exact Hq|].
  split; [unfold wf_OodFrame, len; cbn [ood_trace_states ood_lagrange ood_evaluations length Z.of_nat Pos.of_succ_nat Pos.succ]; lia|].
  split; [exact wf_fri_ex|]. split; [lia|].
  cbn [wf_gkr length Z.of_nat Pos.of_succ_nat Pos.succ]. split; [lia | repeat constructor].
Qed.

(* concrete evaluations *)
Example rt_proof_ex_computed : read_Proof (write_Proof proof_ex ++ [99]) = Ok (proof_ex, [99]).
Proof. vm_compute. reflexivity. Qed.

Example rt_ti_255_computed : read_TraceInfo (write_TraceInfo ti_255) = Ok (ti_255, []).
Proof. vm_compute. reflexivity. Qed.
Example rt_ti_aux0_computed : read_TraceInfo (write_TraceInfo ti_aux0) = Ok (ti_aux0, []).
Proof. vm_compute. reflexivity. Qed.

(* hostile inputs that used to panic are errors *)
Example ti_hostile_length : read_TraceInfo [1; 0; 0; 200; 0; 0] = Err Invalid.
Proof. vm_compute. reflexivity. Qed.
Example po_hostile_queries : read_ProofOptions [0; 8; 0; 1; 4; 31] = Err Invalid.
Proof. vm_compute. reflexivity. Qed.
Example vec_hostile_length : read_vec_of (read_vec_of read_u8) (write_usize (2 ^ 60)) = Err Eof.
Proof. vm_compute. reflexivity. Qed.

(* vint64 boundaries *)
Example vint64_boundaries :
  map write_usize [0; 127; 128; 16383; 16384; 2 ^ 56 - 1; 2 ^ 56; 2 ^ 64 - 1] =
  [[1]; [255]; [2; 2]; [254; 255]; [4; 0; 2]; [128; 255; 255; 255; 255; 255; 255; 255];
   [0; 0; 0; 0; 0; 0; 0; 0; 1]; [0; 255; 255; 255; 255; 255; 255; 255; 255]].
Proof. vm_compute. reflexivity. Qed.

(* the decoder is not injective: non-canonical (over-long) encodings of a size are accepted *)
Example vint64_noncanonical_accepted :
  read_usize [3] = Ok (1, []) /\ read_usize [6; 0] = Ok (1, []) /\ read_usize [0; 1; 0; 0; 0; 0; 0; 0; 0] = Ok (1, []).
Proof. vm_compute. auto. Qed.

(* BTreeMap: keys must be strictly increasing for the round trip; a duplicate key collapses (last wins) *)
Example map_from_iter_dedup : map_from_iter Z.ltb [(3, 30); (1, 10); (3, 31)] = [(1, 10); (3, 31)].
Proof. reflexivity. Qed.
