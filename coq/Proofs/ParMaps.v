(* C14 — plain parallel maps: a map over disjoint single-cell tasks equals the sequential map, for every schedule. *)
From Coq Require Import List Arith Bool Lia PeanoNat Permutation.
From VModel Require Import FFT Par.
From VProofs Require Import ParCommute ParBatch.
Import ListNotations.

Section Maps.
Context {V : Type} (d : V).

Lemma par_update_is_elem g n : par_update_tasks d g n = elem_tasks d g n.
Proof. reflexivity. Qed.

(* generic statement, in-place update: tasks well-formed, pairwise disjoint, every schedule = sequential map *)
Theorem par_update_spec (g : nat -> V -> V) a n sched : length a = n -> Permutation sched (seq 0 n) ->
  Forall (task_ok d) (par_update_tasks d g n) /\ ForallOrdPairs independent (par_update_tasks d g n) /\
  exec (reorder (par_update_tasks d g n) sched) a = map (fun i => g i (nth i a d)) (seq 0 n).
Proof.
  intros Hl P. rewrite par_update_is_elem. split; [apply elem_tasks_ok|]. split; [apply elem_tasks_independent|].
  apply elem_tasks_spec; assumption.
Qed.

(* generic statement, map into a fresh vector: whatever the vector contained *)
Theorem par_map_spec (f : nat -> V) junk n sched : length junk = n -> Permutation sched (seq 0 n) ->
  Forall (task_ok d) (par_map_tasks d f n) /\ ForallOrdPairs independent (par_map_tasks d f n) /\
  exec (reorder (par_map_tasks d f n) sched) junk = par_map_serial f n.
Proof. intros Hl P. unfold par_map_tasks, par_map_serial. apply (par_update_spec (fun i _ => f i)); assumption. Qed.
End Maps.

(* ---------------------------------------------------------------- instances *)
Theorem transpose_slice_par_spec {T} (dt : T) (source : list T) N junk sched : let rows := length source / N in
  length junk = rows -> Permutation sched (seq 0 rows) ->
  exec (reorder (transpose_slice_tasks dt source N) sched) junk = map (transpose_slice_row dt source N rows) (seq 0 rows).
Proof. intros rows Hl P. apply (par_map_spec (@nil T)); assumption. Qed.

Theorem hash_values_par_spec {R Dg} (dd : Dg) (dr : R) (hash_row : R -> Dg) values junk sched :
  length junk = length values -> Permutation sched (seq 0 (length values)) ->
  exec (reorder (hash_values_tasks dd dr hash_row values) sched) junk = map hash_row values.
Proof.
  intros Hl P. unfold hash_values_tasks. destruct (par_map_spec dd (fun i => hash_row (nth i values dr)) junk _ sched Hl P) as (_ & _ & E).
  rewrite E. unfold par_map_serial. rewrite <- (map_map (fun i => nth i values dr) hash_row). f_equal.
  apply nth_ext with (d := dr) (d' := dr); [rewrite map_length, seq_length; reflexivity|].
  intros i Hi. rewrite map_length, seq_length in Hi. rewrite nth_map_seq by exact Hi. reflexivity.
Qed.

Theorem apply_drp_par_spec {R B E} (de : E) (dr : R) (db : B) (fold_row : R -> B -> E) values inv_offsets junk sched :
  length junk = length values -> Permutation sched (seq 0 (length values)) ->
  exec (reorder (apply_drp_tasks de dr db fold_row values inv_offsets) sched) junk =
  map (fun i => fold_row (nth i values dr) (nth i inv_offsets db)) (seq 0 (length values)).
Proof. intros Hl P. apply (par_map_spec de); assumption. Qed.

Theorem acc_column_boundary_par_spec {E} (de : E) (mul_add : E -> E -> nat -> E) column zl acc sched :
  length acc = length column -> Permutation sched (seq 0 (length column)) ->
  exec (reorder (acc_column_boundary_tasks de mul_add column zl) sched) acc =
  map (fun i => mul_add (nth i acc de) (nth i column de) (i mod zl)) (seq 0 (length column)).
Proof. intros Hl P. apply (par_update_spec de); assumption. Qed.

Theorem per_column_par_spec {C} (dc : C) (col_fn : nat -> C -> C) columns sched :
  Permutation sched (seq 0 (length columns)) ->
  exec (reorder (per_column_tasks dc col_fn (length columns)) sched) columns =
  map (fun c => col_fn c (nth c columns dc)) (seq 0 (length columns)).
Proof. intros P. apply (par_update_spec dc); [reflexivity|exact P]. Qed.

Example par_map_ex : exec (reorder (par_map_tasks 0 (fun i => i * i) 5) [3; 0; 4; 2; 1]) [9; 9; 9; 9; 9] = [0; 1; 4; 9; 16].
Proof. reflexivity. Qed.
