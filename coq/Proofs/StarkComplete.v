(* C01 — capstone: the algebraic prover/verifier pair of Model/Stark.v is complete, given the completeness of the
   abstract stages (Merkle openings, FRI, interpolation over the constraint-evaluation coset, transcript
   agreement) as NAMED hypotheses.  stdlib style. *)
From Coq Require Import List Arith Bool Lia Ring Field.
From VBase Require Import FieldOps.
From VModel Require Import Stark.
From VProofs Require Import StarkPoly StarkDeep.
Import ListNotations.

Section Segments.
Context {F : Type} (O : FOps F) (L : FLaws O).
Local Notation zero := (fzero O).
Local Notation peval := (peval O).
Add Ring Fring3 : (FLaws_ring_theory O L).

Lemma segment_shape n : 0 < n -> forall cols (H : list F), n * cols <= length H ->
  length (segment H n cols) = cols /\ Forall (fun h => length h = n) (segment H n cols).
Proof.
  intros Hn. induction cols as [|k IH]; intros H Hl; [split; [reflexivity | constructor]|].
  destruct H as [|h0 t] eqn:EH; [simpl in Hl; lia|]. rewrite <- EH in *.
  assert (E : segment H n (S k) = firstn n H :: segment (skipn n H) n k) by (subst H; reflexivity).
  rewrite E. destruct (IH (skipn n H)) as [I1 I2]. { rewrite skipn_length. nia. }
  split; [simpl; now rewrite I1|]. constructor; [|exact I2]. rewrite firstn_length_le; [reflexivity | nia].
Qed.

Lemma segment_firstn n : 0 < n -> forall cols (H : list F), segment H n cols = segment (firstn (n * cols) H) n cols.
Proof.
  intros Hn. induction cols as [|k IH]; intros H; [reflexivity|].
  destruct H as [|h0 t] eqn:EH. { rewrite firstn_nil. reflexivity. }
  rewrite <- EH.
  assert (E1 : segment H n (S k) = firstn n H :: segment (skipn n H) n k) by (subst H; reflexivity).
  assert (Hne : firstn (n * S k) H <> []).
  { subst H. destruct (n * S k) eqn:En; [nia | simpl; discriminate]. }
  assert (E2 : segment (firstn (n * S k) H) n (S k)
               = firstn n (firstn (n * S k) H) :: segment (skipn n (firstn (n * S k) H)) n k).
  { destruct (firstn (n * S k) H); [congruence | reflexivity]. }
  rewrite E1, E2. f_equal.
  - rewrite firstn_firstn. f_equal. nia.
  - rewrite (IH (skipn n H)). f_equal.
    replace (n * S k) with (n + n * k) by nia. rewrite firstn_skipn_comm. reflexivity.
Qed.

Lemma peval_firstn_zeros z : forall k j, peval (firstn j (repeat zero k)) z = zero.
Proof. induction k as [|k IH]; intros [|j]; simpl; try reflexivity. rewrite IH. ring. Qed.

Lemma peval_firstn_padded (Q : list F) k m z : length Q <= m -> peval (firstn m (Q ++ repeat zero k)) z = peval Q z.
Proof.
  intros Hm. rewrite firstn_app, (firstn_all2 Q) by lia.
  rewrite (peval_app O L), peval_firstn_zeros. ring.
Qed.
(* ood_equation_holds: when the interpolated composition polynomial is the quotient Q (padded), the verifier's
   reassembly sum_i z^(i n) H_i(z) of the opened column values equals Q(z) — for EVERY z; with
   air_eval z (frame at z) = Q(z) for z outside the trace domain this is the verifier's OOD consistency equation *)
Theorem ood_equation_holds n cols (Q : list F) k z : 0 < n -> length Q <= n * cols ->
  ood_lhs O n z 0 (evals O (segment (Q ++ repeat zero k) n cols) z) = peval Q z.
Proof.
  intros Hn Hl. rewrite (segment_firstn n Hn), (segments_eval O L) by (rewrite firstn_length; lia).
  now apply peval_firstn_padded.
Qed.
End Segments.

(* ------------------------------------------------------------------ from "all constraints hold" to the quotient Q *)
Section AirQuotient.
Context {F : Type} (O : FOps F) (L : FLaws O).
Local Notation zero := (fzero O).
Local Notation one := (fone O).
Local Notation "a +f b" := (fadd O a b) (at level 50, left associativity).
Local Notation "a -f b" := (fsub O a b) (at level 50, left associativity).
Local Notation "a *f b" := (fmul O a b) (at level 40, left associativity).
Local Notation peval := (peval O).
Local Notation fpow := (fpow O).
Local Notation pprod := (pprod O).
Add Ring Fring4 : (FLaws_ring_theory O L).
Add Field Ffield4 : (FLaws_field_theory O L).

(* boundary constraint groups: (numerator polynomial sum_j beta_j (T_c(x) - b_j(x)), zero set of the group's divisor) *)
Fixpoint bsum (bs : list (list F * list F)) (x : F) : F :=
  match bs with [] => zero | (B, R) :: t => peval B x *f finv O (pprod R x) +f bsum t x end.

(* what evaluate_constraints computes at x outside the trace domain, for numerator polynomials N (transition) and bs:
   N(x) / ((x^n - 1) / prod_exempt(x)) + sum_groups B(x) / Z_group(x) *)
Definition combined (g : F) (n e : nat) (N : list F) (bs : list (list F * list F)) (x : F) : F :=
  peval N x *f pprod (exempt O g n e) x *f finv O (fpow x n -f one) +f bsum bs x.

Lemma bsum_quotient g n (Hg : primitive_root O g n) m : forall bs,
  Forall (fun br => NoDup (snd br) /\ incl (snd br) (domain O g n) /\
                    (forall r, In r (snd br) -> peval (fst br) r = zero) /\ length (fst br) - length (snd br) <= m) bs ->
  exists Q, length Q <= m /\ forall x, ~ In x (domain O g n) -> bsum bs x = peval Q x.
Proof.
  induction bs as [|[B R] t IH]; intros HF.
  - exists []. split; [simpl; lia|]. reflexivity.
  - inversion HF as [|? ? (ND & Hin & Hv & Hl) HF']; subst. simpl in *.
    destruct (IH HF') as (Qt & Hlt & HQt).
    destruct (vanish_divisible O L R B ND Hv) as (Qb & Hlb & HQb).
    exists (padd O Qb Qt). split. { rewrite (padd_length O). lia. }
    intros x Hx. cbn [bsum]. rewrite (peval_padd O L), (HQt x Hx), HQb.
    assert (pprod R x <> zero). { apply (pprod_nonroot O L). intros Hr. apply Hx. now apply Hin. }
    field. assumption.
Qed.

(* air_quotient_exists: for a trace on which the transition numerator vanishes on all non-exempt steps and every
   boundary group's numerator vanishes on the group's steps, the combined constraint evaluation is a polynomial with at
   most m coefficients, for every m bounding the quotient lengths (m = n * cols by Proofs/StarkShape.v) *)
Theorem air_quotient_exists g n e N bs m : primitive_root O g n -> 0 < n -> e <= n ->
  (forall i, i < n - e -> peval N (fpow g i) = zero) ->
  length N - (n - e) <= m ->
  Forall (fun br => NoDup (snd br) /\ incl (snd br) (domain O g n) /\
                    (forall r, In r (snd br) -> peval (fst br) r = zero) /\ length (fst br) - length (snd br) <= m) bs ->
  exists Q, length Q <= m /\ forall x, ~ In x (domain O g n) -> combined g n e N bs x = peval Q x.
Proof.
  intros Hg Hn He Hv Hm HF.
  destruct (quotient_is_poly O L g n e N Hg Hn He Hv) as (Qt & Hlt & _ & HQt).
  destruct (bsum_quotient g n Hg m bs HF) as (Qb & Hlb & HQb).
  exists (padd O Qt Qb). split. { rewrite (padd_length O). lia. }
  intros x Hx. unfold combined. rewrite (peval_padd O L), (HQb x Hx), HQt.
  assert (fpow x n -f one <> zero).
  { rewrite <- (domain_vanishing O L g n Hg Hn). now apply (pprod_nonroot O L). }
  field. assumption.
Qed.
End AirQuotient.

Section Complete.
Context {F : Type} (O : FOps F) (L : FLaws O).
Local Notation zero := (fzero O).
Local Notation "a *f b" := (fmul O a b) (at level 40, left associativity).
Local Notation peval := (peval O).
Local Notation evals := (evals O).

(* abstract stages of the protocol (Section variables of Model/Stark.v) *)
Variables (Digest Opening FriProof : Type).
Variable commit : list (list F) -> Digest.
Variable open_prove : list (list F) -> list F -> Opening.
Variable open_ok : Digest -> list F -> list (list F) -> Opening -> bool.
Variable fri_prove : list F -> list F -> FriProof.
Variable fri_verify : FriProof -> nat -> list F -> list F -> bool.
Variable air_eval : F -> list F -> list F -> F.
Variable interp_ce : (F -> F) -> list F.

Variables (n cols ce_size : nat) (g : F).
Variable ce_coset : list F.     (* the constraint evaluation domain offset * <g_ce> *)
Variable lde : list F.          (* the LDE domain offset * <g_lde> *)

(* ---- NAMED stage hypotheses (to be discharged from C10/C09/C15/C04 by the coordinator) ---- *)
(* C10 + C09: the batch opening, at query points of the LDE domain, of a committed list of polynomials contains the rows
   of their evaluations, and verifies against the commitment (discharged from C10_batch_complete in Proofs/StarkInst.v) *)
Hypothesis merkle_complete : forall (cs : list (list F)) xs, incl xs lde -> NoDup xs -> xs <> [] -> length xs <= 255 ->
  open_ok (commit cs) xs (map (evals cs) xs) (open_prove cs xs) = true.
(* C15: FRI accepts the evaluations, at query points of the LDE domain, of a polynomial given by n coefficients
   whose top coefficient is zero (degree <= n - 2) *)
Hypothesis fri_complete : forall d xs, length d = n -> last d zero = zero -> incl xs lde -> xs <> [] -> length xs <= 255 ->
  fri_verify (fri_prove d xs) (n - 2) xs (map (peval d) xs) = true.
Local Notation prove := (prove O Digest Opening FriProof commit open_prove fri_prove air_eval interp_ce).
Local Notation verify := (verify O Digest Opening FriProof open_ok fri_verify air_eval).

(* stark_complete_partial.
   FULL statement aimed at (DESIGN.md C01): admissible params -> valid trace -> z not in (LDE coset u trace domain) ->
   no coin draw exhausts its 1000 tries -> prove t = Ok pi /\ verify pi = Ok /\ verify (parse (serialize pi)) = Ok
   for the real prover/verifier.  PROVED here: the same for the algebraic model of Model/Stark.v (release profile,
   repaired assertions), where
     - "valid trace" enters as the existence of the constraint quotient Q with at most n * cols coefficients
       (that validity implies this is `quotient_is_poly` / `air_quotient_exists` below),
     - Merkle / FRI / interpolation / coset / transcript completeness are the named hypotheses above,
     - serialisation round trip (C12) and the coin's retry limit (C19) are outside the algebraic model. *)
Theorem stark_complete_core (dbg : bool) (cP cV : @Coin F) (Ts : list (list F)) (Q : list F) :
  2 <= n -> 1 <= cols -> n * cols <= ce_size ->
  Ts <> [] -> Forall (fun p => length p = n) Ts ->
  length Q <= n * cols ->
  (forall x, ~ In x (domain O g n) -> air_eval x (evals Ts x) (evals Ts (x *f g)) = peval Q x) ->
  (* interpolation of the constraint evaluations over the CE coset recovers Q (padded to ce_size coefficients) *)
  interp_ce (fun x => air_eval x (evals Ts x) (evals Ts (x *f g))) = Q ++ repeat zero (ce_size - length Q) ->
  cV = cP ->
  ~ In (c_z cP) (domain O g n) -> c_z cP <> zero -> c_z cP *f g <> zero ->
  incl (c_xs cP) lde -> NoDup (c_xs cP) -> c_xs cP <> [] -> length (c_xs cP) <= 255 ->
  (forall x, In x (c_xs cP) -> x <> c_z cP /\ x <> c_z cP *f g) ->
  exists pf, prove (mkParams n g cols false dbg) cP Ts = Done pf /\
             verify (mkParams n g cols false dbg) cV pf = None.
Proof.
  intros Hn Hcols Hce HTs HTl HQl HQ EH -> Hz Hz0 Hzg0 Hxs Hnd Hne H255 Hxz.
  set (z := c_z cP) in *.
  set (f := fun x => air_eval x (evals Ts x) (evals Ts (x *f g))) in *.
  set (H := interp_ce f) in *.
  assert (HHl : n * cols <= length H). { rewrite EH, app_length, repeat_length. lia. }
  set (Hs := segment H n cols).
  destruct (segment_shape n ltac:(lia) cols H HHl) as [S1 S2]. fold Hs in S1, S2.
  set (cur := evals Ts z). set (nxt := evals Ts (z *f g)). set (hz := evals Hs z).
  set (d0 := deep_trace O n g z (c_gamma cP) Ts cur nxt).
  set (d := deep_constraints O z (c_delta cP) Hs hz d0).
  destruct (deep_trace_shape O L n g z (c_gamma cP) Ts ltac:(lia) HTl cur nxt) as [D01 D02]. fold d0 in D01, D02.
  destruct (deep_shape O L n g cP Ts Hs ltac:(lia) HTl S2 cur nxt hz) as [D1 D2].
  unfold deep_poly in D1, D2. fold z d0 d in D1, D2.
  exists (mkProof Digest Opening FriProof (commit Ts) (commit Hs) cur nxt hz (map (evals Ts) (c_xs cP)) (map (evals Hs) (c_xs cP))
            (open_prove Ts (c_xs cP)) (open_prove Hs (c_xs cP)) (fri_prove d (c_xs cP))).
  split.
  - unfold Stark.prove. cbn [p_n p_g p_cols p_strict p_dbg]. fold z f H.
    (* the debug-only assertion of segment(): degree_of(coefficients) < trace_len * num_cols *)
    assert (C0 : (degree_of O H <? n * cols) = true).
    { apply Nat.ltb_lt. rewrite EH, (degree_of_app_zeros O L).
      destruct Q as [|q0 Q']; [simpl; nia|]. pose proof (degree_of_lt_length O (q0 :: Q') ltac:(discriminate)). lia. }
    rewrite C0. cbn [negb]. rewrite andb_false_r. fold Hs.
    assert (C1 : (length Hs =? cols) && forallb (fun h : list F => length h =? n) Hs = true).
    { rewrite S1, Nat.eqb_refl. simpl. apply forallb_forall. intros h Hh. rewrite Forall_forall in S2. rewrite (S2 h Hh). apply Nat.eqb_refl. }
    rewrite C1. cbn [negb]. destruct Ts as [|T0 Ts']; [congruence|].
    replace (n <? 2) with false by (symmetry; apply Nat.ltb_ge; lia).
    pose proof (feqb_neq O L z zero Hz0) as X0. pose proof (feqb_neq O L (z *f g) zero Hzg0) as X1.
    rewrite X0, X1. cbn [orb].
    fold cur nxt hz d0 d.
    assert (A0 : deep_assert O false n d0 = true).
    { unfold deep_assert. apply Nat.leb_le. rewrite <- D01. now apply (degree_of_top_zero O L). }
    assert (A1 : deep_assert O false n d = true).
    { unfold deep_assert. apply Nat.leb_le. rewrite <- D1. now apply (degree_of_top_zero O L). }
    rewrite A0, A1. reflexivity.
  - unfold Stark.verify. cbn [p_n p_g pf_cur pf_nxt pf_hz pf_trace_root pf_comp_root pf_trows pf_hrows pf_topen pf_hopen pf_fri]. fold z.
    (* the OOD consistency equation *)
    assert (E1 : air_eval z cur nxt = peval Q z) by (apply HQ; exact Hz).
    assert (E2 : ood_lhs O n z 0 hz = peval Q z).
    { unfold hz, Hs. rewrite (segment_firstn n ltac:(lia)), (segments_eval O L) by (rewrite firstn_length; lia).
      rewrite EH. apply (peval_firstn_padded O L). exact HQl. }
    rewrite E1, E2, (feqb_refl O L). cbn [negb].
    rewrite (merkle_complete Ts _ Hxs Hnd Hne H255), (merkle_complete Hs _ Hxs Hnd Hne H255). cbn [negb].
    (* the verifier's DEEP evaluations are the evaluations of the prover's DEEP polynomial *)
    assert (E3 : forall xs, (forall x, In x xs -> x <> z /\ x <> z *f g) ->
      map3 (fun x tr hr => v_deep O g cP x tr hr cur nxt hz) xs (map (evals Ts) xs) (map (evals Hs) xs) = map (peval d) xs).
    { induction xs as [|x xs IH]; intros Hx; [reflexivity|]. simpl. f_equal.
      - destruct (Hx x (or_introl eq_refl)) as [X1 X2].
        symmetry. apply (query_consistency O L n g cP Ts Hs ltac:(lia) x X1 X2).
      - apply IH. intros y Hy. apply Hx. now right. }
    rewrite (E3 _ Hxz), (fri_complete d (c_xs cP) D1 D2 Hxs Hne H255). reflexivity.
Qed.

(* C09: interpolation over the constraint evaluation coset recovers a polynomial with at most ce_size coefficients
   from its evaluations (padded with zero coefficients to ce_size) *)
Hypothesis interp_complete : forall f Q, length Q <= ce_size -> (forall x, In x ce_coset -> f x = peval Q x) ->
  interp_ce f = Q ++ repeat zero (ce_size - length Q).
(* C16/C09: the coset is disjoint from the trace domain (offset not in the subgroup) *)
Hypothesis coset_off_domain : forall x, In x ce_coset -> ~ In x (domain O g n).

Theorem stark_complete_partial (dbg : bool) (cP cV : @Coin F) (Ts : list (list F)) (Q : list F) :
  2 <= n -> 1 <= cols -> n * cols <= ce_size ->
  Ts <> [] -> Forall (fun p => length p = n) Ts ->
  (* valid trace: the combined constraint evaluation is a polynomial Q that fits the composition columns *)
  length Q <= n * cols ->
  (forall x, ~ In x (domain O g n) -> air_eval x (evals Ts x) (evals Ts (x *f g)) = peval Q x) ->
  (* transcript: the verifier re-derives the prover's coin values (C04) *)
  cV = cP ->
  (* z is outside the trace domain, z and z*g are non-zero; the query points are LDE points different from z and z*g *)
  ~ In (c_z cP) (domain O g n) -> c_z cP <> zero -> c_z cP *f g <> zero ->
  incl (c_xs cP) lde -> NoDup (c_xs cP) -> c_xs cP <> [] -> length (c_xs cP) <= 255 ->
  (forall x, In x (c_xs cP) -> x <> c_z cP /\ x <> c_z cP *f g) ->
  exists pf, prove (mkParams n g cols false dbg) cP Ts = Done pf /\
             verify (mkParams n g cols false dbg) cV pf = None.
Proof.
  intros Hn Hcols Hce HTs HTl HQl HQ Hc Hz Hz0 Hzg0 Hxs Hnd Hne H255 Hxz.
  apply (stark_complete_core dbg cP cV Ts Q); try assumption.
  apply interp_complete; [lia|]. intros x Hx. apply HQ. now apply coset_off_domain.
Qed.

(* the same, stated from "all constraints hold on the trace": transition numerator N vanishing on the non-exempt steps,
   boundary groups vanishing on their steps, the AIR's out-of-domain evaluation being the combined quotient formula *)
Theorem stark_complete_valid_trace_partial (dbg : bool) (cP cV : @Coin F) (Ts : list (list F))
    (e : nat) (N : list F) (bs : list (list F * list F)) :
  primitive_root O g n -> 2 <= n -> 1 <= cols -> n * cols <= ce_size ->
  Ts <> [] -> Forall (fun p => length p = n) Ts -> e <= n ->
  (forall i, i < n - e -> peval N (fpow O g i) = zero) ->
  length N - (n - e) <= n * cols ->
  Forall (fun br => NoDup (snd br) /\ incl (snd br) (domain O g n) /\
                    (forall r, In r (snd br) -> peval (fst br) r = zero) /\ length (fst br) - length (snd br) <= n * cols) bs ->
  (forall x, ~ In x (domain O g n) -> air_eval x (evals Ts x) (evals Ts (x *f g)) = combined O g n e N bs x) ->
  cV = cP ->
  ~ In (c_z cP) (domain O g n) -> c_z cP <> zero -> c_z cP *f g <> zero ->
  incl (c_xs cP) lde -> NoDup (c_xs cP) -> c_xs cP <> [] -> length (c_xs cP) <= 255 ->
  (forall x, In x (c_xs cP) -> x <> c_z cP /\ x <> c_z cP *f g) ->
  exists pf, prove (mkParams n g cols false dbg) cP Ts = Done pf /\
             verify (mkParams n g cols false dbg) cV pf = None.
Proof.
  intros Hg Hn Hcols Hce HTs HTl He Hv HNl Hbs Hair Hc Hz Hz0 Hzg0 Hxs Hnd Hne H255 Hxz.
  destruct (air_quotient_exists O L g n e N bs (n * cols) Hg ltac:(lia) He Hv HNl Hbs) as (Q & HQl & HQ).
  apply (stark_complete_partial dbg cP cV Ts Q); try assumption.
  intros x Hx. rewrite (Hair x Hx). now apply HQ.
Qed.

End Complete.
