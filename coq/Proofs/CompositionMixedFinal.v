(* C17 — round 10 (4): the `_ext` capstone (single-segment path) with BOTH extension-field premises instantiated: the
   interpolation is C09's FFT model over the extension field, the polynomial form of comp_def over E comes from validity through
   C01 (comp_def_is_poly at F := E).  Obtained from C17_composition_is_definition at F := E (all its hypotheses are stated on the
   embedded data) and C17_evaluate_mixed_embeds.  The numerators have extension-field coefficients (the composition coefficients
   are in E), so the validity hypotheses are extension-field statements by nature. *)
From Coq Require Import List Arith Bool Lia Ring Field ZArith.
From VBase Require Import FieldOps.
From VModel Require Import Composition CompositionMixed CompositionMixedWhole.
From VModel Require Stark FFT.
From VProofs Require StarkPoly StarkComplete FFTSpec FFTEval FFTOffset.
From VProofs Require Import CompositionBase CompositionIndex CompositionVerifier CompositionTable CompositionFFT CompositionValid
  CompositionMixed CompositionMixedWhole.
Import ListNotations.

Section ExtFinal.
Context {B F : Type} (OB : FOps B) (O : FOps F) (LB : FLaws OB) (L : FLaws O).
Variable emb : B -> F.
Variable mul_base : F -> B -> F.
Hypothesis H : Emb OB O emb mul_base.
Local Notation fz := (fzero O).
Local Notation f1 := (fone O).
Local Infix "*f" := (fmul O) (at level 40, left associativity).

(* base-field data of the computation *)
Variable offsetB : B.
Variable rouB : nat -> B.
Variable tmainB : list B -> list B -> list B -> list B.
Variable tmain : list F -> list F -> list F -> list F.
Hypothesis tmain_commutes : forall cur nxt pv, tmain (map emb cur) (map emb nxt) (map emb pv) = map emb (tmainB cur nxt pv).
Variable ppolysB : list (list B).
Variable groupsB : list (@BGm B F).
Variable lde_mainB : list (list B).
Variable tpolysB : list (list B).
(* ... embedded *)
Local Notation offset := (emb offsetB).
Local Notation rou := (fun m => emb (rouB m)).
Local Notation ppolys := (map (map emb) ppolysB).
Local Notation main_groups := (map (embG emb) groupsB).
Local Notation aux_groups := (@nil (@BGroup F)).
Local Notation lde_main := (map (map emb) lde_mainB).
Local Notation tpolys := (map (map emb) tpolysB).

Variable n ceb ldeb r : nat.
Variable wlde ginv : F.
Hypothesis n_pos : n <> 0.
Hypothesis ceb_pos : ceb <> 0.
Hypothesis r_pos : r <> 0.
Hypothesis ldeb_eq : ldeb = ceb * r.
Local Notation ce_size := (ce_size n ceb).
Local Notation wce := (wce n ceb rou).
Local Notation g := (gtrace n rou).
Hypothesis wlde_order : cpow O wlde (lde_size n ldeb) = f1.
Hypothesis wlde_wce : cpow O wlde r = wce.
Hypothesis wlde_g : cpow O wlde ldeb = g.
Hypothesis ginv_spec : ginv *f g = f1.
Hypothesis g_primitive : StarkPoly.primitive_root O g n.

Variable num_main : nat.
Variable taux : list F -> list F -> list F -> list F -> list F -> list F -> list F.
Variable exemptions : nat.
Variable tcoef : list F.
Variable rands : list F.
Variable apolys lde_aux : list (list F).
Hypothesis tmain_len : forall cur nxt pv, length (tmain cur nxt pv) = num_main.
Hypothesis exemptions_le : exemptions <= n.
Hypothesis poly_len_pos : forall p, In p ppolys -> length p <> 0.
Hypothesis poly_len_div_n : forall p, In p ppolys -> length p * (n / length p) = n.
Hypothesis poly_len_div_max : forall p, In p ppolys -> exists q, fold_left Nat.max (map (@length F) ppolys) 0 = length p * q.
Hypothesis rou_compat : forall p, In p ppolys -> rou (length p * ceb) = cpow O wce (n / length p).
Hypothesis main_ok : forall gr, In gr main_groups ->
  div_ok n ceb (bg_div gr) /\ forall c, In c (bg_cs gr) -> bc_ok O n ceb ginv tpolys c.
Hypothesis lde_main_ok : lde_rows_of O n ldeb offset wlde lde_main tpolys.

Variable two_adicity K : nat.
Variable rouk : nat -> F.
Variable itw : list F.
Hypothesis ce_pow2 : ce_size = 2 ^ S K.
Hypothesis K_adic : S K <= two_adicity.
Hypothesis rouk_ce : rouk (S K) = wce.
Hypothesis wce_root : FFTSpec.root_cond O (S K) wce.
Hypothesis itw_get : FFT.get_inv_twiddles O two_adicity rouk (2 ^ S K) = Some itw.
Hypothesis offset_nz : offset <> fz.
Hypothesis n_invertible : FFTSpec.two_pow_f O (S K) *f FFTOffset.n_inv O (S K) = f1.

(* the ce coset is disjoint from the trace domain *)
Hypothesis ce_off_domain : forall i, i < ce_size -> ~ In (ce_x O n ceb offset rou i) (Stark.domain O g n).
Variable num_cols m : nat.
Hypothesis m_le_ce : m <= ce_size.
Hypothesis m_le_cols : m <= num_cols * n.
Hypothesis n_lt_ce : n < ce_size.

(* numerators as polynomials, vanishing where the constraints are enforced (validity) *)
Variable N : list F.
Variable Bm Rm Ba Ra : @BGroup F -> list F.
Hypothesis Bm_spec : forall gr, In gr main_groups -> forall z, peval O (Bm gr) z = group_numer O tpolys gr z.
Hypothesis Rm_spec : forall gr, In gr main_groups -> forall z,
  Stark.pprod O (Rm gr) z = fsub O (cpow O z (dv_a (bg_div gr))) (dv_b (bg_div gr)).
Hypothesis N_vanishes : forall i, i < n - exemptions -> peval O N (cpow O g i) = fz.
Hypothesis N_len : length N - (n - exemptions) <= m.

Local Notation comp_def has_aux :=
  (comp_def O n rou tmain taux ppolys exemptions tcoef main_groups aux_groups rands has_aux tpolys apolys).
Local Notation evaluate has_aux :=
  (evaluate O n ceb ldeb offset rou num_main tmain taux ppolys exemptions tcoef main_groups aux_groups rands has_aux
            lde_main lde_aux (fun _ v => v)).
Local Notation interp := (interp_fft O two_adicity itw offset).
Local Notation groups_ok has_aux :=
  (Forall (fun br => NoDup (snd br) /\ incl (snd br) (Stark.domain O g n) /\
                     (forall r0, In r0 (snd br) -> peval O (fst br) r0 = fz) /\
                     length (fst br) - length (snd br) <= m) (bs_of main_groups aux_groups has_aux Bm Rm Ba Ra)).
Local Notation N_is_numerator has_aux :=
  (forall z, peval O N z = rsum O (map (fun ca => snd ca *f fst ca)
     (combine (def_constraints O n rou tmain taux ppolys rands has_aux tpolys apolys z) tcoef))).
Local Notation conclusion has_aux :=
  (exists Q evals cols,
    length Q <= m
    /\ evaluate has_aux = Some evals
    /\ composition_poly_new n interp evals num_cols = Some cols
    /\ (forall z, recombine O n (cp_evaluate_at O cols z) z = peval O Q z)
    /\ (forall z, ~ In z (Stark.domain O g n) -> recombine O n (cp_evaluate_at O cols z) z = comp_def has_aux z)).


Hypothesis N_spec : forall z, peval O N z = rsum O (map (fun ca => snd ca *f fst ca)
     (combine (def_constraints O n rou tmain taux ppolys rands false tpolys apolys z) tcoef)).
Hypothesis bs_ok : Forall (fun br => NoDup (snd br) /\ incl (snd br) (Stark.domain O g n) /\
                     (forall r0, In r0 (snd br) -> peval O (fst br) r0 = fz) /\
                     length (fst br) - length (snd br) <= m) (bs_of main_groups aux_groups false Bm Rm Ba Ra).

Theorem composition_is_definition_ext_closed :
  exists Q evals cols,
    length Q <= m
    /\ evaluate_mixed OB O mul_base n ceb ldeb offsetB rouB num_main tmainB ppolysB exemptions tcoef groupsB lde_mainB = Some evals
    /\ composition_poly_new n (interp_fft O two_adicity itw offset) evals num_cols = Some cols
    /\ (forall z, recombine O n (cp_evaluate_at O cols z) z = peval O Q z)
    /\ (forall z, ~ In z (Stark.domain O g n) -> recombine O n (cp_evaluate_at O cols z) z
          = Composition.comp_def O n rou tmain taux ppolys exemptions tcoef main_groups aux_groups rands false tpolys apolys z).
Proof.
  rewrite (evaluate_mixed_embeds OB O LB L emb mul_base H n ceb ldeb offsetB rouB num_main tmainB tmain taux tmain_commutes
             ppolysB exemptions tcoef groupsB rands lde_mainB lde_aux).
  eapply (composition_is_definition_valid_main O L n ceb ldeb r offset rou wlde ginv); try eassumption; try reflexivity.
Qed.
End ExtFinal.
