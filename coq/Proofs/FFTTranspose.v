(* C09/C14: the in-place transpositions of math/src/fft/concurrent.rs (transpose_square_1: 2x2 blocks,
   transpose_square_2: 1x2 blocks, both sequences of swaps over the upper triangle) equal the transposition by
   index specification `transpose_spec`, for every (even, for stretch 1) size.  Generic argument: a fold of cell
   swaps (r,c) <-> (c,r) over a duplicate-free list of upper-triangular coordinates transposes exactly the listed
   cells; each loop nest enumerates every pair r < c < size exactly once.  No field law.  stdlib style. *)
From Coq Require Import List Arith Bool ZArith Lia FinFun.
From VBase Require Import FieldOps.
From VModel Require Import FFT FFTSplit.
From VProofs Require Import FFTSpec FFTRefine FFTEval FFTOffset.
From VProofs Require FFTSplit.
Import ListNotations.

Lemma fold_left_flat_map {A B C} (f : A -> C -> A) (g : B -> list C) : forall l a,
  fold_left f (flat_map g l) a = fold_left (fun a x => fold_left f (g x) a) l a.
Proof. induction l; intros; cbn; [reflexivity | rewrite fold_left_app; apply IHl]. Qed.

Lemma fold_left_map {A B C} (f : A -> C -> A) (h : B -> C) : forall l a,
  fold_left f (map h l) a = fold_left (fun a u => f a (h u)) l a.
Proof. induction l; intros; cbn; [reflexivity | apply IHl]. Qed.

Lemma NoDup_app_intro {A} : forall (a b : list A), NoDup a -> NoDup b -> (forall x, In x a -> ~ In x b) -> NoDup (a ++ b).
Proof.
  induction a as [|x a IH]; intros b Ha Hb Hd; [exact Hb|].
  inversion Ha; subst. cbn. constructor.
  - intros Hin. apply in_app_or in Hin. destruct Hin; [contradiction | apply (Hd x); [left; reflexivity | assumption]].
  - apply IH; auto. intros y Hy. apply Hd. right. exact Hy.
Qed.

Lemma NoDup_flat_map_key {A} (key : A -> nat) (g : nat -> list A) : forall l,
  NoDup l -> (forall x, In x l -> NoDup (g x)) -> (forall x p, In x l -> In p (g x) -> key p = x) ->
  NoDup (flat_map g l).
Proof.
  induction l as [|x l IH]; intros Hl Hg Hk; [constructor|].
  inversion Hl; subst. cbn. apply NoDup_app_intro.
  - apply Hg. left. reflexivity.
  - apply IH; auto. intros; apply Hg; right; assumption. intros y p Hy; apply Hk; right; assumption.
  - intros p Hp Hq. apply in_flat_map in Hq. destruct Hq as (y & Hy & Hpy).
    assert (key p = x) by (apply Hk; [left; reflexivity | exact Hp]).
    assert (key p = y) by (apply Hk; [right; exact Hy | exact Hpy]). subst. contradiction.
Qed.

Lemma cell_inj size r c r' c' : c < size -> c' < size -> r * size + c = r' * size + c' -> r = r' /\ c = c'.
Proof.
  intros Hc Hc' E.
  assert (r = r').
  { assert (H1 : (r * size + c) / size = r) by (symmetry; apply Nat.div_unique with c; lia).
    assert (H2 : (r' * size + c') / size = r') by (symmetry; apply Nat.div_unique with c'; lia).
    rewrite E in H1. lia. }
  subst. split; [reflexivity | lia].
Qed.

Section Transpose.
Context {F : Type} (O : FOps F).
Local Notation fz := (fzero O).

(* membership of the unordered pair {r, c} in a list of upper-triangular coordinates *)
Definition memp (pairs : list (nat * nat)) (r c : nat) : bool :=
  existsb (fun p => (fst p =? Nat.min r c) && (snd p =? Nat.max r c)) pairs.

Section Generic.
Variable st : nat.
Variable cs : list F -> nat -> nat -> list F.          (* swap of two cells of `st` consecutive elements *)
Hypothesis cs_length : forall v a b, length (cs v a b) = length v.
Hypothesis cs_nth : forall C v a b q e, a <> b -> a < C -> b < C -> length v = C * st -> q < C -> e < st ->
  nth (q * st + e) (cs v a b) fz = nth ((if q =? a then b else if q =? b then a else q) * st + e) v fz.

Lemma fold_cells size : forall pairs v,
  NoDup pairs -> (forall p, In p pairs -> fst p < snd p < size) -> length v = size * size * st ->
  let v' := fold_left (fun v p => cs v (fst p * size + snd p) (snd p * size + fst p)) pairs v in
  length v' = length v /\
  forall r c e, r < size -> c < size -> e < st ->
    nth ((r * size + c) * st + e) v' fz =
      if memp pairs r c then nth ((c * size + r) * st + e) v fz else nth ((r * size + c) * st + e) v fz.
Proof.
  induction pairs as [|[r0 c0] pairs IH]; intros v Hnd Hup Hl; cbv zeta.
  - cbn. split; [reflexivity|]. intros; reflexivity.
  - cbn [fold_left fst snd]. inversion Hnd as [|? ? Hnotin Hnd']; subst.
    assert (H0 : r0 < c0 < size) by (apply (Hup (r0, c0)); left; reflexivity).
    set (a0 := r0 * size + c0). set (b0 := c0 * size + r0).
    set (v1 := cs v a0 b0).
    assert (Hl1 : length v1 = size * size * st) by (unfold v1; rewrite cs_length; exact Hl).
    destruct (IH v1 Hnd' (fun p Hp => Hup p (or_intror Hp)) Hl1) as [IL IN]. cbv zeta in IL, IN.
    split; [rewrite IL; unfold v1; apply cs_length|].
    intros r c e Hr Hc He. rewrite IN by assumption.
    assert (Hcell : forall r' c', r' < size -> c' < size -> r' * size + c' < size * size) by (intros; nia).
    assert (Hab : a0 <> b0).
    { unfold a0, b0. intros E. apply cell_inj in E; lia. }
    assert (Hv1 : forall r' c', r' < size -> c' < size ->
              nth ((r' * size + c') * st + e) v1 fz =
              nth ((if (r' =? r0) && (c' =? c0) then b0 else if (r' =? c0) && (c' =? r0) then a0 else r' * size + c') * st + e) v fz).
    { intros r' c' Hr' Hc'. unfold v1.
      rewrite (cs_nth (size * size)) by (try assumption; try (apply Hcell; lia); unfold a0, b0; auto).
      f_equal. f_equal. f_equal.
      assert (E1 : (r' * size + c' =? a0) = (r' =? r0) && (c' =? c0)).
      { apply eq_true_iff_eq. rewrite andb_true_iff, !Nat.eqb_eq. unfold a0. split.
        - intros E. apply cell_inj in E; lia.
        - intros [E1 E2]. subst. reflexivity. }
      assert (E2 : (r' * size + c' =? b0) = (r' =? c0) && (c' =? r0)).
      { apply eq_true_iff_eq. rewrite andb_true_iff, !Nat.eqb_eq. unfold b0. split.
        - intros E. apply cell_inj in E; lia.
        - intros [E3 E4]. subst. reflexivity. }
      rewrite E1, E2. reflexivity. }
    unfold memp. cbn [existsb fst snd].
    fold (memp pairs r c).
    destruct ((r0 =? Nat.min r c) && (c0 =? Nat.max r c)) eqn:Eh.
    + (* {r,c} = {r0,c0}: not in the tail *)
      apply andb_prop in Eh. destruct Eh as [E1 E2]. apply Nat.eqb_eq in E1, E2.
      assert (Hm : memp pairs r c = false).
      { destruct (memp pairs r c) eqn:Em; [|reflexivity]. exfalso. apply Hnotin.
        unfold memp in Em. apply existsb_exists in Em. destruct Em as ([r1 c1] & Hin & Hb). cbn [fst snd] in Hb.
        apply andb_prop in Hb. destruct Hb as [B1 B2]. apply Nat.eqb_eq in B1, B2. rewrite B1, B2, <- E1, <- E2 in Hin. exact Hin. }
      rewrite Hm. cbn [orb]. rewrite Hv1 by assumption.
      f_equal. f_equal. f_equal.
      destruct (Nat.le_gt_cases r c) as [Hle | Hgt].
      * rewrite Nat.min_l in E1 by lia. rewrite Nat.max_r in E2 by lia. rewrite <- E1, <- E2, !Nat.eqb_refl. reflexivity.
      * rewrite Nat.min_r in E1 by lia. rewrite Nat.max_l in E2 by lia. rewrite <- E1, <- E2.
        destruct (Nat.eqb_spec c0 r0); [lia|]. cbn [andb]. rewrite !Nat.eqb_refl. reflexivity.
    + cbn [orb].
      assert (Hne : ~ (r = r0 /\ c = c0) /\ ~ (r = c0 /\ c = r0)).
      { split; intros [-> ->].
        - rewrite Nat.min_l, Nat.max_r, !Nat.eqb_refl in Eh by lia. discriminate.
        - rewrite Nat.min_r, Nat.max_l, !Nat.eqb_refl in Eh by lia. discriminate. }
      destruct Hne as [Hn1 Hn2].
      assert (Fix : forall r' c', ~ (r' = r0 /\ c' = c0) -> ~ (r' = c0 /\ c' = r0) ->
                (if (r' =? r0) && (c' =? c0) then b0 else if (r' =? c0) && (c' =? r0) then a0 else r' * size + c') = r' * size + c').
      { intros r' c' A1 A2.
        destruct (Nat.eqb_spec r' r0); destruct (Nat.eqb_spec c' c0); cbn [andb]; try (exfalso; apply A1; auto; fail);
          destruct (Nat.eqb_spec r' c0); destruct (Nat.eqb_spec c' r0); cbn [andb]; try reflexivity; exfalso; apply A2; auto. }
      destruct (memp pairs r c).
      * rewrite Hv1 by assumption. rewrite Fix; [reflexivity | tauto | tauto].
      * rewrite Hv1 by assumption. rewrite Fix; [reflexivity | tauto | tauto].
Qed.

(* a complete duplicate-free enumeration of the upper triangle transposes the matrix *)
Lemma fold_cells_transpose size pairs v :
  NoDup pairs -> (forall p, In p pairs -> fst p < snd p < size) ->
  (forall r c, r < c < size -> In (r, c) pairs) -> length v = size * size * st ->
  fold_left (fun v p => cs v (fst p * size + snd p) (snd p * size + fst p)) pairs v = transpose_spec O size st v.
Proof.
  intros Hnd Hup Hall Hl.
  destruct (fold_cells size pairs v Hnd Hup Hl) as [L N]. cbv zeta in L, N.
  apply nth_ext with (d := fz) (d' := fz); [rewrite L; unfold transpose_spec; rewrite map_length, seq_length; reflexivity|].
  rewrite L. intros p Hp.
  destruct (Nat.eq_dec st 0) as [-> | Hst]; [rewrite Nat.mul_0_r in Hl; lia|].
  destruct (Nat.eq_dec size 0) as [-> | Hsz]; [cbn in Hl; lia|].
  pose proof (Nat.div_mod p st Hst) as D1. pose proof (Nat.mod_upper_bound p st Hst) as He.
  set (q := p / st) in *. set (e := p mod st) in *.
  assert (Hq : q < size * size) by (unfold q; apply Nat.div_lt_upper_bound; [exact Hst | rewrite Nat.mul_comm, <- Hl; exact Hp]).
  pose proof (Nat.div_mod q size Hsz) as D2. pose proof (Nat.mod_upper_bound q size Hsz) as Hc.
  set (r := q / size) in *. set (c := q mod size) in *.
  assert (Hr : r < size) by (unfold r; apply Nat.div_lt_upper_bound; [exact Hsz | exact Hq]).
  replace p with ((r * size + c) * st + e) by lia.
  rewrite N by assumption.
  rewrite (VProofs.FFTSplit.transpose_spec_nth O size st v r c e) by (try assumption; lia).
  destruct (memp pairs r c) eqn:Em; [reflexivity|].
  destruct (Nat.eq_dec r c) as [-> | Hrc]; [reflexivity|].
  exfalso. assert (Hin : In (Nat.min r c, Nat.max r c) pairs) by (apply Hall; lia).
  assert (memp pairs r c = true).
  { unfold memp. apply existsb_exists. exists (Nat.min r c, Nat.max r c). split; [exact Hin|]. cbn. rewrite !Nat.eqb_refl. reflexivity. }
  congruence.
Qed.

End Generic.

Ltac eqb_cases :=
  repeat match goal with
  | |- context [?x =? ?y] => destruct (Nat.eqb_spec x y); try lia
  end.

(* ---------------------------------------------------------------- stretch 2: cells of two elements *)
Definition cs2 (v : list F) (a b : nat) : list F := swap O (swap O v (a * 2) (b * 2)) (a * 2 + 1) (b * 2 + 1).

Lemma cs2_length v a b : length (cs2 v a b) = length v.
Proof. unfold cs2. rewrite !swap_length. reflexivity. Qed.

Lemma cs2_nth C v a b q e : a <> b -> a < C -> b < C -> length v = C * 2 -> q < C -> e < 2 ->
  nth (q * 2 + e) (cs2 v a b) fz = nth ((if q =? a then b else if q =? b then a else q) * 2 + e) v fz.
Proof.
  intros Hab Ha Hb Hl Hq He. unfold cs2.
  rewrite swap_nth by (rewrite ?swap_length; lia). rewrite !swap_nth by lia.
  eqb_cases; try reflexivity; f_equal; lia.
Qed.

Definition pairs2 (size : nat) : list (nat * nat) :=
  flat_map (fun row => map (fun u => (row, row + 1 + u)) (seq 0 (size - row - 1))) (seq 0 size).

Lemma transpose_square_2_fold m size :
  transpose_square_2 O m size
  = fold_left (fun v p => cs2 v (fst p * size + snd p) (snd p * size + fst p)) (pairs2 size) m.
Proof.
  unfold pairs2. rewrite fold_left_flat_map. unfold transpose_square_2.
  apply fold_left_ext_in. intros a row _. rewrite fold_left_map. reflexivity.
Qed.

Lemma pairs2_ok size :
  NoDup (pairs2 size) /\ (forall p, In p (pairs2 size) -> fst p < snd p < size) /\
  (forall r c, r < c < size -> In (r, c) (pairs2 size)).
Proof.
  unfold pairs2. split; [|split].
  - apply (NoDup_flat_map_key fst); [apply seq_NoDup | |].
    + intros row _. apply FinFun.Injective_map_NoDup; [|apply seq_NoDup].
      intros u u' E. inversion E. lia.
    + intros row p _ Hp. apply in_map_iff in Hp. destruct Hp as (u & <- & _). reflexivity.
  - intros p Hp. apply in_flat_map in Hp. destruct Hp as (row & Hrow & Hp). apply in_seq in Hrow.
    apply in_map_iff in Hp. destruct Hp as (u & <- & Hu). apply in_seq in Hu. cbn [fst snd]. lia.
  - intros r c Hrc. apply in_flat_map. exists r. split; [apply in_seq; lia|].
    apply in_map_iff. exists (c - r - 1). split; [f_equal; lia | apply in_seq; lia].
Qed.

Theorem transpose_square_2_spec m size : length m = size * size * 2 ->
  transpose_square_2 O m size = transpose_spec O size 2 m.
Proof.
  intros Hl. rewrite transpose_square_2_fold. destruct (pairs2_ok size) as (H1 & H2 & H3).
  apply (fold_cells_transpose 2 cs2 cs2_length cs2_nth); assumption.
Qed.

(* ---------------------------------------------------------------- stretch 1: 2x2 blocks *)
Definition cs1 (v : list F) (a b : nat) : list F := swap O v a b.

Lemma cs1_nth C v a b q e : a <> b -> a < C -> b < C -> length v = C * 1 -> q < C -> e < 1 ->
  nth (q * 1 + e) (cs1 v a b) fz = nth ((if q =? a then b else if q =? b then a else q) * 1 + e) v fz.
Proof.
  intros Hab Ha Hb Hl Hq He. unfold cs1. assert (e = 0) by lia. subst e.
  rewrite !Nat.mul_1_r, !Nat.add_0_r. rewrite swap_nth by lia.
  eqb_cases; reflexivity.
Qed.

Definition blk (t u : nat) : list (nat * nat) :=
  let col := 2 * t + 2 * (u + 1) in [(2 * t, col); (2 * t, col + 1); (2 * t + 1, col); (2 * t + 1, col + 1)].

Definition pairs1 (size : nat) : list (nat * nat) :=
  flat_map (fun t => (2 * t, 2 * t + 1) :: flat_map (blk t) (seq 0 ((size - 2 * t + 1) / 2 - 1)))
           (seq 0 ((size + 1) / 2)).

Lemma transpose_square_1_fold m size :
  transpose_square_1 O m size
  = fold_left (fun v p => cs1 v (fst p * size + snd p) (snd p * size + fst p)) (pairs1 size) m.
Proof.
  unfold pairs1. rewrite fold_left_flat_map. unfold transpose_square_1.
  apply fold_left_ext_in. intros a t _. cbn [fold_left fst snd]. rewrite fold_left_flat_map.
  assert (Hinit : swap O a (2 * t * size + 2 * t + 1) (2 * t * size + 2 * t + size)
                  = cs1 a (2 * t * size + (2 * t + 1)) ((2 * t + 1) * size + 2 * t)).
  { unfold cs1. f_equal; lia. }
  rewrite Hinit. apply fold_left_ext_in. intros a' u _. unfold blk. cbn [fold_left fst snd]. unfold cs1.
  repeat match goal with |- swap O _ _ _ = swap O _ _ _ => f_equal end; lia.
Qed.

Lemma half_counts h t : t < h -> (2 * h + 1) / 2 = h /\ (2 * h - 2 * t + 1) / 2 - 1 = h - t - 1.
Proof.
  intros Ht. split.
  - symmetry. apply Nat.div_unique with 1; lia.
  - assert ((2 * h - 2 * t + 1) / 2 = h - t) by (symmetry; apply Nat.div_unique with 1; lia). lia.
Qed.

Lemma blk_NoDup t u : NoDup (blk t u).
Proof.
  unfold blk. cbv zeta.
  repeat (constructor; [cbn [In]; intros H; repeat (destruct H as [H | H]; [inversion H; lia|]); exact H|]).
  constructor.
Qed.

Lemma pairs1_ok h :
  NoDup (pairs1 (2 * h)) /\ (forall p, In p (pairs1 (2 * h)) -> fst p < snd p < 2 * h) /\
  (forall r c, r < c < 2 * h -> In (r, c) (pairs1 (2 * h))).
Proof.
  unfold pairs1.
  assert (Hh : (2 * h + 1) / 2 = h) by (symmetry; apply Nat.div_unique with 1; lia). rewrite Hh.
  split; [|split].
  - apply (NoDup_flat_map_key (fun p => fst p / 2)); [apply seq_NoDup | |].
    + intros t Ht. apply in_seq in Ht. destruct (half_counts h t ltac:(lia)) as [_ Hc]. rewrite Hc.
      constructor.
      * intros Hin. apply in_flat_map in Hin. destruct Hin as (u & _ & Hin). unfold blk in Hin. cbv zeta in Hin.
        cbn [In] in Hin. repeat (destruct Hin as [Hin | Hin]; [inversion Hin; lia|]). exact Hin.
      * apply (NoDup_flat_map_key (fun p => snd p / 2 - t - 1)); [apply seq_NoDup | intros; apply blk_NoDup |].
        intros u p _ Hp. unfold blk in Hp. cbv zeta in Hp. cbn [In] in Hp.
        assert (E0 : (2 * t + 2 * (u + 1)) / 2 = t + u + 1)
          by (replace (2 * t + 2 * (u + 1)) with (2 * (t + u + 1)) by lia; apply div2_double).
        assert (E1 : (2 * t + 2 * (u + 1) + 1) / 2 = t + u + 1)
          by (replace (2 * t + 2 * (u + 1) + 1) with (2 * (t + u + 1) + 1) by lia; apply div2_double1).
        repeat (destruct Hp as [Hp | Hp]; [subst p; cbn [snd]; rewrite ?E0, ?E1; lia|]). contradiction.
    + intros t p Ht Hp. apply in_seq in Ht. cbn [In] in Hp. destruct Hp as [Hp | Hp].
      * subst p. cbn [fst]. apply div2_double.
      * apply in_flat_map in Hp. destruct Hp as (u & _ & Hp). unfold blk in Hp. cbv zeta in Hp. cbn [In] in Hp.
        repeat (destruct Hp as [Hp | Hp]; [subst p; cbn [fst]; first [apply div2_double | apply div2_double1]|]). contradiction.
  - intros p Hp. apply in_flat_map in Hp. destruct Hp as (t & Ht & Hp). apply in_seq in Ht.
    destruct (half_counts h t ltac:(lia)) as [_ Hc]. rewrite Hc in Hp.
    cbn [In] in Hp. destruct Hp as [Hp | Hp]; [subst p; cbn [fst snd]; lia|].
    apply in_flat_map in Hp. destruct Hp as (u & Hu & Hp). apply in_seq in Hu. unfold blk in Hp. cbv zeta in Hp. cbn [In] in Hp.
    repeat (destruct Hp as [Hp | Hp]; [subst p; cbn [fst snd]; lia|]). contradiction.
  - intros r c Hrc.
    pose proof (Nat.div_mod r 2 ltac:(lia)) as Dr. pose proof (Nat.mod_upper_bound r 2 ltac:(lia)) as Mr.
    pose proof (Nat.div_mod c 2 ltac:(lia)) as Dc. pose proof (Nat.mod_upper_bound c 2 ltac:(lia)) as Mc.
    set (t := r / 2) in *. set (cc := c / 2) in *.
    apply in_flat_map. exists t. split; [apply in_seq; lia|].
    destruct (half_counts h t ltac:(lia)) as [_ Hc]. rewrite Hc.
    destruct (Nat.eq_dec cc t) as [E | E].
    + left. f_equal; lia.
    + right. apply in_flat_map. exists (cc - t - 1). split; [apply in_seq; lia|].
      unfold blk. cbv zeta. cbn [In].
      replace (2 * t + 2 * (cc - t - 1 + 1)) with (2 * cc) by lia.
      assert (r mod 2 = 0 \/ r mod 2 = 1) as [R | R] by lia; assert (c mod 2 = 0 \/ c mod 2 = 1) as [Cm | Cm] by lia.
      * left. f_equal; lia.
      * right. left. f_equal; lia.
      * right. right. left. f_equal; lia.
      * right. right. right. left. f_equal; lia.
Qed.

Theorem transpose_square_1_spec m size : size mod 2 = 0 -> length m = size * size * 1 ->
  transpose_square_1 O m size = transpose_spec O size 1 m.
Proof.
  intros Hev Hl. rewrite transpose_square_1_fold.
  pose proof (Nat.div_mod size 2 ltac:(lia)) as D. rewrite Hev, Nat.add_0_r in D.
  destruct (pairs1_ok (size / 2)) as (H1 & H2 & H3). rewrite <- D in H1, H2, H3.
  apply (fold_cells_transpose 1 cs1 (fun v a b => swap_length O v a b) cs1_nth); assumption.
Qed.

(* transpose_square_stretch = transposition by specification (stretch 1: even size; stretch 2: any size) *)
Theorem transpose_square_stretch_spec m size st :
  length m = size * size * st -> (st = 1 /\ size mod 2 = 0) \/ st = 2 ->
  transpose_square_stretch O m size st = Some (transpose_spec O size st m).
Proof.
  intros Hl Hst. unfold transpose_square_stretch.
  assert (E : (length m =? size * size * st) = true) by (apply Nat.eqb_eq; exact Hl). rewrite E. cbn [negb].
  destruct Hst as [[-> Hev] | ->].
  - rewrite Hev. cbn [Nat.eqb]. f_equal. apply transpose_square_1_spec; assumption.
  - f_equal. apply transpose_square_2_spec. exact Hl.
Qed.

End Transpose.

(* ---------------------------------------------------------------- split_radix_fft (faithful transpositions) = fft_in_place *)
(* law-free: the faithful swap-loop version returns whatever the version with transposition by specification returns *)
Lemma split_radix_tr_agree {F : Type} (O : FOps F) K s (x tw y : list F) :
  s <= 1 -> length x = 2 ^ (S K + S K + s) ->
  split_radix_fft_spec_tr O x tw = Some y -> split_radix_fft O x tw = Some y.
Proof.
  intros Hs Hl H.
  unfold split_radix_fft, split_radix_fft_spec_tr, split_radix_fft_with in *. cbv zeta in *.
  assert (Elog : Nat.log2 (length x) / 2 = S K).
  { rewrite Hl, log2_pow2. symmetry. apply Nat.div_unique with s; lia. }
  assert (Hn : 2 ^ (S K + S K + s) = 2 ^ S K * 2 ^ (S K + s)) by (rewrite <- Nat.pow_add_r; f_equal; lia).
  assert (Eout : length x / 2 ^ S K = 2 ^ (S K + s)).
  { rewrite Hl, Hn, Nat.mul_comm. apply Nat.div_mul. pose proof (pow2_pos (S K)). lia. }
  assert (Estr : 2 ^ (S K + s) / 2 ^ S K = 2 ^ s).
  { rewrite Nat.pow_add_r, Nat.mul_comm. apply Nat.div_mul. pose proof (pow2_pos (S K)). lia. }
  rewrite Elog, Eout, Estr in *.
  assert (Hshape : (2 ^ s = 1 /\ 2 ^ S K mod 2 = 0) \/ 2 ^ s = 2).
  { destruct s as [|[|s]]; [left | right; reflexivity | lia].
    split; [reflexivity|]. rewrite pow2_S. replace (2 ^ K + 2 ^ K) with (2 ^ K * 2) by lia. apply Nat.mod_mul. lia. }
  destruct (Nat.eqb_spec (length x) (2 ^ S K * 2 ^ S K * 2 ^ s)) as [E1 | E1]; cbn [negb] in H; [|discriminate].
  rewrite (transpose_square_stretch_spec O x (2 ^ S K) (2 ^ s) E1 Hshape).
  set (v2 := concat (map _ (rows_of (transpose_spec O (2 ^ S K) (2 ^ s) x) (2 ^ (S K + s))))) in *.
  destruct (Nat.eqb_spec (length v2) (2 ^ S K * 2 ^ S K * 2 ^ s)) as [E2 | E2]; cbn [negb] in H; [|discriminate].
  rewrite (transpose_square_stretch_spec O v2 (2 ^ S K) (2 ^ s) E2 Hshape).
  exact H.
Qed.

Theorem split_radix_is_fft {F : Type} (O : FOps F) (L : FLaws O) tw K s w (x : list F) :
  s <= 1 ->
  length x = 2 ^ (S K + S K + s) -> length tw = 2 ^ (S K + K + s) ->
  tw_ok O tw (S K + S K + s) w -> root_cond O (S K + S K + s) w ->
  split_radix_fft O x tw = Some (fft_in_place_top O x tw).
Proof.
  intros Hs Hl Hlt Ht Hw. apply (split_radix_tr_agree O K s x tw _ Hs Hl).
  exact (VProofs.FFTSplit.split_radix_spec_tr_is_fft O L tw K s w x Hs Hl Hlt Ht Hw).
Qed.

(* concurrent::evaluate_poly (split_radix_fft, then permute) = [p(w^i)] in natural order *)
Theorem evaluate_poly_concurrent_correct {F : Type} (O : FOps F) (L : FLaws O) tw K s w (p : list F) :
  s <= 1 ->
  length p = 2 ^ (S K + S K + s) -> length tw = 2 ^ (S K + K + s) ->
  tw_ok O tw (S K + S K + s) w -> root_cond O (S K + S K + s) w ->
  evaluate_poly_concurrent O p tw = Some (map (fun i => peval O p (fpow O w i)) (seq 0 (2 ^ (S K + S K + s)))).
Proof.
  intros Hs Hl Hlt Ht Hw. unfold evaluate_poly_concurrent.
  rewrite (split_radix_is_fft O L tw K s w p Hs Hl Hlt Ht Hw). f_equal.
  replace (S K + S K + s) with (S (K + S K + s)) in * by lia.
  apply (permuted_fft_is_dft O L tw (K + S K + s) w p Hl Hw Ht).
Qed.
