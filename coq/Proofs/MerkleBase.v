(* C10 — basic lemmas for the Merkle model: bit operations on indexes, list access, assoc maps. *)
From Coq Require Import ZArith List Bool Lia.
From VBase Require Import MachInt.
From VModel Require Import Merkle.
Import ListNotations.
Open Scope Z_scope.

(* ---------------------------------------------------------------- bit operations *)
Lemma land1 x : Z.land x 1 = x mod 2.
Proof. change 1 with (Z.ones 1) at 1. rewrite Z.land_ones by lia. reflexivity. Qed.

Lemma shiftr1 x : Z.shiftr x 1 = x / 2.
Proof. rewrite Z.shiftr_div_pow2 by lia. reflexivity. Qed.

Lemma lxor1 x : 0 <= x -> Z.lxor x 1 = x + 1 - 2 * (x mod 2).
Proof.
  intros H. rewrite Zmod_odd. destruct x as [|p|p]; [reflexivity| |lia].
  destruct p as [p|p|]; cbn [Z.lxor Pos.lxor Z.of_N Z.odd]; lia.
Qed.

Lemma mod2_cases x : x mod 2 = 0 \/ x mod 2 = 1.
Proof. pose proof (Z.mod_pos_bound x 2). lia. Qed.

Lemma lxor1_even x : 0 <= x -> x mod 2 = 0 -> Z.lxor x 1 = x + 1.
Proof. intros. rewrite lxor1 by lia. lia. Qed.

Lemma lxor1_odd x : 0 <= x -> x mod 2 = 1 -> Z.lxor x 1 = x - 1.
Proof. intros. rewrite lxor1 by lia. lia. Qed.

Lemma lxor1_div2 x : 0 <= x -> Z.lxor x 1 / 2 = x / 2.
Proof.
  intros. rewrite lxor1 by lia. pose proof (Z.div_mod x 2). destruct (mod2_cases x) as [E|E]; rewrite E in *.
  - replace (x + 1 - 2 * 0) with (1 + (x / 2) * 2) by lia. rewrite Z.div_add by lia. reflexivity.
  - replace (x + 1 - 2 * 1) with (0 + (x / 2) * 2) by lia. rewrite Z.div_add by lia. reflexivity.
Qed.

Lemma lxor1_nonneg x : 0 <= x -> 0 <= Z.lxor x 1.
Proof. intros. rewrite lxor1 by lia. destruct (mod2_cases x); pose proof (Z.div_mod x 2); lia. Qed.

Lemma lxor1_mod2 x : 0 <= x -> Z.lxor x 1 mod 2 = 1 - x mod 2.
Proof.
  intros. rewrite lxor1 by lia. pose proof (Z.div_mod x 2). destruct (mod2_cases x) as [E|E]; rewrite E in *.
  - replace (x + 1 - 2 * 0) with (1 + (x / 2) * 2) by lia. rewrite Z.mod_add by lia. reflexivity.
  - replace (x + 1 - 2 * 1) with (0 + (x / 2) * 2) by lia. rewrite Z.mod_add by lia. reflexivity.
Qed.

Lemma lxor1_invol x : 0 <= x -> Z.lxor (Z.lxor x 1) 1 = x.
Proof. intros. rewrite Z.lxor_assoc. change (Z.lxor 1 1) with 0. apply Z.lxor_0_r. Qed.

Lemma lxor1_add_even x n : 0 <= x -> 0 <= n -> n mod 2 = 0 -> Z.lxor (x + n) 1 = Z.lxor x 1 + n.
Proof.
  intros. rewrite !lxor1 by lia.
  replace ((x + n) mod 2) with (x mod 2); [lia|].
  pose proof (Z.div_mod n 2). replace (x + n) with (x + (n / 2) * 2) by lia. rewrite Z.mod_add by lia. reflexivity.
Qed.

Lemma div2_range l k : 0 <= l -> 2 ^ (l + 1) <= k < 2 ^ (l + 2) -> 2 ^ l <= k / 2 < 2 ^ (l + 1).
Proof.
  intros Hl H. rewrite !Z.pow_add_r in H by lia. change (2 ^ 1) with 2 in H. change (2 ^ 2) with 4 in H.
  rewrite Z.pow_add_r by lia. change (2 ^ 1) with 2.
  pose proof (Z.div_mod k 2). pose proof (Z.mod_pos_bound k 2). lia.
Qed.

Lemma pow2_pos l : 0 <= l -> 0 < 2 ^ l.
Proof. intros. apply Z.pow_pos_nonneg; lia. Qed.

Lemma pow2_S (d : nat) : 2 ^ Z.of_nat (S d) = 2 * 2 ^ Z.of_nat d.
Proof. rewrite Nat2Z.inj_succ, Z.pow_succ_r by lia. reflexivity. Qed.

Lemma pow2_le_mono a b : 0 <= a <= b -> 2 ^ a <= 2 ^ b.
Proof. intros. apply Z.pow_le_mono_r; lia. Qed.

Lemma usz_eq : usz = 2 ^ 64.
Proof. reflexivity. Qed.

(* ---------------------------------------------------------------- result monad *)
Lemma bind_Ok {A B} (r : res A) (f : A -> res B) b :
  bind r f = Ok b -> exists a, r = Ok a /\ f a = Ok b.
Proof. destruct r; simpl; intros; try discriminate. eauto. Qed.

Lemma bind_not_Panic {A B} (r : res A) (f : A -> res B) :
  r <> Panic -> (forall a, r = Ok a -> f a <> Panic) -> bind r f <> Panic.
Proof. destruct r; simpl; intros; try congruence. apply H0. reflexivity. Qed.

(* ---------------------------------------------------------------- zlen / idx / upd *)
Lemma zlen_nonneg {A} (l : list A) : 0 <= zlen l.
Proof. unfold zlen. lia. Qed.

Lemma zlen_cons {A} (a : A) l : zlen (a :: l) = zlen l + 1.
Proof. unfold zlen. simpl length. lia. Qed.

Lemma zlen_app {A} (l1 l2 : list A) : zlen (l1 ++ l2) = zlen l1 + zlen l2.
Proof. unfold zlen. rewrite app_length. lia. Qed.

Lemma zlen_nil {A} : zlen (@nil A) = 0.
Proof. reflexivity. Qed.

Lemma idx_Ok {A} (l : list A) i (d : A) : 0 <= i < zlen l -> idx l i = Ok (nth (Z.to_nat i) l d).
Proof.
  intros H. unfold idx. destruct (Z.ltb_spec i 0); [lia|].
  destruct (nth_error l (Z.to_nat i)) eqn:E.
  - erewrite nth_error_nth by eassumption. reflexivity.
  - apply nth_error_None in E. unfold zlen in H. lia.
Qed.

Lemma idx_inv {A} (l : list A) i x : idx l i = Ok x -> 0 <= i < zlen l /\ nth_error l (Z.to_nat i) = Some x.
Proof.
  unfold idx. destruct (Z.ltb_spec i 0); [discriminate|].
  destruct (nth_error l (Z.to_nat i)) eqn:E; [|discriminate].
  intros [= <-]. split; [|reflexivity].
  assert (Hn : (Z.to_nat i < length l)%nat) by (apply nth_error_Some; congruence). unfold zlen. lia.
Qed.

Lemma idx_not_Err {A} (l : list A) i e : idx l i <> Err e.
Proof. unfold idx. destruct (i <? 0); [discriminate|]. destruct (nth_error _ _); discriminate. Qed.

Lemma idx_not_Panic {A} (l : list A) i : 0 <= i < zlen l -> idx l i <> Panic.
Proof.
  intros H. destruct l as [|a l]; [unfold zlen in H; simpl in H; lia|]. rewrite (idx_Ok _ _ a) by assumption. discriminate.
Qed.

Lemma idx_Panic_iff {A} (l : list A) i : idx l i = Panic <-> ~ (0 <= i < zlen l).
Proof.
  split.
  - intros E H. exact (idx_not_Panic _ _ H E).
  - intros H. unfold idx. destruct (Z.ltb_spec i 0); [reflexivity|].
    destruct (nth_error l (Z.to_nat i)) eqn:E; [|reflexivity].
    exfalso. apply H. assert ((Z.to_nat i < length l)%nat) by (apply nth_error_Some; congruence). unfold zlen. lia.
Qed.

Lemma idx_cons_0 {A} (a : A) l : idx (a :: l) 0 = Ok a.
Proof. reflexivity. Qed.

Lemma idx_cons_S {A} (a : A) l i : 0 < i -> idx (a :: l) i = idx l (i - 1).
Proof.
  intros. unfold idx. destruct (Z.ltb_spec i 0); [lia|]. destruct (Z.ltb_spec (i - 1) 0); [lia|].
  replace (Z.to_nat i) with (S (Z.to_nat (i - 1))) by lia. reflexivity.
Qed.

Lemma upd_nat_spec {A} (l : list A) n x :
  (n < length l)%nat ->
  exists l', upd_nat l n x = Some l' /\ length l' = length l /\
             forall j, nth_error l' j = if Nat.eqb j n then Some x else nth_error l j.
Proof.
  revert n. induction l as [|a l IH]; intros n H; simpl in H; [lia|].
  destruct n as [|n].
  - eexists. split; [reflexivity|]. split; [reflexivity|]. intros [|j]; reflexivity.
  - destruct (IH n) as (l' & E & L & N); [lia|]. simpl. rewrite E. eexists. split; [reflexivity|].
    split; [simpl; lia|]. intros [|j]; [reflexivity|]. simpl. apply N.
Qed.

Lemma upd_nat_None {A} (l : list A) n x : (length l <= n)%nat -> upd_nat l n x = None.
Proof.
  revert n. induction l as [|a l IH]; intros n H; [reflexivity|]. simpl in H. destruct n; [lia|].
  simpl. rewrite IH by lia. reflexivity.
Qed.

Lemma upd_Ok {A} (l : list A) i x :
  0 <= i < zlen l ->
  exists l', upd l i x = Ok l' /\ length l' = length l /\
             forall j, nth_error l' j = if Nat.eqb j (Z.to_nat i) then Some x else nth_error l j.
Proof.
  intros H. unfold upd. destruct (Z.ltb_spec i 0); [lia|].
  destruct (upd_nat_spec l (Z.to_nat i) x) as (l' & E & L & N); [unfold zlen in H; lia|].
  rewrite E. eauto.
Qed.

Lemma upd_inv {A} (l : list A) i x l' :
  upd l i x = Ok l' ->
  0 <= i < zlen l /\ length l' = length l /\
  forall j, nth_error l' j = if Nat.eqb j (Z.to_nat i) then Some x else nth_error l j.
Proof.
  intros E. assert (H : 0 <= i < zlen l).
  { unfold upd in E. destruct (Z.ltb_spec i 0); [discriminate|].
    destruct (Nat.lt_ge_cases (Z.to_nat i) (length l)); [unfold zlen; lia|].
    rewrite upd_nat_None in E by assumption. discriminate. }
  split; [assumption|]. destruct (upd_Ok l i x H) as (l2 & E2 & L & N). rewrite E in E2. injection E2 as <-. auto.
Qed.

Lemma upd_not_Err {A} (l : list A) i x e : upd l i x <> Err e.
Proof. unfold upd. destruct (i <? 0); [discriminate|]. destruct (upd_nat _ _ _); discriminate. Qed.

Lemma uadd_Ok a b : a + b < usz -> uadd a b = Ok (a + b).
Proof. intros. unfold uadd. destruct (Z.ltb_spec (a + b) usz); [reflexivity|lia]. Qed.

Lemma uadd_inv a b s : uadd a b = Ok s -> s = a + b /\ a + b < usz.
Proof. unfold uadd. destruct (Z.ltb_spec (a + b) usz); intros [=]. auto. Qed.

Lemma uadd_not_Err a b e : uadd a b <> Err e.
Proof. unfold uadd. destruct (_ <? _); discriminate. Qed.

(* ---------------------------------------------------------------- assoc maps *)
Lemma bt_get_insert_same {X} k (x : X) m : bt_get k (bt_insert k x m) = Some x.
Proof.
  induction m as [|[k' x'] m IH]; simpl.
  - rewrite Z.eqb_refl. reflexivity.
  - destruct (Z.ltb_spec k k'); simpl.
    + rewrite Z.eqb_refl. reflexivity.
    + destruct (Z.eqb_spec k k'); simpl.
      * rewrite Z.eqb_refl. reflexivity.
      * destruct (Z.eqb_spec k k'); [contradiction|]. exact IH.
Qed.

Lemma bt_get_insert_other {X} k k2 (x : X) m : k2 <> k -> bt_get k2 (bt_insert k x m) = bt_get k2 m.
Proof.
  intros N. induction m as [|[k' x'] m IH]; simpl.
  - destruct (Z.eqb_spec k2 k); [contradiction|reflexivity].
  - destruct (Z.ltb_spec k k'); simpl.
    + destruct (Z.eqb_spec k2 k); [contradiction|reflexivity].
    + destruct (Z.eqb_spec k k'); simpl.
      * subst k'. destruct (Z.eqb_spec k2 k); [contradiction|reflexivity].
      * destruct (Z.eqb_spec k2 k'); [reflexivity|]. exact IH.
Qed.

Lemma bt_get_insert {X} k k2 (x : X) m :
  bt_get k2 (bt_insert k x m) = if k2 =? k then Some x else bt_get k2 m.
Proof.
  destruct (Z.eqb_spec k2 k).
  - subst. apply bt_get_insert_same.
  - apply bt_get_insert_other. assumption.
Qed.
