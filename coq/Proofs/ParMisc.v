(* C14 — the remaining task decompositions: RowMatrix::transpose (every result cell written exactly once, for every
   thread count, once the number of batches is bounded by the number of rows — and NOT before that repair),
   the fragments of the constraint evaluation table, and the proof-of-work nonce search (find_any).  stdlib style. *)
From Coq Require Import List Arith Bool Lia PeanoNat Permutation Ring Field.
From VBase Require Import FieldOps.
From VModel Require Import FFT Par.
From VProofs Require Import ParCommute ParBatch.
Import ListNotations.

(* ================================================================ arithmetic / list helpers *)
Lemma pow2_split kr m : m <= kr -> 2 ^ kr = 2 ^ m * 2 ^ (kr - m).
Proof. intros H. rewrite <- Nat.pow_add_r. f_equal. lia. Qed.

Lemma min_pow2 a b : Nat.min (2 ^ a) (2 ^ b) = 2 ^ Nat.min a b.
Proof.
  destruct (Nat.le_ge_cases a b) as [H|H].
  - rewrite (Nat.min_l a b) by exact H. apply Nat.min_l. apply Nat.pow_le_mono_r; [discriminate|exact H].
  - rewrite (Nat.min_r a b) by exact H. apply Nat.min_r. apply Nat.pow_le_mono_r; [discriminate|exact H].
Qed.

Lemma div_mul3 nb rpb sg : nb <> 0 -> nb * rpb * sg / nb = rpb * sg.
Proof. intros H. replace (nb * rpb * sg) with (rpb * sg * nb) by ring. apply Nat.div_mul. exact H. Qed.

Lemma seq_shift_gen off n : seq off n = map (fun i => i + off) (seq 0 n).
Proof.
  revert off; induction n as [|n IH]; intros off; [reflexivity|].
  cbn [seq map]. f_equal. rewrite (IH (S off)), (IH 1), map_map. apply map_ext. intros i. lia.
Qed.

Lemma flat_map_map {A B C} (g : B -> list C) (h : A -> B) l : flat_map g (map h l) = flat_map (fun a => g (h a)) l.
Proof. induction l as [|a l IH]; cbn; [reflexivity|]. rewrite IH. reflexivity. Qed.

Lemma flat_map_seq_mul {A} (g : nat -> list A) a b :
  flat_map g (seq 0 (a * b)) = flat_map (fun k => flat_map (fun i => g (i + k * b)) (seq 0 b)) (seq 0 a).
Proof.
  induction a as [|a IH]; [reflexivity|].
  rewrite (seq_S a 0), flat_map_app. cbn [flat_map Nat.add]. rewrite app_nil_r.
  replace (S a * b) with (a * b + b) by lia.
  rewrite seq_app, flat_map_app, IH. f_equal. cbn [Nat.add].
  rewrite (seq_shift_gen (a * b) b), flat_map_map. reflexivity.
Qed.

Lemma combine_map_self {A B} (f : A -> B) l : combine l (map f l) = map (fun k => (k, f k)) l.
Proof. induction l as [|a l IH]; cbn; [reflexivity|]. rewrite IH. reflexivity. Qed.

Lemma get_num_batches_pow2 conc n T : exists x, get_num_batches conc n T = 2 ^ x.
Proof.
  unfold get_num_batches. destruct conc; [|exists 0; reflexivity].
  destruct (n <? 1024); [exists 0; reflexivity|].
  exists (S (Nat.log2_up T)). unfold npo2. rewrite Nat.pow_succ_r'. apply Nat.mul_comm.
Qed.

(* ================================================================ (4) RowMatrix::transpose *)
(* the concurrent branch with nb batches of rpb rows each *)
Lemma transpose_conc_core sg nb rpb : 1 <= sg -> 1 <= rpb ->
  exists p,
    match par_chunks (nb * rpb * sg) (rpb * sg) with
    | Panic => @Panic (list (list (nat * nat * nat)))
    | Done cs =>
        Done (map (fun kc : nat * (nat * nat) =>
                     flat_map (fun i => map (fun j => (fst (snd kc) + (i * sg + j), i + fst kc * rpb, j)) (seq 0 sg))
                              (seq 0 rpb))
                  (combine (seq 0 (length cs)) cs))
    end = Done p /\ concat p = transpose_spec (nb * rpb) sg.
Proof.
  intros Hsg Hr. rewrite <- Nat.mul_assoc. rewrite par_chunks_exact by nia.
  rewrite map_length, seq_length. rewrite combine_map_self, map_map. cbn [fst snd].
  eexists. split; [reflexivity|].
  rewrite <- flat_map_concat_map. unfold transpose_spec. rewrite flat_map_seq_mul.
  apply flat_map_ext. intros k. apply flat_map_ext. intros i. apply map_ext. intros j.
  f_equal. f_equal. ring.
Qed.

Lemma transpose_gen_pow2 (bounded : bool) kr m sg T : 2 <= sg -> m <= kr ->
  (if bounded then Nat.min (get_num_batches true (2 ^ kr * sg) T) (2 ^ kr) else get_num_batches true (2 ^ kr * sg) T) = 2 ^ m ->
  exists p, transpose_plan_gen bounded true (2 ^ kr) sg T = Done p /\ concat p = transpose_spec (2 ^ kr) sg.
Proof.
  intros Hsg Hm Hnb. unfold transpose_plan_gen.
  destruct (Nat.eqb_spec sg 1) as [->|_]; [lia|].
  cbv zeta. rewrite Hnb. rewrite (pow2_split kr m Hm).
  pose proof (pow2_pos m) as Hp1. pose proof (pow2_pos (kr - m)) as Hp2.
  set (nb := 2 ^ m) in *. set (rpb := 2 ^ (kr - m)) in *.
  assert (E1 : nb * rpb / nb = rpb) by (rewrite Nat.mul_comm; apply Nat.div_mul; lia). rewrite E1.
  rewrite div_mul3 by lia.
  apply transpose_conc_core; lia.
Qed.

Theorem transpose_plan_spec kr num_segs T conc : 2 <= num_segs ->
  exists p, transpose_plan conc (2 ^ kr) num_segs T = Done p /\ concat p = transpose_spec (2 ^ kr) num_segs.
Proof.
  intros HS. unfold transpose_plan. destruct conc.
  - destruct (get_num_batches_pow2 true (2 ^ kr * num_segs) T) as [x Hx].
    apply (transpose_gen_pow2 true kr (Nat.min x kr)); [exact HS|apply Nat.le_min_r|].
    rewrite Hx. apply min_pow2.
  - unfold transpose_plan_gen. destruct (Nat.eqb_spec num_segs 1) as [->|_]; [lia|].
    cbv zeta. change (get_num_batches false (2 ^ kr * num_segs) T) with 1.
    pose proof (pow2_pos kr) as Hp. rewrite Nat.min_l by exact Hp. rewrite Nat.div_1_r.
    eexists. split; [reflexivity|]. cbn [concat]. rewrite app_nil_r. unfold transpose_spec.
    apply flat_map_ext. intros i. apply map_ext. intros j. f_equal. f_equal. lia.
Qed.

Theorem transpose_plan_single_segment conc rows T : transpose_plan conc rows 1 T = Done [].
Proof. reflexivity. Qed.

(* the code before the repair: more batches than rows => zero rows per batch => nothing is written *)
Theorem transpose_unbounded_refuted : exists rows segs T p,
  T <= 64 /\ 1024 <= rows * segs /\ transpose_plan_unbounded true rows segs T = Done p /\ plan_cells p = [] /\
  transpose_spec rows segs <> [].
Proof.
  exists 64, 16, 33, (repeat [] 128).
  split; [lia|]. split; [apply Nat.leb_le; vm_compute; reflexivity|].
  split; [vm_compute; reflexivity|]. split; [vm_compute; reflexivity|].
  intros H. apply (f_equal (@length _)) in H. vm_compute in H. discriminate.
Qed.

Theorem transpose_unbounded_ok kr num_segs T : 2 <= num_segs ->
  get_num_batches true (2 ^ kr * num_segs) T <= 2 ^ kr ->
  exists p, transpose_plan_unbounded true (2 ^ kr) num_segs T = Done p /\ concat p = transpose_spec (2 ^ kr) num_segs.
Proof.
  intros HS Hle. destruct (get_num_batches_pow2 true (2 ^ kr * num_segs) T) as [x Hx].
  rewrite Hx in Hle. apply Nat.pow_le_mono_r_iff in Hle; [|lia].
  apply (transpose_gen_pow2 false kr x); assumption.
Qed.

(* every result cell is written exactly once: the cells written, in batch order, are 0, 1, ..., rows*segs - 1 *)
Lemma transpose_spec_cells rows segs : map (fun t => fst (fst t)) (transpose_spec rows segs) = seq 0 (rows * segs).
Proof.
  unfold transpose_spec. rewrite <- flat_map_map_comm.
  assert (E : forall n, flat_map (fun x => [x]) (seq 0 n) = seq 0 n).
  { intros n. generalize 0. induction n as [|n IH]; intros o; cbn; [reflexivity|]. rewrite IH. reflexivity. }
  rewrite <- (E (rows * segs)), flat_map_seq_mul.
  apply flat_map_ext. intros r. rewrite map_map. cbn [fst].
  induction (seq 0 segs) as [|j l IH]; cbn; [reflexivity|]. rewrite IH. f_equal. lia.
Qed.

Corollary transpose_plan_cells kr num_segs T conc : 2 <= num_segs ->
  exists p, transpose_plan conc (2 ^ kr) num_segs T = Done p /\ plan_cells p = seq 0 (2 ^ kr * num_segs).
Proof.
  intros HS. destruct (transpose_plan_spec kr num_segs T conc HS) as (p & E & Hp).
  exists p. split; [exact E|]. rewrite <- transpose_spec_cells, <- Hp. unfold plan_cells.
  rewrite flat_map_concat_map, concat_map. reflexivity.
Qed.

(* ================================================================ (5) constraint-evaluation fragments *)
Lemma e8k : 8 * 1024 = 2 ^ 13.
Proof. reflexivity. Qed.

Lemma fragment_plan_pow2 (conc : bool) k a T :
  (if conc then if 8 * 1024 <=? 2 ^ k then npo2 T else 1 else 1) = 2 ^ a -> a + 4 <= k ->
  exists cs, fragment_plan conc (2 ^ k) T = Done cs /\ covers (2 ^ k) cs /\ Forall (fun c => snd c = 2 ^ (k - a)) cs.
Proof.
  intros Hnf Ha. unfold fragment_plan. cbv zeta. rewrite Hnf.
  assert (Hm : a <= k) by lia. rewrite (pow2_split k a Hm).
  pose proof (pow2_pos a) as Hp1. pose proof (pow2_pos (k - a)) as Hp2.
  assert (H16 : 16 <= 2 ^ (k - a)).
  { change 16 with (2 ^ 4). apply Nat.pow_le_mono_r; [discriminate|lia]. }
  set (nf := 2 ^ a) in *. set (fs := 2 ^ (k - a)) in *.
  assert (E1 : nf * fs / nf = fs) by (rewrite Nat.mul_comm; apply Nat.div_mul; lia). rewrite E1.
  destruct (Nat.ltb_spec fs 16) as [Hlt|_]; [lia|].
  destruct (par_chunks_spec (nf * fs) fs) as (cs & E & C & _); [lia|].
  rewrite par_chunks_exact in E |- * by lia. inversion E; subst cs.
  rewrite map_length, seq_length, Nat.eqb_refl.
  eexists. split; [reflexivity|]. split; [exact C|].
  apply Forall_forall. intros c Hc. apply in_map_iff in Hc. destruct Hc as (i & <- & _). reflexivity.
Qed.

Theorem fragment_plan_spec conc k T : 4 <= k -> (conc = true -> 13 <= k -> npo2 T * 16 <= 2 ^ k) ->
  exists cs, fragment_plan conc (2 ^ k) T = Done cs /\ covers (2 ^ k) cs /\ (exists sz, Forall (fun c => snd c = sz) cs).
Proof.
  intros Hk Hc.
  assert (H : exists a, (if conc then if 8 * 1024 <=? 2 ^ k then npo2 T else 1 else 1) = 2 ^ a /\ a + 4 <= k).
  { destruct conc; [|exists 0; split; [reflexivity|lia]].
    rewrite e8k. destruct (Nat.leb_spec (2 ^ 13) (2 ^ k)) as [Hle|_]; [|exists 0; split; [reflexivity|lia]].
    apply Nat.pow_le_mono_r_iff in Hle; [|lia].
    exists (Nat.log2_up T). split; [reflexivity|].
    specialize (Hc eq_refl Hle). unfold npo2 in Hc. change 16 with (2 ^ 4) in Hc. rewrite <- Nat.pow_add_r in Hc.
    apply Nat.pow_le_mono_r_iff in Hc; [exact Hc|lia]. }
  destruct H as (a & Hnf & Ha).
  destruct (fragment_plan_pow2 conc k a T Hnf Ha) as (cs & E & C & Fa).
  exists cs. split; [exact E|]. split; [exact C|]. exists (2 ^ (k - a)). exact Fa.
Qed.

Corollary fragment_plan_T_le_64 conc k T : 4 <= k -> T <= 64 ->
  exists cs, fragment_plan conc (2 ^ k) T = Done cs /\ covers (2 ^ k) cs.
Proof.
  intros Hk HT. destruct (fragment_plan_spec conc k T Hk) as (cs & E & C & _).
  - intros _ H13. pose proof (npo2_le_64 T HT) as Hn.
    apply Nat.le_trans with (2 ^ 10); [change (2 ^ 10) with (64 * 16); lia|].
    apply Nat.pow_le_mono_r; [discriminate|lia].
  - exists cs. split; assumption.
Qed.

(* more (rounded-up) threads than ce_domain_size / 16: the MIN_FRAGMENT_SIZE assertion fires *)
Example fragment_plan_panics : fragment_plan true (2 ^ 13) 1025 = Panic.
Proof. vm_compute. reflexivity. Qed.

Example fragment_plan_8192_T3 :
  fragment_plan true (2 ^ 13) 3 = Done (map (fun k => (k * 2048, 2048)) [0; 1; 2; 3]).
Proof. vm_compute. reflexivity. Qed.

(* ================================================================ (6) proof-of-work nonce *)
Section NonceProofs.
Variable leading_zeros : nat -> nat.

Lemma pow_ok_verifier g x : verifier_pow_accepts leading_zeros g x = pow_ok leading_zeros g x.
Proof. unfold verifier_pow_accepts, pow_ok. rewrite Nat.ltb_antisym, negb_involutive. reflexivity. Qed.

Theorem nonce_any_spec g order x : find_any_sched leading_zeros g order = Some x ->
  In x order /\ pow_ok leading_zeros g x = true /\ verifier_pow_accepts leading_zeros g x = true.
Proof.
  unfold find_any_sched. intros H. apply find_some in H. destruct H as [Hin Hok].
  split; [exact Hin|]. split; [exact Hok|]. rewrite pow_ok_verifier. exact Hok.
Qed.

Theorem nonce_none_spec g order : find_any_sched leading_zeros g order = None ->
  forall x, In x order -> verifier_pow_accepts leading_zeros g x = false.
Proof.
  unfold find_any_sched. intros H x Hin. rewrite pow_ok_verifier. exact (find_none _ _ H x Hin).
Qed.

Theorem nonce_serial_is_one_schedule g bound :
  find_first leading_zeros g bound = find_any_sched leading_zeros g (seq 1 bound).
Proof. reflexivity. Qed.

Theorem nonce_grinding_zero_any x : verifier_pow_accepts leading_zeros 0 x = true.
Proof. unfold verifier_pow_accepts. destruct (Nat.ltb_spec (leading_zeros x) 0); [lia|reflexivity]. Qed.
End NonceProofs.

(* the ONLY legitimate source of run-to-run difference: which satisfying nonce find_any reports *)
Theorem nonce_schedules_may_differ : exists lz g o1 o2 x y,
  find_any_sched lz g o1 = Some x /\ find_any_sched lz g o2 = Some y /\ x <> y /\ Permutation o1 o2.
Proof.
  exists (fun _ => 0), 0, [1; 2], [2; 1], 1, 2.
  split; [reflexivity|]. split; [reflexivity|]. split; [discriminate|]. apply perm_swap.
Qed.
