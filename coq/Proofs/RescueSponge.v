(* C11 — encoding / sponge theorems of the Rescue hashers and of the BLAKE3/SHA3 wrappers (all non-probabilistic):
   totality of hash(bytes), injectivity of the byte -> element encoding, hash_elements over extension elements =
   hashing the flattening, merge = hash_elements of the concatenation, injectivity of merge_with_int's state in the integer. *)
From VBase Require Import MachInt.
From VModel Require Import RescueConsts Rescue ByteHash.
Open Scope Z_scope.

Definition is_byte (b : Z) : Prop := 0 <= b < 256.
Definition bytes (l : list Z) : Prop := Forall is_byte l.

(* ------------------------------------------------------------------------------------------------ chunks *)
Lemma chunks7_nil fuel : chunks7 fuel [] = [].
Proof. destruct fuel; reflexivity. Qed.

Lemma chunks7_concat : forall fuel b, (length b <= fuel)%nat -> concat (chunks7 fuel b) = b.
Proof.
  induction fuel as [|f IH]; intros b Hb.
  - destruct b; [reflexivity | simpl in Hb; lia].
  - destruct b as [|x r]; [reflexivity|].
    cbn [chunks7 concat]. rewrite IH.
    + apply firstn_skipn.
    + rewrite skipn_length. simpl length in *. lia.
Qed.

(* a well-formed chunk list: every chunk but the last has exactly 7 bytes, the last one 1..7 *)
Fixpoint wf_chunks (cs : list (list Z)) : Prop :=
  match cs with
  | [] => True
  | [c] => (1 <= length c <= 7)%nat /\ bytes c
  | c :: r => length c = 7%nat /\ bytes c /\ wf_chunks r
  end.

Lemma wf_cons2 c c' r : wf_chunks (c :: c' :: r) = (length c = 7%nat /\ bytes c /\ wf_chunks (c' :: r)).
Proof. reflexivity. Qed.

Lemma bytes_firstn n l : bytes l -> bytes (firstn n l).
Proof.
  unfold bytes. revert l. induction n as [|n IH]; intros [|x r] H; simpl; try constructor.
  - inversion H; assumption.
  - apply IH. inversion H; assumption.
Qed.
Lemma bytes_skipn n l : bytes l -> bytes (skipn n l).
Proof.
  unfold bytes. revert l. induction n as [|n IH]; intros [|x r] H; simpl; auto.
  apply IH. inversion H; assumption.
Qed.

Lemma chunks7_wf : forall fuel b, (length b <= fuel)%nat -> bytes b -> wf_chunks (chunks7 fuel b).
Proof.
  induction fuel as [|f IH]; intros b Hb HB.
  - destruct b; exact I.
  - destruct b as [|x r]; [exact I|].
    cbn [chunks7].
    assert (Hrec : wf_chunks (chunks7 f (skipn 7 (x :: r)))).
    { apply IH; [rewrite skipn_length; simpl length in *; lia | apply bytes_skipn; exact HB]. }
    destruct (skipn 7 (x :: r)) as [|y t] eqn:Hs.
    + rewrite chunks7_nil. cbn [wf_chunks]. split; [|apply bytes_firstn; exact HB].
      rewrite firstn_length. simpl length. lia.
    + assert (Hlen : (7 < length (x :: r))%nat).
      { assert (H := skipn_length 7 (x :: r)). rewrite Hs in H. simpl length in H. simpl length. lia. }
      destruct f as [|f']; [simpl length in *; lia|].
      cbn [chunks7] in Hrec |- *. rewrite wf_cons2.
      split; [rewrite firstn_length; lia|]. split; [apply bytes_firstn; exact HB | exact Hrec].
Qed.

(* ------------------------------------------------------------------------------------------------ totality *)
Lemma encode_wf_total p : forall cs, wf_chunks cs -> exists es, encode_chunks p cs = Some es /\ length es = length cs.
Proof.
  induction cs as [|c r IH]; intros H.
  - exists []. split; reflexivity.
  - destruct r as [|c' r'].
    + eexists. split; reflexivity.
    + rewrite wf_cons2 in H. destruct H as (Hl & _ & Hr).
      destruct (IH Hr) as (es & He & Hlen).
      exists (of_le_bytes c mod p :: es). split.
      * change (encode_chunks p (c :: c' :: r')) with
          (if Nat.eqb (length c) 7 then match encode_chunks p (c' :: r') with Some es => Some (of_le_bytes c mod p :: es) | None => None end else None).
        rewrite Hl, He. reflexivity.
      * simpl length in *. lia.
Qed.

(* hash_total: hashing a byte string never panics, for EVERY length (0, multiples of 7, multiples of the rate, long) *)
Theorem bytes_to_elems_total p : forall b, bytes b -> exists es, bytes_to_elems p b = Some es.
Proof.
  intros b HB. unfold bytes_to_elems.
  destruct (encode_wf_total p _ (chunks7_wf (length b) b (le_n _) HB)) as (es & He & _). eauto.
Qed.

Theorem hash_total_rp64 : forall b, bytes b -> rp64_hash b <> None.
Proof. intros b HB. unfold rp64_hash, hash_bytes_with. destruct (bytes_to_elems_total M64 b HB) as (es & ->). discriminate. Qed.
Theorem hash_total_rp62 : forall b, bytes b -> rp62_hash b <> None.
Proof. intros b HB. unfold rp62_hash, hash_bytes_with. destruct (bytes_to_elems_total M62 b HB) as (es & ->). discriminate. Qed.
Theorem hash_total_jive : forall b, bytes b -> jive_hash b <> None.
Proof. intros b HB. unfold jive_hash, hash_bytes_with. destruct (bytes_to_elems_total M64 b HB) as (es & ->). discriminate. Qed.

(* ------------------------------------------------------------------------------------------------ injectivity *)
Lemma of_le_bytes_range : forall l, bytes l -> 0 <= of_le_bytes l < 256 ^ Z.of_nat (length l).
Proof.
  induction l as [|b r IH]; intros H.
  - simpl. lia.
  - inversion H as [|? ? Hb Hr]; subst. specialize (IH Hr). unfold is_byte in Hb.
    cbn [of_le_bytes length]. rewrite Nat2Z.inj_succ, Z.pow_succ_r by lia. nia.
Qed.

Lemma of_le_bytes_inj : forall l1 l2, bytes l1 -> bytes l2 -> length l1 = length l2 ->
  of_le_bytes l1 = of_le_bytes l2 -> l1 = l2.
Proof.
  induction l1 as [|a r1 IH]; intros [|b r2] H1 H2 Hl He; try discriminate; [reflexivity|].
  inversion H1 as [|? ? Ha Hr1]; inversion H2 as [|? ? Hb Hr2]; subst.
  unfold is_byte in *. cbn [of_le_bytes] in He.
  assert (a = b) by lia. subst b. f_equal. apply IH; auto. lia.
Qed.

Lemma of_le_bytes_app1_pos : forall l, bytes l -> 1 <= of_le_bytes (l ++ [1]).
Proof.
  induction l as [|a r IH]; intros H; [simpl; lia|].
  inversion H as [|? ? Ha Hr]; subst. unfold is_byte in Ha. specialize (IH Hr).
  cbn [app of_le_bytes]. lia.
Qed.

(* the appended 1 byte makes the encoding of the last chunk injective in the chunk INCLUDING its length:
   trailing zero bytes and different lengths give different integers *)
Lemma of_le_bytes_app1_inj : forall l1 l2, bytes l1 -> bytes l2 ->
  of_le_bytes (l1 ++ [1]) = of_le_bytes (l2 ++ [1]) -> l1 = l2.
Proof.
  induction l1 as [|a r1 IH]; intros [|b r2] H1 H2 He.
  - reflexivity.
  - exfalso. inversion H2 as [|? ? Hb Hr2]; subst. unfold is_byte in Hb.
    pose proof (of_le_bytes_app1_pos r2 Hr2). cbn [app of_le_bytes] in He. lia.
  - exfalso. inversion H1 as [|? ? Ha Hr1]; subst. unfold is_byte in Ha.
    pose proof (of_le_bytes_app1_pos r1 Hr1). cbn [app of_le_bytes] in He. lia.
  - inversion H1 as [|? ? Ha Hr1]; inversion H2 as [|? ? Hb Hr2]; subst.
    unfold is_byte in *. cbn [app of_le_bytes] in He.
    assert (a = b) by lia. subst b. f_equal. apply IH; auto. lia.
Qed.

Lemma bytes_app1 l : bytes l -> bytes (l ++ [1]).
Proof. intros H. apply Forall_app. split; [exact H|]. constructor; [unfold is_byte; lia | constructor]. Qed.

Section Inj.
  Variable p : Z.
  Hypothesis Hp : 2 ^ 57 <= p.      (* both Rescue fields: every 7-byte chunk (+ marker byte) is below the modulus *)

  Lemma chunk_small c : bytes c -> length c = 7%nat -> of_le_bytes c mod p = of_le_bytes c.
  Proof.
    intros Hb Hl. apply Z.mod_small. pose proof (of_le_bytes_range c Hb) as H. rewrite Hl in H.
    change (256 ^ Z.of_nat 7) with (2 ^ 56) in H. lia.
  Qed.
  Lemma last_small c : bytes c -> (length c <= 7)%nat -> of_le_bytes (c ++ [1]) mod p = of_le_bytes (c ++ [1]).
  Proof.
    intros Hb Hl. apply Z.mod_small. pose proof (of_le_bytes_range (c ++ [1]) (bytes_app1 c Hb)) as H.
    rewrite app_length in H. simpl length in H.
    assert (256 ^ Z.of_nat (length c + 1) <= 256 ^ 8) by (apply Z.pow_le_mono_r; lia).
    (* sharper: the top byte is 1, so the value is below 2 * 256^7 *)
    assert (Hs : of_le_bytes (c ++ [1]) < 2 * 256 ^ Z.of_nat (length c)).
    { clear H H0 Hl. induction c as [|a r IH]; [simpl; lia|].
      inversion Hb as [|? ? Ha Hr]; subst. unfold is_byte in Ha. specialize (IH Hr).
      cbn [app of_le_bytes length]. rewrite Nat2Z.inj_succ, Z.pow_succ_r by lia. lia. }
    assert (256 ^ Z.of_nat (length c) <= 256 ^ 7) by (apply Z.pow_le_mono_r; lia).
    change (256 ^ 7) with (2 ^ 56) in *. lia.
  Qed.

  Lemma encode_inj : forall cs1 cs2 es, wf_chunks cs1 -> wf_chunks cs2 ->
    encode_chunks p cs1 = Some es -> encode_chunks p cs2 = Some es -> cs1 = cs2.
  Proof.
    induction cs1 as [|c1 r1 IH]; intros cs2 es W1 W2 E1 E2.
    - simpl in E1. injection E1 as <-. destruct cs2 as [|c2 [|c2' r2]]; [reflexivity | discriminate |].
      change (encode_chunks p (c2 :: c2' :: r2)) with
        (if Nat.eqb (length c2) 7 then match encode_chunks p (c2' :: r2) with Some es => Some (of_le_bytes c2 mod p :: es) | None => None end else None) in E2.
      destruct (Nat.eqb (length c2) 7); [|discriminate]. destruct (encode_chunks p (c2' :: r2)); discriminate.
    - destruct r1 as [|c1' r1'].
      + (* cs1 = [c1]: a single (last) chunk *)
        cbn [encode_chunks] in E1. injection E1 as <-.
        destruct cs2 as [|c2 [|c2' r2]]; [discriminate | |].
        * cbn [encode_chunks] in E2. injection E2 as E2.
          cbn [wf_chunks] in W1, W2. destruct W1 as (L1 & B1), W2 as (L2 & B2).
          rewrite !last_small in E2 by (auto; lia). f_equal. symmetry. apply of_le_bytes_app1_inj; auto.
        * exfalso. rewrite wf_cons2 in W2. destruct W2 as (L2 & B2 & W2).
          destruct (encode_wf_total p _ W2) as (es' & He' & Hl').
          change (encode_chunks p (c2 :: c2' :: r2)) with
            (if Nat.eqb (length c2) 7 then match encode_chunks p (c2' :: r2) with Some es => Some (of_le_bytes c2 mod p :: es) | None => None end else None) in E2.
          rewrite L2, He' in E2. cbn in E2. injection E2 as _ E2. subst es'. simpl in Hl'. lia.
      + (* cs1 = c1 :: c1' :: r1' *)
        rewrite wf_cons2 in W1. destruct W1 as (L1 & B1 & W1).
        destruct (encode_wf_total p _ W1) as (es1 & He1 & Hl1).
        change (encode_chunks p (c1 :: c1' :: r1')) with
          (if Nat.eqb (length c1) 7 then match encode_chunks p (c1' :: r1') with Some es => Some (of_le_bytes c1 mod p :: es) | None => None end else None) in E1.
        rewrite L1, He1 in E1. cbn in E1. injection E1 as <-.
        destruct cs2 as [|c2 [|c2' r2]]; [discriminate | |].
        * exfalso. cbn [encode_chunks] in E2. injection E2 as _ E2. subst es1. simpl in Hl1. lia.
        * rewrite wf_cons2 in W2. destruct W2 as (L2 & B2 & W2).
          destruct (encode_wf_total p _ W2) as (es2 & He2 & Hl2).
          change (encode_chunks p (c2 :: c2' :: r2)) with
            (if Nat.eqb (length c2) 7 then match encode_chunks p (c2' :: r2) with Some es => Some (of_le_bytes c2 mod p :: es) | None => None end else None) in E2.
          rewrite L2, He2 in E2. cbn in E2. injection E2 as E2a E2b. subst es2.
          rewrite !chunk_small in E2a by auto.
          f_equal.
          -- symmetry. apply of_le_bytes_inj; auto. lia.
          -- eapply IH; eauto.
  Qed.

  (* bytes_encoding_inj: two byte strings absorbed as the same element sequence are equal -- inputs that differ only
     in length or in trailing zero bytes are separated BEFORE the permutation (all a non-probabilistic claim can say) *)
  Theorem bytes_encoding_inj : forall b1 b2 es, bytes b1 -> bytes b2 ->
    bytes_to_elems p b1 = Some es -> bytes_to_elems p b2 = Some es -> b1 = b2.
  Proof.
    intros b1 b2 es H1 H2 E1 E2. unfold bytes_to_elems in *.
    assert (chunks7 (length b1) b1 = chunks7 (length b2) b2) as Hc.
    { eapply encode_inj; eauto; apply chunks7_wf; auto. }
    rewrite <- (chunks7_concat (length b1) b1 (le_n _)), <- (chunks7_concat (length b2) b2 (le_n _)), Hc. reflexivity.
  Qed.
End Inj.

Lemma M64_big : 2 ^ 57 <= M64. Proof. unfold M64. lia. Qed.
Lemma M62_big : 2 ^ 57 <= M62. Proof. unfold M62. lia. Qed.

(* ------------------------------------------------------------------------------------------------ flattening *)
Lemma concat_singletons {A} (l : list A) : concat (map (fun c => [c]) l) = l.
Proof. induction l; simpl; congruence. Qed.

(* hash_elements over extension elements = hash_elements over the base elements of their flattening *)
Theorem hash_elements_flatten_rp64 : forall xs, rp64_hash_elements xs = rp64_hash_elements (map (fun c => [c]) (flatten xs)).
Proof. intros. unfold rp64_hash_elements. unfold flatten at 2. now rewrite concat_singletons. Qed.
Theorem hash_elements_flatten_rp62 : forall xs, rp62_hash_elements xs = rp62_hash_elements (map (fun c => [c]) (flatten xs)).
Proof. intros. unfold rp62_hash_elements. unfold flatten at 2. now rewrite concat_singletons. Qed.
Theorem hash_elements_flatten_jive : forall xs, jive_hash_elements xs = jive_hash_elements (map (fun c => [c]) (flatten xs)).
Proof. intros. unfold jive_hash_elements. unfold flatten at 2. now rewrite concat_singletons. Qed.

(* hash(bytes) is hash_elements of the encoded chunks (the same sponge, the same capacity convention) *)
Theorem hash_is_hash_elements_rp64 : forall b es, bytes_to_elems M64 b = Some es ->
  rp64_hash b = Some (rp64_hash_elements (map (fun c => [c]) es)).
Proof. intros b es H. unfold rp64_hash, hash_bytes_with, rp64_hash_elements, flatten. now rewrite H, concat_singletons. Qed.
Theorem hash_is_hash_elements_rp62 : forall b es, bytes_to_elems M62 b = Some es ->
  rp62_hash b = Some (rp62_hash_elements (map (fun c => [c]) es)).
Proof. intros b es H. unfold rp62_hash, hash_bytes_with, rp62_hash_elements, flatten. now rewrite H, concat_singletons. Qed.
Theorem hash_is_hash_elements_jive : forall b es, bytes_to_elems M64 b = Some es ->
  jive_hash b = Some (jive_hash_elements (map (fun c => [c]) es)).
Proof. intros b es H. unfold jive_hash, hash_bytes_with, jive_hash_elements, flatten. now rewrite H, concat_singletons. Qed.

(* ------------------------------------------------------------------------------------------------ merge *)
Section Merge.
  Variable p : Z.
  Variable perm : list Z -> list Z.

  Ltac msmall := repeat match goal with |- context[(0 + ?a) mod p] => rewrite (Z.mod_small (0 + a) p) by lia end.

  (* Rp64_256 layout (rate 4..12, count in 0): merge(a, b) = hash_elements(a ++ b) for canonical digests *)
  Lemma merge_is_hash_concat_64 a0 a1 a2 a3 b0 b1 b2 b3 :
    Forall (fun x => 0 <= x < p) [a0; a1; a2; a3; b0; b1; b2; b3] ->
    merge_cnt p (mkSponge 12 4 8 0 4 perm) [a0; a1; a2; a3] [b0; b1; b2; b3]
    = hash_elements_cnt p (mkSponge 12 4 8 0 4 perm) [a0; a1; a2; a3; b0; b1; b2; b3].
  Proof.
    intros H. repeat match goal with H : Forall _ (_ :: _) |- _ => inversion H; clear H; subst end.
    unfold merge_cnt, merge_state_cnt, hash_elements_cnt.
    cbv [absorb sp_rate_start sp_rate_width sp_cap_idx sp_width sp_perm sp_digest_start set_range zeros repeat app length
         combine seq fold_left upd fst snd Nat.add Nat.modulo Nat.divmod Nat.eqb Nat.ltb Nat.leb fadd Z.of_nat Pos.of_succ_nat Pos.succ].
    msmall. reflexivity.
  Qed.

  (* Rp62_248 layout (rate 0..8, count in 11) *)
  Lemma merge_is_hash_concat_62 a0 a1 a2 a3 b0 b1 b2 b3 :
    Forall (fun x => 0 <= x < p) [a0; a1; a2; a3; b0; b1; b2; b3] ->
    merge_cnt p (mkSponge 12 0 8 11 0 perm) [a0; a1; a2; a3] [b0; b1; b2; b3]
    = hash_elements_cnt p (mkSponge 12 0 8 11 0 perm) [a0; a1; a2; a3; b0; b1; b2; b3].
  Proof.
    intros H. repeat match goal with H : Forall _ (_ :: _) |- _ => inversion H; clear H; subst end.
    unfold merge_cnt, merge_state_cnt, hash_elements_cnt.
    cbv [absorb sp_rate_start sp_rate_width sp_cap_idx sp_width sp_perm sp_digest_start set_range zeros repeat app length
         combine seq fold_left upd fst snd Nat.add Nat.modulo Nat.divmod Nat.eqb Nat.ltb Nat.leb fadd Z.of_nat Pos.of_succ_nat Pos.succ].
    msmall. reflexivity.
  Qed.
End Merge.

Definition digest_ok (p : Z) (d : list Z) : Prop := length d = 4%nat /\ Forall (fun x => 0 <= x < p) d.

Lemma digest4 p d : digest_ok p d -> exists a0 a1 a2 a3, d = [a0; a1; a2; a3].
Proof. intros (Hl & _). destruct d as [|a0 [|a1 [|a2 [|a3 [|? ?]]]]]; try discriminate. eauto. Qed.

Theorem merge_is_hash_concat_rp64 : forall a b, digest_ok M64 a -> digest_ok M64 b ->
  rp64_merge a b = rp64_hash_elements (map (fun c => [c]) (a ++ b)).
Proof.
  intros a b Ha Hb. destruct (digest4 _ _ Ha) as (a0 & a1 & a2 & a3 & ->). destruct (digest4 _ _ Hb) as (b0 & b1 & b2 & b3 & ->).
  unfold rp64_hash_elements, flatten. rewrite concat_singletons.
  apply (merge_is_hash_concat_64 M64 rp64_permutation).
  destruct Ha as (_ & Ha), Hb as (_ & Hb). change (Forall (fun x => 0 <= x < M64) ([a0; a1; a2; a3] ++ [b0; b1; b2; b3])). apply Forall_app. split; assumption.
Qed.
Theorem merge_is_hash_concat_rp62 : forall a b, digest_ok M62 a -> digest_ok M62 b ->
  rp62_merge a b = rp62_hash_elements (map (fun c => [c]) (a ++ b)).
Proof.
  intros a b Ha Hb. destruct (digest4 _ _ Ha) as (a0 & a1 & a2 & a3 & ->). destruct (digest4 _ _ Hb) as (b0 & b1 & b2 & b3 & ->).
  unfold rp62_hash_elements, flatten. rewrite concat_singletons.
  apply (merge_is_hash_concat_62 M62 rp62_permutation).
  destruct Ha as (_ & Ha), Hb as (_ & Hb). change (Forall (fun x => 0 <= x < M62) ([a0; a1; a2; a3] ++ [b0; b1; b2; b3])). apply Forall_app. split; assumption.
Qed.

(* ------------------------------------------------------------------------------------------------ merge_with_int *)
Section Mwi.
  Variable p : Z.
  Hypothesis Hp : 2 ^ 57 <= p.

  Lemma split_at_modulus v1 v2 : 0 <= v1 < 2 ^ 64 -> 0 <= v2 < 2 ^ 64 ->
    v1 mod p = v2 mod p -> (v1 / p) mod p = (v2 / p) mod p -> v1 = v2.
  Proof.
    intros H1 H2 Hm Hd.
    assert (Hpp : 2 ^ 64 < p * p) by nia.
    assert (forall v, 0 <= v < 2 ^ 64 -> (v / p) mod p = v / p) as Hs.
    { intros v Hv. apply Z.mod_small. split; [apply Z.div_pos; lia|]. apply Z.div_lt_upper_bound; lia. }
    rewrite !Hs in Hd by assumption.
    rewrite (Z.div_mod v1 p), (Z.div_mod v2 p) by lia. congruence.
  Qed.

  Lemma small56 : 5 mod p = 5 /\ 6 mod p = 6.
  Proof. split; apply Z.mod_small; lia. Qed.

  Ltac fin v1 v2 :=
    destruct small56 as (E5 & E6); rewrite ?E5, ?E6 in *;
    destruct (Z.ltb_spec v1 p), (Z.ltb_spec v2 p);
    match goal with H : _ = _ :> list Z |- _ => cbv [upd] in H; injection H; intros end; try lia;
    [ rewrite <- (Z.mod_small v1 p), <- (Z.mod_small v2 p) by lia; assumption
    | apply split_at_modulus; auto ].

  (* the state absorbed by merge_with_int is injective in the 64-bit integer (values below / at / above the modulus) *)
  Lemma mwi_inj_64 s0 s1 s2 s3 v1 v2 : 0 <= v1 < 2 ^ 64 -> 0 <= v2 < 2 ^ 64 ->
    mwi_state_cnt p (mkSponge 12 4 8 0 4 (fun s => s)) [s0; s1; s2; s3] v1 =
    mwi_state_cnt p (mkSponge 12 4 8 0 4 (fun s => s)) [s0; s1; s2; s3] v2 -> v1 = v2.
  Proof.
    intros H1 H2.
    cbv [mwi_state_cnt sp_rate_start sp_rate_width sp_cap_idx sp_width set_range zeros repeat length combine seq fold_left fst snd Nat.add].
    intros H. fin v1 v2.
  Qed.
  Lemma mwi_inj_62 s0 s1 s2 s3 v1 v2 : 0 <= v1 < 2 ^ 64 -> 0 <= v2 < 2 ^ 64 ->
    mwi_state_cnt p (mkSponge 12 0 8 11 0 (fun s => s)) [s0; s1; s2; s3] v1 =
    mwi_state_cnt p (mkSponge 12 0 8 11 0 (fun s => s)) [s0; s1; s2; s3] v2 -> v1 = v2.
  Proof.
    intros H1 H2.
    cbv [mwi_state_cnt sp_rate_start sp_rate_width sp_cap_idx sp_width set_range zeros repeat length combine seq fold_left fst snd Nat.add].
    intros H. fin v1 v2.
  Qed.
  Lemma mwi_inj_jive s0 s1 s2 s3 v1 v2 : 0 <= v1 < 2 ^ 64 -> 0 <= v2 < 2 ^ 64 ->
    mwi_state_jive p [s0; s1; s2; s3] v1 = mwi_state_jive p [s0; s1; s2; s3] v2 -> v1 = v2.
  Proof.
    intros H1 H2.
    cbv [mwi_state_jive set_range zeros repeat length combine seq fold_left fst snd Nat.add].
    intros H. fin v1 v2.
  Qed.
End Mwi.

(* the state does not depend on the permutation field of the sponge record *)
Lemma mwi_state_perm_irrel p w rs rw ci ds f g seed v :
  mwi_state_cnt p (mkSponge w rs rw ci ds f) seed v = mwi_state_cnt p (mkSponge w rs rw ci ds g) seed v.
Proof. reflexivity. Qed.

Theorem merge_with_int_encoding_inj_rp64 : forall seed v1 v2, length seed = 4%nat -> 0 <= v1 < 2 ^ 64 -> 0 <= v2 < 2 ^ 64 ->
  mwi_state_cnt M64 rp64_sponge seed v1 = mwi_state_cnt M64 rp64_sponge seed v2 -> v1 = v2.
Proof.
  intros seed v1 v2 Hl H1 H2. destruct seed as [|s0 [|s1 [|s2 [|s3 [|? ?]]]]]; try discriminate.
  unfold rp64_sponge. rewrite !(mwi_state_perm_irrel M64 12 4 8 0 4 rp64_permutation (fun s => s)).
  apply mwi_inj_64; auto. apply M64_big.
Qed.
Theorem merge_with_int_encoding_inj_rp62 : forall seed v1 v2, length seed = 4%nat -> 0 <= v1 < 2 ^ 64 -> 0 <= v2 < 2 ^ 64 ->
  mwi_state_cnt M62 rp62_sponge seed v1 = mwi_state_cnt M62 rp62_sponge seed v2 -> v1 = v2.
Proof.
  intros seed v1 v2 Hl H1 H2. destruct seed as [|s0 [|s1 [|s2 [|s3 [|? ?]]]]]; try discriminate.
  unfold rp62_sponge. rewrite !(mwi_state_perm_irrel M62 12 0 8 11 0 rp62_permutation (fun s => s)).
  apply mwi_inj_62; auto. apply M62_big.
Qed.
Theorem merge_with_int_encoding_inj_jive : forall seed v1 v2, length seed = 4%nat -> 0 <= v1 < 2 ^ 64 -> 0 <= v2 < 2 ^ 64 ->
  mwi_state_jive M64 seed v1 = mwi_state_jive M64 seed v2 -> v1 = v2.
Proof.
  intros seed v1 v2 Hl H1 H2. destruct seed as [|s0 [|s1 [|s2 [|s3 [|? ?]]]]]; try discriminate.
  apply mwi_inj_jive; auto. apply M64_big.
Qed.
(* merge_with_int is the digest of the permuted state above (definitional) *)
Lemma merge_with_int_is_state_rp64 seed v :
  rp64_merge_with_int seed v = digest_of rp64_sponge (rp64_permutation (mwi_state_cnt M64 rp64_sponge seed v)).
Proof. reflexivity. Qed.
Lemma merge_with_int_is_state_rp62 seed v :
  rp62_merge_with_int seed v = digest_of rp62_sponge (rp62_permutation (mwi_state_cnt M62 rp62_sponge seed v)).
Proof. reflexivity. Qed.
Lemma merge_with_int_is_state_jive seed v :
  jive_merge_with_int seed v = jive_sum M64 (mwi_state_jive M64 seed v) (jive_permutation (mwi_state_jive M64 seed v)).
Proof. reflexivity. Qed.

(* ------------------------------------------------------------------------------------------------ byte hashers *)
Lemma to_le_bytes_inj n v1 v2 : 0 <= v1 < 256 ^ Z.of_nat n -> 0 <= v2 < 256 ^ Z.of_nat n ->
  to_le_bytes n v1 = to_le_bytes n v2 -> v1 = v2.
Proof. intros H1 H2 H. rewrite <- (of_to_le_bytes n v1 H1), <- (of_to_le_bytes n v2 H2), H. reflexivity. Qed.

(* 40-byte (Blake3_256, Sha3_256: |seed| = 32) and 32-byte (Blake3_192: |seed| = 24) layouts *)
Theorem msg_merge_with_int_inj : forall seed v1 v2, 0 <= v1 < 2 ^ 64 -> 0 <= v2 < 2 ^ 64 ->
  msg_merge_with_int seed v1 = msg_merge_with_int seed v2 -> v1 = v2.
Proof.
  intros seed v1 v2 H1 H2 H. unfold msg_merge_with_int in H. apply app_inv_head in H.
  apply (to_le_bytes_inj 8); auto.
Qed.
Theorem msg_merge_with_int_length : forall seed v, length (msg_merge_with_int seed v) = (length seed + 8)%nat.
Proof. intros. unfold msg_merge_with_int. rewrite app_length, to_le_bytes_length. reflexivity. Qed.

Theorem msg_merge_is_hash_concat : forall d0 d1, msg_merge d0 d1 = msg_hash (d0 ++ d1).
Proof. reflexivity. Qed.

Theorem msg_elements_flatten : forall n xs, msg_elements n xs = msg_elements n (map (fun c => [c]) (concat xs)).
Proof. intros. unfold msg_elements. now rewrite concat_singletons. Qed.


(* ------------------------------------------------------------------------------------------------ the unrepaired hash()
   Before the C11 repair Rp64_256::hash / Rp62_248::hash tested `i < num_elements - 1` with the IN-BLOCK index i (reset to 0
   after every permutation, rate width 8) instead of the global chunk index.  Panic behaviour of that loop: *)
Fixpoint encode_chunks_unrepaired (p : Z) (n i : nat) (cs : list (list Z)) : option (list Z) :=
  match cs with
  | [] => Some []
  | c :: r =>
      let e := if (i <? n - 1)%nat
               then (if Nat.eqb (length c) 7 then Some (of_le_bytes c mod p) else None)     (* copy_from_slice panics *)
               else Some (of_le_bytes (c ++ [1]) mod p) in
      let i' := if Nat.eqb (S i mod 8) 0 then 0%nat else S i in
      match e, encode_chunks_unrepaired p n i' r with
      | Some v, Some es => Some (v :: es)
      | _, _ => None
      end
  end.
Definition bytes_to_elems_unrepaired (p : Z) (b : list Z) : option (list Z) :=
  let cs := chunks7 (length b) b in encode_chunks_unrepaired p (length cs) 0 cs.

(* hash_total is REFUTED for the unrepaired loop: 57 bytes = 9 chunks, the last one of length 1 (defect F11a) ... *)
Lemma hash_total_unrepaired_refuted : exists b, bytes b /\ bytes_to_elems_unrepaired M64 b = None.
Proof.
  exists (repeat 171 57). split.
  - apply Forall_forall. intros x Hx. apply repeat_spec in Hx. subst. unfold is_byte. lia.
  - vm_compute. reflexivity.
Qed.
(* ... while on at most 8 chunks (<= 56 bytes) the two loops agree (digests of short inputs are unchanged by the repair) *)
Lemma unrepaired_agrees_short : forallb (fun n => match bytes_to_elems_unrepaired M64 (repeat 171 n), bytes_to_elems M64 (repeat 171 n) with
                                              | Some a, Some b => forallb (fun ab => Z.eqb (fst ab) (snd ab)) (combine a b) && Nat.eqb (length a) (length b)
                                              | _, _ => false end) (seq 0 57) = true.
Proof. vm_compute. reflexivity. Qed.

(* ------------------------------------------------------------------------------------------------ Jive padding
   RpJive64_256::hash_elements pads a partial last block with ONE followed by ZEROs and flags it in the capacity.
   The padded sequence (flag, xs ++ 1 :: 0..0) is injective in xs, whatever the elements are. *)
Definition jive_padded (xs : list Z) : bool * list Z :=
  let r := (length xs mod 4)%nat in
  if Nat.eqb r 0 then (false, xs) else (true, xs ++ 1 :: repeat 0 (3 - r)).

Lemma one_zeros_inj : forall a b (u v : list Z), repeat 0 a ++ 1 :: u = repeat 0 b ++ 1 :: v -> u = v.
Proof.
  induction a as [|a IH]; intros [|b] u v H; cbn in H.
  - congruence.
  - discriminate.
  - discriminate.
  - injection H as H. eapply IH; eauto.
Qed.

Lemma pad_inj xs ys a b : xs ++ 1 :: repeat 0 a = ys ++ 1 :: repeat 0 b -> xs = ys.
Proof.
  intros H. apply (f_equal (@rev Z)) in H.
  rewrite !rev_app_distr in H. cbn [rev] in H. rewrite <- !app_assoc in H. cbn [app] in H.
  assert (R0 : forall n, rev (repeat 0 n) = repeat 0 n).
  { induction n as [|n IHn]; [reflexivity|]. cbn [repeat rev]. rewrite IHn.
    clear. induction n; cbn; congruence. }
  rewrite !R0 in H. apply one_zeros_inj in H. apply (f_equal (@rev Z)) in H. now rewrite !rev_involutive in H.
Qed.

Theorem jive_padded_inj : forall xs ys, jive_padded xs = jive_padded ys -> xs = ys.
Proof.
  intros xs ys. unfold jive_padded.
  destruct (Nat.eqb (length xs mod 4) 0), (Nat.eqb (length ys mod 4) 0); intros H; try discriminate.
  - congruence.
  - injection H as H. eapply pad_inj; eauto.
Qed.

(* connection with the model for a single block (the state is still zero, so adding = overwriting): the state handed to
   the permutation is [flag; 0; 0; 0] ++ padded.  (For later blocks the padding positions are OVERWRITTEN as coded.) *)
Lemma jive_single_block perm x0 x1 : 0 <= x0 < M64 -> 0 <= x1 < M64 ->
  hash_elements_jive M64 (mkSponge 8 4 4 0 4 perm) [x0; x1] = digest_of (mkSponge 8 4 4 0 4 perm) (perm ([1; 0; 0; 0] ++ snd (jive_padded [x0; x1]))).
Proof.
  intros H0 H1. unfold hash_elements_jive, jive_pad, jive_padded.
  cbv [absorb sp_rate_start sp_rate_width sp_cap_idx sp_width sp_perm sp_digest_start zeros repeat app length seq fold_left upd
       snd Nat.add Nat.sub Nat.modulo Nat.divmod Nat.eqb Nat.ltb Nat.leb fadd].
  rewrite !(Z.mod_small (0 + _)) by lia. change (1 mod M64) with 1. reflexivity.
Qed.

(* ------------------------------------------------------------------------------------------------ Jive, every length
   Block-recursive form of RpJive64_256::hash_elements (state = 4 capacity + 4 rate elements): every full block of 4
   elements is ADDED to the rate and permuted; a final partial block of r = 1..3 elements is added to the first r rate
   positions while the remaining ones are OVERWRITTEN with 1, 0, .., 0 (as coded), then permuted. *)
Definition add4 (p : Z) (st : list Z) (a b c d : Z) : list Z :=
  match st with
  | [c0; c1; c2; c3; r0; r1; r2; r3] => [c0; c1; c2; c3; fadd p r0 a; fadd p r1 b; fadd p r2 c; fadd p r3 d]
  | _ => st
  end.
Definition pad_last (p : Z) (st : list Z) (tail : list Z) : list Z :=
  match st, tail with
  | [c0; c1; c2; c3; r0; r1; r2; r3], [a] => [c0; c1; c2; c3; fadd p r0 a; 1 mod p; 0; 0]
  | [c0; c1; c2; c3; r0; r1; r2; r3], [a; b] => [c0; c1; c2; c3; fadd p r0 a; fadd p r1 b; 1 mod p; 0]
  | [c0; c1; c2; c3; r0; r1; r2; r3], [a; b; c] => [c0; c1; c2; c3; fadd p r0 a; fadd p r1 b; fadd p r2 c; 1 mod p]
  | _, _ => st
  end.
Fixpoint jive_run (p : Z) (perm : list Z -> list Z) (fuel : nat) (st xs : list Z) : list Z :=
  match fuel with
  | O => st
  | S f =>
      match xs with
      | [] => st
      | a :: b :: c :: d :: rest => jive_run p perm f (perm (add4 p st a b c d)) rest
      | tail => perm (pad_last p st tail)
      end
  end.
Definition jive_init (p : Z) (n : nat) : list Z := if Nat.eqb (n mod 4) 0 then zeros 8 else upd 0 (fun _ => 1 mod p) (zeros 8).

Section JiveBlocks.
  Variable p : Z.
  Variable perm : list Z -> list Z.
  Hypothesis perm_len : forall s, length s = 8%nat -> length (perm s) = 8%nat.
  Let S := mkSponge 8 4 4 0 4 perm.

  Definition jive_finish (sti : list Z * nat) : list Z :=
    if (0 <? snd sti)%nat then perm (jive_pad p S (fst sti) (snd sti)) else fst sti.

  Ltac st8 st := destruct st as [|c0 [|c1 [|c2 [|c3 [|r0 [|r1 [|r2 [|r3 [|? ?]]]]]]]]]; try discriminate.

  Lemma add4_len st a b c d : length st = 8%nat -> length (add4 p st a b c d) = 8%nat.
  Proof. intros H. st8 st. reflexivity. Qed.

  Lemma absorb_full st a b c d rest : length st = 8%nat ->
    absorb p S st 0 (a :: b :: c :: d :: rest) = absorb p S (perm (add4 p st a b c d)) 0 rest.
  Proof.
    intros H. st8 st. unfold S.
    cbv [absorb sp_rate_start sp_rate_width sp_perm upd Nat.add Nat.modulo Nat.divmod Nat.eqb fst snd add4]. fold (absorb p (mkSponge 8 4 4 0 4 perm)).
    reflexivity.
  Qed.

  Lemma finish_tail st tail : length st = 8%nat -> (1 <= length tail <= 3)%nat ->
    jive_finish (absorb p S st 0 tail) = perm (pad_last p st tail).
  Proof.
    intros H Ht. st8 st. destruct tail as [|a [|b [|c [|? ?]]]]; cbn [length] in Ht; try lia; unfold S, jive_finish;
      cbv [absorb jive_pad sp_rate_start sp_rate_width sp_perm upd Nat.add Nat.sub Nat.modulo Nat.divmod Nat.eqb Nat.ltb Nat.leb fst snd seq fold_left pad_last];
      reflexivity.
  Qed.

  Lemma jive_run_spec : forall fuel xs st, (length xs <= fuel)%nat -> length st = 8%nat ->
    jive_finish (absorb p S st 0 xs) = jive_run p perm fuel st xs.
  Proof.
    induction fuel as [|f IH]; intros xs st Hl Hs.
    - destruct xs; [reflexivity | cbn in Hl; lia].
    - destruct xs as [|a [|b [|c [|d rest]]]].
      + reflexivity.
      + cbn [jive_run]. apply finish_tail; cbn; auto; lia.
      + cbn [jive_run]. apply finish_tail; cbn; auto; lia.
      + cbn [jive_run]. apply finish_tail; cbn; auto; lia.
      + cbn [jive_run]. rewrite absorb_full by exact Hs. apply IH.
        * cbn [length] in Hl. lia.
        * apply perm_len, add4_len, Hs.
  Qed.

  (* RpJive64_256::hash_elements for EVERY length, in block form *)
  Theorem jive_hash_elements_blocks : forall xs,
    hash_elements_jive p S xs = digest_of S (jive_run p perm (length xs) (jive_init p (length xs)) xs).
  Proof.
    intros xs. unfold hash_elements_jive. cbn [sp_rate_width sp_width sp_cap_idx S].
    rewrite <- (jive_run_spec (length xs) xs (jive_init p (length xs)) (le_n _)).
    - unfold jive_finish, jive_init. fold S. destruct (absorb p S _ 0 xs) as (st, i). reflexivity.
    - unfold jive_init. destruct (Nat.eqb (length xs mod 4) 0); reflexivity.
  Qed.

  (* the last (partial, padded) block is injective in its elements for a fixed incoming state: different tails -- also of
     different lengths -- give different permutation inputs *)
  Hypothesis Hp : 1 < p.
  Lemma fadd_inj r a b : 0 <= a < p -> 0 <= b < p -> fadd p r a = fadd p r b -> a = b.
  Proof.
    unfold fadd. intros Ha Hb H.
    assert (E : (a - b) mod p = 0).
    { replace (a - b) with ((r + a) - (r + b)) by ring. rewrite Zminus_mod, H, Z.sub_diag. apply Z.mod_0_l. lia. }
    apply Z.mod_divide in E; [|lia]. destruct E as (k & E). assert (k = 0) by nia. lia.
  Qed.

  Theorem pad_last_inj st t t' : length st = 8%nat -> (1 <= length t <= 3)%nat -> (1 <= length t' <= 3)%nat ->
    Forall (fun x => 0 <= x < p) t -> Forall (fun x => 0 <= x < p) t' -> pad_last p st t = pad_last p st t' -> t = t'.
  Proof.
    intros Hs Ht Ht' Ft Ft' E. st8 st.
    assert (H1 : 1 mod p = 1) by (apply Z.mod_small; lia).
    destruct t as [|a [|b [|c [|? ?]]]]; cbn [length] in Ht; try lia;
    destruct t' as [|a' [|b' [|c' [|? ?]]]]; cbn [length] in Ht'; try lia;
    cbn [pad_last] in E; rewrite ?H1 in E; injection E; intros; try discriminate; try lia;
    repeat match goal with H : Forall _ (_ :: _) |- _ => inversion H; clear H; subst end;
    repeat match goal with H : fadd p ?r ?x = fadd p ?r ?y |- _ => apply fadd_inj in H; [subst|assumption|assumption] end;
    reflexivity.
  Qed.
End JiveBlocks.
