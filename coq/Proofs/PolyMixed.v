(* C20 — the mixed instantiations eval<B,E> / eval_many<B,E> / mul_acc<F,E>: a base-field coefficient list
   evaluated at an extension point, base values accumulated into extension values.  stdlib style. *)
From Coq Require Import List Arith Bool Lia Ring.
From VBase Require Import FieldOps.
From VModel Require Import Polynom.
From VProofs Require Import PolyBase PolyArith PolyUtils.
Import ListNotations.

Section Mixed.
Context {B E : Type} (OE : FOps E) (LE : FLaws OE).

Add Ring Ering : (FLaws_ring_theory OE LE).

(* eval<B,E>(p, x) = sum from(p_i) x^i : the polynomial is embedded coefficient by coefficient *)
Lemma eval_mixed_spec (from : B -> E) p x : eval_mixed OE from p x = peval OE (map from p) x.
Proof.
  unfold eval_mixed. induction p as [|c t IH]; simpl. reflexivity.
  rewrite fold_left_app. simpl. rewrite IH. ring.
Qed.

Lemma eval_mixed_eq_eval (from : B -> E) p x : eval_mixed OE from p x = eval OE (map from p) x.
Proof. now rewrite eval_mixed_spec, (eval_horner OE LE). Qed.

Lemma eval_many_mixed_spec (from : B -> E) p xs :
  eval_many_mixed OE from p xs = map (peval OE (map from p)) xs.
Proof. unfold eval_many_mixed. apply map_ext. intros. apply eval_mixed_spec. Qed.

Lemma mul_acc_mixed_spec (mul_base : E -> B -> E) (zb : B) a b c :
  (length a = length b ->
     exists r, mul_acc_mixed OE mul_base a b c = Ok r /\ length r = length a /\
               forall i, i < length a -> nth i r (fzero OE) = fadd OE (nth i a (fzero OE)) (mul_base c (nth i b zb))) /\
  (mul_acc_mixed OE mul_base a b c <> Panic <-> length a = length b).
Proof.
  unfold mul_acc_mixed. split.
  - intros H. rewrite (proj2 (Nat.eqb_eq _ _) H). eexists. split; [reflexivity|].
    split. now apply zip_with_length. intros i Hi.
    now rewrite (zip_with_nth (fun x y => fadd OE x (mul_base c y)) (fzero OE) zb (fzero OE)).
  - destruct (Nat.eqb_spec (length a) (length b)); split; intros; auto; try discriminate. congruence.
Qed.

(* when mul_base is multiplication by the embedded element (C08_ext_mul_base_spec for the five extensions),
   mul_acc<F,E> is mul_acc<E,E> on the embedded vector *)
Lemma mul_acc_mixed_embed (mul_base : E -> B -> E) (from : B -> E) a b c :
  (forall e y, mul_base e y = fmul OE e (from y)) ->
  mul_acc_mixed OE mul_base a b c = mul_acc OE a (map from b) c.
Proof.
  intros H. unfold mul_acc_mixed, mul_acc. rewrite map_length.
  destruct (length a =? length b); [|reflexivity]. f_equal.
  revert b. induction a as [|x a IH]; intros [|y b]; simpl; auto. now rewrite H, IH.
Qed.

End Mixed.
