(* C02 — enforcement layer: trace validity (reference predicate) vs divisibility of the constraint
   numerators by their divisors; corruption of cells that only take part in exempt transitions;
   the divisor evaluation code of the verifier equals the vanishing polynomial of the enforced steps.
   Generic over every [FOps F] with [FLaws]. *)
From Coq Require Import List Arith Bool Lia Ring Field.
From VBase Require Import FieldOps.
From VModel Require Import Soundness.
From VProofs Require Import SoundnessPoly.
Import ListNotations.

Section Lists.
  Context {A : Type}.
  Lemma upd_nth_length (l : list A) i v : length (upd_nth l i v) = length l.
  Proof. revert i; induction l; destruct i; simpl; auto. Qed.
  Lemma nth_upd_nth_other (l : list A) i j v d : i <> j -> nth j (upd_nth l i v) d = nth j l d.
  Proof. revert i j; induction l; destruct i, j; simpl; intros; auto; try lia. Qed.
  Lemma nth_upd_nth_same (l : list A) i v d : i < length l -> nth i (upd_nth l i v) d = v.
  Proof. revert i; induction l; destruct i; simpl; intros; auto; try lia. apply IHl; lia. Qed.
  Lemma firstn_seq m n : m <= n -> firstn m (seq 0 n) = seq 0 m.
  Proof.
    intros H. replace n with (m + (n - m)) by lia. rewrite seq_app, firstn_app, seq_length.
    replace (m - m) with 0 by lia. rewrite firstn_O, app_nil_r.
    rewrite firstn_all2; [reflexivity|rewrite seq_length; lia].
  Qed.
  Lemma NoDup_app_l (a b : list A) : NoDup (a ++ b) -> NoDup a.
  Proof.
    induction a as [|x a IH]; cbn [app]; intros H; [constructor|].
    inversion H as [|? ? Hn Hd]; subst. constructor; [|now apply IH].
    intros Hin. apply Hn. apply in_or_app. now left.
  Qed.
End Lists.

Section Enforce.
Context {F : Type} (O : FOps F) (L : FLaws O).
Local Notation zero := (fzero O).
Local Notation one := (fone O).
Local Infix "+f" := (fadd O) (at level 50, left associativity).
Local Infix "-f" := (fsub O) (at level 50, left associativity).
Local Infix "*f" := (fmul O) (at level 40, left associativity).
Add Ring Fr2 : (FLaws_ring_theory O L).
Add Field Ff2 : (FLaws_field_theory O L).

Local Notation fpow := (fpow O).
Local Notation peval := (peval O).
Local Notation zpoly := (zpoly O).
Local Notation domain := (domain O).
Local Notation peqv := (peqv O).
Local Notation pdivides := (pdivides O).

(* ------------------------------------------------------------------ validity as a proposition *)
Variable trans : nat -> list F -> list F -> list F.

Definition valid (t : list (list F)) (n k : nat) (asserts : list (@Assertion F)) : Prop :=
  (forall i, i < n - k -> forall e, In e (trans i (row_at t i) (row_at t (S i))) -> e = zero) /\
  (forall a, In a asserts -> forall sv, In sv (asserted_cells O n a) -> cell O t (as_col a) (fst sv) = snd sv).

Lemma feqb_iff a b : feqb O a b = true <-> a = b.
Proof. apply (fl_eqb_spec O L). Qed.

Theorem valid_b_spec t n k asserts : valid_b O trans t n k asserts = true <-> valid t n k asserts.
Proof.
  unfold valid_b, valid, trans_ok_b, assertion_ok_b. rewrite andb_true_iff, !forallb_forall. split.
  - intros [H1 H2]. split.
    + intros i Hi e He. specialize (H1 i). rewrite in_seq in H1. specialize (H1 ltac:(lia)).
      rewrite forallb_forall in H1. apply feqb_iff, H1, He.
    + intros a Ha sv Hsv. specialize (H2 a Ha). rewrite forallb_forall in H2. apply feqb_iff, H2, Hsv.
  - intros [H1 H2]. split.
    + intros i Hi. rewrite in_seq in Hi. rewrite forallb_forall. intros e He. apply feqb_iff. apply (H1 i); [lia|exact He].
    + intros a Ha. rewrite forallb_forall. intros sv Hsv. apply feqb_iff. now apply H2.
Qed.

(* ------------------------------------------------------------------ the trace domain *)
Variable g : F.
Variable n : nat.
Hypothesis Hdom : NoDup (domain g n).       (* g generates a group of order at least n *)

Lemma domain_nth i : i < n -> nth i (domain g n) zero = fpow g i.
Proof.
  intros Hi. unfold Soundness.domain.
  rewrite (nth_indep _ zero (fpow g 0)) by (rewrite map_length, seq_length; exact Hi).
  rewrite map_nth, seq_nth by exact Hi. reflexivity.
Qed.

Lemma domain_inj i j : i < n -> j < n -> fpow g i = fpow g j -> i = j.
Proof.
  intros Hi Hj E. rewrite <- (domain_nth i Hi), <- (domain_nth j Hj) in E.
  apply (proj1 (NoDup_nth (domain g n) zero) Hdom); rewrite ?domain_length; auto.
Qed.

Lemma in_trans_roots k i : i < n - k -> In (fpow g i) (trans_roots O g n k).
Proof.
  intros Hi. unfold trans_roots, Soundness.domain. rewrite firstn_map, firstn_seq by lia.
  apply in_map, in_seq. lia.
Qed.

Lemma trans_roots_spec k x : In x (trans_roots O g n k) <-> exists i, i < n - k /\ x = fpow g i.
Proof.
  unfold trans_roots, Soundness.domain. rewrite firstn_map, firstn_seq by lia. rewrite in_map_iff. split.
  - intros [i [E Hi]]. apply in_seq in Hi. exists i. split; [lia|now symmetry].
  - intros [i [Hi E]]. exists i. split; [now symmetry|apply in_seq; lia].
Qed.

Lemma trans_roots_NoDup k : NoDup (trans_roots O g n k).
Proof.
  unfold trans_roots. rewrite <- (firstn_skipn (n - k) (domain g n)) in Hdom.
  apply NoDup_app_l in Hdom. exact Hdom.
Qed.

(* ------------------------------------------------------------------ transition constraints:
   [N j] is the numerator polynomial of constraint j: it takes on the enforced part of the trace domain
   the values of the constraint on the frames of the trace *)
Section Transition.
  Variable t : list (list F).
  Variable k : nat.
  Variable m : nat.                                    (* number of transition constraints *)
  Variable N : nat -> list F.
  Hypothesis Hm : forall i cur next, length (trans i cur next) = m.
  Hypothesis HN : forall j i, j < m -> i < n - k ->
    peval (N j) (fpow g i) = nth j (trans i (row_at t i) (row_at t (S i))) zero.

  Theorem invalid_transition_not_divisible j i :
    j < m -> i < n - k -> nth j (trans i (row_at t i) (row_at t (S i))) zero <> zero ->
    ~ pdivides (trans_divisor_poly O g n k) (N j).
  Proof.
    intros Hj Hi Hv Hd. apply Hv. rewrite <- (HN j i Hj Hi).
    apply (divides_vanishes O L _ _ Hd). apply (zpoly_root O L). now apply in_trans_roots.
  Qed.

  Theorem transitions_hold_iff_divisible :
    (forall i, i < n - k -> forall e, In e (trans i (row_at t i) (row_at t (S i))) -> e = zero) <->
    (forall j, j < m -> pdivides (trans_divisor_poly O g n k) (N j)).
  Proof.
    split.
    - intros H j Hj. apply (zpoly_divides O L); [apply trans_roots_NoDup|].
      intros r Hr. apply trans_roots_spec in Hr. destruct Hr as [i [Hi ->]].
      rewrite (HN j i Hj Hi). apply (H i Hi). apply nth_In. now rewrite Hm.
    - intros H i Hi e He. apply (In_nth _ _ zero) in He. destruct He as [j [Hj <-]]. rewrite Hm in Hj.
      rewrite <- (HN j i Hj Hi). apply (divides_vanishes O L _ _ (H j Hj)). apply (zpoly_root O L). now apply in_trans_roots.
  Qed.
End Transition.

(* ------------------------------------------------------------------ boundary constraints:
   [B] is the numerator polynomial T_col - V of an assertion: on every asserted step it takes the value
   (cell - asserted value) *)
Definition asserted_roots (a : @Assertion F) : list F := map (fun sv => fpow g (fst sv)) (asserted_cells O n a).

Lemma asserted_roots_bnd a :
  asserted_roots a =
  match as_kind a with
  | ASingle => bnd_roots O g (as_first a) (as_stride a) 1
  | _ => bnd_roots O g (as_first a) (as_stride a) (n / as_stride a)
  end.
Proof.
  unfold asserted_roots, asserted_cells, bnd_roots. destruct (as_kind a); cbn [map seq fst].
  - now rewrite Nat.mul_0_l, Nat.add_0_r.
  - rewrite map_map. reflexivity.
  - rewrite map_map. reflexivity.
Qed.

Section Boundary.
  Variable t : list (list F).
  Variable a : @Assertion F.
  Variable B : list F.
  Hypothesis HB : forall sv, In sv (asserted_cells O n a) ->
    peval B (fpow g (fst sv)) = cell O t (as_col a) (fst sv) -f snd sv.

  Lemma fsub_zero_iff x y : x -f y = zero <-> x = y.
  Proof. split; [apply (fsub_eq_zero O L)|intros ->; ring]. Qed.

  Theorem invalid_assertion_not_divisible sv :
    In sv (asserted_cells O n a) -> cell O t (as_col a) (fst sv) <> snd sv ->
    ~ pdivides (zpoly (asserted_roots a)) B.
  Proof.
    intros Hin Hv Hd. apply Hv. apply fsub_zero_iff. rewrite <- (HB sv Hin).
    apply (divides_vanishes O L _ _ Hd). apply (zpoly_root O L). unfold asserted_roots.
    apply (in_map (fun sv => fpow g (fst sv))) in Hin. exact Hin.
  Qed.

  Hypothesis Hsteps : NoDup (map fst (asserted_cells O n a)) /\ forall sv, In sv (asserted_cells O n a) -> fst sv < n.

  Lemma asserted_roots_NoDup : NoDup (asserted_roots a).
  Proof.
    destruct Hsteps as [Hnd Hlt]. unfold asserted_roots.
    revert Hnd Hlt. generalize (asserted_cells O n a). induction l as [|sv l IH]; intros Hnd Hlt; cbn [map]; [constructor|].
    cbn [map] in Hnd. inversion Hnd as [|? ? Hnotin Hnd']; subst. constructor.
    - intros Hin. apply in_map_iff in Hin. destruct Hin as [sv' [E Hin']].
      apply Hnotin. apply in_map_iff. exists sv'. split; [|exact Hin'].
      apply domain_inj; [apply Hlt; now right|apply Hlt; now left|exact E].
    - apply IH; [exact Hnd'|intros; apply Hlt; now right].
  Qed.

  Theorem assertion_holds_iff_divisible :
    (forall sv, In sv (asserted_cells O n a) -> cell O t (as_col a) (fst sv) = snd sv) <->
    pdivides (zpoly (asserted_roots a)) B.
  Proof.
    split.
    - intros H. apply (zpoly_divides O L); [apply asserted_roots_NoDup|].
      intros r Hr. unfold asserted_roots in Hr. apply in_map_iff in Hr. destruct Hr as [sv [<- Hin]].
      rewrite (HB sv Hin). apply fsub_zero_iff. now apply H.
    - intros Hd sv Hin. apply fsub_zero_iff. rewrite <- (HB sv Hin).
      apply (divides_vanishes O L _ _ Hd). apply (zpoly_root O L). unfold asserted_roots.
      apply (in_map (fun sv => fpow g (fst sv))) in Hin. exact Hin.
  Qed.
End Boundary.

(* ------------------------------------------------------------------ the whole statement *)
Section Whole.
  Variable t : list (list F).
  Variable k m : nat.
  Variable asserts : list (@Assertion F).
  Variable N : nat -> list F.
  Variable B : @Assertion F -> list F.
  Hypothesis Hm : forall i cur next, length (trans i cur next) = m.
  Hypothesis HN : forall j i, j < m -> i < n - k ->
    peval (N j) (fpow g i) = nth j (trans i (row_at t i) (row_at t (S i))) zero.
  Hypothesis HB : forall a, In a asserts -> forall sv, In sv (asserted_cells O n a) ->
    peval (B a) (fpow g (fst sv)) = cell O t (as_col a) (fst sv) -f snd sv.
  Hypothesis Hsteps : forall a, In a asserts ->
    NoDup (map fst (asserted_cells O n a)) /\ forall sv, In sv (asserted_cells O n a) -> fst sv < n.

  Definition all_divisible : Prop :=
    (forall j, j < m -> pdivides (trans_divisor_poly O g n k) (N j)) /\
    (forall a, In a asserts -> pdivides (zpoly (asserted_roots a)) (B a)).

  Theorem valid_iff_divisible : valid t n k asserts <-> all_divisible.
  Proof.
    unfold valid, all_divisible.
    rewrite (transitions_hold_iff_divisible t k m N Hm HN). split.
    - intros [H1 H2]. split; [exact H1|]. intros a Ha.
      apply (assertion_holds_iff_divisible t a (B a) (HB a Ha) (Hsteps a Ha)). now apply H2.
    - intros [H1 H2]. split; [exact H1|]. intros a Ha.
      apply (assertion_holds_iff_divisible t a (B a) (HB a Ha) (Hsteps a Ha)). now apply H2.
  Qed.

  (* either kind of violation makes one numerator non-divisible *)
  Theorem invalid_trace_not_divisible : ~ valid t n k asserts -> ~ all_divisible.
  Proof. intros H Hd. apply H. now apply valid_iff_divisible. Qed.
End Whole.

(* ------------------------------------------------------------------ corruption of one cell *)
Lemma row_at_upd_other (t : list (list F)) c i v j : j <> i -> row_at (upd_cell t c i v) j = row_at t j.
Proof. intros H. unfold upd_cell, row_at. apply nth_upd_nth_other. congruence. Qed.

Lemma cell_upd_other (t : list (list F)) c i v c' i' : (c', i') <> (c, i) -> cell O (upd_cell t c i v) c' i' = cell O t c' i'.
Proof.
  intros H. unfold cell. destruct (Nat.eq_dec i' i) as [->|Hi].
  - assert (Hc : c <> c') by congruence.
    unfold upd_cell, row_at. destruct (Nat.lt_ge_cases i (length t)) as [Hl|Hl].
    + rewrite nth_upd_nth_same by exact Hl. now apply nth_upd_nth_other.
    + assert (E : forall (l : list (list F)) i v, length l <= i -> upd_nth l i v = l).
      { induction l; destruct i0; simpl; intros; auto; try lia. f_equal. apply IHl. lia. }
      rewrite E by exact Hl. reflexivity.
  - now rewrite row_at_upd_other.
Qed.

Lemma is_asserted_false asserts c i :
  is_asserted O n asserts c i = false ->
  forall a, In a asserts -> forall sv, In sv (asserted_cells O n a) -> (as_col a, fst sv) <> (c, i).
Proof.
  unfold is_asserted. intros H a Ha sv Hsv E. inversion E as [[E1 E2]].
  assert (T : existsb (fun a => (as_col a =? c) && existsb (fun sv => fst sv =? i) (asserted_cells O n a)) asserts = true); [|congruence].
  apply existsb_exists. exists a. split; [exact Ha|]. apply andb_true_iff. split; [now apply Nat.eqb_eq|].
  apply existsb_exists. exists sv. split; [exact Hsv|now apply Nat.eqb_eq].
Qed.

(* A cell of step i with n-k < i < n is `current` of transition i and `next` of transition i-1, both exempt
   (n-k-1 is the last enforced transition).  If it is not asserted, any value keeps the trace valid. *)
Theorem exempt_corruption_harmless t k asserts c i v :
  valid t n k asserts -> only_exempt n k i = true -> is_asserted O n asserts c i = false ->
  valid (upd_cell t c i v) n k asserts.
Proof.
  intros [H1 H2] Hex Has. unfold only_exempt in Hex. apply andb_true_iff in Hex. destruct Hex as [Hlo Hhi].
  apply Nat.ltb_lt in Hlo. apply Nat.ltb_lt in Hhi. split.
  - intros j Hj e He. rewrite !row_at_upd_other in He by lia. now apply (H1 j Hj).
  - intros a Ha sv Hsv. rewrite cell_upd_other; [now apply H2|]. now apply (is_asserted_false asserts c i Has).
Qed.

(* the converse direction of the classification: a cell of an enforced row can break validity (so the side
   condition of exempt_corruption_harmless is not vacuous); see the Examples *)

(* ------------------------------------------------------------------ the divisor evaluation code
   ConstraintDivisor::evaluate_at for from_transition: (x^n - 1) / prod_{exempt} (x - e) equals the vanishing
   polynomial of the enforced steps at every x that is not an exemption point *)
Lemma peval_zpoly_app a b x : peval (zpoly (a ++ b)) x = peval (zpoly a) x *f peval (zpoly b) x.
Proof.
  induction a as [|r a IH]; cbn [app Soundness.zpoly].
  - cbn [Soundness.peval]. ring.
  - rewrite !(peval_plin O L), IH. ring.
Qed.

Theorem trans_divisor_eval_spec k x :
  0 < n -> fpow g n = one -> ~ In x (trans_exempt O g n k) ->
  trans_divisor_eval O g n k x = peval (trans_divisor_poly O g n k) x.
Proof.
  intros Hn Hg Hx. unfold trans_divisor_eval, trans_divisor_poly.
  rewrite (xn_minus_one_factors O L g n Hn Hdom Hg x).
  rewrite <- (firstn_skipn (n - k) (domain g n)) at 1. fold (trans_roots O g n k). fold (trans_exempt O g n k).
  rewrite peval_zpoly_app. rewrite <- (peval_zpoly O L (trans_exempt O g n k) x).
  pose proof (zpoly_nonroot O L x _ Hx) as Hnz.
  field. exact Hnz.
Qed.

End Enforce.
