(* C20 — synthetic division (by x^a - b, by a list of roots) and long division.  stdlib style. *)
From Coq Require Import List Arith Bool Lia Ring Field.
From VBase Require Import FieldOps.
From VModel Require Import Polynom.
From VProofs Require Import PolyBase PolyArith PolyCoeff.
Import ListNotations.

Section Div.
Context {F : Type} (O : FOps F) (L : FLaws O).
Local Notation zero := (fzero O).
Local Notation one := (fone O).
Local Notation "a +f b" := (fadd O a b) (at level 50, left associativity).
Local Notation "a -f b" := (fsub O a b) (at level 50, left associativity).
Local Notation "a *f b" := (fmul O a b) (at level 40, left associativity).
Local Notation peval := (peval O).
Local Notation fpow := (fpow O).
Local Notation coeff := (coeff O).
Local Notation conv := (conv O).

Add Ring Fring : (FLaws_ring_theory O L).
Add Field Ffield : (FLaws_field_theory O L).

(* ------------------------------------------------------------------ one pass of division by (x - root) *)
Lemma syn_lin_spec root x : forall p p' c, syn_lin O p root = (p', c) ->
  peval p x = (x -f root) *f peval p' x +f c /\ length p' = length p /\ c = peval p root /\
  (p <> [] -> last p' zero = zero).
Proof.
  induction p as [|h t IH]; intros p' c E.
  - simpl in E. inversion E; subst. simpl. repeat split; try ring.
  - cbn [syn_lin] in E. destruct (syn_lin O t root) as [t' ct] eqn:Et. inversion E; subst p' c. clear E.
    destruct (IH t' ct eq_refl) as (H1 & H2 & H3 & H4).
    cbn [PolyBase.peval length]. split. { rewrite H1. ring. } split. { now rewrite H2. }
    split. { now rewrite H3. }
    intros _. destruct t as [|t0 t1].
    + simpl in Et. inversion Et; subst. reflexivity.
    + destruct t' as [|u t']; [simpl in H2; discriminate|].
      change (last (ct :: u :: t') zero) with (last (u :: t') zero). apply H4. discriminate.
Qed.

Lemma skipn_last (l : list F) : l <> [] -> skipn (length l - 1) l = [last l zero].
Proof.
  induction l as [|h t IH]; [congruence|]. intros _. destruct t as [|t0 t1]. reflexivity.
  replace (length (h :: t0 :: t1) - 1) with (S (length (t0 :: t1) - 1)) by (simpl; lia).
  change (last (h :: t0 :: t1) zero) with (last (t0 :: t1) zero).
  change (skipn (S (length (t0 :: t1) - 1)) (h :: t0 :: t1)) with (skipn (length (t0 :: t1) - 1) (t0 :: t1)).
  apply IH. discriminate.
Qed.

(* ------------------------------------------------------------------ division by x^a - b, a >= 2 *)
Definition sd_body (a : nat) (g : F -> F) : nat -> list F -> Result (list F) :=
  fun i p => pi <- get p i;; pia <- get p (i + a);; set p i (pi +f g pia).

Lemma sd_loop a b g x : 1 <= a -> (forall v, g v = v *f b) -> forall m s, m + a <= length s ->
  exists s', for_down m (sd_body a g) s = Ok s' /\ length s' = length s /\
    peval (firstn (m + a) s) x +f (fpow x a -f b) *f fpow x m *f peval (skipn (m + a) s) x
    = peval (firstn a s') x +f (fpow x a -f b) *f peval (skipn a s') x.
Proof.
  intros Ha Hg. induction m as [|i IH]; intros s Hlen.
  - exists s. simpl. repeat split. ring.
  - set (v := nth i s zero +f g (nth (i + a) s zero)).
    assert (Hstep : sd_body a g i s = Ok (upd s i v)).
    { unfold sd_body. rewrite (get_ok s i zero) by lia. cbn [bind].
      rewrite (get_ok s (i + a) zero) by lia. cbn [bind]. apply set_ok. lia. }
    cbn [for_down]. rewrite Hstep.
    destruct (IH (upd s i v)) as (s' & Hs' & Hl' & Hp'). { rewrite upd_length. lia. }
    exists s'. split; [exact Hs'|]. split. { rewrite Hl'. apply upd_length. }
    rewrite <- Hp'.
    rewrite (firstn_upd_lt s i (i + a) v) by lia.
    rewrite (peval_upd O L) by (rewrite firstn_length; lia).
    rewrite (nth_firstn_lt s i (i + a) zero) by lia.
    rewrite (skipn_upd_lt s i (i + a) v) by lia.
    replace (S i + a) with (S (i + a)) by lia.
    rewrite (peval_firstn_S O L s (i + a)) by lia.
    rewrite (skipn_cons_nth s (i + a) zero) by lia.
    cbn [PolyBase.peval PolyBase.fpow]. unfold v. rewrite Hg. rewrite (fpow_add O L). ring.
Qed.

Lemma syn_div_full_spec p a b q r : syn_div_in_place_full O p a b = Ok (q, r) ->
  (forall x, peval p x = peval q x *f (fpow x a -f b) +f peval r x) /\
  length q = length p /\ length r = a /\ skipn (length p - a) q = repeat zero a.
Proof.
  unfold syn_div_in_place_full.
  destruct (Nat.eqb_spec a 0); [discriminate|].
  destruct (feqb O b zero) eqn:Eb; [discriminate|].
  destruct (Nat.ltb_spec a (length p)) as [Hlt|Hlt]; cbn [negb]; [|discriminate].
  destruct (Nat.eqb_spec a 1).
  - subst a. destruct (syn_lin O p b) as [p' c] eqn:E. intros H; inversion H; subst q r. clear H.
    assert (Hne : p <> []) by (destruct p; simpl in *; [lia|discriminate]).
    split; [|split; [|split]].
    + intros x. destruct (syn_lin_spec b x p p' c E) as (H1 & _). rewrite H1. simpl. ring.
    + destruct (syn_lin_spec b zero p p' c E) as (_ & H2 & _). exact H2.
    + reflexivity.
    + destruct (syn_lin_spec b zero p p' c E) as (_ & H2 & _ & H4).
      rewrite <- H2. rewrite skipn_last. simpl. now rewrite H4.
      destruct p'; [destruct p; simpl in *; [congruence|discriminate]|discriminate].
  - assert (Hfin : forall g, (forall v, g v = v *f b) ->
        forall p1, for_down (length p - a) (sd_body a g) p = Ok p1 ->
        (forall x, peval p x = peval (skipn a p1 ++ repeat zero a) x *f (fpow x a -f b) +f peval (firstn a p1) x) /\
        length (skipn a p1 ++ repeat zero a) = length p /\ length (firstn a p1) = a /\
        skipn (length p - a) (skipn a p1 ++ repeat zero a) = repeat zero a).
    { intros g Hg p1 Hp1.
      assert (Hl1 : length p1 = length p).
      { destruct (sd_loop a b g zero ltac:(lia) Hg (length p - a) p ltac:(lia)) as (s' & Hs' & Hl' & _).
        rewrite Hp1 in Hs'. inversion Hs'; subst. exact Hl'. }
      split; [|split; [|split]].
      - intros x. destruct (sd_loop a b g x ltac:(lia) Hg (length p - a) p ltac:(lia)) as (s' & Hs' & _ & Hp').
        rewrite Hp1 in Hs'. inversion Hs'; subst s'. clear Hs'.
        replace (length p - a + a) with (length p) in Hp' by lia.
        rewrite firstn_all, skipn_all in Hp'. simpl in Hp'.
        rewrite (peval_app O L), (peval_repeat_zero O L).
        transitivity (peval p x +f (fpow x a -f b) *f fpow x (length p - a) *f zero). ring.
        rewrite Hp'. ring.
      - rewrite app_length, skipn_length, repeat_length. lia.
      - rewrite firstn_length. lia.
      - rewrite skipn_app. rewrite skipn_all2 by (rewrite skipn_length; lia).
        rewrite skipn_length. replace (length p - a - (length p1 - a)) with 0 by lia. reflexivity. }
    destruct (feqb O b one) eqn:E1.
    + apply (feqb_true O L) in E1.
      destruct (sd_loop a b (fun v => v) zero ltac:(lia) ltac:(intros; subst b; ring) (length p - a) p ltac:(lia))
        as (p1 & Hp1 & _).
      pose proof Hp1 as Hp1'. unfold sd_body in Hp1'. cbv beta in Hp1'. rewrite Hp1'. cbn [bind].
      intros H; inversion H; subst q r. apply (Hfin (fun v => v)); auto. intros; subst b; ring.
    + destruct (sd_loop a b (fun v => v *f b) zero ltac:(lia) ltac:(reflexivity) (length p - a) p ltac:(lia))
        as (p1 & Hp1 & _).
      pose proof Hp1 as Hp1'. unfold sd_body in Hp1'. cbv beta in Hp1'. rewrite Hp1'. cbn [bind].
      intros H; inversion H; subst q r. apply (Hfin (fun v => v *f b)); auto.
Qed.

Lemma syn_div_total_iff p a b :
  syn_div_in_place_full O p a b <> Panic <-> (a <> 0 /\ b <> zero /\ a < length p).
Proof.
  unfold syn_div_in_place_full.
  destruct (Nat.eqb_spec a 0). { split; [congruence|lia]. }
  destruct (feqb O b zero) eqn:Eb. { apply (feqb_true O L) in Eb. split; [congruence|tauto]. }
  apply (feqb_false O L) in Eb.
  destruct (Nat.ltb_spec a (length p)) as [Hlt|Hlt]; cbn [negb]. 2: { split; [congruence|lia]. }
  split; [tauto|]. intros _.
  destruct (Nat.eqb_spec a 1).
  - destruct (syn_lin O p b). discriminate.
  - destruct (feqb O b one) eqn:E1.
    + apply (feqb_true O L) in E1.
      destruct (sd_loop a b (fun v => v) zero ltac:(lia) ltac:(intros; subst b; ring) (length p - a) p ltac:(lia))
        as (p1 & Hp1 & _).
      unfold sd_body in Hp1. cbv beta in Hp1. rewrite Hp1. discriminate.
    + destruct (sd_loop a b (fun v => v *f b) zero ltac:(lia) ltac:(reflexivity) (length p - a) p ltac:(lia))
        as (p1 & Hp1 & _).
      unfold sd_body in Hp1. cbv beta in Hp1. rewrite Hp1. discriminate.
Qed.

(* the public functions: syn_div = syn_div_in_place on a copy; the remainder (length a) is discarded *)
Lemma syn_div_spec p a b q : syn_div O p a b = Ok q ->
  length q = length p /\ skipn (length p - a) q = repeat zero a /\
  exists r, length r = a /\ forall x, peval p x = peval q x *f (fpow x a -f b) +f peval r x.
Proof.
  unfold syn_div, syn_div_in_place. intros H. apply bind_ok in H. destruct H as ([q' r] & H1 & H2).
  simpl in H2. inversion H2; subst q'. destruct (syn_div_full_spec p a b q r H1) as (Ha & Hb & Hc & Hd).
  repeat split; auto. exists r. auto.
Qed.

Lemma syn_div_public_total_iff p a b : syn_div O p a b <> Panic <-> (a <> 0 /\ b <> zero /\ a < length p).
Proof.
  rewrite <- syn_div_total_iff. unfold syn_div, syn_div_in_place.
  destruct (syn_div_in_place_full O p a b); simpl; split; intros; congruence.
Qed.

(* ------------------------------------------------------------------ division by a list of roots *)
Fixpoint pprod (roots : list F) (x : F) : F :=
  match roots with [] => one | r :: t => (x -f r) *f pprod t x end.

(* the discarded remainder in coefficient form: c1 + (x - r1) (c2 + (x - r2) (...)) *)
Fixpoint nrem (roots cs : list F) : list F :=
  match roots, cs with
  | r :: rs, c :: cs' => let t := nrem rs cs' in add O [c] (sub O (zero :: t) (mul_by_scalar O t r))
  | _, _ => []
  end.

Lemma nrem_length : forall roots cs, length cs = length roots -> length (nrem roots cs) = length roots.
Proof.
  induction roots as [|r rs IH]; intros cs H. reflexivity.
  destruct cs as [|c cs]; [discriminate|]. cbn [nrem]. cbv zeta.
  rewrite add_length, sub_length, mul_by_scalar_length. cbn [length] in *. rewrite IH by lia. lia.
Qed.

Lemma syn_roots_loop_spec x : forall roots p q cs, syn_roots_loop O p roots = (q, cs) ->
  peval p x = peval q x *f pprod roots x +f peval (nrem roots cs) x /\
  length q = length p /\ length cs = length roots.
Proof.
  induction roots as [|r rs IH]; intros p q cs E.
  - simpl in E. inversion E; subst. simpl. repeat split. ring.
  - cbn [syn_roots_loop] in E. destruct (syn_lin O p r) as [p1 c] eqn:E1.
    destruct (syn_roots_loop O p1 rs) as [p2 cs2] eqn:E2. inversion E; subst q cs. clear E.
    destruct (syn_lin_spec r x p p1 c E1) as (H1 & H2 & _).
    destruct (IH p1 p2 cs2 E2) as (H3 & H4 & H5).
    split; [|split; [congruence|simpl; congruence]].
    cbn [nrem pprod]. cbv zeta.
    rewrite (add_spec O L), (sub_spec O L), (mul_by_scalar_spec O L). cbn [PolyBase.peval].
    rewrite H1, H3. ring.
Qed.

Lemma syn_div_roots_full_spec p roots q cs : syn_div_roots_in_place_full O p roots = Ok (q, cs) ->
  length q = length p /\
  exists rem, length rem = length roots /\
    forall x, peval p x = peval q x *f pprod roots x +f peval rem x.
Proof.
  unfold syn_div_roots_in_place_full. destruct roots as [|r0 rs]; [discriminate|].
  destruct (Nat.ltb_spec (length (r0 :: rs)) (length p)) as [Hlt|Hlt]; cbn [negb]; [|discriminate].
  intros H; inversion H as [E]. clear H.
  destruct (syn_roots_loop_spec zero (r0 :: rs) p q cs E) as (_ & Hl & Hc).
  split; [exact Hl|]. exists (nrem (r0 :: rs) cs). split. now apply nrem_length.
  intros x. destruct (syn_roots_loop_spec x (r0 :: rs) p q cs E) as (Hx & _). exact Hx.
Qed.

Lemma syn_div_roots_total_iff p roots :
  syn_div_roots_in_place O p roots <> Panic <-> (roots <> [] /\ length roots < length p).
Proof.
  unfold syn_div_roots_in_place, syn_div_roots_in_place_full. destruct roots as [|r0 rs].
  - simpl. split; [congruence|tauto].
  - destruct (Nat.ltb_spec (length (r0 :: rs)) (length p)) as [Hlt|Hlt]; cbn [negb bind].
    + split; [intros _; split; [discriminate|assumption]|discriminate].
    + split; [congruence|lia].
Qed.

Lemma syn_div_roots_spec p roots q : syn_div_roots_in_place O p roots = Ok q ->
  length q = length p /\
  exists rem, length rem = length roots /\
    forall x, peval p x = peval q x *f pprod roots x +f peval rem x.
Proof.
  unfold syn_div_roots_in_place. intros H. apply bind_ok in H. destruct H as ([q' cs] & H1 & H2).
  simpl in H2. inversion H2; subst q'. now apply (syn_div_roots_full_spec p roots q cs).
Qed.

(* ------------------------------------------------------------------ long division *)
Definition div_inner_body (b : list F) (i : nat) (quot : F) : nat -> list F -> Result (list F) :=
  fun j aw => bj <- get b j;; aij <- get aw (i + j);; set aw (i + j) (aij -f bj *f quot).

Definition div_outer_body (b : list F) (bpos : nat) :
    nat -> list F * list F * nat -> Result (list F * list F * nat) :=
  fun i st =>
    let '(aw, res, apos) := st in
    aa <- get aw apos;; bb <- get b bpos;;
    let quot := fdiv O aa bb in
    res <- set res i quot;;
    aw <- for_down bpos (div_inner_body b i quot) aw;;
    Ok (aw, res, Nat.pred apos).

Lemma div_full_unfold a b :
  div_full O a b =
  let apos := degree_of O a in
  let bpos := degree_of O b in
  if apos <? bpos then Panic
  else if (bpos =? 0) && (match b with [] => true | b0 :: _ => feqb O b0 zero end) then Panic
  else match a with
  | [] => Ok ([], [])
  | _ =>
    let result := repeat zero (apos - bpos + 1) in
    st <- for_down (length result) (div_outer_body b bpos) (a, result, apos);;
    Ok (snd (fst st), fst (fst st))
  end.
Proof. reflexivity. Qed.

Lemma div_inner x b i quot : forall m aw, m <= length b -> i + m <= length aw ->
  exists aw', for_down m (div_inner_body b i quot) aw = Ok aw' /\ length aw' = length aw /\
    (forall Lg, i + m <= Lg ->
      peval (firstn Lg aw') x = peval (firstn Lg aw) x -f quot *f fpow x i *f peval (firstn m b) x) /\
    (forall k, coeff aw' k = if (i <=? k) && (k <? i + m) then coeff aw k -f coeff b (k - i) *f quot else coeff aw k).
Proof.
  induction m as [|m IH]; intros aw Hb Hl.
  - exists aw. split; [reflexivity|]. split; [reflexivity|]. split.
    + intros. simpl. ring.
    + intros k. destruct (Nat.leb_spec i k), (Nat.ltb_spec k (i + 0)); simpl; try reflexivity; lia.
  - set (v := nth (i + m) aw zero -f nth m b zero *f quot).
    assert (Hstep : div_inner_body b i quot m aw = Ok (upd aw (i + m) v)).
    { unfold div_inner_body. rewrite (get_ok b m zero) by lia. cbn [bind].
      rewrite (get_ok aw (i + m) zero) by lia. cbn [bind]. apply set_ok; lia. }
    cbn [for_down]. rewrite Hstep.
    destruct (IH (upd aw (i + m) v)) as (aw' & H1 & H2 & H3 & H4); [lia | rewrite upd_length; lia |].
    exists aw'. split; [exact H1|]. split. { rewrite H2. apply upd_length. }
    split.
    + intros Lg HL. rewrite H3 by lia.
      rewrite (firstn_upd_lt aw (i + m) Lg v) by lia.
      rewrite (peval_upd O L) by (rewrite firstn_length; lia).
      rewrite (nth_firstn_lt aw (i + m) Lg zero) by lia.
      rewrite (peval_firstn_S O L b m) by lia.
      unfold v. rewrite (fpow_add O L). ring.
    + intros k. rewrite H4. unfold PolyCoeff.coeff.
      destruct (Nat.eq_dec k (i + m)) as [->|Hk].
      * rewrite nth_upd_same by lia.
        destruct (Nat.leb_spec i (i + m)), (Nat.ltb_spec (i + m) (i + m)), (Nat.ltb_spec (i + m) (i + S m));
          simpl; try lia. unfold v. now replace (i + m - i) with m by lia.
      * rewrite nth_upd_other by assumption.
        destruct (Nat.leb_spec i k), (Nat.ltb_spec k (i + m)), (Nat.ltb_spec k (i + S m)); simpl; try lia; reflexivity.
Qed.

Lemma div_outer x b n lead : nth n b zero = lead -> lead <> zero -> n < length b ->
  (forall j, n < j -> coeff b j = zero) ->
  forall m aw qs ap, ap = n + m - 1 -> n + m <= length aw ->
  exists aw' q' ap',
    for_down m (div_outer_body b n) (aw, repeat zero m ++ qs, ap) = Ok (aw', q' ++ qs, ap') /\
    length q' = m /\ length aw' = length aw /\
    peval (firstn (n + m) aw) x = peval q' x *f peval (firstn (S n) b) x +f peval (firstn n aw') x /\
    (forall k, k < n + m -> coeff aw k = conv q' b k +f (if k <? n then coeff aw' k else zero)).
Proof.
  intros Hlead Hnz Hn Hhigh. induction m as [|i IH]; intros aw qs ap Hap Hl.
  - exists aw, [], ap. split; [reflexivity|]. split; [reflexivity|]. split; [reflexivity|]. split.
    + simpl. rewrite Nat.add_0_r. ring.
    + intros k Hk. rewrite (conv_nil_l O L). destruct (Nat.ltb_spec k n); [|lia]. ring.
  - subst ap. replace (n + S i - 1) with (n + i) by lia.
    set (quot := fdiv O (nth (n + i) aw zero) lead).
    destruct (div_inner x b i quot n aw) as (aw1 & Hi1 & Hi2 & Hi3 & Hi4); [lia|lia|].
    assert (Hu : upd (repeat zero (S i) ++ qs) i quot = repeat zero i ++ quot :: qs).
    { rewrite repeat_snoc, <- app_assoc. simpl.
      pose proof (upd_app_mid (repeat zero i) qs zero quot) as Hx. rewrite repeat_length in Hx. exact Hx. }
    assert (Hstep : div_outer_body b n i (aw, repeat zero (S i) ++ qs, n + i)
                    = Ok (aw1, repeat zero i ++ quot :: qs, Nat.pred (n + i))).
    { unfold div_outer_body. rewrite (get_ok aw (n + i) zero) by lia. cbn [bind].
      rewrite (get_ok b n zero) by lia. cbn [bind]. rewrite Hlead. fold quot.
      rewrite set_ok by (rewrite app_length, repeat_length; lia). cbn [bind].
      rewrite Hi1. cbn [bind]. rewrite Hu. reflexivity. }
    cbn [for_down]. rewrite Hstep.
    destruct (IH aw1 (quot :: qs) (Nat.pred (n + i))) as (aw' & q'' & ap' & H1 & H2 & H3 & H4 & H5); [lia|lia|].
    assert (Hq : quot *f lead = nth (n + i) aw zero) by (unfold quot; field; exact Hnz).
    exists aw', (q'' ++ [quot]), ap'.
    split. { rewrite <- app_assoc. exact H1. }
    split. { rewrite app_length. simpl. lia. }
    split. { lia. }
    split.
    + replace (n + S i) with (S (n + i)) by lia. rewrite (peval_firstn_S O L aw (n + i)) by lia.
      pose proof (Hi3 (n + i) ltac:(lia)) as E. rewrite H4 in E.
      rewrite (peval_snoc O L). rewrite H2.
      rewrite (peval_firstn_S O L b n) in * by lia. rewrite Hlead in *.
      assert (HA : peval (firstn (n + i) aw) x
                   = peval q'' x *f (peval (firstn n b) x +f lead *f fpow x n) +f peval (firstn n aw') x
                     +f quot *f fpow x i *f peval (firstn n b) x).
      { rewrite E. ring. }
      rewrite HA, <- Hq, (fpow_add O L). ring.
    + intros k Hk. rewrite (conv_snoc O L). rewrite H2.
      destruct (Nat.eq_dec k (n + i)) as [->|Hne].
      * (* the position of the leading term *)
        rewrite (conv_high O L q'' b n) by (auto; lia).
        destruct (Nat.leb_spec i (n + i)); [|lia]. destruct (Nat.ltb_spec (n + i) n); [lia|].
        replace (n + i - i) with n by lia. unfold PolyCoeff.coeff. rewrite Hlead, <- Hq. ring.
      * pose proof (H5 k ltac:(lia)) as E5. rewrite (Hi4 k) in E5.
        set (B := if k <? n then coeff aw' k else zero) in *.
        destruct (Nat.leb_spec i k) as [Hik|Hik]; destruct (Nat.ltb_spec k (i + n)) as [Hkn|Hkn];
          simpl in E5 |- *; try lia.
        -- transitivity (conv q'' b k +f B +f quot *f coeff b (k - i)); [rewrite <- E5; ring|ring].
        -- rewrite E5. ring.
Qed.

(* the leading coefficient of the divisor under the code's assertions *)
Lemma div_lead b : (degree_of O b =? 0) && (match b with [] => true | b0 :: _ => feqb O b0 zero end) = false ->
  degree_of O b < length b /\ nth (degree_of O b) b zero <> zero.
Proof.
  intros H. destruct (Nat.eqb_spec (degree_of O b) 0) as [E|E].
  - rewrite E. simpl in H. destruct b as [|b0 b']; [discriminate|]. apply (feqb_false O L) in H. simpl. split; [lia|exact H].
  - destruct (degree_of_pos_nz O L b) as (H1 & H2); [lia|]. tauto.
Qed.

Lemma div_lead_conv b : nth (degree_of O b) b zero <> zero ->
  (degree_of O b =? 0) && (match b with [] => true | b0 :: _ => feqb O b0 zero end) = false.
Proof.
  intros H. destruct (Nat.eqb_spec (degree_of O b) 0) as [E|E]; [|reflexivity].
  rewrite E in H. simpl. destruct b as [|b0 b']; simpl in H. congruence. now apply (feqb_neq O L).
Qed.

Lemma div_full_spec a b q aw : div_full O a b = Ok (q, aw) ->
  (forall x, peval a x = peval q x *f peval b x +f peval (firstn (degree_of O b) aw) x) /\
  degree_of O b < length b /\ nth (degree_of O b) b zero <> zero /\ degree_of O b <= degree_of O a /\
  (a <> [] -> length q = degree_of O a - degree_of O b + 1) /\ (a = [] -> q = []).
Proof.
  rewrite div_full_unfold. cbv zeta.
  destruct (Nat.ltb_spec (degree_of O a) (degree_of O b)) as [Hd|Hd]; [discriminate|].
  destruct ((degree_of O b =? 0) && (match b with [] => true | b0 :: _ => feqb O b0 zero end)) eqn:E2; [discriminate|].
  destruct (div_lead b E2) as (Hn & Hnz).
  assert (Hhigh : forall j, degree_of O b < j -> coeff b j = zero) by (apply (degree_of_spec O L b)).
  destruct a as [|a0 a'].
  - intros H; inversion H; subst q aw. repeat split; auto; try congruence.
    intros x. rewrite firstn_nil. simpl. ring.
  - set (a := a0 :: a') in *. assert (Hane : a <> []) by discriminate.
    pose proof (degree_of_lt O L a Hane) as Hda.
    rewrite repeat_length.
    destruct (div_outer zero b (degree_of O b) _ eq_refl Hnz Hn Hhigh (degree_of O a - degree_of O b + 1) a []
                (degree_of O a) ltac:(lia) ltac:(lia)) as (aw' & q' & ap' & H1 & H2 & H3 & _).
    rewrite !app_nil_r in H1. rewrite H1. cbn [bind fst snd].
    intros H; inversion H; subst q aw. clear H.
    repeat split; auto; try congruence.
    intros x.
    destruct (div_outer x b (degree_of O b) _ eq_refl Hnz Hn Hhigh (degree_of O a - degree_of O b + 1) a []
                (degree_of O a) ltac:(lia) ltac:(lia)) as (aw2 & q2 & ap2 & G1 & _ & _ & G4 & _).
    rewrite !app_nil_r in G1. rewrite H1 in G1. inversion G1; subst aw2 q2 ap2.
    replace (degree_of O b + (degree_of O a - degree_of O b + 1)) with (S (degree_of O a)) in G4 by lia.
    rewrite !(peval_firstn_degree O L) in G4. exact G4.
Qed.

(* the same identity on COEFFICIENT LISTS: a_k = sum_{i<=k} q_i b_{k-i} + r_k for every k, r = first deg(b) entries of
   the working copy (stronger than the identity of polynomial functions when the field is finite) *)
Lemma div_coeff_spec a b q aw : div_full O a b = Ok (q, aw) ->
  forall k, coeff a k = conv q b k +f coeff (firstn (degree_of O b) aw) k.
Proof.
  rewrite div_full_unfold. cbv zeta.
  destruct (Nat.ltb_spec (degree_of O a) (degree_of O b)) as [Hd|Hd]; [discriminate|].
  destruct ((degree_of O b =? 0) && (match b with [] => true | b0 :: _ => feqb O b0 zero end)) eqn:E2; [discriminate|].
  destruct (div_lead b E2) as (Hn & Hnz).
  assert (Hhigh : forall j, degree_of O b < j -> coeff b j = zero) by (apply (degree_of_spec O L b)).
  destruct a as [|a0 a'].
  - intros H; inversion H; subst q aw. intros k. rewrite (conv_nil_l O L), firstn_nil.
    unfold PolyCoeff.coeff. destruct k; simpl; ring.
  - set (a := a0 :: a') in *. assert (Hane : a <> []) by discriminate.
    pose proof (degree_of_lt O L a Hane) as Hda.
    rewrite repeat_length.
    destruct (div_outer zero b (degree_of O b) _ eq_refl Hnz Hn Hhigh (degree_of O a - degree_of O b + 1) a []
                (degree_of O a) ltac:(lia) ltac:(lia)) as (aw' & q' & ap' & H1 & H2 & H3 & _ & H5).
    rewrite !app_nil_r in H1. rewrite H1. cbn [bind fst snd].
    intros H; inversion H; subst q aw. clear H. intros k.
    assert (Hr : coeff (firstn (degree_of O b) aw') k = if k <? degree_of O b then coeff aw' k else zero).
    { unfold PolyCoeff.coeff. destruct (Nat.ltb_spec k (degree_of O b)).
      - now apply nth_firstn_lt.
      - apply nth_overflow. rewrite firstn_length. lia. }
    rewrite Hr. destruct (Nat.lt_ge_cases k (degree_of O b + (degree_of O a - degree_of O b + 1))) as [Hk|Hk].
    + now apply H5.
    + rewrite (conv_high O L q' b (degree_of O b)) by (auto; lia).
      destruct (Nat.ltb_spec k (degree_of O b)); [lia|].
      unfold PolyCoeff.coeff. rewrite (proj1 (degree_of_spec O L a)) by lia. ring.
Qed.

(* exact Panic domain: the divisor is not the zero polynomial (incl. empty) and its degree does not exceed
   the dividend's *)
Lemma div_total_iff a b :
  div O a b <> Panic <-> (degree_of O b <= degree_of O a /\ nth (degree_of O b) b zero <> zero).
Proof.
  unfold div. rewrite div_full_unfold. cbv zeta.
  destruct (Nat.ltb_spec (degree_of O a) (degree_of O b)) as [Hd|Hd].
  { simpl. split; [congruence|lia]. }
  destruct ((degree_of O b =? 0) && (match b with [] => true | b0 :: _ => feqb O b0 zero end)) eqn:E2.
  { simpl. split; [congruence|]. intros (_ & H). apply div_lead_conv in H. congruence. }
  destruct (div_lead b E2) as (Hn & Hnz).
  assert (Hhigh : forall j, degree_of O b < j -> coeff b j = zero) by (apply (degree_of_spec O L b)).
  split; [tauto|]. intros _.
  destruct a as [|a0 a']. { simpl. discriminate. }
  set (a := a0 :: a') in *. assert (Hane : a <> []) by discriminate.
  pose proof (degree_of_lt O L a Hane) as Hda.
  rewrite repeat_length.
  destruct (div_outer zero b (degree_of O b) _ eq_refl Hnz Hn Hhigh (degree_of O a - degree_of O b + 1) a []
              (degree_of O a) ltac:(lia) ltac:(lia)) as (aw' & q' & ap' & H1 & _).
  rewrite !app_nil_r in H1. rewrite H1. simpl. discriminate.
Qed.

Lemma div_spec a b q : div O a b = Ok q ->
  exists r, length r < length b /\ length r <= degree_of O b /\
            forall x, peval a x = peval q x *f peval b x +f peval r x.
Proof.
  unfold div. intros H. apply bind_ok in H. destruct H as ([q' aw] & H1 & H2). simpl in H2. inversion H2; subst q'.
  destruct (div_full_spec a b q aw H1) as (Hx & Hn & _).
  exists (firstn (degree_of O b) aw). split; [|split]; auto.
  - rewrite firstn_length. lia.
  - rewrite firstn_length. lia.
Qed.

End Div.
