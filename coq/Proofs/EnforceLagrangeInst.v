(* C16, Lagrange kernel constraints: concrete instances (non-vacuity) and the refutation witnesses for "the last
   constraint could be dropped".  Field: Z/97 of Proofs/EnforceInst.v, g8 = 64 of exact order 8 (n = 8, v = 3). *)
From Coq Require Import ZArith List Bool Lia.
From VBase Require Import MachInt FieldOps ZpOps.
From VModel Require Import Enforce EnforceLagrange.
From VProofs Require Import EnforceSteps EnforceField EnforceDivisor EnforceInst EnforceLagrangeProofs.
Import ListNotations.
Open Scope Z_scope.

Definition g8 : F97 := mk 64.

Lemma g8_pow_8 : fpow f97_ops g8 (2 ^ 3) = fone f97_ops.
Proof. apply F97_eq. vm_compute. reflexivity. Qed.

Lemma g8_order : forall i, 0 < i < 2 ^ 3 -> fpow f97_ops g8 i <> fone f97_ops.
Proof.
  intros i Hi E. apply (f_equal val) in E.
  assert (T : forallb (fun i => negb (val (fpow f97_ops g8 i) =? val (fone f97_ops))) (zrange 1 8) = true)
    by (vm_compute; reflexivity).
  pose proof (proj1 (forallb_forall _ _) T i ltac:(apply In_zrange; change (2 ^ 3) with 8 in Hi; lia)) as Ti. cbn beta in Ti.
  rewrite E, Z.eqb_refl in Ti. discriminate.
Qed.

(* random elements r_0, r_1, r_2 (none equal to 1) and composition coefficients *)
Definition r3 : list F97 := [mk 2; mk 3; mk 5].
Definition co3 : list F97 := [mk 7; mk 11; mk 13].

Lemma r3_not_one : forall rb, In rb r3 -> fsub f97_ops (fone f97_ops) rb <> fzero f97_ops.
Proof.
  intros rb [<-|[<-|[<-|[]]]]; intros E; apply (f_equal val) in E; vm_compute in E; discriminate.
Qed.

(* the honest column for n = 8 and the same column with the cell of row 5 (odd) replaced *)
Definition honest8 : list F97 := lag_kernel_col f97_ops r3 8.
Definition corrupt8 : list F97 := firstn 5 honest8 ++ [mk 1] ++ skipn 6 honest8.

Definition vals (l : list F97) : list Z := map val l.
Definition oval (o : option F97) : option Z := option_map val o.

(* zero pattern of the divisor of constraint k over the trace domain of size 8 *)
Definition lag_zero_pattern8 (t : LagTC (F := F97)) (k : Z) : option (list bool) :=
  match zidx (l_div t) (k - 1) with
  | Some d => Some (map (fun i => val (evaluate_at f97_ops d (fpow f97_ops g8 i)) =? 0) (zrange 0 8))
  | None => None
  end.

(* the model run inside Coq: 3 constraints, divisors x - 1, x^2 - 1, x^4 - 1, enforced on rows {0}, {0,4}, {0,2,4,6} *)
Example lag_run_new :
  option_map (fun t => (lag_num_constraints t, Z.of_nat (length (l_div t)))) (lag_new f97_ops co3) = Some (3, 3) /\
  (forall t, lag_new f97_ops co3 = Some t ->
     lag_zero_pattern8 t 1 = Some [true; false; false; false; false; false; false; false] /\
     lag_zero_pattern8 t 2 = Some [true; false; false; false; true; false; false; false] /\
     lag_zero_pattern8 t 3 = Some [true; false; true; false; true; false; true; false] /\
     lag_zero_pattern8 t 4 = None) /\
  lag_rows 8 1 = [0] /\ lag_rows 8 2 = [0; 4] /\ lag_rows 8 3 = [0; 2; 4; 6] /\
  lag_shift 8 1 = 4 /\ lag_shift 8 2 = 2 /\ lag_shift 8 3 = 1.
Proof.
  split; [vm_compute; reflexivity|]. split; [|vm_compute; repeat split].
  intros t E. vm_compute in E. injection E as <-. vm_compute. repeat split.
Qed.

(* numerators of the honest column: all vanish on their domains; of the corrupted column: constraints 1 and 2 do not
   read row 5 and still vanish on their domains, numerator 3 is non-zero on row 4 *)
Definition raws8 (col : list F97) (k : Z) : list (option Z) :=
  map (fun i => oval (lag_raw f97_ops (lag_frame_at_row f97_ops col 8 3 i) r3 k)) (lag_rows 8 k).

Example lag_run_numerators :
  raws8 honest8 1 = [Some 0] /\ raws8 honest8 2 = [Some 0; Some 0] /\ raws8 honest8 3 = [Some 0; Some 0; Some 0; Some 0] /\
  raws8 corrupt8 1 = [Some 0] /\ raws8 corrupt8 2 = [Some 0; Some 0] /\
  (exists x, x <> 0 /\ raws8 corrupt8 3 = [Some 0; Some 0; Some x; Some 0]).
Proof.
  repeat split; try (vm_compute; reflexivity). eexists. split; [|vm_compute; reflexivity]. lia.
Qed.

(* ------------------------------------------------------------------ refutations *)

Lemma some_F97_eq (a : option F97) (b : F97) : oval a = Some (val b) -> a = Some b.
Proof. destruct a as [a|]; cbn; [|discriminate]. intros E. injection E as E. f_equal. apply F97_eq. exact E. Qed.

(* "the first log2(n) - 1 constraints cover every row" is false: for n = 8 no enforced instance of constraints 1, 2
   reads a row of odd index (rows 1, 3, 5, 7), while constraint 3 reads each of them on exactly one row of its domain *)
Lemma lag_cover_without_last_refuted_all : forall j, In j [1; 3; 5; 7] ->
  lag_readers 8 (lag_num_coefficients 8 - 1) j = [] /\
  lag_readers 8 (lag_num_coefficients 8) j = [(3, j - 1)].
Proof. intros j [<-|[<-|[<-|[<-|[]]]]]; vm_compute; split; reflexivity. Qed.

Lemma lag_cover_without_last_refuted :
  exists n j, n = 8 /\ 0 < j < n /\
    ~ (exists k i, 1 <= k <= lag_num_coefficients n - 1 /\ In i (lag_rows n k) /\ In j (lag_reads n k i)).
Proof.
  exists 8, 1. split; [reflexivity|]. split; [lia|]. intros (k & i & Hk & Hi & Hr).
  assert (H : In (k, i) (lag_readers (2 ^ 3) (lag_num_coefficients 8 - 1) 1)).
  { apply lag_readers_spec; [vm_compute; discriminate|]. auto. }
  vm_compute in H. exact H.
Qed.

(* "the first log2(n) - 1 constraints (with the boundary constraint) determine the column" is false: corrupt8 has the
   asserted cell in row 0, every numerator of constraints 1 .. v-1 vanishes on its whole enforcement domain, and yet the
   column differs from the Lagrange kernel column (row 5) *)
Lemma lag_determine_without_last_refuted :
  exists (col r : list F97), Z.of_nat (length r) = 3 /\
    (forall rb, In rb r -> fsub f97_ops (fone f97_ops) rb <> fzero f97_ops) /\
    nth 0 col (fzero f97_ops) = lag_assertion_value f97_ops r /\
    (forall k i, 1 <= k <= 3 - 1 -> In i (lag_rows (2 ^ 3) k) ->
       lag_raw f97_ops (lag_frame_at_row f97_ops col (2 ^ 3) 3 i) r k = Some (fzero f97_ops)) /\
    ~ (forall j, 0 <= j < 2 ^ 3 -> nth (Z.to_nat j) col (fzero f97_ops) = lag_kernel_cell f97_ops r j).
Proof.
  exists corrupt8, r3. split; [reflexivity|]. split; [exact r3_not_one|]. split; [apply F97_eq; vm_compute; reflexivity|]. split.
  - intros k i Hk Hi. assert (Hk' : k = 1 \/ k = 2) by lia.
    destruct Hk' as [-> | ->]; vm_compute in Hi.
    + destruct Hi as [<-|[]]. apply some_F97_eq. vm_compute. reflexivity.
    + destruct Hi as [<-|[<-|[]]]; apply some_F97_eq; vm_compute; reflexivity.
  - intros H. assert (Hr5 : 0 <= 5 < 2 ^ 3) by (change (2 ^ 3) with 8; lia). pose proof (H 5 Hr5) as H5. clear H. rename H5 into H. apply (f_equal val) in H. vm_compute in H. discriminate.
Qed.

(* the hypotheses of the general theorems are satisfiable: n = 8 over Z/97 *)
Lemma lag_instance_hyps : 0 <= 3 /\ 3 < 64 /\ fpow f97_ops g8 (2 ^ 3) = fone f97_ops /\
  (forall i, 0 < i < 2 ^ 3 -> fpow f97_ops g8 i <> fone f97_ops).
Proof. split; [lia|]. split; [lia|]. split; [exact g8_pow_8|exact g8_order]. Qed.

(* the determination theorem instantiated: honest8 is the only column passing all three constraints + boundary *)
Lemma lag_determine_instance : forall col,
  nth 0 col (fzero f97_ops) = lag_assertion_value f97_ops r3 ->
  (forall k i, 1 <= k <= 3 -> In i (lag_rows (2 ^ 3) k) ->
     lag_raw f97_ops (lag_frame_at_row f97_ops col (2 ^ 3) 3 i) r3 k = Some (fzero f97_ops)) ->
  forall j, 0 <= j < 2 ^ 3 -> nth (Z.to_nat j) col (fzero f97_ops) = lag_kernel_cell f97_ops r3 j.
Proof.
  intros col H0 Hc. apply (lag_constraints_determine f97_ops f97_laws 3 ltac:(lia) col r3 eq_refl r3_not_one H0 Hc).
Qed.
