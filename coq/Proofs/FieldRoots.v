(* C07 round 2: the StarkField trait default `get_root_of_unity` (math/src/field/traits.rs), generated
   per field in Gen/F64.v, Gen/F62.v, Gen/F128.v, and the trait-default `exp_vartime` for f62.
   For 1 <= n <= TWO_ADICITY the result w has order exactly 2^n; the assert/shift side condition
   (`_ok`) holds exactly for 1 <= n <= TWO_ADICITY. *)
From Coq Require Import Zpow_facts.
From VBase Require Import MachInt ZpOps.
From VGen Require F64 F62 F128.
From VProofs Require F64Red F64Ops F64Exp F64Consts F62Ops F62Exp F128Limbs F128Ops.
Open Scope Z_scope.

(* ------------------------------------------------------------------ generic facts *)
Lemma shl_one N k : 0 <= k < N -> shl N 1 k = 2 ^ k.
Proof.
  intros H. unfold shl. rewrite Z.mul_1_l. apply Z.mod_small.
  split; [apply Z.pow_nonneg; lia|apply Z.pow_lt_mono_r; lia].
Qed.

Lemma root_pow m g T n : 0 < m -> 1 <= n <= T ->
  (g ^ 2 ^ (T - n) mod m) ^ 2 ^ n mod m = g ^ 2 ^ T mod m /\
  (g ^ 2 ^ (T - n) mod m) ^ 2 ^ (n - 1) mod m = g ^ 2 ^ (T - 1) mod m.
Proof.
  intros Hm Hn. rewrite <- !Zpower_mod by exact Hm.
  rewrite <- !Z.pow_mul_r by (apply Z.pow_nonneg; lia).
  rewrite <- !Z.pow_add_r by lia.
  replace (T - n + n) with T by lia. replace (T - n + (n - 1)) with (T - 1) by lia. split; reflexivity.
Qed.

Lemma neg1_pow_odd m t : 1 < m -> 0 <= t -> (m - 1) ^ (2 * t + 1) mod m = m - 1.
Proof.
  intros Hm Ht.
  assert (E : (m - 1) ^ 2 mod m = 1).
  { rewrite Z.pow_2_r. replace ((m - 1) * (m - 1)) with (1 + (m - 2) * m) by ring.
    rewrite Z.mod_add by lia. apply Z.mod_small. lia. }
  rewrite Z.pow_add_r, Z.pow_1_r, Z.pow_mul_r by lia.
  rewrite <- Z.mul_mod_idemp_l, Zpower_mod, E, Z.pow_1_l by lia.
  rewrite Z.mul_mod_idemp_l by lia. rewrite Z.mul_1_l. apply Z.mod_small. lia.
Qed.

(* w^(2^(n-1)) = -1  implies that the order of w is exactly 2^n *)
Lemma order_exact m w n : 2 < m -> 1 <= n -> w ^ 2 ^ (n - 1) mod m = m - 1 ->
  forall k, 0 < k < 2 ^ n -> w ^ k mod m <> 1.
Proof.
  intros Hm Hn Hw k Hk E.
  destruct (F128Ops.odd_part n ltac:(lia) k Hk) as (j & t & Hj & Ht & Ek).
  assert (E1 : w ^ (k * 2 ^ (n - 1 - j)) mod m = 1).
  { rewrite Z.pow_mul_r by (try apply Z.pow_nonneg; lia).
    rewrite Zpower_mod, E, Z.pow_1_l by (try apply Z.pow_nonneg; lia). apply Z.mod_small. lia. }
  assert (E2 : w ^ (2 ^ (n - 1) * (2 * t + 1)) mod m = m - 1).
  { rewrite Z.pow_mul_r by (try apply Z.pow_nonneg; lia).
    rewrite Zpower_mod, Hw by lia. apply neg1_pow_odd; lia. }
  assert (Ee : k * 2 ^ (n - 1 - j) = 2 ^ (n - 1) * (2 * t + 1)).
  { rewrite Ek. replace (n - 1) with (j + (n - 1 - j)) at 2 by lia. rewrite Z.pow_add_r by lia. ring. }
  rewrite Ee, E2 in E1. lia.
Qed.

Lemma root_of_unity_generic m g T n : 2 < m -> 1 <= n <= T ->
  g ^ 2 ^ T mod m = 1 -> g ^ 2 ^ (T - 1) mod m = m - 1 ->
  let w := g ^ 2 ^ (T - n) mod m in
  w ^ 2 ^ n mod m = 1 /\ w ^ 2 ^ (n - 1) mod m = m - 1 /\ forall k, 0 < k < 2 ^ n -> w ^ k mod m <> 1.
Proof.
  intros Hm Hn H1 H2 w. destruct (root_pow m g T n ltac:(lia) Hn) as [E1 E2]. fold w in E1, E2.
  rewrite H1 in E1. rewrite H2 in E2. split; [exact E1|]. split; [exact E2|].
  apply order_exact; [exact Hm|lia|exact E2].
Qed.

Lemma grou_ok_generic T N n : 0 <= n < 2^32 -> 0 < T < N -> N <= 2^32 ->
  andb (negb (n =? 0)) (andb (n <=? T) (andb (in_u 32 (T - n)) (wrap 32 (T - n) <? N))) =
  andb (1 <=? n) (n <=? T).
Proof.
  intros Hn HT HN. unfold in_u.
  destruct (Z.eqb_spec n 0) as [->|Hnz]; [reflexivity|].
  destruct (Z.leb_spec n T) as [Hle|Hgt]; cbn [negb andb].
  - rewrite (wrap_small 32 (T - n)) by lia.
    destruct (Z.leb_spec 1 n); [|lia]. cbn [andb].
    destruct (Z.leb_spec 0 (T - n)); [|lia]. destruct (Z.ltb_spec (T - n) (2^32)); [|lia].
    destruct (Z.ltb_spec (T - n) N); [reflexivity|lia].
  - destruct (1 <=? n); reflexivity.
Qed.

(* ------------------------------------------------------------------ f64 *)
Module R64.
Import F64 F64Red F64Ops F64Exp F64Consts.

Definition g64 : Z := 7277203076849721926.

Lemma g64_order : g64 ^ 2 ^ 32 mod M = 1 /\ g64 ^ 2 ^ (32 - 1) mod M = M - 1.
Proof.
  rewrite <- !F128Ops.zpow_mod_pow by (vm_compute; try reflexivity; discriminate).
  exact f64_root_order.
Qed.

Theorem f64_get_root_of_unity_spec n : 1 <= n <= 32 ->
  let w := f64_get_root_of_unity n in
  repr w /\ val w = g64 ^ 2 ^ (32 - n) mod M /\
  val w ^ 2 ^ n mod M = 1 /\ val w ^ 2 ^ (n - 1) mod M = M - 1 /\
  forall k, 0 < k < 2 ^ n -> val w ^ k mod M <> 1.
Proof.
  intros Hn. unfold f64_get_root_of_unity. cbv zeta.
  change f64_TWO_ADICITY with 32.
  rewrite (wrap_small 32 (32 - n)) by lia. rewrite shl_one by lia.
  assert (Hp : 0 <= 2 ^ (32 - n) < 2 ^ 64).
  { split; [apply Z.pow_nonneg; lia|apply Z.pow_lt_mono_r; lia]. }
  destruct (f64_exp_spec f64_TWO_ADIC_ROOT_OF_UNITY (2 ^ (32 - n)) (proj2 f64_root_def) Hp) as [Rw Vw].
  rewrite (proj1 f64_root_def) in Vw. fold g64 in Vw.
  split; [exact Rw|]. split; [exact Vw|]. rewrite Vw.
  destruct g64_order as [H1 H2].
  exact (root_of_unity_generic M g64 32 n ltac:(reflexivity) Hn H1 H2).
Qed.

Theorem f64_get_root_of_unity_ok_spec n : 0 <= n < 2^32 ->
  f64_get_root_of_unity_ok n = andb (1 <=? n) (n <=? 32).
Proof.
  intros Hn. unfold f64_get_root_of_unity_ok. change f64_TWO_ADICITY with 32.
  apply grou_ok_generic; lia.
Qed.
End R64.

(* ------------------------------------------------------------------ f62 *)
Module R62.
Import F62 F62Ops F62Exp.

Theorem f62_get_root_of_unity_spec n : 1 <= n <= 39 ->
  let w := f62_get_root_of_unity n in
  repr62 w /\ val62 w = f62_G ^ 2 ^ (39 - n) mod M62 /\
  val62 w ^ 2 ^ n mod M62 = 1 /\ val62 w ^ 2 ^ (n - 1) mod M62 = M62 - 1 /\
  forall k, 0 < k < 2 ^ n -> val62 w ^ k mod M62 <> 1.
Proof.
  intros Hn. unfold f62_get_root_of_unity. cbv zeta.
  change f62_TWO_ADICITY with 39.
  rewrite (wrap_small 32 (39 - n)) by lia. rewrite shl_one by lia.
  assert (Hp : 0 <= 2 ^ (39 - n) < 2 ^ 64).
  { split; [apply Z.pow_nonneg; lia|apply Z.pow_lt_mono_r; lia]. }
  destruct f62_root_def as (Rg & Vg & _).
  destruct (f62_exp_spec f62_TWO_ADIC_ROOT_OF_UNITY (2 ^ (39 - n)) Rg Hp) as [Rw Vw].
  rewrite Vg in Vw.
  split; [exact Rw|]. split; [exact Vw|]. rewrite Vw.
  destruct f62_root_order as [H1 H2].
  exact (root_of_unity_generic M62 f62_G 39 n ltac:(reflexivity) Hn H1 H2).
Qed.

Theorem f62_get_root_of_unity_ok_spec n : 0 <= n < 2^32 ->
  f62_get_root_of_unity_ok n = andb (1 <=? n) (n <=? 39).
Proof.
  intros Hn. unfold f62_get_root_of_unity_ok. change f62_TWO_ADICITY with 39.
  apply grou_ok_generic; lia.
Qed.

(* exp_vartime (trait default; f62 overrides only `exp`) *)
Definition expv_cond : Z * Z * Z -> bool := fun '(r, p, b) => (p >? 0).
Definition expv_body : Z * Z * Z -> Z * Z * Z := fun '(r, p, b) =>
  let r := if Z.land p 1 =? 1 then (let r := f62_mul r b in r) else r in
  let p := shr p 1 in
  let b := f62_mul b b in
  (r, p, b).

Lemma f62_exp_vartime_unfold fuel a p :
  f62_exp_vartime fuel a p =
  if p =? 0 then Some f62_ONE else if f62_eq a f62_ZERO then Some f62_ZERO else
  match while_loop fuel expv_cond expv_body (f62_ONE, p, a) with
  | None => None
  | Some (r, _, _) => Some r
  end.
Proof. reflexivity. Qed.

Lemma Some_inj {A : Type} (x y : A) : Some x = Some y -> x = y.
Proof. intros H. injection H. auto. Qed.

Lemma pow_mod_l62 x e : (x mod M62) ^ e mod M62 = x ^ e mod M62.
Proof. symmetry. apply Zpower_mod. reflexivity. Qed.

Definition expv_inv (a p : Z) (s : Z * Z * Z) : Prop :=
  let '(r, q, b) := s in
  repr62 r /\ repr62 b /\ 0 <= q /\ (val62 r * val62 b ^ q) mod M62 = val62 a ^ p mod M62.

Lemma expv_inv_step a p s : expv_inv a p s -> expv_cond s = true -> expv_inv a p (expv_body s).
Proof.
  destruct s as [[r q] b]. unfold expv_inv, expv_cond, expv_body. cbv zeta.
  intros (Hr & Hb & Hq & E) Hc.
  assert (Hq0 : 0 < q) by lia.
  assert (Hq2 : 0 <= q / 2) by (apply Z.div_pos; lia).
  pose proof (Z.div_mod q 2 ltac:(lia)) as Hdm. pose proof (Z.mod_pos_bound q 2 ltac:(lia)) as Hm.
  unfold shr. rewrite Z.pow_1_r, F128Ops.land1.
  destruct (f62_mul_spec b b Hb Hb) as [Rbb Vbb].
  split; [|split; [exact Rbb|split; [exact Hq2|]]].
  - destruct (q mod 2 =? 1); [exact (proj1 (f62_mul_spec r b Hr Hb))|exact Hr].
  - rewrite <- E, Vbb.
    destruct (Z.eqb_spec (q mod 2) 1) as [E1|E1].
    + rewrite (proj2 (f62_mul_spec r b Hr Hb)).
      rewrite Z.mul_mod_idemp_l by (unfold M62; lia).
      rewrite <- Z.mul_mod_idemp_r, pow_mod_l62, Z.mul_mod_idemp_r by (unfold M62; lia).
      rewrite F128Ops.pow_step_odd by exact Hq2. do 2 f_equal. f_equal. clear - Hdm Hm E1. lia.
    + rewrite <- Z.mul_mod_idemp_r, pow_mod_l62, Z.mul_mod_idemp_r by (unfold M62; lia).
      rewrite F128Ops.pow_step_even by exact Hq2. do 2 f_equal. f_equal. clear - Hdm Hm E1. lia.
Qed.

Theorem f62_exp_vartime_sound fuel a p r : repr62 a -> 0 <= p < 2^64 ->
  f62_exp_vartime fuel a p = Some r -> repr62 r /\ val62 r = (val62 a ^ p) mod M62.
Proof.
  intros Ha Hp. rewrite f62_exp_vartime_unfold.
  destruct (Z.eqb_spec p 0) as [->|Hp0].
  { intros H%Some_inj. subst r. split; [exact repr62_ONE|]. rewrite val62_ONE. reflexivity. }
  rewrite f62_eq_spec by (exact Ha || exact repr62_ZERO). rewrite val62_ZERO.
  destruct (Z.eqb_spec (val62 a) 0) as [Hz|Hnz].
  { intros H%Some_inj. subst r. split; [exact repr62_ZERO|].
    rewrite val62_ZERO, Hz, Z.pow_0_l by lia. reflexivity. }
  destruct (while_loop fuel expv_cond expv_body (f62_ONE, p, a)) as [[[r' q'] b']|] eqn:W; [|discriminate].
  intros H%Some_inj. subst r'.
  assert (I0 : expv_inv a p (f62_ONE, p, a)).
  { unfold expv_inv. split; [exact repr62_ONE|split; [exact Ha|split; [lia|]]].
    rewrite val62_ONE, Z.mul_1_l. reflexivity. }
  destruct (F128Ops.while_loop_inv (expv_inv a p) expv_cond expv_body (expv_inv_step a p) fuel _ _ I0 W)
    as ((Hr & Hb & Hq & E) & Hc).
  unfold expv_cond in Hc. assert (q' = 0) by lia. subst q'.
  split; [exact Hr|].
  rewrite Z.pow_0_r, Z.mul_1_r, Z.mod_small in E by apply val62_range. exact E.
Qed.

Theorem f62_exp_vartime_terminates a p : 0 <= p < 2^64 -> exists r, f62_exp_vartime 66 a p = Some r.
Proof.
  intros Hp. rewrite f62_exp_vartime_unfold.
  destruct (p =? 0); [eauto|]. destruct (f62_eq a f62_ZERO); [eauto|].
  destruct (F128Ops.while_loop_term (fun n '(r, q, b) => 0 <= q < 2 ^ Z.of_nat n) expv_cond expv_body) with
    (n := 66%nat) (s := (f62_ONE, p, a)) as [[[r q] b] ->].
  - intros [[r q] b] H. unfold expv_cond. change (2 ^ Z.of_nat 0) with 1 in H. lia.
  - intros n [[r q] b] H _. unfold expv_body. cbv zeta. unfold shr. rewrite Z.pow_1_r.
    rewrite Nat2Z.inj_succ, Z.pow_succ_r in H by lia.
    split; [apply Z.div_pos; lia|apply Z.div_lt_upper_bound; lia].
  - change (2 ^ Z.of_nat 66) with (2^66). lia.
  - eauto.
Qed.

(* the loop and the overriding `exp` denote the same field element *)
Corollary f62_exp_vartime_agrees fuel a p r : repr62 a -> 0 <= p < 2^64 ->
  f62_exp_vartime fuel a p = Some r -> val62 r = val62 (f62_exp a p).
Proof.
  intros Ha Hp H. rewrite (proj2 (f62_exp_vartime_sound fuel a p r Ha Hp H)).
  symmetry. exact (proj2 (f62_exp_spec a p Ha Hp)).
Qed.
End R62.

(* ------------------------------------------------------------------ f128 *)
Module R128.
Import F128 F128Limbs F128Ops.

Lemma f128_G_repr : repr128 f128_G. Proof. split; (discriminate || reflexivity). Qed.

Theorem f128_get_root_of_unity_sound fuel n w : 1 <= n <= 40 ->
  f128_get_root_of_unity fuel n = Some w ->
  repr128 w /\ w = f128_G ^ 2 ^ (40 - n) mod M /\
  w ^ 2 ^ n mod M = 1 /\ w ^ 2 ^ (n - 1) mod M = M - 1 /\
  forall k, 0 < k < 2 ^ n -> w ^ k mod M <> 1.
Proof.
  intros Hn. unfold f128_get_root_of_unity. cbv zeta.
  change f128_TWO_ADICITY with 40. change f128_TWO_ADIC_ROOT_OF_UNITY with f128_G.
  rewrite (wrap_small 32 (40 - n)) by lia. rewrite shl_one by lia.
  assert (Hp : 0 <= 2 ^ (40 - n) < 2 ^ 128).
  { split; [apply Z.pow_nonneg; lia|apply Z.pow_lt_mono_r; lia]. }
  destruct (f128_exp fuel f128_G (2 ^ (40 - n))) as [r|] eqn:E; [|discriminate].
  intros H. injection H as <-.
  pose proof (f128_exp_sound fuel f128_G _ r f128_G_repr Hp E) as Er.
  split; [rewrite Er; apply repr128_mod|]. split; [exact Er|]. rewrite Er.
  destruct f128_root_pow as [H1 H2].
  exact (root_of_unity_generic M f128_G 40 n ltac:(reflexivity) Hn H1 H2).
Qed.

Theorem f128_get_root_of_unity_terminates n : 1 <= n <= 40 ->
  exists w, f128_get_root_of_unity 130 n = Some w.
Proof.
  intros Hn. unfold f128_get_root_of_unity. cbv zeta. change f128_TWO_ADICITY with 40.
  rewrite (wrap_small 32 (40 - n)) by lia. rewrite shl_one by lia.
  assert (Hp : 0 <= 2 ^ (40 - n) < 2 ^ 128).
  { split; [apply Z.pow_nonneg; lia|apply Z.pow_lt_mono_r; lia]. }
  destruct (f128_exp_terminates f128_TWO_ADIC_ROOT_OF_UNITY _ Hp) as [r ->]. eauto.
Qed.

Theorem f128_get_root_of_unity_ok_spec fuel n : 0 <= n < 2^32 ->
  f128_get_root_of_unity_ok fuel n = andb (1 <=? n) (n <=? 40).
Proof.
  intros Hn. unfold f128_get_root_of_unity_ok. change f128_TWO_ADICITY with 40.
  apply grou_ok_generic; lia.
Qed.
End R128.
