(* C04 — injectivity of the seed encodings (ProofOptions / TraceInfo / Context `to_elements`), on the arithmetic
   model of Model/Transcript.v.  stdlib style. *)
From Coq Require Import List Arith Bool ZArith Lia.
From VBase Require Import MachInt.
From VModel Require Import Transcript.
Import ListNotations.
Open Scope Z_scope.

(* (buf << 8) | x on u32 is buf * 256 + x when nothing is shifted out and x is a byte *)
Lemma land_shift8_byte a x : 0 <= a -> 0 <= x < 256 -> Z.land (a * 256) x = 0.
Proof.
  intros Ha Hx. apply Z.bits_inj'. intros n Hn. rewrite Z.land_spec, Z.bits_0.
  destruct (Z_lt_le_dec n 8) as [Hl|Hl].
  - change 256 with (2 ^ 8). rewrite Z.mul_pow2_bits_low by lia. reflexivity.
  - assert (Z.testbit x n = false) as ->; [|apply andb_false_r].
    destruct (Z.eq_dec x 0) as [->|Hz]; [apply Z.bits_0|].
    apply Z.bits_above_log2; [lia|].
    assert (Z.log2 x < 8); [|lia]. apply Z.log2_lt_pow2; lia.
Qed.

Lemma shl8_or_small buf x : 0 <= buf < 2 ^ 24 -> 0 <= x < 256 -> shl8_or buf x = buf * 256 + x.
Proof.
  intros Hb Hx. unfold shl8_or, shl.
  change (2 ^ 8) with 256. rewrite Z.mod_small by (change (2 ^ 32) with 4294967296; change (2 ^ 24) with 16777216 in Hb; lia).
  assert (L : Z.land (buf * 256) x = 0) by (apply land_shift8_byte; lia).
  rewrite <- (Z.lxor_lor _ _ L), <- (Z.add_nocarry_lxor _ _ L). reflexivity.
Qed.

(* ------------------------------------------------------------------------------------------------ *)
(* ProofOptions *)
Definition wf_options (o : options) : Prop :=
  0 <= o_ext o < 256 /\ 0 <= o_fold o < 256 /\ 0 <= o_rem o < 256.   (* all three are stored as u8 *)

Lemma options_buf o : wf_options o ->
  shl8_or (shl8_or (o_ext o) (o_fold o)) (o_rem o) = (o_ext o * 256 + o_fold o) * 256 + o_rem o.
Proof.
  intros (He & Hf & Hr). change (2 ^ 24) with 16777216 in *.
  rewrite (shl8_or_small (o_ext o)) by (change (2 ^ 24) with 16777216; lia).
  rewrite shl8_or_small by (change (2 ^ 24) with 16777216; lia). reflexivity.
Qed.

Theorem options_elems_inj o1 o2 :
  wf_options o1 -> wf_options o2 -> options_elems o1 = options_elems o2 -> o1 = o2.
Proof.
  intros W1 W2 H. unfold options_elems in H. rewrite !options_buf in H by assumption.
  destruct W1 as (? & ? & ?), W2 as (? & ? & ?).
  destruct o1 as [q1 b1 g1 e1 f1 r1], o2 as [q2 b2 g2 e2 f2 r2]; cbn in *. injection H as Hb -> -> ->.
  assert (r1 = r2) by lia. assert (f1 = f2) by lia. assert (e1 = e2) by lia.
  subst. reflexivity.
Qed.

(* ------------------------------------------------------------------------------------------------ *)
(* little-endian bytes and chunks *)
Definition bytes (l : list Z) : Prop := Forall (fun b => 0 <= b < 256) l.

Lemma of_le_bytes_range l : bytes l -> 0 <= of_le_bytes l.
Proof. induction 1 as [|x l Hx _ IH]; cbn [of_le_bytes]; lia. Qed.

Lemma of_le_bytes_inj l1 : forall l2, bytes l1 -> bytes l2 -> length l1 = length l2 ->
  of_le_bytes l1 = of_le_bytes l2 -> l1 = l2.
Proof.
  induction l1 as [|a l1 IH]; intros [|b l2] B1 B2 Hl H; cbn [length of_le_bytes] in *; try discriminate; [reflexivity|].
  inversion B1; inversion B2; subst.
  pose proof (of_le_bytes_range l1 ltac:(assumption)). pose proof (of_le_bytes_range l2 ltac:(assumption)).
  assert (a = b /\ of_le_bytes l1 = of_le_bytes l2) as [-> E] by lia.
  f_equal. apply IH; auto.
Qed.

Lemma bytes_split n l : bytes l -> bytes (firstn n l) /\ bytes (skipn n l).
Proof. intros B. unfold bytes in *. rewrite <- (firstn_skipn n l) in B. apply Forall_app in B. exact B. Qed.
Lemma bytes_firstn n l : bytes l -> bytes (firstn n l).
Proof. intros B. apply (bytes_split n l B). Qed.
Lemma bytes_skipn n l : bytes l -> bytes (skipn n l).
Proof. intros B. apply (bytes_split n l B). Qed.

Lemma chunks_fuel_inj n : (0 < n)%nat -> forall f l1 l2,
  (length l1 <= f)%nat -> length l1 = length l2 -> bytes l1 -> bytes l2 ->
  map of_le_bytes (chunks_fuel f n l1) = map of_le_bytes (chunks_fuel f n l2) -> l1 = l2.
Proof.
  intros Hn. induction f as [|f IH]; intros l1 l2 Hf Hl B1 B2 H.
  - destruct l1; [|cbn in Hf; lia]. destruct l2; [reflexivity | discriminate].
  - destruct l1 as [|a l1], l2 as [|b l2]; try discriminate; [reflexivity|].
    cbn [chunks_fuel map] in H. injection H as H1 H2.
    assert (E1 : firstn n (a :: l1) = firstn n (b :: l2)).
    { apply of_le_bytes_inj; auto using bytes_firstn. rewrite !firstn_length. now rewrite Hl. }
    assert (E2 : skipn n (a :: l1) = skipn n (b :: l2)).
    { apply IH; auto using bytes_skipn.
      - rewrite skipn_length. cbn [length] in *. lia.
      - rewrite !skipn_length. now rewrite Hl. }
    rewrite <- (firstn_skipn n (a :: l1)), <- (firstn_skipn n (b :: l2)). now rewrite E1, E2.
Qed.

Lemma chunks_inj n l1 l2 : (0 < n)%nat -> length l1 = length l2 -> bytes l1 -> bytes l2 ->
  map of_le_bytes (chunks n l1) = map of_le_bytes (chunks n l2) -> l1 = l2.
Proof.
  intros Hn Hl B1 B2 H. unfold chunks in H. rewrite <- Hl in H.
  eapply chunks_fuel_inj; eauto.
Qed.

(* ------------------------------------------------------------------------------------------------ *)
(* TraceInfo *)
(* exactly the guards of TraceInfo::new_multi_segment plus the `trace_length <= u32::MAX` guard of Context::new *)
Definition wf_trace_info (t : trace_info) : Prop :=
  1 <= ti_main t /\ 0 <= ti_aux t /\ ti_main t + ti_aux t <= 255
  /\ 0 <= ti_rands t <= 255 /\ (ti_aux t = 0 -> ti_rands t = 0)
  /\ 0 <= ti_len t < 2 ^ 32 /\ bytes (ti_meta t).

Definition ti_buf (t : trace_info) : Z :=
  if 0 <? ti_aux t then ((ti_main t * 256 + 1) * 256 + ti_aux t) * 256 + ti_rands t else ti_main t * 256.

Lemma trace_info_elems_eq eb t : wf_trace_info t ->
  trace_info_elems eb t = [ti_buf t; ti_len t] ++ map of_le_bytes (chunks (eb - 1) (ti_meta t)).
Proof.
  intros (Hm & Ha & Hw & Hr & _ & Hl & _). unfold trace_info_elems, ti_buf.
  rewrite (wrap_small 32) by lia.
  destruct (0 <? ti_aux t) eqn:E; cbn [Z.eqb]; change (2 ^ 24) with 16777216 in *.
  - apply Z.ltb_lt in E.
    rewrite (shl8_or_small (ti_main t) 1) by (change (2 ^ 24) with 16777216; lia).
    rewrite (shl8_or_small _ (ti_aux t)) by (change (2 ^ 24) with 16777216; lia).
    rewrite shl8_or_small by (change (2 ^ 24) with 16777216; lia). reflexivity.
  - rewrite (shl8_or_small (ti_main t) 0) by (change (2 ^ 24) with 16777216; lia).
    rewrite Z.add_0_r. reflexivity.
Qed.

Lemma ti_buf_inj t1 t2 : wf_trace_info t1 -> wf_trace_info t2 -> ti_buf t1 = ti_buf t2 ->
  ti_main t1 = ti_main t2 /\ ti_aux t1 = ti_aux t2 /\ ti_rands t1 = ti_rands t2.
Proof.
  intros (Hm1 & Ha1 & Hw1 & Hr1 & Hz1 & _) (Hm2 & Ha2 & Hw2 & Hr2 & Hz2 & _). unfold ti_buf.
  destruct (0 <? ti_aux t1) eqn:E1, (0 <? ti_aux t2) eqn:E2;
    try apply Z.ltb_lt in E1; try apply Z.ltb_lt in E2; try apply Z.ltb_ge in E1; try apply Z.ltb_ge in E2;
    intros H; lia.
Qed.

(* TraceInfo::to_elements is injective up to the metadata chunk values; with metadata of equal length it is injective *)
Theorem trace_info_elems_inj eb t1 t2 :
  wf_trace_info t1 -> wf_trace_info t2 -> trace_info_elems eb t1 = trace_info_elems eb t2 ->
  ti_main t1 = ti_main t2 /\ ti_aux t1 = ti_aux t2 /\ ti_rands t1 = ti_rands t2 /\ ti_len t1 = ti_len t2
  /\ map of_le_bytes (chunks (eb - 1) (ti_meta t1)) = map of_le_bytes (chunks (eb - 1) (ti_meta t2)).
Proof.
  intros W1 W2 H. rewrite !trace_info_elems_eq in H by assumption.
  cbn [app] in H. injection H as Hb Hl Hm.
  destruct (ti_buf_inj _ _ W1 W2 Hb) as (? & ? & ?). auto.
Qed.

Theorem trace_info_elems_inj_same_meta_len eb t1 t2 : (1 < eb)%nat ->
  wf_trace_info t1 -> wf_trace_info t2 -> length (ti_meta t1) = length (ti_meta t2) ->
  trace_info_elems eb t1 = trace_info_elems eb t2 -> t1 = t2.
Proof.
  intros He W1 W2 Hl H.
  destruct (trace_info_elems_inj _ _ _ W1 W2 H) as (A & B & C & D & E).
  assert (ti_meta t1 = ti_meta t2).
  { apply (chunks_inj (eb - 1)); auto; try lia; [apply W1 | apply W2]. }
  destruct t1, t2; cbn in *; subst; reflexivity.
Qed.

(* the stated exceptions *)
(* 1. trailing zero bytes inside the last metadata chunk are invisible (from_bytes_with_padding) *)
Example meta_trailing_zero_collision :
  let t1 := mkTi 1 0 0 8 [1] in let t2 := mkTi 1 0 0 8 [1; 0] in
  wf_trace_info t1 /\ wf_trace_info t2 /\ t1 <> t2 /\ trace_info_elems 8 t1 = trace_info_elems 8 t2.
Proof.
  cbn zeta. unfold wf_trace_info, bytes; cbn.
  repeat split; try lia; try discriminate; repeat constructor; lia.
Qed.

(* 2. without the Context::new guard (Context::read_from does not apply it) `trace_length as u32` truncates *)
Example trace_length_truncation_collision :
  let t1 := mkTi 1 0 0 (2 ^ 32) [] in let t2 := mkTi 1 0 0 (2 ^ 33) [] in
  t1 <> t2 /\ trace_info_elems 8 t1 = trace_info_elems 8 t2.
Proof. cbn zeta. split; [discriminate | reflexivity]. Qed.

(* non-vacuity of the hypotheses: a multi-segment and a single-segment well-formed value *)
Example wf_trace_info_sat : wf_trace_info (mkTi 20 9 12 4096 [7; 0; 255]) /\ wf_trace_info (mkTi 1 0 0 8 []).
Proof. unfold wf_trace_info, bytes; cbn. repeat split; try lia; try discriminate; repeat constructor; lia. Qed.
Example wf_options_sat : wf_options (mkOpts 30 8 20 1 8 127).
Proof. unfold wf_options; cbn; lia. Qed.
(* the library's own test vector (air/src/proof/context.rs tests::context_to_elements) *)
Example context_elems_test_vector :
  context_elems 8 (mkCtx (mkTi 20 9 12 4096 []) [1; 0; 0; 0; 255; 255; 255; 255] (mkOpts 30 8 20 1 8 127))
  = [Z.lor (Z.lor (Z.lor (Z.shiftl 20 24) (Z.shiftl 1 16)) (Z.shiftl 9 8)) 12; 4096; 1; 4294967295;
     Z.lor (Z.lor (Z.shiftl 1 16) (Z.shiftl 8 8)) 127; 20; 8; 30].
Proof. reflexivity. Qed.

(* ------------------------------------------------------------------------------------------------ *)
(* Context *)
Lemma app_eq_len {A} (l1 l2 r1 r2 : list A) : length l1 = length l2 -> l1 ++ r1 = l2 ++ r2 -> l1 = l2 /\ r1 = r2.
Proof.
  revert l2; induction l1 as [|a l1 IH]; intros [|b l2] Hl H; cbn in *; try discriminate; [auto|].
  injection H as -> H. destruct (IH l2 (eq_add_S _ _ Hl) H) as [-> ->]. auto.
Qed.

Definition wf_context (c : context) : Prop := wf_trace_info (c_ti c) /\ wf_options (c_opts c).

(* Context::to_elements: two contexts over the same base field (same modulus bytes) with equal element vectors have the
   same trace shape, the same options and the same metadata chunk values *)
Theorem context_elems_inj eb c1 c2 :
  wf_context c1 -> wf_context c2 -> c_modulus c1 = c_modulus c2 ->
  context_elems eb c1 = context_elems eb c2 ->
  ti_main (c_ti c1) = ti_main (c_ti c2) /\ ti_aux (c_ti c1) = ti_aux (c_ti c2)
  /\ ti_rands (c_ti c1) = ti_rands (c_ti c2) /\ ti_len (c_ti c1) = ti_len (c_ti c2)
  /\ map of_le_bytes (chunks (eb - 1) (ti_meta (c_ti c1))) = map of_le_bytes (chunks (eb - 1) (ti_meta (c_ti c2)))
  /\ c_opts c1 = c_opts c2.
Proof.
  intros [T1 O1] [T2 O2] Hm H. unfold context_elems in H. rewrite Hm in H.
  assert (Hl : length (trace_info_elems eb (c_ti c1)) = length (trace_info_elems eb (c_ti c2))).
  { apply (f_equal (@length Z)) in H. rewrite !app_length in H. cbn [length options_elems] in H. lia. }
  destruct (app_eq_len _ _ _ _ Hl H) as [Ht Hr].
  apply app_inv_head in Hr. rename Hr into Ho.
  destruct (trace_info_elems_inj _ _ _ T1 T2 Ht) as (A & B & C & D & E).
  repeat split; auto. now apply options_elems_inj.
Qed.

Theorem context_elems_inj_same_meta_len eb c1 c2 : (1 < eb)%nat ->
  wf_context c1 -> wf_context c2 -> c_modulus c1 = c_modulus c2 ->
  length (ti_meta (c_ti c1)) = length (ti_meta (c_ti c2)) ->
  context_elems eb c1 = context_elems eb c2 -> c1 = c2.
Proof.
  intros He W1 W2 Hm Hl H.
  destruct (context_elems_inj _ _ _ W1 W2 Hm H) as (A & B & C & D & E & F).
  assert (ti_meta (c_ti c1) = ti_meta (c_ti c2)).
  { apply (chunks_inj (eb - 1)); auto; try lia; [apply W1 | apply W2]. }
  destruct c1 as [[? ? ? ? ?] ? ?], c2 as [[? ? ? ? ?] ? ?]; cbn in *; subst; reflexivity.
Qed.

(* Observation (not part of the property): the seed is context.to_elements() ++ pub_inputs.to_elements() with no length
   prefix or separator, and the number of metadata elements is variable, so the *pair* is not uniquely decodable from
   the seed in general: five extra metadata chunks can impersonate [m1; m2; options...] of a shorter context when the
   public-input elements are chosen accordingly.  Example over f64 (modulus halves 1 and 2^32-1; grinding = 1,
   queries = 1 so that the windows overlap consistently). *)
Example seed_concatenation_ambiguity :
  let modulus := [1; 0; 0; 0; 255; 255; 255; 255] in
  let o := mkOpts 1 2 1 1 2 0 in
  let c1 := mkCtx (mkTi 1 0 0 8 []) modulus o in
  let meta2 := [1;0;0;0;0;0;0] ++ [255;255;255;255;0;0;0] ++ [0;2;1;0;0;0;0] ++ [1;0;0;0;0;0;0] ++ [2;0;0;0;0;0;0] in
  let c2 := mkCtx (mkTi 1 0 0 8 meta2) modulus o in
  exists p1 p2, wf_context c1 /\ wf_context c2 /\ c1 <> c2 /\
    context_elems 8 c1 ++ p1 = context_elems 8 c2 ++ p2.
Proof.
  cbn zeta.
  exists [4294967295; 66048; 1; 2; 1], [].
  unfold wf_context, wf_trace_info, wf_options, bytes. cbn.
  repeat split; try lia; try discriminate; repeat constructor; lia.
Qed.

(* ------------------------------------------------------------------------------------------------ *)
(* The encoding proposed in fixes/c04-trace-meta-length-in-seed.diff: the number of metadata bytes precedes the chunks
   (nothing is added for empty metadata).  With it TraceInfo::to_elements is injective on ALL well-formed values.
   (Not tied to /repo's current source: the patch is proposed, not applied.) *)
Definition trace_info_elems_fixed (eb : nat) (t : trace_info) : list Z :=
  [ti_buf t; ti_len t]
  ++ match ti_meta t with
     | [] => []
     | _ => wrap 32 (Z.of_nat (length (ti_meta t))) :: map of_le_bytes (chunks (eb - 1) (ti_meta t))
     end.

Theorem trace_info_elems_fixed_inj eb t1 t2 : (1 < eb)%nat ->
  wf_trace_info t1 -> wf_trace_info t2 ->
  Z.of_nat (length (ti_meta t1)) <= 65535 -> Z.of_nat (length (ti_meta t2)) <= 65535 ->    (* TraceInfo::MAX_META_LENGTH *)
  trace_info_elems_fixed eb t1 = trace_info_elems_fixed eb t2 -> t1 = t2.
Proof.
  intros He W1 W2 L1 L2 H. unfold trace_info_elems_fixed in H.
  cbn [app] in H. injection H as Hb Hl Hm.
  destruct (ti_buf_inj _ _ W1 W2 Hb) as (A & B & C).
  assert (M : ti_meta t1 = ti_meta t2).
  { rewrite !(wrap_small 32) in Hm by (change (2 ^ 32) with 4294967296; lia).
    destruct (ti_meta t1) as [|a m1] eqn:E1, (ti_meta t2) as [|b m2] eqn:E2; try discriminate; [reflexivity|].
    assert (Hn : Z.of_nat (length (a :: m1)) = Z.of_nat (length (b :: m2))) by (apply (f_equal (hd 0)) in Hm; exact Hm).
    assert (Hc : map of_le_bytes (chunks (eb - 1) (a :: m1)) = map of_le_bytes (chunks (eb - 1) (b :: m2)))
      by (apply (f_equal (@tl Z)) in Hm; exact Hm).
    apply Nat2Z.inj in Hn.
    rewrite <- E1, <- E2 in Hc. rewrite <- E1, <- E2.
    apply (chunks_inj (eb - 1)); auto; try lia; [rewrite E1, E2; exact Hn | apply W1 | apply W2]. }
  destruct t1, t2; cbn in *; subst; reflexivity.
Qed.

Example trace_info_elems_fixed_separates :
  trace_info_elems_fixed 8 (mkTi 1 0 0 8 [1]) <> trace_info_elems_fixed 8 (mkTi 1 0 0 8 [1; 0]).
Proof. discriminate. Qed.

(* ------------------------------------------------------------------------------------------------ *)
(* The known exception as a class (open finding C04-F1): two trace infos whose metadata have different lengths but the
   same chunk values — i.e. metadata that differ only by trailing zero bytes inside the last chunk.  Outside this class
   the encodings are injective. *)
Definition known_meta_padding (eb : nat) (t1 t2 : trace_info) : Prop :=
  length (ti_meta t1) <> length (ti_meta t2)
  /\ map of_le_bytes (chunks (eb - 1) (ti_meta t1)) = map of_le_bytes (chunks (eb - 1) (ti_meta t2)).

Theorem trace_info_elems_inj_except_known eb t1 t2 : (1 < eb)%nat ->
  wf_trace_info t1 -> wf_trace_info t2 -> ~ known_meta_padding eb t1 t2 ->
  trace_info_elems eb t1 = trace_info_elems eb t2 -> t1 = t2.
Proof.
  intros He W1 W2 NK H.
  destruct (trace_info_elems_inj _ _ _ W1 W2 H) as (_ & _ & _ & _ & E).
  destruct (Nat.eq_dec (length (ti_meta t1)) (length (ti_meta t2))) as [Hl|Hl].
  - now apply (trace_info_elems_inj_same_meta_len eb).
  - exfalso. apply NK. split; assumption.
Qed.

Theorem context_elems_inj_except_known eb c1 c2 : (1 < eb)%nat ->
  wf_context c1 -> wf_context c2 -> c_modulus c1 = c_modulus c2 ->
  ~ known_meta_padding eb (c_ti c1) (c_ti c2) ->
  context_elems eb c1 = context_elems eb c2 -> c1 = c2.
Proof.
  intros He W1 W2 Hm NK H.
  destruct (context_elems_inj _ _ _ W1 W2 Hm H) as (_ & _ & _ & _ & E & _).
  destruct (Nat.eq_dec (length (ti_meta (c_ti c1))) (length (ti_meta (c_ti c2)))) as [Hl|Hl].
  - now apply (context_elems_inj_same_meta_len eb).
  - exfalso. apply NK. split; assumption.
Qed.

Theorem known_meta_padding_witness :
  exists t1 t2, wf_trace_info t1 /\ wf_trace_info t2 /\ known_meta_padding 8 t1 t2
                /\ trace_info_elems 8 t1 = trace_info_elems 8 t2 /\ t1 <> t2.
Proof.
  exists (mkTi 1 0 0 8 [1]), (mkTi 1 0 0 8 [1; 0]).
  destruct meta_trailing_zero_collision as (A & B & C & D).
  split; [exact A|]. split; [exact B|]. split; [|split; [exact D | exact C]].
  split; [cbn; discriminate | reflexivity].
Qed.
