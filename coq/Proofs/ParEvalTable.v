(* C14 — index-batched maps (commit_to_rows, get_inv_evaluation) and the local-index lookup of acc_column. *)
From Coq Require Import List Arith Bool Lia PeanoNat Permutation.
From VModel Require Import FFT Par.
From VProofs Require Import ParCommute ParBatch ParMisc.
Import ListNotations.

Lemma pe_map_shift {A} (f : nat -> A) off l : map (fun i => f (off + i)) (seq 0 l) = map f (seq off l).
Proof.
  revert off. induction l as [|l IH]; intros off; [reflexivity|].
  cbn [seq map]. rewrite Nat.add_0_r. f_equal.
  rewrite <- (seq_shift l 0), map_map, <- (IH (S off)). apply map_ext. intros i. f_equal. lia.
Qed.

Lemma pe_lsum_cons a l : list_sum (a :: l) = a + list_sum l.
Proof. reflexivity. Qed.

Lemma pe_map_batched_from {A} (f : nat -> A) cs : forall off, consecutive off cs ->
  map_batched f cs = map f (seq off (list_sum (map snd cs))).
Proof.
  induction cs as [|c cs IH]; intros off H; [reflexivity|].
  destruct H as [Hc Hr]. unfold map_batched. cbn [flat_map map]. rewrite pe_lsum_cons.
  fold (map_batched f cs). rewrite (IH _ Hr), seq_app, map_app, Hc, pe_map_shift. reflexivity.
Qed.

(* every batch computes f at the global index: the concatenation is the serial map, for every partition *)
Theorem map_batched_spec {A} (f : nat -> A) n cs : covers n cs -> map_batched f cs = map_serial f n.
Proof. intros [Hc Hs]. rewrite (pe_map_batched_from f cs 0 Hc), Hs. reflexivity. Qed.

Corollary map_batched_any_T {A} (f : nat -> A) conc n min T : 1 <= min ->
  exists cs, batch_iter_chunks conc n min T = Done cs /\ map_batched f cs = map_serial f n.
Proof.
  intros Hm. destruct (batch_sizes_cover conc n min T Hm) as (cs & E & Hc). exists cs. split; [exact E|].
  apply map_batched_spec; exact Hc.
Qed.

(* local index = global index modulo zl whenever every batch starts at a multiple of zl *)
Lemma pe_acc_from zl cs : zl <> 0 -> forall off, consecutive off cs -> Forall (fun c => fst c mod zl = 0) cs ->
  acc_z_index_batched zl cs = map (fun i => i mod zl) (seq off (list_sum (map snd cs))).
Proof.
  intros Hz. induction cs as [|c cs IH]; intros off H HF; [reflexivity|].
  destruct H as [Hc Hr]. inversion HF as [|? ? H0 HF']; subst.
  unfold acc_z_index_batched. cbn [flat_map map]. rewrite pe_lsum_cons. fold (acc_z_index_batched zl cs).
  rewrite (IH _ Hr HF'), seq_app, map_app. f_equal.
  rewrite <- (pe_map_shift (fun i => i mod zl) (fst c)). apply map_ext. intros i.
  rewrite Nat.add_mod by exact Hz. rewrite H0, Nat.add_0_l, Nat.mod_mod by exact Hz. reflexivity.
Qed.

Lemma pe_pow2_pos k : 1 <= 2 ^ k.
Proof. induction k; cbn; lia. Qed.

(* acc_column, general form: whatever minimum batch size [mn] the source passes to batch_iter_mut!, the batch-local lookup
   z[i % z.len()] is the global lookup as soon as z.len() = 2^j <= mn — for every domain size 2^k and every T.
   (checks/c14.py reads [mn] off the source of acc_column and checks MAX_BLOWUP_FACTOR <= mn on every run.) *)
Theorem acc_z_index_spec_gen k j mn T cs : 1 <= mn -> 2 ^ j <= mn ->
  batch_iter_chunks true (2 ^ k) mn T = Done cs ->
  acc_z_index_batched (2 ^ j) cs = acc_z_index_serial (2 ^ j) (2 ^ k).
Proof.
  intros Hmn Hj E.
  assert (Hz : 2 ^ j <> 0) by (pose proof (pe_pow2_pos j); lia).
  assert (Hcov : covers (2 ^ k) cs).
  { destruct (batch_sizes_cover true (2 ^ k) mn T Hmn) as (cs' & E' & Hc). rewrite E in E'. inversion E'. subst. exact Hc. }
  destruct Hcov as [Hc Hs].
  unfold acc_z_index_serial. rewrite <- Hs. apply pe_acc_from; [exact Hz|exact Hc|].
  set (m := Nat.log2_up T). assert (ES : npo2 T = 2 ^ m) by reflexivity.
  destruct (Nat.lt_ge_cases (2 ^ k / npo2 T) mn) as [Hlt|Hge].
  - rewrite (batch_iter_serial_below true (2 ^ k) mn T Hlt) in E. inversion E. subst. repeat constructor.
    cbn [fst]. apply Nat.mod_0_l. exact Hz.
  - assert (Hmk : m <= k).
    { destruct (Nat.le_gt_cases m k); [assumption|]. exfalso.
      rewrite ES, Nat.div_small in Hge; [lia|]. apply Nat.pow_lt_mono_r; lia. }
    assert (Ek : 2 ^ k = 2 ^ (k - m) * npo2 T) by (rewrite ES, <- Nat.pow_add_r; f_equal; lia).
    assert (Ed : 2 ^ k / npo2 T = 2 ^ (k - m)).
    { rewrite Ek at 1. apply Nat.div_mul. pose proof (npo2_pos T). lia. }
    rewrite Ed in Hge.
    assert (H7 : j <= k - m).
    { apply (Nat.pow_le_mono_r_iff 2); lia. }
    rewrite Ek in E. rewrite (batch_iter_exact (2 ^ (k - m)) mn T Hmn Hge) in E. inversion E. subst cs.
    apply Forall_forall. intros c Hin. apply in_map_iff in Hin. destruct Hin as (q & <- & _). cbn [fst].
    replace (2 ^ (k - m)) with (2 ^ (k - m - j) * 2 ^ j) by (rewrite <- Nat.pow_add_r; f_equal; lia).
    rewrite Nat.mul_assoc. apply Nat.mod_mul. exact Hz.
Qed.

(* the code as written: minimum 128 = MAX_BLOWUP_FACTOR >= every admissible constraint-evaluation blowup 2^j *)
Theorem acc_z_index_spec k j T cs : j <= 7 ->
  batch_iter_chunks true (2 ^ k) 128 T = Done cs ->
  acc_z_index_batched (2 ^ j) cs = acc_z_index_serial (2 ^ j) (2 ^ k).
Proof.
  intros Hj. apply acc_z_index_spec_gen; [lia|].
  change 128 with (2 ^ 7). apply Nat.pow_le_mono_r; lia.
Qed.

(* a minimum of 16 (MIN_FRAGMENT_SIZE) would NOT do: trace length 8, constraint-evaluation blowup 32 (256 rows),
   12 threads -> 16 batches of 16 rows, the local index wraps at 16 instead of 32 *)
Example acc_z_index_min16_refuted : exists cs, batch_iter_chunks true (2 ^ 8) 16 12 = Done cs /\
  acc_z_index_batched (2 ^ 5) cs <> acc_z_index_serial (2 ^ 5) (2 ^ 8).
Proof. eexists. split; [vm_compute; reflexivity|]. vm_compute. discriminate. Qed.

(* the guarantee rests on the minimum batch size: with smaller batches the local index is wrong *)
Example acc_z_index_needs_min_batch : acc_z_index_batched 8 [(0, 4); (4, 4)] <> acc_z_index_serial 8 8.
Proof. vm_compute. discriminate. Qed.

Example acc_z_index_ex : exists cs, batch_iter_chunks true (2 ^ 10) 128 3 = Done cs /\ length cs = 4 /\
  acc_z_index_batched (2 ^ 7) cs = acc_z_index_serial (2 ^ 7) (2 ^ 10).
Proof. eexists. split; [vm_compute; reflexivity|]. split; [reflexivity|]. vm_compute. reflexivity. Qed.

(* ---------------------------------------------------------------- periodic-value lookups of the fragmented evaluator *)

(* the code: lookup at the global step offset + i — equal to the single-fragment evaluation for EVERY partition *)
Theorem periodic_global_index_spec tl n frags : covers n frags ->
  periodic_rows_fragmented tl frags = periodic_rows_serial tl n.
Proof. intros H. exact (map_batched_spec (fun r => r mod tl) n frags H). Qed.

Corollary periodic_global_index_fragments conc k T tl : 4 <= k -> T <= 64 ->
  exists cs, fragment_plan conc (2 ^ k) T = Done cs /\ periodic_rows_fragmented tl cs = periodic_rows_serial tl (2 ^ k).
Proof.
  intros Hk HT. destruct (ParMisc.fragment_plan_T_le_64 conc k T Hk HT) as (cs & E & Hc).
  exists cs. split; [exact E|]. apply periodic_global_index_spec; exact Hc.
Qed.

(* a fragment-local lookup is WRONG as soon as there are two non-empty fragments and the table is longer than the first *)
Theorem periodic_local_index_wrong tl n cs o0 sz o1 sz' rest : covers n cs ->
  cs = (o0, sz) :: (o1, sz') :: rest -> 1 <= sz -> 1 <= sz' -> sz < tl ->
  periodic_rows_local tl cs <> periodic_rows_serial tl n.
Proof.
  intros [_ Hs] -> H1 H2 Hlt E.
  assert (Hn : sz + sz' <= n).
  { rewrite <- Hs. cbn [map snd list_sum fold_right]. lia. }
  apply (f_equal (fun l => nth sz l 0)) in E.
  unfold periodic_rows_local, periodic_rows_serial in E. cbn [flat_map fst snd] in E.
  rewrite app_nth2 in E by (rewrite map_length, seq_length; lia).
  rewrite map_length, seq_length, Nat.sub_diag in E.
  destruct sz' as [|sz'']; [lia|]. cbn [seq map app nth] in E.
  rewrite (nth_indep _ 0 (0 mod tl)) in E by (rewrite map_length, seq_length; lia).
  rewrite (map_nth (fun i => i mod tl)), seq_nth in E by lia.
  rewrite Nat.mod_0_l, Nat.add_0_l, Nat.mod_small in E by lia. lia.
Qed.

(* ... and invisible exactly when the table length divides every fragment offset *)
Theorem periodic_local_index_ok tl cs n : tl <> 0 -> covers n cs -> Forall (fun c => fst c mod tl = 0) cs ->
  periodic_rows_local tl cs = periodic_rows_serial tl n.
Proof.
  intros Hz [Hc Hs] HF. unfold periodic_rows_serial. rewrite <- Hs.
  exact (pe_acc_from tl cs Hz 0 Hc HF).
Qed.

(* witness = the demo of seeded change C14-r3prover3: trace 4096, ce blowup 2 (8192 rows), cycle 4096 (table 8192), 2 threads *)
Example periodic_local_index_refuted : exists cs, fragment_plan true (2 ^ 13) 2 = Done cs /\ length cs = 2 /\
  periodic_rows_local (2 ^ 13) cs <> periodic_rows_serial (2 ^ 13) (2 ^ 13).
Proof.
  exists [(0, 2 ^ 12); (2 ^ 12, 2 ^ 12)]. split; [vm_compute; reflexivity|]. split; [reflexivity|].
  apply (periodic_local_index_wrong (2 ^ 13) (2 ^ 13) _ 0 (2 ^ 12) (2 ^ 12) (2 ^ 12) []); try reflexivity.
  - split; [cbn [consecutive fst snd]; repeat split; reflexivity|].
    cbn [map snd list_sum fold_right]. rewrite Nat.add_0_r. change (2 ^ 13) with (2 * 2 ^ 12). lia.
  - pose proof (pe_pow2_pos 12). lia.
  - pose proof (pe_pow2_pos 12). lia.
  - change (2 ^ 13) with (2 * 2 ^ 12). pose proof (pe_pow2_pos 12). lia.
Qed.
