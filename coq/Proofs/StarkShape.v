(* C01 — admissibility arithmetic of Model/Stark.v (module Shape): the number of constraint composition columns
   vs the degree of the composition polynomial, for all trace lengths / degrees / exemption counts.  stdlib style. *)
From Coq Require Import List Bool ZArith Lia.
From VModel Require Import Stark.
Import ListNotations.
Import Shape.
Open Scope Z_scope.

(* ------------------------------------------------------------------ highest evaluation degree *)
Lemma fold_max_ge {A} (f : A -> Z) : forall l a, a <= fold_left (fun r d => Z.max r (f d)) l a.
Proof. induction l as [|h t IH]; intros a; simpl; [lia|]. specialize (IH (Z.max a (f h))). lia. Qed.
Lemma fold_max_in {A} (f : A -> Z) : forall l a d, In d l -> f d <= fold_left (fun r d => Z.max r (f d)) l a.
Proof.
  induction l as [|h t IH]; intros a d H; [contradiction|]. destruct H as [->|H]; simpl.
  - pose proof (fold_max_ge f t (Z.max a (f d))). lia.
  - now apply IH.
Qed.
Lemma fold_max_bound {A} (f : A -> Z) B : forall l a, a <= B -> (forall d, In d l -> f d <= B) ->
  fold_left (fun r d => Z.max r (f d)) l a <= B.
Proof.
  induction l as [|h t IH]; intros a Ha H; simpl; [exact Ha|]. apply IH.
  - pose proof (H h (or_introl eq_refl)). lia.
  - intros d Hd. apply H. now right.
Qed.

Lemma highest_ge n degs d : In d degs -> eval_degree n d <= highest_degree n degs.
Proof. apply (fold_max_in (eval_degree n)). Qed.
Lemma highest_bound n degs B : 0 <= B -> (forall d, In d degs -> eval_degree n d <= B) -> highest_degree n degs <= B.
Proof. apply (fold_max_bound (eval_degree n)). Qed.

(* ------------------------------------------------------------------ the composition polynomial fits its columns *)
(* working tree: a polynomial of degree D = comp_degree >= 0 has D + 1 coefficients; num_comp_cols columns of n
   coefficients hold them, and no column is superfluous *)
Theorem comp_cols_fit n degs e : 0 < n -> 0 <= comp_degree n degs e ->
  comp_degree n degs e < num_comp_cols n degs e * n /\ (num_comp_cols n degs e - 1) * n <= comp_degree n degs e.
Proof.
  intros Hn HD. unfold num_comp_cols. fold (comp_degree n degs e). set (D := comp_degree n degs e) in *.
  pose proof (Z.div_mod (D + n) n ltac:(lia)) as E. pose proof (Z.mod_pos_bound (D + n) n Hn) as R.
  assert (1 <= (D + n) / n) by (apply Z.div_le_lower_bound; lia).
  rewrite Z.max_l by lia. nia.
Qed.

(* the columns never exceed the constraint evaluation domain: cols <= ce_blowup under the acceptance check of
   set_num_transition_exemptions *)
Theorem comp_cols_le_ce n ce degs e : 0 < n -> 1 <= ce -> exemptions_ok n ce degs e = true ->
  num_comp_cols n degs e <= ce.
Proof.
  intros Hn Hce Hok. unfold exemptions_ok in Hok. apply andb_prop in Hok. destruct Hok as [Hok Hall].
  apply andb_prop in Hok. destruct Hok as [He0 He1]. apply Z.ltb_lt in He0. apply Z.leb_le in He1.
  rewrite forallb_forall in Hall.
  assert (n / 2 <= n) by (apply Z.div_le_upper_bound; lia).
  assert (HB : highest_degree n degs <= ce * n - 1 + n - e).
  { assert (n <= ce * n) by nia. assert (n / 2 < n) by (apply Z.div_lt_upper_bound; lia).
    apply highest_bound; [lia|]. intros d Hd. specialize (Hall d Hd). apply Z.leb_le in Hall. lia. }
  unfold num_comp_cols. apply Z.max_lub; [|lia].
  apply Z.lt_succ_r. apply Z.div_lt_upper_bound; [lia|]. nia.
Qed.

(* ------------------------------------------------------------------ the snapshot's formula: exact characterisation *)
(* ceil(D / n) columns instead of ceil((D + 1) / n): one column short exactly when D is a positive multiple of n *)
Theorem snapshot_cols_exact n degs e : 0 < n -> 0 <= comp_degree n degs e ->
  num_comp_cols_snapshot n degs e =
  num_comp_cols n degs e - (if (comp_degree n degs e mod n =? 0) && (0 <? comp_degree n degs e) then 1 else 0).
Proof.
  intros Hn HD. unfold num_comp_cols_snapshot, num_comp_cols. fold (comp_degree n degs e).
  set (D := comp_degree n degs e) in *.
  replace (highest_degree n degs - (n - e) + n - 1) with (D + n - 1) by (unfold D, comp_degree; lia).
  pose proof (Z.div_mod D n ltac:(lia)) as E. pose proof (Z.mod_pos_bound D n Hn) as R.
  set (q := D / n) in *. set (r := D mod n) in *.
  assert (0 <= q) by (apply Z.div_pos; lia).
  assert (E1 : (D + n) / n = q + 1) by (symmetry; apply (Z.div_unique _ _ _ r); lia).
  rewrite E1. destruct (Z.eqb_spec r 0) as [Hr|Hr].
  - assert (E2 : (D + n - 1) / n = q) by (symmetry; apply (Z.div_unique _ _ _ (n - 1)); lia).
    rewrite E2. destruct (Z.ltb_spec 0 D); simpl; nia.
  - assert (E2 : (D + n - 1) / n = q + 1) by (symmetry; apply (Z.div_unique _ _ _ (r - 1)); lia).
    rewrite E2. simpl. lia.
Qed.

(* ... and then the composition polynomial does NOT fit: its leading coefficient is dropped *)
Corollary snapshot_cols_too_few n degs e : 0 < n -> 0 < comp_degree n degs e -> comp_degree n degs e mod n = 0 ->
  num_comp_cols_snapshot n degs e * n <= comp_degree n degs e.
Proof.
  intros Hn HD Hm. rewrite snapshot_cols_exact by lia. rewrite Hm. simpl.
  destruct (Z.ltb_spec 0 (comp_degree n degs e)); [|lia].
  pose proof (comp_cols_fit n degs e Hn ltac:(lia)). lia.
Qed.

(* for one constraint of degree d without periodic columns: the loss happens exactly when #exemptions = d >= 2 *)
Lemma eval_degree_plain n d : eval_degree n (d, []) = d * (n - 1).
Proof. reflexivity. Qed.
Lemma highest_single n d : 0 <= d -> 1 <= n -> highest_degree n [(d, [])] = d * (n - 1).
Proof. intros. unfold highest_degree. simpl. rewrite eval_degree_plain. nia. Qed.

Theorem snapshot_loss_iff_exemptions_eq_degree n d e : 2 <= n -> 1 <= d <= n -> 1 <= e <= n ->
  (num_comp_cols_snapshot n [(d, [])] e < num_comp_cols n [(d, [])] e <-> (e = d /\ 2 <= d)).
Proof.
  intros Hn Hd He.
  assert (HD : comp_degree n [(d, [])] e = (d - 1) * n + (e - d)) by (unfold comp_degree; rewrite highest_single by lia; lia).
  assert (HD0 : 0 <= comp_degree n [(d, [])] e) by (rewrite HD; nia).
  rewrite snapshot_cols_exact by lia.
  assert (Hmod : comp_degree n [(d, [])] e mod n = (e - d) mod n).
  { rewrite HD. rewrite Z.add_comm. apply Z.mod_add. lia. }
  rewrite Hmod. split.
  - intros Hlt. destruct (Z.eqb_spec ((e - d) mod n) 0) as [Hz|Hz]; [|simpl in Hlt; lia].
    destruct (Z.ltb_spec 0 (comp_degree n [(d, [])] e)) as [Hp|Hp]; [|simpl in Hlt; lia].
    apply Z.mod_divide in Hz; [|lia]. destruct Hz as [k Hk].
    assert (k = 0) by nia. subst k. split; [lia|]. rewrite HD in Hp. nia.
  - intros [-> H2]. rewrite Z.sub_diag, Z.mod_0_l by lia. simpl.
    destruct (Z.ltb_spec 0 (comp_degree n [(d, [])] d)) as [Hp|Hp]; [lia|]. rewrite HD in Hp. nia.
Qed.

(* the snapshot's constructors ACCEPT such parameter sets: degree 2, 2 exemptions, blowup 2, 8 rows (the smallest
   instance; `c01 replay` of fixes/c01-composition-columns-off-by-one.msg is its execution) *)
Theorem snapshot_cols_refuted :
  exists mw log_n blowup e md,
    ctx_model mw 0 0 log_n blowup 1 0 true (Some e) md [] <> None /\
    options_ok 1 blowup 0 2 0 = true /\
    0 < comp_degree (2 ^ log_n) md e /\
    num_comp_cols_snapshot (2 ^ log_n) md e * 2 ^ log_n <= comp_degree (2 ^ log_n) md e.
Proof. exists 1, 3, 2, 2, [(2, [])]. vm_compute. repeat split; congruence. Qed.

(* non-vacuity of comp_cols_fit / comp_cols_le_ce on an accepted parameter set with several columns *)
Example comp_cols_example :
  ctx_model 2 0 0 4 8 1 0 true (Some 5) [(9, []); (3, [4])] [] = Some (16 * 8, 8, 16 * 8, 5) /\
  exemptions_ok 16 8 [(9, []); (3, [4])] 5 = true /\ comp_degree 16 [(9, []); (3, [4])] 5 = 124.
Proof. vm_compute. repeat split. Qed.

(* ------------------------------------------------------------------ declared degrees vs the constraint evaluation domain *)
Lemma next_pow2_ge x : x <= next_pow2 x.
Proof.
  unfold next_pow2. destruct (Z.leb_spec x 1); [lia|].
  pose proof (Z.log2_up_spec x ltac:(lia)). lia.
Qed.

Lemma cycles_fold_bound n : 1 <= n -> forall cs r, (forall c, In c cs -> 2 <= c) ->
  fold_left (fun r c => r + (n / c) * (c - 1)) cs r <= r + Z.of_nat (length cs) * (n - 1).
Proof.
  intros Hn. induction cs as [|c cs IH]; intros r Hc; [simpl; lia|].
  cbn [fold_left length]. rewrite Nat2Z.inj_succ.
  assert (2 <= c) by (apply Hc; now left).
  assert ((n / c) * (c - 1) <= n - 1).
  { pose proof (Z.mul_div_le n c ltac:(lia)). assert (0 <= n / c) by (apply Z.div_pos; lia).
    destruct (Z.eq_dec (n / c) 0) as [E|E]; [rewrite E; lia | nia]. }
  specialize (IH (r + n / c * (c - 1)) (fun c' H' => Hc c' (or_intror H'))). lia.
Qed.

Lemma eval_degree_bound n d : 1 <= n -> degree_ok d = true ->
  eval_degree n d <= (fst d + Z.of_nat (length (snd d))) * (n - 1).
Proof.
  intros Hn Hok. unfold degree_ok in Hok. apply andb_prop in Hok. destruct Hok as [_ Hc].
  rewrite forallb_forall in Hc. unfold eval_degree.
  pose proof (cycles_fold_bound n Hn (snd d) (fst d * (n - 1))) as B.
  assert (forall c, In c (snd d) -> 2 <= c).
  { intros c Hin. specialize (Hc c Hin). apply andb_prop in Hc. destruct Hc as [Hc _]. now apply Z.leb_le. }
  specialize (B H). lia.
Qed.

Lemma ce_blowup_ge degs d : In d degs -> min_blowup d <= ce_blowup degs.
Proof. apply (fold_max_in min_blowup). Qed.

(* the subtraction `ce_size - 1 + n - eval_degree` of set_num_transition_exemptions never underflows in usize *)
Theorem exemptions_bound_no_underflow n degs d : 1 <= n -> In d degs -> degree_ok d = true ->
  eval_degree n d <= ce_blowup degs * n - 1 + n.
Proof.
  intros Hn Hin Hok. pose proof (eval_degree_bound n d Hn Hok) as B.
  pose proof (ce_blowup_ge degs d Hin) as C. unfold min_blowup in C.
  pose proof (next_pow2_ge (fst d + Z.of_nat (length (snd d)) - 1)). nia.
Qed.

(* with the default single exemption (AirContext::new / new_multi_segment) every accepted context passes the exemption
   check, hence (comp_cols_le_ce) its composition polynomial fits num_comp_cols <= ce_blowup columns *)
Theorem default_exemption_ok n degs : 2 <= n -> forallb degree_ok degs = true ->
  exemptions_ok n (ce_blowup degs) degs 1 = true.
Proof.
  intros Hn Hok. rewrite forallb_forall in Hok. unfold exemptions_ok.
  assert (1 <= n / 2) by (apply Z.div_le_lower_bound; lia).
  replace (0 <? 1) with true by reflexivity. replace (1 <=? n / 2 + 1) with true by (symmetry; apply Z.leb_le; lia).
  cbn [andb]. apply forallb_forall. intros d Hd. apply Z.leb_le.
  pose proof (eval_degree_bound n d ltac:(lia) (Hok d Hd)) as B.
  pose proof (ce_blowup_ge degs d Hd) as C. unfold min_blowup in C.
  pose proof (next_pow2_ge (fst d + Z.of_nat (length (snd d)) - 1)). nia.
Qed.

(* ------------------------------------------------------------------ FRI schedules *)
(* what the property's well-formedness condition means: the layer loop of FriOptions::num_fri_layers terminates after
   k exact folds, lde = fold^k * rem_size, and the remainder domain rem_size holds between 1 and rem_max+1 coefficients *)
Lemma fri_wf_fuel_spec fold blowup maxrem : 2 <= fold -> 0 < blowup -> forall fuel d,
  fri_wf_fuel fuel d maxrem fold blowup = true ->
  exists k dk, fri_layers_fuel fuel d maxrem fold = Some k /\ 0 <= k /\ d = fold ^ k * dk /\ dk <= maxrem /\ blowup <= dk.
Proof.
  intros Hf Hb. induction fuel as [|fuel IH]; intros d H; [discriminate|].
  cbn [fri_wf_fuel fri_layers_fuel] in *. destruct (Z.gtb_spec d maxrem) as [Hgt|Hle].
  - apply andb_prop in H. destruct H as [H H3]. apply andb_prop in H. destruct H as [H1 H2].
    apply Z.eqb_eq in H1. apply Z.leb_le in H2.
    destruct (IH (d / fold) H3) as (k & dk & E & Hk & Ed & Hm & Hbl). rewrite E.
    exists (Z.succ k), dk. repeat split; try assumption; try lia.
    rewrite Z.pow_succ_r by lia. pose proof (Z.div_mod d fold ltac:(lia)). nia.
  - apply Z.leb_le in H. exists 0, d. repeat split; try lia.
    destruct (Z.lt_ge_cases d blowup) as [Hlt|]; [|assumption].
    assert (d / blowup <= 0); [|lia].
    destruct (Z.lt_ge_cases d 0); [apply Z.div_le_upper_bound; lia | rewrite Z.div_small; lia].
Qed.

Theorem fri_wellformed_spec lde blowup fold rem : 2 <= fold -> 0 < blowup ->
  fri_wellformed lde blowup fold rem = true ->
  exists k rem_size, num_fri_layers lde blowup fold rem = Some k /\ 0 <= k /\ lde = fold ^ k * rem_size /\
                     rem_size <= (rem + 1) * blowup /\ blowup <= rem_size.
Proof. intros Hf Hb. apply fri_wf_fuel_spec; assumption. Qed.

Example fri_wellformed_example :
  fri_wellformed 4096 8 4 31 = true /\ num_fri_layers 4096 8 4 31 = Some 2 /\
  fri_wellformed 16 2 16 0 = false /\ fri_wellformed 64 2 8 0 = false.
Proof. vm_compute. repeat split. Qed.
