(* C10 — the fourteen defensive `return Err(InvalidProof)` of get_root / into_paths / get_path are dead code:
   the twin model Model/MerkleStrict.v, in which those branches return an arbitrary outcome, computes the
   same function as Model/Merkle.v.  Also: the shape guards an accepted opening must have passed, and their
   contrapositive (an ill-shaped opening is an error: neither accepted nor a panic). *)
From Coq Require Import ZArith List Bool Lia.
From VBase Require Import MachInt.
From VModel Require Import Merkle MerkleStrict.
From VProofs Require Import MerkleBase MerkleIdx MerkleBatch MerkleTotal MerkleBind MerkleExamples.
Import ListNotations.
Open Scope Z_scope.

Section Dead.
Variable D : Type.
Variable merge : D -> D -> D.
Variable dead : forall A : Type, res A.

Notation bproof := (bproof D).
Notation gleafv_s := (gleafv_s D dead).
Notation gleaf_s := (gleaf_s D dead).
Notation gfirst_s := (gfirst_s D merge dead).
Notation gstep_s := (gstep_s D merge dead).
Notation gscan_s := (gscan_s D merge dead).
Notation glevels_s := (glevels_s D merge dead).
Notation gcore_s := (gcore_s D merge dead).
Notation get_root_s := (get_root_s D merge dead).
Notation into_paths_s := (into_paths_s D merge dead).
Notation get_path_s := (get_path_s D dead).
Notation get_path_up_s := (get_path_up_s D dead).
Notation gscan := (gscan D merge).
Notation glevels := (glevels D merge).
Notation gfirst := (gfirst D merge).
Notation gleaf := (gleaf D).
Notation gstep := (gstep D merge).
Notation gcore := (gcore D merge).
Notation get_root := (get_root D merge).
Notation into_paths := (into_paths D merge).

(* every element of I is a key of v *)
Definition kin (v : bmap D) (I : list Z) : Prop := forall a, In a I -> bt_get a v <> None.
Definition kmono (v v' : bmap D) : Prop := forall k, bt_get k v <> None -> bt_get k v' <> None.

Lemma kmono_refl v : kmono v v.
Proof. intros k H. exact H. Qed.

Lemma kmono_trans a b c : kmono a b -> kmono b c -> kmono a c.
Proof. intros H1 H2 k H. auto. Qed.

Lemma kmono_insert k x (v : bmap D) : kmono v (bt_insert k x v).
Proof. intros k2 H. rewrite bt_get_insert. destruct (k2 =? k); [discriminate|assumption]. Qed.

Lemma kin_mono v v' I : kmono v v' -> kin v I -> kin v' I.
Proof. intros M K a Ha. apply M, K, Ha. Qed.

(* ---------------------------------------------------------------- first loop: 154/160/182/186, 310/316/338/342 *)
Lemma gleafv_dead (p : bproof) j : 0 <= j < zlen (bp_leaves p) -> gleafv_s p j = gleafv D p j.
Proof.
  intros Hj. unfold MerkleStrict.gleafv_s, Merkle.gleafv. destruct (Z.leb_spec (zlen (bp_leaves p)) j); [lia|reflexivity].
Qed.

Lemma gleaf_dead (p : bproof) imap i index :
  (forall k j, bt_get k imap = Some j -> 0 <= j < zlen (bp_leaves p)) ->
  (bt_get index imap <> None \/ bt_get (index + 1) imap <> None) ->
  gleaf_s p imap i index = gleaf p imap i index.
Proof.
  intros Hr Hin. unfold MerkleStrict.gleaf_s, Merkle.gleaf.
  destruct (uadd index 1) as [i1| |] eqn:Eu; cbn [bind]; [|reflexivity|reflexivity].
  apply uadd_inv in Eu. destruct Eu as [-> _].
  destruct (bt_get index imap) as [j1|] eqn:E1; destruct (bt_get (index + 1) imap) as [j2|] eqn:E2.
  - rewrite !gleafv_dead by eauto. reflexivity.
  - rewrite !gleafv_dead by eauto. reflexivity.
  - rewrite !gleafv_dead by eauto. reflexivity.
  - exfalso. destruct Hin; congruence.
Qed.

Lemma gfirst_dead (p : bproof) imap offset :
  (forall k j, bt_get k imap = Some j -> 0 <= j < zlen (bp_leaves p)) ->
  forall norm i v ptm,
  (forall e, In e norm -> bt_get e imap <> None \/ bt_get (e + 1) imap <> None) ->
  gfirst_s p imap offset norm i v ptm = gfirst p imap offset norm i v ptm.
Proof.
  intros Hr. induction norm as [|e rest IH]; intros i v ptm Hin; [reflexivity|].
  cbn [MerkleStrict.gfirst_s Merkle.gfirst]. rewrite gleaf_dead by (try assumption; apply Hin; left; reflexivity).
  destruct (gleaf p imap i e) as [[[b0 b1] ptr]| |]; cbn [bind]; [|reflexivity|reflexivity].
  destruct (uadd offset e) as [oi| |]; cbn [bind]; [|reflexivity|reflexivity].
  rewrite IH by (intros e' He'; apply Hin; right; assumption). reflexivity.
Qed.

Lemma gfirst_kin (p : bproof) imap offset : forall norm i v ptm vF ptrs ptmF next,
  gfirst p imap offset norm i v ptm = Ok (vF, ptrs, ptmF, next) ->
  kmono v vF /\ kin vF next /\ kmono ptm ptmF.
Proof.
  induction norm as [|e rest IH]; intros i v ptm vF ptrs ptmF next E.
  - cbn in E. injection E as <- <- <- <-. split; [apply kmono_refl|]. split; [intros ? []|apply kmono_refl].
  - cbn [Merkle.gfirst] in E. apply bind_Ok in E. destruct E as ([[b0 b1] ptr] & _ & E).
    apply bind_Ok in E. destruct E as (oi & _ & E).
    apply bind_Ok in E. destruct E as ([[[vF' ptrs'] ptmF'] next'] & Er & E). injection E as -> <- -> <-.
    apply IH in Er. destruct Er as (M & K & MP).
    split; [eapply kmono_trans; [apply kmono_insert|exact M]|]. split.
    + intros a [<-|Ha]; [|apply K; assumption]. apply M. rewrite bt_get_insert_same. discriminate.
    + eapply kmono_trans; [|exact MP]. eapply kmono_trans; [apply kmono_insert|].
      eapply kmono_trans; [apply kmono_insert|apply kmono_insert].
Qed.

(* ---------------------------------------------------------------- level loops: 215/230, 373/387 *)
Lemma gstep_dead a s v ptm : bt_get a v <> None -> gstep_s a s v ptm = gstep a s v ptm.
Proof. intros H. unfold MerkleStrict.gstep_s, Merkle.gstep. destruct (bt_get a v); [reflexivity|congruence]. Qed.

Lemma gstep_kmono a s v ptm v1 ptm1 pi : gstep a s v ptm = Ok (v1, ptm1, pi) -> kmono v v1 /\ bt_get pi v1 <> None.
Proof.
  unfold Merkle.gstep. destruct (bt_get a v); [|discriminate]. intros [= <- <- <-].
  split; [apply kmono_insert|]. rewrite bt_get_insert_same. discriminate.
Qed.

Lemma gscan_s_unfold pn a rest i v ptrs ptm :
  gscan_s pn (a :: rest) i v ptrs ptm =
  if merged a rest then
    match bt_get (Z.lxor a 1) v with
    | None => dead _
    | Some s =>
      '(v1, ptm1, pi) <- gstep_s a s v ptm ;;
      '(vF, ptrsF, ptmF, next) <- gscan_s pn (tl rest) (i + 2) v1 ptrs ptm1 ;;
      Ok (vF, ptrsF, ptmF, pi :: next)
    end
  else
    '(s, ptrs1) <- gsib D pn ptrs i ;;
    '(v1, ptm1, pi) <- gstep_s a s v ptm ;;
    '(vF, ptrsF, ptmF, next) <- gscan_s pn rest (i + 1) v1 ptrs1 ptm1 ;;
    Ok (vF, ptrsF, ptmF, pi :: next).
Proof. destruct rest as [|b rest']; [reflexivity|]. cbn [MerkleStrict.gscan_s merged tl]. destruct (b =? Z.lxor a 1); reflexivity. Qed.

Lemma gscan_kin pn : forall n I i v ptrs ptm vF ptrsF ptmF next, (length I <= n)%nat ->
  gscan pn I i v ptrs ptm = Ok (vF, ptrsF, ptmF, next) -> kmono v vF /\ kin vF next.
Proof.
  induction n as [|n IH]; intros I i v ptrs ptm vF ptrsF ptmF next Hn E.
  { destruct I; [|simpl in Hn; lia]. cbn in E. injection E as <- <- <- <-. split; [apply kmono_refl|intros ? []]. }
  destruct I as [|a rest]; [cbn in E; injection E as <- <- <- <-; split; [apply kmono_refl|intros ? []]|].
  rewrite gscan_unfold in E. destruct (merged a rest) eqn:Em.
  - destruct (bt_get (Z.lxor a 1) v) as [s|]; [|discriminate].
    apply bind_Ok in E. destruct E as ([[v1 ptm1] pi] & Eg & E). apply gstep_kmono in Eg. destruct Eg as [M1 K1].
    apply bind_Ok in E. destruct E as ([[[vF' ptrsF'] ptmF'] next'] & Er & E). injection E as -> -> -> <-.
    apply IH in Er; [|pose proof (tl_length_le rest); simpl in Hn; lia]. destruct Er as [M K].
    split; [eapply kmono_trans; eassumption|]. intros b [<-|Hb]; [apply M; assumption|apply K; assumption].
  - apply bind_Ok in E. destruct E as ([s ptrs1] & _ & E).
    apply bind_Ok in E. destruct E as ([[v1 ptm1] pi] & Eg & E). apply gstep_kmono in Eg. destruct Eg as [M1 K1].
    apply bind_Ok in E. destruct E as ([[[vF' ptrsF'] ptmF'] next'] & Er & E). injection E as -> -> -> <-.
    apply IH in Er; [|simpl in Hn; lia]. destruct Er as [M K].
    split; [eapply kmono_trans; eassumption|]. intros b [<-|Hb]; [apply M; assumption|apply K; assumption].
Qed.

Lemma gscan_dead pn : forall n I i v ptrs ptm, (length I <= n)%nat -> kin v I ->
  gscan_s pn I i v ptrs ptm = gscan pn I i v ptrs ptm.
Proof.
  induction n as [|n IH]; intros I i v ptrs ptm Hn K.
  { destruct I; [reflexivity|simpl in Hn; lia]. }
  destruct I as [|a rest]; [reflexivity|].
  rewrite gscan_s_unfold, gscan_unfold. destruct (merged a rest) eqn:Em.
  - destruct (merged_inv _ _ Em) as (rest' & ->). cbn [tl].
    destruct (bt_get (Z.lxor a 1) v) as [s|] eqn:Es; [|exfalso; apply (K (Z.lxor a 1)); [right; left; reflexivity|assumption]].
    rewrite gstep_dead by (apply K; left; reflexivity).
    destruct (gstep a s v ptm) as [[[v1 ptm1] pi]| |] eqn:Eg; cbn [bind]; [|reflexivity|reflexivity].
    apply gstep_kmono in Eg. destruct Eg as [M1 _].
    rewrite IH; [reflexivity|simpl in Hn; lia|].
    apply (kin_mono v); [assumption|]. intros b Hb. apply K. right. right. assumption.
  - destruct (gsib D pn ptrs i) as [[s ptrs1]| |]; cbn [bind]; [|reflexivity|reflexivity].
    rewrite gstep_dead by (apply K; left; reflexivity).
    destruct (gstep a s v ptm) as [[[v1 ptm1] pi]| |] eqn:Eg; cbn [bind]; [|reflexivity|reflexivity].
    apply gstep_kmono in Eg. destruct Eg as [M1 _].
    rewrite IH; [reflexivity|simpl in Hn; lia|].
    apply (kin_mono v); [assumption|]. intros b Hb. apply K. right. assumption.
Qed.

Lemma glevels_dead pn : forall k I v ptrs ptm, kin v I -> glevels_s k pn I v ptrs ptm = glevels k pn I v ptrs ptm.
Proof.
  induction k as [|k IH]; intros I v ptrs ptm K; [reflexivity|].
  cbn [MerkleStrict.glevels_s Merkle.glevels]. rewrite (gscan_dead pn (length I)) by (try assumption; lia).
  destruct (gscan pn I 0 v ptrs ptm) as [[[[v1 ptrs1] ptm1] next]| |] eqn:Es; cbn [bind]; [|reflexivity|reflexivity].
  apply (gscan_kin pn (length I)) in Es; [|lia]. destruct Es as [_ K1]. apply IH. assumption.
Qed.

(* ---------------------------------------------------------------- the common core *)
Lemma gcore_dead (p : bproof) indexes ptm0 : zlen indexes = zlen (bp_leaves p) ->
  gcore_s p indexes ptm0 = gcore p indexes ptm0.
Proof.
  intros HL. unfold MerkleStrict.gcore_s, Merkle.gcore.
  destruct (map_indexes indexes (bp_depth p)) as [imap| |] eqn:Emi; cbn [bind]; [|reflexivity|reflexivity].
  apply map_indexes_inv in Emi. destruct Emi as (_ & ND & _ & IM & _).
  destruct (negb _); [reflexivity|].
  rewrite gfirst_dead.
  - destruct (gfirst p imap (2 ^ bp_depth p) (normalize_indexes indexes) 0 [] ptm0) as [[[[v ptrs] ptm] next]| |] eqn:Ef;
      cbn [bind]; [|reflexivity|reflexivity].
    apply gfirst_kin in Ef. destruct Ef as (_ & K & _). rewrite glevels_dead by assumption. reflexivity.
  - intros k j E. rewrite <- HL. eapply imap_ok_range; eassumption.
  - intros e He. apply normalize_In in He. destruct He as (i & Hi & ->).
    destruct (imap_ok_In indexes imap i IM ND Hi) as (j & Ej).
    destruct (mod2_cases i) as [E2|E2]; rewrite E2.
    + left. replace (i - 0) with i by lia. congruence.
    + right. replace (i - 1 + 1) with i by lia. congruence.
Qed.

(* get_root: lines 154, 160, 182, 186, 215, 230 are dead — for EVERY proof value and index list *)
Theorem get_root_dead : forall (p : bproof) indexes, get_root_s p indexes = get_root p indexes.
Proof.
  intros p indexes. unfold MerkleStrict.get_root_s, Merkle.get_root. destruct indexes as [|i0 ir] eqn:Ei; [reflexivity|]. rewrite <- Ei.
  destruct (max_paths <? zlen indexes); [reflexivity|].
  destruct (Z.eqb_spec (zlen indexes) (zlen (bp_leaves p))) as [HL|]; cbn [negb]; [|reflexivity].
  rewrite gcore_dead by assumption. reflexivity.
Qed.

Theorem verify_batch_dead : forall D_eqb root (p : bproof) indexes,
  verify_batch_s D D_eqb merge dead root indexes p = verify_batch D D_eqb merge root indexes p.
Proof. intros. unfold MerkleStrict.verify_batch_s, Merkle.verify_batch. rewrite get_root_dead. reflexivity. Qed.

(* ---------------------------------------------------------------- get_path: 520, 528 *)
Lemma get_path_up_Ok tree : forall fuel s ps, get_path_up D fuel tree s = Ok ps -> get_path_up_s fuel tree s = Ok ps.
Proof.
  induction fuel as [|fuel IH]; intros s ps E.
  - cbn in *. destruct (s <=? 1); [assumption|discriminate].
  - cbn [Merkle.get_path_up MerkleStrict.get_path_up_s] in *. destruct (s <=? 1); [assumption|].
    destruct (bt_get (Z.lxor s 1) tree) as [x|]; [|discriminate].
    apply bind_Ok in E. destruct E as (r & Er & E). rewrite (IH _ _ Er). exact E.
Qed.

Lemma get_path_Ok i tree depth path : get_path D i tree depth = Ok path -> get_path_s i tree depth = Ok path.
Proof.
  unfold Merkle.get_path, MerkleStrict.get_path_s. destruct (64 <=? depth); [discriminate|].
  destruct (uadd i (2 ^ depth)) as [s| |]; cbn [bind]; try discriminate.
  destruct (bt_get s tree) as [leaf|]; [|discriminate].
  intros E. apply bind_Ok in E. destruct E as (r & Er & E). rewrite (get_path_up_Ok _ _ _ _ Er). exact E.
Qed.

Lemma mapM_ext_Ok {A B} (f g : A -> res B) (l : list A) :
  (forall a, In a l -> exists b, f a = Ok b /\ g a = Ok b) -> mapM g l = mapM f l.
Proof.
  induction l as [|a r IH]; intros H; [reflexivity|]. cbn [mapM].
  destruct (H a (or_introl eq_refl)) as (b & -> & ->). cbn [bind]. rewrite IH by (intros; apply H; right; assumption). reflexivity.
Qed.

(* after a successful run of the common core of into_paths (tree depth >= 1) every queried position has its leaf
   and the sibling of each of its ancestors in the partial tree; moreover the run has produced the root, i.e. the
   final `v.remove(&1).ok_or(InvalidProof)` of get_root can only fail for a proof of depth 0 *)
Lemma gcore_paths_inh (d0 : D) (p : bproof) idx (d : nat) v2 ptm2 :
  (1 <= d)%nat -> bp_depth p = Z.of_nat d -> usize_list idx -> idx <> [] -> zlen idx = zlen (bp_leaves p) ->
  gcore p idx (ptm_leaves D (2 ^ bp_depth p) idx (bp_leaves p) []) = Ok (v2, ptm2) ->
  (exists r, bt_get 1 v2 = Some r) /\
  forall i, In i idx -> exists path, get_path D i ptm2 (bp_depth p) = Ok path.
Proof.
  intros Hd1 Hdep Hu Hne HLl Ec.
  set (offset := 2 ^ bp_depth p) in *. set (ptm0 := ptm_leaves D offset idx (bp_leaves p) []) in *.
  unfold Merkle.gcore in Ec. apply bind_Ok in Ec. destruct Ec as (imap & Emi & Ec).
  apply map_indexes_inv in Emi. destruct Emi as (Hd64 & ND & Hr & IM & _).
  destruct (negb _); [discriminate|]. fold offset in Ec.
  apply bind_Ok in Ec. destruct Ec as ([[[v1 ptrs1] ptm1] next1] & Ef & Ec).
  apply bind_Ok in Ec. destruct Ec as ([[v2' ptrs2] ptm2'] & El & Ec).
  destruct (negb _); [discriminate|]. injection Ec as -> ->.
  set (norm := normalize_indexes idx) in *.
  assert (Hdz : 1 <= bp_depth p) by lia.
  destruct (offset_even (bp_depth p) Hdz) as [Hoe Ho2]. fold offset in Hoe, Ho2.
  assert (HL' : length idx = length (bp_leaves p)) by (unfold zlen in *; lia).
  destruct (ptm_leaves_spec D offset idx (bp_leaves p) [] ND HL' ltac:(intros; reflexivity)) as (_ & PG & PP). fold ptm0 in PG, PP.
  assert (Hnorm : forall e, In e norm -> 0 <= e < offset /\ e mod 2 = 0).
  { intros e He. apply normalize_In in He. destruct He as (i & Hi & ->). pose proof (Hr i Hi). pose proof (Hu i Hi).
    pose proof (Z.div_mod i 2 ltac:(lia)). pose proof (Z.mod_pos_bound i 2 ltac:(lia)). fold offset in H.
    split; [lia|]. replace (i - i mod 2) with (0 + (i / 2) * 2) by lia. rewrite Z.mod_add by lia. reflexivity. }
  destruct (gfirst_inv D d0 merge p imap (bp_depth p) Hdz norm 0 [] ptm0 v1 ptrs1 ptm1 next1 Ef (normalize_sorted idx) Hnorm)
    as (F0 & F1 & F2 & F3 & F4 & F5).
  { intros e x He. destruct (Hnorm e He) as [Her Hev]. split; intros Ex; apply PP in Ex;
      destruct Ex as [Ex|(j & i & Ei & Ex & Ek)]; try discriminate.
    - exists (Z.of_nat j). rewrite Nat2Z.id. split; [|assumption]. apply IM. rewrite Nat2Z.id.
      split; [lia|]. rewrite Ei. f_equal. fold offset in Ek. lia.
    - exists (Z.of_nat j). rewrite Nat2Z.id. split; [|assumption]. apply IM. rewrite Nat2Z.id.
      split; [lia|]. rewrite Ei. f_equal. fold offset in Ek. lia. }
  { intros e He. destruct (Hnorm e He) as [Her Hev]. fold offset.
    destruct (bt_get ((offset + e) / 2) ptm0) eqn:Ex; [|reflexivity]. exfalso.
    apply PP in Ex. destruct Ex as [Ex|(j & i & Ei & _ & Ek)]; [discriminate|].
    pose proof (Hu i (nth_error_In _ _ Ei)).
    pose proof (Z.div_mod (offset + e) 2 ltac:(lia)). pose proof (Z.mod_pos_bound (offset + e) 2 ltac:(lia)). lia. }
  fold offset in F1, F2, F5.
  set (k := pred d). assert (Hk : bp_depth p - 1 = Z.of_nat k) by (unfold k; lia).
  rewrite Hk, Nat2Z.id in El.
  assert (Hoff : offset = 2 * 2 ^ Z.of_nat k).
  { unfold offset. rewrite (pow2_split _ Hdz), Hk. reflexivity. }
  assert (Hpk : 0 < 2 ^ Z.of_nat k) by (apply pow2_pos; lia).
  assert (Hnext : forall b, In b next1 -> lev (Z.of_nat k) b).
  { intros b Hb. rewrite F2 in Hb. apply in_map_iff in Hb. destruct Hb as (e & <- & He). destruct (Hnorm e He) as [Her _].
    unfold lev. rewrite Z.pow_add_r by lia. change (2 ^ 1) with 2.
    pose proof (Z.div_mod (offset + e) 2 ltac:(lia)). pose proof (Z.mod_pos_bound (offset + e) 2 ltac:(lia)). lia. }
  assert (Hprov : forall j y, bt_get j ptm1 = Some y -> j < offset -> In j next1).
  { intros j y Ej Hj. apply F5 in Ej. destruct Ej as [Ej|(e & He & [ -> | [ -> | -> ] ])].
    - apply PP in Ej. destruct Ej as [Ej|(j' & i & Ei & _ & ->)]; [discriminate|].
      pose proof (Hu i (nth_error_In _ _ Ei)). lia.
    - destruct (Hnorm e He). lia.
    - destruct (Hnorm e He). lia.
    - rewrite F2. apply in_map_iff. eauto. }
  destruct (glevels_inv D merge (bp_nodes p) k next1 v1 ptrs1 ptm1 v2 ptrs2 ptm2 El) as (G0 & G1 & G2).
  { split; [rewrite F2; apply ssorted_map_half; try assumption; try lia; [apply normalize_sorted|intros e He; destruct (Hnorm e He); lia]|].
    split; [assumption|]. split; [assumption|]. split.
    - intros b y Hb Eb. apply (Hprov _ y Eb). pose proof (Hnext b Hb) as Lb.
      destruct k as [|k'].
      + unfold lev in Lb. cbn in Lb. assert (b = 1) by lia. subst b. cbn. lia.
      + apply (lev_lxor (Z.of_nat (S k')) b) in Lb; [|lia]. unfold lev in Lb. rewrite Hoff.
        rewrite Z.pow_add_r in Lb by lia. change (2 ^ 1) with 2 in Lb. lia.
    - intros b Hb. destruct (bt_get (b / 2) ptm1) eqn:Eb; [|reflexivity]. exfalso.
      pose proof (Hnext b Hb) as Lb. unfold lev in Lb. rewrite Z.pow_add_r in Lb by lia. change (2 ^ 1) with 2 in Lb.
      pose proof (Z.div_mod b 2 ltac:(lia)). pose proof (Z.mod_pos_bound b 2 ltac:(lia)).
      apply Hprov in Eb; [|lia]. apply Hnext in Eb. unfold lev in Eb. lia. }
  { intros j Hj. destruct (bt_get j ptm1) eqn:Ej; [|reflexivity]. exfalso.
    apply Hprov in Ej; [|lia]. apply Hnext in Ej. unfold lev in Ej. lia. }
  destruct G2 as (r & Ev2 & Ep2).
  { rewrite F2. pose proof (normalize_nonempty idx Hne) as Hnn. fold norm in Hnn. destruct norm; [congruence|discriminate]. }
  split; [exists r; assumption|].
  intros i Hi. pose proof (Hr i Hi) as Hir. fold offset in Hir. pose proof (Hu i Hi) as Hi0.
  destruct (In_nth_error _ _ Hi) as (j0 & Ej0).
  assert (Hj0 : (j0 < length (bp_leaves p))%nat) by (rewrite <- HL'; apply nth_error_Some; congruence).
  destruct (nth_error (bp_leaves p) j0) as [x|] eqn:Ex0; [|apply nth_error_None in Ex0; lia].
  set (s := i + offset).
  assert (Es : bt_get s ptm2 = Some x) by (apply G0, F0; eapply PG; eassumption).
  set (e := i - i mod 2).
  assert (He : In e norm) by (apply normalize_In; exists i; auto).
  pose proof (Z.div_mod i 2 ltac:(lia)) as Hdm.
  assert (Hloc : forall c', anc s c' -> loc D merge ptm2 c').
  { intros c' (j & Hj & -> & Hc'). destruct (Z.eq_dec j 0) as [->|Hj0'].
    - change (2 ^ 0) with 1. rewrite Z.div_1_r. apply (loc_sle D merge _ _ _ G0).
      destruct (F1 e He) as [La Lb]. destruct (mod2_cases i) as [Ei2|Ei2].
      + replace s with (offset + e) by (unfold s, e; lia). assumption.
      + replace s with (offset + e + 1) by (unfold s, e; lia). assumption.
    - apply (G1 ((offset + e) / 2)).
      + rewrite F2. apply in_map_iff. eauto.
      + exists (j - 1). split; [lia|]. split; [|assumption].
        rewrite Z.div_div by (try apply pow2_pos; lia).
        replace (2 * 2 ^ (j - 1)) with (2 ^ j) by (replace j with (Z.succ (j - 1)) at 1 by lia; rewrite Z.pow_succ_r by lia; reflexivity).
        assert (Hh : s / 2 = (offset + e) / 2).
        { unfold s, e. pose proof (Z.div_mod offset 2 ltac:(lia)). destruct (mod2_cases i) as [Ei2|Ei2]; rewrite Ei2.
          - f_equal. lia.
          - replace (i + offset) with (1 + (i / 2 + offset / 2) * 2) by lia.
            replace (offset + (i - 1)) with (0 + (i / 2 + offset / 2) * 2) by lia. rewrite !Z.div_add by lia. reflexivity. }
        replace (2 ^ j) with (2 * 2 ^ (j - 1)) by (replace j with (Z.succ (j - 1)) at 2 by lia; rewrite Z.pow_succ_r by lia; reflexivity).
        rewrite <- !Z.div_div by (try apply pow2_pos; lia). rewrite Hh. reflexivity. }
  destruct (path_of_loc D merge ptm2 d s x 64) as (ps & r2 & Ep & Lp & Er2 & Ev).
  { unfold lev, s. rewrite <- Hdep. fold offset. rewrite Z.pow_add_r by lia. change (2 ^ 1) with 2. fold offset. lia. }
  { lia. }
  { assumption. }
  { assumption. }
  exists (x :: ps).
  unfold Merkle.get_path. destruct (Z.leb_spec 64 (bp_depth p)); [lia|]. fold offset.
  assert (H63 : offset <= 2 ^ 63) by (apply pow2_le_mono; lia).
  rewrite uadd_Ok by (rewrite usz_eq; change (2 ^ 64) with (2 * 2 ^ 63); lia). cbn [bind]. fold s.
  rewrite Es, Ep. reflexivity.
Qed.

Lemma gcore_paths (p : bproof) idx (d : nat) v2 ptm2 :
  (1 <= d)%nat -> bp_depth p = Z.of_nat d -> usize_list idx -> idx <> [] -> zlen idx = zlen (bp_leaves p) ->
  gcore p idx (ptm_leaves D (2 ^ bp_depth p) idx (bp_leaves p) []) = Ok (v2, ptm2) ->
  (exists r, bt_get 1 v2 = Some r) /\
  forall i, In i idx -> exists path, get_path D i ptm2 (bp_depth p) = Ok path.
Proof.
  intros Hd1 Hdep Hu Hne HL. destruct (bp_leaves p) as [|d0 lr] eqn:El.
  - destruct idx; [congruence|]. unfold zlen in HL. simpl in HL. lia.
  - rewrite <- El in *. apply (gcore_paths_inh d0 p idx d); assumption.
Qed.

(* depth 0: the only admissible position is 0, whose "path" is the leaf alone *)
Lemma gcore_paths0 (p : bproof) idx v2 ptm2 :
  bp_depth p = 0 -> usize_list idx -> zlen idx = zlen (bp_leaves p) ->
  gcore p idx (ptm_leaves D (2 ^ bp_depth p) idx (bp_leaves p) []) = Ok (v2, ptm2) ->
  forall i, In i idx -> exists path, get_path D i ptm2 (bp_depth p) = Ok path.
Proof.
  intros Hd0 Hu HLl Ec i Hi. rewrite Hd0 in *. change (2 ^ 0) with 1 in *.
  set (ptm0 := ptm_leaves D 1 idx (bp_leaves p) []) in *.
  unfold Merkle.gcore in Ec. apply bind_Ok in Ec. destruct Ec as (imap & Emi & Ec). rewrite Hd0 in Emi.
  apply map_indexes_inv in Emi. destruct Emi as (_ & ND & Hr & _ & _).
  destruct (negb _); [discriminate|]. rewrite Hd0 in Ec. change (2 ^ 0) with 1 in Ec.
  apply bind_Ok in Ec. destruct Ec as ([[[v1 ptrs1] ptm1] next1] & Ef & Ec).
  change (Z.to_nat (0 - 1)) with 0%nat in Ec. cbn [Merkle.glevels bind] in Ec.
  destruct (negb _); [discriminate|]. injection Ec as <- <-.
  apply gfirst_kin in Ef. destruct Ef as (_ & _ & MP).
  assert (HL' : length idx = length (bp_leaves p)) by (unfold zlen in *; lia).
  destruct (ptm_leaves_spec D 1 idx (bp_leaves p) [] ND HL' ltac:(intros; reflexivity)) as (_ & PG & _). fold ptm0 in PG.
  pose proof (Hr i Hi) as Hi1. change (2 ^ 0) with 1 in Hi1. pose proof (Hu i Hi) as Hi0. assert (i = 0) by lia. subst i.
  destruct (In_nth_error _ _ Hi) as (j0 & Ej0).
  assert (Hj0 : (j0 < length (bp_leaves p))%nat) by (rewrite <- HL'; apply nth_error_Some; congruence).
  destruct (nth_error (bp_leaves p) j0) as [x|] eqn:Ex0; [|apply nth_error_None in Ex0; lia].
  pose proof (PG j0 0 x Ej0 Ex0) as E1. cbn in E1.
  unfold Merkle.get_path. cbn [Z.leb Z.compare]. change (2 ^ 0) with 1.
  rewrite uadd_Ok by (rewrite usz_eq; lia). cbn [bind]. change (0 + 1) with 1.
  destruct (bt_get 1 ptm1) as [leaf|] eqn:E2; [|exfalso; apply (MP 1); [congruence|assumption]].
  exists [leaf]. reflexivity.
Qed.

(* into_paths / get_path: lines 310, 316, 338, 342, 373, 387, 520, 528 are dead *)
Theorem into_paths_dead : forall (p : bproof) indexes, 0 <= bp_depth p -> usize_list indexes ->
  into_paths_s p indexes = into_paths p indexes.
Proof.
  intros p indexes Hd Hu. unfold MerkleStrict.into_paths_s, Merkle.into_paths.
  destruct indexes as [|i0 ir] eqn:Ei; [reflexivity|]. rewrite <- Ei in *.
  assert (Hne : indexes <> []) by (rewrite Ei; discriminate).
  destruct (max_paths <? zlen indexes); [reflexivity|].
  destruct (Z.eqb_spec (zlen indexes) (zlen (bp_leaves p))) as [HL|]; cbn [negb]; [|reflexivity].
  rewrite gcore_dead by assumption.
  destruct (gcore p indexes _) as [[v ptm]| |] eqn:Ec; cbn [bind]; [|reflexivity|reflexivity].
  apply mapM_ext_Ok. intros i Hi.
  assert (Hp : exists path, get_path D i ptm (bp_depth p) = Ok path).
  { destruct (Z.eq_dec (bp_depth p) 0) as [H0|H0].
    - eapply gcore_paths0; eassumption.
    - eapply (gcore_paths p indexes (Z.to_nat (bp_depth p))); try eassumption; lia. }
  destruct Hp as (path & Ep). exists path. split; [assumption|apply get_path_Ok; assumption].
Qed.

(* with depth >= 1 the common core, once through, has computed the root: the last error of get_root
   (`v.remove(&1).ok_or(InvalidProof)`, line 257) is reachable only for a proof of depth 0 *)
Theorem gcore_root : forall (p : bproof) idx v ptm, 1 <= bp_depth p -> usize_list idx -> idx <> [] ->
  zlen idx = zlen (bp_leaves p) -> gcore p idx [] = Ok (v, ptm) -> bt_get 1 v <> None.
Proof.
  intros p idx v ptm Hd Hu Hne HL Ec.
  destruct (gcore_irrel D merge p idx [] (ptm_leaves D (2 ^ bp_depth p) idx (bp_leaves p) []) v ptm Ec) as (ptm' & Ec').
  destruct (gcore_paths p idx (Z.to_nat (bp_depth p)) v ptm') as [(r & Er) _]; try assumption; try lia.
  congruence.
Qed.

End Dead.

(* ================================================================ ill-shaped openings are errors *)
Section Shape.
Variable D : Type.
Variable merge : D -> D -> D.

Notation bproof := (bproof D).
Notation gscan := (gscan D merge).
Notation glevels := (glevels D merge).
Notation gfirst := (gfirst D merge).
Notation gleaf := (gleaf D).
Notation gstep := (gstep D merge).
Notation gsib := (gsib D).
Notation gcore := (gcore D merge).
Notation get_root := (get_root D merge).
Notation into_paths := (into_paths D merge).

(* the guards on the position list and on the counts of leaves and node vectors *)
Definition shape_guards (p : bproof) (indexes : list Z) : Prop :=
  indexes <> [] /\ zlen indexes <= 255 /\ zlen indexes = zlen (bp_leaves p) /\ NoDup indexes /\
  (forall i, In i indexes -> i < 2 ^ bp_depth p) /\ bp_depth p < 64 /\
  zlen (normalize_indexes indexes) = zlen (bp_nodes p).

Theorem into_paths_Ok_guards : forall p indexes paths, into_paths p indexes = Ok paths -> shape_guards p indexes.
Proof.
  intros p indexes paths. unfold Merkle.into_paths, shape_guards. destruct indexes as [|i0 ir] eqn:Ei; [discriminate|]. rewrite <- Ei in *.
  unfold max_paths. destruct (Z.ltb_spec 255 (zlen indexes)); [discriminate|].
  destruct (Z.eqb_spec (zlen indexes) (zlen (bp_leaves p))); cbn [negb]; [|discriminate].
  intros E. apply bind_Ok in E. destruct E as ([v ptm] & Eg & _).
  unfold Merkle.gcore in Eg. apply bind_Ok in Eg. destruct Eg as (imap & Emi & Eg).
  apply map_indexes_inv in Emi. destruct Emi as (Hd & ND & Hr & _).
  destruct (Z.eqb_spec (zlen (normalize_indexes indexes)) (zlen (bp_nodes p))); cbn [negb] in Eg; [|discriminate].
  repeat split; try assumption; try lia. rewrite Ei. discriminate.
Qed.

(* an opening violating any guard is an error of get_root / verify_batch / into_paths: not accepted, no panic *)
Theorem get_root_ill_shaped : forall p indexes, 0 <= bp_depth p -> usize_list indexes ->
  ~ shape_guards p indexes -> exists e, get_root p indexes = Err e.
Proof.
  intros p indexes Hd Hu Hn. destruct (get_root p indexes) as [r|e|] eqn:E.
  - exfalso. apply Hn. exact (get_root_Ok_guards D merge p indexes r E).
  - eauto.
  - exfalso. exact (get_root_total D merge p indexes Hd Hu E).
Qed.

Theorem verify_batch_ill_shaped : forall D_eqb root p indexes, 0 <= bp_depth p -> usize_list indexes ->
  ~ shape_guards p indexes -> exists e, verify_batch D D_eqb merge root indexes p = Err e.
Proof.
  intros D_eqb root p indexes Hd Hu Hn. destruct (get_root_ill_shaped p indexes Hd Hu Hn) as (e & E).
  exists e. unfold Merkle.verify_batch. rewrite E. reflexivity.
Qed.

Theorem into_paths_ill_shaped : forall p indexes, 0 <= bp_depth p -> usize_list indexes ->
  ~ shape_guards p indexes -> exists e, into_paths p indexes = Err e.
Proof.
  intros p indexes Hd Hu Hn. destruct (into_paths p indexes) as [r|e|] eqn:E.
  - exfalso. apply Hn. exact (into_paths_Ok_guards p indexes r E).
  - eauto.
  - exfalso. exact (into_paths_total D merge p indexes Hd Hu E).
Qed.

(* ---------------------------------------------------------------- the accepted shape is unique
   The proof pointers (how many nodes of each vector are consumed) depend on the position list and the depth
   only, and acceptance requires every vector to be consumed exactly: two openings of the same positions and
   depth that both pass the structural checks have node vectors of the same lengths. *)
Lemma gleaf_shape (p1 p2 : bproof) imap i e b0 b1 ptr c0 c1 ptr' :
  gleaf p1 imap i e = Ok (b0, b1, ptr) -> gleaf p2 imap i e = Ok (c0, c1, ptr') -> ptr = ptr'.
Proof.
  unfold Merkle.gleaf. destruct (uadd e 1) as [i1| |]; cbn [bind]; try discriminate.
  destruct (bt_get e imap); destruct (bt_get i1 imap); intros E1 E2;
    apply bind_Ok in E1; destruct E1 as (x0 & _ & E1); apply bind_Ok in E2; destruct E2 as (y0 & _ & E2);
    try discriminate;
    apply bind_Ok in E1; destruct E1 as (x1 & _ & E1); apply bind_Ok in E2; destruct E2 as (y1 & _ & E2); congruence.
Qed.

Lemma gfirst_shape (p1 p2 : bproof) imap offset : forall norm i v1 ptm1 v2 ptm2 vF1 ptrs1 ptmF1 next1 vF2 ptrs2 ptmF2 next2,
  gfirst p1 imap offset norm i v1 ptm1 = Ok (vF1, ptrs1, ptmF1, next1) ->
  gfirst p2 imap offset norm i v2 ptm2 = Ok (vF2, ptrs2, ptmF2, next2) ->
  ptrs1 = ptrs2 /\ next1 = next2 /\ length ptrs1 = length norm.
Proof.
  induction norm as [|e rest IH]; intros i v1 ptm1 v2 ptm2 vF1 ptrs1 ptmF1 next1 vF2 ptrs2 ptmF2 next2 E1 E2.
  - cbn in E1, E2. injection E1 as <- <- <- <-. injection E2 as <- <- <- <-. auto.
  - cbn [Merkle.gfirst] in E1, E2.
    apply bind_Ok in E1. destruct E1 as ([[b0 b1] ptr] & Eg1 & E1). apply bind_Ok in E2. destruct E2 as ([[c0 c1] ptr'] & Eg2 & E2).
    pose proof (gleaf_shape _ _ _ _ _ _ _ _ _ _ _ Eg1 Eg2) as <-.
    apply bind_Ok in E1. destruct E1 as (oi & Eu & E1). apply bind_Ok in E2. destruct E2 as (oi' & Eu' & E2).
    rewrite Eu in Eu'. injection Eu' as <-.
    apply bind_Ok in E1. destruct E1 as ([[[vF1' ptrs1'] ptmF1'] next1'] & Er1 & E1). injection E1 as <- <- <- <-.
    apply bind_Ok in E2. destruct E2 as ([[[vF2' ptrs2'] ptmF2'] next2'] & Er2 & E2). injection E2 as <- <- <- <-.
    destruct (IH _ _ _ _ _ _ _ _ _ _ _ _ _ Er1 Er2) as (-> & -> & L). repeat split. simpl. lia.
Qed.

Lemma gsib_shape pn1 pn2 ptrs i s1 ptrsA s2 ptrsB :
  gsib pn1 ptrs i = Ok (s1, ptrsA) -> gsib pn2 ptrs i = Ok (s2, ptrsB) -> ptrsA = ptrsB /\ length ptrsA = length ptrs.
Proof.
  unfold Merkle.gsib. destruct (idx ptrs i) as [pointer| |]; cbn [bind]; try discriminate. intros E1 E2.
  apply bind_Ok in E1. destruct E1 as (nd1 & _ & E1). apply bind_Ok in E2. destruct E2 as (nd2 & _ & E2).
  destruct (zlen nd1 <=? pointer); [discriminate|]. destruct (zlen nd2 <=? pointer); [discriminate|].
  apply bind_Ok in E1. destruct E1 as (x1 & _ & E1). apply bind_Ok in E2. destruct E2 as (x2 & _ & E2).
  apply bind_Ok in E1. destruct E1 as (q1 & U1 & E1). apply bind_Ok in E2. destruct E2 as (q2 & U2 & E2).
  injection E1 as <- <-. injection E2 as <- <-. rewrite U1 in U2. injection U2 as <-.
  apply upd_inv in U1. split; [reflexivity|tauto].
Qed.

Lemma gstep_pi a s v ptm v1 ptm1 pi : gstep a s v ptm = Ok (v1, ptm1, pi) -> pi = Z.shiftr a 1.
Proof. unfold Merkle.gstep. destruct (bt_get a v); [|discriminate]. intros [= <- <- <-]. reflexivity. Qed.

Lemma gscan_shape pn1 pn2 : forall n I i ptrs v1 ptm1 v2 ptm2 vF1 ptrsF1 ptmF1 next1 vF2 ptrsF2 ptmF2 next2, (length I <= n)%nat ->
  gscan pn1 I i v1 ptrs ptm1 = Ok (vF1, ptrsF1, ptmF1, next1) ->
  gscan pn2 I i v2 ptrs ptm2 = Ok (vF2, ptrsF2, ptmF2, next2) ->
  ptrsF1 = ptrsF2 /\ next1 = next2 /\ length ptrsF1 = length ptrs.
Proof.
  induction n as [|n IH]; intros I i ptrs v1 ptm1 v2 ptm2 vF1 ptrsF1 ptmF1 next1 vF2 ptrsF2 ptmF2 next2 Hn E1 E2.
  { destruct I; [|simpl in Hn; lia]. cbn in E1, E2. injection E1 as <- <- <- <-. injection E2 as <- <- <- <-. auto. }
  destruct I as [|a rest]; [cbn in E1, E2; injection E1 as <- <- <- <-; injection E2 as <- <- <- <-; auto|].
  rewrite gscan_unfold in E1, E2. destruct (merged a rest) eqn:Em.
  - destruct (bt_get (Z.lxor a 1) v1) as [s1|]; [|discriminate]. destruct (bt_get (Z.lxor a 1) v2) as [s2|]; [|discriminate].
    apply bind_Ok in E1. destruct E1 as ([[w1 q1] pi1] & Eg1 & E1). apply bind_Ok in E2. destruct E2 as ([[w2 q2] pi2] & Eg2 & E2).
    apply gstep_pi in Eg1. apply gstep_pi in Eg2. subst pi1 pi2.
    apply bind_Ok in E1. destruct E1 as ([[[vF1' ptrsF1'] ptmF1'] next1'] & Er1 & E1). injection E1 as <- <- <- <-.
    apply bind_Ok in E2. destruct E2 as ([[[vF2' ptrsF2'] ptmF2'] next2'] & Er2 & E2). injection E2 as <- <- <- <-.
    assert (Hlen : (length (tl rest) <= n)%nat) by (pose proof (tl_length_le rest); simpl in Hn; lia).
    destruct (IH _ _ _ _ _ _ _ _ _ _ _ _ _ _ _ Hlen Er1 Er2) as (-> & -> & L). auto.
  - apply bind_Ok in E1. destruct E1 as ([s1 ptrsA] & Es1 & E1). apply bind_Ok in E2. destruct E2 as ([s2 ptrsB] & Es2 & E2).
    destruct (gsib_shape _ _ _ _ _ _ _ _ Es1 Es2) as [<- LA].
    apply bind_Ok in E1. destruct E1 as ([[w1 q1] pi1] & Eg1 & E1). apply bind_Ok in E2. destruct E2 as ([[w2 q2] pi2] & Eg2 & E2).
    apply gstep_pi in Eg1. apply gstep_pi in Eg2. subst pi1 pi2.
    apply bind_Ok in E1. destruct E1 as ([[[vF1' ptrsF1'] ptmF1'] next1'] & Er1 & E1). injection E1 as <- <- <- <-.
    apply bind_Ok in E2. destruct E2 as ([[[vF2' ptrsF2'] ptmF2'] next2'] & Er2 & E2). injection E2 as <- <- <- <-.
    assert (Hlen : (length rest <= n)%nat) by (simpl in Hn; lia).
    destruct (IH _ _ _ _ _ _ _ _ _ _ _ _ _ _ _ Hlen Er1 Er2) as (-> & -> & L). repeat split. lia.
Qed.

Lemma glevels_shape pn1 pn2 : forall k I ptrs v1 ptm1 v2 ptm2 vF1 ptrsF1 ptmF1 vF2 ptrsF2 ptmF2,
  glevels k pn1 I v1 ptrs ptm1 = Ok (vF1, ptrsF1, ptmF1) ->
  glevels k pn2 I v2 ptrs ptm2 = Ok (vF2, ptrsF2, ptmF2) ->
  ptrsF1 = ptrsF2 /\ length ptrsF1 = length ptrs.
Proof.
  induction k as [|k IH]; intros I ptrs v1 ptm1 v2 ptm2 vF1 ptrsF1 ptmF1 vF2 ptrsF2 ptmF2 E1 E2.
  - cbn in E1, E2. injection E1 as <- <- <-. injection E2 as <- <- <-. auto.
  - cbn [Merkle.glevels] in E1, E2.
    apply bind_Ok in E1. destruct E1 as ([[[w1 q1] m1] nx1] & Es1 & E1). apply bind_Ok in E2. destruct E2 as ([[[w2 q2] m2] nx2] & Es2 & E2).
    destruct (gscan_shape pn1 pn2 (length I) _ _ _ _ _ _ _ _ _ _ _ _ _ _ _ (le_n _) Es1 Es2) as (<- & <- & L).
    destruct (IH _ _ _ _ _ _ _ _ _ _ _ _ E1 E2) as (-> & L2). split; [reflexivity|lia].
Qed.

Lemma all_consumed_lengths : forall (ptrs : list Z) (nodes : list (list D)),
  length ptrs = length nodes -> all_consumed D ptrs nodes = true -> map (@zlen D) nodes = ptrs.
Proof.
  induction ptrs as [|q ptrs IH]; intros [|nd nodes] HL H; try discriminate; [reflexivity|].
  cbn [Merkle.all_consumed] in H. apply andb_true_iff in H. destruct H as [H1 H2]. apply Z.eqb_eq in H1.
  cbn [map]. rewrite IH by (try assumption; simpl in HL; lia). congruence.
Qed.

Theorem gcore_shape_unique : forall (p1 p2 : bproof) indexes ptmA ptmB r1 r2, bp_depth p1 = bp_depth p2 ->
  gcore p1 indexes ptmA = Ok r1 -> gcore p2 indexes ptmB = Ok r2 ->
  map (@zlen D) (bp_nodes p1) = map (@zlen D) (bp_nodes p2).
Proof.
  intros p1 p2 indexes ptmA ptmB r1 r2 Hd E1 E2. unfold Merkle.gcore in E1, E2. rewrite <- Hd in E2.
  destruct (map_indexes indexes (bp_depth p1)) as [imap| |]; cbn [bind] in E1, E2; try discriminate.
  destruct (Z.eqb_spec (zlen (normalize_indexes indexes)) (zlen (bp_nodes p1))) as [L1|]; cbn [negb] in E1; [|discriminate].
  destruct (Z.eqb_spec (zlen (normalize_indexes indexes)) (zlen (bp_nodes p2))) as [L2|]; cbn [negb] in E2; [|discriminate].
  apply bind_Ok in E1. destruct E1 as ([[[v1 ptrs1] ptm1] next1] & Ef1 & E1).
  apply bind_Ok in E2. destruct E2 as ([[[v2 ptrs2] ptm2] next2] & Ef2 & E2).
  destruct (gfirst_shape _ _ _ _ _ _ _ _ _ _ _ _ _ _ _ _ _ _ Ef1 Ef2) as (<- & <- & LF).
  apply bind_Ok in E1. destruct E1 as ([[w1 q1] m1] & El1 & E1). apply bind_Ok in E2. destruct E2 as ([[w2 q2] m2] & El2 & E2).
  destruct (glevels_shape _ _ _ _ _ _ _ _ _ _ _ _ _ _ _ El1 El2) as (<- & LL).
  destruct (all_consumed D q1 (bp_nodes p1)) eqn:A1; cbn [negb] in E1; [|discriminate].
  destruct (all_consumed D q1 (bp_nodes p2)) eqn:A2; cbn [negb] in E2; [|discriminate].
  rewrite (all_consumed_lengths q1 (bp_nodes p1)) by (try assumption; unfold zlen in *; lia).
  rewrite (all_consumed_lengths q1 (bp_nodes p2)) by (try assumption; unfold zlen in *; lia). reflexivity.
Qed.

Theorem get_root_shape_unique : forall (p1 p2 : bproof) indexes r1 r2, bp_depth p1 = bp_depth p2 ->
  get_root p1 indexes = Ok r1 -> get_root p2 indexes = Ok r2 ->
  length (bp_leaves p1) = length (bp_leaves p2) /\ map (@zlen D) (bp_nodes p1) = map (@zlen D) (bp_nodes p2).
Proof.
  intros p1 p2 indexes r1 r2 Hd E1 E2.
  pose proof (get_root_Ok_guards D merge _ _ _ E1) as (_ & _ & HL1 & _). pose proof (get_root_Ok_guards D merge _ _ _ E2) as (_ & _ & HL2 & _).
  split; [unfold zlen in *; lia|].
  unfold Merkle.get_root in E1, E2. destruct indexes as [|i0 ir] eqn:Ei; [discriminate|]. rewrite <- Ei in *.
  destruct (max_paths <? zlen indexes); [discriminate|].
  destruct (negb (zlen indexes =? zlen (bp_leaves p1))); [discriminate|]. destruct (negb (zlen indexes =? zlen (bp_leaves p2))); [discriminate|].
  apply bind_Ok in E1. destruct E1 as (x1 & Ec1 & _). apply bind_Ok in E2. destruct E2 as (x2 & Ec2 & _).
  eapply gcore_shape_unique; eassumption.
Qed.

Theorem into_paths_shape_unique : forall (p1 p2 : bproof) indexes r1 r2, bp_depth p1 = bp_depth p2 ->
  into_paths p1 indexes = Ok r1 -> into_paths p2 indexes = Ok r2 ->
  length (bp_leaves p1) = length (bp_leaves p2) /\ map (@zlen D) (bp_nodes p1) = map (@zlen D) (bp_nodes p2).
Proof.
  intros p1 p2 indexes r1 r2 Hd E1 E2.
  pose proof (into_paths_Ok_guards _ _ _ E1) as (_ & _ & HL1 & _). pose proof (into_paths_Ok_guards _ _ _ E2) as (_ & _ & HL2 & _).
  split; [unfold zlen in *; lia|].
  unfold Merkle.into_paths in E1, E2. destruct indexes as [|i0 ir] eqn:Ei; [discriminate|]. rewrite <- Ei in *.
  destruct (max_paths <? zlen indexes); [discriminate|].
  destruct (negb (zlen indexes =? zlen (bp_leaves p1))); [discriminate|]. destruct (negb (zlen indexes =? zlen (bp_leaves p2))); [discriminate|].
  apply bind_Ok in E1. destruct E1 as (x1 & Ec1 & _). apply bind_Ok in E2. destruct E2 as (x2 & Ec2 & _).
  eapply gcore_shape_unique; eassumption.
Qed.

End Shape.

(* an opening of a tree's depth that get_root accepts (for any root) has exactly the shape of the honest opening
   prove_batch produces for the same position list: a missing or surplus leaf, node vector, or node at ANY level
   is an error *)
Theorem accepted_has_honest_shape : forall (D : Type) (D_eqb : D -> D -> bool),
  (forall a b, D_eqb a b = true <-> a = b) -> forall (d0 : D) (merge : D -> D -> D)
  leaves t (d : nat) root indexes (p : bproof D) r,
  mt_new D d0 merge leaves = Ok t -> zlen leaves = 2 ^ Z.of_nat d -> (d <= 62)%nat -> mt_root D t = Ok root ->
  (forall i, In i indexes -> 0 <= i) -> bp_depth p = Z.of_nat d -> get_root D merge p indexes = Ok r ->
  exists hp, mt_prove_batch D d0 t indexes = Ok hp /\
    length (bp_leaves p) = length (bp_leaves hp) /\ map (@zlen D) (bp_nodes p) = map (@zlen D) (bp_nodes hp).
Proof.
  intros D D_eqb Hspec d0 merge leaves t d root indexes p r En HL Hd Er Hnn Hdep Eg.
  pose proof (get_root_Ok_guards D merge _ _ _ Eg) as (Hne & Hlen & _ & ND & Hr & _ & _).
  destruct (batch_complete D D_eqb Hspec d0 merge leaves t d root indexes En HL Hd Er Hne Hlen ND) as (hp & Ep & Hdp & _ & _ & Eh & _).
  { intros i Hi. split; [apply Hnn; assumption|]. rewrite HL, <- Hdep. apply Hr. assumption. }
  exists hp. split; [assumption|]. eapply get_root_shape_unique; [|eassumption|eassumption]. congruence.
Qed.

(* ================================================================ non-vacuity *)
Definition ex_honest : bproof Z := {| bp_leaves := [60; 10; 50]; bp_nodes := [[20; 131]; [291]]; bp_depth := 3 |}.

(* hypotheses of the ill_shaped theorems: each guard can be violated alone *)
Example ex_ill_shaped_hyps :
  ~ shape_guards Z {| bp_leaves := [60; 10]; bp_nodes := [[20; 131]; [291]]; bp_depth := 3 |} [5; 0; 4] /\
  ~ shape_guards Z {| bp_leaves := [60; 10; 50]; bp_nodes := [[20; 131]]; bp_depth := 3 |} [5; 0; 4] /\
  ~ shape_guards Z ex_honest [5; 0; 8] /\ ~ shape_guards Z ex_honest [5; 0; 5] /\
  0 <= bp_depth ex_honest /\ usize_list [5; 0; 8].
Proof.
  repeat split.
  - intros (_ & _ & H & _). vm_compute in H. discriminate.
  - intros (_ & _ & _ & _ & _ & _ & H). vm_compute in H. discriminate.
  - intros (_ & _ & _ & _ & H & _). specialize (H 8 ltac:(simpl; tauto)). vm_compute in H. discriminate.
  - intros (_ & _ & _ & H & _). inversion H as [|? ? Hn5 _]. apply Hn5. simpl. tauto.
  - vm_compute. congruence.
  - intros x [<-|[<-|[<-|[]]]]; lia.
Qed.

(* hypotheses of shape_unique: two accepted openings of the same positions with different digests *)
Example ex_shape_unique_hyps :
  get_root Z mg ex_honest [5; 0; 4] = Ok 1781 /\
  get_root Z mg {| bp_leaves := [61; 10; 50]; bp_nodes := [[20; 131]; [291]]; bp_depth := 3 |} [5; 0; 4] = Ok 1784.
Proof. split; vm_compute; reflexivity. Qed.

(* the strict twin with dead := Panic on openings aimed at the dead branches: the neighbouring live guard answers *)
Definition dpanic : forall A : Type, res A := fun _ => Panic.
Example ex_strict_runs :
  (* fewer leaves than positions (aimed at 154/160/182): the leaf-count check answers *)
  get_root_s Z mg dpanic {| bp_leaves := [60; 10]; bp_nodes := [[20; 131]; [291]]; bp_depth := 3 |} [5; 0; 4] = Err InvalidProof /\
  (* a node vector per pair although a pair is missing (aimed at 186) *)
  get_root_s Z mg dpanic {| bp_leaves := [60; 10; 50]; bp_nodes := [[20; 131]; [291]; [7]]; bp_depth := 3 |} [5; 0; 4] = Err InvalidProof /\
  (* depth too small for the level structure (aimed at 215/230) *)
  get_root_s Z mg dpanic {| bp_leaves := [60; 10; 50]; bp_nodes := [[20; 131]; [291]]; bp_depth := 2 |} [5; 0; 4] = Err (LeafIndexOutOfBounds 4 5) /\
  (* depth larger than the node vectors provide for (aimed at 520/528) *)
  into_paths_s Z mg dpanic {| bp_leaves := [60; 10; 50]; bp_nodes := [[20; 131]; [291]]; bp_depth := 4 |} [5; 0; 4] = Err InvalidProof /\
  into_paths_s Z mg dpanic ex_honest [5; 0; 4] = into_paths Z mg ex_honest [5; 0; 4].
Proof. repeat split; vm_compute; reflexivity. Qed.

(* depth byte 0: get_root reports the missing root (line 257), into_paths returns the bare leaf as a "path" of
   length 1, which MerkleTree::verify rejects (C10_verify_short) *)
Example ex_depth0 :
  get_root Z mg {| bp_leaves := [60]; bp_nodes := [[7]]; bp_depth := 0 |} [0] = Err InvalidProof /\
  into_paths Z mg {| bp_leaves := [60]; bp_nodes := [[7]]; bp_depth := 0 |} [0] = Ok [[60]].
Proof. split; vm_compute; reflexivity. Qed.
