(* C17 — index-level theorems: the periodic value table and the three prover-side representations of a boundary
   constraint.  stdlib style; arbitrary field with FLaws, arbitrary sizes. *)
From Coq Require Import List Arith Bool Lia Ring Field ZArith.
From VBase Require Import FieldOps.
From VModel Require Import Composition.
From VProofs Require Import CompositionBase.
Import ListNotations.

Section Index.
Context {F : Type} (O : FOps F) (L : FLaws O).
Add Ring Fr : (FLaws_ring_theory O L).
Add Field Ff : (FLaws_field_theory O L).

Local Notation fz := (fzero O).
Local Notation f1 := (fone O).
Local Infix "+f" := (fadd O) (at level 50, left associativity).
Local Infix "-f" := (fsub O) (at level 50, left associativity).
Local Infix "*f" := (fmul O) (at level 40, left associativity).
Local Notation cpow := (cpow O).
Local Notation peval := (peval O).
Local Notation horner := (horner O).

(* the domains *)
Variable n ceb : nat.
Variable offset : F.
Variable rou : nat -> F.
Hypothesis n_pos : n <> 0.
Hypothesis ceb_pos : ceb <> 0.
Local Notation ce_size := (ce_size n ceb).
Local Notation wce := (wce n ceb rou).
(* the generator of the constraint evaluation domain has order dividing |ce domain| *)
Hypothesis wce_order : cpow wce ce_size = f1.

Lemma ce_size_pos : ce_size <> 0.
Proof. unfold Composition.ce_size. nia. Qed.

Definition ce_x (step : nat) : F := cpow wce step *f offset.

Lemma get_ce_x_at_spec step : step < ce_size -> get_ce_x_at O n ceb offset rou step = Some (ce_x step).
Proof.
  intros H. unfold get_ce_x_at, ce_domain. now rewrite (power_series_nth O L) by assumption.
Qed.

Lemma get_ce_x_power_at_spec step power oe :
  get_ce_x_power_at O n ceb rou step power oe = Some (cpow (cpow wce step) power *f oe).
Proof.
  unfold get_ce_x_power_at, ce_domain.
  rewrite (power_series_nth O L) by (apply Nat.mod_upper_bound, ce_size_pos).
  rewrite (cpow_mod O L) by (apply ce_size_pos || exact wce_order). now rewrite (cpow_mul O L).
Qed.

(* fft::evaluate_poly_with_offset, pointwise *)
Lemma eval_poly_with_offset_nth p off blowup i : i < length p * blowup ->
  nth_error (eval_poly_with_offset O rou p off blowup) i
  = Some (peval p (off *f cpow (rou (length p * blowup)) i)).
Proof.
  intros H. unfold eval_poly_with_offset. rewrite nth_error_map, (power_series_nth O L) by assumption.
  reflexivity.
Qed.

Lemma eval_poly_with_offset_length p off blowup :
  length (eval_poly_with_offset O rou p off blowup) = length p * blowup.
Proof. unfold eval_poly_with_offset. now rewrite map_length, (power_series_length O). Qed.

(* ================================================================ PeriodicValueTable *)
Section Periodic.
Variable ppolys : list (list F).
Local Notation max_size := (fold_left Nat.max (map (@length F) ppolys) 0).
(* what `Air::get_periodic_column_polys` guarantees (its three asserts) and what get_root_of_unity satisfies *)
Hypothesis polys_nonempty : ppolys <> [].
Hypothesis poly_len_pos : forall p, In p ppolys -> length p <> 0.
Hypothesis poly_len_div_n : forall p, In p ppolys -> length p * (n / length p) = n.
Hypothesis poly_len_div_max : forall p, In p ppolys -> exists q, max_size = length p * q.
Hypothesis rou_compat : forall p, In p ppolys -> rou (length p * ceb) = cpow wce (n / length p).

Lemma max_size_ge : forall p, In p ppolys -> length p <= max_size.
Proof.
  assert (G0 : forall l a, a <= fold_left Nat.max l a).
  { induction l; intros a0; simpl; [lia|]. etransitivity; [|apply IHl]. lia. }
  assert (G : forall l a x, In x l -> x <= fold_left Nat.max l a).
  { induction l; intros a0 x Hx; simpl in *; [tauto|]. destruct Hx as [->|Hx]; [|now apply IHl].
    etransitivity; [|apply G0]. lia. }
  intros p Hp. apply G. now apply in_map.
Qed.

Lemma max_size_pos : max_size <> 0.
Proof.
  assert (Hex : exists p, In p ppolys) by (destruct ppolys; [congruence | eexists; now left]).
  destruct Hex as [p Hp].
  pose proof (max_size_ge p Hp). pose proof (poly_len_pos p Hp). lia.
Qed.

Lemma rou_poly_order p : In p ppolys -> cpow (rou (length p * ceb)) (length p * ceb) = f1.
Proof.
  intros Hp. rewrite (rou_compat p Hp), <- (cpow_mul O L).
  replace (n / length p * (length p * ceb)) with (length p * (n / length p) * ceb) by lia.
  rewrite (poly_len_div_n p Hp). exact wce_order.
Qed.

(* one entry of the table *)
Lemma periodic_entry p step : In p ppolys ->
  peval p (cpow offset (n / length p) *f cpow (rou (length p * ceb)) (step mod (length p * ceb)))
  = peval p (cpow (ce_x step) (n / length p)).
Proof.
  intros Hp. f_equal. pose proof (poly_len_pos p Hp).
  rewrite (cpow_mod O L) by (try nia; now apply rou_poly_order).
  unfold ce_x. rewrite (cpow_mul_base O L), (rou_compat p Hp), <- !(cpow_mul O L).
  rewrite (Nat.mul_comm step). ring.
Qed.

Definition periodic_spec_row (step : nat) : list F :=
  map (fun p => peval p (cpow (ce_x step) (n / length p))) ppolys.

(* periodic_row_spec: the table exists (no panic) and get_row(step) is, for EVERY step, the list of the periodic
   columns' values p_k(x_step^(n / len p_k)) at x_step = offset * w_ce^step *)
Theorem periodic_row_spec :
  exists t, ptable_new O n ceb offset rou ppolys = Some t /\
            forall step, pt_get_row t step = Some (periodic_spec_row step).
Proof.
  set (evaluations := map (fun poly => eval_poly_with_offset O rou poly (cpow offset (n / length poly)) ceb) ppolys).
  set (rowf := fun i => map (fun p => peval p (cpow offset (n / length p) *f
                                       cpow (rou (length p * ceb)) (i mod (length p * ceb)))) ppolys).
  assert (Hrows : mapM (fun i => mapM (fun column => match length column with 0 => None
                               | _ => nth_error column (i mod length column) end) evaluations)
                       (seq 0 (max_size * ceb)) = Some (map rowf (seq 0 (max_size * ceb)))).
  { apply mapM_some. intros i _. unfold evaluations, rowf.
    rewrite (mapM_some _ (fun column => nth (i mod length column) column fz)).
    - f_equal. rewrite map_map. apply map_ext_in. intros p Hp.
      pose proof (poly_len_pos p Hp).
      assert (Hi : i mod (length p * ceb) < length p * ceb) by (apply Nat.mod_upper_bound; nia).
      rewrite eval_poly_with_offset_length.
      pose proof (eval_poly_with_offset_nth p (cpow offset (n / length p)) ceb _ Hi) as E.
      apply nth_error_nth with (d := fz) in E. exact E.
    - intros column Hc. apply in_map_iff in Hc. destruct Hc as [p [<- Hp]].
      pose proof (poly_len_pos p Hp).
      rewrite eval_poly_with_offset_length.
      destruct (length p * ceb) eqn:E; [nia|]. rewrite <- E.
      assert (Hi : i mod (length p * ceb) < length p * ceb) by (apply Nat.mod_upper_bound; nia).
      pose proof (eval_poly_with_offset_nth p (cpow offset (n / length p)) ceb _ Hi) as E2.
      rewrite E2. symmetry. f_equal. apply nth_error_nth with (d := fz) in E2. exact E2. }
  assert (Hmatch : forall (A : Type) (a b : A), match ppolys with [] => a | _ :: _ => b end = b)
    by (intros; destruct ppolys; [congruence | reflexivity]).
  unfold ptable_new. rewrite Hmatch.
  fold evaluations. rewrite Hrows. eexists; split; [reflexivity|].
  intros step. unfold pt_get_row. cbn [pt_width pt_length pt_values].
  assert (Hw : length ppolys <> 0) by (destruct ppolys; [congruence | simpl; lia]).
  apply Nat.eqb_neq in Hw. rewrite Hw. apply Nat.eqb_neq in Hw.
  pose proof max_size_pos as Hm.
  destruct (max_size * ceb) eqn:Ecl; [nia|]. rewrite <- Ecl.
  assert (Hr : step mod (max_size * ceb) < max_size * ceb) by (apply Nat.mod_upper_bound; nia).
  assert (Hlenrow : forall row, In row (map rowf (seq 0 (max_size * ceb))) -> length row = length ppolys).
  { intros row Hrow. apply in_map_iff in Hrow. destruct Hrow as [i [<- _]]. unfold rowf. now rewrite map_length. }
  rewrite (concat_length_rows _ _ Hlenrow), map_length, seq_length.
  replace (step mod (max_size * ceb) * length ppolys + length ppolys <=? max_size * ceb * length ppolys) with true
    by (symmetry; apply Nat.leb_le; nia).
  rewrite (concat_row _ _ _ Hlenrow) by (now rewrite map_length, seq_length).
  f_equal.
  rewrite (nth_indep _ [] (rowf 0)) by (now rewrite map_length, seq_length).
  rewrite map_nth, seq_nth by assumption. cbn [Nat.add].
  unfold rowf, periodic_spec_row. apply map_ext_in. intros p Hp.
  destruct (poly_len_div_max p Hp) as [q Hq]. pose proof (poly_len_pos p Hp).
  replace (max_size * ceb) with (length p * ceb * q) by (rewrite Hq; lia).
  rewrite mod_mod_mul by nia.
  now apply periodic_entry.
Qed.
End Periodic.

(* ================================================================ boundary constraint representations *)
Section Boundary.
Local Notation gtrace := (gtrace n rou).
(* w_ce^ceb is the trace domain generator, ginv its inverse (BoundaryConstraints::new: inv_g = g.inv()) *)
Hypothesis gtrace_compat : cpow wce ceb = gtrace.
Variable ginv : F.
Hypothesis ginv_spec : ginv *f gtrace = f1.

(* the value V(x) every representation must produce: BoundaryConstraint::evaluate_at's assertion value *)
Lemma bc_value_at_peval c x : length (bc_poly c) <> 0 ->
  bc_value_at O c x = peval (bc_poly c) (x *f bc_xoff c).
Proof.
  intros H. unfold bc_value_at. destruct (length (bc_poly c) =? 1) eqn:E.
  - apply Nat.eqb_eq in E. destruct (bc_poly c) as [|v [|? ?]]; simpl in E; try lia.
    simpl. ring.
  - apply horner_peval. exact L.
Qed.

Lemma wce_shift idx step first k : idx + first * ceb = step + k * ce_size ->
  cpow wce idx = cpow wce step *f cpow ginv first.
Proof.
  intros H.
  assert (E : cpow wce idx *f cpow wce (first * ceb) = cpow wce step).
  { rewrite <- (cpow_add O L), H, (cpow_add O L), (Nat.mul_comm k), (cpow_mul O L), wce_order, (cpow_one O L). ring. }
  rewrite (Nat.mul_comm first), (cpow_mul O L), gtrace_compat in E.
  rewrite <- E.
  assert (G : cpow gtrace first *f cpow ginv first = f1).
  { rewrite <- (cpow_mul_base O L). rewrite (fl_mul_comm O L), ginv_spec. apply (cpow_one O L). }
  transitivity (cpow wce idx *f (cpow gtrace first *f cpow ginv first)); [rewrite G; ring | ring].
Qed.

Variable c : @BC F.
Variable state : list F.
Variable s : F.
Hypothesis state_col : nth_error state (bc_col c) = Some s.           (* column index in range *)
Hypothesis poly_nonempty : length (bc_poly c) <> 0.
(* BoundaryConstraint::new: poly_offset = (first_step, inv_g^first_step), first_step < stride <= n *)
Hypothesis xoff_spec : bc_xoff c = cpow ginv (bc_first c).
Hypothesis first_lt : bc_first c < n.
(* the value polynomial's length divides the ce domain size (both are powers of two) *)
Hypothesis len_div : length (bc_poly c) * (ce_size / length (bc_poly c)) = ce_size.

Definition bc_spec (x : F) : option F := Some (bc_cc c *f bc_evaluate_at O c x s).

(* boundary_repr_equiv: at every step of the constraint evaluation domain, the small-polynomial and the
   large-polynomial representation of ANY constraint (any number of values, below or above SMALL_POLY_DEGREE, any
   first step) and — when there is one value — the single-value representation all return
   cc * BoundaryConstraint::evaluate_at(x_step, state[col]) *)
Theorem boundary_repr_equiv : forall step, step < ce_size ->
  small_eval O (small_new c) state (ce_x step) = bc_spec (ce_x step)
  /\ large_eval O (large_new O n ceb offset rou c) state step = bc_spec (ce_x step)
  /\ (length (bc_poly c) = 1 -> single_eval O (single_new O c) state = bc_spec (ce_x step)).
Proof.
  intros step Hstep. unfold bc_spec, bc_evaluate_at. rewrite bc_value_at_peval by assumption.
  split; [|split].
  - unfold small_eval, small_new. cbn [pc_col pc_poly pc_xoff pc_cc]. rewrite state_col.
    now rewrite (horner_peval O L).
  - unfold large_eval, large_new, large_value_index. cbn [lc_col lc_values lc_step_offset lc_cc].
    rewrite state_col, eval_poly_with_offset_length, len_div.
    set (so := bc_first c * ceb).
    assert (Hso : so < ce_size) by (unfold so, Composition.ce_size; nia).
    set (idx := if 0 <? so then if step <? so then ce_size + step - so else step - so else step).
    assert (Hidx : idx < ce_size /\ exists k, idx + bc_first c * ceb = step + k * ce_size).
    { unfold idx. destruct (0 <? so) eqn:E0.
      - destruct (step <? so) eqn:E1.
        + apply Nat.ltb_lt in E1. split; [lia|]. exists 1. fold so. lia.
        + apply Nat.ltb_ge in E1. split; [lia|]. exists 0. fold so. lia.
      - apply Nat.ltb_ge in E0. split; [lia|]. exists 0. fold so. lia. }
    destruct Hidx as [Hlt [k Hk]].
    pose proof (eval_poly_with_offset_nth (bc_poly c) offset (ce_size / length (bc_poly c)) idx) as E.
    rewrite len_div in E. rewrite (E Hlt). f_equal. f_equal. f_equal. f_equal.
    fold wce. change (rou ce_size) with wce.
    rewrite (wce_shift idx step (bc_first c) k Hk), xoff_spec. unfold ce_x. ring.
  - intros H1. unfold single_eval, single_new. cbn [sc_col sc_value sc_cc]. rewrite state_col.
    destruct (bc_poly c) as [|v [|? ?]]; simpl in H1; try lia. simpl. f_equal. ring.
Qed.
End Boundary.

End Index.
