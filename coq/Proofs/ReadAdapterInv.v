(* C13 — the ReadAdapter state machine: invariant, conservation of the unread bytes, and the behaviour of each required
   method as the list semantics on the unread bytes.  stdlib style.

   unread s = buf[pos..] ++ BufReader buffer ++ concat (remaining chunks)
   wf s     : pos <= len buf <= capacity                      (holds for every source)
   SI s     : the source's end-of-stream is sticky (no empty read is followed by data), the ghost `seen`
              (an empty read has been returned) implies that nothing is left, guaranteed_eof implies seen. *)
From VBase Require Import MachInt.
From VModel Require Import ReadAdapter.
From VProofs Require Import ReadAdapterSim.
Local Open Scope nat_scope.

Definition unread (s : astate) : list byte := buffer s ++ a_rbuf s ++ concat (a_chunks s).

Definition wf (s : astate) : Prop := a_pos s <= length (a_buf s) /\ length (a_buf s) <= a_cap s.

Fixpoint sticky (cs : list (list byte)) : Prop :=
  match cs with
  | [] => True
  | c :: r => (c = [] -> concat r = []) /\ sticky r
  end.

Definition SI (s : astate) : Prop :=
  sticky (a_chunks s) /\
  (a_seen s = true -> a_rbuf s = [] /\ concat (a_chunks s) = []) /\
  (a_geof s = true -> a_seen s = true).

Lemma cap_pos : 0 < BUFREADER_CAP.
Proof. unfold BUFREADER_CAP. lia. Qed.
Local Opaque BUFREADER_CAP.

Lemma buffer_length : forall s, length (buffer s) = length (a_buf s) - a_pos s.
Proof. intros s. unfold buffer. apply skipn_length. Qed.

(* ---------------------------------------------------------------- BufReader::fill_buf *)
Lemma fill_frame : forall s,
  a_buf (fill s) = a_buf s /\ a_pos (fill s) = a_pos s /\ a_cap (fill s) = a_cap s /\ a_geof (fill s) = a_geof s.
Proof.
  intros s. unfold fill. destruct (a_rbuf s); [|auto].
  destruct (a_chunks s); [simpl; auto|]. destruct (length l <=? BUFREADER_CAP); simpl; auto.
Qed.

Lemma fill_buffer : forall s, buffer (fill s) = buffer s.
Proof. intros s. unfold buffer. destruct (fill_frame s) as (E1 & E2 & _). now rewrite E1, E2. Qed.

Lemma fill_wf : forall s, wf s -> wf (fill s).
Proof. intros s H. unfold wf in *. destruct (fill_frame s) as (E1 & E2 & E3 & _). now rewrite E1, E2, E3. Qed.

Lemma fill_unread : forall s, unread (fill s) = unread s.
Proof.
  intros s. unfold unread. rewrite fill_buffer. f_equal.
  unfold fill. destruct (a_rbuf s) eqn:Er; [|now rewrite Er].
  destruct (a_chunks s) as [|c rest] eqn:Ec; [simpl; reflexivity|].
  destruct (length c <=? BUFREADER_CAP); simpl.
  - reflexivity.
  - rewrite app_assoc. now rewrite firstn_skipn.
Qed.

Lemma app_nil_inv : forall (A : Type) (a b : list A), a ++ b = [] -> a = [] /\ b = [].
Proof. intros A a b H. destruct a; simpl in H; [auto|discriminate]. Qed.

Lemma fill_SI : forall s, SI s ->
  SI (fill s) /\ (a_rbuf (fill s) = [] -> a_seen (fill s) = true /\ concat (a_chunks (fill s)) = []).
Proof.
  intros s (Hs & Hseen & Hg). unfold fill.
  destruct (a_rbuf s) eqn:Er.
  - destruct (a_chunks s) as [|c rest] eqn:Ec.
    + split; [|simpl; auto]. repeat split; simpl; auto.
    + simpl in Hs. destruct Hs as [Hc Hrest].
      destruct (Nat.leb_spec (length c) BUFREADER_CAP).
      * assert (Hkey : a_seen s || is_nil c = true -> c = [] /\ concat rest = []).
        { intros Hor. apply orb_true_iff in Hor. destruct Hor as [Hse|Hn].
          - destruct (Hseen Hse) as [_ Hcc]. simpl in Hcc. apply app_nil_inv in Hcc. destruct Hcc; auto.
          - destruct c; [auto|discriminate]. }
        split.
        -- split; [exact Hrest|]. split; simpl.
           ++ exact Hkey.
           ++ intros Hge. rewrite (Hg Hge). reflexivity.
        -- simpl. intros Hc0. subst c. simpl. rewrite orb_true_r. auto.
      * assert (Hne : skipn BUFREADER_CAP c <> []).
        { intros E. apply skipn_nil_inv in E. lia. }
        assert (Hns : a_seen s = true -> False).
        { intros Hse. destruct (Hseen Hse) as [_ Hcc]. simpl in Hcc. apply app_nil_inv in Hcc.
          destruct Hcc as [Hc0 _]. subst c. simpl in H. lia. }
        split.
        -- split; [simpl; split; [intros E; contradiction|exact Hrest]|]. split; simpl.
           ++ intros Hse. exfalso. auto.
           ++ exact Hg.
        -- simpl. intros E. pose proof cap_pos. pose proof (firstn_length_le c (n := BUFREADER_CAP)) as HL.
           rewrite E in HL. simpl in HL. lia.
  - rewrite <- Er in Hseen. split; [exact (conj Hs (conj Hseen Hg))|]. rewrite Er. discriminate.
Qed.

(* ---------------------------------------------------------------- pure field updates *)
Lemma SI_frame : forall s s', a_chunks s' = a_chunks s -> a_rbuf s' = a_rbuf s -> a_seen s' = a_seen s ->
  (a_geof s' = true -> a_geof s = true) -> SI s -> SI s'.
Proof.
  intros s s' E1 E2 E3 E4 (Hs & Hseen & Hg). unfold SI. rewrite E1, E2, E3. repeat split; auto.
  - apply Hseen; assumption.
  - apply Hseen; assumption.
Qed.

Lemma SI_consume : forall n s, SI s -> SI (consume n s).
Proof.
  intros n s (Hs & Hseen & Hg). unfold SI, consume; simpl. repeat split; auto.
  - destruct (Hseen H) as [E _]. rewrite E. apply skipn_nil.
  - apply Hseen; assumption.
Qed.

Lemma SI_set_geof : forall s, SI s -> a_seen s = true -> SI (set_geof s).
Proof. intros s (Hs & Hseen & Hg) H. unfold SI, set_geof; simpl. repeat split; auto; apply Hseen; assumption. Qed.

Lemma SI_rbuf_seen : forall s b r, SI s -> a_rbuf s = b :: r -> a_seen s = false.
Proof.
  intros s b r (_ & Hseen & _) E. destruct (a_seen s); [|reflexivity].
  destruct (Hseen eq_refl) as [E' _]. rewrite E' in E. discriminate.
Qed.

Section AdapterProofs.
  Variable grow : nat -> nat -> nat.
  Variable dbg : bool.

  Lemma new_cap_ge : forall cap need, need <= new_cap grow cap need /\ cap <= new_cap grow cap need.
  Proof. intros cap need. unfold new_cap. destruct (Nat.leb_spec need cap); lia. Qed.

  (* ---------------------------------------------------------------- absorb *)
  Lemma absorb_wf : forall s, wf s -> wf (absorb grow s).
  Proof.
    intros s [H1 H2]. unfold wf, absorb; simpl. rewrite app_length. split; [lia|].
    apply new_cap_ge.
  Qed.

  Lemma absorb_buffer : forall s, wf s -> buffer (absorb grow s) = buffer s ++ a_rbuf s.
  Proof.
    intros s [H1 H2]. unfold buffer, absorb; simpl. rewrite skipn_app.
    replace (a_pos s - length (a_buf s)) with 0 by lia. reflexivity.
  Qed.

  Lemma absorb_unread : forall s, wf s -> unread (absorb grow s) = unread s.
  Proof.
    intros s H. unfold unread. rewrite (absorb_buffer s H). simpl. now rewrite <- app_assoc.
  Qed.

  Lemma absorb_SI : forall s, SI s -> SI (absorb grow s).
  Proof.
    intros s (Hs & Hseen & Hg). unfold SI, absorb; simpl. repeat split; auto. apply Hseen; assumption.
  Qed.

  (* ---------------------------------------------------------------- buffer_at_least *)
  Lemma bal_spec : forall fuel count s r s', wf s -> count <= fuel + length (buffer s) ->
    bal grow fuel count s = (r, s') ->
    wf s' /\ unread s' = unread s /\ a_pos s' = a_pos s /\
    ((r = Ok tt /\ count <= length (buffer s')) \/ r = Err EOF) /\
    (SI s -> SI s' /\ (r = Err EOF -> length (unread s) < count)).
  Proof.
    assert (Hdone : forall count s r s', wf s -> count <= length (buffer s) -> (Ok tt, s) = (r, s') ->
      wf s' /\ unread s' = unread s /\ a_pos s' = a_pos s /\
      ((r = Ok tt /\ count <= length (buffer s')) \/ r = Err EOF) /\
      (SI s -> SI s' /\ (r = Err EOF -> length (unread s) < count))).
    { intros count s r s' Hwf H Hb. inversion Hb; subst.
      split; [exact Hwf|]. split; [reflexivity|]. split; [reflexivity|]. split; [left; split; [reflexivity|exact H]|].
      intros HS. split; [exact HS|intros; discriminate]. }
    induction fuel as [|f IH]; intros count s r s' Hwf Hfuel Hb.
    - simpl in Hb. destruct (Nat.leb_spec count (length (buffer s))); [|lia]. eapply Hdone; eauto.
    - simpl in Hb. destruct (Nat.leb_spec count (length (buffer s))); [eapply Hdone; eauto|].
      pose proof (fill_wf s Hwf) as Hwf1. pose proof (fill_unread s) as Hu1. pose proof (fill_buffer s) as Hb1.
      destruct (fill_frame s) as (_ & Hp1 & _).
      destruct (a_rbuf (fill s)) as [|b rb] eqn:Er.
      + inversion Hb; subst.
        split; [exact Hwf1|]. split; [exact Hu1|]. split; [exact Hp1|]. split; [right; reflexivity|].
        intros HS. destruct (fill_SI s HS) as [HSI1 Hnil]. destruct (Hnil Er) as [Hse Hcc].
        split; [apply SI_set_geof; assumption|]. intros _.
        rewrite <- Hu1. unfold unread. rewrite Er, Hcc, Hb1. simpl. rewrite app_nil_r. exact H.
      + pose proof (absorb_wf _ Hwf1) as Hwf2.
        pose proof (absorb_buffer _ Hwf1) as Hb2. rewrite Er, Hb1 in Hb2.
        assert (Hf2 : count <= f + length (buffer (absorb grow (fill s)))).
        { rewrite Hb2, app_length. simpl. lia. }
        destruct (IH count _ r s' Hwf2 Hf2 Hb) as (Hw & Hu & Hp & Hr & HS').
        split; [exact Hw|]. split; [rewrite Hu, (absorb_unread _ Hwf1); exact Hu1|].
        split; [rewrite Hp; simpl; exact Hp1|]. split; [exact Hr|].
        intros HS. assert (HS2 : SI (absorb grow (fill s))) by (apply absorb_SI; apply fill_SI; exact HS).
        destruct (HS' HS2) as [HS3 Hlt]. split; [exact HS3|].
        intros E. rewrite <- Hu1, <- (absorb_unread _ Hwf1). apply Hlt. exact E.
  Qed.

  Lemma buffer_at_least_spec : forall count s r s', wf s ->
    buffer_at_least grow count s = (r, s') ->
    wf s' /\ unread s' = unread s /\ a_pos s' = a_pos s /\
    ((r = Ok tt /\ count <= length (buffer s')) \/ r = Err EOF) /\
    (SI s -> SI s' /\ (r = Err EOF -> length (unread s) < count)).
  Proof. intros count s r s' Hwf Hb. apply (bal_spec count count s r s' Hwf); [lia|exact Hb]. Qed.

  (* ---------------------------------------------------------------- the statement proved of every consuming method *)
  Definition method_ok {A : Type} (m : astate -> outcome A * astate) (sp : list byte -> outcome A * list byte) : Prop :=
    forall s, wf s ->
      wf (snd (m s)) /\ aborts (fst (m s)) = false /\
      (SI s -> SI (snd (m s)) /\ fst (m s) = fst (sp (unread s)) /\ unread (snd (m s)) = snd (sp (unread s))).

  (* taking [n] bytes that are already in the local buffer *)
  Lemma take_local : forall n s, wf s -> n <= length (buffer s) ->
    wf (set_pos (a_pos s + n) s) /\
    firstn n (buffer s) = firstn n (unread s) /\
    unread (set_pos (a_pos s + n) s) = skipn n (unread s) /\
    (n <=? length (unread s)) = true.
  Proof.
    intros n s [H1 H2] Hn. pose proof (buffer_length s) as HL. repeat split.
    - unfold set_pos; simpl. lia.
    - unfold set_pos; simpl. exact H2.
    - unfold unread. now destruct (take_app _ n (buffer s) (a_rbuf s ++ concat (a_chunks s)) Hn) as [E _].
    - unfold unread at 2. destruct (take_app _ n (buffer s) (a_rbuf s ++ concat (a_chunks s)) Hn) as [_ E].
      rewrite E. unfold unread, buffer, set_pos; simpl. now rewrite skipn_skipn'.
    - apply Nat.leb_le. unfold unread. rewrite app_length. lia.
  Qed.

  Lemma SI_set_pos : forall p s, SI s -> SI (set_pos p s).
  Proof. intros p s H. apply (SI_frame s); auto. Qed.

  (* goals: wf / no abort / then under [HS : SI s]: SI / result / unread *)
  Ltac mok := split; [|split; [|intros HS; split; [|split]]].

  (* what the end-of-stream answer of [fill] means under SI *)
  Lemma fill_eof : forall s, SI s -> a_rbuf (fill s) = [] ->
    SI (set_geof (fill s)) /\ SI (fill s) /\ unread s = buffer s /\ unread (fill s) = buffer s.
  Proof.
    intros s HS Er. destruct (fill_SI s HS) as [HS1 Hnil]. destruct (Hnil Er) as [Hse Hcc].
    assert (E : unread (fill s) = buffer s).
    { unfold unread. rewrite Er, Hcc, fill_buffer. simpl. apply app_nil_r. }
    split; [now apply SI_set_geof|]. split; [exact HS1|]. split; [|exact E]. now rewrite <- fill_unread.
  Qed.

  Lemma unread_set_geof : forall s, unread (set_geof s) = unread s.
  Proof. reflexivity. Qed.

  (* ---------------------------------------------------------------- reset *)
  Lemma reset_spec : forall s, wf s -> wf (reset s) /\ unread (reset s) = unread s /\ (SI s -> SI (reset s)).
  Proof.
    intros s [H1 H2]. unfold reset. destruct (is_nil (buffer s)) eqn:En; simpl; [|split; [split; auto|split; auto]].
    destruct (0 <? a_pos s); [|split; [split; auto|split; auto]].
    split; [split; simpl; lia|]. split.
    - unfold unread, buffer; simpl. unfold buffer in En. destruct (skipn (a_pos s) (a_buf s)); [reflexivity|discriminate].
    - intros H. apply (SI_frame s); auto.
  Qed.

  (* ---------------------------------------------------------------- pop / peek *)
  Lemma a_u8_ok : method_ok a_u8 sp_u8.
  Proof.
    intros s Hwf. unfold a_u8. destruct (buffer s) as [|b t] eqn:Eb.
    - pose proof (fill_wf s Hwf) as Hwf1. pose proof (fill_unread s) as Hu1. pose proof (fill_buffer s) as Hb1.
      destruct (a_rbuf (fill s)) as [|b rb] eqn:Er; cbn [fst snd].
      + mok; try (destruct (fill_eof s HS Er) as (G1 & G2 & G3 & G4)).
        * exact Hwf1.
        * reflexivity.
        * exact G1.
        * rewrite G3, Eb. reflexivity.
        * rewrite unread_set_geof, G4, G3, Eb. reflexivity.
      + assert (Eu : unread s = b :: rb ++ concat (a_chunks (fill s))).
        { rewrite <- Hu1. unfold unread. now rewrite Er, Hb1, Eb. }
        mok.
        * exact Hwf1.
        * reflexivity.
        * apply SI_consume. now apply fill_SI.
        * rewrite Eu. reflexivity.
        * rewrite Eu. unfold unread, consume, buffer; simpl. fold (buffer (fill s)). now rewrite Er, Hb1, Eb.
    - unfold buffer in Eb. destruct (skipn_cons_inv _ _ _ _ _ Eb) as (H1 & H2 & H3). destruct Hwf as [Hw1 Hw2].
      cbn [fst snd]. mok.
      + split; simpl; lia.
      + reflexivity.
      + now apply SI_set_pos.
      + unfold unread, buffer. now rewrite Eb.
      + unfold unread, buffer; simpl. rewrite Nat.add_1_r, H2, Eb. reflexivity.
  Qed.

  Lemma a_peek_ok : method_ok a_peek sp_peek.
  Proof.
    intros s Hwf. unfold a_peek. destruct (buffer s) as [|b t] eqn:Eb.
    - pose proof (fill_wf s Hwf) as Hwf1. pose proof (fill_unread s) as Hu1. pose proof (fill_buffer s) as Hb1.
      destruct (a_rbuf (fill s)) as [|b rb] eqn:Er; cbn [fst snd].
      + mok; try (destruct (fill_eof s HS Er) as (G1 & G2 & G3 & G4)).
        * exact Hwf1.
        * reflexivity.
        * exact G2.
        * rewrite G3, Eb. reflexivity.
        * rewrite G4, G3, Eb. reflexivity.
      + assert (Eu : unread s = b :: rb ++ concat (a_chunks (fill s))).
        { rewrite <- Hu1. unfold unread. now rewrite Er, Hb1, Eb. }
        mok.
        * exact Hwf1.
        * reflexivity.
        * now apply fill_SI.
        * rewrite Eu. reflexivity.
        * rewrite Hu1, Eu. reflexivity.
    - cbn [fst snd]. mok; auto.
      + unfold unread. now rewrite Eb.
      + unfold unread. now rewrite Eb.
  Qed.

  (* ---------------------------------------------------------------- read_slice *)
  Lemma compact_spec : forall len s, wf s ->
    exists s1, compact len s = (Ok tt, s1) /\ wf s1 /\ unread s1 = unread s /\ (SI s -> SI s1).
  Proof.
    intros len s [H1 H2]. unfold compact. pose proof (buffer_length s) as HL.
    destruct (16 <=? a_pos s); [|exists s; split; [reflexivity|split; [split; auto|split; auto]]].
    destruct (Nat.ltb_spec (a_cap s) (length (buffer s))); [lia|].
    destruct (len <=? a_cap s - length (buffer s)); [exists s; split; [reflexivity|split; [split; auto|split; auto]]|].
    eexists; split; [reflexivity|]. split; [split; simpl; lia|]. split; [reflexivity|].
    intros HS. apply (SI_frame s); auto.
  Qed.

  (* after buffer_at_least(n) *)
  Lemma take_after_bal : forall n s s2 r, wf s -> buffer_at_least grow n s = (r, s2) ->
    wf s2 /\ unread s2 = unread s /\
    ((r = Ok tt /\ n <= length (buffer s2) /\ a_pos s2 + n <= length (a_buf s2)) \/ r = Err EOF) /\
    (SI s -> SI s2 /\ (r = Err EOF -> sp_take n (unread s) = (Err EOF, unread s))).
  Proof.
    intros n s s2 r Hwf Hb. destruct (buffer_at_least_spec n s r s2 Hwf Hb) as (Hw & Hu & Hp & Hr & HS).
    split; [exact Hw|]. split; [exact Hu|]. split.
    - destruct Hr as [[E Hn]|E]; [left|right; exact E]. split; [exact E|]. split; [exact Hn|].
      pose proof (buffer_length s2). destruct Hw. lia.
    - intros HS0. destruct (HS HS0) as [HS2 Hlt]. split; [exact HS2|]. intros E. specialize (Hlt E). unfold sp_take.
      destruct (Nat.leb_spec n (length (unread s))); [lia|reflexivity].
  Qed.

  (* the common tail of read_slice and of the fall-back of read_exact *)
  Lemma take_tail : forall n s s2 r, wf s -> buffer_at_least grow n s = (r, s2) ->
    (r = Ok tt /\ wf (set_pos (a_pos s2 + n) s2) /\ n <= length (buffer s2) /\ a_pos s2 + n <= length (a_buf s2) /\
       (SI s -> SI (set_pos (a_pos s2 + n) s2) /\
                sp_take n (unread s) = (Ok (firstn n (buffer s2)), unread (set_pos (a_pos s2 + n) s2)))) \/
    (r = Err EOF /\ wf s2 /\ (SI s -> SI s2 /\ sp_take n (unread s) = (Err EOF, unread s2))).
  Proof.
    intros n s s2 r Hwf Hb. destruct (take_after_bal n s s2 r Hwf Hb) as (Hw2 & Hu2 & Hr & HS2).
    destruct Hr as [(Er & Hn & Hidx)|Er]; [left|right].
    - destruct (take_local n s2 Hw2 Hn) as (Hw3 & Ef & Eu & El).
      split; [exact Er|]. split; [exact Hw3|]. split; [exact Hn|]. split; [exact Hidx|].
      intros HS. split; [apply SI_set_pos; now apply HS2|].
      unfold sp_take. rewrite <- Hu2, El, Ef, Eu. reflexivity.
    - split; [exact Er|]. split; [exact Hw2|]. intros HS. destruct (HS2 HS) as [HS3 Hsp].
      split; [exact HS3|]. rewrite Hu2. apply Hsp, Er.
  Qed.

  Lemma a_slice_ok : forall len, method_ok (a_slice grow len) (sp_take len).
  Proof.
    intros len s Hwf. unfold a_slice. destruct (Nat.eqb_spec len 0) as [E0|N0].
    - subst len. cbn [fst snd]. mok; auto.
    - destruct (compact_spec len s Hwf) as (s1 & Ec & Hwf1 & Hu1 & HS1).
      unfold bind. rewrite Ec. cbn beta iota.
      destruct (buffer_at_least grow len s1) as [r s2] eqn:Eb.
      destruct (take_tail len s1 s2 r Hwf1 Eb) as [(Er & Hw3 & Hn & Hidx & HS2)|(Er & Hw2 & HS2)]; subst r.
      + destruct (Nat.leb_spec (a_pos s2 + len) (length (a_buf s2))); [|lia]. cbn [fst snd].
        mok; try (destruct (HS2 (HS1 HS)) as [G1 G2]; rewrite Hu1 in G2).
        * exact Hw3.
        * reflexivity.
        * exact G1.
        * rewrite G2. reflexivity.
        * rewrite G2. reflexivity.
      + cbn [fst snd].
        mok; try (destruct (HS2 (HS1 HS)) as [G1 G2]; rewrite Hu1 in G2).
        * exact Hw2.
        * reflexivity.
        * exact G1.
        * rewrite G2. reflexivity.
        * rewrite G2. reflexivity.
  Qed.

  (* ---------------------------------------------------------------- read_exact *)
  Lemma copy_from_ok : forall n src, n <= length src -> copy_from n src = Ok (firstn n src).
  Proof. intros n src H. unfold copy_from. destruct (Nat.ltb_spec (length src) n); [lia|reflexivity]. Qed.

  Lemma exact_fallback_ok : forall N, method_ok (exact_fallback grow dbg N) (sp_take N).
  Proof.
    intros N s Hwf. unfold exact_fallback, bind. destruct (buffer_at_least grow N s) as [r s2] eqn:Eb.
    destruct (take_tail N s s2 r Hwf Eb) as [(Er & Hw3 & Hn & Hidx & HS2)|(Er & Hw2 & HS2)]; subst r.
    - destruct (Nat.ltb_spec (length (buffer s2)) N); [lia|]. rewrite andb_false_r.
      rewrite (copy_from_ok N (buffer s2) Hn). cbn [fst snd].
      mok; try (destruct (HS2 HS) as [G1 G2]).
      + exact Hw3.
      + reflexivity.
      + exact G1.
      + rewrite G2. reflexivity.
      + rewrite G2. reflexivity.
    - cbn [fst snd]. mok; try (destruct (HS2 HS) as [G1 G2]).
      + exact Hw2.
      + reflexivity.
      + exact G1.
      + rewrite G2. reflexivity.
      + rewrite G2. reflexivity.
  Qed.

  Lemma with_reset_ok : forall (m : astate -> outcome (list byte) * astate) sp,
    method_ok m sp -> method_ok (fun s => with_reset (m s)) sp.
  Proof.
    intros m sp Hm s Hwf. destruct (Hm s Hwf) as (Hw & Ha & HS0). destruct (m s) as [r s']; cbn [fst snd] in *.
    destruct r; cbn [with_reset fst snd] in *; try discriminate; try (split; [exact Hw|split; [reflexivity|exact HS0]]).
    destruct (reset_spec s' Hw) as (Hw' & Hu' & HS').
    mok; try (destruct (HS0 HS) as (G1 & G2 & G3)).
    - exact Hw'.
    - reflexivity.
    - now apply HS'.
    - exact G2.
    - now rewrite Hu'.
  Qed.

  (* transport of a method_ok instance along [fill] *)
  Lemma after_fill : forall (A : Type) (m : astate -> outcome A * astate) sp s, method_ok m sp -> wf s ->
    wf (snd (m (fill s))) /\ aborts (fst (m (fill s))) = false /\
    (SI s -> SI (snd (m (fill s))) /\ fst (m (fill s)) = fst (sp (unread s)) /\ unread (snd (m (fill s))) = snd (sp (unread s))).
  Proof.
    intros A m sp s Hm Hwf. destruct (Hm (fill s) (fill_wf s Hwf)) as (Hw & Ha & HS0).
    split; [exact Hw|]. split; [exact Ha|]. intros HS. rewrite <- (fill_unread s). apply HS0. now apply fill_SI.
  Qed.

  Lemma a_array_ok : forall N, method_ok (a_array grow dbg N) (sp_take N).
  Proof.
    intros N s Hwf. unfold a_array. destruct (Nat.eqb_spec N 0) as [E0|N0].
    { subst N. cbn [fst snd]. mok; auto. }
    pose proof (fill_wf s Hwf) as Hwf1. pose proof (fill_unread s) as Hu1. pose proof (fill_buffer s) as Hb1.
    destruct (fill_frame s) as (Hbuf1 & Hpos1 & Hcap1 & Hge1).
    assert (Heof : forall (HS : SI s), a_rbuf (fill s) = [] -> length (buffer s) < N ->
              SI (set_geof (fill s)) /\ sp_take N (unread s) = (Err EOF, unread (set_geof (fill s)))).
    { intros HS Er Hlt. destruct (fill_eof s HS Er) as (G1 & G2 & G3 & G4). split; [exact G1|].
      rewrite unread_set_geof, G4, G3. unfold sp_take. destruct (Nat.leb_spec N (length (buffer s))); [lia|reflexivity]. }
    destruct (Nat.eqb_spec (length (buffer s)) 0) as [En|En].
    - (* local buffer empty *)
      assert (Eb : buffer s = []) by (destruct (buffer s); [reflexivity|discriminate]).
      destruct (a_rbuf (fill s)) as [|b rb] eqn:Er.
      + cbn [fst snd]. mok; try (destruct (Heof HS eq_refl) as [G1 G2]; [lia|]).
        * exact Hwf1.
        * reflexivity.
        * exact G1.
        * rewrite G2. reflexivity.
        * rewrite G2. reflexivity.
      + destruct (Nat.ltb_spec (length (b :: rb)) N) as [Hlt|Hge].
        * exact (after_fill _ _ _ s (with_reset_ok _ _ (exact_fallback_ok N)) Hwf).
        * rewrite (copy_from_ok N (b :: rb) Hge).
          assert (Hwc : wf (consume N (fill s))) by (unfold wf, consume; simpl; exact Hwf1).
          destruct (reset_spec _ Hwc) as (Hw' & Hu' & HS'). cbn [fst snd].
          assert (Hur : unread s = (b :: rb) ++ concat (a_chunks (fill s))).
          { rewrite <- Hu1. unfold unread. now rewrite Er, Hb1, Eb. }
          destruct (take_app _ N (b :: rb) (concat (a_chunks (fill s))) Hge) as [Ef Es].
          assert (Hsp : sp_take N (unread s) = (Ok (firstn N (b :: rb)), unread (reset (consume N (fill s))))).
          { rewrite Hur. unfold sp_take. rewrite app_length.
            destruct (Nat.leb_spec N (length (b :: rb) + length (concat (a_chunks (fill s))))); [|lia].
            rewrite Ef, Es, Hu'. unfold unread, consume, buffer; simpl. fold (buffer (fill s)).
            now rewrite Er, Hb1, Eb. }
          mok.
          -- exact Hw'.
          -- reflexivity.
          -- apply HS'. apply SI_consume. now apply fill_SI.
          -- rewrite Hsp. reflexivity.
          -- rewrite Hsp. reflexivity.
    - destruct (Nat.leb_spec N (length (buffer s))) as [Hle|Hgt].
      + (* enough in the local buffer *)
        rewrite (copy_from_ok N (buffer s) Hle).
        destruct (take_local N s Hwf Hle) as (Hw3 & Ef & Eu & El).
        destruct (reset_spec _ Hw3) as (Hw' & Hu' & HS'). cbn [fst snd].
        mok.
        * exact Hw'.
        * reflexivity.
        * apply HS'. now apply SI_set_pos.
        * unfold sp_take. rewrite El. cbn [fst]. now rewrite Ef.
        * unfold sp_take. rewrite El. cbn [snd]. now rewrite Hu'.
      + (* 0 < n < N: local and reader buffers *)
        destruct (a_rbuf (fill s)) as [|b rb] eqn:Er.
        * cbn [fst snd]. mok; try (destruct (Heof HS eq_refl) as [G1 G2]; [lia|]).
          -- exact Hwf1.
          -- reflexivity.
          -- exact G1.
          -- rewrite G2. reflexivity.
          -- rewrite G2. reflexivity.
        * destruct (Nat.leb_spec N (length (b :: rb) + length (buffer s))) as [Hle2|Hgt2].
          -- (* two copies *)
             rewrite Hb1. rewrite (copy_from_ok (length (buffer s)) (buffer s)) by lia.
             rewrite (copy_from_ok (N - length (buffer s)) (b :: rb)) by lia.
             rewrite firstn_all.
             pose proof (buffer_length s) as HBL.
             set (n := length (buffer s)) in *.
             assert (Hwc : wf (consume (N - n) (set_pos (a_pos (fill s) + n) (fill s)))).
             { unfold wf, consume, set_pos; simpl. rewrite Hbuf1, Hpos1, Hcap1. destruct Hwf as [Hw1 Hw2]. lia. }
             destruct (reset_spec _ Hwc) as (Hw' & Hu' & HS'). cbn [fst snd].
             assert (Hur : unread s = buffer s ++ (b :: rb) ++ concat (a_chunks (fill s))).
             { rewrite <- Hu1. unfold unread. now rewrite Er, Hb1. }
             assert (Hlen : length (buffer s) <= N) by (fold n; lia).
             destruct (take_app_ge _ N (buffer s) ((b :: rb) ++ concat (a_chunks (fill s))) Hlen) as [Ef Es].
             fold n in Ef, Es.
             assert (Hn2 : N - n <= length (b :: rb)) by lia.
             destruct (take_app _ (N - n) (b :: rb) (concat (a_chunks (fill s))) Hn2) as [Ef2 Es2].
             assert (Hsp : sp_take N (unread s) =
                           (Ok (buffer s ++ firstn (N - n) (b :: rb)),
                            unread (reset (consume (N - n) (set_pos (a_pos (fill s) + n) (fill s)))))).
             { unfold sp_take. replace (N <=? length (unread s)) with true.
               2:{ symmetry. apply Nat.leb_le. rewrite Hur, !app_length. fold n. lia. }
               rewrite Hur, Ef, Es, Ef2, Es2, Hu'.
               unfold unread, consume, set_pos, buffer; simpl. rewrite Er, Hbuf1, Hpos1.
               destruct Hwf as [Hw1 Hw2]. rewrite (@skipn_all2 _ (a_pos s + n) (a_buf s)) by lia. reflexivity. }
             mok.
             ++ exact Hw'.
             ++ reflexivity.
             ++ apply HS'. apply SI_consume. apply SI_set_pos. now apply fill_SI.
             ++ rewrite Hsp. reflexivity.
             ++ rewrite Hsp. reflexivity.
          -- (* fall back *)
             exact (after_fill _ _ _ s (exact_fallback_ok N) Hwf).
  Qed.

  (* ---------------------------------------------------------------- check_eor / has_more_bytes *)
  (* check_eor never aborts and never consumes; with a sticky end-of-stream its answer is the exact one, or an optimistic
     Ok while no empty read has been observed *)
  Lemma a_eor_spec : forall num s, wf s ->
    wf (snd (a_eor num s)) /\ aborts (fst (a_eor num s)) = false /\ unread (snd (a_eor num s)) = unread s /\
    (SI s -> SI (snd (a_eor num s)) /\
      (fst (a_eor num s) = fst (sp_eor num (unread s)) \/
       (fst (a_eor num s) = Ok tt /\ fst (sp_eor num (unread s)) = Err EOF /\ a_seen (snd (a_eor num s)) = false))).
  Proof.
    intros num s Hwf. unfold a_eor, sp_eor. cbn [fst].
    destruct (Nat.leb_spec num (length (buffer s))) as [Hle|Hgt].
    - cbn [fst snd]. split; [exact Hwf|]. split; [reflexivity|]. split; [reflexivity|]. intros HS. split; [exact HS|]. left.
      unfold unread. rewrite app_length.
      destruct (Nat.leb_spec num (length (buffer s) + length (a_rbuf s ++ concat (a_chunks s)))); [reflexivity|lia].
    - pose proof (fill_wf s Hwf) as Hwf1. pose proof (fill_unread s) as Hu1. pose proof (fill_buffer s) as Hb1.
      destruct (a_rbuf (fill s)) as [|b rb] eqn:Er.
      + cbn [fst snd]. split; [exact Hwf1|]. split; [reflexivity|]. split; [exact Hu1|]. intros HS.
        destruct (fill_eof s HS Er) as (G1 & G2 & G3 & G4). split; [exact G2|]. left.
        rewrite G3. destruct (Nat.leb_spec num (length (buffer s))); [lia|reflexivity].
      + assert (HlenU : length (unread s) = length (buffer s) + (length (b :: rb) + length (concat (a_chunks (fill s))))).
        { rewrite <- Hu1. unfold unread. now rewrite Er, Hb1, !app_length. }
        destruct (Nat.leb_spec num (length (buffer s) + length (b :: rb))) as [Hle2|Hgt2].
        * cbn [fst snd]. split; [exact Hwf1|]. split; [reflexivity|]. split; [exact Hu1|]. intros HS.
          split; [now apply fill_SI|]. left. destruct (Nat.leb_spec num (length (unread s))); [reflexivity|lia].
        * destruct (a_geof (fill s)) eqn:Eg.
          -- cbn [fst snd]. split; [exact Hwf1|]. split; [reflexivity|]. split; [exact Hu1|]. intros HS.
             exfalso. destruct (fill_SI s HS) as [(_ & Hseen & Hg) _].
             destruct (Hseen (Hg Eg)) as [E _]. rewrite E in Er. discriminate.
          -- cbn [fst snd]. split; [exact Hwf1|]. split; [reflexivity|]. split; [exact Hu1|]. intros HS.
             destruct (fill_SI s HS) as [HSI1 _]. split; [exact HSI1|].
             destruct (Nat.leb_spec num (length (unread s))); [left; reflexivity|right].
             split; [reflexivity|]. split; [reflexivity|]. eapply SI_rbuf_seen; eauto.
  Qed.

  Lemma a_more_spec : forall s, wf s ->
    wf (snd (a_more s)) /\ unread (snd (a_more s)) = unread s /\
    (SI s -> SI (snd (a_more s)) /\ fst (a_more s) = fst (sp_more (unread s))).
  Proof.
    intros s Hwf. unfold a_more, sp_more. cbn [fst].
    destruct (buffer s) as [|b t] eqn:Eb; cbn [is_nil negb fst snd].
    - pose proof (fill_wf s Hwf) as Hwf1. pose proof (fill_unread s) as Hu1. pose proof (fill_buffer s) as Hb1.
      split; [exact Hwf1|]. split; [exact Hu1|]. intros HS. split; [now apply fill_SI|].
      destruct (a_rbuf (fill s)) as [|b rb] eqn:Er.
      + destruct (fill_eof s HS Er) as (G1 & G2 & G3 & G4). rewrite G3, Eb. reflexivity.
      + rewrite <- Hu1. unfold unread. now rewrite Er, Hb1, Eb.
    - split; [exact Hwf|]. split; [reflexivity|]. intros HS. split; [exact HS|]. unfold unread. now rewrite Eb.
  Qed.
End AdapterProofs.
