(* f128 inversion: binary extended GCD on 192-bit limb triples (fn inv of math/src/field/f128/mod.rs,
   generated term f128_fn_inv in Gen/F128.v).  Partial correctness by loop invariants:
       a * x == v   and   d * x == -u   (mod M),
   together with a bound that keeps a and d far below 2^192, so that add_192x192 never wraps:
   with n = number of halvings so far,  u * v * 2^n <= 2^257  and  2a, 2d <= (n + 2) * M. *)
From Coq Require Import Znumtheory.
From VBase Require Import MachInt.
From VGen Require Import F128.
From VProofs Require Import F128Limbs F128Ops.
Open Scope Z_scope.

(* ------------------------------------------------------------------ the loops, named *)
Definition cadd_M (z0 z1 z2 : Z) : Z * Z * Z :=
  if Z.eqb (Z.land z0 1) 1
  then (let '(t0, t1, t2) := f128_add_192x192 z0 z1 z2 (wrap 64 f128_M) (wrap 64 (shr f128_M 64)) 0 in (t0, t1, t2))
  else (z0, z1, z2).

Definition shr192 (z0 z1 z2 : Z) : Z * Z * Z :=
  (Z.lor (shr z0 1) (shl 64 (Z.land z1 1) 63), Z.lor (shr z1 1) (shl 64 (Z.land z2 1) 63), shr z2 1).

Definition hdu_cond : Z * Z * Z * Z * Z * Z -> bool :=
  fun '(d0, d1, d2, u0, u1, u2) => Z.eqb (Z.land u0 1) 0.
Definition hdu_body : Z * Z * Z * Z * Z * Z -> Z * Z * Z * Z * Z * Z :=
  fun '(d0, d1, d2, u0, u1, u2) =>
    let '(d0, d1, d2) := cadd_M d0 d1 d2 in
    let '(u0, u1, u2) := shr192 u0 u1 u2 in
    let '(d0, d1, d2) := shr192 d0 d1 d2 in
    (d0, d1, d2, u0, u1, u2).

Definition hav_cond : Z * Z * Z * Z -> bool := fun '(a0, a1, a2, v) => Z.eqb (Z.land v 1) 0.
Definition hav_body : Z * Z * Z * Z -> Z * Z * Z * Z :=
  fun '(a0, a1, a2, v) =>
    let '(a0, a1, a2) := cadd_M a0 a1 a2 in
    let v := shr v 1 in
    let '(a0, a1, a2) := shr192 a0 a1 a2 in
    (a0, a1, a2, v).

Definition ul_cond (v : Z) : Z * Z * Z * Z * Z * Z -> bool :=
  fun '(u0, u1, u2, d0, d1, d2) => orb (Z.gtb u2 0) (Z.gtb (wrap 128 (Z.add u0 (shl 128 u1 64))) v).
Definition ul_body (fuel : nat) (v a0 a1 a2 : Z) : Z * Z * Z * Z * Z * Z -> option (Z * Z * Z * Z * Z * Z) :=
  fun '(u0, u1, u2, d0, d1, d2) =>
    let '(u0, u1, u2) := f128_sub_192x192 u0 u1 u2 (wrap 64 v) (wrap 64 (shr v 64)) 0 in
    let '(d0, d1, d2) := f128_add_192x192 d0 d1 d2 a0 a1 a2 in
    match while_loop fuel hdu_cond hdu_body (d0, d1, d2, u0, u1, u2) with
    | None => None
    | Some (d0, d1, d2, u0, u1, u2) => Some (u0, u1, u2, d0, d1, d2)
    end.

Definition st10 : Type := Z * Z * Z * Z * Z * Z * Z * Z * Z * Z.
Definition ol_cond : st10 -> bool :=
  fun '(u0, u1, u2, d0, d1, d2, v, a0, a1, a2) => negb (Z.eqb v 1).
Definition ol_body (fuel : nat) : st10 -> option st10 :=
  fun '(u0, u1, u2, d0, d1, d2, v, a0, a1, a2) =>
    match while_loop_o fuel (ul_cond v) (ul_body fuel v a0 a1 a2) (u0, u1, u2, d0, d1, d2) with
    | None => None
    | Some (u0, u1, u2, d0, d1, d2) =>
      let v := wrap 128 (Z.sub v (wrap 128 (Z.add u0 (shl 128 u1 64)))) in
      let '(a0, a1, a2) := f128_add_192x192 a0 a1 a2 d0 d1 d2 in
      match while_loop fuel hav_cond hav_body (a0, a1, a2, v) with
      | None => None
      | Some (a0, a1, a2, v) => Some (u0, u1, u2, d0, d1, d2, v, a0, a1, a2)
      end
    end.

Definition fin_cond : Z * Z * Z * Z -> bool :=
  fun '(a0, a1, a2, a) => orb (Z.gtb a2 0) (Z.geb a f128_M).
Definition fin_body : Z * Z * Z * Z -> Z * Z * Z * Z :=
  fun '(a0, a1, a2, a) =>
    let '(a0, a1, a2) := f128_sub_192x192 a0 a1 a2 (wrap 64 f128_M) (wrap 64 (shr f128_M 64)) 0 in
    let a := wrap 128 (Z.add a0 (shl 128 a1 64)) in
    (a0, a1, a2, a).

Definition inv_init_u (x : Z) : Z * Z * Z :=
  if Z.eqb (Z.land x 1) 1
  then (wrap 64 x, wrap 64 (shr x 64), 0)
  else f128_add_192x192 (wrap 64 x) (wrap 64 (shr x 64)) 0 (wrap 64 f128_M) (wrap 64 (shr f128_M 64)) 0.

Lemma f128_fn_inv_unfold fuel x :
  f128_fn_inv fuel x =
  if Z.eqb x 0 then Some 0 else
  let '(u0, u1, u2) := inv_init_u x in
  match while_loop_o fuel ol_cond (ol_body fuel)
          (u0, u1, u2, wrap 64 (Z.sub (wrap 64 f128_M) 1), wrap 64 (shr f128_M 64), 0, f128_M, 0, 0, 0) with
  | None => None
  | Some (u0, u1, u2, d0, d1, d2, v, a0, a1, a2) =>
    match while_loop fuel fin_cond fin_body (a0, a1, a2, wrap 128 (Z.add a0 (shl 128 a1 64))) with
    | None => None
    | Some (a0, a1, a2, a) => Some a
    end
  end.
Proof. reflexivity. Qed.

(* ------------------------------------------------------------------ value level *)
Definition V3 (z0 z1 z2 : Z) : Z := z0 + z1 * 2^64 + z2 * 2^128.
Definition L3 (z0 z1 z2 : Z) : Prop := 0 <= z0 < 2^64 /\ 0 <= z1 < 2^64 /\ 0 <= z2 < 2^64.

Lemma M_div2 k : (M | 2 * k) -> (M | k).
Proof.
  intros H. apply (Z.gauss M 2 k); [exact H|].
  vm_compute. reflexivity.
Qed.

(* halving a congruence  K*x == w  (mod M):  K may first be made even by adding M *)
Lemma cg_halve x K w K' w' e : 2 * K' = K + e * M -> 2 * w' = w ->
  (M | K * x - w) -> (M | K' * x - w').
Proof.
  intros EK Ew [k Hk]. apply M_div2. exists (k + e * x).
  assert (E : 2 * (K' * x - w') = (2 * K') * x - 2 * w') by ring.
  rewrite E, EK, Ew. replace ((K + e * M) * x - w) with (K * x - w + e * x * M) by ring.
  rewrite Hk. ring.
Qed.

Definition pot (h o n : Z) : Prop := 0 <= n /\ h * o * 2^n <= 2^257.

Lemma pot_bound h o n : 0 < h -> 0 < o -> pot h o n -> n <= 257.
Proof.
  intros Hh Ho [Hn Hp].
  assert (H2 : 0 < 2^n) by (apply Z.pow_pos_nonneg; lia).
  assert (H1 : 1 <= h * o) by nia.
  assert (H3 : 2^n <= h * o * 2^n) by nia.
  apply (Z.pow_le_mono_r_iff 2); lia.
Qed.

Lemma pot_sym h o n : pot h o n -> pot o h n.
Proof. unfold pot. now rewrite (Z.mul_comm o h). Qed.

Lemma pot_le h h' o n : 0 <= h' <= h -> 0 <= o -> pot h o n -> pot h' o n.
Proof.
  intros Hh Ho [Hn Hp]. split; [exact Hn|].
  assert (H2 : 0 < 2^n) by (apply Z.pow_pos_nonneg; lia).
  assert (h' * o <= h * o) by (apply Z.mul_le_mono_nonneg_r; lia).
  assert (h' * o * 2^n <= h * o * 2^n) by (apply Z.mul_le_mono_nonneg_r; lia).
  lia.
Qed.

Lemma pot_half h h' o n : h = 2 * h' -> pot h o n -> pot h' o (n + 1).
Proof.
  intros -> [Hn Hp]. split; [lia|].
  replace (h' * o * 2^(n + 1)) with (2 * h' * o * 2^n) by (rewrite Z.pow_add_r, Z.pow_1_r by lia; ring).
  exact Hp.
Qed.

(* invariant of a halving loop: h is the number being halved (u or v), K its cofactor (d or a),
   o the other number, Ko the other cofactor; sg = 1 for (v,a), -1 for (u,d) *)
Definition HV (x sg o Ko h K : Z) : Prop :=
  0 < h /\ 0 <= K /\ (M | K * x - sg * h) /\
  exists n, pot h o n /\ 2 * Ko <= (n + 2) * M /\
            (2 * K <= (n + 2) * M \/ (h mod 2 = 0 /\ K <= (n + 2) * M)).

Lemma HV_bound x sg o Ko h K : 0 < o -> HV x sg o Ko h K -> K <= 259 * M.
Proof.
  intros Ho (Hh & HK & _ & n & Hp & _ & Hor).
  pose proof (pot_bound h o n Hh Ho Hp) as Hn. destruct Hp as [Hn0 _].
  unfold M in *. lia.
Qed.

Lemma HV_step x sg o Ko h K h' K' e : 0 < o -> HV x sg o Ko h K ->
  h = 2 * h' -> 2 * K' = K + e * M -> 0 <= e <= 1 -> HV x sg o Ko h' K'.
Proof.
  intros Ho (Hh & HK & Hd & n & Hp & HKo & Hor) Eh EK He.
  split; [lia|]. split; [unfold M in *; lia|]. split.
  - apply (cg_halve x K (sg * h) K' (sg * h') e EK); [rewrite Eh; ring|exact Hd].
  - exists (n + 1). split; [apply (pot_half h h' o n Eh Hp)|].
    destruct Hp as [Hn0 _]. split; [unfold M in *; lia|]. left. unfold M in *. lia.
Qed.

(* ------------------------------------------------------------------ limb shifts and the conditional +M *)
Lemma lor_hi x b : 0 <= x < 2^63 -> 0 <= b <= 1 -> Z.lor x (shl 64 b 63) = x + b * 2^63.
Proof.
  intros Hx Hb. assert (b = 0 \/ b = 1) as [->| ->] by lia.
  - change (shl 64 0 63) with 0. rewrite Z.lor_0_r. ring.
  - change (shl 64 1 63) with (2^63). rewrite Z.mul_1_l.
    assert (E0 : Z.land x (2^63) = 0).
    { assert (E : x = Z.land x (Z.ones 63)) by (rewrite Z.land_ones by lia; symmetry; apply Z.mod_small; lia).
      rewrite E, <- Z.land_assoc. change (Z.land (Z.ones 63) (2^63)) with 0. apply Z.land_0_r. }
    rewrite <- (Z.lxor_lor _ _ E0). symmetry. apply Z.add_nocarry_lxor. exact E0.
Qed.

Lemma shr1 z : shr z 1 = z / 2. Proof. reflexivity. Qed.

Lemma shr192_spec z0 z1 z2 : L3 z0 z1 z2 ->
  let '(r0, r1, r2) := shr192 z0 z1 z2 in
  L3 r0 r1 r2 /\ V3 z0 z1 z2 = 2 * V3 r0 r1 r2 + z0 mod 2.
Proof.
  intros (H0 & H1 & H2). unfold shr192. rewrite !land1, !shr1.
  pose proof (Z.div_mod z0 2 ltac:(lia)). pose proof (Z.mod_pos_bound z0 2 ltac:(lia)).
  pose proof (Z.div_mod z1 2 ltac:(lia)). pose proof (Z.mod_pos_bound z1 2 ltac:(lia)).
  pose proof (Z.div_mod z2 2 ltac:(lia)). pose proof (Z.mod_pos_bound z2 2 ltac:(lia)).
  rewrite !lor_hi by lia.
  unfold L3, V3. lia.
Qed.

(* conditional +M followed by the shift: the result is (z + e*M)/2 exactly *)
Lemma halveM_spec z0 z1 z2 : L3 z0 z1 z2 -> V3 z0 z1 z2 + M < 2^192 ->
  let '(t0, t1, t2) := cadd_M z0 z1 z2 in
  let '(r0, r1, r2) := shr192 t0 t1 t2 in
  L3 r0 r1 r2 /\ exists e, 0 <= e <= 1 /\ 2 * V3 r0 r1 r2 = V3 z0 z1 z2 + e * M.
Proof.
  intros L Hb. pose proof L as (H0 & H1 & H2). unfold cadd_M. rewrite land1.
  pose proof (Z.div_mod z0 2 ltac:(lia)) as Hdm. pose proof (Z.mod_pos_bound z0 2 ltac:(lia)) as Hm.
  destruct (Z.eqb_spec (z0 mod 2) 1) as [E|E].
  - rewrite M_lo, M_hi.
    pose proof (add_192x192_exact z0 z1 z2 (2^64 - C) (2^64 - 1) 0 H0 H1 H2
                  ltac:(unfold C; lia) ltac:(lia) ltac:(lia)) as Ha.
    unfold V3 in Hb. rewrite M_limbs in Hb.
    specialize (Ha ltac:(lia)).
    destruct (f128_add_192x192 z0 z1 z2 (2^64 - C) (2^64 - 1) 0) as [[t0 t1] t2].
    destruct Ha as (T0 & T1 & T2 & Et).
    pose proof (shr192_spec t0 t1 t2 (conj T0 (conj T1 T2))) as Hs.
    destruct (shr192 t0 t1 t2) as [[r0 r1] r2]. destruct Hs as (Lr & Er).
    split; [exact Lr|]. exists 1. split; [lia|].
    pose proof (Z.div_mod t0 2 ltac:(lia)). pose proof (Z.mod_pos_bound t0 2 ltac:(lia)).
    unfold V3 in *. rewrite M_limbs. unfold C in *. lia.
  - pose proof (shr192_spec z0 z1 z2 L) as Hs.
    destruct (shr192 z0 z1 z2) as [[r0 r1] r2]. destruct Hs as (Lr & Er).
    split; [exact Lr|]. exists 0. split; [lia|]. lia.
Qed.
