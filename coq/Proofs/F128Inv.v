(* f128 inversion: binary extended GCD on 192-bit limb triples (fn inv of math/src/field/f128/mod.rs,
   generated term f128_fn_inv in Gen/F128.v).  Partial correctness by loop invariants:
       a * x == v   and   d * x == -u   (mod M),
   together with a bound that keeps a and d far below 2^192, so that add_192x192 never wraps:
   with n = number of halvings so far,  u * v * 2^n <= 2^257  and  2a, 2d <= (n + 2) * M. *)
From Coq Require Import Znumtheory.
From VBase Require Import MachInt.
From VGen Require Import F128.
From VProofs Require Import F128Limbs F128Ops.
Open Scope Z_scope.

(* ------------------------------------------------------------------ the loops, named *)
Definition cadd_M (z0 z1 z2 : Z) : Z * Z * Z :=
  if Z.eqb (Z.land z0 1) 1
  then (let '(t0, t1, t2) := f128_add_192x192 z0 z1 z2 (wrap 64 f128_M) (wrap 64 (shr f128_M 64)) 0 in (t0, t1, t2))
  else (z0, z1, z2).

Definition shr192 (z0 z1 z2 : Z) : Z * Z * Z :=
  (Z.lor (shr z0 1) (shl 64 (Z.land z1 1) 63), Z.lor (shr z1 1) (shl 64 (Z.land z2 1) 63), shr z2 1).

Definition hdu_cond : Z * Z * Z * Z * Z * Z -> bool :=
  fun '(d0, d1, d2, u0, u1, u2) => Z.eqb (Z.land u0 1) 0.
Definition hdu_body : Z * Z * Z * Z * Z * Z -> Z * Z * Z * Z * Z * Z :=
  fun '(d0, d1, d2, u0, u1, u2) =>
    let '(d0, d1, d2) := cadd_M d0 d1 d2 in
    let '(u0, u1, u2) := shr192 u0 u1 u2 in
    let '(d0, d1, d2) := shr192 d0 d1 d2 in
    (d0, d1, d2, u0, u1, u2).

Definition hav_cond : Z * Z * Z * Z -> bool := fun '(a0, a1, a2, v) => Z.eqb (Z.land v 1) 0.
Definition hav_body : Z * Z * Z * Z -> Z * Z * Z * Z :=
  fun '(a0, a1, a2, v) =>
    let '(a0, a1, a2) := cadd_M a0 a1 a2 in
    let v := shr v 1 in
    let '(a0, a1, a2) := shr192 a0 a1 a2 in
    (a0, a1, a2, v).

Definition ul_cond (v : Z) : Z * Z * Z * Z * Z * Z -> bool :=
  fun '(u0, u1, u2, d0, d1, d2) => orb (Z.gtb u2 0) (Z.gtb (wrap 128 (Z.add u0 (shl 128 u1 64))) v).
Definition ul_body (fuel : nat) (v a0 a1 a2 : Z) : Z * Z * Z * Z * Z * Z -> option (Z * Z * Z * Z * Z * Z) :=
  fun '(u0, u1, u2, d0, d1, d2) =>
    let '(u0, u1, u2) := f128_sub_192x192 u0 u1 u2 (wrap 64 v) (wrap 64 (shr v 64)) 0 in
    let '(d0, d1, d2) := f128_add_192x192 d0 d1 d2 a0 a1 a2 in
    match while_loop fuel hdu_cond hdu_body (d0, d1, d2, u0, u1, u2) with
    | None => None
    | Some (d0, d1, d2, u0, u1, u2) => Some (u0, u1, u2, d0, d1, d2)
    end.

Definition st10 : Type := Z * Z * Z * Z * Z * Z * Z * Z * Z * Z.
Definition ol_cond : st10 -> bool :=
  fun '(u0, u1, u2, d0, d1, d2, v, a0, a1, a2) => negb (Z.eqb v 1).
Definition ol_body (fuel : nat) : st10 -> option st10 :=
  fun '(u0, u1, u2, d0, d1, d2, v, a0, a1, a2) =>
    match while_loop_o fuel (ul_cond v) (ul_body fuel v a0 a1 a2) (u0, u1, u2, d0, d1, d2) with
    | None => None
    | Some (u0, u1, u2, d0, d1, d2) =>
      let v := wrap 128 (Z.sub v (wrap 128 (Z.add u0 (shl 128 u1 64)))) in
      let '(a0, a1, a2) := f128_add_192x192 a0 a1 a2 d0 d1 d2 in
      match while_loop fuel hav_cond hav_body (a0, a1, a2, v) with
      | None => None
      | Some (a0, a1, a2, v) => Some (u0, u1, u2, d0, d1, d2, v, a0, a1, a2)
      end
    end.

Definition fin_cond : Z * Z * Z * Z -> bool :=
  fun '(a0, a1, a2, a) => orb (Z.gtb a2 0) (Z.geb a f128_M).
Definition fin_body : Z * Z * Z * Z -> Z * Z * Z * Z :=
  fun '(a0, a1, a2, a) =>
    let '(a0, a1, a2) := f128_sub_192x192 a0 a1 a2 (wrap 64 f128_M) (wrap 64 (shr f128_M 64)) 0 in
    let a := wrap 128 (Z.add a0 (shl 128 a1 64)) in
    (a0, a1, a2, a).

Definition inv_init_u (x : Z) : Z * Z * Z :=
  if Z.eqb (Z.land x 1) 1
  then (wrap 64 x, wrap 64 (shr x 64), 0)
  else f128_add_192x192 (wrap 64 x) (wrap 64 (shr x 64)) 0 (wrap 64 f128_M) (wrap 64 (shr f128_M 64)) 0.

Lemma f128_fn_inv_unfold fuel x :
  f128_fn_inv fuel x =
  if Z.eqb x 0 then Some 0 else
  let '(u0, u1, u2) := inv_init_u x in
  match while_loop_o fuel ol_cond (ol_body fuel)
          (u0, u1, u2, wrap 64 (Z.sub (wrap 64 f128_M) 1), wrap 64 (shr f128_M 64), 0, f128_M, 0, 0, 0) with
  | None => None
  | Some (u0, u1, u2, d0, d1, d2, v, a0, a1, a2) =>
    match while_loop fuel fin_cond fin_body (a0, a1, a2, wrap 128 (Z.add a0 (shl 128 a1 64))) with
    | None => None
    | Some (a0, a1, a2, a) => Some a
    end
  end.
Proof. reflexivity. Qed.

(* ------------------------------------------------------------------ value level *)
Definition V3 (z0 z1 z2 : Z) : Z := z0 + z1 * 2^64 + z2 * 2^128.
Definition L3 (z0 z1 z2 : Z) : Prop := 0 <= z0 < 2^64 /\ 0 <= z1 < 2^64 /\ 0 <= z2 < 2^64.

Lemma M_div2 k : (M | 2 * k) -> (M | k).
Proof.
  intros H. apply (Z.gauss M 2 k); [exact H|].
  vm_compute. reflexivity.
Qed.

(* halving a congruence  K*x == w  (mod M):  K may first be made even by adding M *)
Lemma cg_halve x K w K' w' e : 2 * K' = K + e * M -> 2 * w' = w ->
  (M | K * x - w) -> (M | K' * x - w').
Proof.
  intros EK Ew [k Hk]. apply M_div2. exists (k + e * x).
  assert (E : 2 * (K' * x - w') = (2 * K') * x - 2 * w') by ring.
  rewrite E, EK, Ew. replace ((K + e * M) * x - w) with (K * x - w + e * x * M) by ring.
  rewrite Hk. ring.
Qed.

Definition pot (h o n : Z) : Prop := 0 <= n /\ h * o * 2^n <= 2^257.

Lemma pot_bound h o n : 0 < h -> 0 < o -> pot h o n -> n <= 257.
Proof.
  intros Hh Ho [Hn Hp].
  assert (H2 : 0 < 2^n) by (apply Z.pow_pos_nonneg; lia).
  assert (H1 : 1 <= h * o) by nia.
  assert (H3 : 2^n <= h * o * 2^n) by nia.
  apply (Z.pow_le_mono_r_iff 2); lia.
Qed.

Lemma pot_sym h o n : pot h o n -> pot o h n.
Proof. unfold pot. now rewrite (Z.mul_comm o h). Qed.

Lemma pot_le h h' o n : 0 <= h' <= h -> 0 <= o -> pot h o n -> pot h' o n.
Proof.
  intros Hh Ho [Hn Hp]. split; [exact Hn|].
  assert (H2 : 0 < 2^n) by (apply Z.pow_pos_nonneg; lia).
  assert (h' * o <= h * o) by (apply Z.mul_le_mono_nonneg_r; lia).
  assert (h' * o * 2^n <= h * o * 2^n) by (apply Z.mul_le_mono_nonneg_r; lia).
  lia.
Qed.

Lemma pot_half h h' o n : h = 2 * h' -> pot h o n -> pot h' o (n + 1).
Proof.
  intros -> [Hn Hp]. split; [lia|].
  replace (h' * o * 2^(n + 1)) with (2 * h' * o * 2^n) by (rewrite Z.pow_add_r, Z.pow_1_r by lia; ring).
  exact Hp.
Qed.

(* common divisors of the two numbers divide gcd(x, M): used for termination only
   (u = v can then only happen at u = v = 1 when gcd(x, M) = 1) *)
Definition RP (x h o : Z) : Prop := forall g, (g | h) -> (g | o) -> (g | Z.gcd x M).

Lemma RP_sym x h o : RP x h o -> RP x o h.
Proof. intros H g Ho Hh. apply H; assumption. Qed.

Lemma RP_half x h h' o : h = 2 * h' -> RP x h o -> RP x h' o.
Proof. intros -> H g Hh Ho. apply H; [|exact Ho]. apply Z.divide_mul_r. exact Hh. Qed.

Lemma RP_sub x h o : RP x h o -> RP x (h - o) o.
Proof.
  intros H g Hh Ho. apply H; [|exact Ho].
  replace h with ((h - o) + o) by ring. apply Z.divide_add_r; assumption.
Qed.

Lemma RP_diag x h : Z.gcd x M = 1 -> 0 < h -> RP x h h -> h = 1.
Proof.
  intros Hg Hh H. specialize (H h (Z.divide_refl h) (Z.divide_refl h)). rewrite Hg in H.
  apply Z.divide_1_r_nonneg in H; lia.
Qed.

(* invariant of a halving loop: h is the number being halved (u or v), K its cofactor (d or a),
   o the other number, Ko the other cofactor; sg = 1 for (v,a), -1 for (u,d) *)
Definition HV (x sg o Ko h K : Z) : Prop :=
  0 < h /\ 0 <= K /\ (M | K * x - sg * h) /\ RP x h o /\
  exists n, pot h o n /\ 2 * Ko <= (n + 2) * M /\
            (2 * K <= (n + 2) * M \/ (h mod 2 = 0 /\ K <= (n + 2) * M)).

Lemma HV_bound x sg o Ko h K : 0 < o -> HV x sg o Ko h K -> K <= 259 * M.
Proof.
  intros Ho (Hh & HK & _ & _ & n & Hp & _ & Hor).
  pose proof (pot_bound h o n Hh Ho Hp) as Hn. destruct Hp as [Hn0 _].
  unfold M in *. lia.
Qed.

Lemma HV_step x sg o Ko h K h' K' e : 0 < o -> HV x sg o Ko h K ->
  h = 2 * h' -> 2 * K' = K + e * M -> 0 <= e <= 1 -> HV x sg o Ko h' K'.
Proof.
  intros Ho (Hh & HK & Hd & Hrp & n & Hp & HKo & Hor) Eh EK He.
  split; [lia|]. split; [unfold M in *; lia|]. split.
  { apply (cg_halve x K (sg * h) K' (sg * h') e EK); [rewrite Eh; ring|exact Hd]. }
  split; [exact (RP_half x h h' o Eh Hrp)|].
  exists (n + 1). split; [apply (pot_half h h' o n Eh Hp)|].
  destruct Hp as [Hn0 _]. split; [unfold M in *; lia|]. left. unfold M in *. lia.
Qed.

Lemma HV_exit_odd x sg o Ko h K : HV x sg o Ko h K -> h mod 2 <> 0 ->
  exists n, pot h o n /\ 2 * Ko <= (n + 2) * M /\ 2 * K <= (n + 2) * M.
Proof.
  intros (_ & _ & _ & _ & n & Hp & HKo & Hor) Hodd. exists n. split; [exact Hp|]. split; [exact HKo|].
  destruct Hor as [Ht|[He _]]; [exact Ht|contradiction].
Qed.

Lemma pow2_fuel (k : Z) (fuel : nat) : 0 <= k <= Z.of_nat fuel -> 2^k <= 2 ^ Z.of_nat fuel.
Proof. intros H. apply Z.pow_le_mono_r; lia. Qed.

(* ------------------------------------------------------------------ limb shifts and the conditional +M *)
Lemma lor_hi x b : 0 <= x < 2^63 -> 0 <= b <= 1 -> Z.lor x (shl 64 b 63) = x + b * 2^63.
Proof.
  intros Hx Hb. assert (b = 0 \/ b = 1) as [->| ->] by lia.
  - change (shl 64 0 63) with 0. rewrite Z.lor_0_r. ring.
  - change (shl 64 1 63) with (2^63). rewrite Z.mul_1_l.
    assert (E0 : Z.land x (2^63) = 0).
    { assert (E : x = Z.land x (Z.ones 63)) by (rewrite Z.land_ones by lia; symmetry; apply Z.mod_small; lia).
      rewrite E, <- Z.land_assoc. change (Z.land (Z.ones 63) (2^63)) with 0. apply Z.land_0_r. }
    rewrite <- (Z.lxor_lor _ _ E0). symmetry. apply Z.add_nocarry_lxor. exact E0.
Qed.

Lemma shr1 z : shr z 1 = z / 2. Proof. reflexivity. Qed.

Lemma shr192_spec z0 z1 z2 : L3 z0 z1 z2 ->
  let '(r0, r1, r2) := shr192 z0 z1 z2 in
  L3 r0 r1 r2 /\ V3 z0 z1 z2 = 2 * V3 r0 r1 r2 + z0 mod 2.
Proof.
  intros (H0 & H1 & H2). unfold shr192. rewrite !land1, !shr1.
  pose proof (Z.div_mod z0 2 ltac:(lia)). pose proof (Z.mod_pos_bound z0 2 ltac:(lia)).
  pose proof (Z.div_mod z1 2 ltac:(lia)). pose proof (Z.mod_pos_bound z1 2 ltac:(lia)).
  pose proof (Z.div_mod z2 2 ltac:(lia)). pose proof (Z.mod_pos_bound z2 2 ltac:(lia)).
  rewrite !lor_hi by lia.
  unfold L3, V3. lia.
Qed.

(* conditional +M followed by the shift: the result is (z + e*M)/2 exactly *)
Lemma halveM_spec z0 z1 z2 : L3 z0 z1 z2 -> V3 z0 z1 z2 + M < 2^192 ->
  let '(t0, t1, t2) := cadd_M z0 z1 z2 in
  let '(r0, r1, r2) := shr192 t0 t1 t2 in
  L3 r0 r1 r2 /\ exists e, 0 <= e <= 1 /\ 2 * V3 r0 r1 r2 = V3 z0 z1 z2 + e * M.
Proof.
  intros L Hb. pose proof L as (H0 & H1 & H2). unfold cadd_M. rewrite land1.
  pose proof (Z.div_mod z0 2 ltac:(lia)) as Hdm. pose proof (Z.mod_pos_bound z0 2 ltac:(lia)) as Hm.
  destruct (Z.eqb_spec (z0 mod 2) 1) as [E|E].
  - rewrite M_lo, M_hi.
    pose proof (add_192x192_exact z0 z1 z2 (2^64 - C) (2^64 - 1) 0 H0 H1 H2
                  ltac:(unfold C; lia) ltac:(lia) ltac:(lia)) as Ha.
    unfold V3 in Hb. rewrite M_limbs in Hb.
    specialize (Ha ltac:(lia)).
    destruct (f128_add_192x192 z0 z1 z2 (2^64 - C) (2^64 - 1) 0) as [[t0 t1] t2].
    destruct Ha as (T0 & T1 & T2 & Et).
    pose proof (shr192_spec t0 t1 t2 (conj T0 (conj T1 T2))) as Hs.
    destruct (shr192 t0 t1 t2) as [[r0 r1] r2]. destruct Hs as (Lr & Er).
    split; [exact Lr|]. exists 1. split; [lia|].
    pose proof (Z.div_mod t0 2 ltac:(lia)). pose proof (Z.mod_pos_bound t0 2 ltac:(lia)).
    unfold V3 in *. rewrite M_limbs. unfold C in *. lia.
  - pose proof (shr192_spec z0 z1 z2 L) as Hs.
    destruct (shr192 z0 z1 z2) as [[r0 r1] r2]. destruct Hs as (Lr & Er).
    split; [exact Lr|]. exists 0. split; [lia|]. lia.
Qed.

Lemma cadd_M_limbs z0 z1 z2 : L3 z0 z1 z2 ->
  let '(t0, t1, t2) := cadd_M z0 z1 z2 in L3 t0 t1 t2.
Proof.
  intros L. pose proof L as (H0 & H1 & H2). unfold cadd_M.
  destruct (Z.land z0 1 =? 1); [|exact L].
  rewrite M_lo, M_hi.
  pose proof (add_192x192_spec z0 z1 z2 (2^64 - C) (2^64 - 1) 0 H0 H1 H2
                ltac:(unfold C; lia) ltac:(lia) ltac:(lia)) as Ha.
  destruct (f128_add_192x192 z0 z1 z2 (2^64 - C) (2^64 - 1) 0) as [[t0 t1] t2].
  destruct Ha as (T0 & T1 & T2 & _). repeat split; lia.
Qed.

Lemma V3_parity z0 z1 z2 : V3 z0 z1 z2 mod 2 = z0 mod 2.
Proof.
  unfold V3. replace (z0 + z1 * 2^64 + z2 * 2^128) with (z0 + (z1 * 2^63 + z2 * 2^127) * 2) by ring.
  apply Z.mod_add. lia.
Qed.

Lemma V3_nonneg z0 z1 z2 : L3 z0 z1 z2 -> 0 <= V3 z0 z1 z2 < 2^192.
Proof. unfold L3, V3. lia. Qed.

Lemma low128 z0 z1 : 0 <= z0 < 2^64 -> 0 <= z1 < 2^64 -> wrap 128 (z0 + shl 128 z1 64) = z0 + z1 * 2^64.
Proof. intros H0 H1. rewrite shl_limb by exact H1. apply wrap_small. lia. Qed.

Lemma limbs128 v : 0 <= v < 2^128 ->
  L3 (wrap 64 v) (wrap 64 (shr v 64)) 0 /\ V3 (wrap 64 v) (wrap 64 (shr v 64)) 0 = v.
Proof.
  intros Hv. destruct (split64 v) as (H1 & H2 & H3); [lia|].
  rewrite (wrap_small 64 (shr v 64)) by lia. unfold L3, V3. lia.
Qed.

(* ------------------------------------------------------------------ halving loop for (u, d) *)
Definition Uh (s : Z * Z * Z * Z * Z * Z) : Z := let '(d0, d1, d2, u0, u1, u2) := s in V3 u0 u1 u2.

Definition HI (x v A : Z) (s : Z * Z * Z * Z * Z * Z) : Prop :=
  let '(d0, d1, d2, u0, u1, u2) := s in
  L3 d0 d1 d2 /\ L3 u0 u1 u2 /\ HV x (-1) v A (V3 u0 u1 u2) (V3 d0 d1 d2).

Lemma hdu_step2 x v A : 0 < v -> forall s, HI x v A s -> hdu_cond s = true ->
  HI x v A (hdu_body s) /\ 2 * Uh (hdu_body s) = Uh s.
Proof.
  intros Hv [[[[[d0 d1] d2] u0] u1] u2]. unfold HI, Uh, hdu_cond, hdu_body.
  intros (Ld & Lu & H) Hc.
  pose proof (HV_bound _ _ _ _ _ _ Hv H) as Hb.
  pose proof (halveM_spec d0 d1 d2 Ld ltac:(unfold M in *; lia)) as Hd.
  destruct (cadd_M d0 d1 d2) as [[t0 t1] t2].
  pose proof (shr192_spec u0 u1 u2 Lu) as Hu.
  destruct (shr192 u0 u1 u2) as [[u0' u1'] u2']. destruct Hu as (Lu' & Eu).
  destruct (shr192 t0 t1 t2) as [[d0' d1'] d2']. destruct Hd as (Ld' & e & He & Ed).
  rewrite land1 in Hc. apply Z.eqb_eq in Hc. rewrite Hc, Z.add_0_r in Eu.
  split; [|lia].
  split; [exact Ld'|]. split; [exact Lu'|].
  exact (HV_step x (-1) v A _ _ _ _ e Hv H Eu Ed He).
Qed.

Lemma hdu_step x v A : 0 < v -> forall s, HI x v A s -> hdu_cond s = true -> HI x v A (hdu_body s).
Proof. intros Hv s H Hc. exact (proj1 (hdu_step2 x v A Hv s H Hc)). Qed.

Lemma HI_Uh x v A s : HI x v A s -> 0 < Uh s < 2^192.
Proof.
  destruct s as [[[[[d0 d1] d2] u0] u1] u2]. unfold HI, Uh. intros (_ & Lu & Hh & _).
  pose proof (V3_nonneg _ _ _ Lu). lia.
Qed.

Lemma hdu_exit_odd s : hdu_cond s = false -> Uh s mod 2 <> 0.
Proof.
  destruct s as [[[[[d0 d1] d2] u0] u1] u2]. unfold hdu_cond, Uh. rewrite land1, V3_parity.
  intros H. apply Z.eqb_neq in H. exact H.
Qed.

(* result of the loop: invariant, u odd, and at least one halving when u was even *)
Lemma hdu_rel x v A fuel s s' : 0 < v -> HI x v A s -> while_loop fuel hdu_cond hdu_body s = Some s' ->
  HI x v A s' /\ Uh s' mod 2 <> 0 /\ (Uh s mod 2 = 0 -> 2 * Uh s' <= Uh s).
Proof.
  intros Hv H0 W.
  destruct (while_loop_inv (fun t => HI x v A t /\ (Uh t = Uh s \/ 2 * Uh t <= Uh s)) hdu_cond hdu_body)
    with (fuel := fuel) (s := s) (r := s') as ((H' & Hr) & Hc); [| |exact W|].
  - intros t [Ht Hr] Hc. destruct (hdu_step2 x v A Hv t Ht Hc) as [Ht' E].
    split; [exact Ht'|]. pose proof (HI_Uh _ _ _ _ Ht'). right. lia.
  - split; [exact H0|left; reflexivity].
  - pose proof (hdu_exit_odd s' Hc) as Hodd.
    split; [exact H'|]. split; [exact Hodd|]. intros Hev. destruct Hr as [E|Hle]; [|exact Hle].
    rewrite E in Hodd. contradiction.
Qed.

Lemma hdu_total x v A fuel s : 0 < v -> HI x v A s -> (192 <= fuel)%nat ->
  exists s', while_loop fuel hdu_cond hdu_body s = Some s'.
Proof.
  intros Hv H0 Hf.
  apply (while_loop_term (fun n t => HI x v A t /\ Uh t < 2 ^ Z.of_nat n) hdu_cond hdu_body).
  - intros t [Ht Hlt]. pose proof (HI_Uh _ _ _ _ Ht). change (2 ^ Z.of_nat 0) with 1 in Hlt. lia.
  - intros n t [Ht Hlt] Hc. destruct (hdu_step2 x v A Hv t Ht Hc) as [Ht' E].
    split; [exact Ht'|]. rewrite Nat2Z.inj_succ, Z.pow_succ_r in Hlt by lia. lia.
  - split; [exact H0|]. pose proof (HI_Uh _ _ _ _ H0). pose proof (pow2_fuel 192 fuel ltac:(lia)). lia.
Qed.

(* ------------------------------------------------------------------ halving loop for (v, a) *)
Definition vh (s : Z * Z * Z * Z) : Z := let '(a0, a1, a2, v) := s in v.

Definition AI (x U D : Z) (s : Z * Z * Z * Z) : Prop :=
  let '(a0, a1, a2, v) := s in
  L3 a0 a1 a2 /\ 0 <= v < 2^128 /\ (v = 0 \/ HV x 1 U D v (V3 a0 a1 a2)).

Lemma hav_step2 x U D : 0 < U -> forall s, AI x U D s -> hav_cond s = true ->
  AI x U D (hav_body s) /\ 2 * vh (hav_body s) = vh s.
Proof.
  intros HU [[[a0 a1] a2] v]. unfold AI, vh, hav_cond, hav_body. cbv zeta.
  intros (La & Hv & H) Hc. rewrite shr1.
  assert (Hv2 : 0 <= v / 2 < 2^128).
  { split; [apply Z.div_pos; lia|apply Z.div_lt_upper_bound; lia]. }
  rewrite land1 in Hc. apply Z.eqb_eq in Hc.
  assert (Ev : v = 2 * (v / 2)) by (pose proof (Z.div_mod v 2 ltac:(lia)); lia).
  destruct H as [->|H].
  - pose proof (cadd_M_limbs a0 a1 a2 La) as Hl.
    destruct (cadd_M a0 a1 a2) as [[t0 t1] t2].
    pose proof (shr192_spec t0 t1 t2 Hl) as Hs.
    destruct (shr192 t0 t1 t2) as [[r0 r1] r2]. destruct Hs as (Lr & _).
    split; [|reflexivity].
    split; [exact Lr|]. split; [exact Hv2|]. left. reflexivity.
  - pose proof (HV_bound _ _ _ _ _ _ HU H) as Hb.
    pose proof (halveM_spec a0 a1 a2 La ltac:(unfold M in *; lia)) as Ha.
    destruct (cadd_M a0 a1 a2) as [[t0 t1] t2].
    destruct (shr192 t0 t1 t2) as [[r0 r1] r2]. destruct Ha as (Lr & e & He & Ea).
    split; [|lia].
    split; [exact Lr|]. split; [exact Hv2|]. right.
    exact (HV_step x 1 U D _ _ _ _ e HU H Ev Ea He).
Qed.

Lemma hav_step x U D : 0 < U -> forall s, AI x U D s -> hav_cond s = true -> AI x U D (hav_body s).
Proof. intros HU s H Hc. exact (proj1 (hav_step2 x U D HU s H Hc)). Qed.

Lemma AI_vh x U D s : AI x U D s -> 0 <= vh s < 2^128.
Proof. destruct s as [[[a0 a1] a2] v]. unfold AI, vh. intros (_ & H & _). exact H. Qed.

Lemma hav_exit_odd s : hav_cond s = false -> vh s mod 2 <> 0.
Proof.
  destruct s as [[[a0 a1] a2] v]. unfold hav_cond, vh. rewrite land1.
  intros H. apply Z.eqb_neq in H. exact H.
Qed.

Lemma hav_rel x U D fuel s s' : 0 < U -> AI x U D s -> while_loop fuel hav_cond hav_body s = Some s' ->
  AI x U D s' /\ vh s' mod 2 <> 0 /\ (vh s mod 2 = 0 -> 2 * vh s' <= vh s).
Proof.
  intros HU H0 W.
  destruct (while_loop_inv (fun t => AI x U D t /\ (vh t = vh s \/ 2 * vh t <= vh s)) hav_cond hav_body)
    with (fuel := fuel) (s := s) (r := s') as ((H' & Hr) & Hc); [| |exact W|].
  - intros t [Ht Hr] Hc. destruct (hav_step2 x U D HU t Ht Hc) as [Ht' E].
    split; [exact Ht'|]. pose proof (AI_vh _ _ _ _ Ht'). right. lia.
  - split; [exact H0|left; reflexivity].
  - pose proof (hav_exit_odd s' Hc) as Hodd.
    split; [exact H'|]. split; [exact Hodd|]. intros Hev. destruct Hr as [E|Hle]; [|exact Hle].
    rewrite E in Hodd. contradiction.
Qed.

Lemma hav_total x U D fuel s : 0 < U -> AI x U D s -> 0 < vh s -> (128 <= fuel)%nat ->
  exists s', while_loop fuel hav_cond hav_body s = Some s'.
Proof.
  intros HU H0 Hpos Hf.
  apply (while_loop_term (fun n t => AI x U D t /\ 0 < vh t < 2 ^ Z.of_nat n) hav_cond hav_body).
  - intros t [Ht Hlt]. change (2 ^ Z.of_nat 0) with 1 in Hlt. lia.
  - intros n t [Ht Hlt] Hc. destruct (hav_step2 x U D HU t Ht Hc) as [Ht' E].
    split; [exact Ht'|]. rewrite Nat2Z.inj_succ, Z.pow_succ_r in Hlt by lia. lia.
  - split; [exact H0|]. pose proof (AI_vh _ _ _ _ H0). pose proof (pow2_fuel 128 fuel ltac:(lia)). lia.
Qed.

(* ------------------------------------------------------------------ the inner loop  while u > v *)
Definition Uu (s : Z * Z * Z * Z * Z * Z) : Z := let '(u0, u1, u2, d0, d1, d2) := s in V3 u0 u1 u2.

Definition UV (x v A U D : Z) : Prop :=
  0 < U /\ U mod 2 = 1 /\ 0 <= D /\ (M | D * x - (-1) * U) /\ RP x U v /\
  exists n, pot U v n /\ 2 * A <= (n + 2) * M /\ 2 * D <= (n + 2) * M.

Definition UI (x v A : Z) (s : Z * Z * Z * Z * Z * Z) : Prop :=
  let '(u0, u1, u2, d0, d1, d2) := s in
  L3 u0 u1 u2 /\ L3 d0 d1 d2 /\ UV x v A (V3 u0 u1 u2) (V3 d0 d1 d2).

Lemma ul_cond_spec v u0 u1 u2 d0 d1 d2 : L3 u0 u1 u2 ->
  (ul_cond v (u0, u1, u2, d0, d1, d2) = true -> v < V3 u0 u1 u2 \/ 2^128 <= V3 u0 u1 u2) /\
  (ul_cond v (u0, u1, u2, d0, d1, d2) = false -> u2 = 0 /\ V3 u0 u1 u2 <= v).
Proof.
  intros (H0 & H1 & H2). unfold ul_cond. rewrite low128 by assumption. rewrite !Z.gtb_ltb.
  unfold V3. destruct (Z.ltb_spec 0 u2); destruct (Z.ltb_spec v (u0 + u1 * 2^64)); cbn [orb];
    split; intros; try discriminate; lia.
Qed.

Definition swap6 (r : option (Z * Z * Z * Z * Z * Z)) : option (Z * Z * Z * Z * Z * Z) :=
  match r with
  | None => None
  | Some (d0, d1, d2, u0, u1, u2) => Some (u0, u1, u2, d0, d1, d2)
  end.

(* the straight-line part of the body: u - v and d + a are exact; the halving loop starts from an even u *)
Lemma ul_prefix fuel x v a0 a1 a2 :
  0 < v < 2^128 -> v mod 2 = 1 -> L3 a0 a1 a2 -> (M | V3 a0 a1 a2 * x - 1 * v) ->
  forall s, UI x v (V3 a0 a1 a2) s -> ul_cond v s = true ->
  exists t, HI x v (V3 a0 a1 a2) t /\ Uh t = Uu s - v /\ Uh t mod 2 = 0 /\
            ul_body fuel v a0 a1 a2 s = swap6 (while_loop fuel hdu_cond hdu_body t).
Proof.
  intros Hv Hvo La Hcg [[[[[u0 u1] u2] d0] d1] d2]. unfold UI, Uu, ul_body.
  intros (Lu & Ld & HU & HUo & HD & Hcd & Hrp & n & Hp & HnA & HnD) Hc.
  pose proof (V3_nonneg _ _ _ La) as HA. set (A := V3 a0 a1 a2) in *.
  apply (proj1 (ul_cond_spec v u0 u1 u2 d0 d1 d2 Lu)) in Hc.
  destruct (limbs128 v ltac:(lia)) as (Lv & Ev).
  pose proof Lu as (U0 & U1 & U2). pose proof Ld as (D0 & D1 & D2). pose proof La as (A0 & A1 & A2).
  pose proof Lv as (V0 & V1 & V2).
  (* u - v *)
  pose proof (sub_192x192_exact u0 u1 u2 (wrap 64 v) (wrap 64 (shr v 64)) 0 U0 U1 U2 V0 V1 V2) as Hs.
  fold (V3 (wrap 64 v) (wrap 64 (shr v 64)) 0) (V3 u0 u1 u2) in Hs. rewrite Ev in Hs.
  specialize (Hs ltac:(lia)).
  destruct (f128_sub_192x192 u0 u1 u2 (wrap 64 v) (wrap 64 (shr v 64)) 0) as [[u0' u1'] u2'].
  destruct Hs as (U0' & U1' & U2' & Eu). fold (V3 u0' u1' u2') in Eu.
  (* d + a *)
  pose proof (pot_bound _ v n HU ltac:(lia) Hp) as Hn. pose proof Hp as [Hn0 _].
  pose proof (add_192x192_exact d0 d1 d2 a0 a1 a2 D0 D1 D2 A0 A1 A2) as Ha.
  fold (V3 d0 d1 d2) (V3 a0 a1 a2) in Ha. fold A in Ha.
  specialize (Ha ltac:(unfold M in *; lia)).
  destruct (f128_add_192x192 d0 d1 d2 a0 a1 a2) as [[d0' d1'] d2'].
  destruct Ha as (D0' & D1' & D2' & Ed). fold (V3 d0' d1' d2') in Ed.
  set (U := V3 u0 u1 u2) in *. set (D := V3 d0 d1 d2) in *.
  assert (Hev : (U - v) mod 2 = 0).
  { pose proof (Z.div_mod U 2 ltac:(lia)). pose proof (Z.div_mod v 2 ltac:(lia)).
    apply (mod_eq _ _ (U / 2 - v / 2)); lia. }
  exists (d0', d1', d2', u0', u1', u2'). unfold HI, Uh. rewrite Eu, Ed.
  split; [|split; [reflexivity|split; [exact Hev|reflexivity]]].
  split; [repeat split; lia|]. split; [repeat split; lia|].
  split; [lia|]. split; [lia|]. split.
  { destruct Hcd as [k1 Hk1]. destruct Hcg as [k2 Hk2]. exists (k1 + k2).
    replace ((D + A) * x - -1 * (U - v)) with ((D * x - -1 * U) + (A * x - 1 * v)) by ring.
    rewrite Hk1, Hk2. ring. }
  split; [apply RP_sub; exact Hrp|].
  exists n. split; [apply (pot_le U); [lia|lia|exact Hp]|]. split; [exact HnA|]. right.
  split; [exact Hev|unfold M in *; lia].
Qed.

Lemma ul_step2 fuel x v a0 a1 a2 :
  0 < v < 2^128 -> v mod 2 = 1 -> L3 a0 a1 a2 -> (M | V3 a0 a1 a2 * x - 1 * v) ->
  forall s s', UI x v (V3 a0 a1 a2) s -> ul_cond v s = true -> ul_body fuel v a0 a1 a2 s = Some s' ->
  UI x v (V3 a0 a1 a2) s' /\ 2 * Uu s' < Uu s.
Proof.
  intros Hv Hvo La Hcg s s' Hs Hc.
  destruct (ul_prefix fuel x v a0 a1 a2 Hv Hvo La Hcg s Hs Hc) as (t & Ht & EU & Hev & ->).
  destruct (while_loop fuel hdu_cond hdu_body t) as [[[[[[e0 e1] e2] w0] w1] w2]|] eqn:W; [|discriminate].
  cbn [swap6]. intros [= <-].
  destruct (hdu_rel x v _ fuel _ _ ltac:(lia) Ht W) as ((Le & Lw & H) & Hodd & Hrel).
  specialize (Hrel Hev). unfold Uh in Hodd, Hrel at 1. unfold UI, Uu at 1.
  split; [|lia].
  split; [exact Lw|]. split; [exact Le|].
  destruct (HV_exit_odd _ _ _ _ _ _ H Hodd) as (n' & Hp' & HA' & HD').
  destruct H as (Hw & He & Hcg' & Hrp' & _).
  split; [exact Hw|]. split.
  { pose proof (Z.mod_pos_bound (V3 w0 w1 w2) 2 ltac:(lia)). lia. }
  split; [exact He|]. split; [exact Hcg'|]. split; [exact Hrp'|]. exists n'. auto.
Qed.

Lemma ul_total fuel x v a0 a1 a2 :
  0 < v < 2^128 -> v mod 2 = 1 -> L3 a0 a1 a2 -> (M | V3 a0 a1 a2 * x - 1 * v) -> (192 <= fuel)%nat ->
  forall s, UI x v (V3 a0 a1 a2) s -> ul_cond v s = true -> exists s', ul_body fuel v a0 a1 a2 s = Some s'.
Proof.
  intros Hv Hvo La Hcg Hf s Hs Hc.
  destruct (ul_prefix fuel x v a0 a1 a2 Hv Hvo La Hcg s Hs Hc) as (t & Ht & EU & Hev & ->).
  destruct (hdu_total x v _ fuel t ltac:(lia) Ht Hf) as [[[[[[e0 e1] e2] w0] w1] w2] ->].
  cbn [swap6]. eauto.
Qed.

Lemma UI_Uu x v A s : UI x v A s -> 0 < Uu s < 2^192.
Proof.
  destruct s as [[[[[u0 u1] u2] d0] d1] d2]. unfold UI, Uu. intros (Lu & _ & Hh & _).
  pose proof (V3_nonneg _ _ _ Lu). lia.
Qed.

Lemma uloop_total fuel x v a0 a1 a2 :
  0 < v < 2^128 -> v mod 2 = 1 -> L3 a0 a1 a2 -> (M | V3 a0 a1 a2 * x - 1 * v) -> (192 <= fuel)%nat ->
  forall s, UI x v (V3 a0 a1 a2) s ->
  exists s', while_loop_o fuel (ul_cond v) (ul_body fuel v a0 a1 a2) s = Some s'.
Proof.
  intros Hv Hvo La Hcg Hf s Hs.
  apply (while_loop_o_term (fun n t => UI x v (V3 a0 a1 a2) t /\ Uu t < 2 ^ Z.of_nat n)).
  - intros t [Ht Hlt]. pose proof (UI_Uu _ _ _ _ Ht). change (2 ^ Z.of_nat 0) with 1 in Hlt. lia.
  - intros n t [Ht Hlt] Hc.
    destruct (ul_total fuel x v a0 a1 a2 Hv Hvo La Hcg Hf t Ht Hc) as [t' Et].
    destruct (ul_step2 fuel x v a0 a1 a2 Hv Hvo La Hcg t t' Ht Hc Et) as [Ht' Hlt'].
    exists t'. split; [exact Et|]. split; [exact Ht'|].
    pose proof (UI_Uu _ _ _ _ Ht'). rewrite Nat2Z.inj_succ, Z.pow_succ_r in Hlt by lia. lia.
  - split; [exact Hs|]. pose proof (UI_Uu _ _ _ _ Hs). pose proof (pow2_fuel 192 fuel ltac:(lia)). lia.
Qed.

(* ------------------------------------------------------------------ the outer loop  while v != 1 *)
Definition OV (x U D v A : Z) : Prop :=
  0 < v < 2^128 /\ v mod 2 = 1 /\ (M | A * x - 1 * v) /\ UV x v A U D.

Definition OI (x : Z) (s : st10) : Prop :=
  let '(u0, u1, u2, d0, d1, d2, v, a0, a1, a2) := s in
  L3 u0 u1 u2 /\ L3 d0 d1 d2 /\ L3 a0 a1 a2 /\ OV x (V3 u0 u1 u2) (V3 d0 d1 d2) v (V3 a0 a1 a2).

Definition vo (s : st10) : Z := let '(u0, u1, u2, d0, d1, d2, v, a0, a1, a2) := s in v.

Definition join10 (w : Z * Z * Z * Z * Z * Z) (r : option (Z * Z * Z * Z)) : option st10 :=
  let '(u0, u1, u2, d0, d1, d2) := w in
  match r with
  | None => None
  | Some (a0, a1, a2, v) => Some (u0, u1, u2, d0, d1, d2, v, a0, a1, a2)
  end.

Definition ol_inner (fuel : nat) (s : st10) : option (Z * Z * Z * Z * Z * Z) :=
  let '(u0, u1, u2, d0, d1, d2, v, a0, a1, a2) := s in
  while_loop_o fuel (ul_cond v) (ul_body fuel v a0 a1 a2) (u0, u1, u2, d0, d1, d2).

(* after the inner loop: v - u and a + d are exact; the halving loop starts from an even v - u *)
Lemma ol_prefix fuel x s w : OI x s -> ol_inner fuel s = Some w ->
  exists t, AI x (Uu w) (let '(_, _, _, d0, d1, d2) := w in V3 d0 d1 d2) t /\
            0 < Uu w /\ vh t = vo s - Uu w /\ 0 <= vh t /\ vh t mod 2 = 0 /\
            (Z.gcd x M = 1 -> vo s <> 1 -> 0 < vh t) /\
            (forall t', AI x (Uu w) (let '(_, _, _, d0, d1, d2) := w in V3 d0 d1 d2) t' ->
                        0 < vh t' -> vh t' mod 2 <> 0 -> 2 * vh t' <= vh t ->
                        forall s', join10 w (Some t') = Some s' -> OI x s' /\ 2 * vo s' < vo s) /\
            ol_body fuel s = join10 w (while_loop fuel hav_cond hav_body t).
Proof.
  destruct s as [[[[[[[[[u0 u1] u2] d0] d1] d2] v] a0] a1] a2].
  destruct w as [[[[[w0 w1] w2] e0] e1] e2]. unfold OI, ol_inner, vo, Uu, ol_body.
  intros (Lu & Ld & La & Hv & Hvo & Hcg & HUV) W. rewrite W.
  assert (I0 : UI x v (V3 a0 a1 a2) (u0, u1, u2, d0, d1, d2)) by (unfold UI; auto).
  destruct (while_loop_o_inv (UI x v (V3 a0 a1 a2)) (ul_cond v) (ul_body fuel v a0 a1 a2)
              (fun s s' Hs Hc Hb => proj1 (ul_step2 fuel x v a0 a1 a2 Hv Hvo La Hcg s s' Hs Hc Hb))
              fuel _ _ I0 W) as ((Lw & Le & HUV') & Hc).
  clear I0 W HUV Lu Ld u0 u1 u2 d0 d1 d2.
  apply (proj2 (ul_cond_spec v w0 w1 w2 e0 e1 e2 Lw)) in Hc. destruct Hc as (Hw2 & Hle).
  destruct HUV' as (HU & HUo & HD & Hcd & Hrp & n & Hp & HnA & HnD).
  pose proof Lw as (W0 & W1 & W2). pose proof Le as (E0 & E1 & E2). pose proof La as (A0 & A1 & A2).
  rewrite low128 by assumption.
  assert (EU : V3 w0 w1 w2 = w0 + w1 * 2^64) by (unfold V3; subst w2; ring).
  rewrite <- EU. set (U := V3 w0 w1 w2) in *.
  rewrite (wrap_small 128 (v - U)) by lia.
  (* a + d *)
  pose proof (V3_nonneg _ _ _ La) as HA.
  pose proof (pot_bound _ v n HU ltac:(lia) Hp) as Hn. pose proof Hp as [Hn0 _].
  pose proof (add_192x192_exact a0 a1 a2 e0 e1 e2 A0 A1 A2 E0 E1 E2) as Ha.
  fold (V3 a0 a1 a2) (V3 e0 e1 e2) in Ha.
  set (A := V3 a0 a1 a2) in *. set (D := V3 e0 e1 e2) in *.
  specialize (Ha ltac:(unfold M in *; lia)).
  destruct (f128_add_192x192 a0 a1 a2 e0 e1 e2) as [[a0' a1'] a2'].
  destruct Ha as (A0' & A1' & A2' & Ea). fold (V3 a0' a1' a2') in Ea.
  assert (Hev : (v - U) mod 2 = 0).
  { pose proof (Z.div_mod U 2 ltac:(lia)). pose proof (Z.div_mod v 2 ltac:(lia)).
    apply (mod_eq _ _ (v / 2 - U / 2)); lia. }
  exists (a0', a1', a2', v - U). unfold vh.
  split; [|split; [exact HU|split; [reflexivity|split; [lia|split; [exact Hev|split; [|split; [|reflexivity]]]]]]].
  - unfold AI. split; [repeat split; lia|]. split; [lia|].
    destruct (Z.eq_dec (v - U) 0) as [E|E]; [left; exact E|right].
    rewrite Ea. split; [lia|]. split; [lia|]. split.
    { destruct Hcd as [k1 Hk1]. destruct Hcg as [k2 Hk2]. exists (k1 + k2).
      replace ((A + D) * x - 1 * (v - U)) with ((D * x - -1 * U) + (A * x - 1 * v)) by ring.
      rewrite Hk1, Hk2. ring. }
    split; [apply RP_sub, RP_sym; exact Hrp|].
    exists n. split; [apply (pot_le v); [lia|lia|apply pot_sym; exact Hp]|]. split; [exact HnD|]. right.
    split; [exact Hev|unfold M in *; lia].
  - (* u = v is impossible when gcd(x, M) = 1 and v <> 1 *)
    intros Hg Hv1. destruct (Z.eq_dec U v) as [E|E]; [|lia].
    exfalso. apply Hv1. rewrite <- E in *. exact (RP_diag x U Hg HU Hrp).
  - intros [[[b0 b1] b2] v']. unfold AI. intros (Lb & Hv' & H) Hpos Hodd Hhalf s'.
    cbn [join10]. intros [= <-].
    destruct H as [->|H]; [lia|].
    destruct (HV_exit_odd _ _ _ _ _ _ H Hodd) as (n' & Hp' & HD' & HA').
    destruct H as (Hv'0 & Hb & Hcg' & Hrp' & _).
    split; [|lia].
    split; [exact Lw|]. split; [exact Le|]. split; [exact Lb|].
    unfold OV. split; [lia|]. split.
    { pose proof (Z.mod_pos_bound v' 2 ltac:(lia)). lia. }
    split; [exact Hcg'|].
    unfold UV. split; [exact HU|]. split; [exact HUo|]. split; [exact HD|]. split; [exact Hcd|].
    split; [apply RP_sym; exact Hrp'|].
    exists n'. split; [apply pot_sym; exact Hp'|]. auto.
Qed.

Lemma ol_step2 fuel x : forall s s', OI x s -> ol_cond s = true -> ol_body fuel s = Some s' ->
  OI x s' /\ 2 * vo s' < vo s.
Proof.
  intros s s' Hs _.
  destruct (ol_inner fuel s) as [w|] eqn:W.
  - destruct (ol_prefix fuel x s w Hs W) as (t & Ht & HU & Ev & Hv0 & Hev & _ & Hfin & ->).
    destruct (while_loop fuel hav_cond hav_body t) as [t'|] eqn:W2;
      [|destruct w as [[[[[? ?] ?] ?] ?] ?]; discriminate].
    intros Hj.
    destruct (hav_rel x _ _ fuel t t' HU Ht W2) as (Ht' & Hodd & Hrel).
    pose proof (AI_vh _ _ _ _ Ht') as Hr.
    apply (Hfin t' Ht'); [|exact Hodd|exact (Hrel Hev)|exact Hj].
    destruct (Z.eq_dec (vh t') 0) as [E|E]; [|lia]. rewrite E in Hodd. exfalso. apply Hodd. reflexivity.
  - destruct s as [[[[[[[[[u0 u1] u2] d0] d1] d2] v] a0] a1] a2]. unfold ol_inner in W. unfold ol_body.
    rewrite W. discriminate.
Qed.

Lemma ol_step fuel x : forall s s', OI x s -> ol_cond s = true -> ol_body fuel s = Some s' -> OI x s'.
Proof. intros s s' Hs Hc Hb. exact (proj1 (ol_step2 fuel x s s' Hs Hc Hb)). Qed.

Lemma ol_total fuel x : Z.gcd x M = 1 -> (192 <= fuel)%nat ->
  forall s, OI x s -> ol_cond s = true -> exists s', ol_body fuel s = Some s'.
Proof.
  intros Hg Hf s Hs Hc.
  assert (Hv1 : vo s <> 1).
  { destruct s as [[[[[[[[[u0 u1] u2] d0] d1] d2] v] a0] a1] a2]. unfold ol_cond in Hc. unfold vo.
    apply negb_true_iff, Z.eqb_neq in Hc. exact Hc. }
  assert (Hin : exists w, ol_inner fuel s = Some w).
  { destruct s as [[[[[[[[[u0 u1] u2] d0] d1] d2] v] a0] a1] a2]. unfold ol_inner.
    destruct Hs as (Lu & Ld & La & Hv & Hvo & Hcg & HUV).
    apply (uloop_total fuel x v a0 a1 a2 Hv Hvo La Hcg Hf). unfold UI. auto. }
  destruct Hin as [w W].
  destruct (ol_prefix fuel x s w Hs W) as (t & Ht & HU & Ev & Hv0 & Hev & Hpos & _ & ->).
  destruct (hav_total x _ _ fuel t HU Ht (Hpos Hg Hv1) ltac:(lia)) as [[[[b0 b1] b2] v'] ->].
  destruct w as [[[[[w0 w1] w2] e0] e1] e2]. cbn [join10]. eauto.
Qed.

Lemma OI_vo x s : OI x s -> 0 < vo s < 2^128.
Proof.
  destruct s as [[[[[[[[[u0 u1] u2] d0] d1] d2] v] a0] a1] a2]. unfold OI, vo.
  intros (_ & _ & _ & H & _). exact H.
Qed.

Lemma oloop_total fuel x : Z.gcd x M = 1 -> (192 <= fuel)%nat ->
  forall s, OI x s -> exists s', while_loop_o fuel ol_cond (ol_body fuel) s = Some s'.
Proof.
  intros Hg Hf s Hs.
  apply (while_loop_o_term (fun n t => OI x t /\ vo t < 2 ^ Z.of_nat n)).
  - intros t [Ht Hlt]. pose proof (OI_vo _ _ Ht). change (2 ^ Z.of_nat 0) with 1 in Hlt. lia.
  - intros n t [Ht Hlt] Hc.
    destruct (ol_total fuel x Hg Hf t Ht Hc) as [t' Et].
    destruct (ol_step2 fuel x t t' Ht Hc Et) as [Ht' Hlt'].
    exists t'. split; [exact Et|]. split; [exact Ht'|].
    pose proof (OI_vo _ _ Ht'). rewrite Nat2Z.inj_succ, Z.pow_succ_r in Hlt by lia. lia.
  - split; [exact Hs|]. pose proof (OI_vo _ _ Hs). pose proof (pow2_fuel 128 fuel ltac:(lia)). lia.
Qed.

(* ------------------------------------------------------------------ final reduction  while a >= M *)
Definition Af (s : Z * Z * Z * Z) : Z := let '(a0, a1, a2, a) := s in V3 a0 a1 a2.

Definition FI (x : Z) (s : Z * Z * Z * Z) : Prop :=
  let '(a0, a1, a2, a) := s in
  L3 a0 a1 a2 /\ a = a0 + a1 * 2^64 /\ (M | V3 a0 a1 a2 * x - 1).

Lemma fin_step2 x : forall s, FI x s -> fin_cond s = true -> FI x (fin_body s) /\ Af (fin_body s) = Af s - M.
Proof.
  intros [[[a0 a1] a2] a]. unfold FI, Af, fin_cond, fin_body. cbv zeta.
  intros (La & Ea & Hcg) Hc. pose proof La as (A0 & A1 & A2).
  rewrite M_lo, M_hi. rewrite M_eq, Z.gtb_ltb, Z.geb_leb in Hc.
  assert (HM : M <= V3 a0 a1 a2).
  { unfold V3. destruct (Z.ltb_spec 0 a2); destruct (Z.leb_spec M a); cbn [orb] in Hc;
      try discriminate; unfold M in *; lia. }
  pose proof (sub_192x192_exact a0 a1 a2 (2^64 - C) (2^64 - 1) 0 A0 A1 A2
                ltac:(unfold C; lia) ltac:(lia) ltac:(lia)) as Hs.
  unfold V3 in HM. rewrite M_limbs in HM. specialize (Hs ltac:(lia)).
  destruct (f128_sub_192x192 a0 a1 a2 (2^64 - C) (2^64 - 1) 0) as [[b0 b1] b2].
  destruct Hs as (B0 & B1 & B2 & Eb).
  assert (E : V3 b0 b1 b2 = V3 a0 a1 a2 - M) by (unfold V3; rewrite M_limbs; lia).
  split; [|exact E].
  split; [repeat split; lia|]. split; [apply low128; lia|].
  destruct Hcg as [k Hk]. exists (k - x).
  rewrite E. replace ((V3 a0 a1 a2 - M) * x - 1) with (V3 a0 a1 a2 * x - 1 - x * M) by ring.
  rewrite Hk. ring.
Qed.

Lemma fin_step x : forall s, FI x s -> fin_cond s = true -> FI x (fin_body s).
Proof. intros s H Hc. exact (proj1 (fin_step2 x s H Hc)). Qed.

Lemma fin_total x fuel s : FI x s -> Af s < (Z.of_nat fuel + 1) * M ->
  exists s', while_loop fuel fin_cond fin_body s = Some s'.
Proof.
  intros H0 Hb.
  apply (while_loop_term (fun n t => FI x t /\ Af t < (Z.of_nat n + 1) * M) fin_cond fin_body).
  - intros [[[a0 a1] a2] a]. unfold FI, Af, fin_cond. intros ((La & Ea & _) & Hlt).
    pose proof La as (A0 & A1 & A2). unfold V3 in Hlt. rewrite M_eq, Z.gtb_ltb, Z.geb_leb.
    change (Z.of_nat 0 + 1) with 1 in Hlt.
    destruct (Z.ltb_spec 0 a2); destruct (Z.leb_spec M a); cbn [orb]; try reflexivity; unfold M in *; lia.
  - intros n t [Ht Hlt] Hc. destruct (fin_step2 x t Ht Hc) as [Ht' E].
    split; [exact Ht'|]. rewrite Nat2Z.inj_succ in Hlt. unfold M in *. lia.
  - split; assumption.
Qed.

(* ------------------------------------------------------------------ initial state *)
Lemma inv_init_spec x : 0 < x < M ->
  let '(u0, u1, u2) := inv_init_u x in
  OI x (u0, u1, u2, wrap 64 (Z.sub (wrap 64 f128_M) 1), wrap 64 (shr f128_M 64), 0, f128_M, 0, 0, 0).
Proof.
  intros Hx. unfold inv_init_u. rewrite land1.
  destruct (limbs128 x ltac:(unfold M in *; lia)) as (Lx & Ex).
  pose proof Lx as (X0 & X1 & X2).
  assert (Ld : L3 (wrap 64 (wrap 64 f128_M - 1)) (wrap 64 (shr f128_M 64)) 0)
    by (unfold L3; vm_compute; repeat split; (discriminate || reflexivity)).
  assert (Ed : V3 (wrap 64 (wrap 64 f128_M - 1)) (wrap 64 (shr f128_M 64)) 0 = M - 1) by (vm_compute; reflexivity).
  assert (La : L3 0 0 0) by (repeat split; lia).
  assert (Hfin : forall u0 u1 u2, L3 u0 u1 u2 -> V3 u0 u1 u2 mod 2 = 1 ->
            (V3 u0 u1 u2 = x \/ V3 u0 u1 u2 = x + M) ->
            OI x (u0, u1, u2, wrap 64 (wrap 64 f128_M - 1), wrap 64 (shr f128_M 64), 0, f128_M, 0, 0, 0)).
  { intros u0 u1 u2 Lu Hodd HU. unfold OI. split; [exact Lu|]. split; [exact Ld|]. split; [exact La|].
    rewrite Ed, M_eq. change (V3 0 0 0) with 0. set (U := V3 u0 u1 u2) in *.
    unfold OV. split; [unfold M; lia|]. split; [reflexivity|]. split.
    { exists (-1). ring. }
    unfold UV. split; [lia|]. split; [exact Hodd|]. split; [unfold M; lia|]. split.
    { destruct HU as [->| ->]; [exists x|exists (x + 1)]; ring. }
    split.
    { intros g HgU HgM. apply Z.gcd_greatest; [|exact HgM].
      destruct HU as [E|E]; rewrite E in HgU; [exact HgU|].
      replace x with ((x + M) - M) by ring. apply Z.divide_sub_r; assumption. }
    exists 0. split; [|unfold M; lia].
    split; [lia|]. rewrite Z.pow_0_r, Z.mul_1_r. unfold M in *. lia. }
  destruct (Z.eqb_spec (x mod 2) 1) as [E|E].
  - apply Hfin; [exact Lx| rewrite Ex; exact E | left; exact Ex].
  - rewrite M_lo, M_hi.
    pose proof (add_192x192_exact (wrap 64 x) (wrap 64 (shr x 64)) 0 (2^64 - C) (2^64 - 1) 0 X0 X1 X2
                  ltac:(unfold C; lia) ltac:(lia) ltac:(lia)) as Ha.
    fold (V3 (wrap 64 x) (wrap 64 (shr x 64)) 0) in Ha. rewrite Ex in Ha.
    specialize (Ha ltac:(unfold M, C in *; lia)).
    destruct (f128_add_192x192 (wrap 64 x) (wrap 64 (shr x 64)) 0 (2^64 - C) (2^64 - 1) 0) as [[u0 u1] u2].
    destruct Ha as (U0 & U1 & U2 & Eu). fold (V3 u0 u1 u2) in Eu.
    assert (EU : V3 u0 u1 u2 = x + M) by (rewrite Eu, M_limbs; lia).
    apply Hfin; [repeat split; lia| |right; exact EU].
    rewrite EU.
    pose proof (Z.div_mod x 2 ltac:(lia)). pose proof (Z.mod_pos_bound x 2 ltac:(lia)).
    set (h := (M - 1) / 2). assert (EM : M = 2 * h + 1) by reflexivity.
    apply (mod_eq _ _ (x / 2 + h)); lia.
Qed.

(* ------------------------------------------------------------------ partial correctness *)
Theorem f128_inv_sound_partial fuel x r : repr128 x -> f128_fn_inv fuel x = Some r ->
  repr128 r /\ (r * x) mod M = (if x =? 0 then 0 else 1).
Proof.
  unfold repr128. intros Hx. rewrite f128_fn_inv_unfold.
  destruct (Z.eqb_spec x 0) as [->|Hnz].
  { intros [= <-]. split; [unfold M; lia|reflexivity]. }
  pose proof (inv_init_spec x ltac:(lia)) as I0.
  destruct (inv_init_u x) as [[u0 u1] u2].
  destruct (while_loop_o fuel ol_cond (ol_body fuel) _)
    as [[[[[[[[[[w0 w1] w2] e0] e1] e2] v] a0] a1] a2]|] eqn:W; [|discriminate].
  destruct (while_loop_o_inv (OI x) ol_cond (ol_body fuel) (ol_step fuel x) fuel _ _ I0 W)
    as ((Lw & Le & La & Hv & Hvo & Hcg & _) & Hc).
  unfold ol_cond in Hc. apply negb_false_iff, Z.eqb_eq in Hc. subst v.
  pose proof La as (A0 & A1 & A2).
  assert (F0 : FI x (a0, a1, a2, wrap 128 (a0 + shl 128 a1 64))).
  { unfold FI. split; [exact La|]. split; [apply low128; lia|exact Hcg]. }
  destruct (while_loop fuel fin_cond fin_body _) as [[[[b0 b1] b2] b]|] eqn:W2; [|discriminate].
  intros [= <-].
  destruct (while_loop_inv (FI x) fin_cond fin_body (fin_step x) fuel _ _ F0 W2)
    as ((Lb & Eb & Hcg') & Hc').
  unfold fin_cond in Hc'. rewrite M_eq, Z.gtb_ltb, Z.geb_leb in Hc'.
  pose proof Lb as (B0 & B1 & B2).
  destruct (Z.ltb_spec 0 b2); [discriminate|]. destruct (Z.leb_spec M b); [discriminate|].
  assert (b2 = 0) by lia. subst b2.
  assert (EV : V3 b0 b1 0 = b) by (unfold V3; lia). rewrite EV in Hcg'.
  split; [lia|]. destruct Hcg' as [k Hk].
  apply (mod_eq _ _ k); [unfold M; lia|lia].
Qed.

(* ------------------------------------------------------------------ termination
   every loop halves u or v; u = v (which would make v = 0 and the loop spin) can only happen at
   u = v = 1 when gcd(x, M) = 1, which holds for every 0 < x < M because M is prime
   (primality is proved separately and is a hypothesis here). *)
Theorem f128_inv_terminates fuel x : repr128 x -> (x <> 0 -> Z.gcd x M = 1) -> (192 <= fuel)%nat ->
  exists r, f128_fn_inv fuel x = Some r.
Proof.
  unfold repr128. intros Hx Hg Hf. rewrite f128_fn_inv_unfold.
  destruct (Z.eqb_spec x 0) as [->|Hnz]; [eauto|].
  specialize (Hg Hnz).
  pose proof (inv_init_spec x ltac:(lia)) as I0.
  destruct (inv_init_u x) as [[u0 u1] u2].
  destruct (oloop_total fuel x Hg Hf _ I0) as [s' W].
  rewrite W.
  destruct (while_loop_o_inv (OI x) ol_cond (ol_body fuel) (ol_step fuel x) fuel _ _ I0 W) as (Hs' & Hc).
  destruct s' as [[[[[[[[[w0 w1] w2] e0] e1] e2] v] a0] a1] a2].
  destruct Hs' as (Lw & Le & La & Hv & Hvo & Hcg & HU & _ & _ & _ & _ & n & Hp & HnA & _).
  unfold ol_cond in Hc. apply negb_false_iff, Z.eqb_eq in Hc. subst v.
  pose proof La as (A0 & A1 & A2).
  assert (F0 : FI x (a0, a1, a2, wrap 128 (a0 + shl 128 a1 64))).
  { unfold FI. split; [exact La|]. split; [apply low128; lia|exact Hcg]. }
  pose proof (pot_bound _ 1 n HU ltac:(lia) Hp) as Hn. pose proof Hp as [Hn0 _].
  destruct (fin_total x fuel _ F0) as [[[[b0 b1] b2] b] ->]; [|eauto].
  unfold Af. unfold M in *. lia.
Qed.

Theorem f128_inv_total fuel x : repr128 x -> (x <> 0 -> Z.gcd x M = 1) -> (192 <= fuel)%nat ->
  exists r, f128_fn_inv fuel x = Some r /\ repr128 r /\ (r * x) mod M = (if x =? 0 then 0 else 1).
Proof.
  intros Hx Hg Hf. destruct (f128_inv_terminates fuel x Hx Hg Hf) as [r E].
  exists r. split; [exact E|]. exact (f128_inv_sound_partial fuel x r Hx E).
Qed.

Theorem f128_inv_sound_partial' fuel x r : repr128 x -> f128_inv fuel x = Some r ->
  repr128 r /\ (r * x) mod M = (if x =? 0 then 0 else 1).
Proof.
  intros Hx. unfold f128_inv.
  destruct (f128_fn_inv fuel x) as [i|] eqn:E; [|discriminate].
  intros [= <-]. exact (f128_inv_sound_partial fuel x i Hx E).
Qed.

Theorem f128_inv_zero fuel : f128_inv fuel 0 = Some 0.
Proof. reflexivity. Qed.

(* division = multiplication by the inverse; x / 0 = 0 *)
Theorem f128_div_sound_partial fuel a b r : repr128 a -> repr128 b -> f128_div fuel a b = Some r ->
  repr128 r /\ (b <> 0 -> (r * b) mod M = a) /\ (b = 0 -> r = 0).
Proof.
  intros Ha Hb. unfold f128_div.
  destruct (f128_fn_inv fuel b) as [i|] eqn:E; [|discriminate].
  intros [= <-]. destruct (f128_inv_sound_partial fuel b i Hb E) as (Hi & Hib).
  rewrite (proj1 (f128_fn_mul_both a i Ha Hi)).
  split; [apply repr128_mod|]. split.
  - intros Hnz. destruct (Z.eqb_spec b 0) as [|_]; [contradiction|].
    rewrite Z.mul_mod_idemp_l by (unfold M; lia).
    replace (a * i * b) with (a * (i * b)) by ring.
    rewrite <- Z.mul_mod_idemp_r, Hib, Z.mul_1_r by (unfold M; lia).
    apply Z.mod_small. exact Ha.
  - intros ->. rewrite f128_fn_inv_unfold, Z.eqb_refl in E. injection E as <-.
    rewrite Z.mul_0_r. reflexivity.
Qed.

Theorem f128_div_total fuel a b : repr128 a -> repr128 b -> (b <> 0 -> Z.gcd b M = 1) -> (192 <= fuel)%nat ->
  exists r, f128_div fuel a b = Some r /\ repr128 r /\ (b <> 0 -> (r * b) mod M = a) /\ (b = 0 -> r = 0).
Proof.
  intros Ha Hb Hg Hf. destruct (f128_inv_terminates fuel b Hb Hg Hf) as [i E].
  assert (Ed : f128_div fuel a b = Some (f128_fn_mul a i)) by (unfold f128_div; rewrite E; reflexivity).
  exists (f128_fn_mul a i). split; [exact Ed|]. exact (f128_div_sound_partial fuel a b _ Ha Hb Ed).
Qed.

(* the hypotheses are satisfiable, and the generated term really runs *)
Example f128_inv_example :
  repr128 2 /\ Z.gcd 2 M = 1 /\ f128_fn_inv 192 2 = Some ((M + 1) / 2).
Proof. split; [split; (discriminate || reflexivity)|]. split; vm_compute; reflexivity. Qed.

(* with primality of M (proved in another file; a hypothesis here) the gcd condition disappears *)
Lemma gcd_of_prime x : prime M -> 0 < x < M -> Z.gcd x M = 1.
Proof.
  intros Hp Hx. apply Zgcd_1_rel_prime. apply rel_prime_le_prime; [exact Hp|lia].
Qed.

Theorem f128_inv_total_prime : prime M -> forall fuel x, repr128 x -> (192 <= fuel)%nat ->
  exists r, f128_fn_inv fuel x = Some r /\ repr128 r /\ (r * x) mod M = (if x =? 0 then 0 else 1).
Proof.
  intros Hp fuel x Hx Hf. apply f128_inv_total; [exact Hx| |exact Hf].
  intros Hnz. apply gcd_of_prime; [exact Hp|unfold repr128 in Hx; lia].
Qed.

Theorem f128_div_total_prime : prime M -> forall fuel a b, repr128 a -> repr128 b -> (192 <= fuel)%nat ->
  exists r, f128_div fuel a b = Some r /\ repr128 r /\ (b <> 0 -> (r * b) mod M = a) /\ (b = 0 -> r = 0).
Proof.
  intros Hp fuel a b Ha Hb Hf. apply f128_div_total; [exact Ha|exact Hb| |exact Hf].
  intros Hnz. apply gcd_of_prime; [exact Hp|unfold repr128 in Hb; lia].
Qed.
