(* f128 inversion: binary extended GCD on 192-bit limb triples (fn inv of math/src/field/f128/mod.rs,
   generated term f128_fn_inv in Gen/F128.v).  Partial correctness by loop invariants:
       a * x == v   and   d * x == -u   (mod M),
   together with a bound that keeps a and d far below 2^192, so that add_192x192 never wraps:
   with n = number of halvings so far,  u * v * 2^n <= 2^257  and  2a, 2d <= (n + 2) * M. *)
From Coq Require Import Znumtheory.
From VBase Require Import MachInt.
From VGen Require Import F128.
From VProofs Require Import F128Limbs F128Ops.
Open Scope Z_scope.

(* ------------------------------------------------------------------ the loops, named *)
Definition cadd_M (z0 z1 z2 : Z) : Z * Z * Z :=
  if Z.eqb (Z.land z0 1) 1
  then (let '(t0, t1, t2) := f128_add_192x192 z0 z1 z2 (wrap 64 f128_M) (wrap 64 (shr f128_M 64)) 0 in (t0, t1, t2))
  else (z0, z1, z2).

Definition shr192 (z0 z1 z2 : Z) : Z * Z * Z :=
  (Z.lor (shr z0 1) (shl 64 (Z.land z1 1) 63), Z.lor (shr z1 1) (shl 64 (Z.land z2 1) 63), shr z2 1).

Definition hdu_cond : Z * Z * Z * Z * Z * Z -> bool :=
  fun '(d0, d1, d2, u0, u1, u2) => Z.eqb (Z.land u0 1) 0.
Definition hdu_body : Z * Z * Z * Z * Z * Z -> Z * Z * Z * Z * Z * Z :=
  fun '(d0, d1, d2, u0, u1, u2) =>
    let '(d0, d1, d2) := cadd_M d0 d1 d2 in
    let '(u0, u1, u2) := shr192 u0 u1 u2 in
    let '(d0, d1, d2) := shr192 d0 d1 d2 in
    (d0, d1, d2, u0, u1, u2).

Definition hav_cond : Z * Z * Z * Z -> bool := fun '(a0, a1, a2, v) => Z.eqb (Z.land v 1) 0.
Definition hav_body : Z * Z * Z * Z -> Z * Z * Z * Z :=
  fun '(a0, a1, a2, v) =>
    let '(a0, a1, a2) := cadd_M a0 a1 a2 in
    let v := shr v 1 in
    let '(a0, a1, a2) := shr192 a0 a1 a2 in
    (a0, a1, a2, v).

Definition ul_cond (v : Z) : Z * Z * Z * Z * Z * Z -> bool :=
  fun '(u0, u1, u2, d0, d1, d2) => orb (Z.gtb u2 0) (Z.gtb (wrap 128 (Z.add u0 (shl 128 u1 64))) v).
Definition ul_body (fuel : nat) (v a0 a1 a2 : Z) : Z * Z * Z * Z * Z * Z -> option (Z * Z * Z * Z * Z * Z) :=
  fun '(u0, u1, u2, d0, d1, d2) =>
    let '(u0, u1, u2) := f128_sub_192x192 u0 u1 u2 (wrap 64 v) (wrap 64 (shr v 64)) 0 in
    let '(d0, d1, d2) := f128_add_192x192 d0 d1 d2 a0 a1 a2 in
    match while_loop fuel hdu_cond hdu_body (d0, d1, d2, u0, u1, u2) with
    | None => None
    | Some (d0, d1, d2, u0, u1, u2) => Some (u0, u1, u2, d0, d1, d2)
    end.

Definition st10 : Type := Z * Z * Z * Z * Z * Z * Z * Z * Z * Z.
Definition ol_cond : st10 -> bool :=
  fun '(u0, u1, u2, d0, d1, d2, v, a0, a1, a2) => negb (Z.eqb v 1).
Definition ol_body (fuel : nat) : st10 -> option st10 :=
  fun '(u0, u1, u2, d0, d1, d2, v, a0, a1, a2) =>
    match while_loop_o fuel (ul_cond v) (ul_body fuel v a0 a1 a2) (u0, u1, u2, d0, d1, d2) with
    | None => None
    | Some (u0, u1, u2, d0, d1, d2) =>
      let v := wrap 128 (Z.sub v (wrap 128 (Z.add u0 (shl 128 u1 64)))) in
      let '(a0, a1, a2) := f128_add_192x192 a0 a1 a2 d0 d1 d2 in
      match while_loop fuel hav_cond hav_body (a0, a1, a2, v) with
      | None => None
      | Some (a0, a1, a2, v) => Some (u0, u1, u2, d0, d1, d2, v, a0, a1, a2)
      end
    end.

Definition fin_cond : Z * Z * Z * Z -> bool :=
  fun '(a0, a1, a2, a) => orb (Z.gtb a2 0) (Z.geb a f128_M).
Definition fin_body : Z * Z * Z * Z -> Z * Z * Z * Z :=
  fun '(a0, a1, a2, a) =>
    let '(a0, a1, a2) := f128_sub_192x192 a0 a1 a2 (wrap 64 f128_M) (wrap 64 (shr f128_M 64)) 0 in
    let a := wrap 128 (Z.add a0 (shl 128 a1 64)) in
    (a0, a1, a2, a).

Definition inv_init_u (x : Z) : Z * Z * Z :=
  if Z.eqb (Z.land x 1) 1
  then (wrap 64 x, wrap 64 (shr x 64), 0)
  else f128_add_192x192 (wrap 64 x) (wrap 64 (shr x 64)) 0 (wrap 64 f128_M) (wrap 64 (shr f128_M 64)) 0.

Lemma f128_fn_inv_unfold fuel x :
  f128_fn_inv fuel x =
  if Z.eqb x 0 then Some 0 else
  let '(u0, u1, u2) := inv_init_u x in
  match while_loop_o fuel ol_cond (ol_body fuel)
          (u0, u1, u2, wrap 64 (Z.sub (wrap 64 f128_M) 1), wrap 64 (shr f128_M 64), 0, f128_M, 0, 0, 0) with
  | None => None
  | Some (u0, u1, u2, d0, d1, d2, v, a0, a1, a2) =>
    match while_loop fuel fin_cond fin_body (a0, a1, a2, wrap 128 (Z.add a0 (shl 128 a1 64))) with
    | None => None
    | Some (a0, a1, a2, a) => Some a
    end
  end.
Proof. reflexivity. Qed.

(* ------------------------------------------------------------------ value level *)
Definition V3 (z0 z1 z2 : Z) : Z := z0 + z1 * 2^64 + z2 * 2^128.
Definition L3 (z0 z1 z2 : Z) : Prop := 0 <= z0 < 2^64 /\ 0 <= z1 < 2^64 /\ 0 <= z2 < 2^64.

Lemma M_div2 k : (M | 2 * k) -> (M | k).
Proof.
  intros H. apply (Z.gauss M 2 k); [exact H|].
  vm_compute. reflexivity.
Qed.

(* halving a congruence  K*x == w  (mod M):  K may first be made even by adding M *)
Lemma cg_halve x K w K' w' e : 2 * K' = K + e * M -> 2 * w' = w ->
  (M | K * x - w) -> (M | K' * x - w').
Proof.
  intros EK Ew [k Hk]. apply M_div2. exists (k + e * x).
  assert (E : 2 * (K' * x - w') = (2 * K') * x - 2 * w') by ring.
  rewrite E, EK, Ew. replace ((K + e * M) * x - w) with (K * x - w + e * x * M) by ring.
  rewrite Hk. ring.
Qed.

Definition pot (h o n : Z) : Prop := 0 <= n /\ h * o * 2^n <= 2^257.

Lemma pot_bound h o n : 0 < h -> 0 < o -> pot h o n -> n <= 257.
Proof.
  intros Hh Ho [Hn Hp].
  assert (H2 : 0 < 2^n) by (apply Z.pow_pos_nonneg; lia).
  assert (H1 : 1 <= h * o) by nia.
  assert (H3 : 2^n <= h * o * 2^n) by nia.
  apply (Z.pow_le_mono_r_iff 2); lia.
Qed.

Lemma pot_sym h o n : pot h o n -> pot o h n.
Proof. unfold pot. now rewrite (Z.mul_comm o h). Qed.

Lemma pot_le h h' o n : 0 <= h' <= h -> 0 <= o -> pot h o n -> pot h' o n.
Proof.
  intros Hh Ho [Hn Hp]. split; [exact Hn|].
  assert (H2 : 0 < 2^n) by (apply Z.pow_pos_nonneg; lia).
  assert (h' * o <= h * o) by (apply Z.mul_le_mono_nonneg_r; lia).
  assert (h' * o * 2^n <= h * o * 2^n) by (apply Z.mul_le_mono_nonneg_r; lia).
  lia.
Qed.

Lemma pot_half h h' o n : h = 2 * h' -> pot h o n -> pot h' o (n + 1).
Proof.
  intros -> [Hn Hp]. split; [lia|].
  replace (h' * o * 2^(n + 1)) with (2 * h' * o * 2^n) by (rewrite Z.pow_add_r, Z.pow_1_r by lia; ring).
  exact Hp.
Qed.

(* invariant of a halving loop: h is the number being halved (u or v), K its cofactor (d or a),
   o the other number, Ko the other cofactor; sg = 1 for (v,a), -1 for (u,d) *)
Definition HV (x sg o Ko h K : Z) : Prop :=
  0 < h /\ 0 <= K /\ (M | K * x - sg * h) /\
  exists n, pot h o n /\ 2 * Ko <= (n + 2) * M /\
            (2 * K <= (n + 2) * M \/ (h mod 2 = 0 /\ K <= (n + 2) * M)).

Lemma HV_bound x sg o Ko h K : 0 < o -> HV x sg o Ko h K -> K <= 259 * M.
Proof.
  intros Ho (Hh & HK & _ & n & Hp & _ & Hor).
  pose proof (pot_bound h o n Hh Ho Hp) as Hn. destruct Hp as [Hn0 _].
  unfold M in *. lia.
Qed.

Lemma HV_step x sg o Ko h K h' K' e : 0 < o -> HV x sg o Ko h K ->
  h = 2 * h' -> 2 * K' = K + e * M -> 0 <= e <= 1 -> HV x sg o Ko h' K'.
Proof.
  intros Ho (Hh & HK & Hd & n & Hp & HKo & Hor) Eh EK He.
  split; [lia|]. split; [unfold M in *; lia|]. split.
  - apply (cg_halve x K (sg * h) K' (sg * h') e EK); [rewrite Eh; ring|exact Hd].
  - exists (n + 1). split; [apply (pot_half h h' o n Eh Hp)|].
    destruct Hp as [Hn0 _]. split; [unfold M in *; lia|]. left. unfold M in *. lia.
Qed.

(* ------------------------------------------------------------------ limb shifts and the conditional +M *)
Lemma lor_hi x b : 0 <= x < 2^63 -> 0 <= b <= 1 -> Z.lor x (shl 64 b 63) = x + b * 2^63.
Proof.
  intros Hx Hb. assert (b = 0 \/ b = 1) as [->| ->] by lia.
  - change (shl 64 0 63) with 0. rewrite Z.lor_0_r. ring.
  - change (shl 64 1 63) with (2^63). rewrite Z.mul_1_l.
    assert (E0 : Z.land x (2^63) = 0).
    { assert (E : x = Z.land x (Z.ones 63)) by (rewrite Z.land_ones by lia; symmetry; apply Z.mod_small; lia).
      rewrite E, <- Z.land_assoc. change (Z.land (Z.ones 63) (2^63)) with 0. apply Z.land_0_r. }
    rewrite <- (Z.lxor_lor _ _ E0). symmetry. apply Z.add_nocarry_lxor. exact E0.
Qed.

Lemma shr1 z : shr z 1 = z / 2. Proof. reflexivity. Qed.

Lemma shr192_spec z0 z1 z2 : L3 z0 z1 z2 ->
  let '(r0, r1, r2) := shr192 z0 z1 z2 in
  L3 r0 r1 r2 /\ V3 z0 z1 z2 = 2 * V3 r0 r1 r2 + z0 mod 2.
Proof.
  intros (H0 & H1 & H2). unfold shr192. rewrite !land1, !shr1.
  pose proof (Z.div_mod z0 2 ltac:(lia)). pose proof (Z.mod_pos_bound z0 2 ltac:(lia)).
  pose proof (Z.div_mod z1 2 ltac:(lia)). pose proof (Z.mod_pos_bound z1 2 ltac:(lia)).
  pose proof (Z.div_mod z2 2 ltac:(lia)). pose proof (Z.mod_pos_bound z2 2 ltac:(lia)).
  rewrite !lor_hi by lia.
  unfold L3, V3. lia.
Qed.

(* conditional +M followed by the shift: the result is (z + e*M)/2 exactly *)
Lemma halveM_spec z0 z1 z2 : L3 z0 z1 z2 -> V3 z0 z1 z2 + M < 2^192 ->
  let '(t0, t1, t2) := cadd_M z0 z1 z2 in
  let '(r0, r1, r2) := shr192 t0 t1 t2 in
  L3 r0 r1 r2 /\ exists e, 0 <= e <= 1 /\ 2 * V3 r0 r1 r2 = V3 z0 z1 z2 + e * M.
Proof.
  intros L Hb. pose proof L as (H0 & H1 & H2). unfold cadd_M. rewrite land1.
  pose proof (Z.div_mod z0 2 ltac:(lia)) as Hdm. pose proof (Z.mod_pos_bound z0 2 ltac:(lia)) as Hm.
  destruct (Z.eqb_spec (z0 mod 2) 1) as [E|E].
  - rewrite M_lo, M_hi.
    pose proof (add_192x192_exact z0 z1 z2 (2^64 - C) (2^64 - 1) 0 H0 H1 H2
                  ltac:(unfold C; lia) ltac:(lia) ltac:(lia)) as Ha.
    unfold V3 in Hb. rewrite M_limbs in Hb.
    specialize (Ha ltac:(lia)).
    destruct (f128_add_192x192 z0 z1 z2 (2^64 - C) (2^64 - 1) 0) as [[t0 t1] t2].
    destruct Ha as (T0 & T1 & T2 & Et).
    pose proof (shr192_spec t0 t1 t2 (conj T0 (conj T1 T2))) as Hs.
    destruct (shr192 t0 t1 t2) as [[r0 r1] r2]. destruct Hs as (Lr & Er).
    split; [exact Lr|]. exists 1. split; [lia|].
    pose proof (Z.div_mod t0 2 ltac:(lia)). pose proof (Z.mod_pos_bound t0 2 ltac:(lia)).
    unfold V3 in *. rewrite M_limbs. unfold C in *. lia.
  - pose proof (shr192_spec z0 z1 z2 L) as Hs.
    destruct (shr192 z0 z1 z2) as [[r0 r1] r2]. destruct Hs as (Lr & Er).
    split; [exact Lr|]. exists 0. split; [lia|]. lia.
Qed.

Lemma cadd_M_limbs z0 z1 z2 : L3 z0 z1 z2 ->
  let '(t0, t1, t2) := cadd_M z0 z1 z2 in L3 t0 t1 t2.
Proof.
  intros L. pose proof L as (H0 & H1 & H2). unfold cadd_M.
  destruct (Z.land z0 1 =? 1); [|exact L].
  rewrite M_lo, M_hi.
  pose proof (add_192x192_spec z0 z1 z2 (2^64 - C) (2^64 - 1) 0 H0 H1 H2
                ltac:(unfold C; lia) ltac:(lia) ltac:(lia)) as Ha.
  destruct (f128_add_192x192 z0 z1 z2 (2^64 - C) (2^64 - 1) 0) as [[t0 t1] t2].
  destruct Ha as (T0 & T1 & T2 & _). repeat split; lia.
Qed.

Lemma V3_parity z0 z1 z2 : V3 z0 z1 z2 mod 2 = z0 mod 2.
Proof.
  unfold V3. replace (z0 + z1 * 2^64 + z2 * 2^128) with (z0 + (z1 * 2^63 + z2 * 2^127) * 2) by ring.
  apply Z.mod_add. lia.
Qed.

Lemma V3_nonneg z0 z1 z2 : L3 z0 z1 z2 -> 0 <= V3 z0 z1 z2 < 2^192.
Proof. unfold L3, V3. lia. Qed.

Lemma low128 z0 z1 : 0 <= z0 < 2^64 -> 0 <= z1 < 2^64 -> wrap 128 (z0 + shl 128 z1 64) = z0 + z1 * 2^64.
Proof. intros H0 H1. rewrite shl_limb by exact H1. apply wrap_small. lia. Qed.

Lemma limbs128 v : 0 <= v < 2^128 ->
  L3 (wrap 64 v) (wrap 64 (shr v 64)) 0 /\ V3 (wrap 64 v) (wrap 64 (shr v 64)) 0 = v.
Proof.
  intros Hv. destruct (split64 v) as (H1 & H2 & H3); [lia|].
  rewrite (wrap_small 64 (shr v 64)) by lia. unfold L3, V3. lia.
Qed.

(* ------------------------------------------------------------------ halving loop for (u, d) *)
Definition HI (x v A : Z) (s : Z * Z * Z * Z * Z * Z) : Prop :=
  let '(d0, d1, d2, u0, u1, u2) := s in
  L3 d0 d1 d2 /\ L3 u0 u1 u2 /\ HV x (-1) v A (V3 u0 u1 u2) (V3 d0 d1 d2).

Lemma hdu_step x v A : 0 < v -> forall s, HI x v A s -> hdu_cond s = true -> HI x v A (hdu_body s).
Proof.
  intros Hv [[[[[d0 d1] d2] u0] u1] u2]. unfold HI, hdu_cond, hdu_body.
  intros (Ld & Lu & H) Hc.
  pose proof (HV_bound _ _ _ _ _ _ Hv H) as Hb.
  pose proof (halveM_spec d0 d1 d2 Ld ltac:(unfold M in *; lia)) as Hd.
  destruct (cadd_M d0 d1 d2) as [[t0 t1] t2].
  pose proof (shr192_spec u0 u1 u2 Lu) as Hu.
  destruct (shr192 u0 u1 u2) as [[u0' u1'] u2']. destruct Hu as (Lu' & Eu).
  destruct (shr192 t0 t1 t2) as [[d0' d1'] d2']. destruct Hd as (Ld' & e & He & Ed).
  split; [exact Ld'|]. split; [exact Lu'|].
  rewrite land1 in Hc. apply Z.eqb_eq in Hc. rewrite Hc, Z.add_0_r in Eu.
  exact (HV_step x (-1) v A _ _ _ _ e Hv H Eu Ed He).
Qed.

(* ------------------------------------------------------------------ halving loop for (v, a) *)
Definition AI (x U D : Z) (s : Z * Z * Z * Z) : Prop :=
  let '(a0, a1, a2, v) := s in
  L3 a0 a1 a2 /\ 0 <= v < 2^128 /\ (v = 0 \/ HV x 1 U D v (V3 a0 a1 a2)).

Lemma hav_step x U D : 0 < U -> forall s, AI x U D s -> hav_cond s = true -> AI x U D (hav_body s).
Proof.
  intros HU [[[a0 a1] a2] v]. unfold AI, hav_cond, hav_body. cbv zeta.
  intros (La & Hv & H) Hc. rewrite shr1.
  assert (Hv2 : 0 <= v / 2 < 2^128).
  { split; [apply Z.div_pos; lia|apply Z.div_lt_upper_bound; lia]. }
  destruct H as [->|H].
  - pose proof (cadd_M_limbs a0 a1 a2 La) as Hl.
    destruct (cadd_M a0 a1 a2) as [[t0 t1] t2].
    pose proof (shr192_spec t0 t1 t2 Hl) as Hs.
    destruct (shr192 t0 t1 t2) as [[r0 r1] r2]. destruct Hs as (Lr & _).
    split; [exact Lr|]. split; [exact Hv2|]. left. reflexivity.
  - pose proof (HV_bound _ _ _ _ _ _ HU H) as Hb.
    pose proof (halveM_spec a0 a1 a2 La ltac:(unfold M in *; lia)) as Ha.
    destruct (cadd_M a0 a1 a2) as [[t0 t1] t2].
    destruct (shr192 t0 t1 t2) as [[r0 r1] r2]. destruct Ha as (Lr & e & He & Ea).
    split; [exact Lr|]. split; [exact Hv2|]. right.
    rewrite land1 in Hc. apply Z.eqb_eq in Hc.
    assert (Ev : v = 2 * (v / 2)) by (pose proof (Z.div_mod v 2 ltac:(lia)); lia).
    exact (HV_step x 1 U D _ _ _ _ e HU H Ev Ea He).
Qed.

(* ------------------------------------------------------------------ the inner loop  while u > v *)
Definition UV (x v A U D : Z) : Prop :=
  0 < U /\ U mod 2 = 1 /\ 0 <= D /\ (M | D * x - (-1) * U) /\
  exists n, pot U v n /\ 2 * A <= (n + 2) * M /\ 2 * D <= (n + 2) * M.

Definition UI (x v A : Z) (s : Z * Z * Z * Z * Z * Z) : Prop :=
  let '(u0, u1, u2, d0, d1, d2) := s in
  L3 u0 u1 u2 /\ L3 d0 d1 d2 /\ UV x v A (V3 u0 u1 u2) (V3 d0 d1 d2).

Lemma ul_cond_spec v u0 u1 u2 d0 d1 d2 : L3 u0 u1 u2 ->
  (ul_cond v (u0, u1, u2, d0, d1, d2) = true -> v < V3 u0 u1 u2 \/ 2^128 <= V3 u0 u1 u2) /\
  (ul_cond v (u0, u1, u2, d0, d1, d2) = false -> u2 = 0 /\ V3 u0 u1 u2 <= v).
Proof.
  intros (H0 & H1 & H2). unfold ul_cond. rewrite low128 by assumption. rewrite !Z.gtb_ltb.
  unfold V3. destruct (Z.ltb_spec 0 u2); destruct (Z.ltb_spec v (u0 + u1 * 2^64)); cbn [orb];
    split; intros; try discriminate; lia.
Qed.

Lemma HV_exit_odd x sg o Ko h K : HV x sg o Ko h K -> h mod 2 <> 0 ->
  exists n, pot h o n /\ 2 * Ko <= (n + 2) * M /\ 2 * K <= (n + 2) * M.
Proof.
  intros (_ & _ & _ & n & Hp & HKo & Hor) Hodd. exists n. split; [exact Hp|]. split; [exact HKo|].
  destruct Hor as [Ht|[He _]]; [exact Ht|contradiction].
Qed.

Lemma ul_step fuel x v a0 a1 a2 :
  0 < v < 2^128 -> v mod 2 = 1 -> L3 a0 a1 a2 -> (M | V3 a0 a1 a2 * x - 1 * v) ->
  forall s s', UI x v (V3 a0 a1 a2) s -> ul_cond v s = true -> ul_body fuel v a0 a1 a2 s = Some s' ->
  UI x v (V3 a0 a1 a2) s'.
Proof.
  intros Hv Hvo La Hcg [[[[[u0 u1] u2] d0] d1] d2] s'. unfold UI at 1, ul_body.
  intros (Lu & Ld & HU & HUo & HD & Hcd & n & Hp & HnA & HnD) Hc.
  pose proof (V3_nonneg _ _ _ La) as HA. set (A := V3 a0 a1 a2) in *.
  apply (proj1 (ul_cond_spec v u0 u1 u2 d0 d1 d2 Lu)) in Hc.
  destruct (limbs128 v ltac:(lia)) as (Lv & Ev).
  pose proof Lu as (U0 & U1 & U2). pose proof Ld as (D0 & D1 & D2). pose proof La as (A0 & A1 & A2).
  pose proof Lv as (V0 & V1 & V2).
  (* u - v *)
  pose proof (sub_192x192_exact u0 u1 u2 (wrap 64 v) (wrap 64 (shr v 64)) 0 U0 U1 U2 V0 V1 V2) as Hs.
  fold (V3 (wrap 64 v) (wrap 64 (shr v 64)) 0) (V3 u0 u1 u2) in Hs. rewrite Ev in Hs.
  specialize (Hs ltac:(lia)).
  destruct (f128_sub_192x192 u0 u1 u2 (wrap 64 v) (wrap 64 (shr v 64)) 0) as [[u0' u1'] u2'].
  destruct Hs as (U0' & U1' & U2' & Eu). fold (V3 u0' u1' u2') in Eu.
  (* d + a *)
  pose proof (pot_bound _ v n HU ltac:(lia) Hp) as Hn. pose proof Hp as [Hn0 _].
  pose proof (add_192x192_exact d0 d1 d2 a0 a1 a2 D0 D1 D2 A0 A1 A2) as Ha.
  fold (V3 d0 d1 d2) (V3 a0 a1 a2) in Ha. fold A in Ha.
  specialize (Ha ltac:(unfold M in *; lia)).
  destruct (f128_add_192x192 d0 d1 d2 a0 a1 a2) as [[d0' d1'] d2'].
  destruct Ha as (D0' & D1' & D2' & Ed). fold (V3 d0' d1' d2') in Ed.
  set (U := V3 u0 u1 u2) in *. set (D := V3 d0 d1 d2) in *.
  (* the halving loop *)
  assert (I0 : HI x v A (d0', d1', d2', u0', u1', u2')).
  { unfold HI. split; [repeat split; lia|]. split; [repeat split; lia|].
    rewrite Eu, Ed. split; [lia|]. split; [lia|]. split.
    - destruct Hcd as [k1 Hk1]. destruct Hcg as [k2 Hk2]. exists (k1 + k2).
      replace ((D + A) * x - -1 * (U - v)) with ((D * x - -1 * U) + (A * x - 1 * v)) by ring.
      rewrite Hk1, Hk2. ring.
    - exists n. split; [apply (pot_le U); [lia|lia|exact Hp]|]. split; [exact HnA|]. right.
      split; [|unfold M in *; lia].
      pose proof (Z.div_mod U 2 ltac:(lia)). pose proof (Z.div_mod v 2 ltac:(lia)).
      apply (mod_eq _ _ (U / 2 - v / 2)); lia. }
  destruct (while_loop fuel hdu_cond hdu_body (d0', d1', d2', u0', u1', u2'))
    as [[[[[[e0 e1] e2] w0] w1] w2]|] eqn:W; [|discriminate].
  intros [= <-].
  destruct (while_loop_inv (HI x v A) hdu_cond hdu_body (hdu_step x v A ltac:(lia)) fuel _ _ I0 W)
    as ((Le & Lw & H) & Hc').
  unfold hdu_cond in Hc'. rewrite land1 in Hc'. apply Z.eqb_neq in Hc'.
  unfold UI. split; [exact Lw|]. split; [exact Le|].
  assert (Hodd : V3 w0 w1 w2 mod 2 <> 0) by (rewrite V3_parity; exact Hc').
  destruct (HV_exit_odd _ _ _ _ _ _ H Hodd) as (n' & Hp' & HA' & HD').
  destruct H as (Hw & He & Hcg' & _).
  split; [exact Hw|]. split.
  { pose proof (Z.mod_pos_bound (V3 w0 w1 w2) 2 ltac:(lia)). lia. }
  split; [exact He|]. split; [exact Hcg'|]. exists n'. auto.
Qed.

(* ------------------------------------------------------------------ the outer loop  while v != 1 *)
Definition OV (x U D v A : Z) : Prop :=
  0 < v < 2^128 /\ v mod 2 = 1 /\ (M | A * x - 1 * v) /\ UV x v A U D.

Definition OI (x : Z) (s : st10) : Prop :=
  let '(u0, u1, u2, d0, d1, d2, v, a0, a1, a2) := s in
  L3 u0 u1 u2 /\ L3 d0 d1 d2 /\ L3 a0 a1 a2 /\ OV x (V3 u0 u1 u2) (V3 d0 d1 d2) v (V3 a0 a1 a2).

Lemma ol_step fuel x : forall s s', OI x s -> ol_cond s = true -> ol_body fuel s = Some s' -> OI x s'.
Proof.
  intros [[[[[[[[[u0 u1] u2] d0] d1] d2] v] a0] a1] a2] s'. unfold OI at 1, ol_body.
  intros (Lu & Ld & La & Hv & Hvo & Hcg & HUV) _.
  destruct (while_loop_o fuel (ul_cond v) (ul_body fuel v a0 a1 a2) (u0, u1, u2, d0, d1, d2))
    as [[[[[[w0 w1] w2] e0] e1] e2]|] eqn:W; [|discriminate].
  assert (I0 : UI x v (V3 a0 a1 a2) (u0, u1, u2, d0, d1, d2)) by (unfold UI; auto).
  destruct (while_loop_o_inv (UI x v (V3 a0 a1 a2)) (ul_cond v) (ul_body fuel v a0 a1 a2)
              (ul_step fuel x v a0 a1 a2 Hv Hvo La Hcg) fuel _ _ I0 W) as ((Lw & Le & HUV') & Hc).
  clear I0 W HUV Lu Ld u0 u1 u2 d0 d1 d2.
  apply (proj2 (ul_cond_spec v w0 w1 w2 e0 e1 e2 Lw)) in Hc. destruct Hc as (Hw2 & Hle).
  destruct HUV' as (HU & HUo & HD & Hcd & n & Hp & HnA & HnD).
  pose proof Lw as (W0 & W1 & W2). pose proof Le as (E0 & E1 & E2). pose proof La as (A0 & A1 & A2).
  rewrite low128 by assumption.
  assert (EU : V3 w0 w1 w2 = w0 + w1 * 2^64) by (unfold V3; subst w2; ring).
  rewrite <- EU. set (U := V3 w0 w1 w2) in *.
  rewrite (wrap_small 128 (v - U)) by lia.
  (* a + d *)
  pose proof (V3_nonneg _ _ _ La) as HA.
  pose proof (pot_bound _ v n HU ltac:(lia) Hp) as Hn. pose proof Hp as [Hn0 _].
  pose proof (add_192x192_exact a0 a1 a2 e0 e1 e2 A0 A1 A2 E0 E1 E2) as Ha.
  fold (V3 a0 a1 a2) (V3 e0 e1 e2) in Ha.
  set (A := V3 a0 a1 a2) in *. set (D := V3 e0 e1 e2) in *.
  specialize (Ha ltac:(unfold M in *; lia)).
  destruct (f128_add_192x192 a0 a1 a2 e0 e1 e2) as [[a0' a1'] a2'].
  destruct Ha as (A0' & A1' & A2' & Ea). fold (V3 a0' a1' a2') in Ea.
  assert (I0 : AI x U D (a0', a1', a2', v - U)).
  { unfold AI. split; [repeat split; lia|]. split; [lia|].
    destruct (Z.eq_dec (v - U) 0) as [E|E]; [left; exact E|right].
    rewrite Ea. split; [lia|]. split; [lia|]. split.
    - destruct Hcd as [k1 Hk1]. destruct Hcg as [k2 Hk2]. exists (k1 + k2).
      replace ((A + D) * x - 1 * (v - U)) with ((D * x - -1 * U) + (A * x - 1 * v)) by ring.
      rewrite Hk1, Hk2. ring.
    - exists n. split; [apply (pot_le v); [lia|lia|apply pot_sym; exact Hp]|]. split; [exact HnD|]. right.
      split; [|unfold M in *; lia].
      pose proof (Z.div_mod U 2 ltac:(lia)). pose proof (Z.div_mod v 2 ltac:(lia)).
      apply (mod_eq _ _ (v / 2 - U / 2)); lia. }
  destruct (while_loop fuel hav_cond hav_body (a0', a1', a2', v - U))
    as [[[[b0 b1] b2] v']|] eqn:W; [|discriminate].
  intros [= <-].
  destruct (while_loop_inv (AI x U D) hav_cond hav_body (hav_step x U D HU) fuel _ _ I0 W)
    as ((Lb & Hv' & H) & Hc').
  unfold hav_cond in Hc'. rewrite land1 in Hc'. apply Z.eqb_neq in Hc'.
  destruct H as [->|H]; [exfalso; apply Hc'; reflexivity|].
  destruct (HV_exit_odd _ _ _ _ _ _ H Hc') as (n' & Hp' & HD' & HA').
  destruct H as (Hv'0 & Hb & Hcg' & _).
  unfold OI. split; [exact Lw|]. split; [exact Le|]. split; [exact Lb|].
  unfold OV. split; [lia|]. split.
  { pose proof (Z.mod_pos_bound v' 2 ltac:(lia)). lia. }
  split; [exact Hcg'|].
  unfold UV. split; [exact HU|]. split; [exact HUo|]. split; [exact HD|]. split; [exact Hcd|].
  exists n'. split; [apply pot_sym; exact Hp'|]. auto.
Qed.

(* ------------------------------------------------------------------ final reduction  while a >= M *)
Definition FI (x : Z) (s : Z * Z * Z * Z) : Prop :=
  let '(a0, a1, a2, a) := s in
  L3 a0 a1 a2 /\ a = a0 + a1 * 2^64 /\ (M | V3 a0 a1 a2 * x - 1).

Lemma fin_step x : forall s, FI x s -> fin_cond s = true -> FI x (fin_body s).
Proof.
  intros [[[a0 a1] a2] a]. unfold FI, fin_cond, fin_body. cbv zeta.
  intros (La & Ea & Hcg) Hc. pose proof La as (A0 & A1 & A2).
  rewrite M_lo, M_hi. rewrite M_eq, Z.gtb_ltb, Z.geb_leb in Hc.
  assert (HM : M <= V3 a0 a1 a2).
  { unfold V3. destruct (Z.ltb_spec 0 a2); destruct (Z.leb_spec M a); cbn [orb] in Hc;
      try discriminate; unfold M in *; lia. }
  pose proof (sub_192x192_exact a0 a1 a2 (2^64 - C) (2^64 - 1) 0 A0 A1 A2
                ltac:(unfold C; lia) ltac:(lia) ltac:(lia)) as Hs.
  unfold V3 in HM. rewrite M_limbs in HM. specialize (Hs ltac:(lia)).
  destruct (f128_sub_192x192 a0 a1 a2 (2^64 - C) (2^64 - 1) 0) as [[b0 b1] b2].
  destruct Hs as (B0 & B1 & B2 & Eb).
  split; [repeat split; lia|]. split; [apply low128; lia|].
  destruct Hcg as [k Hk]. exists (k - x).
  assert (E : V3 b0 b1 b2 = V3 a0 a1 a2 - M) by (unfold V3; rewrite M_limbs; lia).
  rewrite E. replace ((V3 a0 a1 a2 - M) * x - 1) with (V3 a0 a1 a2 * x - 1 - x * M) by ring.
  rewrite Hk. ring.
Qed.

(* ------------------------------------------------------------------ initial state *)
Lemma inv_init_spec x : 0 < x < M ->
  let '(u0, u1, u2) := inv_init_u x in
  OI x (u0, u1, u2, wrap 64 (Z.sub (wrap 64 f128_M) 1), wrap 64 (shr f128_M 64), 0, f128_M, 0, 0, 0).
Proof.
  intros Hx. unfold inv_init_u. rewrite land1.
  destruct (limbs128 x ltac:(unfold M in *; lia)) as (Lx & Ex).
  pose proof Lx as (X0 & X1 & X2).
  assert (Ld : L3 (wrap 64 (wrap 64 f128_M - 1)) (wrap 64 (shr f128_M 64)) 0)
    by (repeat split; (discriminate || reflexivity)).
  assert (Ed : V3 (wrap 64 (wrap 64 f128_M - 1)) (wrap 64 (shr f128_M 64)) 0 = M - 1) by reflexivity.
  assert (La : L3 0 0 0) by (repeat split; lia).
  assert (Hfin : forall u0 u1 u2, L3 u0 u1 u2 -> V3 u0 u1 u2 mod 2 = 1 ->
            (V3 u0 u1 u2 = x \/ V3 u0 u1 u2 = x + M) ->
            OI x (u0, u1, u2, wrap 64 (wrap 64 f128_M - 1), wrap 64 (shr f128_M 64), 0, f128_M, 0, 0, 0)).
  { intros u0 u1 u2 Lu Hodd HU. unfold OI. split; [exact Lu|]. split; [exact Ld|]. split; [exact La|].
    rewrite Ed, M_eq. change (V3 0 0 0) with 0. set (U := V3 u0 u1 u2) in *.
    unfold OV. split; [unfold M; lia|]. split; [reflexivity|]. split.
    { exists (-1). ring. }
    unfold UV. split; [lia|]. split; [exact Hodd|]. split; [unfold M; lia|]. split.
    { destruct HU as [->| ->]; [exists x|exists (x + 1)]; ring. }
    exists 0. split; [|unfold M; lia].
    split; [lia|]. rewrite Z.pow_0_r, Z.mul_1_r. unfold M in *. lia. }
  destruct (Z.eqb_spec (x mod 2) 1) as [E|E].
  - apply Hfin; [exact Lx| rewrite Ex; exact E | left; exact Ex].
  - rewrite M_lo, M_hi.
    pose proof (add_192x192_exact (wrap 64 x) (wrap 64 (shr x 64)) 0 (2^64 - C) (2^64 - 1) 0 X0 X1 X2
                  ltac:(unfold C; lia) ltac:(lia) ltac:(lia)) as Ha.
    fold (V3 (wrap 64 x) (wrap 64 (shr x 64)) 0) in Ha. rewrite Ex in Ha.
    specialize (Ha ltac:(unfold M, C in *; lia)).
    destruct (f128_add_192x192 (wrap 64 x) (wrap 64 (shr x 64)) 0 (2^64 - C) (2^64 - 1) 0) as [[u0 u1] u2].
    destruct Ha as (U0 & U1 & U2 & Eu). fold (V3 u0 u1 u2) in Eu.
    assert (EU : V3 u0 u1 u2 = x + M) by (rewrite Eu, M_limbs; lia).
    apply Hfin; [repeat split; lia| |right; exact EU].
    rewrite EU.
    pose proof (Z.div_mod x 2 ltac:(lia)). pose proof (Z.mod_pos_bound x 2 ltac:(lia)).
    set (h := (M - 1) / 2). assert (EM : M = 2 * h + 1) by reflexivity.
    apply (mod_eq _ _ (x / 2 + h)); lia.
Qed.

(* ------------------------------------------------------------------ partial correctness *)
Theorem f128_inv_sound_partial fuel x r : repr128 x -> f128_fn_inv fuel x = Some r ->
  repr128 r /\ (r * x) mod M = (if x =? 0 then 0 else 1).
Proof.
  unfold repr128. intros Hx. rewrite f128_fn_inv_unfold.
  destruct (Z.eqb_spec x 0) as [->|Hnz].
  { intros [= <-]. split; [unfold M; lia|reflexivity]. }
  pose proof (inv_init_spec x ltac:(lia)) as I0.
  destruct (inv_init_u x) as [[u0 u1] u2].
  destruct (while_loop_o fuel ol_cond (ol_body fuel) _)
    as [[[[[[[[[[w0 w1] w2] e0] e1] e2] v] a0] a1] a2]|] eqn:W; [|discriminate].
  destruct (while_loop_o_inv (OI x) ol_cond (ol_body fuel) (ol_step fuel x) fuel _ _ I0 W)
    as ((Lw & Le & La & Hv & Hvo & Hcg & _) & Hc).
  unfold ol_cond in Hc. apply negb_false_iff, Z.eqb_eq in Hc. subst v.
  pose proof La as (A0 & A1 & A2).
  assert (F0 : FI x (a0, a1, a2, wrap 128 (a0 + shl 128 a1 64))).
  { unfold FI. split; [exact La|]. split; [apply low128; lia|exact Hcg]. }
  destruct (while_loop fuel fin_cond fin_body _) as [[[[b0 b1] b2] b]|] eqn:W2; [|discriminate].
  intros [= <-].
  destruct (while_loop_inv (FI x) fin_cond fin_body (fin_step x) fuel _ _ F0 W2)
    as ((Lb & Eb & Hcg') & Hc').
  unfold fin_cond in Hc'. rewrite M_eq, Z.gtb_ltb, Z.geb_leb in Hc'.
  pose proof Lb as (B0 & B1 & B2).
  destruct (Z.ltb_spec 0 b2); [discriminate|]. destruct (Z.leb_spec M b); [discriminate|].
  assert (b2 = 0) by lia. subst b2.
  assert (EV : V3 b0 b1 0 = b) by (unfold V3; lia). rewrite EV in Hcg'.
  split; [lia|]. destruct Hcg' as [k Hk].
  apply (mod_eq _ _ k); [unfold M; lia|lia].
Qed.
