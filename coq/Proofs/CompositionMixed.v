(* C17 — round 7 (A): transport along the embedding of the base field into an extension field.
   `Emb`: emb : B -> E is an injective ring homomorphism between two fields with FLaws and mul_base x b = x * emb b
   (C08_quad_embed_hom / C08_cube_embed_hom / C08_*_mul_base_spec for the concrete extensions).
   Every mixed operation of coq/Model/CompositionMixed.v equals the single-field operation over OE on the embedded
   base-field inputs; everything the prover computes in B and then embeds (domain points, FFT-style evaluations,
   Horner values, inverses) commutes with emb.  Corollary: the single-field theorems, instantiated at F := E, speak about
   the mixed computation (boundary_repr_equiv_ext).  stdlib style. *)
From Coq Require Import List Arith Bool Lia Ring Field ZArith.
From VBase Require Import FieldOps.
From VModel Require Import Composition CompositionMixed.
From VProofs Require Import CompositionBase CompositionIndex.
Import ListNotations.

Record Emb {B E : Type} (OB : FOps B) (OE : FOps E) (emb : B -> E) (mul_base : E -> B -> E) : Prop := mkEmb {
  emb_zero : emb (fzero OB) = fzero OE;
  emb_one : emb (fone OB) = fone OE;
  emb_add : forall x y, emb (fadd OB x y) = fadd OE (emb x) (emb y);
  emb_sub : forall x y, emb (fsub OB x y) = fsub OE (emb x) (emb y);
  emb_mul : forall x y, emb (fmul OB x y) = fmul OE (emb x) (emb y);
  emb_inj : forall x y, emb x = emb y -> x = y;
  emb_mul_base : forall x b, mul_base x b = fmul OE x (emb b)
}.

Section Transport.
Context {B E : Type} (OB : FOps B) (OE : FOps E) (LB : FLaws OB) (LE : FLaws OE).
Variable emb : B -> E.
Variable mul_base : E -> B -> E.
Hypothesis H : Emb OB OE emb mul_base.
Add Ring RB : (FLaws_ring_theory OB LB).
Add Ring RE : (FLaws_ring_theory OE LE).
Add Field FE : (FLaws_field_theory OE LE).

Lemma emb_nonzero b : b <> fzero OB -> emb b <> fzero OE.
Proof. intros Hb E0. apply Hb. apply (emb_inj _ _ _ _ H). now rewrite (emb_zero _ _ _ _ H). Qed.

(* inversion (with inv 0 = 0 on both sides) commutes with the embedding *)
Lemma emb_inv b : emb (finv OB b) = finv OE (emb b).
Proof.
  destruct (feqb OB b (fzero OB)) eqn:Eb.
  - apply (fl_eqb_spec OB LB) in Eb. subst b. rewrite (fl_inv_0 OB LB), (emb_zero _ _ _ _ H), (fl_inv_0 OE LE). reflexivity.
  - assert (Hb : b <> fzero OB) by (intros E0; apply (fl_eqb_spec OB LB) in E0; congruence).
    pose proof (emb_nonzero b Hb) as Hnz.
    assert (E1 : fmul OE (emb (finv OB b)) (emb b) = fone OE)
      by (rewrite <- (emb_mul _ _ _ _ H), (fl_inv_l OB LB b Hb); apply (emb_one _ _ _ _ H)).
    transitivity (fmul OE (fmul OE (emb (finv OB b)) (emb b)) (finv OE (emb b))); [field; exact Hnz | rewrite E1; ring].
Qed.

Lemma emb_div x y : emb (fdiv OB x y) = fdiv OE (emb x) (emb y).
Proof. now rewrite (fl_div_def OB LB), (fl_div_def OE LE), (emb_mul _ _ _ _ H), emb_inv. Qed.

Lemma emb_cpow x k : emb (cpow OB x k) = cpow OE (emb x) k.
Proof. induction k; simpl; [apply (emb_one _ _ _ _ H) | now rewrite (emb_mul _ _ _ _ H), IHk]. Qed.

Lemma emb_peval p x : emb (peval OB p x) = peval OE (map emb p) (emb x).
Proof.
  induction p; simpl; [apply (emb_zero _ _ _ _ H)|].
  now rewrite (emb_add _ _ _ _ H), (emb_mul _ _ _ _ H), IHp.
Qed.

Lemma emb_horner p x : emb (horner OB p x) = horner OE (map emb p) (emb x).
Proof. now rewrite (horner_peval OB LB), (horner_peval OE LE), emb_peval. Qed.

(* polynom::eval::<B, E> is the E-polynomial with embedded coefficients (cf. C20_eval_mixed_spec) *)
Lemma horner_mixed_spec p x : horner_mixed OE emb p x = horner OE (map emb p) x.
Proof.
  unfold horner_mixed, horner. rewrite <- map_rev. generalize (fzero OE). induction (rev p); intros a0; simpl; [reflexivity | apply IHl].
Qed.

(* the ce-domain points, FFT-style evaluations and their use after embedding *)
Lemma emb_power_series_from b : forall k cur,
  map emb (power_series_from OB cur b k) = power_series_from OE (emb cur) (emb b) k.
Proof. induction k; intros cur; simpl; [reflexivity|]. now rewrite IHk, (emb_mul _ _ _ _ H). Qed.

Lemma emb_eval_poly_with_offset (rouB : nat -> B) p off blowup :
  map emb (eval_poly_with_offset OB rouB p off blowup)
  = eval_poly_with_offset OE (fun m => emb (rouB m)) (map emb p) (emb off) blowup.
Proof.
  unfold eval_poly_with_offset, power_series. rewrite map_length, map_map.
  rewrite <- (emb_one _ _ _ _ H), <- emb_power_series_from, map_map.
  apply map_ext. intros w. now rewrite emb_peval, (emb_mul _ _ _ _ H).
Qed.

Lemma emb_ce_x n ceb offset (rouB : nat -> B) step :
  emb (ce_x OB n ceb offset rouB step) = ce_x OE n ceb (emb offset) (fun m => emb (rouB m)) step.
Proof. unfold ce_x, wce. now rewrite (emb_mul _ _ _ _ H), emb_cpow. Qed.

(* ---------------------------------------------------------------- the mixed operations *)
Theorem lincomb_mixed_embeds evals coefs :
  lincomb_mixed OE mul_base evals coefs = lincomb OE (map emb evals) coefs.
Proof.
  unfold lincomb_mixed, lincomb. generalize (fzero OE). revert coefs.
  induction evals as [|e t IH]; intros [|c cs] a0; simpl; try reflexivity.
  rewrite (emb_mul_base _ _ _ _ H). apply IH.
Qed.

Theorem single_eval_mixed_embeds col value cc state :
  single_eval_mixed OB mul_base col value cc state = single_eval OE (mkSC col (emb value) cc) (map emb state).
Proof.
  unfold single_eval_mixed, single_eval. cbn [sc_col sc_value sc_cc]. rewrite nth_error_map.
  destruct (nth_error state col); cbn [option_map]; [|reflexivity].
  now rewrite (emb_mul_base _ _ _ _ H), (emb_sub _ _ _ _ H).
Qed.

Theorem small_eval_mixed_embeds col poly xoff cc state x :
  small_eval_mixed OB mul_base col poly xoff cc state x
  = small_eval OE (mkPC col (map emb poly) (emb xoff) cc) (map emb state) (emb x).
Proof.
  unfold small_eval_mixed, small_eval. cbn [pc_col pc_poly pc_xoff pc_cc]. rewrite nth_error_map.
  destruct (nth_error state col); cbn [option_map]; [|reflexivity].
  now rewrite (emb_mul_base _ _ _ _ H), (emb_sub _ _ _ _ H), emb_horner, (emb_mul _ _ _ _ H).
Qed.

Theorem large_eval_mixed_embeds col values so cc state step :
  large_eval_mixed OB mul_base col values so cc state step
  = large_eval OE (mkLC col (map emb values) so cc) (map emb state) step.
Proof.
  unfold large_eval_mixed, large_eval, large_value_index. cbn [lc_col lc_values lc_step_offset lc_cc].
  rewrite !nth_error_map, map_length.
  destruct (nth_error state col); cbn [option_map]; [|reflexivity].
  destruct (nth_error values _); cbn [option_map]; [|reflexivity].
  now rewrite (emb_mul_base _ _ _ _ H), (emb_sub _ _ _ _ H).
Qed.

Theorem acc_column_mixed_embeds acc value z e :
  acc_boundary_mixed OE mul_base acc value z = fadd OE acc (fmul OE value (emb z))
  /\ acc_transition_mixed OB OE mul_base acc value z e = fadd OE acc (fmul OE value (fmul OE (emb z) (emb e))).
Proof.
  unfold acc_boundary_mixed, acc_transition_mixed.
  now rewrite !(emb_mul_base _ _ _ _ H), (emb_mul _ _ _ _ H).
Qed.

Theorem bc_evaluate_at_mixed_embeds col first poly xoff cc x tv :
  bc_evaluate_at_mixed OB OE emb poly xoff x tv = bc_evaluate_at OE (mkBC col (map emb poly) first (emb xoff) cc) x tv.
Proof.
  unfold bc_evaluate_at_mixed, bc_evaluate_at, bc_value_at. cbn [bc_poly bc_xoff]. rewrite map_length.
  destruct (length poly =? 1) eqn:El.
  - f_equal. apply Nat.eqb_eq in El. destruct poly as [|v [|]]; simpl in El; try lia. reflexivity.
  - now rewrite horner_mixed_spec.
Qed.

Theorem periodic_at_mixed_embeds n ppolys x :
  periodic_at_mixed OE emb n ppolys x = periodic_at OE n (map (map emb) ppolys) x.
Proof.
  unfold periodic_at_mixed, periodic_at. rewrite map_map. apply map_ext. intros p.
  now rewrite horner_mixed_spec, map_length.
Qed.

(* all mixed operations at once *)
Theorem mixed_ops_are_embedded :
  (forall b, emb (finv OB b) = finv OE (emb b))
  /\ (forall p x, emb (peval OB p x) = peval OE (map emb p) (emb x))
  /\ (forall p x, horner_mixed OE emb p x = horner OE (map emb p) x)
  /\ (forall (rouB : nat -> B) p off blowup,
        map emb (eval_poly_with_offset OB rouB p off blowup)
        = eval_poly_with_offset OE (fun m => emb (rouB m)) (map emb p) (emb off) blowup)
  /\ (forall n ceb offset (rouB : nat -> B) step,
        emb (ce_x OB n ceb offset rouB step) = ce_x OE n ceb (emb offset) (fun m => emb (rouB m)) step)
  /\ (forall evals coefs, lincomb_mixed OE mul_base evals coefs = lincomb OE (map emb evals) coefs)
  /\ (forall col value cc state,
        single_eval_mixed OB mul_base col value cc state = single_eval OE (mkSC col (emb value) cc) (map emb state))
  /\ (forall col poly xoff cc state x,
        small_eval_mixed OB mul_base col poly xoff cc state x
        = small_eval OE (mkPC col (map emb poly) (emb xoff) cc) (map emb state) (emb x))
  /\ (forall col values so cc state step,
        large_eval_mixed OB mul_base col values so cc state step
        = large_eval OE (mkLC col (map emb values) so cc) (map emb state) step)
  /\ (forall acc value z e,
        acc_boundary_mixed OE mul_base acc value z = fadd OE acc (fmul OE value (emb z))
        /\ acc_transition_mixed OB OE mul_base acc value z e = fadd OE acc (fmul OE value (fmul OE (emb z) (emb e))))
  /\ (forall col first poly xoff cc x tv,
        bc_evaluate_at_mixed OB OE emb poly xoff x tv = bc_evaluate_at OE (mkBC col (map emb poly) first (emb xoff) cc) x tv)
  /\ (forall n ppolys x, periodic_at_mixed OE emb n ppolys x = periodic_at OE n (map (map emb) ppolys) x).
Proof.
  repeat split; intros.
  - apply emb_inv.
  - apply emb_peval.
  - apply horner_mixed_spec.
  - apply emb_eval_poly_with_offset.
  - apply emb_ce_x.
  - apply lincomb_mixed_embeds.
  - apply single_eval_mixed_embeds.
  - apply small_eval_mixed_embeds.
  - apply large_eval_mixed_embeds.
  - destruct (acc_column_mixed_embeds acc value z e); assumption.
  - destruct (acc_column_mixed_embeds acc value z e); assumption.
  - apply bc_evaluate_at_mixed_embeds.
  - apply periodic_at_mixed_embeds.
Qed.

(* ---------------------------------------------------------------- a single-field theorem transported: the three mixed
   representations of a MAIN boundary constraint (state, x, polynomial in B; coefficient in E) all equal
   cc * BoundaryConstraint::evaluate_at over E on the embedded data, at every ce step *)
Section BoundaryExt.
Variable n ceb : nat.
Variable offset : B.
Variable rouB : nat -> B.
Hypothesis n_pos : n <> 0.
Hypothesis ceb_pos : ceb <> 0.
Hypothesis wce_order : cpow OB (rouB (n * ceb)) (n * ceb) = fone OB.
Hypothesis gtrace_compat : cpow OB (rouB (n * ceb)) ceb = rouB n.
Variable ginv : B.
Hypothesis ginv_spec : fmul OB ginv (rouB n) = fone OB.
Variables (col first : nat) (poly : list B) (cc : E) (state : list B) (s : B).
Hypothesis state_col : nth_error state col = Some s.
Hypothesis poly_nonempty : length poly <> 0.
Hypothesis first_lt : first < n.
Hypothesis len_div : length poly * (n * ceb / length poly) = n * ceb.

Theorem boundary_repr_equiv_ext : forall step, step < n * ceb ->
  let xB := ce_x OB n ceb offset rouB step in
  let spec := Some (fmul OE cc (bc_evaluate_at_mixed OB OE emb poly (cpow OB ginv first) (emb xB) (emb s))) in
  small_eval_mixed OB mul_base col poly (cpow OB ginv first) cc state xB = spec
  /\ large_eval_mixed OB mul_base col (eval_poly_with_offset OB rouB poly offset (n * ceb / length poly)) (first * ceb) cc state step = spec
  /\ (length poly = 1 -> single_eval_mixed OB mul_base col (nth 0 poly (fzero OB)) cc state = spec).
Proof.
  intros step Hstep xB spec. unfold spec, xB.
  rewrite small_eval_mixed_embeds, large_eval_mixed_embeds, single_eval_mixed_embeds.
  rewrite (bc_evaluate_at_mixed_embeds col first _ _ cc), emb_ce_x, emb_eval_poly_with_offset, emb_cpow.
  set (cE := mkBC col (map emb poly) first (cpow OE (emb ginv) first) cc).
  pose proof (boundary_repr_equiv OE LE n ceb (emb offset) (fun m => emb (rouB m)) n_pos ceb_pos) as T.
  specialize (T ltac:(unfold wce, ce_size; rewrite <- emb_cpow, wce_order; apply (emb_one _ _ _ _ H))).
  specialize (T ltac:(unfold wce, ce_size, gtrace; rewrite <- emb_cpow, gtrace_compat; reflexivity)).
  specialize (T (emb ginv) ltac:(unfold gtrace; rewrite <- (emb_mul _ _ _ _ H), ginv_spec; apply (emb_one _ _ _ _ H))).
  specialize (T cE (map emb state) (emb s)).
  specialize (T ltac:(cbn [cE bc_col]; rewrite nth_error_map, state_col; reflexivity)).
  specialize (T ltac:(cbn [cE bc_poly]; now rewrite map_length) eq_refl first_lt).
  specialize (T ltac:(cbn [cE bc_poly]; rewrite map_length; exact len_div) step Hstep).
  destruct T as [T1 [T2 T3]]. unfold bc_spec in *. unfold small_new, large_new, single_new in *.
  cbn [cE bc_col bc_poly bc_first bc_xoff bc_cc] in *. rewrite map_length in *.
  split; [exact T1|]. split; [exact T2|].
  intros Hl. rewrite <- (T3 Hl). f_equal. f_equal.
  destruct poly as [|v0 [|]]; simpl in Hl; try lia. reflexivity.
Qed.
End BoundaryExt.
End Transport.
