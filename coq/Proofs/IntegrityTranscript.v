(* C03 <-> C04: the coin events of the component-level model (Model/Integrity.v) are, event for event, the verifier
   transcript of C04's model (Model/Transcript.v), for EVERY shape.  Two hand-written models of the same code, written
   for different properties and tied to the code by different correspondences, agree on their common part.
   stdlib style. *)
From Coq Require Import List Arith Bool Lia.
From VModel Require Transcript.
From VModel Require Import Integrity.
Import ListNotations.

Module T := Transcript.

Definition sym_of (c : comp) : T.sym :=
  match c with
  | TraceRoot i => T.TraceCommitment i
  | ConstraintRoot => T.ConstraintCommitment
  | FriRoot i => T.FriLayerCommitment i
  | RemainderRoot => T.RemainderCommitment
  | _ => T.PowNonce   (* never fed as a raw digest *)
  end.

Definition chal_of (k : chal) : nat -> T.chal :=
  match k with
  | AuxRand => T.AuxRand
  | CompCoeff => T.CompositionCoeff
  | OodPoint => fun _ => T.OodPoint
  | DeepCoeff => T.DeepCoeff
  | FriAlpha i => fun _ => T.FriAlpha i
  | FriAlphaUnused => fun _ => T.FriAlphaUnused
  end.

(* the coin operations behind one event; deg = extension degree, nq = options.num_queries() *)
Definition coin_ops (deg nq : nat) (e : event) : list T.step :=
  match e with
  | Absorb (SeedOf _) => [(T.EvNew T.seed_syms, None)]
  | Absorb (Raw c) => [T.reseed (sym_of c)]
  | Absorb (HashOf (OodTrace :: _)) => [T.reseed T.HashOodTraceFrame]
  | Absorb (HashOf _) => [T.reseed T.HashOodConstraintEvals]
  | Draw k n => T.draws deg (chal_of k) n
  | CheckPow => [(T.EvCheckPow T.PowNonce, Some T.PowCheck)]
  | DrawPositions => [(T.EvDrawInts T.PowNonce nq, Some T.QueryPositions)]
  | _ => []
  end.

Definition shape_of (t : T.shape) (rows : list nat) (uniq : nat) : shape :=
  mkShape (T.multi_segment t) (T.sh_aux_rands t) (T.n_comp t) (T.n_deep t) (T.sh_fri_layers t) rows uniq (T.sh_grinding t).

Lemma ops_parse_trace_segments deg nq q i n : flat_map (coin_ops deg nq) (parse_trace_segments q i n) = [].
Proof. revert i. induction n as [| n IH]; intros i; cbn; [reflexivity | apply IH]. Qed.

Lemma ops_parse_fri_layers deg nq i rows : flat_map (coin_ops deg nq) (parse_fri_layers i rows) = [].
Proof. revert i. induction rows as [| r rest IH]; intros i; cbn; [reflexivity | apply IH]. Qed.

Lemma ops_fri_layers deg nq s i n : flat_map (coin_ops deg nq) (fri_layers s i n) = [].
Proof. revert i. induction n as [| n IH]; intros i; cbn; [reflexivity | apply IH]. Qed.

Lemma ops_channel_new deg nq v s : flat_map (coin_ops deg nq) (channel_new v s) = [].
Proof.
  unfold channel_new. rewrite !flat_map_app, ops_parse_trace_segments, ops_parse_fri_layers.
  destruct (v_gkr_check v), (v_layer_count_check v); reflexivity.
Qed.

Lemma ops_query_phase deg nq v s : flat_map (coin_ops deg nq) (query_phase v s) = [].
Proof.
  unfold query_phase, remainder_phase. rewrite !flat_map_app, ops_fri_layers.
  destruct (sh_aux s), (v_remainder_check v); reflexivity.
Qed.

Lemma draws_one deg c : T.draws deg (fun _ => c) 1 = [T.draw1 deg 0 c].
Proof. reflexivity. Qed.

Lemma ops_fri_commit deg nq layers i n : i + n = layers ->
  flat_map (coin_ops deg nq) (fri_commit i n) =
  T.verifier_fri_new deg layers i (map T.FriLayerCommitment (seq i n) ++ [T.RemainderCommitment]).
Proof.
  revert i. induction n as [| n IH]; intros i H.
  - cbn -[Nat.ltb]. replace (i <? layers) with false by (symmetry; apply Nat.ltb_ge; lia). reflexivity.
  - cbn [fri_commit flat_map coin_ops sym_of chal_of seq map app T.verifier_fri_new].
    replace (i <? layers) with true by (symmetry; apply Nat.ltb_lt; lia).
    rewrite (IH (S i)) by lia. reflexivity.
Qed.

(* for every shape of C04's model, every list of FRI rows, every number of opened rows, every variant *)
(* shapes without a Lagrange-kernel column: Model/Integrity.v does not model the GKR step (stated scope of C03) *)
Theorem coin_projection_is_transcript : forall (t : T.shape) rows uniq v, T.sh_lagrange t = None ->
  flat_map (coin_ops (T.sh_ext_deg t) (T.sh_queries t)) (events v (shape_of t rows uniq)) = T.verifier t.
Proof.
  intros t rows uniq v Hlag. unfold events, head, draw_phase, commit_head, T.verifier. rewrite ?Hlag.
  rewrite !flat_map_app, ops_channel_new, ops_query_phase.
  rewrite (ops_fri_commit _ _ (T.sh_fri_layers t) 0 (T.sh_fri_layers t)) by reflexivity.
  unfold shape_of, T.fri_roots; cbn [sh_aux sh_aux_rands sh_n_comp sh_n_deep sh_layers].
  destruct (T.multi_segment t); cbn [flat_map coin_ops sym_of chal_of app ood_frame]; rewrite ?draws_one, ?app_nil_r;
    repeat (rewrite <- ?app_assoc; cbn [app]); reflexivity.
Qed.
