(* C20 — interpolate_batch equals interpolate on every batch (any field, any N >= 1, any number of batches).
   stdlib style. *)
From Coq Require Import List Arith Bool Lia Ring Field.
From VBase Require Import FieldOps.
From VModel Require Import Polynom.
From VProofs Require Import PolyBase PolyArith PolyUtils PolyDiv PolyRoots PolyInterp.
Import ListNotations.

Section Batch.
Context {F : Type} (O : FOps F) (L : FLaws O).
Local Notation zero := (fzero O).
Local Notation one := (fone O).
Local Notation "a +f b" := (fadd O a b) (at level 50, left associativity).
Local Notation "a -f b" := (fsub O a b) (at level 50, left associativity).
Local Notation "a *f b" := (fmul O a b) (at level 40, left associativity).
Local Notation peval := (peval O).
Local Notation pprod := (pprod O).
Local Notation roots_poly := (roots_poly O).

Add Ring Fring : (FLaws_ring_theory O L).
Add Field Ffield : (FLaws_field_theory O L).

(* ------------------------------------------------------------------ generic list helpers *)
Lemma get_map {A B} (f : A -> B) (l : list A) k d : k < length l -> get (map f l) k = Ok (f (nth k l d)).
Proof.
  intros H. rewrite (get_ok _ k (f d)) by now rewrite map_length. now rewrite map_nth.
Qed.

Lemma get_app_mid' {A} (l1 l2 : list A) v k : length l1 = k -> get (l1 ++ v :: l2) k = Ok v.
Proof. intros <-. apply get_app_mid. Qed.

Lemma upd_app_mid' {A} (l1 l2 : list A) v w k : length l1 = k -> upd (l1 ++ v :: l2) k w = l1 ++ w :: l2.
Proof. intros <-. apply upd_app_mid. Qed.

Lemma get_cons_S {A} (a : A) l k : get (a :: l) (S k) = get l k.
Proof. reflexivity. Qed.

Lemma get_concat_uniform {A} N : forall (rows : list (list A)) i j,
  (forall r, In r rows -> length r = N) -> i < length rows -> j < N ->
  get (concat rows) (i * N + j) = get (nth i rows []) j.
Proof.
  induction rows as [|r rows IH]; intros i j Hall Hi Hj; [simpl in Hi; lia|].
  assert (Hr : length r = N) by (apply Hall; now left).
  destruct i as [|i]; cbn [concat nth].
  - simpl. unfold get. rewrite nth_error_app1 by lia. reflexivity.
  - unfold get. rewrite nth_error_app2 by (simpl; lia).
    replace (S i * N + j - length r) with (i * N + j) by (simpl; lia).
    apply IH; auto. intros r' Hr'. apply Hall. now right. simpl in Hi. lia.
Qed.

Lemma concat_uniform_length {A} N : forall (rows : list (list A)),
  (forall r, In r rows -> length r = N) -> length (concat rows) = length rows * N.
Proof.
  induction rows as [|r rows IH]; intros Hall. reflexivity.
  cbn [concat length]. rewrite app_length. rewrite IH by (intros; apply Hall; now right).
  rewrite (Hall r) by now left. simpl. lia.
Qed.

Lemma zip_with_app_tail {A B} (f : A -> B -> A) : forall (a : list A) (b c : list B), length a <= length b ->
  zip_with f a (b ++ c) = zip_with f a b.
Proof.
  induction a as [|a0 a IH]; intros b c H. reflexivity.
  destruct b as [|b0 b]; [simpl in H; lia|]. simpl. f_equal. apply IH. simpl in H; lia.
Qed.

Lemma skipn_repeat {A} (v : A) : forall m k, skipn k (repeat v m) = repeat v (m - k).
Proof.
  induction m; intros k; simpl. now rewrite skipn_nil. destruct k; simpl; auto.
Qed.

(* ------------------------------------------------------------------ the inline synthetic division *)
(* e_{last} = t_{last}; e_k = t_k + e_{k+1} * x   (t = roots[1..]) *)
Fixpoint hsyn (t : list F) (x : F) : list F :=
  match t with
  | [] => []
  | r1 :: t' => match hsyn t' x with [] => [r1] | e1 :: e' => (r1 +f e1 *f x) :: e1 :: e' end
  end.

Lemma hsyn_cons r1 t x :
  hsyn (r1 :: t) x = match hsyn t x with [] => [r1] | e1 :: e' => (r1 +f e1 *f x) :: e1 :: e' end.
Proof. reflexivity. Qed.

Lemma hsyn_length x : forall t, length (hsyn t x) = length t.
Proof.
  induction t as [|r1 t IH]. reflexivity. rewrite hsyn_cons. destruct (hsyn t x) eqn:E; simpl in *; lia.
Qed.

Lemma hsyn_syn_lin x : forall t t' c, t <> [] -> syn_lin O t x = (t', c) -> c :: t' = hsyn t x ++ [zero].
Proof.
  induction t as [|r1 t IH]; intros t' c Hne E; [congruence|].
  cbn [syn_lin] in E. destruct (syn_lin O t x) as [t2' c2] eqn:E2. inversion E; subst t' c. clear E.
  destruct t as [|r2 t].
  - simpl in E2. inversion E2; subst. simpl. f_equal. ring.
  - pose proof (IH t2' c2 ltac:(discriminate) eq_refl) as H.
    rewrite (hsyn_cons r1). destruct (hsyn (r2 :: t) x) as [|e1 e'] eqn:Eh.
    + exfalso. pose proof (hsyn_length x (r2 :: t)) as Hl. rewrite Eh in Hl. simpl in Hl. lia.
    + simpl in H. inversion H; subst. simpl. f_equal. ring.
Qed.

(* dividing the zero polynomial of a row by (x - x_k): exactly the coefficients of the product of the others *)
Lemma hsyn_roots_poly row k : k < length row ->
  hsyn (tl (roots_poly row)) (nth k row zero) = roots_poly (removek k row).
Proof.
  intros Hk. pose proof (roots_poly_length O row) as Hl.
  destruct (roots_poly row) as [|r0 t] eqn:ER; [simpl in Hl; lia|]. simpl in Hl. cbn [tl].
  assert (Ht : t <> []) by (destruct t; simpl in Hl; [lia|discriminate]).
  assert (E : syn_lin O (roots_poly row) (nth k row zero) = (roots_poly (removek k row) ++ [zero], zero)).
  { rewrite (split_nth O row k Hk) at 1. unfold removek. rewrite (roots_poly_split O L). apply (syn_lin_linmul O L). }
  rewrite ER in E. cbn [syn_lin] in E. destruct (syn_lin O t (nth k row zero)) as [t' c] eqn:Et.
  injection E as E1 E2. pose proof (hsyn_syn_lin _ t t' c Ht Et) as H. rewrite E1 in H.
  apply app_inv_tail in H. now symmetry.
Qed.

Definition eqn_body (roots : list F) (x : F) : nat -> list F -> Result (list F) :=
  fun k equation => rk1 <- get roots (k + 1);; ek1 <- get equation (k + 1);; set equation k (rk1 +f ek1 *f x).

Lemma eqn_loop r0 x : forall t1 t2 junk, t2 <> [] -> length junk = length t1 ->
  for_down (length t1) (eqn_body (r0 :: t1 ++ t2) x) (junk ++ hsyn t2 x) = Ok (hsyn (t1 ++ t2) x).
Proof.
  induction t1 as [|c t1 IH] using rev_ind; intros t2 junk Ht2 Hj.
  - destruct junk; [|discriminate]. reflexivity.
  - rewrite app_length in Hj. simpl in Hj. rewrite Nat.add_1_r in Hj.
    destruct (list_snoc_inv junk (length t1) Hj) as (junk' & jl & Ej & Hj'). subst junk.
    rewrite app_length. simpl length. rewrite Nat.add_1_r. cbn [for_down].
    rewrite <- !app_assoc. simpl ([c] ++ t2). simpl ([jl] ++ hsyn t2 x).
    destruct (hsyn t2 x) as [|e1 e'] eqn:Eh.
    { exfalso. pose proof (hsyn_length x t2) as Hl. rewrite Eh in Hl. destruct t2; simpl in Hl; [congruence|lia]. }
    unfold eqn_body at 1. rewrite Nat.add_1_r. rewrite get_cons_S, get_app_mid. cbn [bind].
    replace (junk' ++ jl :: e1 :: e') with ((junk' ++ [jl]) ++ e1 :: e') by (rewrite <- app_assoc; reflexivity).
    replace (S (length t1)) with (length (junk' ++ [jl])) by (rewrite app_length; simpl; lia).
    rewrite get_app_mid. cbn [bind].
    rewrite <- app_assoc. simpl ([jl] ++ e1 :: e').
    rewrite set_ok by (rewrite app_length; simpl; lia). rewrite <- Hj', upd_app_mid.
    assert (Eh' : hsyn (c :: t2) x = (c +f e1 *f x) :: e1 :: e') by (rewrite hsyn_cons; now rewrite Eh).
    rewrite <- Eh'. rewrite Hj'. apply IH; [discriminate|exact Hj'].
Qed.

Lemma eqn_build r0 t x N1 equation0 : length t = S N1 -> length equation0 = S N1 ->
  (rN <- get (r0 :: t) (S N1);; equation <- set equation0 N1 rN;;
   for_down N1 (eqn_body (r0 :: t) x) equation) = Ok (hsyn t x).
Proof.
  intros Ht He.
  destruct (list_snoc_inv t N1 Ht) as (t1 & rN & Et & Ht1). subst t.
  destruct (list_snoc_inv equation0 N1 He) as (junk & jl & Ee & Hj). subst equation0.
  rewrite get_cons_S. rewrite <- Ht1 at 1. rewrite get_app_mid. cbn [bind].
  rewrite set_ok by (rewrite app_length; simpl; lia). rewrite <- Hj at 1. rewrite upd_app_mid. cbn [bind].
  rewrite <- Ht1. change [rN] with (hsyn [rN] x) at 2.
  apply eqn_loop; [discriminate|congruence].
Qed.

(* ------------------------------------------------------------------ phase 1: equations and inverses *)
Definition p1_inner_body (N i : nat) (xs_i roots : list F) :
    nat -> list (list F) * list F -> Result (list (list F) * list F) :=
  fun j st' =>
    let '(equations, inverses) := st' in
    x <- get xs_i j;;
    equation <- get equations (i * N + j);;
    match N with 0 => Panic | S N1 =>
    rN <- get roots N;;
    equation <- set equation N1 rN;;
    equation <- for_down N1 (fun k equation =>
        rk1 <- get roots (k + 1);; ek1 <- get equation (k + 1);;
        set equation k (rk1 +f ek1 *f x)) equation;;
    equations <- set equations (i * N + j) equation;;
    inverses <- set inverses (i * N + j) (eval O equation x);;
    Ok (equations, inverses) end.

Definition p1_outer_body (N : nat) (xs : list (list F)) :
    nat -> list (list F) * list F * list F -> Result (list (list F) * list F * list F) :=
  fun i st =>
    let '(equations, inverses, roots) := st in
    xs_i <- get xs i;;
    roots <- fill_zero_roots O xs_i roots;;
    st' <- for_up 0 (length xs_i) (p1_inner_body N i xs_i roots) (equations, inverses);;
    Ok (fst st', snd st', roots).

Definition p2_inner_body (N i : nat) (ys : list (list F)) (equations : list (list F)) (inverses : list F) :
    nat -> list F -> Result (list F) :=
  fun j poly =>
    ys_i <- get ys i;; yij <- get ys_i j;;
    invij <- get inverses (i * N + j);;
    let inv_y := yij *f invij in
    eq <- get equations (i * N + j);;
    Ok (zip_with (fun res_coeff eq_coeff => res_coeff +f eq_coeff *f inv_y) poly eq).

Definition p2_outer_body (N : nat) (ys : list (list F)) (equations : list (list F)) (inverses : list F) :
    nat -> list (list F) -> Result (list (list F)) :=
  fun i result =>
    poly <- get result i;;
    poly <- for_up 0 N (p2_inner_body N i ys equations inverses) poly;;
    set result i poly.

Lemma interpolate_batch_unfold dbg N xs ys :
  interpolate_batch O dbg N xs ys =
  if dbg && negb (length xs =? length ys) then Panic else
  st <- for_up 0 (length xs) (p1_outer_body N xs)
          (repeat (repeat zero N) (length xs * N), repeat zero (length xs * N), repeat zero (N + 1));;
  let '(equations, inverses, _) := st in
  if N =? 0 then Panic else
  for_up 0 (length xs) (p2_outer_body N ys equations (batch_inversion O inverses)) (repeat (repeat zero N) (length xs)).
Proof. reflexivity. Qed.

Definition rowE (row : list F) : list (list F) := map (hsyn (tl (roots_poly row))) row.
Definition rowI (row : list F) : list F := map (fun x => eval O (hsyn (tl (roots_poly row)) x) x) row.

Lemma p1_inner N1 i r0 t xs_i : length t = S N1 ->
  forall xt xd PE PI m, xs_i = xd ++ xt ->
  length PE = i * S N1 + length xd -> length PI = i * S N1 + length xd -> length xt <= m ->
  for_up (length xd) (length xt) (p1_inner_body (S N1) i xs_i (r0 :: t))
    (PE ++ repeat (repeat zero (S N1)) m, PI ++ repeat zero m)
  = Ok (PE ++ map (hsyn t) xt ++ repeat (repeat zero (S N1)) (m - length xt),
        PI ++ map (fun x => eval O (hsyn t x) x) xt ++ repeat zero (m - length xt)).
Proof.
  intros Ht. induction xt as [|x xt IH]; intros xd PE PI m Hxs HE HI Hm.
  - simpl. now rewrite Nat.sub_0_r.
  - simpl in Hm. destruct m as [|m]; [lia|].
    cbn [length for_up]. unfold p1_inner_body at 1.
    assert (Hx : get xs_i (length xd) = Ok x) by (rewrite Hxs; apply get_app_mid).
    rewrite Hx. cbn [bind].
    change (repeat (repeat zero (S N1)) (S m)) with (repeat zero (S N1) :: repeat (repeat zero (S N1)) m).
    change (repeat zero (S m)) with (zero :: repeat zero m).
    rewrite <- HE, get_app_mid. cbn [bind].
    pose proof (eqn_build r0 t x N1 (repeat zero (S N1)) Ht (repeat_length _ _)) as Hb.
    unfold eqn_body in Hb. cbv beta in Hb.
    destruct (get (r0 :: t) (S N1)) as [rN|] eqn:EN; [|discriminate Hb]. cbn [bind] in Hb |- *.
    destruct (set (repeat zero (S N1)) N1 rN) as [eq1|] eqn:E1; [|discriminate Hb]. cbn [bind] in Hb |- *.
    rewrite Hb. cbn [bind].
    rewrite set_ok by (rewrite app_length; simpl; lia). rewrite upd_app_mid. cbn [bind].
    rewrite HE, <- HI. rewrite set_ok by (rewrite app_length; simpl; lia). rewrite upd_app_mid. cbn [bind].
    replace (PE ++ hsyn t x :: repeat (repeat zero (S N1)) m)
      with ((PE ++ [hsyn t x]) ++ repeat (repeat zero (S N1)) m) by (rewrite <- app_assoc; reflexivity).
    replace (PI ++ eval O (hsyn t x) x :: repeat zero m)
      with ((PI ++ [eval O (hsyn t x) x]) ++ repeat zero m) by (rewrite <- app_assoc; reflexivity).
    replace (S (length xd)) with (length (xd ++ [x])) by (rewrite app_length; simpl; lia).
    rewrite (IH (xd ++ [x]) (PE ++ [hsyn t x]) (PI ++ [eval O (hsyn t x) x]) m).
    + rewrite <- !app_assoc. reflexivity.
    + rewrite Hxs, <- app_assoc. reflexivity.
    + rewrite !app_length. simpl. lia.
    + rewrite !app_length. simpl. lia.
    + lia.
Qed.

Lemma p1_outer N1 xs : (forall r, In r xs -> length r = S N1) ->
  forall xst xsd PE PI roots, xs = xsd ++ xst ->
  length PE = length xsd * S N1 -> length PI = length xsd * S N1 -> length roots = S (S N1) ->
  exists roots',
  for_up (length xsd) (length xst) (p1_outer_body (S N1) xs)
    (PE ++ repeat (repeat zero (S N1)) (length xst * S N1), PI ++ repeat zero (length xst * S N1), roots)
  = Ok (PE ++ concat (map rowE xst), PI ++ concat (map rowI xst), roots').
Proof.
  intros Hall. induction xst as [|row xst IH]; intros xsd PE PI roots Hxs HE HI Hr.
  - exists roots. simpl. now rewrite !app_nil_r.
  - assert (Hrow : length row = S N1) by (apply Hall; rewrite Hxs; apply in_or_app; right; now left).
    cbn [length for_up]. unfold p1_outer_body at 1.
    assert (Hg : get xs (length xsd) = Ok row) by (rewrite Hxs; apply get_app_mid). rewrite Hg. cbn [bind].
    rewrite (fill_zero_roots_spec O row roots) by (rewrite Hrow; exact Hr). cbn [bind].
    pose proof (roots_poly_length O row) as Hl.
    destruct (roots_poly row) as [|r0 t] eqn:ER; [simpl in Hl; lia|]. simpl in Hl.
    pose proof (p1_inner N1 (length xsd) r0 t row ltac:(lia) row [] PE PI (S (length xst) * S N1) eq_refl
                  ltac:(simpl; lia) ltac:(simpl; lia) ltac:(rewrite Hrow; simpl; lia)) as G.
    simpl (length []) in G. rewrite G. cbn [bind fst snd].
    replace (S (length xst) * S N1 - length row) with (length xst * S N1) by (rewrite Hrow; simpl; lia).
    destruct (IH (xsd ++ [row]) (PE ++ map (hsyn t) row) (PI ++ map (fun x => eval O (hsyn t x) x) row) (r0 :: t))
      as (roots' & Hroots').
    + rewrite Hxs, <- app_assoc. reflexivity.
    + rewrite !app_length, map_length, Hrow. simpl. lia.
    + rewrite !app_length, map_length, Hrow. simpl. lia.
    + simpl. lia.
    + exists roots'. rewrite app_length in Hroots'. cbn [length] in Hroots'. rewrite Nat.add_1_r in Hroots'.
      rewrite <- !app_assoc in Hroots'. rewrite Hroots'.
      cbn [map concat]. unfold rowE, rowI. rewrite ER. cbn [tl]. reflexivity.
Qed.

(* ------------------------------------------------------------------ phase 2: accumulation *)
Section Phase2.
Variables (N1 : nat) (xs ys : list (list F)).
Let N := S N1.
Hypothesis Hxs : forall r, In r xs -> length r = N.
Hypothesis Hys : forall r, In r ys -> length r = N.
Hypothesis Hlen : length xs = length ys.
Let equations := concat (map rowE xs).
Let inverses := batch_inversion O (concat (map rowI xs)).

Lemma rowE_length row : length (rowE row) = length row.
Proof. apply map_length. Qed.
Lemma rowI_length row : length (rowI row) = length row.
Proof. apply map_length. Qed.

Lemma get_equation i j : i < length xs -> j < N ->
  get equations (i * N + j) = Ok (roots_poly (removek j (nth i xs []))).
Proof.
  intros Hi Hj. unfold equations.
  assert (Hr : length (nth i xs []) = N) by (apply Hxs, nth_In, Hi).
  rewrite (get_concat_uniform N).
  - rewrite (nth_indep _ [] (rowE [])) by now rewrite map_length. rewrite map_nth.
    unfold rowE. rewrite (get_map _ _ j zero) by lia. now rewrite hsyn_roots_poly by lia.
  - intros r Hin. apply in_map_iff in Hin. destruct Hin as (row & <- & Hin). rewrite rowE_length. now apply Hxs.
  - now rewrite map_length.
  - exact Hj.
Qed.

Lemma get_inverse i j : i < length xs -> j < N ->
  get inverses (i * N + j) = Ok (nth j (dens O (nth i xs [])) zero).
Proof.
  intros Hi Hj. unfold inverses. rewrite (batch_inversion_spec O L).
  assert (Hr : length (nth i xs []) = N) by (apply Hxs, nth_In, Hi).
  assert (Hall : forall r, In r (map rowI xs) -> length r = N).
  { intros r Hin. apply in_map_iff in Hin. destruct Hin as (row & <- & Hin). rewrite rowI_length. now apply Hxs. }
  assert (Hg : get (concat (map rowI xs)) (i * N + j)
               = Ok (pprod (removek j (nth i xs [])) (nth j (nth i xs []) zero))).
  { rewrite (get_concat_uniform N); auto; [|now rewrite map_length].
    rewrite (nth_indep _ [] (rowI [])) by now rewrite map_length. rewrite map_nth.
    unfold rowI. rewrite (get_map _ _ j zero) by lia. rewrite hsyn_roots_poly by lia.
    rewrite (eval_horner O L). now rewrite (roots_poly_peval O L). }
  apply get_ok_inv in Hg. destruct Hg as (Hlt & Hnth).
  rewrite (get_map _ _ _ zero) by exact Hlt. rewrite Hnth. now rewrite (dens_nth O L) by lia.
Qed.

Lemma p2_inner i : i < length xs -> forall k, k <= N ->
  for_up 0 k (p2_inner_body N i ys equations inverses) (repeat zero N)
  = Ok (lag_acc O (nth i xs []) (nth i ys []) (dens O (nth i xs [])) k).
Proof.
  intros Hi.
  assert (Hr : length (nth i xs []) = N) by (apply Hxs, nth_In, Hi).
  assert (Hyr : length (nth i ys []) = N) by (apply Hys, nth_In; lia).
  induction k as [|k IH]; intros Hk.
  - simpl. now rewrite Hr.
  - rewrite for_up_snoc, IH by lia. cbn [bind]. simpl (0 + k).
    unfold p2_inner_body. rewrite (get_ok ys i []) by lia. cbn [bind].
    rewrite (get_ok (nth i ys []) k zero) by lia. cbn [bind].
    rewrite get_inverse by lia. cbn [bind]. rewrite get_equation by lia. cbn [bind].
    cbn [lag_acc]. f_equal. unfold Ng. rewrite zip_with_app_tail. reflexivity.
    rewrite (lag_acc_length O) by lia. rewrite (roots_poly_length O). unfold removek.
    rewrite app_length, firstn_length, skipn_length. lia.
Qed.

Definition lag_row (i : nat) : list F :=
  lag_acc O (nth i xs []) (nth i ys []) (dens O (nth i xs [])) N.

Lemma p2_outer : forall k, k <= length xs ->
  for_up 0 k (p2_outer_body N ys equations inverses) (repeat (repeat zero N) (length xs))
  = Ok (map lag_row (seq 0 k) ++ repeat (repeat zero N) (length xs - k)).
Proof.
  induction k as [|k IH]; intros Hk.
  - simpl. now rewrite Nat.sub_0_r.
  - rewrite for_up_snoc, IH by lia. cbn [bind]. simpl (0 + k).
    replace (length xs - k) with (S (length xs - S k)) by lia. cbn [repeat].
    unfold p2_outer_body.
    assert (Hlk : length (map lag_row (seq 0 k)) = k) by now rewrite map_length, seq_length.
    rewrite (get_app_mid' _ _ _ k Hlk). cbn [bind].
    rewrite (p2_inner k ltac:(lia) N (le_n _)). cbn [bind].
    rewrite set_ok by (rewrite app_length; simpl; lia).
    rewrite (upd_app_mid' _ _ _ _ k Hlk).
    rewrite seq_S, map_app, <- app_assoc. reflexivity.
Qed.
End Phase2.

(* ------------------------------------------------------------------ the theorem *)
Theorem interpolate_batch_eq dbg N xs ys : 1 <= N -> length xs = length ys ->
  (forall r, In r xs -> length r = N) -> (forall r, In r ys -> length r = N) ->
  interpolate_batch O dbg N xs ys
  = Ok (map (fun i => lag_acc O (nth i xs []) (nth i ys []) (dens O (nth i xs [])) N) (seq 0 (length xs))).
Proof.
  intros HN Hlen Hxs Hys. destruct N as [|N1]; [lia|].
  rewrite interpolate_batch_unfold. rewrite (proj2 (Nat.eqb_eq _ _) Hlen). rewrite andb_false_r.
  destruct (p1_outer N1 xs Hxs xs [] [] [] (repeat zero (S N1 + 1)) eq_refl eq_refl eq_refl
              ltac:(rewrite repeat_length; lia)) as (roots' & H1).
  cbn [app length] in H1. rewrite H1. cbn [bind].
  rewrite (p2_outer N1 xs ys Hxs Hys Hlen (length xs) (le_n _)).
  rewrite Nat.sub_diag. simpl. now rewrite app_nil_r.
Qed.

Theorem interpolate_batch_spec dbg N xs ys : 1 <= N -> length xs = length ys ->
  (forall r, In r xs -> length r = N) -> (forall r, In r ys -> length r = N) ->
  exists ps, interpolate_batch O dbg N xs ys = Ok ps /\ length ps = length xs /\
    forall i, i < length xs -> interpolate O dbg (nth i xs []) (nth i ys []) false = Ok (nth i ps []).
Proof.
  intros HN Hlen Hxs Hys.
  exists (map (fun i => lag_acc O (nth i xs []) (nth i ys []) (dens O (nth i xs [])) N) (seq 0 (length xs))).
  split. now apply interpolate_batch_eq.
  split. now rewrite map_length, seq_length.
  intros i Hi.
  assert (Hr : length (nth i xs []) = N) by (apply Hxs, nth_In, Hi).
  assert (Hyr : length (nth i ys []) = N) by (apply Hys, nth_In; lia).
  rewrite (interpolate_eq_lag O L) by (intros; lia).
  set (f := fun i => lag_acc O (nth i xs []) (nth i ys []) (dens O (nth i xs [])) N).
  rewrite (nth_indep (map f (seq 0 (length xs))) [] (f 0)) by now rewrite map_length, seq_length.
  rewrite (map_nth f (seq 0 (length xs)) 0 i).
  rewrite seq_nth by assumption. unfold f. simpl. now rewrite Hr.
Qed.

Theorem interpolate_batch_evaluates dbg N xs ys ps : 1 <= N -> length xs = length ys ->
  (forall r, In r xs -> length r = N /\ NoDup r) -> (forall r, In r ys -> length r = N) ->
  interpolate_batch O dbg N xs ys = Ok ps ->
  forall i j, i < length xs -> j < N ->
    length (nth i ps []) = N /\ peval (nth i ps []) (nth j (nth i xs []) zero) = nth j (nth i ys []) zero.
Proof.
  intros HN Hlen Hxs Hys Hps i j Hi Hj.
  destruct (interpolate_batch_spec dbg N xs ys HN Hlen (fun r H => proj1 (Hxs r H)) Hys) as (ps' & H1 & _ & H3).
  rewrite Hps in H1. inversion H1; subst ps'. specialize (H3 i Hi).
  destruct (Hxs (nth i xs []) (nth_In xs [] Hi)) as (Hr & Hnd).
  assert (Hyr : length (nth i ys []) = length (nth i xs [])) by (rewrite Hr; apply Hys, nth_In; lia).
  destruct (interpolate_spec O L dbg _ _ Hnd Hyr) as (p & Hp & Hlp & _ & Hev).
  rewrite H3 in Hp. inversion Hp; subst p. split. lia. apply Hev. lia.
Qed.

End Batch.
