(* C13 — the ByteReader impl for std::io::Cursor is the list semantics on buf[min(pos, len)..] (coverage round: Cursor as the
   third party of the operation-sequence equivalence).  Unlike SliceReader::check_eor there is no `pos + n` that could overflow:
   no bound on the length arguments is needed.  stdlib style. *)
From VBase Require Import MachInt.
From VModel Require Import ReadAdapter.
From VProofs Require Import ReadAdapterSim.
Local Open Scope nat_scope.

(* the cursor state [t] represents the unread byte list [u]; both the buffer length and the position are u64 values *)
Definition cursor_rel (t : cstate) (u : list byte) : Prop :=
  u = c_rem t /\ (Z.of_nat (length (c_src t)) < 2 ^ 64)%Z /\ (Z.of_nat (c_pos t) < 2 ^ 64)%Z.

Lemma c_rem_length : forall t, length (c_rem t) = length (c_src t) - c_pos t.
Proof. intros t. unfold c_rem. rewrite skipn_length. lia. Qed.

Lemma c_rem_beyond : forall t, length (c_src t) <= c_pos t -> c_rem t = [].
Proof.
  intros t H. pose proof (c_rem_length t) as L. destruct (c_rem t); [reflexivity|simpl in L; lia].
Qed.

Lemma c_rem_inside : forall t, c_pos t <= length (c_src t) -> c_rem t = skipn (c_pos t) (c_src t).
Proof. intros t H. unfold c_rem. now rewrite Nat.min_l. Qed.

Lemma cursor_take_sim : forall n, sim cstate (list byte) cursor_rel (c_slice n) (sp_take n).
Proof.
  intros n t u (Hu & Hs & Hp). unfold c_slice, sp_take. subst u. rewrite c_rem_length.
  change (2 ^ 64)%Z with 18446744073709551616%Z in *.
  destruct (Nat.ltb_spec (length (c_src t) - c_pos t) n) as [Hlt|Hge].
  - destruct (Nat.leb_spec n (length (c_src t) - c_pos t)); [lia|]. simpl. split; [reflexivity|]. repeat split; auto.
  - destruct (Nat.leb_spec n (length (c_src t) - c_pos t)); [|lia].
    unfold c_advance. change (2 ^ 64)%Z with 18446744073709551616%Z.
    destruct (Z.leb_spec 18446744073709551616 (Z.of_nat (c_pos t) + Z.of_nat n)) as [Hov|Hov].
    + (* pos + n overflows only if n = 0 and pos >= 2^64, or n > 0 and pos + n <= size: neither is possible *)
      exfalso. destruct n; lia.
    + destruct (Nat.le_gt_cases (c_pos t) (length (c_src t))) as [Hin|Hout].
      * rewrite (Nat.min_l _ _ Hin). destruct (Nat.leb_spec (c_pos t + n) (length (c_src t))); [|lia].
        simpl. rewrite (c_rem_inside t Hin). split; [reflexivity|].
        unfold cursor_rel, c_rem. simpl. split; [|split; [assumption|lia]].
        rewrite Nat.min_l by lia. now rewrite skipn_skipn'.
      * (* position beyond the end: only n = 0 passes the length test *)
        assert (n = 0) by lia. subst n. rewrite Nat.min_r by lia. rewrite Nat.add_0_r, Nat.leb_refl.
        simpl. rewrite (c_rem_beyond t) by lia. simpl. split; [reflexivity|].
        unfold cursor_rel, c_rem. simpl. rewrite Nat.add_0_r. split; [|split; assumption].
        rewrite Nat.min_r by lia. rewrite skipn_all. reflexivity.
Qed.

Lemma cursor_u8_sim : sim cstate (list byte) cursor_rel c_u8 sp_u8.
Proof.
  intros t u (Hu & Hs & Hp). unfold c_u8, sp_u8. subst u.
  destruct (c_rem t) as [|b r] eqn:E.
  - simpl. split; [reflexivity|]. unfold cursor_rel. rewrite E. repeat split; auto.
  - pose proof (c_rem_length t) as L. rewrite E in L. simpl in L.
    assert (Hin : c_pos t < length (c_src t)) by lia.
    unfold c_advance. change (2 ^ 64)%Z with 18446744073709551616%Z in *.
    destruct (Z.leb_spec 18446744073709551616 (Z.of_nat (c_pos t) + Z.of_nat 1)); [lia|].
    simpl. split; [reflexivity|]. unfold cursor_rel, c_rem. simpl. split; [|split; [assumption|lia]].
    rewrite Nat.min_l by lia. unfold c_rem in E. rewrite Nat.min_l in E by lia.
    destruct (skipn_cons_inv _ _ _ _ _ E) as (_ & H2 & _). rewrite Nat.add_1_r. now rewrite H2.
Qed.

Lemma cursor_peek_sim : sim cstate (list byte) cursor_rel c_peek sp_peek.
Proof.
  intros t u (Hu & Hs & Hp). unfold c_peek, sp_peek. subst u.
  destruct (c_rem t) as [|b r] eqn:E; simpl; (split; [reflexivity|]); unfold cursor_rel; rewrite E; repeat split; auto.
Qed.

Lemma cursor_more_sim : forall t u, cursor_rel t u ->
  fst (r_more cursor_reader t) = fst (sp_more u) /\ cursor_rel (snd (r_more cursor_reader t)) (snd (sp_more u)).
Proof.
  intros t u Hr. simpl. split; [|exact Hr]. destruct Hr as (Hu & _ & _). subst u.
  pose proof (c_rem_length t) as L.
  destruct (c_rem t); simpl in *; destruct (Nat.ltb_spec (c_pos t) (length (c_src t))); auto; lia.
Qed.

Lemma cursor_eor_spec : forall n t u, cursor_rel t u -> r_eor cursor_reader n t = (fst (sp_eor n u), t).
Proof. intros n t u (Hu & _ & _). subst u. reflexivity. Qed.

(* every operation of the Cursor reader is the list semantics (check_eor included: Cursor's answer is exact) *)
Lemma cursor_step_spec : forall utf8 o t u, cursor_rel t u ->
  fst (step cursor_reader utf8 o t) = fst (step spec_reader utf8 o u) /\
  cursor_rel (snd (step cursor_reader utf8 o t)) (snd (step spec_reader utf8 o u)).
Proof.
  intros utf8 o t u Hr. destruct (is_eor o) eqn:E.
  - destruct o; try discriminate. unfold step, vmap, bind, ret.
    rewrite (cursor_eor_spec n t u Hr). simpl. destruct (n <=? length u); simpl; auto.
  - apply (sim_step cstate (list byte) cursor_reader spec_reader cursor_rel utf8 (Nat.max 16 (op_arg o))); auto; try lia.
    + apply cursor_u8_sim.
    + apply cursor_peek_sim.
    + intros n _. apply cursor_take_sim.
    + intros n _. apply cursor_take_sim.
    + apply cursor_more_sim.
Qed.

(* two readers that are both the list semantics of the same unread bytes produce the same output list *)
Lemma run_spec_cursor : forall utf8 ops t u, cursor_rel t u ->
  run cursor_reader utf8 ops t = run spec_reader utf8 ops u.
Proof.
  intros utf8 ops. induction ops as [|o ops IH]; intros t u Hr; simpl; [reflexivity|].
  destruct (cursor_step_spec utf8 o t u Hr) as [E R].
  destruct (step cursor_reader utf8 o t) as [r1 t1], (step spec_reader utf8 o u) as [r2 u2]; cbn [fst snd] in *.
  subst r2. destruct (aborts r1); [reflexivity|]. f_equal. now apply IH.
Qed.

Lemma run_spec_slice : forall utf8 B ops t u, 16 <= B -> Forall (fun o => op_arg o <= B) ops -> slice_rel B t u ->
  run slice_reader utf8 ops t = run spec_reader utf8 ops u.
Proof.
  intros utf8 B ops. induction ops as [|o ops IH]; intros t u HB Hops Hr; simpl; [reflexivity|].
  pose proof (Forall_inv Hops) as Ho. pose proof (Forall_inv_tail Hops) as Hrest.
  destruct (slice_step_spec utf8 B o t u HB Ho Hr) as [E R].
  destruct (step slice_reader utf8 o t) as [r1 t1], (step spec_reader utf8 o u) as [r2 u2]; cbn [fst snd] in *.
  subst r2. destruct (aborts r1); [reflexivity|]. f_equal. now apply IH.
Qed.

Lemma cursor_init_rel : forall bytes pos, (Z.of_nat (length bytes) < 2 ^ 64)%Z -> (Z.of_nat pos < 2 ^ 64)%Z ->
  cursor_rel (c_init bytes pos) (skipn pos bytes).
Proof.
  intros bytes pos Hl Hp. unfold cursor_rel, c_init, c_rem. simpl. split; [|split; assumption].
  destruct (Nat.le_gt_cases pos (length bytes)).
  - now rewrite Nat.min_l.
  - rewrite Nat.min_r by lia. rewrite skipn_all. apply skipn_all2. lia.
Qed.

(* Cursor == SliceReader on every operation sequence: same values, same errors at the same points, check_eor and
   has_more_bytes included; the cursor may start at any position (also beyond the end), the slice reader then reads the
   bytes from that position on.  The bound B only excludes `pos + n` overflowing inside SliceReader::check_eor. *)
Theorem cursor_equals_slice : forall utf8 bytes pos ops B,
  16 <= B -> Forall (fun o => op_arg o <= B) ops ->
  (Z.of_nat (length bytes) + Z.of_nat B < 2 ^ 64)%Z -> (Z.of_nat pos < 2 ^ 64)%Z ->
  run cursor_reader utf8 ops (c_init bytes pos) = run slice_reader utf8 ops (s_init (skipn pos bytes)).
Proof.
  intros utf8 bytes pos ops B HB Hops Hl Hp.
  rewrite (run_spec_cursor utf8 ops (c_init bytes pos) (skipn pos bytes)) by (apply cursor_init_rel; lia).
  symmetry. apply (run_spec_slice utf8 B); auto.
  unfold slice_rel, s_init. simpl. repeat split; try lia.
  rewrite skipn_length. lia.
Qed.

(* the cursor reader never panics (u64 position arithmetic, slice indexing) *)
Lemma cursor_never_aborts : forall utf8 ops bytes pos,
  (Z.of_nat (length bytes) < 2 ^ 64)%Z -> (Z.of_nat pos < 2 ^ 64)%Z ->
  Forall (fun r => aborts r = false) (run cursor_reader utf8 ops (c_init bytes pos)).
Proof.
  intros utf8 ops bytes pos Hl Hp.
  rewrite (run_spec_cursor utf8 ops (c_init bytes pos) (skipn pos bytes)) by (apply cursor_init_rel; lia).
  apply (safe_run (list byte) spec_reader (fun _ => True) utf8); auto.
  - intros s _. unfold sp_u8. simpl. destruct s; simpl; auto.
  - intros s _. unfold sp_peek. simpl. destruct s; simpl; auto.
  - intros n s _. simpl. unfold sp_take. destruct (n <=? length s); simpl; auto.
  - intros n s _. simpl. unfold sp_take. destruct (n <=? length s); simpl; auto.
  - intros n s _. simpl. unfold sp_eor. destruct (n <=? length s); simpl; auto.
Qed.

(* witnesses: a cursor positioned beyond the end answers like an exhausted reader, and read_slice(0) still succeeds *)
Lemma cursor_beyond_end_example :
  run cursor_reader utf8_valid [HasMore; CheckEor 0; CheckEor 1; PeekU8; ReadU8; ReadSlice 0; ReadSlice 1; ReadArray 0; ReadU16]
      (c_init [1; 2; 3]%Z 7) =
  [Ok (VBool false); Ok VUnit; Err EOF; Err EOF; Err EOF; Ok (VBytes []); Err EOF; Ok (VBytes []); Err EOF].
Proof. vm_compute. reflexivity. Qed.

Lemma cursor_mid_example :
  run cursor_reader utf8_valid [CheckEor 2; CheckEor 3; ReadU8; HasMore; ReadU8; HasMore; CheckEor 0; ReadU8] (c_init [1; 2; 3]%Z 1) =
  [Ok VUnit; Err EOF; Ok (VInt 2); Ok (VBool true); Ok (VInt 3); Ok (VBool false); Ok VUnit; Err EOF].
Proof. vm_compute. reflexivity. Qed.
