(* C09 stage (c), structural half: the faithful index-level `fft_in_place` (both strategies of the
   `stride == count && count < MAX_LOOP` switch, every count/stride/offset) computes, on every stride-`stride`
   subsequence starting at j in [offset, offset+count), the list-level bit-reversed FFT `brfft`, and leaves every
   other position untouched.  No field law is used here: the refinement is purely about indices.
   stdlib style. *)
From Coq Require Import List Arith Bool ZArith Lia.
From VBase Require Import FieldOps.
From VModel Require Import FFT.
From VProofs Require Import FFTSpec.
Import ListNotations.

(* ---------------------------------------------------------------- list update *)
Lemma lupd_length {A} : forall (l : list A) i v, length (lupd l i v) = length l.
Proof. induction l; destruct i; cbn; intros; auto. Qed.

Lemma nth_lupd_eq {A} : forall (l : list A) i v d, i < length l -> nth i (lupd l i v) d = v.
Proof. induction l; destruct i; cbn; intros; try lia; auto; try (apply IHl; lia). Qed.

Lemma nth_lupd_neq {A} : forall (l : list A) i j v d, i <> j -> nth j (lupd l i v) d = nth j l d.
Proof.
  induction l; destruct i, j; cbn; intros; try lia; auto; try (apply IHl; lia).
Qed.

Lemma nth_lupd {A} : forall (l : list A) i j v d,
  nth j (lupd l i v) d = if (i =? j) && (i <? length l) then v else nth j l d.
Proof.
  intros. destruct (Nat.eqb_spec i j) as [->|Hn]; cbn [andb].
  - destruct (Nat.ltb_spec j (length l)).
    + apply nth_lupd_eq; assumption.
    + rewrite !nth_overflow; rewrite ?lupd_length; auto.
  - apply nth_lupd_neq; assumption.
Qed.

Lemma fold_left_ext_in {A B} (f g : A -> B -> A) : forall l a,
  (forall a b, In b l -> f a b = g a b) -> fold_left f l a = fold_left g l a.
Proof.
  induction l; cbn; intros; [reflexivity|].
  rewrite H by (left; reflexivity). apply IHl. intros; apply H; right; assumption.
Qed.

Definition in_rng (a n p : nat) : bool := (a <=? p) && (p <? a + n).

Lemma in_rng_spec a n p : in_rng a n p = true <-> a <= p < a + n.
Proof.
  unfold in_rng. rewrite andb_true_iff, Nat.leb_le, Nat.ltb_lt. tauto.
Qed.

Lemma in_rng_false a n p : in_rng a n p = false <-> ~ (a <= p < a + n).
Proof.
  rewrite <- in_rng_spec. destruct (in_rng a n p); split; intros; try discriminate; auto.
  exfalso; auto.
Qed.

Ltac rng :=
  repeat match goal with
  | H : in_rng _ _ _ = true |- _ => apply in_rng_spec in H
  | H : in_rng _ _ _ = false |- _ => apply in_rng_false in H
  end.

Section Refine.
Context {F : Type} (O : FOps F).
Local Notation fz := (fzero O).
Local Infix "+f" := (fadd O) (at level 50, left associativity).
Local Infix "-f" := (fsub O) (at level 50, left associativity).
Local Infix "*f" := (fmul O) (at level 40, left associativity).
Local Notation vget := (vget O).

Variable tw : list F.

(* the factor applied to the odd half in pair i: none at i = 0 (plain butterfly), twiddles[i] otherwise *)
Definition tmul (i : nat) (y : F) : F := if i =? 0 then y else y *f vget tw i.

Definition bfly (i : nat) (v : list F) (a s : nat) : list F :=
  if i =? 0 then butterfly O v a s else butterfly_twiddle O v (vget tw i) a s.

Lemma bfly_length i v a s : length (bfly i v a s) = length v.
Proof.
  unfold bfly, butterfly, butterfly_twiddle. destruct (i =? 0); rewrite !lupd_length; reflexivity.
Qed.

Lemma bfly_nth i v a s p : 0 < s -> a + s < length v ->
  nth p (bfly i v a s) fz =
    if p =? a then nth a v fz +f tmul i (nth (a + s) v fz)
    else if p =? a + s then nth a v fz -f tmul i (nth (a + s) v fz)
    else nth p v fz.
Proof.
  intros Hs Hl. unfold bfly, tmul, butterfly, butterfly_twiddle, FFT.vget.
  destruct (i =? 0); rewrite !nth_lupd, !lupd_length;
    repeat match goal with
    | |- context [?x =? ?y] => destruct (Nat.eqb_spec x y); try lia
    | |- context [?x <? ?y] => destruct (Nat.ltb_spec x y); try lia
    end; cbn [andb]; subst; reflexivity.
Qed.

(* ---------------------------------------------------------------- inner loop: for j in off..off+count *)
Definition inner (i : nat) (v : list F) (off s count : nat) : list F :=
  fold_left (fun v j => bfly i v j s) (seq off count) v.

Lemma inner_spec i s off : forall count v,
  0 < s -> count <= s -> off + s + count <= length v ->
  length (inner i v off s count) = length v /\
  forall p, nth p (inner i v off s count) fz =
    if in_rng off count p then nth p v fz +f tmul i (nth (p + s) v fz)
    else if in_rng (off + s) count p then nth (p - s) v fz -f tmul i (nth p v fz)
    else nth p v fz.
Proof.
  induction count as [|c IH]; intros v Hs Hc Hl.
  - cbn. split; [reflexivity|]. intros p.
    destruct (in_rng off 0 p) eqn:E1; [rng; lia|].
    destruct (in_rng (off + s) 0 p) eqn:E2; [rng; lia|]. reflexivity.
  - unfold inner. rewrite seq_S, fold_left_app. cbn [fold_left].
    fold (inner i v off s c).
    destruct (IH v Hs ltac:(lia) ltac:(lia)) as [IHl IHn].
    split; [rewrite bfly_length; exact IHl|].
    intros p. rewrite bfly_nth by (rewrite ?IHl; lia).
    rewrite !IHn.
    assert (A1 : in_rng off c (off + c) = false) by (apply in_rng_false; lia).
    assert (A2 : in_rng (off + s) c (off + c) = false) by (apply in_rng_false; lia).
    assert (A3 : in_rng off c (off + c + s) = false) by (apply in_rng_false; lia).
    assert (A4 : in_rng (off + s) c (off + c + s) = false) by (apply in_rng_false; lia).
    rewrite A1, A2, A3, A4.
    destruct (Nat.eqb_spec p (off + c)) as [->|Hp1].
    + assert (B1 : in_rng off (S c) (off + c) = true) by (apply in_rng_spec; lia).
      rewrite B1. reflexivity.
    + destruct (Nat.eqb_spec p (off + c + s)) as [->|Hp2].
      * assert (B1 : in_rng off (S c) (off + c + s) = false) by (apply in_rng_false; lia).
        assert (B2 : in_rng (off + s) (S c) (off + c + s) = true) by (apply in_rng_spec; lia).
        rewrite B1, B2. replace (off + c + s - s) with (off + c) by lia. reflexivity.
      * destruct (in_rng off c p) eqn:E1.
        { assert (B1 : in_rng off (S c) p = true) by (rng; apply in_rng_spec; lia).
          rewrite B1. reflexivity. }
        assert (B1 : in_rng off (S c) p = false) by (rng; apply in_rng_false; lia).
        rewrite B1.
        destruct (in_rng (off + s) c p) eqn:E2.
        { assert (B2 : in_rng (off + s) (S c) p = true) by (rng; apply in_rng_spec; lia).
          rewrite B2. reflexivity. }
        assert (B2 : in_rng (off + s) (S c) p = false) by (rng; apply in_rng_false; lia).
        rewrite B2. reflexivity.
Qed.

(* ---------------------------------------------------------------- outer loop: blocks i = 0 .. m-1 of width 2*stride *)
Definition outer (v : list F) (offset s count m : nat) : list F :=
  fold_left (fun v i => inner i v (offset + i * (2 * s)) s count) (seq 0 m) v.

Lemma outer_spec offset s count M : forall m v,
  0 < s -> offset + count <= s -> length v = (2 * s) * M -> m <= M ->
  length (outer v offset s count m) = length v /\
  (forall p, (2 * s) * m <= p -> nth p (outer v offset s count m) fz = nth p v fz) /\
  (forall i j, i < m -> j < s ->
     nth (j + (2 * s) * i) (outer v offset s count m) fz =
       (if in_rng offset count j
        then nth (j + (2 * s) * i) v fz +f tmul i (nth (j + (2 * s) * i + s) v fz)
        else nth (j + (2 * s) * i) v fz) /\
     nth (j + (2 * s) * i + s) (outer v offset s count m) fz =
       (if in_rng offset count j
        then nth (j + (2 * s) * i) v fz -f tmul i (nth (j + (2 * s) * i + s) v fz)
        else nth (j + (2 * s) * i + s) v fz)).
Proof.
  induction m as [|m IH]; intros v Hs Hoc Hl Hm.
  - cbn. split; [reflexivity|]. split; [reflexivity|]. intros; lia.
  - unfold outer. rewrite seq_S, fold_left_app. cbn [fold_left Nat.add].
    fold (outer v offset s count m).
    destruct (IH v Hs Hoc Hl ltac:(lia)) as (IHl & IHhi & IHlo).
    set (v' := outer v offset s count m) in *.
    set (D := 2 * s) in *.
    assert (HDm : D * m + D <= D * M).
    { replace (D * m + D) with (D * S m) by lia. apply Nat.mul_le_mono_l. lia. }
    replace (m * D) with (D * m) by lia.
    destruct (inner_spec m s (offset + D * m) count v' Hs ltac:(lia) ltac:(rewrite IHl, Hl; lia)) as [Il In].
    split; [rewrite Il; exact IHl|].
    split.
    + intros p Hp. rewrite In.
      assert (A1 : in_rng (offset + D * m) count p = false) by (apply in_rng_false; lia).
      assert (A2 : in_rng (offset + D * m + s) count p = false) by (apply in_rng_false; lia).
      rewrite A1, A2. apply IHhi. lia.
    + intros i j Hi Hj.
      assert (Hi' : i < m \/ i = m) by lia. destruct Hi' as [Hi'| ->].
      * assert (HDi : D * i + D <= D * m).
        { replace (D * i + D) with (D * S i) by lia. apply Nat.mul_le_mono_l. lia. }
        rewrite !In.
        assert (A1 : in_rng (offset + D * m) count (j + D * i) = false) by (apply in_rng_false; lia).
        assert (A2 : in_rng (offset + D * m + s) count (j + D * i) = false) by (apply in_rng_false; lia).
        assert (A3 : in_rng (offset + D * m) count (j + D * i + s) = false) by (apply in_rng_false; lia).
        assert (A4 : in_rng (offset + D * m + s) count (j + D * i + s) = false) by (apply in_rng_false; lia).
        rewrite A1, A2, A3, A4. apply IHlo; assumption.
      * rewrite !In.
        rewrite !(IHhi (j + D * m)), !(IHhi (j + D * m + s)) by lia.
        destruct (in_rng offset count j) eqn:Ej.
        { assert (A1 : in_rng (offset + D * m) count (j + D * m) = true) by (rng; apply in_rng_spec; lia).
          assert (A3 : in_rng (offset + D * m) count (j + D * m + s) = false) by (rng; apply in_rng_false; lia).
          assert (A4 : in_rng (offset + D * m + s) count (j + D * m + s) = true) by (rng; apply in_rng_spec; lia).
          rewrite A1, A3, A4.
          replace (j + D * m + s - s) with (j + D * m) by lia.
          rewrite ?(IHhi (j + D * m)), ?(IHhi (j + D * m + s)) by lia.
          split; reflexivity. }
        assert (A1 : in_rng (offset + D * m) count (j + D * m) = false) by (rng; apply in_rng_false; lia).
        assert (A2 : in_rng (offset + D * m + s) count (j + D * m) = false) by (rng; apply in_rng_false; lia).
        assert (A3 : in_rng (offset + D * m) count (j + D * m + s) = false) by (rng; apply in_rng_false; lia).
        assert (A4 : in_rng (offset + D * m + s) count (j + D * m + s) = false) by (rng; apply in_rng_false; lia).
        rewrite A1, A2, A3, A4. split; reflexivity.
Qed.

(* ---------------------------------------------------------------- list-level bit-reversed FFT with the code's formulas *)
Fixpoint bf_list (c : nat) (E Od : list F) : list F :=
  match E, Od with
  | e :: E', o :: O' => (e +f tmul c o) :: (e -f tmul c o) :: bf_list (S c) E' O'
  | _, _ => []
  end.

Fixpoint brfft (k : nat) (l : list F) : list F :=
  match k with
  | 0 => l
  | S k' => bf_list 0 (brfft k' (fst (split_eo l))) (brfft k' (snd (split_eo l)))
  end.

Lemma bf_list_length : forall E Od c, length E = length Od -> length (bf_list c E Od) = 2 * length E.
Proof.
  induction E as [|e E IH]; destruct Od; cbn [bf_list length]; intros; try lia.
  rewrite (IH Od (S c)) by lia. lia.
Qed.

Lemma bf_list_nth : forall E Od c i, length E = length Od -> i < length E ->
  nth (2 * i) (bf_list c E Od) fz = nth i E fz +f tmul (c + i) (nth i Od fz) /\
  nth (2 * i + 1) (bf_list c E Od) fz = nth i E fz -f tmul (c + i) (nth i Od fz).
Proof.
  induction E as [|e E IH]; destruct Od as [|o Od]; cbn [length]; intros c i Hl Hi; try lia.
  destruct i as [|i].
  - cbn. rewrite Nat.add_0_r. auto.
  - replace (2 * S i) with (S (S (2 * i))) by lia.
    replace (S (S (2 * i)) + 1) with (S (S (2 * i + 1))) by lia.
    cbn [bf_list nth]. replace (c + S i) with (S c + i) by lia.
    apply IH; lia.
Qed.

Lemma brfft_length : forall k l, length l = 2 ^ k -> length (brfft k l) = 2 ^ k.
Proof.
  induction k as [|k IH]; intros l Hl; [exact Hl|].
  cbn [brfft]. destruct (split_eo_length (2 ^ k) l) as [He Ho]; [rewrite Hl; cbn; lia|].
  rewrite bf_list_length by (rewrite !IH; auto).
  rewrite IH by exact He. cbn. lia.
Qed.

(* strided subsequence *)
Definition sub (v : list F) (j s m : nat) : list F := map (fun q => nth (j + s * q) v fz) (seq 0 m).

Lemma sub_length v j s m : length (sub v j s m) = m.
Proof. unfold sub. rewrite map_length, seq_length. reflexivity. Qed.

Lemma sub_nth v j s m q : q < m -> nth q (sub v j s m) fz = nth (j + s * q) v fz.
Proof.
  intros Hq. unfold sub.
  rewrite (nth_indep _ fz ((fun q => nth (j + s * q) v fz) 0)) by (rewrite map_length, seq_length; exact Hq).
  rewrite (map_nth (fun q => nth (j + s * q) v fz)), seq_nth by exact Hq. reflexivity.
Qed.

Lemma split_eo_sub v j s m :
  fst (split_eo (sub v j s (2 * m))) = sub v j (2 * s) m /\
  snd (split_eo (sub v j s (2 * m))) = sub v (j + s) (2 * s) m.
Proof.
  destruct (split_eo_length m (sub v j s (2 * m))) as [He Ho]; [apply sub_length|].
  split; apply nth_ext with (d := fz) (d' := fz); rewrite ?He, ?Ho, ?sub_length; auto; intros i Hi.
  - destruct (split_eo_nth fz (sub v j s (2 * m)) i) as [H1 _]. rewrite H1.
    rewrite !sub_nth by lia. f_equal. lia.
  - destruct (split_eo_nth fz (sub v j s (2 * m)) i) as [_ H2]. rewrite H2.
    rewrite !sub_nth by lia. f_equal. lia.
Qed.

(* postcondition of a call with stride s: every subsequence j in [offset, offset+count) transformed, rest untouched *)
Definition post (K : nat) (v v' : list F) (offset count s : nat) : Prop :=
  length v' = length v /\
  forall j q, j < s -> q < 2 ^ K ->
    nth (j + s * q) v' fz =
      if in_rng offset count j then nth q (brfft K (sub v j s (2 ^ K))) fz else nth (j + s * q) v fz.

(* state after the recursive call(s): stride 2s, the even (j) and odd (j+s) subsequences are transformed *)
Definition post1 (K : nat) (v v1 : list F) (offset count s : nat) : Prop :=
  length v1 = length v /\
  forall j q, j < 2 * s -> q < 2 ^ K ->
    nth (j + (2 * s) * q) v1 fz =
      if in_rng offset count j || in_rng (offset + s) count j
      then nth q (brfft K (sub v j (2 * s) (2 ^ K))) fz else nth (j + (2 * s) * q) v fz.

Lemma phase2 K v v1 offset count s :
  0 < s -> offset + count <= s -> length v = 2 ^ S K * s ->
  post1 K v v1 offset count s ->
  post (S K) v (outer v1 offset s count (2 ^ K)) offset count s.
Proof.
  intros Hs Hoc Hl [L1 N1].
  assert (Hl1 : length v1 = (2 * s) * 2 ^ K) by (rewrite L1, Hl, pow2_S; lia).
  destruct (outer_spec offset s count (2 ^ K) (2 ^ K) v1 Hs Hoc Hl1 (le_n _)) as (Lo & _ & No).
  split; [rewrite Lo; exact L1|].
  intros j q Hj Hq.
  assert (Hsub := split_eo_sub v j s (2 ^ K)).
  change (2 * 2 ^ K) with (2 ^ S K) in Hsub. destruct Hsub as [Hse Hso].
  assert (HlenE : length (brfft K (sub v j (2 * s) (2 ^ K))) = 2 ^ K) by (apply brfft_length, sub_length).
  assert (HlenO : length (brfft K (sub v (j + s) (2 * s) (2 ^ K))) = 2 ^ K) by (apply brfft_length, sub_length).
  assert (Hodd2 : in_rng offset count (j + s) = false) by (apply in_rng_false; lia).
  assert (Hev2 : in_rng (offset + s) count j = false) by (apply in_rng_false; lia).
  destruct (Nat.Even_or_Odd q) as [[i ->]|[i ->]].
  - assert (Hi : i < 2 ^ K) by (rewrite pow2_S in Hq; lia).
    replace (j + s * (2 * i)) with (j + (2 * s) * i) by lia.
    destruct (No i j Hi Hj) as [Na _]. rewrite Na.
    destruct (in_rng offset count j) eqn:Ej.
    + cbn [brfft]. rewrite Hse, Hso.
      destruct (bf_list_nth _ _ 0 i (eq_trans HlenE (eq_sym HlenO)) ltac:(rewrite HlenE; exact Hi)) as [B _].
      rewrite B. cbn [Nat.add].
      rewrite (N1 j i) by lia. rewrite Ej. cbn [orb].
      replace (j + (2 * s) * i + s) with ((j + s) + (2 * s) * i) by lia.
      rewrite (N1 (j + s) i) by lia.
      assert (E2 : in_rng (offset + s) count (j + s) = true) by (rng; apply in_rng_spec; lia).
      rewrite Hodd2, E2. cbn [orb]. reflexivity.
    + rewrite (N1 j i) by lia. rewrite Ej, Hev2. cbn [orb]. reflexivity.
  - assert (Hi : i < 2 ^ K) by (rewrite pow2_S in Hq; lia).
    replace (j + s * (2 * i + 1)) with (j + (2 * s) * i + s) by lia.
    destruct (No i j Hi Hj) as [_ Nb]. rewrite Nb.
    destruct (in_rng offset count j) eqn:Ej.
    + cbn [brfft]. rewrite Hse, Hso.
      destruct (bf_list_nth _ _ 0 i (eq_trans HlenE (eq_sym HlenO)) ltac:(rewrite HlenE; exact Hi)) as [_ B].
      rewrite B. cbn [Nat.add].
      rewrite (N1 j i) by lia. rewrite Ej. cbn [orb].
      replace (j + (2 * s) * i + s) with ((j + s) + (2 * s) * i) by lia.
      rewrite (N1 (j + s) i) by lia.
      assert (E2 : in_rng (offset + s) count (j + s) = true) by (rng; apply in_rng_spec; lia).
      rewrite Hodd2, E2. cbn [orb]. reflexivity.
    + replace (j + (2 * s) * i + s) with ((j + s) + (2 * s) * i) by lia.
      rewrite (N1 (j + s) i) by lia.
      assert (E2 : in_rng (offset + s) count (j + s) = false) by (rng; apply in_rng_false; lia).
      rewrite Hodd2, E2. cbn [orb]. reflexivity.
Qed.

(* the two loops of the code are `outer` *)
Lemma phase2_code v1 offset s count n : 0 < n ->
  fold_left
    (fun v i => fold_left (fun v j => butterfly_twiddle O v (vget tw i) j s)
                          (seq (offset + i * (2 * s)) count) v)
    (seq 1 (n - 1))
    (fold_left (fun v o => butterfly O v o s) (seq offset count) v1)
  = outer v1 offset s count n.
Proof.
  intros Hn. unfold outer. destruct n as [|n]; [lia|].
  replace (S n - 1) with n by lia. cbn [seq fold_left].
  assert (HA : fold_left (fun v o => butterfly O v o s) (seq offset count) v1
               = inner 0 v1 (offset + 0 * (2 * s)) s count).
  { unfold inner, bfly. rewrite Nat.mul_0_l, Nat.add_0_r. reflexivity. }
  rewrite HA. apply fold_left_ext_in. intros a i Hi. apply in_seq in Hi.
  unfold inner. apply fold_left_ext_in. intros a' j _. unfold bfly.
  destruct (Nat.eqb_spec i 0); [lia | reflexivity].
Qed.

Lemma fft_in_place_eq fuel v count s offset :
  fft_in_place O fuel v tw count s offset =
    let size := length v / s in
    let v1 :=
      if 2 <? size then
        match fuel with
        | 0 => v
        | S f => if (s =? count) && (count <? MAX_LOOP)
                 then fft_in_place O f v tw (2 * count) (2 * s) offset
                 else fft_in_place O f (fft_in_place O f v tw count (2 * s) offset) tw count (2 * s) (offset + s)
        end
      else v in
    fold_left
      (fun v i => fold_left (fun v j => butterfly_twiddle O v (vget tw i) j s)
                            (seq (offset + i * (2 * s)) count) v)
      (seq 1 ((size + 1) / 2 - 1))
      (fold_left (fun v o => butterfly O v o s) (seq offset count) v1).
Proof. destruct fuel; reflexivity. Qed.

Lemma half_pow2 K : (2 ^ S K + 1) / 2 = 2 ^ K.
Proof. symmetry. apply Nat.div_unique with 1; [lia | cbn; lia]. Qed.

(* ---------------------------------------------------------------- (c) the invariant of fft_in_place, every K *)
Theorem fft_in_place_spec : forall K fuel v count s offset,
  K <= fuel -> 0 < s -> length v = 2 ^ S K * s -> offset + count <= s ->
  post (S K) v (fft_in_place O fuel v tw count s offset) offset count s.
Proof.
  induction K as [|K IH]; intros fuel v count s offset Hf Hs Hl Hoc;
    rewrite fft_in_place_eq; cbv zeta; rewrite Hl, Nat.div_mul by lia; rewrite half_pow2, phase2_code by apply pow2_pos.
  - change (2 <? 2 ^ 1) with false. cbv iota.
    apply phase2; auto. split; [reflexivity|].
    intros j q Hj Hq. cbn in Hq. assert (q = 0) by lia. subst q.
    destruct (in_rng offset count j || in_rng (offset + s) count j); [|reflexivity].
    cbn [brfft]. rewrite sub_nth by (cbn; lia). reflexivity.
  - assert (H2 : 2 <? 2 ^ S (S K) = true).
    { apply Nat.ltb_lt. pose proof (pow2_pos K). cbn. lia. }
    rewrite H2. destruct fuel as [|f]; [lia|].
    assert (Hl2 : length v = 2 ^ S K * (2 * s)) by (rewrite Hl, (pow2_S (S K)); lia).
    apply phase2; auto.
    destruct ((s =? count) && (count <? MAX_LOOP)) eqn:Estr.
    + (* first strategy: one call on 2*count interleaved sub-transforms *)
      apply andb_prop in Estr. destruct Estr as [Esc _]. apply Nat.eqb_eq in Esc. subst count.
      assert (offset = 0) by lia. subst offset.
      destruct (IH f v (2 * s) (2 * s) 0 ltac:(lia) ltac:(lia) Hl2 ltac:(lia)) as [La Na].
      split; [exact La|]. intros j q Hj Hq. rewrite (Na j q Hj Hq).
      assert (Eb : in_rng 0 (2 * s) j = in_rng 0 s j || in_rng (0 + s) s j).
      { destruct (in_rng 0 s j) eqn:E1; destruct (in_rng (0 + s) s j) eqn:E2; cbn [orb]; rng;
          try (apply in_rng_spec; lia); apply in_rng_false; lia. }
      rewrite Eb. reflexivity.
    + (* second strategy: two calls, offsets offset and offset + stride *)
      destruct (IH f v count (2 * s) offset ltac:(lia) ltac:(lia) Hl2 ltac:(lia)) as [La Na].
      set (va := fft_in_place O f v tw count (2 * s) offset) in *.
      destruct (IH f va count (2 * s) (offset + s) ltac:(lia) ltac:(lia) ltac:(rewrite La; exact Hl2) ltac:(lia))
        as [Lb Nb].
      split; [rewrite Lb; exact La|]. intros j q Hj Hq. rewrite (Nb j q Hj Hq).
      destruct (in_rng (offset + s) count j) eqn:E2.
      * assert (E1 : in_rng offset count j = false) by (rng; apply in_rng_false; lia).
        rewrite E1. cbn [orb]. f_equal. f_equal. unfold sub. apply map_ext_in. intros q' Hq'.
        apply in_seq in Hq'. rewrite (Na j q') by lia. rewrite E1. reflexivity.
      * rewrite orb_false_r. apply Na; assumption.
Qed.

Lemma sub_whole v n : length v = n -> sub v 0 1 n = v.
Proof.
  intros Hn. apply nth_ext with (d := fz) (d' := fz); [rewrite sub_length; auto|].
  rewrite sub_length. intros i Hi. rewrite sub_nth by exact Hi. f_equal. lia.
Qed.

(* FftInputs::fft_in_place(values, twiddles) = the list-level bit-reversed FFT, every K *)
Theorem fft_in_place_top_brfft : forall K v, length v = 2 ^ S K -> fft_in_place_top O v tw = brfft (S K) v.
Proof.
  intros K v Hl. unfold fft_in_place_top.
  assert (HK : K <= length v).
  { rewrite Hl. pose proof (Nat.pow_gt_lin_r 2 (S K)). lia. }
  destruct (fft_in_place_spec K (length v) v 1 1 0 HK ltac:(lia) ltac:(lia) ltac:(lia)) as [L N].
  apply nth_ext with (d := fz) (d' := fz).
  - rewrite L, brfft_length; auto.
  - rewrite L. intros q Hq. rewrite Hl in Hq. specialize (N 0 q ltac:(lia) Hq).
    replace (0 + 1 * q) with q in N by lia. rewrite N.
    assert (E : in_rng 0 1 0 = true) by reflexivity. rewrite E, sub_whole by exact Hl. reflexivity.
Qed.

End Refine.
