(* C15 — end-to-end completeness over the quadratic extension fields: the FRI domain lives in the base field and is
   embedded (E::from); the root-of-unity family facts and offset <> 0 are transported through the embedding, which is
   an injective ring homomorphism (C08: ExtModel.q_embed_hom), instead of being recomputed.  stdlib style. *)
From Coq Require Import List ZArith Lia.
From VBase Require Import FieldOps ZpOps.
From VModel Require Import ExtField Merkle Fri FriMerkle.
From VProofs Require Import ZpLaws ExtModel ExtConcrete FriCoset FriComplete FriMerkleInst FriFields.
Import ListNotations.
Local Open Scope nat_scope.

Section Quad.
Context {F : Type} (O : FOps F) (L : FLaws O) (I : Ext2Impl F) (c : F) (IC : Ext2Correct O I c).
Variable rou : nat -> F.
Variable K : nat.
Hypothesis rou_sq : forall k, k < K -> fmul O (rou (S k)) (rou (S k)) = rou k.
Hypothesis rou_1 : rou 1 = fneg O (fone O).
Hypothesis two_nz : fadd O (fone O) (fone O) <> fzero O.
Variable gen : F.
Hypothesis gen_nz : gen <> fzero O.

Local Notation Q := (q_ops O I).
Local Notation emb := (q_from_base O).

Lemma emb_rou_sq : forall k, k < K -> fmul Q (emb (rou (S k))) (emb (rou (S k))) = emb (rou k).
Proof.
  intros k Hk. destruct (q_embed_hom O L I c IC) as [_ [_ [_ [_ [_ [Hm _]]]]]].
  cbn [q_ops fmul]. rewrite <- Hm. f_equal. now apply rou_sq.
Qed.

Lemma emb_rou_1 : emb (rou 1) = fneg Q (fone Q).
Proof.
  destruct (q_embed_hom O L I c IC) as [_ [H1 [_ [_ [Hn _]]]]].
  cbn [q_ops fneg fone]. rewrite rou_1, Hn, H1. reflexivity.
Qed.

Lemma emb_two_nz : fadd Q (fone Q) (fone Q) <> fzero Q.
Proof.
  destruct (q_embed_hom O L I c IC) as [H0 [H1 [Ha [_ [_ [_ Hinj]]]]]].
  cbn [q_ops fadd fone fzero]. rewrite <- H1, <- Ha, <- H0. intros H. apply Hinj in H. contradiction.
Qed.

Lemma emb_gen_nz : emb gen <> fzero Q.
Proof.
  destruct (q_embed_hom O L I c IC) as [H0 [_ [_ [_ [_ [_ Hinj]]]]]].
  cbn [q_ops fzero]. rewrite <- H0. intros H. apply Hinj in H. contradiction.
Qed.
End Quad.

Section Fields.
Variable dbg : bool.
Variable D : Type.
Variable D_eqb : D -> D -> bool.
Hypothesis D_eqb_spec : forall a b, D_eqb a b = true <-> a = b.
Variable d0 : D.
Variable merge : D -> D -> D.
Variable CS : Type.
Variable cs_reseed : CS -> D -> CS.

Definition Q64 : FOps (Zp P64 * Zp P64) := q_ops F64_ops (f64_x2 F64_ops).
Definition Q128 : FOps (Zp P128 * Zp P128) := q_ops F128_ops (f128_x2 F128_ops).
Definition rouQ64 (k : nat) := q_from_base F64_ops (rouF64 k).
Definition rouQ128 (k : nat) := q_from_base F128_ops (rouF128 k).
Definition genQ64 := q_from_base F64_ops genF64.
Definition genQ128 := q_from_base F128_ops genF128.

Definition fri_complete_f64_quad (hash_elements : list (Zp P64 * Zp P64) -> D) (cs_draw : CS -> CS * draw_res (Zp P64 * Zp P64))
  (draw_total : forall c, exists c' a, cs_draw c = (c', DrawOk a)) :=
  fri_complete_merkle D D_eqb D_eqb_spec d0 merge Q64 f64_quad_laws rouQ64 32 ltac:(lia)
    (emb_rou_sq F64_ops F64_laws _ _ (f64_x2_correct F64_ops F64_laws) rouF64 32 rouF64_sq)
    (emb_rou_1 F64_ops F64_laws _ _ (f64_x2_correct F64_ops F64_laws) rouF64 rouF64_1)
    (emb_two_nz F64_ops F64_laws _ _ (f64_x2_correct F64_ops F64_laws) twoF64)
    genQ64 (emb_gen_nz F64_ops F64_laws _ _ (f64_x2_correct F64_ops F64_laws) genF64 genF64_nz)
    dbg hash_elements CS cs_reseed cs_draw draw_total.

Definition fri_complete_f128_quad (hash_elements : list (Zp P128 * Zp P128) -> D) (cs_draw : CS -> CS * draw_res (Zp P128 * Zp P128))
  (draw_total : forall c, exists c' a, cs_draw c = (c', DrawOk a)) :=
  fri_complete_merkle D D_eqb D_eqb_spec d0 merge Q128 f128_quad_laws rouQ128 40 ltac:(lia)
    (emb_rou_sq F128_ops F128_laws _ _ (f128_x2_correct F128_ops F128_laws) rouF128 40 rouF128_sq)
    (emb_rou_1 F128_ops F128_laws _ _ (f128_x2_correct F128_ops F128_laws) rouF128 rouF128_1)
    (emb_two_nz F128_ops F128_laws _ _ (f128_x2_correct F128_ops F128_laws) twoF128)
    genQ128 (emb_gen_nz F128_ops F128_laws _ _ (f128_x2_correct F128_ops F128_laws) genF128 genF128_nz)
    dbg hash_elements CS cs_reseed cs_draw draw_total.
End Fields.
