(* C13 — generic facts about the provided (default) methods of ByteReader:
     * [sim_step]: two readers whose required methods are in simulation are in simulation for every provided method;
     * [safe_step]: an invariant preserved by the required methods, none of which aborts, is preserved by every provided
       method and none aborts;
     * [spec_reader]: the list semantics of a byte reader, and SliceReader's simulation by it.
   stdlib style. *)
From VBase Require Import MachInt.
From VModel Require Import ReadAdapter.
Local Open Scope nat_scope.

(* ---------------------------------------------------------------- list helpers *)
Lemma skipn_skipn' : forall (A : Type) (n m : nat) (l : list A), skipn n (skipn m l) = skipn (m + n) l.
Proof.
  intros A n m. revert n. induction m as [|m IH]; intros n l; simpl.
  - reflexivity.
  - destruct l as [|a l]; simpl.
    + now rewrite skipn_nil.
    + apply IH.
Qed.

Lemma skipn_cons_inv : forall (A : Type) (p : nat) (l : list A) b t,
  skipn p l = b :: t -> p < length l /\ skipn (S p) l = t /\ nth_error l p = Some b.
Proof.
  intros A p. induction p as [|p IH]; intros l b t H; destruct l as [|a l]; simpl in *; try discriminate.
  - inversion H; subst. repeat split; auto. lia.
  - destruct (IH _ _ _ H) as (H1 & H2 & H3). repeat split; auto. lia.
Qed.

Lemma skipn_nil_inv : forall (A : Type) (p : nat) (l : list A), skipn p l = [] -> length l <= p.
Proof.
  intros A p l H. pose proof (skipn_length p l) as HL. rewrite H in HL. simpl in HL. lia.
Qed.

Lemma take_app : forall (A : Type) (n : nat) (a x : list A), n <= length a ->
  firstn n (a ++ x) = firstn n a /\ skipn n (a ++ x) = skipn n a ++ x.
Proof.
  intros A n a x H. rewrite firstn_app, skipn_app.
  replace (n - length a) with 0 by lia. simpl. now rewrite app_nil_r.
Qed.

Lemma take_app_ge : forall (A : Type) (n : nat) (a x : list A), length a <= n ->
  firstn n (a ++ x) = a ++ firstn (n - length a) x /\ skipn n (a ++ x) = skipn (n - length a) x.
Proof.
  intros A n a x H. rewrite firstn_app, skipn_app.
  rewrite firstn_all2 by lia. rewrite skipn_all2 by lia. now simpl.
Qed.

Lemma tz_le : forall k b, tz k b <= k.
Proof. induction k; intros b; simpl; [lia|]. destruct (Z.odd b); [lia|]. specialize (IHk (b / 2)%Z). lia. Qed.

(* ---------------------------------------------------------------- argument bound of an operation *)
Definition op_arg (o : op) : nat :=
  match o with
  | ReadSlice n | ReadArray n | ReadVec n | ReadString n | CheckEor n => n
  | _ => 0
  end.

Definition is_eor (o : op) : bool := match o with CheckEor _ => true | _ => false end.

(* ---------------------------------------------------------------- binary simulation *)
Section Sim.
  Variables S1 S2 : Type.
  Variable R1 : reader S1.
  Variable R2 : reader S2.
  Variable rel : S1 -> S2 -> Prop.
  Variable utf8 : list byte -> bool.
  Variable B : nat.

  Definition sim {A : Type} (m1 : S1 -> outcome A * S1) (m2 : S2 -> outcome A * S2) : Prop :=
    forall s1 s2, rel s1 s2 -> fst (m1 s1) = fst (m2 s2) /\ rel (snd (m1 s1)) (snd (m2 s2)).

  Lemma sim_bind : forall (A C : Type) m1 m2 (f1 : A -> S1 -> outcome C * S1) f2,
    sim m1 m2 -> (forall a, sim (f1 a) (f2 a)) -> sim (bind m1 f1) (bind m2 f2).
  Proof.
    intros A C m1 m2 f1 f2 Hm Hf s1 s2 Hr. unfold bind.
    destruct (Hm s1 s2 Hr) as [He Hr'].
    destruct (m1 s1) as [r1 t1], (m2 s2) as [r2 t2]; simpl in *; subst r2.
    destruct r1; simpl; auto. apply Hf; assumption.
  Qed.

  Lemma sim_ret : forall (A : Type) (a : A), sim (ret a) (ret a).
  Proof. intros A a s1 s2 H; simpl; auto. Qed.
  Lemma sim_fail : forall (A : Type) e, sim (@fail S1 A e) (@fail S2 A e).
  Proof. intros A e s1 s2 H; simpl; auto. Qed.

  Hypothesis HB : 16 <= B.
  Hypothesis H_u8 : sim (r_u8 R1) (r_u8 R2).
  Hypothesis H_peek : sim (r_peek R1) (r_peek R2).
  Hypothesis H_slice : forall n, n <= B -> sim (r_slice R1 n) (r_slice R2 n).
  Hypothesis H_array : forall n, n <= B -> sim (r_array R1 n) (r_array R2 n).
  Hypothesis H_more : forall s1 s2, rel s1 s2 ->
    fst (r_more R1 s1) = fst (r_more R2 s2) /\ rel (snd (r_more R1 s1)) (snd (r_more R2 s2)).

  Lemma sim_read_le : forall n, n <= B -> sim (read_le S1 R1 n) (read_le S2 R2 n).
  Proof. intros n Hn. unfold read_le. apply sim_bind; [now apply H_array|]. intros; apply sim_ret. Qed.

  Lemma sim_read_usize : sim (read_usize S1 R1) (read_usize S2 R2).
  Proof.
    unfold read_usize. apply sim_bind; [exact H_peek|]. intros first.
    pose proof (tz_le 8 first) as Htz.
    destruct (tz 8 first + 1 =? 9).
    - apply sim_bind; [exact H_u8|]. intros _. apply sim_bind; [apply H_array; lia|]. intros; apply sim_ret.
    - apply sim_bind; [apply H_slice; lia|]. intros; apply sim_ret.
  Qed.

  Lemma sim_read_elt : forall k, sim (read_elt S1 R1 k) (read_elt S2 R2 k).
  Proof.
    destruct k; simpl; try exact H_u8; try exact sim_read_usize;
      unfold read_u16, read_u32, read_u64, read_u128; apply sim_read_le; lia.
  Qed.

  Lemma sim_read_many_loop : forall k n acc, sim (read_many_loop S1 R1 k n acc) (read_many_loop S2 R2 k n acc).
  Proof.
    intros k n. induction n as [|n IH]; intros acc; simpl.
    - apply sim_ret.
    - apply sim_bind; [apply sim_read_elt|]. intros v. apply IH.
  Qed.

  Lemma sim_vmap : forall (A : Type) (f : A -> value) m1 m2, sim m1 m2 -> sim (vmap S1 f m1) (vmap S2 f m2).
  Proof. intros A f m1 m2 H. unfold vmap. apply sim_bind; [exact H|]. intros; apply sim_ret. Qed.

  (* every operation except check_eor (whose required method is allowed to differ) *)
  Lemma sim_step : forall o, op_arg o <= B -> is_eor o = false -> sim (step R1 utf8 o) (step R2 utf8 o).
  Proof.
    intros o Ho He. destruct o; simpl in Ho, He; try discriminate; unfold step.
    - apply sim_vmap, H_u8.
    - apply sim_vmap, H_peek.
    - apply sim_vmap. unfold read_bool. apply sim_bind; [exact H_u8|]. intros b.
      destruct (b =? 0)%Z; [apply sim_ret|]. destruct (b =? 1)%Z; [apply sim_ret|apply sim_fail].
    - apply sim_vmap, sim_read_le; lia.
    - apply sim_vmap, sim_read_le; lia.
    - apply sim_vmap, sim_read_le; lia.
    - apply sim_vmap, sim_read_le; lia.
    - apply sim_vmap, sim_read_usize.
    - apply sim_vmap, H_slice, Ho.
    - apply sim_vmap, H_array, Ho.
    - apply sim_vmap. unfold read_vec. apply H_slice, Ho.
    - apply sim_vmap. unfold read_string, read_vec. apply sim_bind; [apply H_slice, Ho|]. intros l.
      destruct (utf8 l); [apply sim_ret|apply sim_fail].
    - apply sim_vmap. unfold read_many. apply sim_read_many_loop.
    - intros s1 s2 Hr. destruct (H_more s1 s2 Hr) as [E1 E2].
      destruct (r_more R1 s1), (r_more R2 s2); simpl in *; subst; auto.
  Qed.
End Sim.

(* ---------------------------------------------------------------- unary safety *)
Section Safe.
  Variable S : Type.
  Variable R : reader S.
  Variable P : S -> Prop.
  Variable utf8 : list byte -> bool.

  Definition safe {A : Type} (m : S -> outcome A * S) : Prop :=
    forall s, P s -> aborts (fst (m s)) = false /\ P (snd (m s)).

  Lemma safe_bind : forall (A C : Type) m (f : A -> S -> outcome C * S),
    safe m -> (forall a, safe (f a)) -> safe (bind m f).
  Proof.
    intros A C m f Hm Hf s Hs. unfold bind. destruct (Hm s Hs) as [Ha Hp].
    destruct (m s) as [r t]; simpl in *. destruct r; simpl in *; try discriminate; auto. apply Hf; assumption.
  Qed.
  Lemma safe_ret : forall (A : Type) (a : A), safe (ret a).
  Proof. intros A a s H; simpl; auto. Qed.
  Lemma safe_fail : forall (A : Type) e, safe (@fail S A e).
  Proof. intros A e s H; simpl; auto. Qed.

  Hypothesis H_u8 : safe (r_u8 R).
  Hypothesis H_peek : safe (r_peek R).
  Hypothesis H_slice : forall n, safe (r_slice R n).
  Hypothesis H_array : forall n, safe (r_array R n).
  Hypothesis H_eor : forall n, safe (r_eor R n).
  Hypothesis H_more : forall s, P s -> P (snd (r_more R s)).

  Lemma safe_read_le : forall n, safe (read_le S R n).
  Proof. intros n. unfold read_le. apply safe_bind; [apply H_array|]. intros; apply safe_ret. Qed.

  Lemma safe_read_usize : safe (read_usize S R).
  Proof.
    unfold read_usize. apply safe_bind; [exact H_peek|]. intros first.
    destruct (tz 8 first + 1 =? 9).
    - apply safe_bind; [exact H_u8|]. intros _. apply safe_bind; [apply H_array|]. intros; apply safe_ret.
    - apply safe_bind; [apply H_slice|]. intros; apply safe_ret.
  Qed.

  Lemma safe_read_elt : forall k, safe (read_elt S R k).
  Proof.
    destruct k; simpl; try exact H_u8; try exact safe_read_usize;
      unfold read_u16, read_u32, read_u64, read_u128; apply safe_read_le.
  Qed.

  Lemma safe_read_many_loop : forall k n acc, safe (read_many_loop S R k n acc).
  Proof.
    intros k n. induction n as [|n IH]; intros acc; simpl.
    - apply safe_ret.
    - apply safe_bind; [apply safe_read_elt|]. intros v. apply IH.
  Qed.

  Lemma safe_vmap : forall (A : Type) (f : A -> value) m, safe m -> safe (vmap S f m).
  Proof. intros A f m H. unfold vmap. apply safe_bind; [exact H|]. intros; apply safe_ret. Qed.

  Lemma safe_step : forall o, safe (step R utf8 o).
  Proof.
    intros o. destruct o; unfold step.
    - apply safe_vmap, H_u8.
    - apply safe_vmap, H_peek.
    - apply safe_vmap. unfold read_bool. apply safe_bind; [exact H_u8|]. intros b.
      destruct (b =? 0)%Z; [apply safe_ret|]. destruct (b =? 1)%Z; [apply safe_ret|apply safe_fail].
    - apply safe_vmap, safe_read_le.
    - apply safe_vmap, safe_read_le.
    - apply safe_vmap, safe_read_le.
    - apply safe_vmap, safe_read_le.
    - apply safe_vmap, safe_read_usize.
    - apply safe_vmap, H_slice.
    - apply safe_vmap, H_array.
    - apply safe_vmap. unfold read_vec. apply H_slice.
    - apply safe_vmap. unfold read_string, read_vec. apply safe_bind; [apply H_slice|]. intros l.
      destruct (utf8 l); [apply safe_ret|apply safe_fail].
    - apply safe_vmap. unfold read_many. apply safe_read_many_loop.
    - apply safe_vmap, H_eor.
    - intros s Hs. specialize (H_more s Hs). destruct (r_more R s); simpl in *; auto.
  Qed.

  Lemma safe_run : forall ops s, P s -> Forall (fun r => aborts r = false) (run R utf8 ops s).
  Proof.
    induction ops as [|o ops IH]; intros s Hs; simpl; [constructor|].
    destruct (safe_step o s Hs) as [Ha Hp]. destruct (step R utf8 o s) as [r s']; simpl in *.
    rewrite Ha. constructor; [exact Ha|]. apply IH, Hp.
  Qed.
End Safe.

(* ---------------------------------------------------------------- list semantics of a byte reader *)
Definition sp_u8 (u : list byte) : outcome byte * list byte :=
  match u with [] => (Err EOF, u) | b :: r => (Ok b, r) end.
Definition sp_peek (u : list byte) : outcome byte * list byte :=
  match u with [] => (Err EOF, u) | b :: _ => (Ok b, u) end.
Definition sp_take (n : nat) (u : list byte) : outcome (list byte) * list byte :=
  if n <=? length u then (Ok (firstn n u), skipn n u) else (Err EOF, u).
Definition sp_eor (n : nat) (u : list byte) : outcome unit * list byte :=
  (if n <=? length u then Ok tt else Err EOF, u).
Definition sp_more (u : list byte) : bool * list byte := (negb (is_nil u), u).
Definition spec_reader : reader (list byte) := mkReader _ sp_u8 sp_peek sp_take sp_take sp_eor sp_more.

(* ---------------------------------------------------------------- SliceReader is the list semantics on source[pos..] *)
Definition slice_rel (B : nat) (t : sstate) (u : list byte) : Prop :=
  s_pos t <= length (s_src t) /\ u = skipn (s_pos t) (s_src t) /\
  (Z.of_nat (length (s_src t)) + Z.of_nat B < 2 ^ 64)%Z.

Lemma s_check_spec : forall B n t u, slice_rel B t u -> n <= B ->
  s_check n t = if n <=? length u then Ok tt else Err EOF.
Proof.
  intros B n t u (Hp & Hu & Hb) Hn. unfold s_check.
  change (2 ^ 64)%Z with 18446744073709551616%Z in *.
  destruct (Z.leb_spec 18446744073709551616 (Z.of_nat (s_pos t) + Z.of_nat n)); [lia|].
  subst u. rewrite skipn_length.
  destruct (Nat.ltb_spec (length (s_src t)) (s_pos t + n)); destruct (Nat.leb_spec n (length (s_src t) - s_pos t)); try reflexivity; lia.
Qed.

Lemma slice_take_sim : forall B n, n <= B -> sim sstate (list byte) (slice_rel B) (s_take n) (sp_take n).
Proof.
  intros B n Hn t u Hr. unfold s_take, sp_take. rewrite (s_check_spec B n t u Hr Hn).
  destruct Hr as (Hp & Hu & Hb).
  assert (HL : length u = length (s_src t) - s_pos t) by (subst u; apply skipn_length).
  destruct (Nat.leb_spec n (length u)); simpl.
  - destruct (Nat.leb_spec (s_pos t + n) (length (s_src t))); [|lia]. simpl. subst u. split; [reflexivity|].
    repeat split; simpl; try lia. now rewrite skipn_skipn'.
  - split; [reflexivity|]. repeat split; auto.
Qed.

Lemma slice_u8_sim : forall B, 1 <= B -> sim sstate (list byte) (slice_rel B) s_u8 sp_u8.
Proof.
  intros B HB t u Hr. unfold s_u8, sp_u8. rewrite (s_check_spec B 1 t u Hr HB).
  destruct Hr as (Hp & Hu & Hb). destruct u as [|b r]; simpl.
  - split; [reflexivity|]. repeat split; auto.
  - symmetry in Hu. destruct (skipn_cons_inv _ _ _ _ _ Hu) as (H1 & H2 & H3). rewrite H3. simpl.
    split; [reflexivity|]. repeat split; simpl; try lia. rewrite Nat.add_1_r. now rewrite H2.
Qed.

Lemma slice_peek_sim : forall B, 1 <= B -> sim sstate (list byte) (slice_rel B) s_peek sp_peek.
Proof.
  intros B HB t u Hr. unfold s_peek, sp_peek. rewrite (s_check_spec B 1 t u Hr HB).
  destruct Hr as (Hp & Hu & Hb). destruct u as [|b r]; simpl.
  - split; [reflexivity|]. repeat split; auto.
  - symmetry in Hu. destruct (skipn_cons_inv _ _ _ _ _ Hu) as (H1 & H2 & H3). rewrite H3. simpl.
    split; [reflexivity|]. repeat split; simpl; auto.
Qed.

Lemma slice_more_sim : forall B t u, slice_rel B t u ->
  fst (r_more slice_reader t) = fst (sp_more u) /\ slice_rel B (snd (r_more slice_reader t)) (snd (sp_more u)).
Proof.
  intros B t u Hr. simpl. split; [|exact Hr]. destruct Hr as (Hp & Hu & Hb).
  assert (HL : length u = length (s_src t) - s_pos t) by (subst u; apply skipn_length).
  destruct u; simpl in *; destruct (Nat.ltb_spec (s_pos t) (length (s_src t))); auto; lia.
Qed.

Lemma slice_eor_spec : forall B n t u, slice_rel B t u -> n <= B ->
  r_eor slice_reader n t = (fst (sp_eor n u), t).
Proof. intros B n t u Hr Hn. simpl. now rewrite (s_check_spec B n t u Hr Hn). Qed.

(* every operation of the SliceReader is the list semantics *)
Lemma slice_step_spec : forall utf8 B o t u, 16 <= B -> op_arg o <= B -> slice_rel B t u ->
  fst (step slice_reader utf8 o t) = fst (step spec_reader utf8 o u) /\
  slice_rel B (snd (step slice_reader utf8 o t)) (snd (step spec_reader utf8 o u)).
Proof.
  intros utf8 B o t u HB Ho Hr. destruct (is_eor o) eqn:E.
  - destruct o; try discriminate. simpl in Ho. unfold step, vmap, bind, ret.
    rewrite (slice_eor_spec B n t u Hr Ho). simpl. destruct (n <=? length u); simpl; auto.
  - apply (sim_step sstate (list byte) slice_reader spec_reader (slice_rel B) utf8 B); auto.
    + apply slice_u8_sim; lia.
    + apply slice_peek_sim; lia.
    + intros n Hn. apply slice_take_sim, Hn.
    + intros n Hn. apply slice_take_sim, Hn.
    + apply slice_more_sim.
Qed.
