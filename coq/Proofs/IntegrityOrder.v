(* C03 — ordering / binding-structure theorems about the event generator of Model/Integrity.v, for EVERY
   shape (induction over the number of FRI layers, of trace segments and of layers present in the proof).
   stdlib style. *)
From Coq Require Import List Arith Bool Lia.
From VModel Require Import Integrity.
From VProofs Require Import IntegrityOrderBase.
Import ListNotations.

(* ------------------------------------------------------------------------------------------------
   Declarative vocabulary. *)

(* event e feeds component c into the coin *)
Definition absorbs (e : event) (c : comp) : Prop :=
  (exists t, e = Absorb t /\ In c (comps_of t)) \/ (e = DrawPositions /\ c = PowNonce).

(* c is fed into the coin by an event that no DrawPositions precedes: the query positions depend on it *)
Definition absorbed_pre (l : list event) (c : comp) : Prop :=
  exists l1 e l2, l = l1 ++ e :: l2 /\ absorbs e c /\ ~ In DrawPositions l1.

(* the rows of c are hashed into leaves, later authenticated against a commitment [root] which the positions depend on *)
Definition auth_bound (l : list event) (c : comp) : Prop :=
  exists n p root l1 l2 l3, l = l1 ++ HashLeaves c n :: l2 ++ AuthCheck c p root :: l3 /\ absorbed_pre l root.

Definition bound1 (l : list event) (c : comp) : Prop := absorbed_pre l c \/ auth_bound l c.

(* c is determined (CkRemainderCommit: up to a collision of hash_elements) by components that are bound *)
Definition cmp_bound (l : list event) (c : comp) : Prop :=
  exists k rhs, In (Compare k [c] rhs) l /\ injective_kind k = true /\ Forall (bound1 l) rhs.

Definition bound (l : list event) (c : comp) : Prop := bound1 l c \/ cmp_bound l c.

(* c takes part in the run at all *)
Definition consumed (l : list event) (c : comp) : Prop :=
  In (Use c) l \/ (exists r root, In (AuthCheck r c root) l) \/ (exists e, In e l /\ absorbs e c)
  \/ (exists k rhs, In (Compare k [c] rhs) l).

(* ------------------------------------------------------------------------------------------------
   Generic list facts. *)
Lemma in_split_first : forall (x : event) l, In x l -> exists l1 l2, l = l1 ++ x :: l2.
Proof. intros x l H. apply in_split in H. exact H. Qed.

(* commitments of a proof of shape s *)
Definition commitments (s : shape) : list comp :=
  [TraceRoot 0] ++ (if sh_aux s then [TraceRoot 1] else []) ++ [ConstraintRoot]
  ++ fri_root_comps 0 (sh_layers s) ++ [RemainderRoot].

(* blobs of a proof of shape s *)
Fixpoint trace_blobs (i n : nat) : list blob :=
  match n with O => [] | S n' => BTraceValues i :: BTracePaths i :: trace_blobs (S i) n' end.
Fixpoint fri_blobs (i n : nat) : list blob :=
  match n with O => [] | S n' => BFriValues i :: BFriPaths i :: fri_blobs (S i) n' end.
Definition blobs (s : shape) : list blob :=
  [BProof; BCommitments] ++ trace_blobs 0 (segments s) ++ [BConstraintValues; BConstraintPaths; BOodTrace; BOodLagrange; BOodEvals]
  ++ fri_blobs 0 (length (sh_fri_rows s)) ++ [BRemainder].

(* ------------------------------------------------------------------------------------------------
   Helpers. *)
Lemma seg_lt0 : forall s, 0 < segments s.
Proof. intro s. unfold segments. destruct (sh_aux s); lia. Qed.

Lemma seg_lt1 : forall s, sh_aux s = true -> 1 < segments s.
Proof. intros s H. unfold segments. rewrite H. lia. Qed.

Lemma seg_inv : forall s j, j < segments s -> j = 0 \/ (j = 1 /\ sh_aux s = true).
Proof. intros s j. unfold segments. destruct (sh_aux s); intro; [destruct j as [|[|j]]; auto; lia | left; lia]. Qed.

Lemma head_absorbed : forall v s t c, EvH v s (Absorb t) -> In c (comps_of t) ->
  mem c (st_absorbed (run st0 (head v s))) = true.
Proof.
  intros v s t c H Hc. apply mem_In. eapply run_absorbed; eauto. apply head_in; auto. intros k n; discriminate.
Qed.

Lemma head_hashed : forall v s c n, EvH v s (HashLeaves c n) -> mem c (st_hashed (run st0 (head v s))) = true.
Proof.
  intros v s c n H. apply mem_In. eapply run_hashed. apply head_in; eauto. intros k m; discriminate.
Qed.

(* an absorbing event of the head makes the positions depend on what it absorbs *)
Lemma absorbed_pre_head : forall v s e c, In e (head v s) -> absorbs e c -> absorbed_pre (events v s) c.
Proof.
  intros v s e c H Ha. destruct (in_split _ _ H) as (l1 & l2 & E).
  exists l1, e, (l2 ++ draw_phase ++ query_phase v s). split; [|split; auto].
  - unfold events. rewrite E. rewrite <- app_assoc. reflexivity.
  - intro D. apply (no_DP_head v s). rewrite E. apply in_or_app. auto.
Qed.

Lemma absorbed_pre_raw : forall v s c, EvH v s (Absorb (Raw c)) -> absorbed_pre (events v s) c.
Proof.
  intros v s c H. eapply absorbed_pre_head.
  - apply head_in; eauto. intros k n; discriminate.
  - left. exists (Raw c). simpl. auto.
Qed.

Lemma check_draw_phase : forall st q, st_drawn st = false ->
  check st (CheckPow :: DrawPositions :: q)
  = check (mkState (PowNonce :: st_absorbed st) (st_hashed st) (st_authed st) true) q.
Proof. intros st q H. rewrite !check_cons. simpl. rewrite H. reflexivity. Qed.

(* 1. the generated run passes the checker *)
Theorem events_check : forall s, admissible current s = true -> check st0 (events current s) = true.
Proof.
  intros s Ha. unfold admissible in Ha. simpl in Ha. apply Nat.eqb_eq in Ha.
  unfold events. rewrite check_app.
  destruct (check_head_ok (head current s) st0) as [A B]. { apply head_all_ok. } { reflexivity. }
  rewrite A. rewrite andb_true_l.
  change (draw_phase ++ query_phase current s) with (CheckPow :: DrawPositions :: query_phase current s).
  assert (FA : forall c, EvH current s (Absorb (Raw c)) -> mem c (st_absorbed (run st0 (head current s))) = true).
  { intros c H. apply (head_absorbed _ _ (Raw c)); simpl; auto. }
  assert (FH : forall c n, EvH current s (HashLeaves c n) -> mem c (st_hashed (run st0 (head current s))) = true).
  { intros c n H. eapply head_hashed; eauto. }
  remember (run st0 (head current s)) as st1.
  rewrite check_draw_phase by exact B. apply check_query.
  split; [reflexivity|]. unfold facts; simpl.
  repeat split; intros; first [ apply FA; constructor; auto | eapply FH; constructor; auto using seg_lt0, seg_lt1; lia ].
Qed.

(* 5. every commitment carried by the proof is absorbed before the positions are drawn *)
Theorem every_commitment_absorbed : forall s c, In c (commitments s) -> absorbed_pre (events current s) c.
Proof.
  intros s c H. unfold commitments in H. repeat rewrite in_app_iff in H. simpl in H.
  rewrite in_fri_root_comps in H. simpl in H.
  destruct H as [[H|[]]|[H|[[H|[]]|[(j & Hj & H)|[H|[]]]]]]; try subst c.
  - apply absorbed_pre_raw. constructor.
  - destruct (sh_aux s) eqn:E; simpl in H; [|tauto]. destruct H as [H|[]]. subst c.
    apply absorbed_pre_raw. constructor. exact E.
  - apply absorbed_pre_raw. constructor.
  - apply absorbed_pre_raw. constructor. exact Hj.
  - apply absorbed_pre_raw. constructor.
Qed.

(* 4. absorbs happen only before the positions are drawn, authentication only after and against an absorbed
   root; the positions are drawn exactly once *)
Theorem commitments_before_positions : forall s pre post e, events current s = pre ++ e :: post ->
  (forall t, e = Absorb t -> ~ In DrawPositions pre) /\
  (forall r p root, e = AuthCheck r p root -> In DrawPositions pre /\ absorbed_pre (events current s) root) /\
  (e = DrawPositions -> ~ In DrawPositions pre /\ ~ In DrawPositions post).
Proof.
  intros s pre post e H. apply events_split in H.
  destruct H as [(r & Hh)|[(-> & ->)|[(-> & -> & ->)|(r & -> & Hq)]]].
  - assert (Hn : ~ In DrawPositions pre).
    { intro D. apply (no_DP_head current s). rewrite Hh. apply in_or_app. auto. }
    assert (He : EvH current s e). { apply in_head. rewrite Hh. apply in_elt. }
    split; [auto|split].
    + intros r0 p root ->. inversion He.
    + intros ->. inversion He.
  - split; [|split]; intros; discriminate.
  - split; [|split]; try (intros; discriminate). intros _. split.
    + intro D. apply in_app_or in D. destruct D as [D|[D|[]]]; [|discriminate]. exact (no_DP_head _ _ D).
    + apply no_DP_query.
  - assert (He : EvQ current s e). { apply in_query. rewrite Hq. apply in_elt. }
    split; [|split].
    + intros t ->. inversion He.
    + intros r0 p root ->. split.
      * apply in_or_app. right. simpl. auto.
      * inversion He; subst; apply absorbed_pre_raw; constructor; auto.
    + intros ->. inversion He.
Qed.

(* ------------------------------------------------------------------------------------------------
   Binding of what is used. *)
Lemma absorbed_pre_abs : forall v s t c, EvH v s (Absorb t) -> In c (comps_of t) -> absorbed_pre (events v s) c.
Proof.
  intros v s t c H Hc. eapply absorbed_pre_head.
  - apply head_in; eauto. intros k n; discriminate.
  - left. exists t. auto.
Qed.

Lemma auth_bound_ev : forall v s c n p root,
  EvH v s (HashLeaves c n) -> EvQ v s (AuthCheck c p root) -> EvH v s (Absorb (Raw root)) ->
  auth_bound (events v s) c.
Proof.
  intros v s c n p root H1 H2 H3.
  apply head_in in H1; [|intros; discriminate]. apply query_in in H2. apply absorbed_pre_raw in H3.
  destruct (in_split _ _ H1) as (a & b & E1). destruct (in_split _ _ H2) as (c' & d & E2).
  exists n, p, root, a, (b ++ draw_phase ++ c'), d. split; auto.
  unfold events. rewrite E1, E2. repeat rewrite <- app_assoc. simpl. reflexivity.
Qed.

(* 2. everything the verifier's arithmetic consumes (layout metadata apart) is bound *)
Theorem every_component_bound : forall s c, admissible current s = true ->
  In (Use c) (events current s) -> layout_only c = false -> bound (events current s) c.
Proof.
  intros s c Ha Hu Hl. unfold admissible in Ha. simpl in Ha. apply Nat.eqb_eq in Ha.
  assert (TR0 : auth_bound (events current s) (TraceRows 0)).
  { eapply auth_bound_ev; [apply H_HTR; apply seg_lt0 | apply Q_AT0 | constructor]. }
  apply in_events in Hu. destruct Hu as [H|[H|[H|H]]]; try discriminate; inversion H; subst.
  - (* Context *) left; left. apply (absorbed_pre_abs _ _ (SeedOf [Context; PubInputs])); [constructor | simpl; auto].
  - (* NumQueries *) right. exists CkLen, [TraceRows 0]. split; [|split].
    + apply events_head_in, head_in; [constructor | intros; discriminate].
    + reflexivity.
    + constructor; [right; exact TR0 | constructor].
  - (* OodTrace *) left; left. apply (absorbed_pre_abs _ _ (HashOf ood_frame)); [constructor | simpl; auto].
  - (* OodEvals *) left; left. apply (absorbed_pre_abs _ _ (HashOf [OodEvals])); [constructor | simpl; auto].
  - left; right. exact TR0.
  - left; right. eapply auth_bound_ev; [apply H_HTR; apply seg_lt1; assumption | apply Q_AT1; assumption | constructor; assumption].
  - left; left. apply (absorbed_pre_abs _ _ (HashOf ood_frame)); [constructor | simpl; auto].
  - left; right. eapply auth_bound_ev; [apply H_HCR | apply Q_AC | constructor].
  - left; left. apply (absorbed_pre_abs _ _ (HashOf [OodEvals])); [constructor | simpl; auto].
  - simpl in Hl. discriminate.
  - left; right. eapply auth_bound_ev; [apply H_HFR; lia | apply Q_AF; assumption | constructor; assumption].
  - (* Remainder *) right. exists CkRemainderCommit, [RemainderRoot]. split; [|split].
    + apply events_query_in, query_in. constructor. reflexivity.
    + reflexivity.
    + constructor; [left; apply absorbed_pre_raw; constructor | constructor].
Qed.

(* ------------------------------------------------------------------------------------------------
   Order inside the query phase. *)
Ltac prec := first [ apply precedes_here; discriminate | apply precedes_cons; [discriminate | prec] ].

Lemma precedes_fri_layers : forall s j n i,
  precedes (AuthCheck (FriRows j) (FriPaths j) (FriRoot j)) (Use (FriRows j)) (fri_layers s i n).
Proof.
  intros s j; induction n as [|n IH]; intro i.
  - apply precedes_absent. simpl. tauto.
  - change (fri_layers s i (S n)) with (fri_layer s i ++ fri_layers s (S i) n).
    destruct (Nat.eq_dec i j) as [->|N].
    + apply precedes_left; [unfold fri_layer; simpl; auto | unfold fri_layer; prec].
    + apply precedes_skip; [|apply IH].
      unfold fri_layer; simpl. intros [H|[H|[H|[H|[]]]]]; try discriminate. injection H; auto.
Qed.

Lemma head_no_qd_use : forall v s c, query_data c = true -> ~ In (Use c) (head v s).
Proof. intros v s c Hq H. apply in_head in H. inversion H; subst; discriminate. Qed.

Lemma precedes_events_q : forall a b v s, ~ In b (head v s) -> b <> CheckPow -> b <> DrawPositions ->
  precedes a b (query_phase v s) -> precedes a b (events v s).
Proof.
  intros a b v s H1 H2 H3 H4. unfold events. apply precedes_skip; auto.
  unfold draw_phase. simpl. apply precedes_cons; auto. apply precedes_cons; auto.
Qed.

Lemma precedes_DP : forall b v s, ~ In b (head v s) -> b <> CheckPow -> b <> DrawPositions ->
  precedes DrawPositions b (events v s).
Proof.
  intros b v s H1 H2 H3. unfold events. apply precedes_skip; auto.
  unfold draw_phase. simpl. apply precedes_cons; auto. apply precedes_here; auto.
Qed.

Lemma no_use_fixed_fri : forall s j, ~ In (Use (FriRows j)) (query_fixed s).
Proof. intros s j. unfold query_fixed, auth_trace. destruct (sh_aux s); simpl; intuition discriminate. Qed.

Lemma no_use_fixed_rem : forall s, ~ In (Use Remainder) (query_fixed s).
Proof. intros s. unfold query_fixed, auth_trace. destruct (sh_aux s); simpl; intuition discriminate. Qed.

Lemma no_use_fri_rem : forall s i n, ~ In (Use Remainder) (fri_layers s i n).
Proof. intros s i n H. apply in_fri_layers in H. brk; discriminate. Qed.

Lemma remainder_precedes_q : forall s,
  precedes (Compare CkRemainderCommit [Remainder] [RemainderRoot]) (Use Remainder) (query_phase current s).
Proof.
  intro s. rewrite query_phase_eq. apply precedes_skip; [apply no_use_fixed_rem|].
  apply precedes_skip; [apply no_use_fri_rem|]. unfold remainder_phase. simpl. prec.
Qed.

Lemma auth_precedes_use_q : forall s c p r, EvQ current s (AuthCheck c p r) ->
  precedes (AuthCheck c p r) (Use c) (query_phase current s).
Proof.
  intros s c p r H. rewrite query_phase_eq. inversion H; subst.
  - apply precedes_left; [unfold query_fixed, auth_trace; simpl; auto | unfold query_fixed, auth_trace; simpl; prec].
  - apply precedes_left; unfold query_fixed, auth_trace; rewrite H1; simpl; [auto | prec].
  - apply precedes_left; unfold query_fixed, auth_trace; destruct (sh_aux s); simpl; [auto | auto | prec | prec].
  - apply precedes_skip; [apply no_use_fixed_fri|]. apply precedes_left; [|apply precedes_fri_layers].
    apply in_fri_layers. exists j. simpl. auto.
Qed.

(* 3. data opened at the query positions is consumed only after the positions are drawn and after it has been
   authenticated (rows) or compared with its commitment (remainder) *)
Theorem query_data_used_after_auth : forall s pre post c, admissible current s = true ->
  events current s = pre ++ Use c :: post -> query_data c = true ->
  In DrawPositions pre /\
  ((exists p r, In (AuthCheck c p r) pre) \/ (exists r, In (Compare CkRemainderCommit [c] [r]) pre)).
Proof.
  intros s pre post c _ E Hq.
  assert (Hh := head_no_qd_use current s c Hq).
  split.
  - eapply (precedes_DP (Use c)); eauto; discriminate.
  - assert (Hu : In (Use c) (events current s)). { rewrite E. apply in_elt. }
    apply in_events in Hu. destruct Hu as [H|[H|[H|H]]]; try discriminate.
    { exfalso. apply Hh. apply head_in; auto. intros; discriminate. }
    assert (A : forall p r, EvQ current s (AuthCheck c p r) -> In (AuthCheck c p r) pre).
    { intros p r Ha. eapply (precedes_events_q (AuthCheck c p r) (Use c)); eauto; try discriminate.
      apply auth_precedes_use_q. exact Ha. }
    inversion H; subst; try discriminate.
    + left. do 2 eexists. apply A. apply Q_AT0.
    + left. do 2 eexists. apply A. apply Q_AT1. assumption.
    + left. do 2 eexists. apply A. apply Q_AC.
    + left. do 2 eexists. apply A. apply Q_AF. assumption.
    + right. exists RemainderRoot.
      eapply (precedes_events_q _ (Use Remainder)); eauto; try discriminate. apply remainder_precedes_q.
Qed.

(* 6. the remainder is hashed and compared with the absorbed remainder commitment before it is used *)
Theorem remainder_bound : forall s, exists pre post,
  events current s = pre ++ Compare CkRemainderCommit [Remainder] [RemainderRoot] :: post /\
  In (HashWhole [Remainder]) pre /\ In DrawPositions pre /\ absorbed_pre (events current s) RemainderRoot /\
  (forall pre' post', events current s = pre' ++ Use Remainder :: post' ->
     In (Compare CkRemainderCommit [Remainder] [RemainderRoot]) pre').
Proof.
  intro s.
  exists (head current s ++ draw_phase ++ query_fixed s ++ fri_layers s 0 (sh_layers s) ++ [HashWhole [Remainder]]),
         [Use Remainder; Compare CkRemainderEval [Remainder] (fold_sources s (sh_layers s))].
  split; [|split; [|split; [|split]]].
  - unfold events. rewrite query_phase_eq. repeat rewrite <- app_assoc. reflexivity.
  - rewrite !in_app_iff. simpl. tauto.
  - rewrite !in_app_iff. unfold draw_phase. simpl. tauto.
  - apply absorbed_pre_raw. constructor.
  - intros pre' post' E.
    eapply (precedes_events_q _ (Use Remainder)); eauto; try discriminate.
    + apply head_no_qd_use. reflexivity.
    + apply remainder_precedes_q.
Qed.

(* ------------------------------------------------------------------------------------------------
   What is NOT bound / NOT consumed. *)
Lemma not_bound : forall l c, c <> PowNonce ->
  (forall t, In (Absorb t) l -> ~ In c (comps_of t)) ->
  (forall n, ~ In (HashLeaves c n) l) ->
  (forall k rhs, In (Compare k [c] rhs) l -> injective_kind k = false) ->
  ~ bound l c.
Proof.
  intros l c N A B C [[H|H]|H].
  - destruct H as (l1 & e & l2 & -> & [(t & -> & Ht)|(-> & ->)] & _).
    + apply (A t); [apply in_elt | auto].
    + congruence.
  - destruct H as (n & p & root & l1 & l2 & l3 & -> & _). apply (B n). apply in_elt.
  - destruct H as (k & rhs & Hin & Hk & _). rewrite (C k rhs Hin) in Hk. discriminate.
Qed.

Ltac cls H :=
  apply in_events in H; destruct H as [H|[H|[H|H]]]; try discriminate; inversion H; subst; simpl in *.

(* 7. without the remainder-commitment check the remainder is used but bound by nothing *)
Theorem remainder_unbound_without_check : forall v s, v_remainder_check v = false ->
  In (Use Remainder) (events v s) /\ ~ bound (events v s) Remainder.
Proof.
  intros v s Hv. split.
  - apply events_query_in, query_in. constructor.
  - apply not_bound.
    + discriminate.
    + intros t Ht Hc. cls Ht; intuition discriminate.
    + intros n Hn. cls Hn.
    + intros k rhs Hc. cls Hc; try reflexivity; congruence.
Qed.

(* 8. of what the arithmetic consumes, exactly the layout-only metadata is unbound *)
Theorem layout_metadata_excluded : forall s c, admissible current s = true -> In (Use c) (events current s) ->
  (bound (events current s) c <-> layout_only c = false).
Proof.
  intros s c Ha Hu. split.
  - intros Hb. destruct (layout_only c) eqn:E; auto. exfalso. destruct c; try discriminate.
    revert Hb. apply not_bound.
    + discriminate.
    + intros t Ht Hc. cls Ht; intuition discriminate.
    + intros n Hn. cls Hn.
    + intros k rhs Hc. cls Hc; reflexivity.
  - apply every_component_bound; auto.
Qed.

Lemma in_decode : forall e v s, In e (decode_events ++ events v s) <-> e = Parse BProof false \/ In e (events v s).
Proof.
  intros e v s. change (decode_events ++ events v s) with (Parse BProof false :: events v s).
  split; intros [H|H]; [left; symmetry; exact H | right; exact H | left; symmetry; exact H | right; exact H].
Qed.

(* 9. trailing bytes: only the outermost container tolerates them (and OodFrame's Lagrange block before the repair) *)
Theorem trailing_bytes_policy : forall s b, In (Parse b false) (decode_events ++ events current s) <-> b = BProof.
Proof.
  intros s b. split.
  - rewrite in_decode. intros [H|H]; [injection H; auto|]. cls H; discriminate.
  - intros ->. rewrite in_decode. auto.
Qed.

Theorem trailing_bytes_policy_unrepaired : forall s b,
  In (Parse b false) (decode_events ++ events unrepaired s) <-> b = BProof \/ b = BOodLagrange.
Proof.
  intros s b. split.
  - rewrite in_decode. intros [H|H]; [injection H; auto|]. cls H; auto; discriminate.
  - rewrite in_decode. intros [->| ->]; auto. right. apply events_head_in, head_in; [|intros; discriminate].
    apply (H_PLag unrepaired s).
Qed.

Lemma in_trace_blobs : forall b n i, In b (trace_blobs i n) <->
  exists j, j < n /\ (b = BTraceValues (i + j) \/ b = BTracePaths (i + j)).
Proof.
  intros b; induction n as [|n IH]; intro i; simpl.
  - split; [tauto | intros (j & Hj & _); lia].
  - rewrite (IH (S i)). split.
    + intros [H|[H|(j & Hj & H)]].
      1-2: exists 0; rewrite Nat.add_0_r; split; [lia | auto].
      exists (S j). rewrite Nat.add_succ_r. simpl in H. split; [lia | exact H].
    + intros (j & Hj & H). destruct j as [|j].
      * rewrite Nat.add_0_r in H. destruct H as [->| ->]; auto.
      * right; right. exists j. rewrite Nat.add_succ_r in H. simpl. split; [lia | exact H].
Qed.

Lemma in_fri_blobs : forall b n i, In b (fri_blobs i n) <->
  exists j, j < n /\ (b = BFriValues (i + j) \/ b = BFriPaths (i + j)).
Proof.
  intros b; induction n as [|n IH]; intro i; simpl.
  - split; [tauto | intros (j & Hj & _); lia].
  - rewrite (IH (S i)). split.
    + intros [H|[H|(j & Hj & H)]].
      1-2: exists 0; rewrite Nat.add_0_r; split; [lia | auto].
      exists (S j). rewrite Nat.add_succ_r. simpl in H. split; [lia | exact H].
    + intros (j & Hj & H). destruct j as [|j].
      * rewrite Nat.add_0_r in H. destruct H as [->| ->]; auto.
      * right; right. exists j. rewrite Nat.add_succ_r in H. simpl. split; [lia | exact H].
Qed.

Ltac find_or2 :=
  solve [ reflexivity | assumption | eexists; split; [eassumption | solve [auto]] | left; find_or2 | right; find_or2 ].

(* 10. every byte container of the proof is parsed, and nothing else is *)
Theorem every_blob_parsed : forall v s b, In b (blobs s) <-> exists x, In (Parse b x) (decode_events ++ events v s).
Proof.
  intros v s b. split.
  - unfold blobs. rewrite !in_app_iff, in_trace_blobs, in_fri_blobs. simpl. intro H.
    brk; subst; try (exists false; apply in_decode; left; reflexivity);
      (eexists; apply in_decode; right; apply events_head_in, head_in; [constructor; auto | intros; discriminate]).
  - intros (x & H). apply in_decode in H. destruct H as [H|H].
    + injection H; intros; subst. unfold blobs. simpl. auto.
    + unfold blobs. rewrite !in_app_iff, in_trace_blobs, in_fri_blobs. cls H; find_or2.
Qed.

(* ------------------------------------------------------------------------------------------------
   Consumption of the decoded content. *)
Ltac in_ev :=
  first [ apply events_head_in, head_in;
            [ constructor; solve [auto using seg_lt0, seg_lt1 | lia | reflexivity] | intros; discriminate ]
        | apply events_query_in, query_in; constructor; solve [auto | lia | reflexivity] ].

Ltac cons_abs t :=
  right; right; left; exists (Absorb t); split; [in_ev | left; exists t; split; [reflexivity | simpl; auto]].

Ltac cons_any :=
  first [ left; in_ev
        | right; left; do 2 eexists; in_ev
        | match goal with |- consumed _ ?c => cons_abs (Raw c) end
        | right; right; right; do 2 eexists; in_ev ].

(* 11. every component of an accepted proof (layout metadata apart) takes part in the run *)
Theorem no_component_ignored : forall s c, admissible current s = true ->
  In c (proof_components s) -> layout_only c = false -> consumed (events current s) c.
Proof.
  intros s c Ha Hin Hl. unfold admissible in Ha. simpl in Ha. apply Nat.eqb_eq in Ha.
  unfold proof_components in Hin. rewrite !in_app_iff, in_fri_root_comps, in_fri_layer_comps in Hin.
  simpl in Hin. brk; subst; try discriminate; try cons_any.
  - (* OodLagrange *) cons_abs (HashOf ood_frame).
  - (* PowNonce *) right; right; left. exists DrawPositions. split; [apply events_DP_in | right; auto].
Qed.

Ltac fold_src_contra :=
  match goal with
  | H : fold_sources ?s ?j = _ |- _ =>
      destruct j; unfold fold_sources, deep_sources in H; try destruct (sh_aux s); discriminate
  end.

(* 12. without the layer-count check a proof can carry FRI layers that nothing looks at *)
Theorem surplus_layers_ignored_without_check : forall v, v_layer_count_check v = false ->
  exists s c, admissible v s = true /\ In c (proof_components s) /\ layout_only c = false /\ ~ consumed (events v s) c.
Proof.
  intros v Hv. exists (mkShape false 0 0 0 0 [1] 0 0), (FriRows 0). split; [|split; [|split]].
  - unfold admissible. rewrite Hv. reflexivity.
  - unfold proof_components. simpl. find_or.
  - reflexivity.
  - intros [H|[(r & root & H)|[(e & H & Ha)|(k & rhs & H)]]].
    + cls H; lia.
    + cls H.
    + destruct Ha as [(t & -> & Hc)|(-> & Hc)]; [|discriminate]. cls H; intuition discriminate.
    + cls H; lia.
Qed.

(* 13. without the presence check the GKR proof field is ignored altogether *)
Theorem gkr_ignored_without_check : forall v s, v_gkr_check v = false -> ~ consumed (events v s) GkrProof.
Proof.
  intros v s Hv [H|[(r & root & H)|[(e & H & Ha)|(k & rhs & H)]]].
  - cls H.
  - cls H.
  - destruct Ha as [(t & -> & Hc)|(-> & Hc)]; [|discriminate]. cls H; intuition discriminate.
  - cls H; try congruence; fold_src_contra.
Qed.
