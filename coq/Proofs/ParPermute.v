(* C14 — the concurrent bit-reversal permutation (math/src/fft/concurrent.rs `permute`, mult = 1, and
   prover/src/matrix/segments.rs concurrent::permute, mult = 2) against the serial loop.
   * the batches [b*bs, b*bs+bs) tile [0, n) exactly when num_batches <= n (both powers of two): every transposition
     of the serial loop is performed by exactly one task ([permute_steps_concat], [permute_transposition_unique]);
   * steps of different tasks touch disjoint cells, for EVERY thread count ([permute_cross_independent]);
   * hence every task-level schedule and every complete step-level interleaving equals the serial permutation
     ([permute_par_spec]);
   * when num_batches > n the batch size is 0 and the permutation is silently skipped
     ([permute_par_noop_oversubscribed], [permute_oversubscribed_refuted]).
   stdlib style; the rev_bits lemmas are private copies (pp_ prefix). *)
From Coq Require Import List Arith Bool Lia PeanoNat Permutation.
From VBase Require Import FieldOps.
From VModel Require Import FFT Par.
From VProofs Require Import ParCommute.
Import ListNotations.

(* ---------------------------------------------------------------- powers of two *)
Lemma pp_pow2_S k : 2 ^ S k = 2 ^ k + 2 ^ k.
Proof. rewrite Nat.pow_succ_r'. lia. Qed.

Lemma pp_pow2_pos k : 0 < 2 ^ k.
Proof. pose proof (Nat.pow_nonzero 2 k). lia. Qed.

Lemma pp_log2_pow2 k : Nat.log2 (2 ^ k) = k.
Proof. apply Nat.log2_pow2. lia. Qed.

(* a power of two below 2^k divides it *)
Lemma pp_pow2_le_div m k : 2 ^ m <= 2 ^ k -> 2 ^ k / 2 ^ m = 2 ^ (k - m) /\ 2 ^ m * 2 ^ (k - m) = 2 ^ k.
Proof.
  intros H. apply Nat.pow_le_mono_r_iff in H; [|lia].
  assert (E : 2 ^ m * 2 ^ (k - m) = 2 ^ k).
  { rewrite <- Nat.pow_add_r. f_equal. lia. }
  split; [|exact E].
  rewrite <- E, Nat.mul_comm. apply Nat.div_mul. pose proof (pp_pow2_pos m). lia.
Qed.

(* ---------------------------------------------------------------- bit reversal on nat (copies) *)
Lemma pp_rev_bits_lt : forall k i, rev_bits k i < 2 ^ k.
Proof.
  induction k as [|k IH]; intros i; cbn [rev_bits]; [cbn; lia|].
  specialize (IH (i / 2)). pose proof (Nat.mod_upper_bound i 2 ltac:(lia)).
  rewrite pp_pow2_S. assert (i mod 2 = 0 \/ i mod 2 = 1) as [-> | ->] by lia; lia.
Qed.

Lemma pp_rev_bits_low : forall k i, i < 2 ^ k -> rev_bits (S k) i = 2 * rev_bits k i.
Proof.
  induction k as [|k IH]; intros i Hi.
  - cbn in Hi. assert (i = 0) by lia. subst. reflexivity.
  - change (rev_bits (S (S k)) i) with (2 ^ S k * (i mod 2) + rev_bits (S k) (i / 2)).
    rewrite IH.
    + change (rev_bits (S k) i) with (2 ^ k * (i mod 2) + rev_bits k (i / 2)). rewrite pp_pow2_S. lia.
    + apply Nat.div_lt_upper_bound; [lia|]. rewrite pp_pow2_S in Hi. lia.
Qed.

Lemma pp_rev_bits_high : forall k i, i < 2 ^ k -> rev_bits (S k) (i + 2 ^ k) = 2 * rev_bits k i + 1.
Proof.
  induction k as [|k IH]; intros i Hi.
  - cbn in Hi. assert (i = 0) by lia. subst. reflexivity.
  - change (rev_bits (S (S k)) (i + 2 ^ S k))
      with (2 ^ S k * ((i + 2 ^ S k) mod 2) + rev_bits (S k) ((i + 2 ^ S k) / 2)).
    assert (E1 : (i + 2 ^ S k) mod 2 = i mod 2).
    { rewrite (pp_pow2_S k). replace (i + (2 ^ k + 2 ^ k)) with (i + 2 ^ k * 2) by lia. apply Nat.mod_add. lia. }
    assert (E2 : (i + 2 ^ S k) / 2 = i / 2 + 2 ^ k).
    { rewrite (pp_pow2_S k). replace (i + (2 ^ k + 2 ^ k)) with (i + 2 ^ k * 2) by lia. apply Nat.div_add. lia. }
    rewrite E1, E2, IH.
    + change (rev_bits (S k) i) with (2 ^ k * (i mod 2) + rev_bits k (i / 2)). rewrite pp_pow2_S. lia.
    + apply Nat.div_lt_upper_bound; [lia|]. rewrite pp_pow2_S in Hi. lia.
Qed.

Theorem pp_rev_bits_involutive : forall k i, i < 2 ^ k -> rev_bits k (rev_bits k i) = i.
Proof.
  induction k as [|k IH]; intros i Hi.
  - cbn in *. lia.
  - change (rev_bits (S k) i) with (2 ^ k * (i mod 2) + rev_bits k (i / 2)).
    assert (Hd : i / 2 < 2 ^ k).
    { apply Nat.div_lt_upper_bound; [lia|]. rewrite pp_pow2_S in Hi. lia. }
    pose proof (pp_rev_bits_lt k (i / 2)) as Hr.
    pose proof (Nat.div_mod i 2 ltac:(lia)) as Hdm.
    pose proof (Nat.mod_upper_bound i 2 ltac:(lia)) as Hm.
    assert (i mod 2 = 0 \/ i mod 2 = 1) as [E | E] by lia; rewrite E.
    + rewrite Nat.mul_0_r, Nat.add_0_l, pp_rev_bits_low by exact Hr. rewrite IH by exact Hd. lia.
    + rewrite Nat.mul_1_r, Nat.add_comm, pp_rev_bits_high by exact Hr. rewrite IH by exact Hd. lia.
Qed.

Lemma pp_permute_index_spec k i : permute_index (2 ^ k) i = rev_bits k i.
Proof. unfold permute_index. rewrite pp_log2_pow2. reflexivity. Qed.

(* ---------------------------------------------------------------- tiling of [0, nb*bs) by the batches *)
Lemma pp_seq_tiles nb bs : seq 0 (nb * bs) = concat (map (fun b => seq (b * bs) bs) (seq 0 nb)).
Proof.
  induction nb as [|nb IH]; [reflexivity|].
  rewrite seq_S, map_app, concat_app. cbn [map concat Nat.add]. rewrite app_nil_r, <- IH.
  replace (S nb * bs) with (nb * bs + bs) by lia. rewrite seq_app. reflexivity.
Qed.

Lemma pp_flat_map_tiles {A} (f : nat -> list A) nb bs :
  concat (map (fun b => flat_map f (seq (b * bs) bs)) (seq 0 nb)) = flat_map f (seq 0 (nb * bs)).
Proof.
  induction nb as [|nb IH]; [reflexivity|].
  rewrite seq_S, map_app, concat_app, IH. cbn [map concat Nat.add]. rewrite app_nil_r.
  replace (S nb * bs) with (nb * bs + bs) by lia. rewrite seq_app, flat_map_app. reflexivity.
Qed.

Lemma npo2_is_pow2 T : npo2 T = 2 ^ Nat.log2_up T.
Proof. reflexivity. Qed.

Lemma pp_num_batches_pow2 T mult : mult = 1 \/ mult = 2 -> exists m, permute_num_batches T mult = 2 ^ m.
Proof.
  unfold permute_num_batches, npo2. intros [-> | ->].
  - exists (Nat.log2_up T). lia.
  - exists (S (Nat.log2_up T)). rewrite Nat.pow_succ_r'. lia.
Qed.

Lemma permute_batches_cover k T mult : (mult = 1 \/ mult = 2) -> permute_num_batches T mult <= 2 ^ k ->
  permute_num_batches T mult * (2 ^ k / permute_num_batches T mult) = 2 ^ k.
Proof.
  intros Hm Hle. destruct (pp_num_batches_pow2 T mult Hm) as (m & E). rewrite E in *.
  destruct (pp_pow2_le_div m k Hle) as (Ed & Em). rewrite Ed. exact Em.
Qed.

Section PermuteSpec.
Context {V : Type} (dflt : V).
Notation task := (task V).

(* ---------------------------------------------------------------- 1. the atomic step *)
Lemma swap_task_ok i j : task_ok dflt (swap_task dflt i j).
Proof.
  unfold task_ok, swap_task; cbn [t_run t_reads t_writes]. repeat split.
  - intros s. rewrite !par_length_lupd. reflexivity.
  - intros s x Hn. rewrite !par_nth_lupd_other; [reflexivity| |]; intros ->; apply Hn; cbn; auto.
  - intros s s' Hl Hag x Hx.
    assert (Ei : nth i s dflt = nth i s' dflt) by (apply Hag; cbn; auto).
    assert (Ej : nth j s dflt = nth j s' dflt) by (apply Hag; cbn; auto).
    rewrite !par_nth_lupd, !par_length_lupd, Hl, Ei, Ej.
    destruct ((j =? x) && (j <? length s')); [reflexivity|].
    destruct ((i =? x) && (i <? length s')) eqn:Eb; [reflexivity|].
    destruct Hx as [<-|[<-|[]]].
    + rewrite Nat.eqb_refl in Eb. cbn [andb] in Eb. apply Nat.ltb_ge in Eb.
      rewrite !nth_overflow; auto; lia.
    + exact Ej.
Qed.

Lemma permute_body_ok n i : Forall (task_ok dflt) (permute_body dflt n i).
Proof.
  unfold permute_body. destruct (i <? permute_index n i); constructor; [apply swap_task_ok|constructor].
Qed.

Lemma pp_flat_body_ok n l : Forall (task_ok dflt) (flat_map (permute_body dflt n) l).
Proof.
  induction l as [|i l IH]; [constructor|]. cbn [flat_map]. apply Forall_app. split; [apply permute_body_ok|exact IH].
Qed.

(* ---------------------------------------------------------------- 7. every step is well formed *)
Theorem permute_steps_ok n T mult : Forall (Forall (task_ok dflt)) (permute_par_steps dflt n T mult).
Proof.
  unfold permute_par_steps. apply Forall_forall. intros l Hl. apply in_map_iff in Hl.
  destruct Hl as (b & <- & _). apply pp_flat_body_ok.
Qed.

Lemma permute_par_steps_length n T mult : length (permute_par_steps dflt n T mult) = permute_num_batches T mult.
Proof. unfold permute_par_steps. rewrite map_length, seq_length. reflexivity. Qed.

(* ---------------------------------------------------------------- 4. the tasks perform the serial transpositions *)
Theorem permute_steps_concat k T mult : (mult = 1 \/ mult = 2) -> permute_num_batches T mult <= 2 ^ k ->
  concat (permute_par_steps dflt (2 ^ k) T mult) = serial_permute_steps dflt (2 ^ k).
Proof.
  intros Hm Hle. unfold permute_par_steps, serial_permute_steps, permute_batch_steps.
  rewrite pp_flat_map_tiles, permute_batches_cover by assumption. reflexivity.
Qed.

(* ---------------------------------------------------------------- 5. exactly one task per index *)
Theorem permute_transposition_unique k T mult i : (mult = 1 \/ mult = 2) -> permute_num_batches T mult <= 2 ^ k ->
  i < 2 ^ k ->
  let bs := 2 ^ k / permute_num_batches T mult in
  exists b, b < permute_num_batches T mult /\ b * bs <= i < b * bs + bs /\
            (forall b', b' * bs <= i < b' * bs + bs -> b' = b).
Proof.
  intros Hm Hle Hi bs. pose proof (permute_batches_cover k T mult Hm Hle) as Hc. fold bs in Hc.
  set (nb := permute_num_batches T mult) in *.
  assert (Hbs : 0 < bs).
  { destruct bs; [|lia]. rewrite Nat.mul_0_r in Hc. pose proof (pp_pow2_pos k). lia. }
  exists (i / bs).
  pose proof (Nat.div_mod i bs ltac:(lia)) as Hdm.
  pose proof (Nat.mod_upper_bound i bs ltac:(lia)) as Hmod.
  repeat split.
  - apply Nat.div_lt_upper_bound; [lia|]. rewrite Nat.mul_comm. lia.
  - rewrite Nat.mul_comm. lia.
  - rewrite (Nat.mul_comm (i / bs)). lia.
  - intros b' [H1 H2]. apply Nat.div_unique with (i - b' * bs); lia.
Qed.

(* ---------------------------------------------------------------- 6. steps of different tasks are independent *)
Lemma pp_in_batch n bs b x : In x (permute_batch_steps dflt n bs b) ->
  exists i, b * bs <= i < b * bs + bs /\ i < permute_index n i /\ x = swap_task dflt i (permute_index n i).
Proof.
  unfold permute_batch_steps. intros H. apply in_flat_map in H. destruct H as (i & Hi & Hx).
  apply in_seq in Hi. exists i. split; [lia|].
  unfold permute_body in Hx. cbv zeta in Hx.
  destruct (Nat.ltb_spec i (permute_index n i)) as [Hlt|Hge]; [|destruct Hx].
  destruct Hx as [<-|[]]. split; [exact Hlt|reflexivity].
Qed.

Lemma pp_swap_independent i j i' j' : i <> i' -> i <> j' -> j <> i' -> j <> j' ->
  independent (swap_task dflt i j) (swap_task dflt i' j').
Proof.
  intros. unfold independent, disjoint, swap_task; cbn [t_reads t_writes]. repeat split; intros x H3 H4; cbn in H3, H4; lia.
Qed.

Lemma pp_nth_steps n T mult a :
  nth a (permute_par_steps dflt n T mult) [] =
  if a <? permute_num_batches T mult then permute_batch_steps dflt n (n / permute_num_batches T mult) a else [].
Proof.
  unfold permute_par_steps. destruct (Nat.ltb_spec a (permute_num_batches T mult)) as [H|H].
  - rewrite (nth_indep _ [] (permute_batch_steps dflt n (n / permute_num_batches T mult) 0))
      by (rewrite map_length, seq_length; exact H).
    rewrite map_nth, seq_nth by exact H. reflexivity.
  - apply nth_overflow. rewrite map_length, seq_length. exact H.
Qed.

Theorem permute_cross_independent k T mult : cross_independent (permute_par_steps dflt (2 ^ k) T mult).
Proof.
  intros a b Hab x y Hx Hy. rewrite pp_nth_steps in Hx, Hy.
  set (nb := permute_num_batches T mult) in *. set (bs := 2 ^ k / nb) in *.
  destruct (Nat.ltb_spec a nb) as [Ha|_]; [|destruct Hx].
  destruct (Nat.ltb_spec b nb) as [Hb|_]; [|destruct Hy].
  apply pp_in_batch in Hx. destruct Hx as (i & Hir & Hij & ->).
  apply pp_in_batch in Hy. destruct Hy as (i' & Hir' & Hij' & ->).
  rewrite !pp_permute_index_spec in *.
  assert (Hnb : nb * bs <= 2 ^ k) by (apply Nat.mul_div_le; lia).
  assert (Hi : i < 2 ^ k) by nia.
  assert (Hi' : i' < 2 ^ k) by nia.
  pose proof (pp_rev_bits_involutive k i Hi) as Ri.
  pose proof (pp_rev_bits_involutive k i' Hi') as Ri'.
  assert (Hne : i <> i').
  { intros <-. apply Hab. assert (a < b \/ a = b \/ b < a) as [H|[H|H]] by lia; [nia|exact H|nia]. }
  apply pp_swap_independent.
  - exact Hne.
  - intros E. rewrite E, Ri' in Hij. rewrite <- E in Hij'. lia.
  - intros E. rewrite <- E, Ri in Hij'. rewrite E in Hij. lia.
  - intros E. apply Hne. rewrite <- Ri, <- Ri', E. reflexivity.
Qed.

(* ---------------------------------------------------------------- 8. schedule independence *)
Theorem permute_par_spec k T mult : (mult = 1 \/ mult = 2) -> permute_num_batches T mult <= 2 ^ k ->
  ForallOrdPairs (independent) (permute_par_tasks dflt (2 ^ k) T mult) /\
  (forall v sched, length v = 2 ^ k -> Permutation sched (seq 0 (permute_num_batches T mult)) ->
      permute_par dflt T mult sched v = serial_permute dflt v) /\
  (forall v choices, length v = 2 ^ k -> snd (permute_par_interleaved dflt T mult choices v) = true ->
      fst (permute_par_interleaved dflt T mult choices v) = serial_permute dflt v).
Proof.
  intros Hm Hle.
  pose proof (permute_cross_independent k T mult) as Hci.
  pose proof (permute_steps_ok (2 ^ k) T mult) as Hok.
  destruct (phase_schedule_independent dflt _ Hok Hci) as [S1 S2].
  split; [|split].
  - unfold permute_par_tasks. apply cross_independent_pairs. exact Hci.
  - intros v sched Hl P. unfold permute_par, permute_par_tasks, serial_permute. rewrite Hl.
    rewrite S1 by (rewrite permute_par_steps_length; exact P).
    rewrite permute_steps_concat by assumption. reflexivity.
  - intros v choices Hl. unfold permute_par_interleaved, serial_permute. rewrite Hl.
    destruct (merge_by choices (permute_par_steps dflt (2 ^ k) T mult)) as [out rest] eqn:E.
    cbn [fst snd]. intros He. rewrite (S2 choices out rest v E He).
    rewrite permute_steps_concat by assumption. reflexivity.
Qed.

(* ---------------------------------------------------------------- 9. more batches than elements: nothing happens *)
Lemma pp_exec_id (ts : list task) : Forall (fun t => forall s, t_run t s = s) ts -> forall s, exec ts s = s.
Proof.
  induction 1 as [|t ts Ht _ IH]; intros s; [reflexivity|]. rewrite exec_cons, Ht. apply IH.
Qed.

Theorem permute_par_noop_oversubscribed n T mult v sched : n < permute_num_batches T mult -> length v = n ->
  permute_par dflt T mult sched v = v.
Proof.
  intros Hlt Hl. unfold permute_par. rewrite Hl. apply pp_exec_id.
  unfold reorder. apply Forall_forall. intros t Ht. apply in_map_iff in Ht. destruct Ht as (c & <- & _).
  set (ts := permute_par_tasks dflt n T mult).
  destruct (Nat.ltb_spec c (length ts)) as [Hc|Hc].
  - assert (Hin : In (nth c ts idle) ts) by (apply nth_In; exact Hc).
    remember (nth c ts idle) as t eqn:Et. clear Et.
    unfold ts, permute_par_tasks, permute_par_steps in Hin.
    rewrite Nat.div_small in Hin by exact Hlt.
    apply in_map_iff in Hin. destruct Hin as (l & <- & Hin).
    apply in_map_iff in Hin. destruct Hin as (b & <- & _).
    intros s. reflexivity.
  - rewrite nth_overflow by exact Hc. intros s. reflexivity.
Qed.

End PermuteSpec.

(* ---------------------------------------------------------------- 10. bridge to the C09 model of the serial code *)
Lemma pp_exec_body_fold {F} (O : FOps F) n (l : list nat) : forall v : list F,
  exec (flat_map (permute_body (fzero O) n) l) v =
  fold_left (fun v i => let j := permute_index n i in if i <? j then FFT.swap O v i j else v) l v.
Proof.
  induction l as [|i l IH]; intros v; [reflexivity|].
  cbn [flat_map fold_left]. rewrite exec_app, IH. f_equal.
  unfold permute_body. cbv zeta. destruct (i <? permute_index n i); reflexivity.
Qed.

Lemma serial_permute_eq_FFT_permute {F} (O : FOps F) (v : list F) :
  serial_permute (fzero O) v = FFT.permute O v.
Proof. unfold serial_permute, serial_permute_steps, FFT.permute. apply pp_exec_body_fold. Qed.

(* ---------------------------------------------------------------- concrete instances (non-vacuity) *)
(* T = 3 threads -> 4 batches of 4; schedule [2;0;3;1] *)
Example permute_par_ex1 : permute_par 0 3 1 [2;0;3;1] (seq 0 16) = serial_permute 0 (seq 0 16).
Proof. vm_compute. reflexivity. Qed.

Example permute_par_ex2 : serial_permute 0 (seq 0 8) = [0;4;2;6;1;5;3;7].
Proof. vm_compute. reflexivity. Qed.

(* T = 9 threads -> 16 batches > 8 elements: batch_size = 0, the permutation is skipped *)
Example permute_oversubscribed_refuted : permute_par 0 9 1 (seq 0 16) (seq 0 8) <> serial_permute 0 (seq 0 8).
Proof. vm_compute. discriminate. Qed.

(* the hypothesis of permute_par_spec at the real threshold: 64 threads, mult = 2, n = 1024 *)
Example permute_hyp_sat : permute_num_batches 64 2 <= 2 ^ 10.
Proof. apply Nat.leb_le. vm_compute. reflexivity. Qed.
