(* C20 — coefficient-level semantics: finite sums over indices (gsum) and the convolution `conv p q k` =
   sum_{i<=k} p_i q_{k-i}, the k-th coefficient of the product of two coefficient lists (zero-padded).
   Statements about coefficient LISTS (normal forms up to trailing zeros), which over finite fields are
   stronger than identities of polynomial functions.  stdlib style. *)
From Coq Require Import List Arith Bool Lia Ring Field.
From VBase Require Import FieldOps.
From VModel Require Import Polynom.
From VProofs Require Import PolyBase PolyArith.
Import ListNotations.

Section Coeff.
Context {F : Type} (O : FOps F) (L : FLaws O).
Local Notation zero := (fzero O).
Local Notation one := (fone O).
Local Notation "a +f b" := (fadd O a b) (at level 50, left associativity).
Local Notation "a -f b" := (fsub O a b) (at level 50, left associativity).
Local Notation "a *f b" := (fmul O a b) (at level 40, left associativity).

Add Ring Fring : (FLaws_ring_theory O L).

Definition coeff (p : list F) (k : nat) : F := nth k p zero.

Fixpoint gsum (T : nat -> F) (k : nat) : F := match k with 0 => zero | S k' => gsum T k' +f T k' end.

Lemma gsum_ext T U : forall k, (forall i, i < k -> T i = U i) -> gsum T k = gsum U k.
Proof. induction k; intros H; simpl. reflexivity. rewrite IHk, (H k) by (intros; try apply H; lia). reflexivity. Qed.

Lemma gsum_zero T : forall k, (forall i, i < k -> T i = zero) -> gsum T k = zero.
Proof. induction k; intros H; simpl. reflexivity. rewrite IHk, (H k) by (intros; try apply H; lia). ring. Qed.

Lemma gsum_add T U : forall k, gsum (fun i => T i +f U i) k = gsum T k +f gsum U k.
Proof. induction k; simpl. ring. rewrite IHk. ring. Qed.

Lemma gsum_sub T U : forall k, gsum (fun i => T i -f U i) k = gsum T k -f gsum U k.
Proof. induction k; simpl. ring. rewrite IHk. ring. Qed.

Lemma gsum_single T m : forall k, (forall i, i < k -> i <> m -> T i = zero) ->
  gsum T k = if m <? k then T m else zero.
Proof.
  induction k as [|k IH]; intros H. reflexivity.
  cbn [gsum]. rewrite IH by (intros; apply H; lia).
  destruct (Nat.ltb_spec m k), (Nat.ltb_spec m (S k)); try lia.
  - rewrite (H k) by lia. ring.
  - assert (m = k) by lia. subst. ring.
  - rewrite (H k) by lia. ring.
Qed.

(* k-th coefficient of the product *)
Definition conv (p q : list F) (k : nat) : F := gsum (fun i => coeff p i *f coeff q (k - i)) (S k).

Lemma coeff_overflow p k : length p <= k -> coeff p k = zero.
Proof. intros. unfold coeff. now apply nth_overflow. Qed.

Lemma coeff_snoc q c i : coeff (q ++ [c]) i = coeff q i +f (if i =? length q then c else zero).
Proof.
  unfold coeff. destruct (Nat.lt_ge_cases i (length q)).
  - rewrite app_nth1 by assumption. destruct (Nat.eqb_spec i (length q)); [lia|ring].
  - rewrite app_nth2 by assumption. rewrite (nth_overflow q) by assumption.
    destruct (Nat.eqb_spec i (length q)).
    + subst. rewrite Nat.sub_diag. simpl. ring.
    + rewrite nth_overflow by (simpl; lia). ring.
Qed.

Lemma conv_ext p p' q q' k : (forall i, coeff p i = coeff p' i) -> (forall i, coeff q i = coeff q' i) ->
  conv p q k = conv p' q' k.
Proof. intros Hp Hq. unfold conv. apply gsum_ext. intros. now rewrite Hp, Hq. Qed.

Lemma conv_snoc q c b k :
  conv (q ++ [c]) b k = conv q b k +f (if length q <=? k then c *f coeff b (k - length q) else zero).
Proof.
  unfold conv.
  rewrite (gsum_ext _ (fun i => coeff q i *f coeff b (k - i)
                                +f (if i =? length q then c else zero) *f coeff b (k - i)))
    by (intros; rewrite coeff_snoc; ring).
  rewrite gsum_add. f_equal.
  rewrite (gsum_single _ (length q)).
  - destruct (Nat.ltb_spec (length q) (S k)), (Nat.leb_spec (length q) k); try lia; [|reflexivity].
    rewrite Nat.eqb_refl. reflexivity.
  - intros i _ Hi. destruct (Nat.eqb_spec i (length q)); [lia|ring].
Qed.

Lemma conv_nil_l b k : conv [] b k = zero.
Proof. unfold conv. apply gsum_zero. intros. unfold coeff at 1. destruct i; simpl; ring. Qed.

(* above (length q - 1) + (degree bound of b) the product has no coefficients *)
Lemma conv_high q b n k : (forall j, n < j -> coeff b j = zero) -> length q + n <= k -> conv q b k = zero.
Proof.
  intros Hb Hk. unfold conv. apply gsum_zero. intros i Hi.
  destruct (Nat.lt_ge_cases i (length q)).
  - rewrite (Hb (k - i)) by lia. ring.
  - rewrite (coeff_overflow q i) by assumption. ring.
Qed.

(* leading coefficient of a product *)
Lemma conv_top q b m n : (forall j, m < j -> coeff q j = zero) -> (forall j, n < j -> coeff b j = zero) ->
  conv q b (m + n) = coeff q m *f coeff b n.
Proof.
  intros Hq Hb. unfold conv. rewrite (gsum_single _ m).
  - destruct (Nat.ltb_spec m (S (m + n))); [|lia]. now replace (m + n - m) with n by lia.
  - intros i Hi Him. destruct (Nat.lt_ge_cases i m).
    + rewrite (Hb (m + n - i)) by lia. ring.
    + rewrite (Hq i) by lia. ring.
Qed.

Lemma conv_sub_l p p' q k : conv (sub O p p') q k = conv p q k -f conv p' q k.
Proof.
  unfold conv. rewrite <- gsum_sub. apply gsum_ext. intros i _. unfold coeff at 1.
  rewrite (sub_nth O L). unfold coeff. ring.
Qed.

(* a coefficient list is either the zero polynomial or has a non-zero coefficient *)
Lemma coeffs_dec p : (forall k, coeff p k = zero) \/ (exists k, coeff p k <> zero).
Proof.
  pose proof (last_nz_spec O L p (length p)) as H. destruct (last_nz O p (length p)) as [i|].
  - right. exists i. tauto.
  - left. intros k. destruct (Nat.lt_ge_cases k (length p)). now apply H. now apply coeff_overflow.
Qed.

Lemma degree_of_ge p k : coeff p k <> zero -> k <= degree_of O p.
Proof.
  intros H. destruct (Nat.le_gt_cases k (degree_of O p)); auto. exfalso. apply H.
  apply (proj1 (degree_of_spec O L p)). assumption.
Qed.

End Coeff.
