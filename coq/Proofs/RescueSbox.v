(* C11 — S-box / inverse S-box of the Rescue hashers and the constant tables:
   the addition chains of apply_inv_sbox compute x^INV_ALPHA, ALPHA * INV_ALPHA = 1 mod (p - 1), hence (Fermat)
   inv_sbox (sbox x) = x = sbox (inv_sbox x) for every residue; INV_MDS * MDS = I; the permutation is the iterated
   textbook round. *)
From Coq Require Import Znumtheory Zpow_facts.
From VBase Require Import MachInt ZpOps.
From VModel Require Import RescueConsts Rescue.
From VProofs Require Import NumTheoryFermat NumTheoryPrime.
Open Scope Z_scope.

Lemma M64_is_P64 : M64 = P64. Proof. reflexivity. Qed.
Lemma M62_is_P62 : M62 = P62. Proof. reflexivity. Qed.
Lemma M64_prime : prime M64. Proof. rewrite M64_is_P64. exact P64_prime. Qed.
Lemma M62_prime : prime M62. Proof. rewrite M62_is_P62. exact P62_prime. Qed.

Section Pow.
  Variable p : Z.
  Hypothesis Hp : 1 < p.
  Variable x : Z.

  (* r is x^e reduced *)
  Definition ispow (r e : Z) : Prop := 0 <= e /\ r = x ^ e mod p.

  Lemma ispow_base : ispow (x mod p) 1.
  Proof. split; [lia|]. now rewrite Z.pow_1_r. Qed.

  Lemma ispow_mul r1 e1 r2 e2 : ispow r1 e1 -> ispow r2 e2 -> ispow (fmul p r1 r2) (e1 + e2).
  Proof.
    intros (H1 & ->) (H2 & ->). split; [lia|]. unfold fmul.
    rewrite <- Z.mul_mod by lia. now rewrite Z.pow_add_r by lia.
  Qed.
  Lemma ispow_mul_x r e : ispow r e -> ispow (fmul p r x) (e + 1).
  Proof.
    intros (H1 & ->). split; [lia|]. unfold fmul.
    rewrite Z.mul_mod_idemp_l by lia. rewrite Z.pow_add_r, Z.pow_1_r by lia. reflexivity.
  Qed.
  Lemma ispow_x_mul r e : ispow r e -> ispow (fmul p x r) (e + 1).
  Proof. intros H. unfold fmul. rewrite Z.mul_comm. apply ispow_mul_x. exact H. Qed.
  Lemma ispow_sq r e : ispow r e -> ispow (fsq p r) (2 * e).
  Proof. intros H. unfold fsq. replace (2 * e) with (e + e) by lia. apply ispow_mul; exact H. Qed.
  Lemma ispow_sq_x : ispow (fsq p x) 2.
  Proof. split; [lia|]. unfold fsq, fmul. f_equal. lia. Qed.
  Lemma ispow_sqn n : forall r e, ispow r e -> ispow (sqn p n r) (e * 2 ^ Z.of_nat n).
  Proof.
    induction n as [|n IH]; intros r e H.
    - cbn [sqn]. change (2 ^ Z.of_nat 0) with 1. now rewrite Z.mul_1_r.
    - cbn [sqn]. rewrite Nat2Z.inj_succ, Z.pow_succ_r by lia.
      replace (e * (2 * 2 ^ Z.of_nat n)) with ((2 * e) * 2 ^ Z.of_nat n) by lia.
      apply IH. apply ispow_sq. exact H.
  Qed.
  Lemma ispow_exp_acc n r1 e1 r2 e2 : ispow r1 e1 -> ispow r2 e2 ->
    ispow (exp_acc p n r1 r2) (e1 * 2 ^ Z.of_nat n + e2).
  Proof. intros H1 H2. unfold exp_acc. apply ispow_mul; [apply ispow_sqn; exact H1 | exact H2]. Qed.

  Lemma ispow_eq r e e' : ispow r e -> e = e' -> r = x ^ e' mod p.
  Proof. intros (_ & ->) <-. reflexivity. Qed.

  (* the addition chain of Rp64_256 / RpJive64_256 apply_inv_sbox computes x^10540996611094048183 *)
  Lemma inv_sbox64_pow : inv_sbox64 p x = x ^ 10540996611094048183 mod p.
  Proof.
    unfold inv_sbox64.
    pose proof ispow_sq_x as H1.
    pose proof (ispow_sq _ _ H1) as H2.
    pose proof (ispow_exp_acc 3 _ _ _ _ H2 H2) as H3.
    pose proof (ispow_exp_acc 6 _ _ _ _ H3 H3) as H4.
    pose proof (ispow_exp_acc 12 _ _ _ _ H4 H4) as H5.
    pose proof (ispow_exp_acc 6 _ _ _ _ H5 H3) as H6.
    pose proof (ispow_exp_acc 31 _ _ _ _ H6 H6) as H7.
    pose proof (ispow_sq _ _ (ispow_sq _ _ (ispow_mul _ _ _ _ (ispow_sq _ _ H7) H6))) as Ha.
    pose proof (ispow_mul_x _ _ (ispow_mul _ _ _ _ H1 H2)) as Hb.
    pose proof (ispow_mul _ _ _ _ Ha Hb) as H.
    cbv zeta. eapply ispow_eq; [exact H|]. vm_compute. reflexivity.
  Qed.

  (* the addition chain of Rp62_248 apply_inv_sbox computes x^3074416663688030891 *)
  Lemma inv_sbox62_pow : inv_sbox62 p x = x ^ 3074416663688030891 mod p.
  Proof.
    unfold inv_sbox62.
    pose proof ispow_sq_x as H1.
    pose proof (ispow_exp_acc 2 _ _ _ _ H1 H1) as H2.
    pose proof (ispow_exp_acc 4 _ _ _ _ H2 H2) as H4.
    pose proof (ispow_exp_acc 8 _ _ _ _ H4 H4) as H8.
    pose proof (ispow_exp_acc 7 _ _ _ _ H8 H2) as A1.
    pose proof (ispow_exp_acc 15 _ _ _ _ A1 H8) as A2.
    pose proof (ispow_exp_acc 16 _ _ _ _ A2 H8) as A3.
    pose proof (ispow_exp_acc 8 _ _ _ _ A3 H4) as A4.
    pose proof (ispow_x_mul _ _ A4) as H.
    cbv zeta. eapply ispow_eq; [exact H|]. vm_compute. reflexivity.
  Qed.

  Lemma exp7_pow : exp7 p x = x ^ 7 mod p.
  Proof.
    unfold exp7.
    pose proof ispow_sq_x as H2.
    pose proof (ispow_sq _ _ H2) as H4.
    pose proof (ispow_mul_x _ _ H2) as H3.
    pose proof (ispow_mul _ _ _ _ H3 H4) as H.
    cbv zeta. eapply ispow_eq; [exact H|]. reflexivity.
  Qed.
  Lemma cube_pow : cube p x = x ^ 3 mod p.
  Proof.
    unfold cube. pose proof (ispow_mul_x _ _ ispow_sq_x) as H.
    change (fmul p x x) with (fsq p x). eapply ispow_eq; [exact H|]. reflexivity.
  Qed.
End Pow.

(* x^(1 + k (p-1)) = x in Z/p (Fermat), for every residue including 0 *)
Lemma pow_fermat_cycle p x k : prime p -> 0 <= x < p -> 0 <= k -> x ^ (1 + k * (p - 1)) mod p = x.
Proof.
  intros Hp Hx Hk. assert (1 < p) by (apply prime_gt1; exact Hp).
  destruct (Z.eq_dec x 0) as [->|Hx0].
  - rewrite Z.pow_0_l by nia. apply Z.mod_0_l. lia.
  - rewrite Z.pow_add_r, Z.pow_1_r by nia.
    rewrite (Z.mul_comm k), Z.pow_mul_r by lia.
    rewrite <- Z.mul_mod_idemp_r by lia.
    rewrite Zpower_mod by lia.
    rewrite fermat_pm1 by (auto; rewrite Z.mod_small; lia).
    rewrite Z.pow_1_l by lia. rewrite Z.mod_1_l by lia.
    rewrite Z.mul_1_r. apply Z.mod_small. exact Hx.
Qed.

Lemma pow_pow_mod p x a b : 1 < p -> 0 <= a -> 0 <= b -> (x ^ a mod p) ^ b mod p = x ^ (a * b) mod p.
Proof. intros Hp Ha Hb. rewrite <- Zpower_mod by lia. now rewrite Z.pow_mul_r by lia. Qed.

(* ALPHA * INV_ALPHA = 1 (mod p - 1) for the constants declared in the sources (used only by the crate's tests there) *)
Lemma alpha64_inverse : rp64_ALPHA * rp64_INV_ALPHA = 1 + 4 * (M64 - 1) /\ rp64_ALPHA = 7 /\
  rp64_INV_ALPHA = 10540996611094048183 /\ jive_ALPHA = 7 /\ jive_INV_ALPHA = 10540996611094048183.
Proof. vm_compute. repeat split; reflexivity. Qed.
Lemma alpha62_inverse : rp62_ALPHA * rp62_INV_ALPHA = 1 + 2 * (M62 - 1) /\ rp62_ALPHA = 3 /\ rp62_INV_ALPHA = 3074416663688030891.
Proof. vm_compute. repeat split; reflexivity. Qed.

(* inv_sbox_spec / sbox_inv_sbox: the two S-boxes are mutually inverse permutations of Z/p *)
Theorem inv_sbox_spec_64 : forall x, 0 <= x < M64 -> exp7 M64 (inv_sbox64 M64 x) = x.
Proof.
  intros x Hx. assert (Hp : 1 < M64) by (unfold M64; lia).
  rewrite exp7_pow, inv_sbox64_pow by exact Hp. rewrite pow_pow_mod by lia.
  replace (10540996611094048183 * 7) with (1 + 4 * (M64 - 1)) by (vm_compute; reflexivity).
  apply pow_fermat_cycle; [exact M64_prime | exact Hx | lia].
Qed.
Theorem sbox_inv_sbox_64 : forall x, 0 <= x < M64 -> inv_sbox64 M64 (exp7 M64 x) = x.
Proof.
  intros x Hx. assert (Hp : 1 < M64) by (unfold M64; lia).
  rewrite inv_sbox64_pow, exp7_pow by exact Hp. rewrite pow_pow_mod by lia.
  replace (7 * 10540996611094048183) with (1 + 4 * (M64 - 1)) by (vm_compute; reflexivity).
  apply pow_fermat_cycle; [exact M64_prime | exact Hx | lia].
Qed.
Theorem inv_sbox_spec_62 : forall x, 0 <= x < M62 -> cube M62 (inv_sbox62 M62 x) = x.
Proof.
  intros x Hx. assert (Hp : 1 < M62) by (unfold M62; lia).
  rewrite cube_pow, inv_sbox62_pow by exact Hp. rewrite pow_pow_mod by lia.
  replace (3074416663688030891 * 3) with (1 + 2 * (M62 - 1)) by (vm_compute; reflexivity).
  apply pow_fermat_cycle; [exact M62_prime | exact Hx | lia].
Qed.
Theorem sbox_inv_sbox_62 : forall x, 0 <= x < M62 -> inv_sbox62 M62 (cube M62 x) = x.
Proof.
  intros x Hx. assert (Hp : 1 < M62) by (unfold M62; lia).
  rewrite inv_sbox62_pow, cube_pow by exact Hp. rewrite pow_pow_mod by lia.
  replace (3 * 3074416663688030891) with (1 + 2 * (M62 - 1)) by (vm_compute; reflexivity).
  apply pow_fermat_cycle; [exact M62_prime | exact Hx | lia].
Qed.

(* ------------------------------------------------------------------------------------------------ constant tables *)
Definition col (j : nat) (m : list (list Z)) : list Z := map (fun r => nth j r 0) m.
Definition mat_mul (p : Z) (a b : list (list Z)) : list (list Z) :=
  map (fun r => map (fun j => dotZ r (col j b) mod p) (seq 0 (length b))) a.
Definition identity (n : nat) : list (list Z) := map (fun i => map (fun j => if Nat.eqb i j then 1 else 0) (seq 0 n)) (seq 0 n).

(* inv_mds_spec: INV_MDS * MDS = I (mod M) for the two hashers that publish INV_MDS *)
Theorem inv_mds_spec_rp64 : mat_mul M64 rp64_INV_MDS rp64_MDS = identity 12 /\ mat_mul M64 rp64_MDS rp64_INV_MDS = identity 12.
Proof. split; vm_compute; reflexivity. Qed.
Theorem inv_mds_spec_jive : mat_mul M64 jive_INV_MDS jive_MDS = identity 8 /\ mat_mul M64 jive_MDS jive_INV_MDS = identity 8.
Proof. split; vm_compute; reflexivity. Qed.

(* shapes and ranges of the tables: width x width matrices, 7 rounds of width constants, all entries canonical *)
Definition table_ok (p : Z) (rows width : nat) (t : list (list Z)) : bool :=
  Nat.eqb (length t) rows && forallb (fun r => Nat.eqb (length r) width && forallb (fun v => (0 <=? v) && (v <? p)) r) t.
Theorem tables_wellformed :
  table_ok M64 12 12 rp64_MDS = true /\ table_ok M64 12 12 rp64_INV_MDS = true /\ table_ok M64 7 12 rp64_ARK1 = true /\ table_ok M64 7 12 rp64_ARK2 = true /\
  table_ok M62 12 12 rp62_MDS = true /\ table_ok M62 7 12 rp62_ARK1 = true /\ table_ok M62 7 12 rp62_ARK2 = true /\
  table_ok M64 8 8 jive_MDS = true /\ table_ok M64 8 8 jive_INV_MDS = true /\ table_ok M64 7 8 jive_ARK1 = true /\ table_ok M64 7 8 jive_ARK2 = true.
Proof. vm_compute. repeat split; reflexivity. Qed.

(* the f64 MDS matrices are the circulant matrices of the first rows documented in mds_f64_12x12.rs / mds_f64_8x8.rs *)
Definition rot_right (k : nat) (l : list Z) : list Z := skipn (length l - k) l ++ firstn (length l - k) l.
Definition circulant (row : list Z) : list (list Z) := map (fun i => rot_right i row) (seq 0 (length row)).
Theorem mds_circulant :
  rp64_MDS = circulant [7; 23; 8; 26; 13; 10; 9; 7; 6; 22; 21; 8] /\ jive_MDS = circulant [23; 8; 13; 10; 7; 6; 21; 8].
Proof. split; vm_compute; reflexivity. Qed.

(* ------------------------------------------------------------------------------------------------ permutation_spec *)
(* the textbook Rescue-XLIX round: power S-box, MDS product, round constants, inverse power S-box, MDS product, constants *)
Definition textbook_round (p alpha inv_alpha : Z) (mds ark1 ark2 : list (list Z)) (s : list Z) (r : nat) : list Z :=
  let s := map (fun x => x ^ alpha mod p) s in
  let s := mat_vec p mds s in
  let s := add_constants p s (nth r ark1 []) in
  let s := map (fun x => x ^ inv_alpha mod p) s in
  let s := mat_vec p mds s in
  add_constants p s (nth r ark2 []).
Definition textbook_permutation p alpha inv_alpha mds ark1 ark2 (s : list Z) : list Z :=
  fold_left (textbook_round p alpha inv_alpha mds ark1 ark2) (seq 0 7) s.

Lemma round_eq p P alpha inv_alpha : 1 < p ->
  (forall x, rp_sbox P x = x ^ alpha mod p) -> (forall x, rp_inv_sbox P x = x ^ inv_alpha mod p) ->
  forall s r, apply_round p P s r = textbook_round p alpha inv_alpha (rp_mds P) (rp_ark1 P) (rp_ark2 P) s r.
Proof.
  intros Hp Hs Hi s r. unfold apply_round, textbook_round. cbv zeta.
  rewrite (map_ext _ _ Hs). rewrite (map_ext _ _ Hi). reflexivity.
Qed.

Lemma permutation_eq p P alpha inv_alpha : 1 < p ->
  (forall x, rp_sbox P x = x ^ alpha mod p) -> (forall x, rp_inv_sbox P x = x ^ inv_alpha mod p) ->
  forall s, apply_permutation p P s = textbook_permutation p alpha inv_alpha (rp_mds P) (rp_ark1 P) (rp_ark2 P) s.
Proof.
  intros Hp Hs Hi s. unfold apply_permutation, textbook_permutation.
  generalize (seq 0 7). intros l. revert s. induction l as [|r l IH]; intros s; [reflexivity|].
  cbn [fold_left]. rewrite (round_eq p P alpha inv_alpha Hp Hs Hi). apply IH.
Qed.

Theorem permutation_spec_rp64 : forall s,
  rp64_permutation s = textbook_permutation M64 rp64_ALPHA rp64_INV_ALPHA rp64_MDS rp64_ARK1 rp64_ARK2 s.
Proof.
  intros s. unfold rp64_permutation.
  apply (permutation_eq M64 rp64_params 7 10540996611094048183); [unfold M64; lia | |]; intros x; cbn [rp_sbox rp_inv_sbox rp64_params].
  - apply exp7_pow. unfold M64; lia.
  - apply inv_sbox64_pow. unfold M64; lia.
Qed.
Theorem permutation_spec_jive : forall s,
  jive_permutation s = textbook_permutation M64 jive_ALPHA jive_INV_ALPHA jive_MDS jive_ARK1 jive_ARK2 s.
Proof.
  intros s. unfold jive_permutation.
  apply (permutation_eq M64 jive_params 7 10540996611094048183); [unfold M64; lia | |]; intros x; cbn [rp_sbox rp_inv_sbox jive_params].
  - apply exp7_pow. unfold M64; lia.
  - apply inv_sbox64_pow. unfold M64; lia.
Qed.
Theorem permutation_spec_rp62 : forall s,
  rp62_permutation s = textbook_permutation M62 rp62_ALPHA rp62_INV_ALPHA rp62_MDS rp62_ARK1 rp62_ARK2 s.
Proof.
  intros s. unfold rp62_permutation.
  apply (permutation_eq M62 rp62_params 3 3074416663688030891); [unfold M62; lia | |]; intros x; cbn [rp_sbox rp_inv_sbox rp62_params].
  - apply cube_pow. unfold M62; lia.
  - apply inv_sbox62_pow. unfold M62; lia.
Qed.
