(* C05 / C15 — non-vacuity: a concrete run of the executable instantiation (Model/FriInst.v: f64 on canonical
   residues, ToyHasher, Merkle model, DefaultRandomCoin model).  The model prover's proof for the evaluations of
   3 + x over the coset 7*<g> of size 8 (blowup 2, folding 2, remainder max degree 1: one FRI layer), queried at
   positions 1, 5, 6 (1 and 5 collide after folding), is accepted by the model verifier; with the remainder changed
   after the fact the repaired verifier answers RemainderCommitmentMismatch. *)
From Coq Require Import List ZArith.
From VBase Require Import FieldOps ZpOps.
From VModel Require Import Fri FriInst.
Import ListNotations.

Definition ex_opts := mkOpts 2 2 1.
Definition ex_positions : list nat := [1; 5; 6]%nat.
Definition ex_evals : list Z :=
  map (fun i => ((3 + 7 * zpow_mod P64 (rou64 3) (Z.of_nat i)) mod P64)%Z) (seq 0 8).
Definition ex_run (tamper : Z) : option (nat * run_res * run_res) :=
  match prove64 ex_opts (coin0 8) ex_evals ex_positions with
  | Ok (cs, proof, _) =>
      let proof' := mkProof (fp_layers proof) (map (fun c => ((c + tamper) mod P64)%Z) (fp_remainder proof)) 1 in
      let at_pos := map (fun p => nth p ex_evals 0%Z) ex_positions in
      Some (length (fp_layers proof),
            verif64 true true ex_opts (coin0 8) proof' cs 3 8 at_pos ex_positions,
            verif64 true false ex_opts (coin0 8) proof' cs 3 8 at_pos ex_positions)
  | _ => None
  end.

Lemma ex_honest_accepted : ex_run 0 = Some (1%nat, RunVerdict (Ok tt), RunVerdict (Ok tt)).
Proof. vm_compute. reflexivity. Qed.

Lemma ex_changed_remainder_rejected :
  ex_run 1 = Some (1%nat, RunVerdict (Err RemainderCommitmentMismatch), RunVerdict (Err InvalidRemainderFolding)).
Proof. vm_compute. reflexivity. Qed.
