(* C05 — what the model verifier (Model/Fri.v verify_generic, repaired code) enforces: it accepts IFF
   (a) every layer opening authenticates against the layer commitment,
   (b) the values carried into a layer are the opened ones, and the value carried to the next layer is the
       interpolant of the opened row at that layer's alpha,
   (c) the degree-truncation condition holds at every layer,
   (d) |remainder| <= allowed, (e) the remainder evaluates to the last folded values at every folded position,
   (f) the remainder hashes to the commitment that follows the layer commitments.
   Each condition is read off the code by inverting the model function; both directions are proved.
   The unrepaired verifier is characterised by the same conditions WITHOUT (f), and the adaptive-remainder
   attack is a theorem about it.  stdlib style. *)
From Coq Require Import List Arith Bool Lia.
From VBase Require Import FieldOps.
From VModel Require Import Fri.
Import ListNotations.

Local Arguments mkVCh {F D MN}.
Local Arguments vc_commitments {F D MN}.
Local Arguments vc_proofs {F D MN}.
Local Arguments vc_queries {F D MN}.
Local Arguments vc_remainder {F D MN}.
Local Arguments vc_partitions {F D MN}.
Local Arguments mkVS {F D MN}.
Local Arguments vs_gen {F D MN}.
Local Arguments vs_size {F D MN}.
Local Arguments vs_mdp1 {F D MN}.
Local Arguments vs_positions {F D MN}.
Local Arguments vs_evals {F D MN}.
Local Arguments vs_chan {F D MN}.
Local Arguments v_max_poly_degree {F D}.
Local Arguments v_domain_size {F D}.
Local Arguments v_domain_generator {F D}.
Local Arguments v_commitments {F D}.
Local Arguments v_alphas {F D}.
Local Arguments v_options {F D}.
Local Arguments v_partitions {F D}.
Local Arguments folding_roots_of {F} O {D}.

Section Accept.
Context {F : Type} (O : FOps F) (L : FLaws O).
Variable gen_offset : F.
Variable dbg : bool.
Variable D : Type.
Variable D_eqb : D -> D -> bool.
Hypothesis D_eqb_spec : forall a b, D_eqb a b = true <-> a = b.
Variable hash_elements : list F -> D.
Variable MN : Type.
Variable mt_verify_batch : D -> list nat -> list D -> MN -> nat -> auth_res.

Local Notation verifier := (@verifier F D).
Local Notation vchannel := (@vchannel F D MN).
Local Notation vstate := (@vstate F D MN).
Local Notation layer_step := (layer_step O gen_offset dbg D MN mt_verify_batch).
Local Notation layers_loop := (layers_loop O gen_offset dbg D MN mt_verify_batch).
Local Notation verify_remainder := (verify_remainder O gen_offset D D_eqb hash_elements MN).
Local Notation verify_generic_gen := (verify_generic_gen O gen_offset dbg D D_eqb hash_elements MN mt_verify_batch).

Lemma list_feqb_spec : forall a b, list_feqb O a b = true <-> a = b.
Proof.
  induction a as [|x a IH]; destruct b as [|y b]; cbn; try (split; [discriminate | discriminate]); [tauto|].
  rewrite andb_true_iff, IH, (fl_eqb_spec O L). split; [intros [-> ->]; reflexivity | intros [= -> ->]; auto].
Qed.

Lemma bind_Ok {A B} (r : res A) (f : A -> res B) b :
  bind r f = Ok b <-> exists a, r = Ok a /\ f a = Ok b.
Proof.
  destruct r; cbn; split; try (intros [a0 [H _]]; discriminate); try discriminate.
  - eauto.
  - intros [a0 [[= ->] H]]. exact H.
Qed.

(* the channel after one layer has been read *)
Definition chan_tail (c : vchannel) : vchannel :=
  mkVCh (vc_commitments c) (tl (vc_proofs c)) (tl (vc_queries c)) (vc_remainder c) (vc_partitions c).

(* ---------------------------------------------------------------- one layer *)
Definition layer_accepts (N : nat) (v : verifier) (roots : list F) (depth : nat) (s s' : vstate) : Prop :=
  exists folded indexes commitment leaves nodes d q rows alpha,
    fold_positions (vs_positions s) (vs_size s) (fo_folding (v_options v)) = Ok folded /\
    map_positions_to_indexes folded (vs_size s) (fo_folding (v_options v)) (v_partitions v) = Ok indexes /\
    nth_error (v_commitments v) depth = Some commitment /\
    hd_error (vc_proofs (vs_chan s)) = Some (leaves, nodes, d) /\
    (* (a) the opening authenticates against the layer commitment *)
    mt_verify_batch commitment indexes leaves nodes d = AuthOk /\
    hd_error (vc_queries (vs_chan s)) = Some q /\
    group_slice N q = Ok rows /\
    (* (b) the values carried into this layer are the ones found in the opened rows *)
    get_query_values N rows (vs_positions s) folded (vs_size s) = Ok (vs_evals s) /\
    (if dbg then length rows = length folded else length folded <= length rows) /\
    nth_error (v_alphas v) depth = Some alpha /\
    (* (c) no degree truncation *)
    vs_mdp1 s mod N = 0 /\
    (* (b) the value carried to the next layer is the interpolant of the opened row at alpha *)
    s' = mkVS (fexp O (vs_gen s) N) (vs_size s / N) (vs_mdp1 s / N) folded
              (map2 (fun x r => interp_eval O x r alpha) (map (row_xs O gen_offset roots (vs_gen s)) folded) rows)
              (chan_tail (vs_chan s)).

Lemma idx_Ok {A} (l : list A) i a : idx l i = Ok a <-> nth_error l i = Some a.
Proof. unfold idx. destruct (nth_error l i); cbn; split; congruence. Qed.

Theorem layer_step_accepts : forall N v roots depth s s',
  layer_step N v roots depth s = Ok s' <-> layer_accepts N v roots depth s s'.
Proof.
  intros N v roots depth s s'. unfold Fri.layer_step, layer_accepts. split.
  - intros H.
    apply bind_Ok in H. destruct H as [folded [Hf H]].
    apply bind_Ok in H. destruct H as [indexes [Hi H]].
    apply bind_Ok in H. destruct H as [commitment [Hc H]]. apply idx_Ok in Hc.
    apply bind_Ok in H. destruct H as [[ch' rows] [Hr H]].
    apply bind_Ok in H. destruct H as [qv [Hq H]].
    unfold read_layer_queries in Hr.
    destruct (vc_proofs (vs_chan s)) as [|[[leaves nodes] d] proofs'] eqn:Ep; [discriminate|].
    destruct (mt_verify_batch commitment indexes leaves nodes d) eqn:Ea; try discriminate.
    destruct (vc_queries (vs_chan s)) as [|q queries'] eqn:Eq; [discriminate|].
    apply bind_Ok in Hr. destruct Hr as [rows0 [Hg Hr]]. injection Hr as <- <-.
    destruct (list_feqb O (vs_evals s) qv) eqn:El; cbn [negb] in H; [|discriminate].
    apply list_feqb_spec in El. subst qv.
    rewrite map_length in H.
    destruct (dbg && negb (length folded =? length rows0)) eqn:Ed; [discriminate|].
    destruct (length rows0 <? length folded) eqn:Elt; [discriminate|].
    apply bind_Ok in H. destruct H as [alpha [Hal H]]. apply idx_Ok in Hal.
    destruct (vs_mdp1 s mod N =? 0) eqn:Em; cbn [negb] in H; [|discriminate].
    injection H as <-.
    exists folded, indexes, commitment, leaves, nodes, d, q, rows0, alpha.
    repeat split; auto.
    + apply Nat.ltb_ge in Elt. destruct dbg; cbn in Ed; [|assumption].
      apply negb_false_iff, Nat.eqb_eq in Ed. lia.
    + now apply Nat.eqb_eq.
    + unfold chan_tail. rewrite Ep, Eq. reflexivity.
  - intros [folded [indexes [commitment [leaves [nodes [d [q [rows [alpha
      [Hf [Hi [Hc [Hp [Ha [Hq [Hg [Hqv [Hlen [Hal [Hm ->]]]]]]]]]]]]]]]]]]]].
    rewrite Hf. cbn [bind]. rewrite Hi. cbn [bind].
    apply idx_Ok in Hc. rewrite Hc. cbn [bind]. unfold read_layer_queries.
    destruct (vc_proofs (vs_chan s)) as [|pr proofs'] eqn:Ep; [discriminate|]. injection Hp as ->.
    rewrite Ha.
    destruct (vc_queries (vs_chan s)) as [|q0 queries'] eqn:Eq; [discriminate|]. injection Hq as ->.
    rewrite Hg. cbn [bind]. rewrite Hqv. cbn [bind].
    rewrite (proj2 (list_feqb_spec _ _) eq_refl). cbn [negb].
    rewrite map_length.
    assert (E1 : dbg && negb (length folded =? length rows) = false).
    { destruct dbg; [|reflexivity]. cbn. rewrite Hlen, Nat.eqb_refl. reflexivity. }
    rewrite E1.
    assert (E2 : (length rows <? length folded) = false).
    { apply Nat.ltb_ge. destruct dbg; lia. }
    rewrite E2. apply idx_Ok in Hal. rewrite Hal. cbn [bind].
    rewrite Hm. cbn [Nat.eqb negb]. unfold chan_tail. rewrite Ep, Eq. reflexivity.
Qed.

(* ---------------------------------------------------------------- all layers *)
Fixpoint layers_accept (k N : nat) (v : verifier) (roots : list F) (depth : nat) (s s' : vstate) : Prop :=
  match k with
  | 0 => s' = s
  | S k' => exists s1, layer_accepts N v roots depth s s1 /\ layers_accept k' N v roots (S depth) s1 s'
  end.

Theorem layers_loop_accepts : forall k N v roots depth s s',
  layers_loop k N v roots depth s = Ok s' <-> layers_accept k N v roots depth s s'.
Proof.
  induction k as [|k IH]; intros N v roots depth s s'; cbn [Fri.layers_loop layers_accept].
  - split; [intros [= ->] | intros ->]; reflexivity.
  - rewrite bind_Ok. split; intros [s1 [A B]]; exists s1.
    + split; [now apply layer_step_accepts | now apply IH].
    + split; [now apply layer_step_accepts | now apply IH].
Qed.

(* ---------------------------------------------------------------- remainder *)
(* (e): the remainder polynomial evaluates to the carried value at every folded position (pairs of the zip) *)
Definition remainder_agrees (remainder : list F) (g : F) (positions : list nat) (evals : list F) : Prop :=
  forall i p e, nth_error positions i = Some p -> nth_error evals i = Some e ->
    peval O remainder (fmul O gen_offset (fexp O g p)) = e.

Lemma remainder_check_spec : forall remainder g positions evals,
  remainder_check O gen_offset remainder g positions evals = true <-> remainder_agrees remainder g positions evals.
Proof.
  intros remainder g. unfold remainder_agrees.
  induction positions as [|p ps IH]; intros evals; cbn [remainder_check].
  - split; [intros _ [|i] ? ? H; discriminate | reflexivity].
  - destruct evals as [|e es].
    + split; [intros _ i ? ? _ H; destruct i; discriminate | reflexivity].
    + rewrite andb_true_iff, (fl_eqb_spec O L), IH. unfold eval_horner. split.
      * intros [A B] [|i] p0 e0 Hp He; cbn in Hp, He; [congruence | eauto].
      * intros H. split; [apply (H 0); reflexivity | intros i p0 e0 Hp He; apply (H (S i)); assumption].
Qed.

Definition remainder_accepts (check_commitment : bool) (v : verifier) (num_layers : nat) (s : vstate) : Prop :=
  let remainder := vc_remainder (vs_chan s) in
  (* (f) the remainder is bound to the commitment sent after the layer commitments *)
  (check_commitment = true -> nth_error (v_commitments v) num_layers = Some (hash_elements remainder)) /\
  (* (d) *)
  length remainder <= vs_mdp1 s /\
  (* (e) *)
  remainder_agrees remainder (vs_gen s) (vs_positions s) (vs_evals s).

Theorem verify_remainder_accepts : forall check v num_layers s,
  verify_remainder check v num_layers s = Ok tt <-> remainder_accepts check v num_layers s.
Proof.
  intros check v num_layers s. unfold Fri.verify_remainder, remainder_accepts. cbv zeta.
  destruct check; cbn [andb].
  - destruct (nth_error (v_commitments v) num_layers) as [c|] eqn:Ec.
    + destruct (D_eqb c (hash_elements (vc_remainder (vs_chan s)))) eqn:Eh; cbn [negb].
      * apply D_eqb_spec in Eh. subst c.
        destruct (vs_mdp1 s <? length (vc_remainder (vs_chan s))) eqn:El.
        -- apply Nat.ltb_lt in El. split; [discriminate | intros [_ [H _]]; lia].
        -- apply Nat.ltb_ge in El.
           destruct (remainder_check O gen_offset _ _ _ _) eqn:Er.
           ++ apply remainder_check_spec in Er. split; auto.
           ++ split; [discriminate|]. intros [_ [_ H]]. apply remainder_check_spec in H. congruence.
      * split; [discriminate|]. intros [H _]. specialize (H eq_refl). injection H as ->.
        rewrite (proj2 (D_eqb_spec _ _) eq_refl) in Eh. discriminate.
    + cbn [negb]. split; [discriminate | intros [H _]; specialize (H eq_refl); discriminate].
  - destruct (vs_mdp1 s <? length (vc_remainder (vs_chan s))) eqn:El.
    + apply Nat.ltb_lt in El. split; [discriminate | intros [_ [H _]]; lia].
    + apply Nat.ltb_ge in El.
      destruct (remainder_check O gen_offset _ _ _ _) eqn:Er.
      * apply remainder_check_spec in Er. split; auto. intros _. split; [discriminate | auto].
      * split; [discriminate|]. intros [_ [_ H]]. apply remainder_check_spec in H. congruence.
Qed.

(* ---------------------------------------------------------------- the verifier *)
Definition initial_state (v : verifier) (ch : vchannel) (evaluations : list F) (positions : list nat) : vstate :=
  mkVS (v_domain_generator v) (v_domain_size v) (v_max_poly_degree v + 1) positions evaluations ch.

Definition fri_accepts (check_commitment : bool) (N : nat) (v : verifier) (ch : vchannel)
  (evaluations : list F) (positions : list nat) : Prop :=
  N <> 0 /\
  exists num_layers s,
    num_fri_layers (v_options v) (v_domain_size v) = Some num_layers /\
    layers_accept num_layers N v (folding_roots_of O N v) 0 (initial_state v ch evaluations positions) s /\
    remainder_accepts check_commitment v num_layers s.

Theorem fri_accept_iff_gen : forall check N v ch evaluations positions,
  verify_generic_gen check N v ch evaluations positions = Ok tt <->
  fri_accepts check N v ch evaluations positions.
Proof.
  intros check N v ch evaluations positions. unfold Fri.verify_generic_gen, fri_accepts.
  destruct (N =? 0) eqn:EN.
  - apply Nat.eqb_eq in EN. split; [discriminate | intros [H _]; contradiction].
  - apply Nat.eqb_neq in EN. rewrite bind_Ok. split.
    + intros [nl [Hn H]]. split; [assumption|].
      destruct (num_fri_layers (v_options v) (v_domain_size v)) as [k|]; [|discriminate]. injection Hn as <-.
      apply bind_Ok in H. destruct H as [s [Hl Hr]]. exists k, s.
      split; [reflexivity|]. split; [now apply layers_loop_accepts | now apply verify_remainder_accepts].
    + intros [_ [k [s [Hk [Hl Hr]]]]]. exists k. rewrite Hk. split; [reflexivity|].
      apply bind_Ok. exists s. split; [now apply layers_loop_accepts | now apply verify_remainder_accepts].
Qed.

(* the repaired verifier: conditions (a)-(f) *)
Corollary fri_accept_iff : forall N v ch evaluations positions,
  verify_generic O gen_offset dbg D D_eqb hash_elements MN mt_verify_batch N v ch evaluations positions = Ok tt <->
  fri_accepts true N v ch evaluations positions.
Proof. intros. apply fri_accept_iff_gen. Qed.

(* the verifier before the repair: the same WITHOUT (f) *)
Corollary fri_accept_iff_unrepaired : forall N v ch evaluations positions,
  verify_generic_unrepaired O gen_offset dbg D D_eqb hash_elements MN mt_verify_batch N v ch evaluations positions = Ok tt <->
  fri_accepts false N v ch evaluations positions.
Proof. intros. apply fri_accept_iff_gen. Qed.

(* every transcript accepted by the repaired verifier is accepted by the unrepaired one *)
Corollary repaired_implies_unrepaired : forall N v ch evaluations positions,
  fri_accepts true N v ch evaluations positions -> fri_accepts false N v ch evaluations positions.
Proof.
  intros N v ch e p [HN [k [s [A [B [C1 [C2 C3]]]]]]]. split; [assumption|]. exists k, s.
  split; [assumption|]. split; [assumption|]. split; [discriminate | auto].
Qed.

(* ---------------------------------------------------------------- the remainder is read only at the end *)
Definition with_remainder (c : vchannel) (r : list F) : vchannel :=
  mkVCh (vc_commitments c) (vc_proofs c) (vc_queries c) r (vc_partitions c).
Definition state_with_remainder (s : vstate) (r : list F) : vstate :=
  mkVS (vs_gen s) (vs_size s) (vs_mdp1 s) (vs_positions s) (vs_evals s) (with_remainder (vs_chan s) r).

Lemma layer_accepts_with_remainder N v roots depth s s' r :
  layer_accepts N v roots depth s s' ->
  layer_accepts N v roots depth (state_with_remainder s r) (state_with_remainder s' r).
Proof.
  intros [folded [indexes [commitment [leaves [nodes [d [q [rows [alpha H]]]]]]]]].
  exists folded, indexes, commitment, leaves, nodes, d, q, rows, alpha. cbn.
  decompose [and] H. subst s'. repeat split; auto.
Qed.

Lemma layers_accept_with_remainder : forall k N v roots depth s s' r,
  layers_accept k N v roots depth s s' ->
  layers_accept k N v roots depth (state_with_remainder s r) (state_with_remainder s' r).
Proof.
  induction k as [|k IH]; intros N v roots depth s s' r; cbn [layers_accept].
  - intros ->. reflexivity.
  - intros [s1 [A B]]. exists (state_with_remainder s1 r).
    split; [now apply layer_accepts_with_remainder | now apply IH].
Qed.

(* The adaptive-remainder attack on the UNREPAIRED verifier: if a transcript is accepted, then the same
   transcript with ANY other remainder that is short enough and takes the same values at the folded last-layer
   positions (e.g. R + c * prod (x - x_p), or the interpolant through the opened values — both computable once
   the positions are known) is accepted as well; the commitments are irrelevant. *)
Theorem adaptive_remainder_accepted_unrepaired : forall N v ch evaluations positions r',
  fri_accepts false N v ch evaluations positions ->
  (forall num_layers s,
     num_fri_layers (v_options v) (v_domain_size v) = Some num_layers ->
     layers_accept num_layers N v (folding_roots_of O N v) 0 (initial_state v ch evaluations positions) s ->
     length r' <= vs_mdp1 s /\ remainder_agrees r' (vs_gen s) (vs_positions s) (vs_evals s)) ->
  fri_accepts false N v (with_remainder ch r') evaluations positions.
Proof.
  intros N v ch evaluations positions r' [HN [k [s [Hk [Hl _]]]]] Hr.
  split; [assumption|]. exists k, (state_with_remainder s r'). split; [assumption|]. split.
  - apply (layers_accept_with_remainder k N v _ 0 _ s r') in Hl. exact Hl.
  - destruct (Hr k s Hk Hl) as [A B]. split; [discriminate|]. split; assumption.
Qed.

(* ... and the repaired verifier rejects it with RemainderCommitmentMismatch unless the new remainder hashes
   to the committed value *)
Theorem adaptive_remainder_rejected : forall N v ch evaluations positions r' num_layers,
  num_fri_layers (v_options v) (v_domain_size v) = Some num_layers ->
  nth_error (v_commitments v) num_layers <> Some (hash_elements r') ->
  ~ fri_accepts true N v (with_remainder ch r') evaluations positions.
Proof.
  intros N v ch evaluations positions r' nl Hn Hne [_ [k [s [Hk [Hl [Hf _]]]]]].
  rewrite Hn in Hk. injection Hk as <-. specialize (Hf eq_refl).
  assert (E : vc_remainder (vs_chan s) = r').
  { clear Hf Hne Hn.
    assert (G : forall k depth s0 s1, layers_accept k N v (folding_roots_of O N v) depth s0 s1 ->
                vc_remainder (vs_chan s1) = vc_remainder (vs_chan s0)).
    { induction k as [|k IH]; intros depth s0 s1; cbn [layers_accept].
      - intros ->. reflexivity.
      - intros [s2 [A B]]. rewrite (IH _ _ _ B).
        destruct A as [? [? [? [? [? [? [? [? [? A]]]]]]]]]. decompose [and] A. subst s2. reflexivity. }
    rewrite (G _ _ _ _ Hl). reflexivity. }
  rewrite E in Hf. contradiction.
Qed.

End Accept.
