(* C09/C14: the row ([[B; N]]) instance of the four-step FFT — prover/src/matrix/segments.rs mod concurrent —
   and the equality of the concurrent and serial branches of Segment::new_with_buffer.  split_radix_fft at the
   pointwise operations `rows_ops O N` acts on every column as the scalar split_radix_fft (column projection commutes
   with every stage: transposition by specification, strided row FFTs through fft_in_place_spec + brfft_col,
   outer twiddles, row FFTs), the scalar one equals fft_in_place (C09_split_radix_is_fft), and so does the serial row
   FFT column by column.  stdlib style. *)
From Coq Require Import List Arith Bool ZArith NArith Lia.
From VBase Require Import FieldOps.
From VModel Require Import FFT FFTSplit.
From VProofs Require Import FFTSpec FFTRefine FFTEval FFTOffset FFTSegments FFTTranspose.
From VProofs Require FFTSplit.
Import ListNotations.

Lemma map2_repeat {A B C} (f : A -> B -> C) a b : forall n, map2 f (repeat a n) (repeat b n) = repeat (f a b) n.
Proof. induction n; cbn; [reflexivity | f_equal; exact IHn]. Qed.

(* the two phases of the algorithm, named (transposition by specification) *)
Definition st12 {F} (O : FOps F) (I st Ou : nat) (tw x : list F) : list F :=
  concat (map (fun row => fft_in_place O (length row) row tw st st 0) (rows_of (transpose_spec O I st x) Ou)).

Definition st34 {F} (O : FOps F) (I st Ou : nat) (tw : list F) (g : F) (v2 : list F) : list F :=
  concat (map (fun ir =>
                 fft_in_place_top O
                   (if 0 <? fst ir then scale_row O (snd ir) (fpow_N O g (N.of_nat (permute_index I (fst ir)))) else snd ir) tw)
              (combine (seq 0 I) (rows_of (transpose_spec O I st v2) Ou))).

Lemma spec_tr_unfold {F} (O : FOps F) (x tw : list F) :
  split_radix_fft_spec_tr O x tw =
    let n := length x in
    let I := 2 ^ (Nat.log2 n / 2) in
    let Ou := n / I in
    let st := Ou / I in
    if length x =? I * I * st then
      if length (st12 O I st Ou tw x) =? I * I * st
      then Some (st34 O I st Ou tw (vget O tw (length tw / 2)) (st12 O I st Ou tw x))
      else None
    else None.
Proof.
  unfold split_radix_fft_spec_tr, split_radix_fft_with, st12, st34. cbv zeta.
  destruct (length x =? _); cbn [negb]; [|reflexivity].
  destruct (length (concat _) =? _); cbn [negb]; reflexivity.
Qed.

Section RowsSplit.
Context {F : Type} (O : FOps F) (L : FLaws O).
Variable N : nat.
Variable tw : list F.
Local Notation fz := (fzero O).
Local Notation OR := (rows_ops O N).
Local Notation rtw := (map (fun t => repeat t N) tw).
Local Notation zr := (fzero (rows_ops O N)).
Local Notation wf := (@wf_rows F N).
Local Notation col := (col O).

Lemma col_length t rows : length (col t rows) = length rows.
Proof. unfold FFTSegments.col. apply map_length. Qed.

Lemma wf_nth rows p : wf rows -> length (nth p rows zr) = N.
Proof.
  intros H. destruct (Nat.lt_ge_cases p (length rows)) as [Hp | Hp].
  - unfold wf_rows in H. rewrite Forall_forall in H. apply H. apply nth_In. exact Hp.
  - rewrite nth_overflow by exact Hp. cbn. apply repeat_length.
Qed.

Lemma wf_firstn n rows : wf rows -> wf (firstn n rows).
Proof. revert n. induction rows; intros n H; destruct n; cbn; try constructor; inversion H; subst; auto. apply IHrows; auto. Qed.

Lemma wf_skipn n rows : wf rows -> wf (skipn n rows).
Proof. revert n. induction rows; intros n H; destruct n; cbn; auto. inversion H; subst. apply IHrows; auto. Qed.

Lemma wf_concat (ls : list (list (list F))) : (forall l, In l ls -> wf l) -> wf (concat ls).
Proof.
  induction ls; intros H; cbn; [constructor|]. apply Forall_app. split; [apply H; left; reflexivity|].
  apply IHls. intros; apply H; right; assumption.
Qed.

Lemma col_concat t (ls : list (list (list F))) : col t (concat ls) = concat (map (col t) ls).
Proof. unfold FFTSegments.col. apply concat_map. Qed.

Lemma eq_by_cols : forall a b : list (list F), wf a -> wf b -> length a = length b ->
  (forall t, t < N -> col t a = col t b) -> a = b.
Proof.
  induction a as [|r a IH]; destruct b as [|r' b]; cbn [length]; intros Ha Hb Hl Hc; try lia; [reflexivity|].
  inversion Ha as [|? ? Hr Ha']. inversion Hb as [|? ? Hr' Hb']. f_equal.
  - apply nth_ext with (d := fz) (d' := fz); [lia|]. intros t Ht. rewrite Hr in Ht.
    specialize (Hc t Ht). unfold FFTSegments.col in Hc. cbn [map] in Hc. injection Hc as E1 _. exact E1.
  - apply IH; [exact Ha' | exact Hb' | lia |]. intros t Ht.
    specialize (Hc t Ht). unfold FFTSegments.col in *. cbn [map] in Hc. injection Hc as _ E2. exact E2.
Qed.

(* ---------------------------------------------------------------- stages commute with the column projection *)
Lemma col_transpose_spec t I st rows : wf rows ->
  col t (transpose_spec OR I st rows) = transpose_spec O I st (col t rows) /\ wf (transpose_spec OR I st rows).
Proof.
  intros Hwf. unfold transpose_spec. split.
  - unfold FFTSegments.col at 1. rewrite map_map, col_length. apply map_ext. intros p.
    symmetry. apply (col_nth O N).
  - unfold wf_rows. apply Forall_forall. intros r Hr. apply in_map_iff in Hr. destruct Hr as (p & <- & _).
    apply wf_nth. exact Hwf.
Qed.

Lemma col_sub t rows j s m : col t (FFTRefine.sub OR rows j s m) = FFTRefine.sub O (col t rows) j s m.
Proof.
  unfold FFTRefine.sub. unfold FFTSegments.col at 1. rewrite map_map. apply map_ext. intros q.
  symmetry. apply (col_nth O N).
Qed.

Lemma wf_sub rows j s m : wf rows -> wf (FFTRefine.sub OR rows j s m).
Proof.
  intros H. unfold FFTRefine.sub, wf_rows. apply Forall_forall. intros r Hr. apply in_map_iff in Hr.
  destruct Hr as (q & <- & _). apply wf_nth. exact H.
Qed.

Lemma fft_in_place_col t K' fuel rows count s offset :
  t < N -> wf rows -> K' <= fuel -> 0 < s -> length rows = 2 ^ S K' * s -> offset + count <= s ->
  col t (fft_in_place OR fuel rows rtw count s offset) = fft_in_place O fuel (col t rows) tw count s offset /\
  wf (fft_in_place OR fuel rows rtw count s offset).
Proof.
  intros Ht Hwf Hf Hs Hl Hoc.
  destruct (fft_in_place_spec OR rtw K' fuel rows count s offset Hf Hs Hl Hoc) as [La Na].
  destruct (fft_in_place_spec O tw K' fuel (col t rows) count s offset Hf Hs ltac:(rewrite col_length; exact Hl) Hoc) as [Lb Nb].
  assert (Hdec : forall p, p < length rows -> exists j q, j < s /\ q < 2 ^ S K' /\ p = j + s * q).
  { intros p Hp. exists (p mod s), (p / s). pose proof (Nat.div_mod p s ltac:(lia)). pose proof (Nat.mod_upper_bound p s ltac:(lia)).
    repeat split; try lia. apply Nat.div_lt_upper_bound; [lia | rewrite Nat.mul_comm, <- Hl; exact Hp]. }
  split.
  - apply nth_ext with (d := fz) (d' := fz); [rewrite col_length, La, Lb, col_length; reflexivity|].
    rewrite col_length, La. intros p Hp. destruct (Hdec p Hp) as (j & q & Hj & Hq & ->).
    rewrite (col_nth O N), (Na j q Hj Hq), (Nb j q Hj Hq).
    destruct (in_rng offset count j).
    + rewrite <- (col_nth O N).
      destruct (brfft_col O N tw t Ht (S K') _ (wf_sub rows j s (2 ^ S K') Hwf)) as [E _].
      rewrite E, col_sub. reflexivity.
    + rewrite <- (col_nth O N). reflexivity.
  - unfold wf_rows. apply Forall_forall. intros r Hr. apply (In_nth _ _ zr) in Hr. destruct Hr as (p & Hp & <-).
    rewrite La in Hp. destruct (Hdec p Hp) as (j & q & Hj & Hq & ->). rewrite (Na j q Hj Hq).
    destruct (in_rng offset count j); [| apply wf_nth; exact Hwf].
    destruct (brfft_col O N tw 0 (Nat.lt_le_trans _ _ _ (Nat.lt_0_succ t) Ht) (S K') _ (wf_sub rows j s (2 ^ S K') Hwf)) as [_ W].
    apply wf_nth. exact W.
Qed.

Lemma fft_in_place_top_col t K' rows : t < N -> wf rows -> length rows = 2 ^ S K' ->
  col t (fft_in_place_top OR rows rtw) = fft_in_place_top O (col t rows) tw /\ wf (fft_in_place_top OR rows rtw) /\
  length (fft_in_place_top OR rows rtw) = 2 ^ S K'.
Proof.
  intros Ht Hwf Hl.
  rewrite (fft_in_place_top_brfft OR rtw K' rows Hl).
  rewrite (fft_in_place_top_brfft O tw K' (col t rows)) by (rewrite col_length; exact Hl).
  destruct (brfft_col O N tw t Ht (S K') rows Hwf) as [E W]. split; [exact E|]. split; [exact W|].
  apply brfft_length. exact Hl.
Qed.

Lemma shift_by_series_col t : t < N -> forall v a c, wf v ->
  col t (shift_by_series OR v (repeat a N) (repeat c N)) = shift_by_series O (col t v) a c /\
  wf (shift_by_series OR v (repeat a N) (repeat c N)).
Proof.
  intros Ht. induction v as [|d v IH]; intros a c Hwf; [cbn; split; [reflexivity | constructor]|].
  inversion Hwf as [|? ? Hd Hv]. cbn [shift_by_series FFTSegments.col map rows_ops fmul].
  rewrite map2_repeat. destruct (IH (fmul O a c) c Hv) as [E W].
  fold (FFTSegments.col O t (shift_by_series OR v (repeat (fmul O a c) N) (repeat c N))). rewrite E.
  rewrite (map2_nth (fmul O) fz fz fz) by (rewrite ?repeat_length; lia). rewrite nth_repeat_lt by exact Ht.
  split; [reflexivity|]. constructor; [rewrite map2_length; rewrite ?repeat_length; lia | exact W].
Qed.

Lemma scale_row_col t row it : t < N -> wf row ->
  col t (scale_row OR row (repeat it N)) = scale_row O (col t row) it /\ wf (scale_row OR row (repeat it N)) /\
  length (scale_row OR row (repeat it N)) = length row.
Proof.
  intros Ht Hwf. destruct row as [|h r]; [cbn; repeat split; constructor|].
  inversion Hwf as [|? ? Hd Hv]. cbn [scale_row FFTSegments.col map].
  destruct (shift_by_series_col t Ht r it it Hv) as [E W].
  fold (FFTSegments.col O t (shift_by_series OR r (repeat it N) (repeat it N))). rewrite E.
  split; [reflexivity|]. split; [constructor; assumption|].
  cbn [length]. f_equal. clear. generalize (repeat it N) at 1. induction r; intros; cbn; [reflexivity | f_equal; apply IHr].
Qed.

Lemma fpow_pos_rows g e : fpow_pos OR (repeat g N) e = repeat (fpow_pos O g e) N.
Proof.
  induction e; cbn [fpow_pos]; rewrite ?IHe; cbn [rows_ops fmul]; rewrite ?map2_repeat; reflexivity.
Qed.

Lemma fpow_N_rows g e : fpow_N OR (repeat g N) e = repeat (fpow_N O g e) N.
Proof. destruct e; [reflexivity | apply fpow_pos_rows]. Qed.

Lemma vget_rtw i : vget OR rtw i = repeat (vget O tw i) N.
Proof.
  unfold vget. cbn [rows_ops fzero]. change (repeat fz N) with ((fun x => repeat x N) fz). apply map_nth.
Qed.

Lemma block_col t V Ou r : col t (firstn Ou (skipn (r * Ou) V)) = firstn Ou (skipn (r * Ou) (col t V)).
Proof. unfold FFTSegments.col. rewrite skipn_map, firstn_map. reflexivity. Qed.

(* ---------------------------------------------------------------- the two phases *)
Section Sizes.
Variables K s : nat.
Let I := 2 ^ S K.
Let st := 2 ^ s.
Let Ou := 2 ^ (S K + s).

Lemma Ou_eq : Ou = I * st.
Proof. unfold Ou, I, st. apply Nat.pow_add_r. Qed.

Lemma st12_col t rows : t < N -> wf rows -> length rows = I * Ou ->
  col t (st12 OR I st Ou rtw rows) = st12 O I st Ou tw (col t rows) /\ wf (st12 OR I st Ou rtw rows) /\
  length (st12 OR I st Ou rtw rows) = I * Ou.
Proof.
  intros Ht Hwf Hl. unfold st12.
  assert (HO : 0 < Ou) by apply pow2_pos. assert (Hst : 0 < st) by apply pow2_pos.
  destruct (col_transpose_spec t I st rows Hwf) as [Et Wt].
  set (V := transpose_spec OR I st rows) in *.
  assert (LV : length V = I * Ou) by (unfold V, transpose_spec; rewrite map_length, seq_length; exact Hl).
  rewrite (VProofs.FFTSplit.rows_of_eq V Ou I HO LV), map_map.
  rewrite <- Et.
  rewrite (VProofs.FFTSplit.rows_of_eq (col t V) Ou I HO ltac:(rewrite col_length; exact LV)), map_map.
  assert (Hblk : forall r, r < I ->
            let B := firstn Ou (skipn (r * Ou) V) in
            length B = Ou /\ wf B).
  { intros r Hr. cbv zeta. split; [apply (VProofs.FFTSplit.row_length V Ou I r LV Hr) | apply wf_firstn, wf_skipn; exact Wt]. }
  assert (Hf : forall r, r < I ->
            col t (fft_in_place OR (length (firstn Ou (skipn (r * Ou) V))) (firstn Ou (skipn (r * Ou) V)) rtw st st 0)
            = fft_in_place O (length (firstn Ou (skipn (r * Ou) (col t V)))) (firstn Ou (skipn (r * Ou) (col t V))) tw st st 0 /\
            wf (fft_in_place OR (length (firstn Ou (skipn (r * Ou) V))) (firstn Ou (skipn (r * Ou) V)) rtw st st 0) /\
            length (fft_in_place OR (length (firstn Ou (skipn (r * Ou) V))) (firstn Ou (skipn (r * Ou) V)) rtw st st 0) = Ou).
  { intros r Hr. destruct (Hblk r Hr) as [LB WB]. cbv zeta in LB, WB.
    rewrite <- block_col, col_length, LB.
    assert (HK : K <= Ou) by (unfold Ou; pose proof (Nat.pow_gt_lin_r 2 (S K + s)); lia).
    assert (HLB : length (firstn Ou (skipn (r * Ou) V)) = 2 ^ S K * st) by (rewrite LB; apply Ou_eq).
    destruct (fft_in_place_col t K Ou _ st st 0 Ht WB HK Hst HLB (le_n _)) as [E W].
    split; [exact E|]. split; [exact W|].
    destruct (fft_in_place_spec OR rtw K Ou (firstn Ou (skipn (r * Ou) V)) st st 0 HK Hst HLB (le_n _)) as [La _].
    rewrite La. exact LB. }
  split; [|split].
  - rewrite col_concat, map_map. f_equal. apply map_ext_in. intros r Hr. apply in_seq in Hr. apply Hf. lia.
  - apply wf_concat. intros l Hl'. apply in_map_iff in Hl'. destruct Hl' as (r & <- & Hr). apply in_seq in Hr. apply Hf. lia.
  - destruct (concat_uniform_gen zr (map (fun r => fft_in_place OR (length (firstn Ou (skipn (r * Ou) V)))
                  (firstn Ou (skipn (r * Ou) V)) rtw st st 0) (seq 0 I)) Ou) as [CL _].
    { intros l Hl'. apply in_map_iff in Hl'. destruct Hl' as (r & <- & Hr). apply in_seq in Hr. apply Hf. lia. }
    rewrite CL, map_length, seq_length. reflexivity.
Qed.

Lemma st34_col t g v2 : t < N -> wf v2 -> length v2 = I * Ou ->
  col t (st34 OR I st Ou rtw (repeat g N) v2) = st34 O I st Ou tw g (col t v2) /\ wf (st34 OR I st Ou rtw (repeat g N) v2) /\
  length (st34 OR I st Ou rtw (repeat g N) v2) = I * Ou.
Proof.
  intros Ht Hwf Hl. unfold st34.
  assert (HO : 0 < Ou) by apply pow2_pos.
  destruct (col_transpose_spec t I st v2 Hwf) as [Et Wt].
  set (V := transpose_spec OR I st v2) in *.
  assert (LV : length V = I * Ou) by (unfold V, transpose_spec; rewrite map_length, seq_length; exact Hl).
  rewrite (VProofs.FFTSplit.rows_of_eq V Ou I HO LV), VProofs.FFTSplit.combine_seq_map, map_map.
  rewrite <- Et.
  rewrite (VProofs.FFTSplit.rows_of_eq (col t V) Ou I HO ltac:(rewrite col_length; exact LV)),
          VProofs.FFTSplit.combine_seq_map, map_map.
  cbn [fst snd].
  set (f4 := fun r => fft_in_place_top OR
               (if 0 <? r then scale_row OR (firstn Ou (skipn (r * Ou) V)) (fpow_N OR (repeat g N) (N.of_nat (permute_index I r)))
                else firstn Ou (skipn (r * Ou) V)) rtw).
  assert (Hf : forall r, r < I ->
            col t (f4 r) = fft_in_place_top O
               (if 0 <? r then scale_row O (firstn Ou (skipn (r * Ou) (col t V))) (fpow_N O g (N.of_nat (permute_index I r)))
                else firstn Ou (skipn (r * Ou) (col t V))) tw /\ wf (f4 r) /\ length (f4 r) = Ou).
  { intros r Hr. unfold f4.
    assert (LB : length (firstn Ou (skipn (r * Ou) V)) = Ou) by apply (VProofs.FFTSplit.row_length V Ou I r LV Hr).
    assert (WB : wf (firstn Ou (skipn (r * Ou) V))) by (apply wf_firstn, wf_skipn; exact Wt).
    rewrite fpow_N_rows.
    destruct (scale_row_col t (firstn Ou (skipn (r * Ou) V)) (fpow_N O g (N.of_nat (permute_index I r))) Ht WB) as (Es & Ws & Ls).
    set (X := if 0 <? r then scale_row OR (firstn Ou (skipn (r * Ou) V)) (repeat (fpow_N O g (N.of_nat (permute_index I r))) N)
              else firstn Ou (skipn (r * Ou) V)).
    assert (HX : col t X = (if 0 <? r then scale_row O (firstn Ou (skipn (r * Ou) (col t V))) (fpow_N O g (N.of_nat (permute_index I r)))
                            else firstn Ou (skipn (r * Ou) (col t V))) /\ wf X /\ length X = 2 ^ S (K + s)).
    { unfold X. destruct (0 <? r).
      - rewrite Es, block_col. split; [reflexivity|]. split; [exact Ws | rewrite Ls, LB; reflexivity].
      - rewrite block_col. split; [reflexivity|]. split; [exact WB | exact LB]. }
    destruct HX as (EX & WX & LX).
    destruct (fft_in_place_top_col t (K + s) X Ht WX LX) as (E & W & Ln).
    rewrite <- EX. split; [exact E|]. split; [exact W | exact Ln]. }
  split; [|split].
  - rewrite col_concat, map_map. f_equal. apply map_ext_in. intros r Hr. apply in_seq in Hr. apply (Hf r). lia.
  - apply wf_concat. intros l Hl'. apply in_map_iff in Hl'. destruct Hl' as (r & <- & Hr). apply in_seq in Hr. apply (Hf r). lia.
  - destruct (concat_uniform_gen zr (map f4 (seq 0 I)) Ou) as [CL _].
    { intros l Hl'. apply in_map_iff in Hl'. destruct Hl' as (r & <- & Hr). apply in_seq in Hr. apply (Hf r). lia. }
    rewrite CL, map_length, seq_length. reflexivity.
Qed.

(* ---------------------------------------------------------------- split_radix_fft on rows = fft_in_place on rows *)
Theorem split_radix_rows_is_fft w rows :
  0 < N -> s <= 1 -> wf rows -> length rows = 2 ^ (S K + S K + s) -> length tw = 2 ^ (S K + K + s) ->
  tw_ok O tw (S K + S K + s) w -> root_cond O (S K + S K + s) w ->
  split_radix_fft OR rows rtw = Some (fft_in_place_top OR rows rtw).
Proof.
  intros HN Hs Hwf Hl Hlt Htw Hw.
  apply (split_radix_tr_agree OR K s rows rtw _ Hs Hl).
  assert (Hn : 2 ^ (S K + S K + s) = I * Ou) by (unfold I, Ou; rewrite <- Nat.pow_add_r; f_equal; lia).
  assert (HI : 0 < I) by apply pow2_pos.
  assert (Sz : forall n0, n0 = 2 ^ (S K + S K + s) ->
            2 ^ (Nat.log2 n0 / 2) = I /\ n0 / I = Ou /\ Ou / I = st).
  { intros n0 ->. assert (E : Nat.log2 (2 ^ (S K + S K + s)) / 2 = S K).
    { rewrite log2_pow2. symmetry. apply Nat.div_unique with s; lia. }
    rewrite E. split; [reflexivity|]. split.
    - rewrite Hn, Nat.mul_comm. apply Nat.div_mul. lia.
    - rewrite Ou_eq, Nat.mul_comm. apply Nat.div_mul. lia. }
  assert (Hl' : length rows = I * Ou) by (rewrite Hl; exact Hn).
  rewrite spec_tr_unfold. cbv zeta. destruct (Sz (length rows) Hl) as (E1 & E2 & E3). rewrite E1, E2, E3.
  assert (G1 : (length rows =? I * I * st) = true) by (apply Nat.eqb_eq; rewrite Hl', Ou_eq; lia).
  rewrite G1, map_length, vget_rtw.
  set (g := vget O tw (length tw / 2)).
  destruct (st12_col 0 rows HN Hwf Hl') as (_ & W12 & L12).
  assert (G2 : (length (st12 OR I st Ou rtw rows) =? I * I * st) = true) by (apply Nat.eqb_eq; rewrite L12, Ou_eq; lia).
  rewrite G2. f_equal.
  destruct (st34_col 0 g _ HN W12 L12) as (_ & W34 & L34).
  assert (Hlr : length rows = 2 ^ S (K + S K + s)) by (rewrite Hl; f_equal; lia).
  destruct (fft_in_place_top_col 0 (K + S K + s) rows HN Hwf Hlr) as (_ & Wf & Lf).
  apply eq_by_cols; [exact W34 | exact Wf | rewrite L34, Lf, <- Hn; f_equal; lia |].
  intros t Ht.
  destruct (st12_col t rows Ht Hwf Hl') as (C12 & _ & _).
  destruct (st34_col t g _ Ht W12 L12) as (C34 & _ & _).
  destruct (fft_in_place_top_col t (K + S K + s) rows Ht Hwf Hlr) as (Cf & _ & _).
  rewrite C34, C12, Cf.
  (* the scalar theorem on column t *)
  pose proof (VProofs.FFTSplit.split_radix_spec_tr_is_fft O L tw K s w (col t rows) Hs
                ltac:(rewrite col_length; exact Hl) Hlt Htw Hw) as Hsc.
  rewrite spec_tr_unfold in Hsc. cbv zeta in Hsc.
  destruct (Sz (length (col t rows)) ltac:(rewrite col_length; exact Hl)) as (F1 & F2 & F3).
  rewrite F1, F2, F3 in Hsc. fold g in Hsc.
  destruct (length (col t rows) =? I * I * st); [|discriminate].
  destruct (length (st12 O I st Ou tw (col t rows)) =? I * I * st); [|discriminate].
  inversion Hsc. reflexivity.
Qed.

End Sizes.
End RowsSplit.

(* ---------------------------------------------------------------- Segment::new_with_buffer: concurrent branch = serial branch *)
Theorem segment_concurrent_eq_serial {F : Type} (O : FOps F) (L : FLaws O) (N : nat) (polys : list (list F))
    (poly_offset : nat) (offsets tw : list F) (K s : nat) (w : F) :
  0 < N -> s <= 1 -> length (hd [] polys) = 2 ^ (S K + S K + s) -> length tw = 2 ^ (S K + K + s) ->
  tw_ok O tw (S K + S K + s) w -> root_cond O (S K + S K + s) w ->
  segment_new_concurrent O N polys poly_offset offsets tw = segment_new O N polys poly_offset offsets tw.
Proof.
  intros HN Hs Hp Hlt Htw Hw. unfold segment_new_concurrent, segment_new. cbv zeta.
  destruct (negb (is_pow2 (length offsets))); [reflexivity|].
  destruct (negb (length (hd [] polys) <? length offsets)); [reflexivity|].
  destruct (negb (length (hd [] polys) =? length tw * 2)); [reflexivity|].
  destruct (negb (poly_offset <? length polys)); [reflexivity|].
  set (np := if length polys - poly_offset <? N then length polys - poly_offset else N).
  assert (Hnp : np <= N) by (unfold np; destruct (Nat.ltb_spec (length polys - poly_offset) N); lia).
  set (dchunk := fun o_chunk : list F =>
        map (fun row_idx =>
               map (fun i => fmul O (nth row_idx (nth (poly_offset + i) polys []) (fzero O)) (nth row_idx o_chunk (fzero O)))
                   (seq 0 np) ++ repeat (fzero O) (N - np)) (seq 0 (length (hd [] polys)))).
  rewrite (sequence_some _ (fun oc => fft_in_place_top (rows_ops O N) (dchunk oc) (map (fun t => repeat t N) tw))).
  - reflexivity.
  - intros oc _. apply (split_radix_rows_is_fft O L N tw K s w (dchunk oc) HN Hs); try assumption.
    + unfold wf_rows, dchunk. apply Forall_forall. intros row Hin. apply in_map_iff in Hin. destruct Hin as (ri & <- & _).
      rewrite app_length, map_length, seq_length, repeat_length. lia.
    + unfold dchunk. rewrite map_length, seq_length. exact Hp.
Qed.

(* RowMatrix::evaluate_polys_over in a `concurrent` build = the serial one (hence C09_segments_spec applies) *)
Theorem evaluate_polys_over_concurrent_eq {F : Type} (O : FOps F) (L : FLaws O) (root_of_unity : nat -> F) (N : nat)
    (polys : list (list F)) (tw : list F) (offset : F) (blowup K s : nat) (w : F) :
  s <= 1 -> length (hd [] polys) = 2 ^ (S K + S K + s) -> length tw = 2 ^ (S K + K + s) ->
  tw_ok O tw (S K + S K + s) w -> root_cond O (S K + S K + s) w ->
  evaluate_polys_over_concurrent O root_of_unity N polys tw offset blowup
    = evaluate_polys_over O root_of_unity N polys tw offset blowup.
Proof.
  intros Hs Hp Hlt Htw Hw. unfold evaluate_polys_over_concurrent, evaluate_polys_over.
  destruct (Nat.eqb_spec N 0) as [HN | HN]; [reflexivity|].
  destruct (negb (colmatrix_ok polys)); [reflexivity|].
  unfold build_segments_concurrent, build_segments.
  destruct (N =? 0); [reflexivity|].
  rewrite (map_ext _ _ (fun i => segment_concurrent_eq_serial O L N polys (i * N) _ tw K s w ltac:(lia) Hs Hp Hlt Htw Hw)).
  reflexivity.
Qed.
