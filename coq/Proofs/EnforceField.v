(* C16, field level, part 1: facts about an arbitrary field (FOps with FLaws): powers, integral domain,
   products of linear factors, elements of exact multiplicative order n, and the factorisation
   x^(2^k) - 1 = prod_{i < 2^k} (x - g^i) for g of exact order 2^k.   stdlib style. *)
From Coq Require Import ZArith List Bool Lia Ring Field Arith.
From VBase Require Import MachInt FieldOps.
From VModel Require Import Enforce.
Import ListNotations.

Section FieldFacts.
  Context {F : Type} (Fo : FOps F) (L : FLaws Fo).

  Notation "0" := (fzero Fo).
  Notation "1" := (fone Fo).
  Infix "+" := (fadd Fo).
  Infix "*" := (fmul Fo).
  Infix "-" := (fsub Fo).
  Notation "- x" := (fneg Fo x).

  Add Field Ffield : (FLaws_field_theory Fo L).

  (* ---------------------------------------------------------------- basic *)
  Lemma feq_dec (a b : F) : {a = b} + {a <> b}.
  Proof.
    destruct (feqb Fo a b) eqn:E.
    - left. apply (fl_eqb_spec Fo L). exact E.
    - right. intros H. apply (fl_eqb_spec Fo L) in H. congruence.
  Qed.

  Lemma fmul_0_l a : 0 * a = 0. Proof. ring. Qed.
  Lemma fmul_0_r a : a * 0 = 0. Proof. ring. Qed.

  Lemma fmul_eq_0 a b : a * b = 0 -> a = 0 \/ b = 0.
  Proof.
    intros H. destruct (feq_dec a 0) as [Ha|Ha]; [left; exact Ha|right].
    assert (E : b = finv Fo a * (a * b)) by (field; exact Ha).
    rewrite E, H. ring.
  Qed.

  Lemma fmul_neq_0 a b : a <> 0 -> b <> 0 -> a * b <> 0.
  Proof. intros Ha Hb H. destruct (fmul_eq_0 _ _ H); contradiction. Qed.

  Lemma fsub_eq_0 a b : a - b = 0 <-> a = b.
  Proof.
    split; intros H.
    - assert (E : a = (a - b) + b) by ring. rewrite E, H. ring.
    - subst. ring.
  Qed.

  Lemma finv_1 : finv Fo 1 = 1.
  Proof.
    assert (H : finv Fo 1 * 1 = 1) by (apply (fl_inv_l Fo L), (fl_one_neq_zero Fo L)).
    rewrite <- H at 2. ring.
  Qed.

  Lemma fdiv_1_r a : fdiv Fo a 1 = a.
  Proof. rewrite (fl_div_def Fo L), finv_1. ring. Qed.

  Lemma fdiv_0_l a : fdiv Fo 0 a = 0.
  Proof. rewrite (fl_div_def Fo L). ring. Qed.

  (* the totalisation made explicit: x / 0 = 0 *)
  Lemma fdiv_0_r a : fdiv Fo a 0 = 0.
  Proof. rewrite (fl_div_def Fo L), (fl_inv_0 Fo L). ring. Qed.

  Lemma fdiv_mul_cancel a b : b <> 0 -> fdiv Fo (a * b) b = a.
  Proof. intros H. field. exact H. Qed.

  (* ---------------------------------------------------------------- powers *)
  Fixpoint pown (x : F) (k : nat) : F :=
    match k with Datatypes.O => 1 | S k' => x * pown x k' end.

  Lemma pown_add x a b : pown x (a + b) = pown x a * pown x b.
  Proof. induction a; cbn [pown Nat.add]; [ring|rewrite IHa; ring]. Qed.

  Lemma pown_1_l k : pown 1 k = 1.
  Proof. induction k; cbn [pown]; [reflexivity|rewrite IHk; ring]. Qed.

  Lemma pown_mul x a b : pown x (a * b) = pown (pown x a) b.
  Proof.
    induction b; cbn [pown].
    - rewrite Nat.mul_0_r. reflexivity.
    - rewrite Nat.mul_succ_r, Nat.add_comm, pown_add, IHb. reflexivity.
  Qed.

  Lemma pown_mul_base x y k : pown (x * y) k = pown x k * pown y k.
  Proof. induction k; cbn [pown]; [ring|rewrite IHk; ring]. Qed.

  Lemma pown_neq_0 x k : x <> 0 -> pown x k <> 0.
  Proof. intros Hx. induction k; cbn [pown]; [apply (fl_one_neq_zero Fo L)|apply fmul_neq_0; assumption]. Qed.

  Lemma fpow_pos_spec x p : fpow_pos Fo x p = pown x (Pos.to_nat p).
  Proof.
    induction p; cbn [fpow_pos].
    - rewrite Pos2Nat.inj_xI. cbn [pown]. rewrite IHp.
      replace (2 * Pos.to_nat p)%nat with (Pos.to_nat p + Pos.to_nat p)%nat by lia.
      rewrite pown_add. reflexivity.
    - rewrite Pos2Nat.inj_xO, IHp.
      replace (2 * Pos.to_nat p)%nat with (Pos.to_nat p + Pos.to_nat p)%nat by lia.
      rewrite pown_add. reflexivity.
    - rewrite Pos2Nat.inj_1. cbn [pown]. ring.
  Qed.

  Lemma fpow_spec x e : fpow Fo x e = pown x (Z.to_nat e).
  Proof.
    destruct e; cbn [fpow Z.to_nat pown]; try reflexivity. apply fpow_pos_spec.
  Qed.

  Lemma fpow_of_nat x k : fpow Fo x (Z.of_nat k) = pown x k.
  Proof. rewrite fpow_spec, Nat2Z.id. reflexivity. Qed.

  (* ---------------------------------------------------------------- products of linear factors *)
  (* the loop of evaluate_exemptions_at, from an arbitrary accumulator *)
  Definition vanish_from (x : F) (l : list F) (acc : F) : F :=
    fold_left (fun r e => r * (x - e)) l acc.
  Definition vanish (x : F) (l : list F) : F := vanish_from x l 1.

  Lemma vanish_from_acc x l acc : vanish_from x l acc = acc * vanish x l.
  Proof.
    unfold vanish, vanish_from. revert acc. induction l as [|e l IH]; intros acc; cbn [fold_left].
    - ring.
    - rewrite IH, (IH (1 * (x - e))). ring.
  Qed.

  Lemma vanish_nil x : vanish x [] = 1. Proof. reflexivity. Qed.

  Lemma vanish_cons x e l : vanish x (e :: l) = (x - e) * vanish x l.
  Proof. unfold vanish at 1, vanish_from. cbn [fold_left]. fold (vanish_from x l (1 * (x - e))).
         rewrite vanish_from_acc. ring. Qed.

  Lemma vanish_app x l1 l2 : vanish x (l1 ++ l2) = vanish x l1 * vanish x l2.
  Proof.
    induction l1 as [|e l1 IH]; cbn [app].
    - rewrite vanish_nil. ring.
    - rewrite !vanish_cons, IH. ring.
  Qed.

  Lemma vanish_eq_0 x l : vanish x l = 0 <-> exists e, In e l /\ x = e.
  Proof.
    induction l as [|e l IH].
    - rewrite vanish_nil. split; [intros H; exfalso; exact (fl_one_neq_zero Fo L H)|intros (e & [] & _)].
    - rewrite vanish_cons. split.
      + intros H. destruct (fmul_eq_0 _ _ H) as [H1|H1].
        * exists e. split; [left; reflexivity|apply fsub_eq_0; exact H1].
        * apply IH in H1. destruct H1 as (e' & Hin & He). exists e'. split; [right; exact Hin|exact He].
      + intros (e' & [<-|Hin] & ->).
        * replace (e - e) with 0 by ring. ring.
        * assert (H : vanish e' l = 0) by (apply IH; exists e'; tauto). rewrite H. ring.
  Qed.

  (* prod_{i < m} f i *)
  Fixpoint prodn (f : nat -> F) (m : nat) : F :=
    match m with Datatypes.O => 1 | S m' => prodn f m' * f m' end.

  Lemma prodn_ext f h m : (forall i, (i < m)%nat -> f i = h i) -> prodn f m = prodn h m.
  Proof.
    induction m; intros H; cbn [prodn]; [reflexivity|].
    rewrite IHm by (intros; apply H; lia). rewrite H by lia. reflexivity.
  Qed.

  Lemma prodn_mul f h m : prodn (fun i => f i * h i) m = prodn f m * prodn h m.
  Proof. induction m; cbn [prodn]; [ring|rewrite IHm; ring]. Qed.

  Lemma prodn_add f a b : prodn f (a + b) = prodn f a * prodn (fun i => f (a + i)%nat) b.
  Proof.
    induction b; cbn [prodn].
    - rewrite Nat.add_0_r. ring.
    - rewrite Nat.add_succ_r. cbn [prodn]. rewrite IHb. ring.
  Qed.

  Lemma vanish_map_seq x (h : nat -> F) lo m :
    vanish x (map h (seq lo m)) = prodn (fun i => x - h (lo + i)%nat) m.
  Proof.
    revert lo. induction m; intros lo.
    - reflexivity.
    - rewrite seq_S, map_app, vanish_app, IHm. cbn [map]. rewrite vanish_cons, vanish_nil.
      cbn [prodn]. ring.
  Qed.

  (* ---------------------------------------------------------------- x^(2^k) - 1 *)
  Lemma sq_eq_1 y : y * y = 1 -> y <> 1 -> y = fneg Fo 1.
  Proof.
    intros H Hn. assert (E : (y - 1) * (y + 1) = 0).
    { replace ((y - 1) * (y + 1)) with (y * y - 1) by ring. rewrite H. ring. }
    destruct (fmul_eq_0 _ _ E) as [E1|E1].
    - exfalso. apply Hn. apply fsub_eq_0. exact E1.
    - assert (E2 : y = (y + 1) - 1) by ring. rewrite E2, E1. ring.
  Qed.

  Lemma pow2_double k : (2 ^ S k = 2 ^ k + 2 ^ k)%nat.
  Proof. rewrite Nat.pow_succ_r'. lia. Qed.

  Theorem pow2_root_factorisation k : forall g,
    pown g (2 ^ k) = 1 -> (k <> Datatypes.O -> pown g (2 ^ (k - 1)) <> 1) ->
    forall x, pown x (2 ^ k) - 1 = prodn (fun i => x - pown g i) (2 ^ k).
  Proof.
    induction k as [|k IH]; intros g Hg Hh x.
    - cbn. ring.
    - assert (Hk : (S k - 1 = k)%nat) by lia. rewrite Hk in Hh.
      specialize (Hh ltac:(lia)).
      assert (Hm1 : pown g (2 ^ k) = fneg Fo 1).
      { apply sq_eq_1; [|exact Hh]. rewrite <- pown_add, <- pow2_double. exact Hg. }
      rewrite pow2_double, prodn_add.
      rewrite (prodn_ext (fun i => x - pown g (2 ^ k + i)) (fun i => x + pown g i)).
      2:{ intros i _. rewrite pown_add, Hm1. ring. }
      rewrite <- prodn_mul.
      rewrite (prodn_ext _ (fun i => x * x - pown (g * g) i)).
      2:{ intros i _. rewrite pown_mul_base. ring. }
      rewrite <- (IH (g * g)).
      + rewrite pown_add, pown_mul_base. reflexivity.
      + rewrite pown_mul_base, <- pown_add, <- pow2_double. exact Hg.
      + intros Hk0. rewrite pown_mul_base, <- pown_add.
        replace (2 ^ (k - 1) + 2 ^ (k - 1))%nat with (2 ^ k)%nat.
        * exact Hh.
        * destruct k; [lia|]. rewrite pow2_double. f_equal; f_equal; lia.
  Qed.

  (* ---------------------------------------------------------------- exact order *)
  Section Order.
    Variables (g : F) (n : nat).
    Hypothesis Hn0 : (0 < n)%nat.
    Hypothesis Hgn : pown g n = 1.
    Hypothesis Hord : forall i, (0 < i < n)%nat -> pown g i <> 1.

    Lemma g_neq_0 : g <> 0.
    Proof.
      intros H. destruct n as [|m]; [lia|]. cbn [pown] in Hgn. rewrite H in Hgn.
      rewrite fmul_0_l in Hgn. apply (fl_one_neq_zero Fo L). symmetry. exact Hgn.
    Qed.

    Lemma pown_g_neq_0 i : pown g i <> 0.
    Proof. apply pown_neq_0, g_neq_0. Qed.

    Lemma pown_g_mod i : pown g i = pown g (i mod n).
    Proof.
      rewrite (Nat.div_mod i n) at 1 by lia.
      rewrite pown_add, pown_mul, Hgn, pown_1_l. ring.
    Qed.

    Lemma pown_g_inj i j : (i < n)%nat -> (j < n)%nat -> pown g i = pown g j -> i = j.
    Proof.
      assert (W : forall i j, (i <= j)%nat -> (j < n)%nat -> pown g i = pown g j -> i = j).
      { clear i j. intros i j Hle Hj E.
        replace j with (i + (j - i))%nat in E by lia. rewrite pown_add in E.
        assert (E' : pown g i * (pown g (j - i) - 1) = 0).
        { replace (pown g i * (pown g (j - i) - 1)) with (pown g i * pown g (j - i) - pown g i) by ring.
          rewrite <- E. ring. }
        destruct (fmul_eq_0 _ _ E') as [E1|E1]; [exfalso; exact (pown_g_neq_0 i E1)|].
        apply (proj1 (fsub_eq_0 _ _)) in E1. destruct (Nat.eq_dec (j - i) 0) as [Z|Z]; [lia|].
        exfalso. apply (Hord (j - i)%nat); [lia|exact E1]. }
      intros Hi Hj E. destruct (Nat.le_ge_cases i j); [apply W; assumption|].
      symmetry. apply W; try assumption. symmetry. exact E.
    Qed.

    Lemma pown_g_eq_iff i j : pown g i = pown g j <-> (i mod n = j mod n)%nat.
    Proof.
      rewrite (pown_g_mod i), (pown_g_mod j). split.
      - apply pown_g_inj; apply Nat.mod_upper_bound; lia.
      - intros ->. reflexivity.
    Qed.

    Lemma pown_pown_g_n i : pown (pown g i) n = 1.
    Proof. rewrite <- pown_mul, Nat.mul_comm, pown_mul, Hgn, pown_1_l. reflexivity. Qed.

    (* when n is a power of two: x^n - 1 splits over the trace domain, so the n-th roots of unity are exactly the g^i *)
    Hypothesis Hpow2 : exists k, n = (2 ^ k)%nat.

    Lemma xn_minus_1_factor x : pown x n - 1 = vanish x (map (pown g) (seq 0 n)).
    Proof.
      destruct Hpow2 as (k & Ek). rewrite vanish_map_seq. cbn [Nat.add]. rewrite Ek.
      apply pow2_root_factorisation.
      - rewrite <- Ek. exact Hgn.
      - intros Hk. apply Hord. rewrite Ek. split; [apply Nat.neq_0_lt_0, Nat.pow_nonzero; lia|].
        apply Nat.pow_lt_mono_r; lia.
    Qed.

    Lemma root_of_unity_in_domain x : pown x n = 1 <-> exists i, (i < n)%nat /\ x = pown g i.
    Proof.
      split.
      - intros H. assert (E : vanish x (map (pown g) (seq 0 n)) = 0).
        { rewrite <- xn_minus_1_factor, H. ring. }
        apply vanish_eq_0 in E. destruct E as (e & Hin & ->).
        apply in_map_iff in Hin. destruct Hin as (i & <- & Hi). apply in_seq in Hi.
        exists i. split; [lia|reflexivity].
      - intros (i & _ & ->). apply pown_pown_g_n.
    Qed.
  End Order.
End FieldFacts.
