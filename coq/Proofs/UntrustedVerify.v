(* Proofs/UntrustedVerify.v — stage 3 of C06: verify() on any parsed proof, any public inputs (= any AIR parameters),
   any outcome of the value-dependent checks and any numbers of distinct positions never panics — except inside Air::new
   when the proof's context is not the one the AIR was written for (open finding F-C06-air-new-cannot-fail). *)
From VBase Require Import MachInt.
From VModel Require Import Codec Untrusted.
From VProofs Require Import CodecPrim CodecTypes CodecTotal UntrustedParse UntrustedTyped.
Open Scope Z_scope.

(* ------------------------------------------------------------------------------------------ VRes facts *)
Definition vsafe {A} (P : A -> Prop) (x : VRes A) : Prop :=
  match x with VOk a => P a | VErr _ => True | VPanic _ => False end.

Lemma vsafe_bind {A B} (P : A -> Prop) (Q : B -> Prop) (x : VRes A) (f : A -> VRes B) :
  vsafe P x -> (forall a, P a -> vsafe Q (f a)) -> vsafe Q (vbind x f).
Proof. destruct x; cbn; auto. Qed.

Lemma vsafe_assert (c : bool) w : c = true -> vsafe (fun _ => True) (vassert c w).
Proof. intros ->. exact I. Qed.

Lemma vsafe_check (c : bool) e : vsafe (fun _ => c = true) (vcheck c e).
Proof. destruct c; cbn; auto. Qed.

Lemma vsafe_check_any (c : bool) e : vsafe (fun _ => True) (vcheck c e).
Proof. destruct c; cbn; auto. Qed.

Lemma vsafe_deser {A} (P : A -> Prop) (x : Result A) : rsafe P x -> vsafe P (vdeser x).
Proof. destruct x; cbn; auto. Qed.

Lemma vsafe_weaken {A} (P Q : A -> Prop) x : (forall a, P a -> Q a) -> vsafe P x -> vsafe Q x.
Proof. destruct x; cbn; auto. Qed.

Lemma vsafe_not_panic {A} (P : A -> Prop) (x : VRes A) : vsafe P x -> forall w, x <> VPanic w.
Proof. destruct x; cbn; intros; congruence. Qed.

Ltac vstep_assert := eapply vsafe_bind; [apply vsafe_assert | intros _ _].
Ltac vstep_check H := eapply vsafe_bind; [apply vsafe_check | let u := fresh "u" in intros u H; cbv beta in H; clear u].

(* ------------------------------------------------------------------------------------------ parameters *)
Definition wfField (F : FieldP) : Prop :=
  let m := fp_modbytes F in let eb := Z.of_nat (fp_bytes F) in let half := Z.to_nat (len m / 2) in
  2 <= eb <= 2 ^ 16 /\
  (* the two halves of the modulus bytes are shorter than an element and smaller than the modulus *)
  from_bytes_with_padding_ok F (firstn half m) = true /\ from_bytes_with_padding_ok F (skipn half m) = true /\
  (* ELEMENT_BYTES - 1 arbitrary bytes are always a canonical element *)
  256 ^ (eb - 1) <= fp_mod F /\ 31 <= fp_two_adicity F.

Definition wfAir (A : AirP) : Prop := wfField (ap_field A) /\ 0 < ap_ncols A <= 255 /\ ap_lagrange A = false.

(* the proof's context is not the one the AIR was written for: Air::new panics (it cannot return an error) *)
Definition Known (A : AirP) (p : Proof) : Prop :=
  let t := ctx_trace_info (pr_context p) in
  ti_main t <> ap_main A \/ ti_aux t <> ap_aux A \/ ti_rands t <> ap_rands A \/ ti_length t <> ap_length A \/
  po_blowup_factor (ctx_options (pr_context p)) < ap_ceb A.

Example wfField_supported : wfField F64P /\ wfField F128P /\ wfField F62P.
Proof. unfold wfField. vm_compute. repeat split; intros; discriminate. Qed.

(* ------------------------------------------------------------------------------------ Context::to_elements *)
Lemma chunks_loop_spec fuel n bs : is_bytes bs ->
  Forall (fun ch => Z.of_nat (length ch) <= Z.of_nat n /\ is_bytes ch) (chunks_loop fuel n bs).
Proof.
  revert bs. induction fuel as [|f IH]; intros bs Hbs; cbn [chunks_loop]; [constructor|].
  destruct bs as [|b r] eqn:E; [constructor|]. rewrite <- E in *. clear E b r.
  assert (H : is_bytes (firstn n bs) /\ is_bytes (skipn n bs)).
  { unfold is_bytes in *. apply Forall_app. now rewrite firstn_skipn. }
  destruct H as [H1 H2]. constructor; [|apply IH; exact H2].
  split; [|exact H1]. pose proof (firstn_le_length n bs). lia.
Qed.

Lemma from_bytes_with_padding_small F ch :
  is_bytes ch -> Z.of_nat (length ch) <= Z.of_nat (fp_bytes F) - 1 -> 256 ^ (Z.of_nat (fp_bytes F) - 1) <= fp_mod F ->
  from_bytes_with_padding_ok F ch = true.
Proof.
  intros Hb Hl HM. unfold from_bytes_with_padding_ok. apply andb_true_intro; split.
  - apply Z.ltb_lt. unfold len. lia.
  - apply Z.ltb_lt. pose proof (of_le_bytes_range ch Hb) as Hr.
    assert (256 ^ Z.of_nat (length ch) <= 256 ^ (Z.of_nat (fp_bytes F) - 1)) by (apply Z.pow_le_mono_r; lia). lia.
Qed.

(* for the code as it is (chunks of ELEMENT_BYTES - 1 bytes): building the coin seed from ANY parsed context whose
   modulus bytes are the field's never panics *)
Theorem to_elements_total : forall F c, wfField F -> is_bytes (ti_meta (ctx_trace_info c)) ->
  ctx_modulus c = fp_modbytes F -> to_elements_ok (META_CHUNK F) F c = true.
Proof.
  intros F c (Heb & Hm1 & Hm2 & HM & _) Hmeta Hmod. cbv zeta in *. unfold to_elements_ok, META_CHUNK. rewrite Hmod, Hm1, Hm2.
  rewrite !andb_true_r. set (meta := ti_meta (ctx_trace_info c)) in *.
  assert (HX : (0 <? Z.of_nat (fp_bytes F) - 1) &&
               forallb (from_bytes_with_padding_ok F) (chunks (Z.to_nat (Z.of_nat (fp_bytes F) - 1)) meta) = true).
  { apply andb_true_intro; split; [apply Z.ltb_lt; lia|].
    apply forallb_forall. intros ch Hin. unfold chunks in Hin.
    pose proof (chunks_loop_spec (length meta) (Z.to_nat (Z.of_nat (fp_bytes F) - 1)) _ Hmeta) as Hs.
    rewrite Forall_forall in Hs. destruct (Hs ch Hin) as [Hl Hb].
    apply from_bytes_with_padding_small; auto. lia. }
  destruct meta; [reflexivity | exact HX].
Qed.

(* with chunks of ELEMENT_BYTES bytes (and the length assertion relaxed to <=, or not) metadata of one full-width block
   that is not a canonical element is a panic: `ELEMENT_BYTES - 1` is what makes the conversion total *)
Theorem to_elements_full_chunk_refuted :
  to_elements_ok 8 F64P (mkCtx (mkTI 1 0 0 8 [1; 0; 0; 0; 255; 255; 255; 255]) (fp_modbytes F64P) (mkPO 1 2 0 FE_None 2 0)) = false /\
  of_le_bytes [1; 0; 0; 0; 255; 255; 255; 255] = M64 /\
  to_elements_ok (META_CHUNK F64P) F64P (mkCtx (mkTI 1 0 0 8 [1; 0; 0; 0; 255; 255; 255; 255]) (fp_modbytes F64P) (mkPO 1 2 0 FE_None 2 0)) = true.
Proof. vm_compute. repeat split; reflexivity. Qed.

(* ------------------------------------------------------------------------------------------ arithmetic *)
Lemma bytes_eqb_eq a b : bytes_eqb a b = true -> a = b.
Proof.
  revert b. induction a as [|x a IH]; intros [|y b] H; cbn in H; try discriminate; auto.
  apply andb_prop in H. destruct H as [H1 H2]. apply Z.eqb_eq in H1. f_equal; auto.
Qed.

Lemma is_pow2_mul x y : is_pow2 x = true -> is_pow2 y = true -> is_pow2 (x * y) = true.
Proof.
  intros Hx Hy. rewrite (is_pow2_log x Hx), (is_pow2_log y Hy).
  rewrite <- Z.pow_add_r by apply Z.log2_nonneg. apply is_pow2_pow.
  pose proof (Z.log2_nonneg x). pose proof (Z.log2_nonneg y). lia.
Qed.

Lemma nfl_loop_bounds fuel d ff m : 0 <= nfl_loop fuel d ff m <= Z.of_nat fuel.
Proof.
  revert d. induction fuel as [|f IH]; intros d; cbn [nfl_loop]; [lia|].
  destruct (d >? m); [|lia]. specialize (IH (d / ff)). lia.
Qed.

Lemma log2_le_31 x : 0 < x <= 2 ^ 32 - 1 -> Z.log2 x <= 31.
Proof. intros H. change 31 with (Z.log2 (2 ^ 32 - 1)). apply Z.log2_le_mono. lia. Qed.

Lemma log2_ge_3 x : 8 <= x -> 3 <= Z.log2 x.
Proof. intros H. change 3 with (Z.log2 8). apply Z.log2_le_mono. lia. Qed.

Lemma in_blowups bf : In bf [2; 4; 8; 16; 32; 64; 128] -> is_pow2 bf = true /\ 2 <= bf <= 128.
Proof. cbn. intros H. repeat (destruct H as [<- | H]; [split; [vm_compute; reflexivity | lia]|]). contradiction. Qed.

Lemma in_foldings ff : In ff [2; 4; 8; 16] -> is_pow2 ff = true /\ 2 <= ff <= 16.
Proof. cbn. intros H. repeat (destruct H as [<- | H]; [split; [vm_compute; reflexivity | lia]|]). contradiction. Qed.

Lemma elem_bytes_bounds F fe : wfField F -> 0 < elem_bytes F (ext_degree fe) <= 2 ^ 32.
Proof.
  intros (Heb & _). unfold elem_bytes. destruct fe; cbn [ext_degree]; lia.
Qed.

Lemma elem_bytes_bounds1 F : wfField F -> 0 < elem_bytes F 1 <= 2 ^ 32.
Proof. intros (Heb & _). unfold elem_bytes. lia. Qed.

(* ------------------------------------------------------------------------------------------ Air::new *)
Lemma air_new_safe A c :
  context_ok c -> wfField (ap_field A) ->
  ti_main (ctx_trace_info c) = ap_main A -> ti_aux (ctx_trace_info c) = ap_aux A ->
  ti_rands (ctx_trace_info c) = ap_rands A -> ti_length (ctx_trace_info c) = ap_length A ->
  ap_ceb A <= po_blowup_factor (ctx_options c) ->
  vsafe (fun _ => True) (air_new A (ctx_trace_info c) (ctx_options c)).
Proof.
  intros Hc HF E1 E2 E3 E4 E5. pose proof (context_ok_facts c Hc) as Hf. cbv zeta in Hf.
  destruct Hf as (T1 & T2 & T3 & T4 & T5 & T6 & T7 & O1 & O2 & _).
  destruct (in_blowups _ O2) as [_ Hbf]. destruct HF as (_ & _ & _ & _ & Had).
  unfold air_new.
  vstep_assert. { rewrite E1, E2, E3, E4, !Z.eqb_refl. reflexivity. }
  vstep_assert. { apply Z.geb_le. lia. }
  cbv zeta.
  vstep_assert. { apply Z.leb_le. unfold usize_max. lia. }
  pose proof (log2_ge_3 _ T5). pose proof (log2_le_31 (ti_length (ctx_trace_info c)) ltac:(nia)).
  vstep_assert.
  { apply andb_true_intro; split; [apply andb_true_intro; split|].
    - apply Z.ltb_lt. lia. - apply negb_true_iff, Z.eqb_neq. lia. - apply Z.leb_le. lia. }
  apply vsafe_assert.
  pose proof (log2_ge_3 (ti_length (ctx_trace_info c) * po_blowup_factor (ctx_options c)) ltac:(nia)).
  pose proof (log2_le_31 (ti_length (ctx_trace_info c) * po_blowup_factor (ctx_options c)) ltac:(nia)).
  apply andb_true_intro; split; [apply andb_true_intro; split|].
  - apply Z.ltb_lt. nia. - apply negb_true_iff, Z.eqb_neq. lia. - apply Z.leb_le. lia.
Qed.

(* ------------------------------------------------------------------------------- VerifierChannel::new *)
Definition chan_post (A : AirP) (p : Proof) (ch : Chan) : Prop :=
  let c := pr_context p in let t := ctx_trace_info c in let o := ctx_options c in
  let lde := ti_length t * po_blowup_factor o in
  let nl := num_fri_layers lde (po_fri_folding_factor o) (po_fri_remainder_max_degree o) (po_blowup_factor o) in
  ch_trace_roots ch = ti_num_segments t /\ ch_fri_roots ch = nl + 1 /\
  0 < pr_num_unique_queries p /\
  qs_rows (ch_main ch) = pr_num_unique_queries p /\ qs_cols (ch_main ch) = ti_main t /\
  (if ti_aux t >? 0 then exists a, ch_aux ch = Some a /\ qs_rows a = pr_num_unique_queries p /\ qs_cols a = ti_aux t
   else ch_aux ch = None) /\
  qs_rows (ch_constraint ch) = pr_num_unique_queries p /\ qs_cols (ch_constraint ch) = ap_ncols A /\
  1 <= ch_nparts ch /\ 1 <= ch_remainder ch /\
  length (ch_layers ch) = Z.to_nat nl /\ fold_chain (Z.to_nat nl) lde (po_fri_folding_factor o) /\
  os_lagrange (ch_ood ch) = None /\ os_cur (ch_ood ch) = ti_main t + ti_aux t /\ os_evals (ch_ood ch) = ap_ncols A.

Lemma channel_new_safe A p : proof_inv p -> wfAir A -> vsafe (chan_post A p) (channel_new A p).
Proof.
  intros ((Hc & Hnuq & Hcom & Htq & Hlen & Hcq & Hood & Hfri) & _) (HF & Hnc & Hlag).
  pose proof (context_ok_facts _ Hc) as Hf. cbv zeta in Hf.
  destruct Hf as (T1 & T2 & T3 & T4 & T5 & T6 & T7 & O1 & O2 & O3 & O4 & O5).
  destruct (in_blowups _ O2) as [Pbf Hbf]. destruct (in_foldings _ O4) as [Pff Hff].
  set (c := pr_context p) in *. set (t := ctx_trace_info c) in *. set (o := ctx_options c) in *.
  assert (Plde : is_pow2 (ti_length t * po_blowup_factor o) = true) by (apply is_pow2_mul; auto).
  pose proof (elem_bytes_bounds (ap_field A) (po_field_extension o) HF) as Heb.
  pose proof (elem_bytes_bounds1 (ap_field A) HF) as Heb1.
  unfold channel_new. fold c. fold t. fold o. cbv zeta.
  vstep_check Hmod. vstep_check Hgkr.
  set (lde := ti_length t * po_blowup_factor o) in *.
  set (nl := num_fri_layers lde (po_fri_folding_factor o) (po_fri_remainder_max_degree o) (po_blowup_factor o)).
  assert (Hnl : 0 <= nl <= 64) by (unfold nl, num_fri_layers; pose proof (nfl_loop_bounds 64 lde (po_fri_folding_factor o) ((po_fri_remainder_max_degree o + 1) * po_blowup_factor o)); lia).
  assert (Hseg : 1 <= ti_num_segments t <= 2) by (unfold ti_num_segments; destruct (ti_aux t >? 0); lia).
  eapply vsafe_bind.
  { apply vsafe_deser. apply Commitments_parse_safe; [exact Hcom | lia | unfold usize_max; lia]. }
  intros roots [Hr1 Hr2].
  vstep_assert. { apply Z.eqb_eq. exact Hlen. }
  destruct (pr_trace_queries p) as [|q0 qrest] eqn:Etq.
  { exfalso. unfold llen in Hlen. cbn in Hlen. lia. }
  inversion Htq as [|? ? Hq0 Hqrest]; subst.
  eapply vsafe_bind.
  { apply vsafe_deser. apply Queries_parse_safe; auto; lia. }
  intros mainq (M1 & M2 & M3).
  eapply (vsafe_bind (fun auxq => if ti_aux t >? 0 then exists a, auxq = Some a /\ qs_rows a = pr_num_unique_queries p /\ qs_cols a = ti_aux t else auxq = None)).
  { destruct (ti_aux t >? 0) eqn:Eaux.
    - destruct qrest as [|q1 qrest'].
      { exfalso. unfold llen, ti_num_segments in Hlen. fold t in Hlen. rewrite Eaux in Hlen. cbn in Hlen. lia. }
      inversion Hqrest as [|? ? Hq1 _]; subst.
      apply Z.gtb_lt in Eaux.
      eapply vsafe_bind.
      { apply vsafe_deser. apply (Queries_parse_safe _ _ _ q1); auto; lia. }
      intros a (A1 & A2 & _). cbn. exists a. auto.
    - cbn. reflexivity. }
  intros auxq Haux.
  eapply vsafe_bind.
  { apply vsafe_deser. apply Queries_parse_safe; auto; lia. }
  intros cq (C1 & C2 & _).
  vstep_check Hlayers.
  eapply (vsafe_bind (fun n => 1 <= n)).
  { destruct Hfri as (_ & _ & Hnp). destruct (Fri_num_partitions_ok _ Hnp) as (n & -> & Hn). exact Hn. }
  intros np Hnp.
  eapply vsafe_bind.
  { apply vsafe_deser. apply Fri_parse_remainder_safe; [exact Hfri | lia]. }
  intros rem Hrem.
  eapply vsafe_bind.
  { apply vsafe_deser. apply Fri_parse_layers_safe; auto; lia. }
  intros layers (L1 & L2 & L3).
  eapply vsafe_bind.
  { apply vsafe_deser. apply OodFrame_parse_safe; auto; lia. }
  intros ood (D1 & D2).
  vstep_check Hl. rewrite Hlag in Hl.
  destruct (os_lagrange ood) as [n|] eqn:El; [cbn in Hl; discriminate|].
  cbn. unfold chan_post. fold c. fold t. fold o. cbv zeta. fold lde. fold nl.
  cbn [ch_trace_roots ch_fri_roots ch_main ch_aux ch_constraint ch_nparts ch_remainder ch_layers ch_ood].
  apply Z.eqb_eq in Hlayers. unfold llen in Hlayers.
  assert (Hll : length (fri_layers (pr_fri_proof p)) = Z.to_nat nl) by lia.
  rewrite Hll in *.
  repeat split; auto; try lia.
Qed.

(* ------------------------------------------------------------------------------------- FRI verifier *)
Lemma fri_new_loop_safe n depth nfr m ff : vsafe (fun _ => True) (fri_new_loop n depth nfr m ff).
Proof.
  revert depth m. induction n as [|n IH]; intros depth m; cbn [fri_new_loop]; [exact I|].
  destruct (negb (depth =? nfr - 1) && negb (m mod ff =? 0)); [exact I | apply IH].
Qed.

Lemma fri_layers_verify_safe n : forall i orc kf nfr ls d m ff np,
  length ls = n -> fold_chain n d ff -> Z.of_nat i + Z.of_nat n < nfr -> 1 <= np -> 1 < ff -> 0 < m ->
  vsafe (fun st => 0 < snd st) (fri_layers_verify n i orc kf nfr ls d m ff np).
Proof.
  induction n as [|n IH]; intros i orc kf nfr ls d m ff np Hlen Hch Hi Hnp Hff Hm; cbn [fri_layers_verify].
  - cbn. exact Hm.
  - destruct Hch as [Hd Hch].
    assert (0 < d / ff) by (apply Z.div_str_pos; lia).
    vstep_assert. { apply andb_true_intro; split; apply Z.ltb_lt; lia. }
    vstep_assert. { apply orb_true_intro; right. apply Z.ltb_lt. lia. }
    vstep_assert. { apply Z.ltb_lt. lia. }
    destruct ls as [|l rest]; [discriminate|].
    vstep_check H1. vstep_check H2. vstep_check H3.
    apply Z.eqb_eq in H3.
    apply IH; auto.
    + lia.
    + apply Z.mod_divide in H3; [|lia]. destruct H3 as [q Hq]. subst m.
      assert (Hq1 : 1 <= q).
      { destruct (Z_le_gt_dec q 0) as [Hq0|Hq0]; [|lia]. exfalso.
        pose proof (Z.mul_nonpos_nonneg q ff Hq0 ltac:(lia)). lia. }
      rewrite Z.div_mul by lia. lia.
Qed.

(* ------------------------------------------------------------------------------- perform_verification *)
Lemma perform_verification_safe A p ch orc k kf :
  proof_inv p -> wfAir A -> chan_post A p ch ->
  vsafe (fun _ => True) (perform_verification A p ch orc k kf).
Proof.
  intros ((Hc & Hnuq & _) & _) (HF & Hnc & Hlag) Hpost.
  pose proof (context_ok_facts _ Hc) as Hf. cbv zeta in Hf.
  destruct Hf as (T1 & T2 & T3 & T4 & T5 & T6 & T7 & O1 & O2 & O3 & O4 & O5).
  destruct (in_blowups _ O2) as [Pbf Hbf]. destruct (in_foldings _ O4) as [Pff Hff].
  destruct HF as (_ & _ & _ & _ & Had).
  unfold chan_post in Hpost. cbv zeta in Hpost.
  set (c := pr_context p) in *. set (t := ctx_trace_info c) in *. set (o := ctx_options c) in *.
  set (lde := ti_length t * po_blowup_factor o) in *.
  set (nl := num_fri_layers lde (po_fri_folding_factor o) (po_fri_remainder_max_degree o) (po_blowup_factor o)) in *.
  destruct Hpost as (P1 & P2 & P3 & P4 & P5 & P6 & P7 & P8 & P9 & P10 & P11 & P12 & P13 & P14 & P15).
  assert (Hnl : 0 <= nl <= 64) by (unfold nl, num_fri_layers; pose proof (nfl_loop_bounds 64 lde (po_fri_folding_factor o) ((po_fri_remainder_max_degree o + 1) * po_blowup_factor o)); lia).
  assert (Plde : is_pow2 lde = true) by (apply is_pow2_mul; auto).
  unfold perform_verification. fold c. fold t. fold o. cbv zeta. fold lde. fold nl.
  vstep_assert. { rewrite P1. unfold ti_num_segments. destruct (ti_aux t >? 0); reflexivity. }
  vstep_assert. { rewrite P1. unfold ti_num_segments. destruct (ti_aux t >? 0); reflexivity. }
  vstep_assert. { apply Z.leb_le. lia. }
  vstep_assert. { rewrite P14. destruct (ti_main t + ti_aux t >? ti_main t); [apply Z.leb_le; lia | reflexivity]. }
  vstep_assert. { rewrite P13. reflexivity. }
  vstep_assert. { rewrite P15. apply Z.leb_le. unfold usize_max. nia. }
  vstep_check Hood.
  pose proof (log2_ge_3 lde ltac:(unfold lde; nia)). pose proof (log2_le_31 lde ltac:(unfold lde; nia)).
  vstep_assert.
  { repeat (apply andb_true_intro; split).
    - apply Z.ltb_lt. unfold lde. nia. - apply Z.leb_le. unfold usize_max, lde. lia.
    - apply negb_true_iff, Z.eqb_neq. lia. - apply Z.leb_le. lia. }
  eapply vsafe_bind; [apply fri_new_loop_safe|]. intros _ _.
  vstep_check Hpow.
  eapply (vsafe_bind (fun _ => True)).
  { pose proof (draw_integers_safe (po_num_queries o) lde Plde) as Hdi.
    destruct (draw_integers_shape (po_num_queries o) lde); cbn in Hdi |- *; auto. }
  intros _ _.
  vstep_check Hk1. apply andb_prop in Hk1. destruct Hk1 as [Hk1 _]. apply Z.eqb_eq in Hk1.
  eapply (vsafe_bind (fun _ => True)).
  { destruct (ch_aux ch); [apply vsafe_check_any | exact I]. }
  intros _ _.
  vstep_check Hk2.
  eapply (vsafe_bind (fun _ => True)).
  { destruct (ti_aux t >? 0) eqn:Eaux.
    - destruct P6 as (a & -> & A1 & A2). apply vsafe_assert. rewrite P14, A2. apply Z.gtb_lt in Eaux.
      repeat (apply andb_true_intro; split); [apply Z.gtb_lt; lia | apply Z.leb_le; lia | apply Z.leb_le; lia].
    - rewrite P6. exact I. }
  intros _ _.
  vstep_assert.
  { rewrite P7, P8, P15, Hk1, P4, !Z.eqb_refl. cbn. apply Z.leb_le. lia. }
  vstep_check Hfold.
  eapply vsafe_bind.
  { apply fri_layers_verify_safe; auto; try lia; rewrite ?P2; cbn; lia. }
  intros st Hst. cbv beta in Hst.
  vstep_check Hrc.
  eapply (vsafe_bind (fun _ => True)).
  { destruct (ch_remainder ch >? snd st); [|exact I].
    eapply vsafe_bind; [apply vsafe_assert; apply Z.gtb_lt; lia|]. intros _ _. exact I. }
  intros _ _.
  apply vsafe_check_any.
Qed.

(* ----------------------------------------------------------------------------------------------- verify *)
Theorem verify_safe A pol p orc k kf :
  proof_inv p -> wfAir A -> ~ Known A p -> vsafe (fun _ => True) (verify A pol p orc k kf).
Proof.
  intros Hinv HA Hk. pose proof Hinv as ((Hc & _) & Hmeta). pose proof HA as (HF & _).
  unfold verify. cbv zeta.
  vstep_check Hmod. apply bytes_eqb_eq in Hmod.
  vstep_check Hpol.
  vstep_assert.
  { apply to_elements_total; auto. }
  eapply vsafe_bind.
  { unfold Known in Hk. cbv zeta in Hk. apply air_new_safe; auto; try lia;
      match goal with |- ?a = ?b => destruct (Z.eq_dec a b); [assumption | exfalso; apply Hk; tauto] end. }
  intros _ _.
  vstep_check Hext.
  eapply vsafe_bind; [apply channel_new_safe; assumption|]. intros ch Hch.
  apply perform_verification_safe; assumption.
Qed.

(* verifying any parsed proof against any public inputs (any AIR of the supported shape, any acceptance policy), whatever
   the value-dependent checks answer and however many distinct positions are drawn, never panics *)
Theorem verify_total : forall A pol p orc k kf,
  proof_inv p -> wfAir A -> ~ Known A p -> forall w, verify A pol p orc k kf <> VPanic w.
Proof. intros. eapply vsafe_not_panic. now apply verify_safe. Qed.

(* bytes in, outcome out *)
Theorem parse_and_verify_total : forall A pol bs orc k kf,
  is_bytes bs -> wfAir A -> (forall p, parse bs = Ok p -> ~ Known A p) ->
  forall w, parse_and_verify A pol bs orc k kf <> O_Panic w.
Proof.
  intros A pol bs orc k kf Hbs HA Hk w. unfold parse_and_verify.
  pose proof (parse_total bs Hbs) as Hp. pose proof (parse_inv bs) as Hi.
  destruct (parse bs) as [p| |]; [|discriminate|congruence].
  pose proof (verify_total A pol p orc k kf (Hi p Hbs eq_refl) HA (Hk p eq_refl)) as Hv.
  destruct (verify A pol p orc k kf); try discriminate. intros E. inversion E; subst. now apply (Hv w0).
Qed.

(* every panic of verify() is the one of Air::new (exactly the Known inputs) *)
Theorem verify_panics_only_in_air_new : forall A pol p orc k kf w,
  proof_inv p -> wfAir A -> verify A pol p orc k kf = VPanic w -> Known A p /\ (w = W_air_new_layout \/ w = W_air_new_blowup).
Proof.
  intros A pol p orc k kf w Hinv HA E.
  assert (HK : Known A p).
  { destruct (Z.eq_dec (ti_main (ctx_trace_info (pr_context p))) (ap_main A));
    destruct (Z.eq_dec (ti_aux (ctx_trace_info (pr_context p))) (ap_aux A));
    destruct (Z.eq_dec (ti_rands (ctx_trace_info (pr_context p))) (ap_rands A));
    destruct (Z.eq_dec (ti_length (ctx_trace_info (pr_context p))) (ap_length A));
    destruct (Z_lt_ge_dec (po_blowup_factor (ctx_options (pr_context p))) (ap_ceb A));
    try (unfold Known; cbv zeta; tauto).
    exfalso. refine (verify_total A pol p orc k kf Hinv HA _ w E). unfold Known. cbv zeta. lia. }
  split; [exact HK|].
  (* which site: the layout assertion comes first, the blowup assertion second; nothing else is reachable *)
  revert E. unfold verify. cbv zeta.
  destruct (vcheck _ E_InconsistentBaseField) eqn:E1; cbn [vbind]; try discriminate.
  2:{ unfold vcheck in E1. destruct (bytes_eqb _ _); discriminate. }
  destruct (vcheck _ E_UnacceptableProofOptions) eqn:E2; cbn [vbind]; try discriminate.
  2:{ unfold vcheck in E2. destruct (policy_ok _ _); discriminate. }
  destruct (vassert (to_elements_ok _ _ _) _) eqn:E3; cbn [vbind]; try discriminate.
  2:{ intros _. exfalso. unfold vcheck in E1. destruct (bytes_eqb _ _) eqn:Eb; [|discriminate]. apply bytes_eqb_eq in Eb.
      destruct Hinv as [_ Hmeta]. destruct HA as (HF & _).
      unfold vassert in E3. rewrite (to_elements_total _ _ HF Hmeta (eq_sym Eb)) in E3. discriminate. }
  unfold air_new.
  destruct (vassert _ W_air_new_layout) eqn:E4; cbn [vbind].
  2:{ unfold vassert in E4. destruct (_ && _); discriminate. }
  2:{ unfold vassert in E4. destruct (_ && _); [discriminate|]. inversion E4; subst. intros E; inversion E; auto. }
  destruct (vassert _ W_air_new_blowup) eqn:E5; cbn [vbind].
  2:{ unfold vassert in E5. destruct (_ >=? _); discriminate. }
  2:{ unfold vassert in E5. destruct (_ >=? _); [discriminate|]. inversion E5; subst. intros E; inversion E; auto. }
  (* both assertions passed: then ~Known, contradiction with HK *)
  intros _. exfalso.
  unfold vassert in E4, E5.
  destruct ((ti_main _ =? _) && _ && _ && _) eqn:L; [|discriminate].
  destruct (po_blowup_factor _ >=? _) eqn:Bf; [|discriminate].
  repeat (apply andb_prop in L; destruct L as [L ?]).
  rewrite Z.geb_le in Bf. rewrite Z.eqb_eq in *. unfold Known in HK. cbv zeta in HK. lia.
Qed.

(* ---------------------------------------------------------------------------------- witnesses (Known inputs) *)
(* a 48-byte proof of the smallest shape (1 column, 8 rows, f64) *)
Definition tiny_proof_bytes : bytes :=
  [1; 0; 0; 3; 0; 0] ++ [8] ++ to_le_bytes 8 M64 ++ [1; 2; 0; 1; 2; 0] ++ [0] ++ [0; 0] ++
  [0; 0; 0; 0; 0; 0; 0; 0] ++ [0; 0; 0; 0; 0; 0; 0; 0] ++ [0; 0; 0; 0; 0; 0] ++ [0; 0; 0; 0] ++ [0; 0; 0; 0; 0; 0; 0; 0] ++ [0].

Definition air_other_width : AirP := mkAP F64P 32 2 0 0 8 2 1 false.   (* an AIR with two columns *)
Definition air_needs_blowup4 : AirP := mkAP F64P 32 1 0 0 8 4 1 false. (* the right layout, constraint degree needing blowup 4 *)
Definition air_matching : AirP := mkAP F64P 32 1 0 0 8 2 1 false.

Theorem air_new_refuted :
  exists p, parse tiny_proof_bytes = Ok p /\ proof_inv p /\
    Known air_other_width p /\ verify air_other_width Pol_All p (fun _ => true) 1 (fun _ => 1) = VPanic W_air_new_layout /\
    Known air_needs_blowup4 p /\ verify air_needs_blowup4 Pol_All p (fun _ => true) 1 (fun _ => 1) = VPanic W_air_new_blowup.
Proof.
  assert (Hb : is_bytes tiny_proof_bytes).
  { unfold is_bytes. apply Forall_forall. intros x Hx.
    assert (H : forallb (fun b => (0 <=? b) && (b <? 256)) tiny_proof_bytes = true) by (vm_compute; reflexivity).
    rewrite forallb_forall in H. specialize (H x Hx). apply andb_prop in H. destruct H as [H1 H2].
    apply Z.leb_le in H1. apply Z.ltb_lt in H2. lia. }
  destruct (parse tiny_proof_bytes) as [p| |] eqn:E; [| vm_compute in E; discriminate | vm_compute in E; discriminate].
  exists p. split; [reflexivity|]. split; [apply (parse_inv _ _ Hb E)|].
  vm_compute in E. inversion E; subst; clear E.
  repeat split; try (vm_compute; reflexivity); unfold Known; cbv zeta; cbn; lia.
Qed.

(* non-vacuity of verify_total: a parsed proof which is not Known for its AIR; the run ends with an error value *)
Example verify_total_nonvacuous :
  exists p, parse tiny_proof_bytes = Ok p /\ proof_inv p /\ wfAir air_matching /\ ~ Known air_matching p /\
            verify air_matching Pol_All p (fun _ => true) 1 (fun _ => 1) = VErr E_ProofDeserializationError.
Proof.
  assert (Hb : is_bytes tiny_proof_bytes).
  { unfold is_bytes. apply Forall_forall. intros x Hx.
    assert (H : forallb (fun b => (0 <=? b) && (b <? 256)) tiny_proof_bytes = true) by (vm_compute; reflexivity).
    rewrite forallb_forall in H. specialize (H x Hx). apply andb_prop in H. destruct H as [H1 H2].
    apply Z.leb_le in H1. apply Z.ltb_lt in H2. lia. }
  destruct (parse tiny_proof_bytes) as [p| |] eqn:E; [| vm_compute in E; discriminate | vm_compute in E; discriminate].
  exists p. split; [reflexivity|]. split; [apply (parse_inv _ _ Hb E)|].
  vm_compute in E. inversion E; subst; clear E.
  split; [|split].
  - unfold wfAir. split; [apply wfField_supported|]. cbn. lia.
  - unfold Known. cbv zeta. cbn. lia.
  - vm_compute. reflexivity.
Qed.
