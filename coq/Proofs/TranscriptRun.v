(* C04 — lemmas about the symbolic coin (Model/Transcript.v): execution over concatenations, the
   "segment" calculus used to establish which messages every challenge has absorbed, and the main
   theorems for every proof shape.  stdlib style. *)
From Coq Require Import List Arith Bool Lia.
From VModel Require Import Transcript.
Import ListNotations.

(* ------------------------------------------------------------------------------------------------ *)
(* boolean equalities *)
Lemma sym_eqb_eq a b : sym_eqb a b = true <-> a = b.
Proof.
  destruct a, b; cbn; split; intros H; try reflexivity; try discriminate;
    try (apply Nat.eqb_eq in H; subst; reflexivity);
    try (injection H as ->; apply Nat.eqb_refl).
Qed.

Lemma syms_eqb_eq a b : syms_eqb a b = true <-> a = b.
Proof.
  revert b; induction a as [|x a IH]; intros [|y b]; cbn; split; intros H; try reflexivity; try discriminate.
  - apply andb_true_iff in H as [H1 H2]. apply sym_eqb_eq in H1. apply IH in H2. subst; reflexivity.
  - injection H as -> ->. apply andb_true_iff; split; [apply sym_eqb_eq | apply IH]; reflexivity.
Qed.

Lemma chal_eqb_eq a b : chal_eqb a b = true <-> a = b.
Proof.
  destruct a, b; cbn; split; intros H; try reflexivity; try discriminate;
    try (apply Nat.eqb_eq in H; subst; reflexivity);
    try (injection H as ->; apply Nat.eqb_refl).
Qed.

Lemma chals_eqb_eq a b : chals_eqb a b = true <-> a = b.
Proof.
  revert b; induction a as [|x a IH]; intros [|y b]; cbn; split; intros H; try reflexivity; try discriminate.
  - apply andb_true_iff in H as [H1 H2]. apply chal_eqb_eq in H1. apply IH in H2. subst; reflexivity.
  - injection H as -> ->. apply andb_true_iff; split; [apply chal_eqb_eq | apply IH]; reflexivity.
Qed.

(* ------------------------------------------------------------------------------------------------ *)
(* execution over concatenations *)
Lemma exec_app st l1 l2 : exec st (l1 ++ l2) = exec (exec st l1) l2.
Proof. revert st; induction l1 as [|[e lab] l1 IH]; intros st; cbn; [reflexivity | apply IH]. Qed.

Lemma run_app st l1 l2 : run st (l1 ++ l2) = run st l1 ++ run (exec st l1) l2.
Proof.
  revert st; induction l1 as [|[e lab] l1 IH]; intros st; cbn; [reflexivity|].
  destruct lab as [c|]; [destruct (out1 st e) as [v|]|]; cbn; rewrite IH; reflexivity.
Qed.

Lemma absorbs_app l1 l2 : absorbs (l1 ++ l2) = absorbs l1 ++ absorbs l2.
Proof. unfold absorbs. apply flat_map_app. Qed.

(* the history of the seed is the list of absorbed symbols: the induction on the event list *)
Lemma hist_exec st l :
  (forall x, In x l -> match fst x with EvNew _ => False | _ => True end) ->
  hist (cs_seed (exec st l)) = hist (cs_seed st) ++ absorbs l.
Proof.
  revert st; induction l as [|[e lab] l IH]; intros st Hn; cbn.
  - now rewrite app_nil_r.
  - rewrite IH by (intros x Hx; apply Hn; now right).
    specialize (Hn (e, lab) (or_introl eq_refl)). cbn in Hn.
    unfold absorbs; cbn. destruct e; cbn; try contradiction; rewrite <- ?app_assoc; reflexivity.
Qed.

Lemma hist_exec_new st l r :
  (forall x, In x r -> match fst x with EvNew _ => False | _ => True end) ->
  hist (cs_seed (exec st ((EvNew l, None) :: r))) = absorbs ((EvNew l, None) :: r).
Proof. intros H. cbn [exec exec1]. rewrite hist_exec by exact H. reflexivity. Qed.

(* every challenge of a list that starts with `new` is derived from a seed whose history is exactly the
   absorbed symbols of the events before it (plus the nonce for the two nonce-keyed operations) *)
Definition own_nonce (e : event) : list sym :=
  match e with EvCheckPow n => [n] | EvDrawInts n _ => [n] | _ => [] end.

Lemma run_hist_prefix : forall l st c v,
  (forall x, In x l -> match fst x with EvNew _ => False | _ => True end) ->
  In (c, v) (run st l) ->
  exists l1 e l2, l = l1 ++ (e, Some c) :: l2 /\
    hist (cval_term v) = hist (cs_seed st) ++ absorbs l1 ++ own_nonce e.
Proof.
  induction l as [|[e lab] l IH]; intros st c v Hn Hin; cbn in Hin; [contradiction|].
  assert (Hn' : forall x, In x l -> match fst x with EvNew _ => False | _ => True end)
    by (intros x Hx; apply Hn; now right).
  assert (Hrec : In (c, v) (run (exec1 st e) l) ->
          exists l1 e0 l2, (e, lab) :: l = l1 ++ (e0, Some c) :: l2 /\
            hist (cval_term v) = hist (cs_seed st) ++ absorbs l1 ++ own_nonce e0).
  { intros Hin'. destruct (IH _ _ _ Hn' Hin') as (l1 & e0 & l2 & -> & Hh).
    exists ((e, lab) :: l1), e0, l2. split; [reflexivity|].
    rewrite Hh. specialize (Hn (e, lab) (or_introl eq_refl)). cbn in Hn.
    unfold absorbs; cbn [flat_map fst].
    destruct e; cbn; try contradiction; rewrite <- ?app_assoc; reflexivity. }
  destruct lab as [c0|]; [|now apply Hrec].
  destruct (out1 st e) as [v0|] eqn:Ho; [|now apply Hrec].
  destruct Hin as [Heq|Hin]; [|now apply Hrec].
  injection Heq as -> ->.
  exists [], e, l. split; [reflexivity|].
  destruct e; cbn in Ho; try discriminate; injection Ho as <-; cbn; rewrite ?app_nil_r; reflexivity.
Qed.

(* ------------------------------------------------------------------------------------------------ *)
(* segment calculus *)
Definition Qdep (s : shape) (cv : chal * cval) : Prop :=
  hist (cval_term (snd cv)) = msgs_before s (fst cv).

Definition seg (s : shape) (H : list sym) (l : list step) (H' : list sym) : Prop :=
  forall t k, hist t = H ->
    Forall (Qdep s) (run (mkCs t k) l) /\ hist (cs_seed (exec (mkCs t k) l)) = H'.

Lemma seg_app s H H1 H2 l1 l2 : seg s H l1 H1 -> seg s H1 l2 H2 -> seg s H (l1 ++ l2) H2.
Proof.
  intros A B t k Ht. destruct (A t k Ht) as [A1 A2].
  rewrite run_app, exec_app. destruct (exec (mkCs t k) l1) as [t1 k1] eqn:E. cbn in A2.
  destruct (B t1 k1 A2) as [B1 B2]. split; [apply Forall_app; split; assumption | assumption].
Qed.

Lemma seg_nil s H : seg s H [] H.
Proof. intros t k Ht; cbn; split; [constructor | exact Ht]. Qed.

Lemma seg_new s H l : seg s H [(EvNew l, None)] l.
Proof. intros t k _; cbn; split; [constructor | reflexivity]. Qed.

Lemma seg_reseed s H d : seg s H [reseed d] (H ++ [d]).
Proof. intros t k Ht; cbn; split; [constructor | now rewrite Ht]. Qed.

Lemma seg_draw1 s H deg k0 c : msgs_before s c = H -> seg s H [draw1 deg k0 c] H.
Proof.
  intros Hc t k Ht; cbn; split; [|exact Ht].
  constructor; [|constructor]. unfold Qdep; cbn. now rewrite Ht, Hc.
Qed.

Lemma seg_draws_gen s H deg (g : nat -> nat) (lab : nat -> chal) js :
  (forall j, msgs_before s (lab j) = H) ->
  seg s H (map (fun j => draw1 deg (g j) (lab j)) js) H.
Proof.
  intros Hc. induction js as [|j js IH]; [apply seg_nil|].
  change (map (fun j0 => draw1 deg (g j0) (lab j0)) (j :: js))
    with ([draw1 deg (g j) (lab j)] ++ map (fun j0 => draw1 deg (g j0) (lab j0)) js).
  eapply seg_app; [apply seg_draw1, Hc | exact IH].
Qed.

Lemma seg_draws s H deg lab n : (forall j, msgs_before s (lab j) = H) -> seg s H (draws deg lab n) H.
Proof. intros Hc. apply (seg_draws_gen s H deg (fun j => j)), Hc. Qed.

Lemma seg_draws_at s H from deg lab n : (forall j, msgs_before s (lab j) = H) -> seg s H (draws_at from deg lab n) H.
Proof. intros Hc. apply (seg_draws_gen s H deg (fun j => from + j)), Hc. Qed.

Lemma fri_msgs_S i : fri_msgs (S i) = fri_msgs i ++ [FriLayerCommitment i].
Proof. unfold fri_msgs. rewrite seq_S, map_app. reflexivity. Qed.

Lemma seg_fri_prover s deg n : forall i,
  seg s (upto_deep s ++ fri_msgs i) (prover_fri_layers deg i n) (upto_deep s ++ fri_msgs (i + n)).
Proof.
  induction n as [|n IH]; intros i.
  - rewrite Nat.add_0_r. apply seg_nil.
  - cbn [prover_fri_layers].
    change (reseed (FriLayerCommitment i) :: draw1 deg 0 (FriAlpha i) :: prover_fri_layers deg (S i) n)
      with ([reseed (FriLayerCommitment i)] ++ [draw1 deg 0 (FriAlpha i)] ++ prover_fri_layers deg (S i) n).
    eapply seg_app; [apply seg_reseed|].
    eapply seg_app; [apply seg_draw1; cbn [msgs_before]; rewrite fri_msgs_S, app_assoc; reflexivity|].
    replace (i + S n) with (S i + n) by lia.
    rewrite <- app_assoc, <- fri_msgs_S. apply IH.
Qed.

(* FriVerifier::new is the prover's layer loop followed by the remainder commitment and one more draw *)
Lemma verifier_fri_new_eq deg L n : forall d, d + n = L ->
  verifier_fri_new deg L d (map FriLayerCommitment (seq d n) ++ [RemainderCommitment])
  = prover_fri_layers deg d n ++ [reseed RemainderCommitment; draw1 deg 0 FriAlphaUnused].
Proof.
  induction n as [|n IH]; intros d Hd; cbn [verifier_fri_new map seq app prover_fri_layers].
  - replace (d <? L) with false by (symmetry; apply Nat.ltb_ge; lia). reflexivity.
  - replace (d <? L) with true by (symmetry; apply Nat.ltb_lt; lia).
    rewrite IH by lia. reflexivity.
Qed.

Lemma verifier_fri_eq deg L :
  verifier_fri_new deg L 0 (fri_roots L)
  = prover_fri_layers deg 0 L ++ [reseed RemainderCommitment; draw1 deg 0 FriAlphaUnused].
Proof. unfold fri_roots. apply verifier_fri_new_eq. reflexivity. Qed.

(* ------------------------------------------------------------------------------------------------ *)
(* common prefix / suffix of the two generators (proof device only) *)
Definition pre (s : shape) : list step :=
  let e := sh_ext_deg s in
  [(EvNew seed_syms, None)] ++ [reseed (TraceCommitment 0)]
  ++ (if multi_segment s
      then draws e GkrRand (n_gkr s) ++ draws_at (n_gkr s) e AuxRand (sh_aux_rands s) ++ [reseed (TraceCommitment 1)]
      else [])
  ++ draws e CompositionCoeff (n_comp s)
  ++ [reseed ConstraintCommitment] ++ [draw1 e 0 OodPoint]
  ++ [reseed HashOodTraceFrame] ++ [reseed HashOodConstraintEvals]
  ++ draws e DeepCoeff (n_deep s)
  ++ prover_fri_layers e 0 (sh_fri_layers s)
  ++ [reseed RemainderCommitment].

Definition post (s : shape) : list step :=
  [(EvCheckPow PowNonce, Some PowCheck); (EvDrawInts PowNonce (sh_queries s), Some QueryPositions)].

Definition extra (s : shape) : list step := [draw1 (sh_ext_deg s) 0 FriAlphaUnused].

(* the GKR step draws n_gkr elements when the column is present, nothing otherwise; the verifier's two branches
   (verifier/src/lib.rs: with / without Lagrange kernel column) are the same sequence *)
Lemma prover_gkr_eq s deg :
  match sh_lagrange s with Some (g, _) => draws deg GkrRand g | None => [] end = draws deg GkrRand (n_gkr s).
Proof. unfold n_gkr. destruct (sh_lagrange s) as [[g l]|]; reflexivity. Qed.

Lemma verifier_aux_eq s deg :
  match sh_lagrange s with
  | Some (g, _) => draws deg GkrRand g ++ draws_at g deg AuxRand (sh_aux_rands s) ++ [reseed (TraceCommitment 1)]
  | None => draws deg AuxRand (sh_aux_rands s) ++ [reseed (TraceCommitment 1)]
  end = draws deg GkrRand (n_gkr s) ++ draws_at (n_gkr s) deg AuxRand (sh_aux_rands s) ++ [reseed (TraceCommitment 1)].
Proof. unfold n_gkr. destruct (sh_lagrange s) as [[g l]|]; reflexivity. Qed.

Lemma prover_split s : prover s = pre s ++ post s.
Proof. unfold prover, pre, post. cbn zeta. rewrite prover_gkr_eq. rewrite <- !app_assoc. reflexivity. Qed.

Lemma verifier_split s : verifier s = pre s ++ extra s ++ post s.
Proof.
  unfold verifier, pre, post, extra. cbn zeta. rewrite verifier_fri_eq, verifier_aux_eq. rewrite <- !app_assoc. reflexivity.
Qed.

Definition H_rem (s : shape) : list sym := upto_deep s ++ fri_msgs (sh_fri_layers s) ++ [RemainderCommitment].

Lemma seg_pre s : seg s [] (pre s) (H_rem s).
Proof.
  unfold pre, H_rem. cbn zeta.
  eapply seg_app; [apply seg_new|].
  eapply seg_app; [apply seg_reseed|].
  eapply seg_app with (H1 := seed_syms ++ trace_msgs s).
  { unfold trace_msgs. destruct (multi_segment s).
    - eapply seg_app; [apply seg_draws; intros j; reflexivity|].
      eapply seg_app; [apply seg_draws_at; intros j; reflexivity|].
      replace (seed_syms ++ [TraceCommitment 0; TraceCommitment 1])
        with ((seed_syms ++ [TraceCommitment 0]) ++ [TraceCommitment 1]) by (now rewrite <- app_assoc).
      apply seg_reseed.
    - apply seg_nil. }
  eapply seg_app; [apply seg_draws; intros j; reflexivity|].
  eapply seg_app; [apply seg_reseed|].
  eapply seg_app; [apply seg_draw1; cbn [msgs_before]; now rewrite <- app_assoc|].
  eapply seg_app; [apply seg_reseed|].
  eapply seg_app; [apply seg_reseed|].
  assert (Hup : (((seed_syms ++ trace_msgs s) ++ [ConstraintCommitment]) ++ [HashOodTraceFrame]) ++ [HashOodConstraintEvals]
                = upto_deep s) by (unfold upto_deep; rewrite <- !app_assoc; reflexivity).
  rewrite Hup.
  eapply seg_app; [apply seg_draws; intros j; reflexivity|].
  pose proof (seg_fri_prover s (sh_ext_deg s) (sh_fri_layers s) 0) as Hf.
  cbn [fri_msgs seq map Nat.add] in Hf. rewrite app_nil_r in Hf.
  eapply seg_app; [exact Hf|].
  rewrite app_assoc. apply seg_reseed.
Qed.

Lemma seg_post s : seg s (H_rem s) (post s) (H_rem s ++ [PowNonce]).
Proof.
  intros t k Ht. cbn. split; [|now rewrite Ht].
  assert (E : hist t ++ [PowNonce] = upto_deep s ++ fri_msgs (sh_fri_layers s) ++ [RemainderCommitment; PowNonce]).
  { rewrite Ht. unfold H_rem. rewrite <- !app_assoc. reflexivity. }
  repeat constructor; unfold Qdep; cbn; exact E.
Qed.

Lemma seg_extra s : seg s (H_rem s) (extra s) (H_rem s).
Proof. apply seg_draw1. reflexivity. Qed.

Lemma seg_prover s : seg s [] (prover s) (H_rem s ++ [PowNonce]).
Proof. rewrite prover_split. eapply seg_app; [apply seg_pre | apply seg_post]. Qed.

Lemma seg_verifier s : seg s [] (verifier s) (H_rem s ++ [PowNonce]).
Proof.
  rewrite verifier_split.
  eapply seg_app; [apply seg_pre|]. eapply seg_app; [apply seg_extra | apply seg_post].
Qed.

(* ------------------------------------------------------------------------------------------------ *)
(* THEOREM challenge_depends_on_all_prior *)
Theorem depends_prover s :
  Forall (fun cv => hist (cval_term (snd cv)) = msgs_before s (fst cv)) (run cs_init (prover s)).
Proof. exact (proj1 (seg_prover s (Seed []) 0 eq_refl)). Qed.

Theorem depends_verifier s :
  Forall (fun cv => hist (cval_term (snd cv)) = msgs_before s (fst cv)) (run cs_init (verifier s)).
Proof. exact (proj1 (seg_verifier s (Seed []) 0 eq_refl)). Qed.

(* the "contains as subterm" reading: [absorbed_in m t] — m was fed to the coin on the way to seed t *)
Inductive absorbed_in (m : sym) : term -> Prop :=
| ai_seed l : In m l -> absorbed_in m (Seed l)
| ai_reseed_here t : absorbed_in m (Reseed t m)
| ai_reseed_before t d : absorbed_in m t -> absorbed_in m (Reseed t d)
| ai_nonce_here t : absorbed_in m (Nonce t m)
| ai_nonce_before t n : absorbed_in m t -> absorbed_in m (Nonce t n).

Lemma absorbed_in_hist m t : absorbed_in m t <-> In m (hist t).
Proof.
  split.
  - induction 1; cbn; try assumption; apply in_or_app; (now left) || (right; now left).
  - induction t as [l | t IH d | t IH n]; cbn; intros H.
    + now constructor.
    + apply in_app_or in H as [H|[<-|[]]]; [apply ai_reseed_before, IH, H | apply ai_reseed_here].
    + apply in_app_or in H as [H|[<-|[]]]; [apply ai_nonce_before, IH, H | apply ai_nonce_here].
Qed.

(* protocol order: m precedes challenge c when it is among the messages the protocol sends before c *)
Definition precedes (s : shape) (m : sym) (c : chal) : Prop := In m (msgs_before s c).

Theorem challenge_depends_on_all_prior s (side : bool) c v :
  In (c, v) (run cs_init (if side then verifier s else prover s)) ->
  (* the seed the challenge is derived from has absorbed exactly the preceding messages, in protocol order *)
  hist (cval_term v) = msgs_before s c /\
  (* in particular the context, the public inputs and every preceding prover message are subterms *)
  (forall m, precedes s m c -> absorbed_in m (cval_term v)) /\
  absorbed_in CtxElems (cval_term v) /\ absorbed_in PubInputs (cval_term v).
Proof.
  intros Hin.
  assert (Hh : hist (cval_term v) = msgs_before s c).
  { destruct side.
    - pose proof (depends_verifier s) as F. rewrite Forall_forall in F. exact (F (c, v) Hin).
    - pose proof (depends_prover s) as F. rewrite Forall_forall in F. exact (F (c, v) Hin). }
  split; [exact Hh|]. split; [|split].
  - intros m Hm. apply absorbed_in_hist. rewrite Hh. exact Hm.
  - apply absorbed_in_hist. rewrite Hh. destruct c; cbn; unfold upto_deep; cbn; auto.
  - apply absorbed_in_hist. rewrite Hh. destruct c; cbn; unfold upto_deep; cbn; auto.
Qed.

(* ------------------------------------------------------------------------------------------------ *)
(* the challenges derived by each side are exactly the ones the protocol names (so the theorem above is
   not vacuous for any shape) *)
Lemma labels_app st l1 l2 : map fst (run st (l1 ++ l2)) = map fst (run st l1) ++ map fst (run (exec st l1) l2).
Proof. rewrite run_app, map_app. reflexivity. Qed.

Lemma labels_draws_gen deg (g : nat -> nat) (lab : nat -> chal) js : forall st,
  map fst (run st (map (fun j => draw1 deg (g j) (lab j)) js)) = map lab js.
Proof. induction js as [|j js IH]; intros st; cbn; [reflexivity | now rewrite IH]. Qed.

Lemma labels_draws deg lab n st : map fst (run st (draws deg lab n)) = map lab (seq 0 n).
Proof. apply (labels_draws_gen deg (fun j => j)). Qed.

Lemma labels_draws_at from deg lab n st : map fst (run st (draws_at from deg lab n)) = map lab (seq 0 n).
Proof. apply (labels_draws_gen deg (fun j => from + j)). Qed.

Lemma labels_fri_prover deg n : forall i st,
  map fst (run st (prover_fri_layers deg i n)) = map FriAlpha (seq i n).
Proof. induction n as [|n IH]; intros i st; cbn; [reflexivity | now rewrite IH]. Qed.

Definition lab_of (l : list step) (cs : list chal) : Prop := forall st, map fst (run st l) = cs.

Lemma lab_app l1 l2 c1 c2 : lab_of l1 c1 -> lab_of l2 c2 -> lab_of (l1 ++ l2) (c1 ++ c2).
Proof. intros A B st. now rewrite labels_app, A, B. Qed.
Lemma lab_nil : lab_of [] [].
Proof. intros st; reflexivity. Qed.
Lemma lab_new l : lab_of [(EvNew l, None)] [].
Proof. intros st; reflexivity. Qed.
Lemma lab_reseed d : lab_of [reseed d] [].
Proof. intros st; reflexivity. Qed.
Lemma lab_draw1 deg k c : lab_of [draw1 deg k c] [c].
Proof. intros st; reflexivity. Qed.
Lemma lab_draws deg lab n : lab_of (draws deg lab n) (map lab (seq 0 n)).
Proof. intros st; apply labels_draws. Qed.
Lemma lab_draws_at from deg lab n : lab_of (draws_at from deg lab n) (map lab (seq 0 n)).
Proof. intros st; apply labels_draws_at. Qed.
Lemma lab_fri deg i n : lab_of (prover_fri_layers deg i n) (map FriAlpha (seq i n)).
Proof. intros st; apply labels_fri_prover. Qed.

Lemma labels_pre s st :
  map fst (run st (pre s)) =
    (if multi_segment s then map GkrRand (seq 0 (n_gkr s)) ++ map AuxRand (seq 0 (sh_aux_rands s)) else [])
    ++ map CompositionCoeff (seq 0 (n_comp s)) ++ [OodPoint]
    ++ map DeepCoeff (seq 0 (n_deep s)) ++ map FriAlpha (seq 0 (sh_fri_layers s)).
Proof.
  revert st. change (lab_of (pre s) ((if multi_segment s then map GkrRand (seq 0 (n_gkr s)) ++ map AuxRand (seq 0 (sh_aux_rands s)) else [])
    ++ map CompositionCoeff (seq 0 (n_comp s)) ++ [OodPoint]
    ++ map DeepCoeff (seq 0 (n_deep s)) ++ map FriAlpha (seq 0 (sh_fri_layers s)))).
  unfold pre. cbn zeta.
  apply (lab_app _ _ [] _ (lab_new _)).
  apply (lab_app _ _ [] _ (lab_reseed _)).
  apply lab_app.
  { destruct (multi_segment s); [|apply lab_nil].
    apply lab_app; [apply lab_draws|].
    rewrite <- (app_nil_r (map AuxRand _)). apply lab_app; [apply lab_draws_at | apply lab_reseed]. }
  apply lab_app; [apply lab_draws|].
  apply (lab_app _ _ [] _ (lab_reseed _)).
  apply (lab_app _ _ [OodPoint] _ (lab_draw1 _ _ _)).
  apply (lab_app _ _ [] _ (lab_reseed _)).
  apply (lab_app _ _ [] _ (lab_reseed _)).
  apply lab_app; [apply lab_draws|].
  rewrite <- (app_nil_r (map FriAlpha _)). apply lab_app; [apply lab_fri | apply lab_reseed].
Qed.

Lemma lab_post s : lab_of (post s) [PowCheck; QueryPositions].
Proof. intros st; reflexivity. Qed.
Lemma lab_extra s : lab_of (extra s) [FriAlphaUnused].
Proof. intros st; reflexivity. Qed.

Theorem labels_prover s : map fst (run cs_init (prover s)) = challenges false s.
Proof.
  rewrite prover_split, labels_app, labels_pre, (lab_post s). unfold challenges.
  rewrite <- !app_assoc. reflexivity.
Qed.

Theorem labels_verifier s : map fst (run cs_init (verifier s)) = challenges true s.
Proof.
  rewrite verifier_split, labels_app, labels_pre, labels_app, (lab_post s), (lab_extra s). unfold challenges.
  rewrite <- !app_assoc. reflexivity.
Qed.

(* ------------------------------------------------------------------------------------------------ *)
(* THEOREM transcript_agree *)
Lemma absorbs_extra s : absorbs (extra s) = [].
Proof. reflexivity. Qed.

Theorem absorbs_agree s : absorbs (prover s) = absorbs (verifier s).
Proof. rewrite prover_split, verifier_split, !absorbs_app, absorbs_extra. reflexivity. Qed.

Lemma filter_id {A} (f : A -> bool) l : Forall (fun x => f x = true) l -> filter f l = l.
Proof. induction 1 as [|x l Hx _ IH]; cbn; [reflexivity | now rewrite Hx, IH]. Qed.

Lemma used_pre s st : Forall (fun cv => used (fst cv) = true) (run st (pre s)).
Proof.
  apply Forall_forall. intros [c v] Hin.
  assert (Hc : In c (map fst (run st (pre s)))) by (apply in_map_iff; exists (c, v); auto).
  rewrite labels_pre in Hc. cbn [fst].
  destruct (multi_segment s);
  repeat (apply in_app_or in Hc as [Hc|Hc]);
    try contradiction;
    try (apply in_map_iff in Hc as (j & <- & _); reflexivity);
    destruct Hc as [<-|[]]; reflexivity.
Qed.

Definition usedb (cv : chal * cval) : bool := used (fst cv).

Theorem used_challenges_agree s :
  filter usedb (run cs_init (verifier s)) = run cs_init (prover s).
Proof.
  rewrite prover_split, verifier_split, !run_app, !filter_app.
  rewrite (filter_id usedb) by (apply used_pre).
  f_equal; try (destruct (exec cs_init (pre s)) as [t k]; reflexivity).
Qed.

(* the only verifier challenge the prover does not derive: one FRI alpha, drawn from the seed that has absorbed
   the remainder commitment; nothing later depends on it (same final coin state on both sides) *)
Theorem verifier_extra_alpha s :
  exists t, filter (fun cv => negb (usedb cv)) (run cs_init (verifier s)) = [(FriAlphaUnused, CDraw t 0)]
            /\ hist t = msgs_before s FriAlphaUnused.
Proof.
  destruct (seg_pre s (Seed []) 0 eq_refl) as [_ Hh]. change (mkCs (Seed []) 0) with cs_init in Hh.
  exists (cs_seed (exec cs_init (pre s))). split; [|exact Hh].
  rewrite verifier_split, !run_app, !filter_app.
  assert (E : filter (fun cv => negb (usedb cv)) (run cs_init (pre s)) = []).
  { pose proof (used_pre s cs_init) as Hu. induction Hu as [|x l Hx _ IH]; cbn; [reflexivity|].
    unfold usedb at 1. now rewrite Hx. }
  rewrite E.
  assert (Hk : cs_ctr (exec cs_init (pre s)) = 0).
  { unfold pre. cbn zeta. rewrite !exec_app. reflexivity. }
  destruct (exec cs_init (pre s)) as [t k]. cbn in Hk. subst k. reflexivity.
Qed.

Theorem final_state_agree s : exec cs_init (prover s) = exec cs_init (verifier s).
Proof.
  rewrite prover_split, verifier_split, !exec_app.
  destruct (exec cs_init (pre s)) as [t k]. reflexivity.
Qed.

Theorem transcript_agree s :
  absorbs (prover s) = absorbs (verifier s)
  /\ filter usedb (run cs_init (verifier s)) = run cs_init (prover s)
  /\ (exists t, filter (fun cv => negb (usedb cv)) (run cs_init (verifier s)) = [(FriAlphaUnused, CDraw t 0)]
                /\ hist t = msgs_before s FriAlphaUnused)
  /\ exec cs_init (prover s) = exec cs_init (verifier s).
Proof.
  split; [apply absorbs_agree|]. split; [apply used_challenges_agree|].
  split; [apply verifier_extra_alpha | apply final_state_agree].
Qed.

(* ------------------------------------------------------------------------------------------------ *)
(* THEOREM pow_before_positions *)
Lemma not_nonce_fri n : ~ In PowNonce (fri_msgs n).
Proof. intros H. unfold fri_msgs in H. apply in_map_iff in H as (j & Hj & _). discriminate. Qed.
Lemma not_nonce_trace s : ~ In PowNonce (trace_msgs s).
Proof.
  unfold trace_msgs. destruct (multi_segment s); cbn; intros H;
    repeat (destruct H as [H|H]; [discriminate|]); exact H.
Qed.
Lemma not_nonce_upto s : ~ In PowNonce (upto_deep s).
Proof.
  unfold upto_deep. rewrite !in_app_iff. pose proof (not_nonce_trace s) as T. cbn.
  intros [H|[H|H]]; [| exact (T H) |]; repeat (destruct H as [H|H]; [discriminate|]); exact H.
Qed.
Lemma nonce_in_msgs s c : In PowNonce (msgs_before s c) -> c = PowCheck \/ c = QueryPositions.
Proof.
  destruct c; auto; intros H; exfalso; cbn [msgs_before] in H;
    rewrite ?in_app_iff in H; cbn [In seed_syms] in H;
    pose proof not_nonce_fri as F; pose proof (not_nonce_upto s); pose proof (not_nonce_trace s);
    intuition (try discriminate; eauto).
Qed.

Theorem pow_before_positions s (side : bool) :
  let l := if side then verifier s else prover s in
  exists t,
    hist t = upto_deep s ++ fri_msgs (sh_fri_layers s) ++ [RemainderCommitment]   (* all commitments absorbed *)
    /\ In (PowCheck, CLz (Nonce t PowNonce)) (run cs_init l)          (* the PoW test hashes that seed with the nonce *)
    /\ In (QueryPositions, CInts (Nonce t PowNonce)) (run cs_init l)  (* positions come from the nonce-keyed seed *)
    /\ (forall v, In (QueryPositions, v) (run cs_init l) -> absorbed_in PowNonce (cval_term v))
    /\ (forall c v, In (c, v) (run cs_init l) -> absorbed_in PowNonce (cval_term v) ->
                    c = PowCheck \/ c = QueryPositions).             (* and nothing else depends on the nonce *)
Proof.
  cbn zeta.
  destruct (seg_pre s (Seed []) 0 eq_refl) as [_ Hh]. change (mkCs (Seed []) 0) with cs_init in Hh.
  exists (cs_seed (exec cs_init (pre s))). split; [exact Hh|].
  assert (Hdep : forall c v, In (c, v) (run cs_init (if side then verifier s else prover s)) ->
                 hist (cval_term v) = msgs_before s c)
    by (intros c v H; exact (proj1 (challenge_depends_on_all_prior s side c v H))).
  assert (Hrun : exists k, run cs_init (if side then verifier s else prover s)
                 = run cs_init (pre s) ++ (if side then [(FriAlphaUnused, CDraw (cs_seed (exec cs_init (pre s))) k)] else [])
                   ++ [(PowCheck, CLz (Nonce (cs_seed (exec cs_init (pre s))) PowNonce));
                       (QueryPositions, CInts (Nonce (cs_seed (exec cs_init (pre s))) PowNonce))]).
  { destruct side.
    - rewrite verifier_split, !run_app. destruct (exec cs_init (pre s)) as [t k]. exists k. reflexivity.
    - rewrite prover_split, !run_app. destruct (exec cs_init (pre s)) as [t k]. exists k. reflexivity. }
  destruct Hrun as [k Hrun].
  split; [rewrite Hrun; apply in_or_app; right; apply in_or_app; right; now left|].
  split; [rewrite Hrun; apply in_or_app; right; apply in_or_app; right; right; now left|].
  split.
  - intros v Hv. apply absorbed_in_hist. rewrite (Hdep _ _ Hv). cbn [msgs_before].
    apply in_or_app; right. apply in_or_app; right. right; left; reflexivity.
  - intros c v Hv Ha. apply absorbed_in_hist in Ha. rewrite (Hdep _ _ Hv) in Ha.
    exact (nonce_in_msgs s c Ha).
Qed.

(* ------------------------------------------------------------------------------------------------ *)
(* THEOREM absorbed_is_carried *)
Lemma absorbs_draws_gen deg (g : nat -> nat) (lab : nat -> chal) js : absorbs (map (fun j => draw1 deg (g j) (lab j)) js) = [].
Proof. induction js; cbn; auto. Qed.

Lemma absorbs_draws deg lab n : absorbs (draws deg lab n) = [].
Proof. apply (absorbs_draws_gen deg (fun j => j)). Qed.
Lemma absorbs_draws_at from deg lab n : absorbs (draws_at from deg lab n) = [].
Proof. apply (absorbs_draws_gen deg (fun j => from + j)). Qed.

Lemma absorbs_fri_prover deg n : forall i, absorbs (prover_fri_layers deg i n) = map FriLayerCommitment (seq i n).
Proof. induction n as [|n IH]; intros i; cbn; [reflexivity|]. f_equal. apply IH. Qed.

Lemma absorbs_pre s : absorbs (pre s) = H_rem s.
Proof.
  unfold pre, H_rem, upto_deep, trace_msgs. cbn zeta.
  rewrite !absorbs_app, !absorbs_draws, absorbs_fri_prover.
  destruct (multi_segment s); [rewrite !absorbs_app, absorbs_draws, absorbs_draws_at|]; cbn; rewrite <- ?app_assoc; reflexivity.
Qed.

Theorem absorbs_prover s : absorbs (prover s) = H_rem s ++ [PowNonce].
Proof. rewrite prover_split, absorbs_app, absorbs_pre. reflexivity. Qed.

Lemma seq_shift_map {A} (f : nat -> A) a n : map (fun i => f (a + i)) (seq 0 n) = map f (seq a n).
Proof.
  revert a; induction n as [|n IH]; intros a; cbn; [reflexivity|].
  rewrite Nat.add_0_r. f_equal. rewrite <- seq_shift, map_map. rewrite <- (IH (S a)).
  apply map_ext. intros i. f_equal. lia.
Qed.

(* every absorbed value is a component of the proof (or the verifier's own public inputs), each component is
   absorbed exactly once, in the order it is sent; the commitments absorbed are ALL digests of proof.commitments *)
Theorem absorbed_is_carried s (side : bool) :
  let l := if side then verifier s else prover s in
  map (proof_slot s) (absorbs l) = slots_in_order s
  /\ (let idx := flat_map (fun sl => match sl with SlotCommitment n => [n] | _ => [] end) (map (proof_slot s) (absorbs l))
      in idx = seq 0 (num_commitments s)).
Proof.
  cbn zeta.
  assert (E : absorbs (if side then verifier s else prover s) = H_rem s ++ [PowNonce]).
  { destruct side; [rewrite <- absorbs_agree|]; apply absorbs_prover. }
  rewrite E.
  assert (Hfri : forall g L, map (fun x => SlotCommitment (g + 1 + x)) (seq 0 L) ++ [SlotCommitment (g + 1 + L)]
                             = map SlotCommitment (seq (g + 1) (L + 1))).
  { intros g L. rewrite (Nat.add_1_r L), seq_S, map_app. cbn [map].
    rewrite (seq_shift_map SlotCommitment (g + 1)). reflexivity. }
  assert (Hs : map (proof_slot s) (H_rem s ++ [PowNonce]) = slots_in_order s).
  { unfold H_rem, upto_deep, trace_msgs, slots_in_order, fri_msgs.
    rewrite !map_app, !map_map. cbn [map proof_slot seed_syms app].
    unfold num_trace_segments.
    destruct (multi_segment s); cbn [map seq app]; rewrite Hfri; reflexivity. }
  split; [exact Hs|]. rewrite Hs.
  unfold slots_in_order, num_commitments.
  rewrite !flat_map_app. cbn [flat_map app].
  assert (Hf : forall a n, flat_map (fun sl => match sl with SlotCommitment n0 => [n0] | _ => [] end)
                            (map SlotCommitment (seq a n)) = seq a n).
  { intros a n. revert a. induction n as [|n IH]; intros a; cbn; [reflexivity | now rewrite IH]. }
  rewrite !Hf.
  generalize (num_trace_segments s) (sh_fri_layers s + 1). intros g n.
  rewrite app_nil_r. replace (g + 1 + n) with (g + S n) by lia. rewrite seq_app. f_equal.
  cbn [seq Nat.add]. rewrite Nat.add_1_r. reflexivity.
Qed.

(* ------------------------------------------------------------------------------------------------ *)
(* counters *)
Lemma counters_draws_gen deg (lab : nat -> chal) n : forall a rest,
  counters_ok a (map fst (map (fun j => draw1 deg j (lab j)) (seq a n)) ++ rest) = counters_ok (a + n) rest.
Proof.
  induction n as [|n IH]; intros a rest; cbn.
  - now rewrite Nat.add_0_r.
  - rewrite Nat.eqb_refl. cbn. rewrite IH. f_equal. lia.
Qed.

(* ------------------------------------------------------------------------------------------------ *)
(* soundness of the executable checker used on observed logs *)
Theorem depends_ok_sound s l :
  depends_ok s l = true ->
  forall c v, In (c, v) (run cs_init l) -> hist (cval_term v) = msgs_before s c.
Proof.
  unfold depends_ok. intros H c v Hin.
  rewrite forallb_forall in H. specialize (H (c, v) Hin). cbn in H. now apply syms_eqb_eq.
Qed.

Theorem log_ok_sound side s l :
  log_ok side s l = true ->
  let ls := label (drawn_challenges side s) l in
  map fst (run cs_init ls) = challenges side s
  /\ (forall c v, In (c, v) (run cs_init ls) ->
        hist (cval_term v) = msgs_before s c /\ forall m, precedes s m c -> absorbed_in m (cval_term v)).
Proof.
  unfold log_ok. intros H. cbn zeta.
  apply andb_true_iff in H as [H Hd]. apply andb_true_iff in H as [H Hc]. clear H.
  split; [now apply chals_eqb_eq|].
  intros c v Hin. pose proof (depends_ok_sound _ _ Hd c v Hin) as Hh.
  split; [exact Hh|]. intros m Hm. apply absorbed_in_hist. rewrite Hh. exact Hm.
Qed.

(* observed uses: an accepted log has every observed GKR / auxiliary-randomness use on a draw the protocol gives that purpose *)
Theorem log_ok_uses_sound side s l us :
  log_ok_uses side s l us = true ->
  log_ok side s l = true /\ uses_ok (label (drawn_challenges side s) l) us = true.
Proof. unfold log_ok_uses. intros H. apply andb_true_iff in H. exact H. Qed.

Lemma uses_ok_spec : forall ls us, uses_ok ls us = true ->
  forall i e lab, nth_error ls i = Some (e, lab) ->
    match nth_error us i with
    | Some UseGkr => exists j, lab = Some (GkrRand j)
    | Some UseAux => exists j, lab = Some (AuxRand j)
    | Some UseUnobserved => True
    | None => False
    end.
Proof.
  induction ls as [|[e0 lab0] ls IH]; intros [|u us] H i e lab Hn; cbn in H; try discriminate.
  - destruct i; discriminate.
  - apply andb_true_iff in H as [H1 H2].
    destruct i as [|i]; cbn in Hn |- *.
    + injection Hn as <- <-. destruct u; auto; destruct lab0 as [[]|]; try discriminate; eauto.
    + exact (IH us H2 i e lab Hn).
Qed.
