(* C07 round 2: from_bytes_with_padding never fails on a short slice, and yields new(LE value). *)
From VBase Require Import MachInt.
From VGen Require F64 F62 F128.
From VModel Require Import FieldBytes.
From VProofs Require F64Red F64Ops F62Ops F128Limbs F128Ops.
Open Scope Z_scope.

Definition byte (b : Z) : Prop := 0 <= b < 256.

Lemma of_le_bytes_app l1 l2 :
  of_le_bytes (l1 ++ l2) = of_le_bytes l1 + 256 ^ Z.of_nat (length l1) * of_le_bytes l2.
Proof.
  induction l1 as [|b l IH]; cbn [app of_le_bytes length].
  - change (256 ^ Z.of_nat 0) with 1. lia.
  - rewrite IH, Nat2Z.inj_succ, Z.pow_succ_r by lia. ring.
Qed.

Lemma of_le_bytes_zeros n : of_le_bytes (repeat 0 n) = 0.
Proof. induction n as [|n IH]; cbn [repeat of_le_bytes]; [reflexivity|rewrite IH; reflexivity]. Qed.

Lemma of_le_bytes_range l : Forall byte l -> 0 <= of_le_bytes l < 256 ^ Z.of_nat (length l).
Proof.
  induction 1 as [|b l Hb _ IH]; cbn [of_le_bytes length].
  - change (256 ^ Z.of_nat 0) with 1. lia.
  - rewrite Nat2Z.inj_succ, Z.pow_succ_r by lia. unfold byte in Hb. lia.
Qed.

Lemma resize0_length n l : (length l <= n)%nat -> length (resize0 n l) = n.
Proof. intros H. unfold resize0. rewrite app_length, repeat_length. lia. Qed.

Lemma resize0_value n l : of_le_bytes (resize0 n l) = of_le_bytes l.
Proof. unfold resize0. rewrite of_le_bytes_app, of_le_bytes_zeros. ring. Qed.

(* the padded value is below 256^(ELEMENT_BYTES-1), hence below every modulus *)
Lemma short_value n l : (length l < n)%nat -> Forall byte l ->
  0 <= of_le_bytes l < 256 ^ (Z.of_nat n - 1).
Proof.
  intros Hl Hb. pose proof (of_le_bytes_range l Hb) as H.
  assert (256 ^ Z.of_nat (length l) <= 256 ^ (Z.of_nat n - 1)) by (apply Z.pow_le_mono_r; lia).
  lia.
Qed.

Lemma moduli_above_padding :
  256 ^ (8 - 1) <= F64Red.M /\ 256 ^ (8 - 1) <= F62Ops.M62 /\ 256 ^ (16 - 1) <= F128Limbs.M.
Proof. repeat split; discriminate. Qed.

Theorem f64_from_bytes_with_padding_spec bs : (length bs < 8)%nat -> Forall byte bs ->
  f64_from_bytes_with_padding bs = FbOk (F64.f64_new (of_le_bytes bs)) /\
  0 <= of_le_bytes bs < 256 ^ (8 - 1) /\
  F64Ops.repr (F64.f64_new (of_le_bytes bs)) /\
  F64Ops.val (F64.f64_new (of_le_bytes bs)) = of_le_bytes bs.
Proof.
  intros Hl Hb. pose proof (short_value 8 bs Hl Hb) as Hv. change (Z.of_nat 8 - 1) with (8 - 1) in Hv.
  assert (HvM : of_le_bytes bs < F64Red.M) by (pose proof (proj1 moduli_above_padding); lia).
  split; [|split; [exact Hv|]].
  - unfold f64_from_bytes_with_padding, from_bytes_with_padding.
    destruct (Nat.ltb_spec (length bs) 8) as [_|]; [|lia].
    unfold f64_try_from_slice. rewrite resize0_length by lia. cbn [Nat.ltb Nat.leb].
    unfold F64.f64_try_from_bytes. cbv zeta. rewrite resize0_value.
    unfold F64.f64_try_from_u64. rewrite F64Red.M_eq, Z.geb_leb.
    destruct (Z.leb_spec F64Red.M (of_le_bytes bs)); [lia|reflexivity].
  - destruct (F64Ops.f64_new_spec (of_le_bytes bs)) as [R V]; [unfold F64Red.M in *; lia|].
    split; [exact R|]. rewrite V. apply Z.mod_small. lia.
Qed.

Theorem f64_from_bytes_with_padding_long bs : (8 <= length bs)%nat ->
  f64_from_bytes_with_padding bs = FbAssertLen.
Proof.
  intros H. unfold f64_from_bytes_with_padding, from_bytes_with_padding.
  destruct (Nat.ltb_spec (length bs) 8); [lia|reflexivity].
Qed.

Theorem f62_from_bytes_with_padding_spec bs : (length bs < 8)%nat -> Forall byte bs ->
  f62_from_bytes_with_padding bs = FbOk (F62.f62_new (of_le_bytes bs)) /\
  0 <= of_le_bytes bs < 256 ^ (8 - 1) /\
  F62Ops.repr62 (F62.f62_new (of_le_bytes bs)) /\
  F62Ops.val62 (F62.f62_new (of_le_bytes bs)) = of_le_bytes bs.
Proof.
  intros Hl Hb. pose proof (short_value 8 bs Hl Hb) as Hv. change (Z.of_nat 8 - 1) with (8 - 1) in Hv.
  assert (HvM : of_le_bytes bs < F62Ops.M62) by (pose proof (proj1 (proj2 moduli_above_padding)); lia).
  split; [|split; [exact Hv|]].
  - unfold f62_from_bytes_with_padding, from_bytes_with_padding.
    destruct (Nat.ltb_spec (length bs) 8) as [_|]; [|lia].
    unfold f62_try_from_slice. rewrite resize0_length by lia. cbn [Nat.ltb Nat.leb].
    rewrite resize0_value.
    unfold F62.f62_try_from_u64. rewrite F62Ops.M62_eq, Z.geb_leb.
    destruct (Z.leb_spec F62Ops.M62 (of_le_bytes bs)); [lia|reflexivity].
  - pose proof (F62Ops.f62_new_spec (of_le_bytes bs) ltac:(unfold F62Ops.M62 in *; lia)) as Hn.
    destruct Hn as [R V]. split; [exact R|]. rewrite V. apply Z.mod_small. lia.
Qed.

Theorem f62_from_bytes_with_padding_long bs : (8 <= length bs)%nat ->
  f62_from_bytes_with_padding bs = FbAssertLen.
Proof.
  intros H. unfold f62_from_bytes_with_padding, from_bytes_with_padding.
  destruct (Nat.ltb_spec (length bs) 8); [lia|reflexivity].
Qed.

Theorem f128_from_bytes_with_padding_spec bs : (length bs < 16)%nat -> Forall byte bs ->
  f128_from_bytes_with_padding bs = FbOk (F128.f128_new (of_le_bytes bs)) /\
  0 <= of_le_bytes bs < 256 ^ (16 - 1) /\
  F128Ops.repr128 (F128.f128_new (of_le_bytes bs)) /\
  F128.f128_new (of_le_bytes bs) = of_le_bytes bs.
Proof.
  intros Hl Hb. pose proof (short_value 16 bs Hl Hb) as Hv. change (Z.of_nat 16 - 1) with (16 - 1) in Hv.
  assert (HvM : of_le_bytes bs < F128Limbs.M) by (pose proof (proj2 (proj2 moduli_above_padding)); lia).
  assert (En : F128.f128_new (of_le_bytes bs) = of_le_bytes bs).
  { rewrite F128Ops.f128_new_spec by (unfold F128Limbs.M in *; lia). apply Z.mod_small. lia. }
  split; [|split; [exact Hv|split; [rewrite En; unfold F128Ops.repr128; lia|exact En]]].
  unfold f128_from_bytes_with_padding, from_bytes_with_padding.
  destruct (Nat.ltb_spec (length bs) 16) as [_|]; [|lia].
  unfold f128_try_from_slice. rewrite resize0_length by lia. cbn [Nat.eqb negb]. cbv zeta.
  rewrite resize0_value, En, F128Limbs.M_eq, Z.geb_leb.
  destruct (Z.leb_spec F128Limbs.M (of_le_bytes bs)); [lia|reflexivity].
Qed.

Theorem f128_from_bytes_with_padding_long bs : (16 <= length bs)%nat ->
  f128_from_bytes_with_padding bs = FbAssertLen.
Proof.
  intros H. unfold f128_from_bytes_with_padding, from_bytes_with_padding.
  destruct (Nat.ltb_spec (length bs) 16); [lia|reflexivity].
Qed.

(* the Err branch of the inner try_from is unreachable: no byte list gives FbDeserFailed *)
Corollary from_bytes_with_padding_never_deser_failed bs : Forall byte bs ->
  f64_from_bytes_with_padding bs <> FbDeserFailed /\
  f62_from_bytes_with_padding bs <> FbDeserFailed /\
  f128_from_bytes_with_padding bs <> FbDeserFailed.
Proof.
  intros Hb. repeat split.
  - destruct (Nat.lt_ge_cases (length bs) 8) as [H|H].
    + rewrite (proj1 (f64_from_bytes_with_padding_spec bs H Hb)). discriminate.
    + rewrite (f64_from_bytes_with_padding_long bs H). discriminate.
  - destruct (Nat.lt_ge_cases (length bs) 8) as [H|H].
    + rewrite (proj1 (f62_from_bytes_with_padding_spec bs H Hb)). discriminate.
    + rewrite (f62_from_bytes_with_padding_long bs H). discriminate.
  - destruct (Nat.lt_ge_cases (length bs) 16) as [H|H].
    + rewrite (proj1 (f128_from_bytes_with_padding_spec bs H Hb)). discriminate.
    + rewrite (f128_from_bytes_with_padding_long bs H). discriminate.
Qed.
