(* C17 — round 9 (1): the Lagrange capstone as ONE closed statement.  All four premises of
   composition_is_definition_lagrange_partial are instantiated from their theorems: the table with the Lagrange hook
   (evaluate_spec_aux + lagrange_evaluate_spec + evaluate_with_lagrange), the polynomial form of comp_def (comp_def_is_poly,
   C01), the polynomial form of lag_def for the honest kernel column (lag_def_is_poly_honest, C01 + C16) and the
   interpolation round trip (interp_fft_roundtrip, C09).  stdlib style. *)
From Coq Require Import List Arith Bool Lia Ring Field ZArith.
From VBase Require Import MachInt FieldOps.
From VModel Require Import Composition CompositionLagrange.
From VModel Require Stark FFT Enforce EnforceLagrange.
From VProofs Require StarkPoly StarkComplete StarkLagrangeRows FFTSpec FFTEval FFTOffset.
From VProofs Require Import CompositionBase CompositionIndex CompositionVerifier CompositionTable CompositionFFT CompositionValid
  CompositionLagrange CompositionLagrangeTable CompositionLagrangePoly CompositionLagrangeHonest.
Import ListNotations.
Local Open Scope nat_scope.

Section LagFinal.
Context {F : Type} (O : FOps F) (L : FLaws O).
Local Notation fz := (fzero O).
Local Notation f1 := (fone O).
Local Infix "*f" := (fmul O) (at level 40, left associativity).

Variable n ceb ldeb r : nat.
Variable offset : F.
Variable rou : nat -> F.
Variable wlde ginv : F.
Hypothesis n_pos : n <> 0.
Hypothesis ceb_pos : ceb <> 0.
Hypothesis r_pos : r <> 0.
Hypothesis ldeb_eq : ldeb = ceb * r.
Local Notation ce_size := (ce_size n ceb).
Local Notation wce := (wce n ceb rou).
Local Notation g := (gtrace n rou).
Hypothesis wlde_order : cpow O wlde (lde_size n ldeb) = f1.
Hypothesis wlde_wce : cpow O wlde r = wce.
Hypothesis wlde_g : cpow O wlde ldeb = g.
Hypothesis ginv_spec : ginv *f g = f1.
Hypothesis g_primitive : StarkPoly.primitive_root O g n.

Variable num_main : nat.
Variable tmain : list F -> list F -> list F -> list F.
Variable taux : list F -> list F -> list F -> list F -> list F -> list F -> list F.
Variable ppolys : list (list F).
Variable exemptions : nat.
Variable tcoef : list F.
Variable main_groups aux_groups : list (@BGroup F).
Variable rands : list F.
Variable tpolys apolys lde_main lde_aux : list (list F).
Hypothesis tmain_len : forall cur nxt pv, length (tmain cur nxt pv) = num_main.
Hypothesis exemptions_le : exemptions <= n.
Hypothesis poly_len_pos : forall p, In p ppolys -> length p <> 0.
Hypothesis poly_len_div_n : forall p, In p ppolys -> length p * (n / length p) = n.
Hypothesis poly_len_div_max : forall p, In p ppolys -> exists q, fold_left Nat.max (map (@length F) ppolys) 0 = length p * q.
Hypothesis rou_compat : forall p, In p ppolys -> rou (length p * ceb) = cpow O wce (n / length p).
Hypothesis main_ok : forall gr, In gr main_groups ->
  div_ok n ceb (bg_div gr) /\ forall c, In c (bg_cs gr) -> bc_ok O n ceb ginv tpolys c.
Hypothesis lde_main_ok : lde_rows_of O n ldeb offset wlde lde_main tpolys.

Variable two_adicity K : nat.
Variable rouk : nat -> F.
Variable itw : list F.
Hypothesis ce_pow2 : ce_size = 2 ^ S K.
Hypothesis K_adic : S K <= two_adicity.
Hypothesis rouk_ce : rouk (S K) = wce.
Hypothesis wce_root : FFTSpec.root_cond O (S K) wce.
Hypothesis itw_get : FFT.get_inv_twiddles O two_adicity rouk (2 ^ S K) = Some itw.
Hypothesis offset_nz : offset <> fz.
Hypothesis n_invertible : FFTSpec.two_pow_f O (S K) *f FFTOffset.n_inv O (S K) = f1.

(* the ce coset is disjoint from the trace domain *)
Hypothesis ce_off_domain : forall i, i < ce_size -> ~ In (ce_x O n ceb offset rou i) (Stark.domain O g n).
Variable num_cols m : nat.
Hypothesis m_le_ce : m <= ce_size.
Hypothesis m_le_cols : m <= num_cols * n.
Hypothesis n_lt_ce : n < ce_size.

(* numerators as polynomials, vanishing where the constraints are enforced (validity) *)
Variable N : list F.
Variable Bm Rm Ba Ra : @BGroup F -> list F.
Hypothesis Bm_spec : forall gr, In gr main_groups -> forall z, peval O (Bm gr) z = group_numer O tpolys gr z.
Hypothesis Rm_spec : forall gr, In gr main_groups -> forall z,
  Stark.pprod O (Rm gr) z = fsub O (cpow O z (dv_a (bg_div gr))) (dv_b (bg_div gr)).
Hypothesis N_vanishes : forall i, i < n - exemptions -> peval O N (cpow O g i) = fz.
Hypothesis N_len : length N - (n - exemptions) <= m.

Local Notation comp_def has_aux :=
  (comp_def O n rou tmain taux ppolys exemptions tcoef main_groups aux_groups rands has_aux tpolys apolys).
Local Notation evaluate has_aux :=
  (evaluate O n ceb ldeb offset rou num_main tmain taux ppolys exemptions tcoef main_groups aux_groups rands has_aux
            lde_main lde_aux (fun _ v => v)).
Local Notation interp := (interp_fft O two_adicity itw offset).
Local Notation groups_ok has_aux :=
  (Forall (fun br => NoDup (snd br) /\ incl (snd br) (Stark.domain O g n) /\
                     (forall r0, In r0 (snd br) -> peval O (fst br) r0 = fz) /\
                     length (fst br) - length (snd br) <= m) (bs_of main_groups aux_groups has_aux Bm Rm Ba Ra)).
Local Notation N_is_numerator has_aux :=
  (forall z, peval O N z = rsum O (map (fun ca => snd ca *f fst ca)
     (combine (def_constraints O n rou tmain taux ppolys rands has_aux tpolys apolys z) tcoef))).
Local Notation conclusion has_aux :=
  (exists Q evals cols,
    length Q <= m
    /\ evaluate has_aux = Some evals
    /\ composition_poly_new n interp evals num_cols = Some cols
    /\ (forall z, recombine O n (cp_evaluate_at O cols z) z = peval O Q z)
    /\ (forall z, ~ In z (Stark.domain O g n) -> recombine O n (cp_evaluate_at O cols z) z = comp_def has_aux z)).


(* the auxiliary segment, as in C17_composition_is_definition_aux *)
Hypothesis aux_ok : forall gr, In gr aux_groups ->
  div_ok n ceb (bg_div gr) /\ forall c, In c (bg_cs gr) -> bc_ok O n ceb ginv apolys c.
Hypothesis lde_aux_ok : lde_rows_of O n ldeb offset wlde lde_aux apolys.
Hypothesis Ba_spec : forall gr, In gr aux_groups -> forall z, peval O (Ba gr) z = group_numer O apolys gr z.
Hypothesis Ra_spec : forall gr, In gr aux_groups -> forall z,
  Stark.pprod O (Ra gr) z = fsub O (cpow O z (dv_a (bg_div gr))) (dv_b (bg_div gr)).
Hypothesis N_spec : forall z, peval O N z = rsum O (map (fun ca => snd ca *f fst ca)
     (combine (def_constraints O n rou tmain taux ppolys rands true tpolys apolys z) tcoef)).
Hypothesis bs_ok : Forall (fun br => NoDup (snd br) /\ incl (snd br) (Stark.domain O g n) /\
                     (forall r0, In r0 (snd br) -> peval O (fst br) r0 = fz) /\
                     length (fst br) - length (snd br) <= m) (bs_of main_groups aux_groups true Bm Rm Ba Ra).

(* the Lagrange kernel column: v = log2 n random elements, the HONEST column eq(r, bits of the row), its polynomial Lp, its
   extension over the LDE coset, the constraints LagrangeKernelTransitionConstraints::new builds *)
Variable v : nat.
Hypothesis n_eq : n = 2 ^ v.
Variable Lp lde_lag rr : list F.
Variable t : EnforceLagrange.LagTC (F := F).
Variable lb : F.
Hypothesis rr_len : length rr = v.
Hypothesis coef_len : length (EnforceLagrange.l_coef t) = v.
Hypothesis div_len : length (EnforceLagrange.l_div t) = v.
Hypothesis v_lt_64 : v < 64.
Hypothesis Lp_interp : forall i, i < n ->
  peval O Lp (cpow O g i) = nth i (StarkLagrangeRows.kernel_col O v rr) fz.
Hypothesis lde_lag_len : length lde_lag = lde_size n ldeb.
Hypothesis lde_lag_spec : forall j, j < lde_size n ldeb -> nth_error lde_lag j = Some (peval O Lp (fmul O (cpow O wlde j) offset)).
Hypothesis Lp_len_ce : length Lp <= ce_size.
Hypothesis Lp_len_cols : length Lp <= num_cols * n.
(* the ce coset avoids the zeros of the Lagrange divisors (it avoids the trace domain, which contains them) *)
Hypothesis ce_lag_good : forall i, i < ce_size -> lag_good O v (ce_x O n ceb offset rou i).

Local Notation lag_def := (lag_def O n rou v Lp t rr lb).

Theorem composition_is_definition_lagrange :
  exists lag Q evals cols,
    lagrange_evaluate O n ceb ldeb offset rou v lde_lag t rr lb = Some lag
    /\ Composition.evaluate O n ceb ldeb offset rou num_main tmain taux ppolys exemptions tcoef main_groups aux_groups rands true
                lde_main lde_aux (lagrange_acc_of O lag) = Some evals
    /\ composition_poly_new n interp evals num_cols = Some cols
    /\ (forall z, recombine O n (cp_evaluate_at O cols z) z = peval O Q z)
    /\ (forall z, ~ In z (Stark.domain O g n) -> lag_good O v z ->
          recombine O n (cp_evaluate_at O cols z) z = fadd O (comp_def true z) (lag_def z)).
Proof.
  assert (Hn0 : 0 < n) by lia.
  (* the table *)
  pose proof (evaluate_spec_aux O L n ceb ldeb r offset rou wlde ginv n_pos ceb_pos r_pos ldeb_eq wlde_order wlde_wce wlde_g ginv_spec
                num_main tmain taux ppolys exemptions tcoef main_groups aux_groups rands tpolys apolys lde_main lde_aux tmain_len
                exemptions_le poly_len_pos poly_len_div_n poly_len_div_max rou_compat main_ok aux_ok lde_main_ok lde_aux_ok) as Htab.
  assert (Hpow : forall idx, idx < v -> 2 ^ idx * (ce_size / 2 ^ idx) = ce_size).
  { intros idx Hi. unfold Composition.ce_size. rewrite n_eq.
    replace (2 ^ v * ceb) with (2 ^ idx * (2 ^ (v - idx) * ceb)).
    - set (A := 2 ^ (v - idx) * ceb). rewrite (Nat.mul_comm (2 ^ idx) A) at 1.
      rewrite Nat.div_mul by (apply Nat.pow_nonzero; lia). lia.
    - rewrite Nat.mul_assoc, <- Nat.pow_add_r. f_equal. f_equal. lia. }
  pose proof (lagrange_evaluate_spec O L n ceb ldeb r offset rou wlde n_pos ceb_pos r_pos ldeb_eq wlde_order wlde_wce wlde_g
                v Lp lde_lag lde_lag_len lde_lag_spec t rr lb coef_len rr_len div_len v_lt_64 Hpow) as Hlag.
  pose proof (evaluate_with_lagrange O n ceb ldeb offset rou num_main tmain taux ppolys exemptions tcoef main_groups aux_groups rands
                true lde_main lde_aux _ (fun i => lag_def (ce_x O n ceb offset rou i)) Htab) as Hev.
  (* the polynomial forms *)
  destruct (comp_def_is_poly O L n rou tmain taux ppolys exemptions tcoef main_groups aux_groups rands true tpolys apolys
              N N_spec Bm Rm Ba Ra Bm_spec Rm_spec Ba_spec Ra_spec g_primitive Hn0 exemptions_le m N_vanishes N_len bs_ok)
    as [Qc [HQcl HQc]].
  destruct (lag_def_is_poly_honest O L n v rou n_eq g_primitive Lp rr rr_len Lp_interp t lb) as [Ql [HQll HQl]].
  (* the interpolation *)
  destruct (itw_facts O L n ceb rou two_adicity K rouk itw K_adic rouk_ce wce_root itw_get) as [I1 [I2 I3]].
  pose proof (interp_fft_roundtrip O L n ceb offset rou two_adicity K itw _ ce_pow2 K_adic wce_root I3 I1 I2 offset_nz n_invertible) as Hrt.
  destruct (composition_is_definition_lagrange_partial O L n ceb offset rou n_pos interp Hrt num_cols n_lt_ce
              (comp_def true) lag_def (fun z => ~ In z (Stark.domain O g n)) (lag_good O v) Qc Ql _ Hev HQc (fun z Hz => eq_sym (HQl z Hz)))
    as [evals [cols [E1 [E2 [E3 E4]]]]].
  - intros i Hi. split; [now apply ce_off_domain | now apply ce_lag_good].
  - lia.
  - lia.
  - eexists. exists (Stark.padd O Qc Ql), evals, cols.
    split; [exact Hlag|]. split; [exact E1|]. split; [exact E2|]. split; [exact E3 | exact E4].
Qed.
End LagFinal.
