(* Field laws of the executable prime field of Base/ZpOps.v.

   `FLaws (zp_ops p)` itself quantifies over ALL of Z and is false (fadd 0 a = a fails for a >= p),
   see zp_ops_laws_refuted below.  The field is therefore packaged on canonical residues:

     Zp p        := { x : Z | (0 <=? x) && (x <? p) = true }      (boolean => unique proofs, no axiom)
     zpT_ops p H : FOps (Zp p)       same operations as zp_ops p on the underlying Z (zpT_*_val)
     zpT_laws    : prime p -> 2 < p -> FLaws (zpT_ops p _)

   The side condition 2 < p is necessary: zp_inv 2 0 = 0^(2-2) mod 2 = 1, so fl_inv_0 fails
   at p = 2 (zpT_laws_2_refuted).  stdlib only, no axioms. *)
From Coq Require Import ZArith Znumtheory Lia Bool Eqdep_dec.
From VBase Require Import FieldOps ZpOps.
From VProofs Require Import NumTheoryFermat NumTheoryPrime.
Open Scope Z_scope.

(* ---------- canonical residues ---------- *)

Definition zp_canon (p x : Z) : bool := (0 <=? x) && (x <? p).

Definition Zp (p : Z) : Type := { x : Z | zp_canon p x = true }.

Definition zp_val {p} (a : Zp p) : Z := proj1_sig a.

Lemma zp_canon_iff : forall p x, zp_canon p x = true <-> 0 <= x < p.
Proof. intros. unfold zp_canon. rewrite andb_true_iff, Z.leb_le, Z.ltb_lt. tauto. Qed.

Lemma zp_val_range : forall p (a : Zp p), 0 <= zp_val a < p.
Proof. intros p [x Hx]. apply zp_canon_iff. exact Hx. Qed.

Lemma zp_val_inj : forall p (a b : Zp p), zp_val a = zp_val b -> a = b.
Proof.
  intros p [x Hx] [y Hy]. cbn [zp_val proj1_sig]. intros ->.
  f_equal. apply UIP_dec. apply bool_dec.
Qed.

Lemma zp_canon_mod : forall p x, 1 < p -> zp_canon p (x mod p) = true.
Proof. intros. apply zp_canon_iff. apply Z.mod_pos_bound. lia. Qed.

Lemma zp_canon_0 : forall p, 1 < p -> zp_canon p 0 = true.
Proof. intros. apply zp_canon_iff. lia. Qed.

Lemma zp_canon_inv : forall p x, 1 < p -> zp_canon p (zp_inv p x) = true.
Proof. intros. apply zp_canon_iff. apply zp_inv_range. lia. Qed.

(* ---------- the operations on Zp p ---------- *)

Section Ops.
  Variable p : Z.
  Hypothesis Hp : 1 < p.

  (* reduce an integer into Zp p *)
  Definition zp_mk (x : Z) : Zp p := exist _ (x mod p) (zp_canon_mod p x Hp).

  Definition zpT_ops : FOps (Zp p) := {|
    fzero := exist _ 0 (zp_canon_0 p Hp);
    fone := zp_mk 1;
    fadd := fun a b => zp_mk (zp_val a + zp_val b);
    fsub := fun a b => zp_mk (zp_val a - zp_val b);
    fmul := fun a b => zp_mk (zp_val a * zp_val b);
    fneg := fun a => zp_mk (- zp_val a);
    fdouble := fun a => zp_mk (zp_val a + zp_val a);
    fsquare := fun a => zp_mk (zp_val a * zp_val a);
    finv := fun a => exist _ (zp_inv p (zp_val a)) (zp_canon_inv p (zp_val a) Hp);
    fdiv := fun a b => zp_mk (zp_val a * zp_inv p (zp_val b));
    feqb := fun a b => Z.eqb (zp_val a) (zp_val b);
    fofz := fun v => zp_mk v
  |}.

  (* every operation of zpT_ops is the operation of zp_ops p on the underlying integers *)
  Lemma zpT_zero_val : proj1_sig (fzero zpT_ops) = fzero (zp_ops p).
  Proof. reflexivity. Qed.
  Lemma zpT_one_val : proj1_sig (fone zpT_ops) = fone (zp_ops p).
  Proof. reflexivity. Qed.
  Lemma zpT_add_val : forall a b,
    proj1_sig (fadd zpT_ops a b) = fadd (zp_ops p) (proj1_sig a) (proj1_sig b).
  Proof. reflexivity. Qed.
  Lemma zpT_sub_val : forall a b,
    proj1_sig (fsub zpT_ops a b) = fsub (zp_ops p) (proj1_sig a) (proj1_sig b).
  Proof. reflexivity. Qed.
  Lemma zpT_mul_val : forall a b,
    proj1_sig (fmul zpT_ops a b) = fmul (zp_ops p) (proj1_sig a) (proj1_sig b).
  Proof. reflexivity. Qed.
  Lemma zpT_neg_val : forall a,
    proj1_sig (fneg zpT_ops a) = fneg (zp_ops p) (proj1_sig a).
  Proof. reflexivity. Qed.
  Lemma zpT_double_val : forall a,
    proj1_sig (fdouble zpT_ops a) = fdouble (zp_ops p) (proj1_sig a).
  Proof. reflexivity. Qed.
  Lemma zpT_square_val : forall a,
    proj1_sig (fsquare zpT_ops a) = fsquare (zp_ops p) (proj1_sig a).
  Proof. reflexivity. Qed.
  Lemma zpT_inv_val : forall a,
    proj1_sig (finv zpT_ops a) = finv (zp_ops p) (proj1_sig a).
  Proof. reflexivity. Qed.
  Lemma zpT_div_val : forall a b,
    proj1_sig (fdiv zpT_ops a b) = fdiv (zp_ops p) (proj1_sig a) (proj1_sig b).
  Proof. reflexivity. Qed.
  Lemma zpT_eqb_val : forall a b,
    feqb zpT_ops a b = feqb (zp_ops p) (proj1_sig a) (proj1_sig b).
  Proof. reflexivity. Qed.
  Lemma zpT_ofz_val : forall v,
    proj1_sig (fofz zpT_ops v) = fofz (zp_ops p) v.
  Proof. reflexivity. Qed.

  (* fofz is onto, and is the identity on canonical representatives *)
  Lemma zpT_ofz_of_val : forall a : Zp p, fofz zpT_ops (proj1_sig a) = a.
  Proof.
    intros a. apply zp_val_inj. cbn [zp_val fofz zpT_ops zp_mk proj1_sig].
    apply Z.mod_small. apply (zp_val_range p a).
  Qed.
End Ops.

(* ---------- the laws ---------- *)

Theorem zpT_laws : forall p (Hp : Znumtheory.prime p) (H2 : 2 < p),
  FLaws (zpT_ops p (prime_gt1 p Hp)).
Proof.
  intros p Hp H2.
  set (H1 := prime_gt1 p Hp). clearbody H1.
  assert (R : forall a : Zp p, 0 <= zp_val a < p) by apply zp_val_range.
  constructor;
    try (intros a b c; pose proof (R a); pose proof (R b); pose proof (R c));
    try (intros a b; pose proof (R a); pose proof (R b));
    try (intros a; pose proof (R a));
    try (apply zp_val_inj; cbn [zp_val fzero fone fadd fsub fmul fneg fdouble fsquare finv fdiv
                                zpT_ops zp_mk proj1_sig]).
  - (* add_comm *) f_equal; ring.
  - (* add_assoc *)
    rewrite Z.add_mod_idemp_r, Z.add_mod_idemp_l by lia. f_equal; ring.
  - (* add_0_l *) apply Z.mod_small. lia.
  - (* mul_comm *) f_equal; ring.
  - (* mul_assoc *)
    rewrite Z.mul_mod_idemp_r, Z.mul_mod_idemp_l by lia. f_equal; ring.
  - (* mul_1_l *)
    rewrite Z.mul_mod_idemp_l by lia. rewrite Z.mul_1_l. apply Z.mod_small. lia.
  - (* distr_l *)
    rewrite Z.mul_mod_idemp_l by lia. rewrite <- Z.add_mod by lia. f_equal; ring.
  - (* sub_def *)
    rewrite Z.add_mod_idemp_r by lia. f_equal; ring.
  - (* neg_def *)
    rewrite Z.add_mod_idemp_r by lia. rewrite Z.add_opp_diag_r. apply Z.mod_0_l. lia.
  - (* double_def *) reflexivity.
  - (* square_def *) reflexivity.
  - (* one_neq_zero *)
    intros E. apply (f_equal zp_val) in E. cbn [zp_val fone fzero zpT_ops zp_mk proj1_sig] in E.
    rewrite Z.mod_small in E by lia. discriminate.
  - (* inv_l *)
    intros Hne. apply zp_val_inj.
    cbn [zp_val fzero fone fadd fsub fmul fneg fdouble fsquare finv fdiv
         zpT_ops zp_mk proj1_sig].
    rewrite (Z.mod_small 1 p) by lia.
    apply zp_inv_spec; [exact Hp|lia|].
    intros E. apply Hne. apply zp_val_inj. exact E.
  - (* inv_0 *)
    apply zp_inv_0. exact H2.
  - (* div_def *)
    reflexivity.
  - (* eqb_spec *)
    cbn [feqb zpT_ops]. rewrite Z.eqb_eq. split; [apply zp_val_inj|intros ->; reflexivity].
Qed.

(* ---------- the three concrete fields ---------- *)

Definition F64_ops : FOps (Zp P64) := zpT_ops P64 (prime_gt1 P64 P64_prime).
Definition F62_ops : FOps (Zp P62) := zpT_ops P62 (prime_gt1 P62 P62_prime).
Definition F128_ops : FOps (Zp P128) := zpT_ops P128 (prime_gt1 P128 P128_prime).

Definition F64_laws : FLaws F64_ops := zpT_laws P64 P64_prime eq_refl.
Definition F62_laws : FLaws F62_ops := zpT_laws P62 P62_prime eq_refl.
Definition F128_laws : FLaws F128_ops := zpT_laws P128 P128_prime eq_refl.

(* ---------- plain-Z closure facts (operations of zp_ops p stay canonical) ---------- *)

Lemma zp_ops_closed : forall p, 1 < p ->
  let O := zp_ops p in let C x := 0 <= x < p in
  C (fzero O) /\ C (fone O) /\
  (forall a b, C (fadd O a b)) /\ (forall a b, C (fsub O a b)) /\ (forall a b, C (fmul O a b)) /\
  (forall a, C (fneg O a)) /\ (forall a, C (fdouble O a)) /\ (forall a, C (fsquare O a)) /\
  (forall a, C (finv O a)) /\ (forall a b, C (fdiv O a b)) /\ (forall v, C (fofz O v)).
Proof.
  intros p Hp. cbv zeta. cbn [zp_ops fzero fone fadd fsub fmul fneg fdouble fsquare finv fdiv fofz].
  repeat split; intros; try (apply Z.mod_pos_bound; lia); try (apply zp_inv_range; lia); lia.
Qed.

(* ---------- why the statements have the shape they have ---------- *)

(* FLaws over all of Z is false for every modulus p > 0: fl_add_0_l fails at a = p. *)
Lemma zp_ops_laws_refuted : forall p, 0 < p -> ~ FLaws (zp_ops p).
Proof.
  intros p Hp L. assert (E := fl_add_0_l _ L p).
  cbn [zp_ops fadd fzero] in E. rewrite Z.add_0_l, Z.mod_same in E by lia. lia.
Qed.

(* At p = 2 the law fl_inv_0 fails (zp_inv 2 0 = 1): the hypothesis 2 < p of zpT_laws is needed. *)
Lemma zpT_laws_2_refuted : forall H : 1 < 2, ~ FLaws (zpT_ops 2 H).
Proof.
  intros H L. assert (E := fl_inv_0 _ L). apply (f_equal (@proj1_sig _ _)) in E.
  cbn [zpT_ops finv fzero proj1_sig zp_val] in E. vm_compute in E. discriminate.
Qed.

Print Assumptions zpT_laws.
Print Assumptions F64_laws.
Print Assumptions F62_laws.
Print Assumptions F128_laws.
