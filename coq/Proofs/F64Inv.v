(* f64: inv is the multiplicative inverse (Fermat + primality of M); moduli are prime. *)
From VBase Require Import MachInt ZpOps.
From VGen Require Import F64.
From VProofs Require Import F64Red F64Ops F64Exp NumTheoryFermat NumTheoryPrime.
Open Scope Z_scope.

Lemma M_is_P64 : M = P64. Proof. reflexivity. Qed.
Theorem M64_prime : Znumtheory.prime M.
Proof. rewrite M_is_P64. exact P64_prime. Qed.

Theorem f64_inv_spec a : repr a -> val a <> 0 ->
  repr (f64_inv a) /\ (val (f64_inv a) * val a) mod M = 1.
Proof.
  intros Ha Hnz. destruct (f64_inv_pow a Ha) as [R V]. split; [exact R|].
  rewrite V, Z.mul_mod_idemp_l by (unfold M; lia).
  rewrite Z.mul_comm. apply fermat_inv_Z; [exact M64_prime|].
  rewrite Z.mod_small by apply val_range. exact Hnz.
Qed.

Theorem f64_div_mul a b : repr a -> repr b -> val b <> 0 ->
  (val (f64_div a b) * val b) mod M = val a.
Proof.
  intros Ha Hb Hnz. destruct (f64_div_spec a b Ha Hb) as [_ V]. rewrite V.
  destruct (f64_inv_pow b Hb) as [_ Vi]. rewrite <- Vi.
  rewrite Z.mul_mod_idemp_l by (unfold M; lia).
  rewrite <- Z.mul_assoc, <- Z.mul_mod_idemp_r by (unfold M; lia).
  destruct (f64_inv_spec b Hb Hnz) as [_ E]. rewrite E, Z.mul_1_r.
  apply Z.mod_small, val_range.
Qed.
