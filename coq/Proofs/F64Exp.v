(* f64: exponentiation, inversion (addition chain = x^(M-2)), division. *)
From VBase Require Import MachInt.
From VGen Require Import F64.
From VProofs Require Import F64Red F64Ops.
Open Scope Z_scope.

(* r represents a^e *)
Definition is_pow (a r e : Z) : Prop := repr r /\ val r = (val a ^ e) mod M.

Lemma Mgt : 1 < M. Proof. reflexivity. Qed.

Lemma is_pow_mul a r1 r2 e1 e2 : 0 <= e1 -> 0 <= e2 ->
  is_pow a r1 e1 -> is_pow a r2 e2 -> is_pow a (f64_mul r1 r2) (e1 + e2).
Proof.
  intros H1 H2 [R1 V1] [R2 V2]. destruct (f64_mul_spec r1 r2 R1 R2) as [R V].
  split; [exact R|]. rewrite V, V1, V2, Z.pow_add_r by assumption.
  rewrite <- Z.mul_mod by (unfold M; lia). reflexivity.
Qed.

Lemma is_pow_one a : is_pow a f64_ONE 0.
Proof. split; [unfold repr, M; rewrite f64_ONE_eq; lia|]. rewrite val_ONE. reflexivity. Qed.

Lemma is_pow_self a : repr a -> is_pow a a 1.
Proof.
  intros Ha. split; [exact Ha|]. rewrite Z.pow_1_r. symmetry. apply Z.mod_small, val_range.
Qed.

(* ---- for_up / for_down over ranges starting at 0 ---- *)
Lemma zrange_0_S n : zrange 0 (Z.of_nat (S n)) = zrange 0 (Z.of_nat n) ++ [Z.of_nat n].
Proof.
  unfold zrange. rewrite !Z.sub_0_r, !Nat2Z.id. rewrite seq_S, map_app. reflexivity.
Qed.

Lemma for_up_S {S} n (body : Z -> S -> S) s :
  for_up 0 (Z.of_nat (Datatypes.S n)) body s = body (Z.of_nat n) (for_up 0 (Z.of_nat n) body s).
Proof. unfold for_up. rewrite zrange_0_S, fold_left_app. reflexivity. Qed.

Lemma for_up_0 {S} (body : Z -> S -> S) s : for_up 0 0 body s = s.
Proof. reflexivity. Qed.

Lemma for_down_S {S} n (body : Z -> S -> S) s :
  for_down 0 (Z.of_nat (Datatypes.S n)) body s = for_down 0 (Z.of_nat n) body (body (Z.of_nat n) s).
Proof. unfold for_down. rewrite zrange_0_S, rev_app_distr. reflexivity. Qed.

(* ---- exp_acc ---- *)
Lemma exp_acc_spec a (n : nat) base tail e1 e2 : 0 <= e1 -> 0 <= e2 ->
  is_pow a base e1 -> is_pow a tail e2 ->
  is_pow a (f64_exp_acc (Z.of_nat n) base tail) (e1 * 2 ^ Z.of_nat n + e2).
Proof.
  intros H1 H2 Hb Ht. unfold f64_exp_acc. cbv beta iota zeta.
  apply is_pow_mul; [nia|assumption| |assumption].
  induction n as [|n IH].
  - rewrite for_up_0. replace (e1 * 2 ^ Z.of_nat 0) with e1 by (cbn; lia). exact Hb.
  - rewrite for_up_S. cbv beta iota zeta.
    replace (e1 * 2 ^ Z.of_nat (S n)) with (e1 * 2 ^ Z.of_nat n + e1 * 2 ^ Z.of_nat n).
    + apply is_pow_mul; try assumption; nia.
    + rewrite Nat2Z.inj_succ, Z.pow_succ_r by lia. ring.
Qed.

Lemma exp_acc_spec' a (n : Z) base tail e1 e2 e : 0 <= n -> 0 <= e1 -> 0 <= e2 ->
  is_pow a base e1 -> is_pow a tail e2 -> e = e1 * 2 ^ n + e2 ->
  is_pow a (f64_exp_acc n base tail) e.
Proof.
  intros Hn H1 H2 Hb Ht ->. rewrite <- (Z2Nat.id n Hn). apply exp_acc_spec; assumption.
Qed.

(* ---- inv: addition chain for M - 2 ---- *)
Theorem f64_inv_pow a : repr a -> is_pow a (f64_inv a) (M - 2).
Proof.
  intros Ha. pose proof (is_pow_self a Ha) as P1. unfold f64_inv.
  assert (P2 : is_pow a (f64_mul (f64_mul a a) a) 3).
  { replace 3 with ((1 + 1) + 1) by reflexivity. repeat apply is_pow_mul; try assumption; lia. }
  set (t2 := f64_mul (f64_mul a a) a) in *.
  assert (P3 : is_pow a (f64_mul (f64_mul t2 t2) a) 7).
  { replace 7 with ((3 + 3) + 1) by reflexivity. repeat apply is_pow_mul; try assumption; lia. }
  set (t3 := f64_mul (f64_mul t2 t2) a) in *.
  assert (P6 : is_pow a (f64_exp_acc 3 t3 t3) 63).
  { apply (exp_acc_spec' a 3 t3 t3 7 7); try assumption; try lia; try reflexivity. }
  set (t6 := f64_exp_acc 3 t3 t3) in *.
  assert (P12 : is_pow a (f64_exp_acc 6 t6 t6) 4095).
  { apply (exp_acc_spec' a 6 t6 t6 63 63); try assumption; try lia; try reflexivity. }
  set (t12 := f64_exp_acc 6 t6 t6) in *.
  assert (P24 : is_pow a (f64_exp_acc 12 t12 t12) 16777215).
  { apply (exp_acc_spec' a 12 t12 t12 4095 4095); try assumption; try lia; try reflexivity. }
  set (t24 := f64_exp_acc 12 t12 t12) in *.
  assert (P30 : is_pow a (f64_exp_acc 6 t24 t6) 1073741823).
  { apply (exp_acc_spec' a 6 t24 t6 16777215 63); try assumption; try lia; try reflexivity. }
  set (t30 := f64_exp_acc 6 t24 t6) in *.
  assert (P31 : is_pow a (f64_mul (f64_mul t30 t30) a) 2147483647).
  { replace 2147483647 with ((1073741823 + 1073741823) + 1) by reflexivity.
    repeat apply is_pow_mul; try assumption; lia. }
  set (t31 := f64_mul (f64_mul t30 t30) a) in *.
  assert (P63 : is_pow a (f64_exp_acc 32 t31 t31) 9223372034707292159).
  { apply (exp_acc_spec' a 32 t31 t31 2147483647 2147483647); try assumption; try lia; try reflexivity. }
  set (t63 := f64_exp_acc 32 t31 t31) in *.
  cbv beta iota zeta. fold t2 t3 t6 t12 t24 t30 t31 t63.
  replace (M - 2) with ((9223372034707292159 + 9223372034707292159) + 1) by reflexivity.
  repeat apply is_pow_mul; try assumption; lia.
Qed.

Theorem f64_inv_zero : f64_inv 0 = 0.
Proof. vm_compute. reflexivity. Qed.

Theorem f64_div_spec a b : repr a -> repr b ->
  repr (f64_div a b) /\ val (f64_div a b) = (val a * (val b ^ (M - 2) mod M)) mod M.
Proof.
  intros Ha Hb. unfold f64_div. destruct (f64_inv_pow b Hb) as [Ri Vi].
  destruct (f64_mul_spec a (f64_inv b) Ha Ri) as [R V]. split; [exact R|].
  rewrite V, Vi. reflexivity.
Qed.

(* ---- exp: constant-time square-and-multiply over 64 bits ---- *)
Lemma mask_select r b (bit : bool) : 0 <= r < 2^64 -> 0 <= b < 2^64 ->
  Z.lxor r (Z.land (wrap 64 (swrap 64 (- b2z bit))) (Z.lxor r b)) = if bit then b else r.
Proof.
  intros Hr Hb. destruct bit; cbn [b2z].
  - assert (E : wrap 64 (swrap 64 (Z.opp 1)) = Z.ones 64) by reflexivity. rewrite E.
    rewrite Z.land_comm, Z.land_ones by lia.
    assert (Hx : 0 <= Z.lxor r b < 2^64).
    { split; [apply Z.lxor_nonneg; lia|].
      destruct (Z.eq_dec (Z.lxor r b) 0) as [E0|E0]; [rewrite E0; lia|].
      assert (0 <= Z.lxor r b) by (apply Z.lxor_nonneg; lia).
      apply Z.log2_lt_pow2; [lia|].
      eapply Z.le_lt_trans; [apply Z.log2_lxor; lia|].
      destruct (Z.eq_dec r 0) as [->|]; destruct (Z.eq_dec b 0) as [->|]; cbn; try lia;
        apply Z.max_lub_lt; try (apply Z.log2_lt_pow2; lia); cbn; lia. }
    rewrite Z.mod_small by exact Hx.
    rewrite <- Z.lxor_assoc, Z.lxor_nilpotent, Z.lxor_0_l. reflexivity.
  - assert (E : wrap 64 (swrap 64 (Z.opp 0)) = 0) by reflexivity. rewrite E.
    rewrite Z.land_0_l, Z.lxor_0_r. reflexivity.
Qed.

Lemma bit_eq p i : 0 <= p -> 0 <= i -> (Z.land (shr p i) 1 =? 1) = Z.odd (p / 2^i).
Proof.
  intros Hp Hi. unfold shr. change 1 with (Z.ones 1) at 1. rewrite Z.land_ones by lia.
  change (2^1) with 2. rewrite Zmod_odd. destruct (Z.odd (p / 2^i)); reflexivity.
Qed.

Lemma div_pow2_step p (n : nat) : 0 <= p ->
  p / 2 ^ Z.of_nat n = 2 * (p / 2 ^ Z.of_nat (S n)) + (if Z.odd (p / 2 ^ Z.of_nat n) then 1 else 0).
Proof.
  intros Hp. rewrite Nat2Z.inj_succ, Z.pow_succ_r by lia.
  assert (Hpw : 0 < 2 ^ Z.of_nat n) by (apply Z.pow_pos_nonneg; lia).
  replace (2 * 2 ^ Z.of_nat n) with (2 ^ Z.of_nat n * 2) by ring. rewrite <- Z.div_div by lia.
  set (q := p / 2 ^ Z.of_nat n). rewrite <- Zmod_odd. pose proof (Z.div_mod q 2). lia.
Qed.

Theorem f64_exp_spec a p : repr a -> 0 <= p < 2^64 -> is_pow a (f64_exp a p) p.
Proof.
  intros Ha Hp. unfold f64_exp. cbv beta iota zeta.
  (* generalise: after processing bits 63..n the accumulator holds a^(p / 2^n) *)
  assert (G : forall (n : nat) r b0, is_pow a r (p / 2 ^ Z.of_nat n) ->
    is_pow a (let '(r, b) := for_down 0 (Z.of_nat n) (fun i '(r, b) =>
        let r := f64_mul r r in let b := r in let b := f64_mul b a in
        let mask := wrap 64 (swrap 64 (Z.opp (b2z (Z.eqb (Z.land (shr p i) 1) 1)))) in
        let r := Z.lxor r (Z.land mask (Z.lxor r b)) in (r, b)) (r, b0) in r) p).
  { induction n as [|n IH]; intros r b0 Hr.
    - cbn. replace (p / 2 ^ Z.of_nat 0) with p in Hr by (cbn; rewrite Z.div_1_r; reflexivity). exact Hr.
    - rewrite for_down_S. cbv beta iota zeta. apply IH.
      assert (Hnn : 0 <= p / 2 ^ Z.of_nat (S n)) by (apply Z.div_pos; [lia|apply Z.pow_pos_nonneg; lia]).
      assert (Hsq : is_pow a (f64_mul r r) (p / 2 ^ Z.of_nat (S n) + p / 2 ^ Z.of_nat (S n)))
        by (apply is_pow_mul; assumption).
      assert (Hsqa : is_pow a (f64_mul (f64_mul r r) a) (p / 2 ^ Z.of_nat (S n) + p / 2 ^ Z.of_nat (S n) + 1))
        by (apply is_pow_mul; [lia|lia|assumption|apply is_pow_self; exact Ha]).
      rewrite bit_eq by lia.
      rewrite mask_select by (destruct Hsq as [[? ?] _], Hsqa as [[? ?] _]; unfold M in *; lia).
      pose proof (div_pow2_step p n ltac:(lia)) as Hstep. revert Hstep.
      destruct (Z.odd (p / 2 ^ Z.of_nat n)); intros Hstep; rewrite Hstep.
      + replace (2 * (p / 2 ^ Z.of_nat (S n)) + 1) with (p / 2 ^ Z.of_nat (S n) + p / 2 ^ Z.of_nat (S n) + 1) by ring. exact Hsqa.
      + replace (2 * (p / 2 ^ Z.of_nat (S n)) + 0) with (p / 2 ^ Z.of_nat (S n) + p / 2 ^ Z.of_nat (S n)) by ring. exact Hsq. }
  apply (G 64%nat f64_ONE 0).
  replace (p / 2 ^ Z.of_nat 64) with 0 by (symmetry; apply Z.div_small; exact Hp).
  apply is_pow_one.
Qed.
