(* C01 — discharging the stage premises of the capstone from the theorems of the other properties:
     interp_complete, coset_off_domain  <-  C09_interpolate_with_offset_spec (FFT interpolation over the CE coset)
     merkle_complete                    <-  C10_new_ok, C10_build_nodes_spec, C10_batch_complete (MerkleTree / BatchMerkleProof)
     transcript_agree (cV = cP)         <-  C04_transcript_agree (both coins are one function of the same challenge list)
     the transition divisor             <-  C16_transition_divisor_is_polynomial (ConstraintDivisor::evaluate_at is the vanishing
                                            polynomial of the enforced steps by which quotient_is_poly divides)
   by instantiating the Section variables of Model/Stark.v with the models of those properties
   (Model/FFT.v, Model/Merkle.v, Model/Transcript.v).  `fri_complete` stays a premise (see Props/C01.v).
   Other workers' files are only imported.  stdlib style. *)
From Coq Require Import List Arith Bool ZArith Lia Ring Field.
From VBase Require Import FieldOps.
From VModel Require Import Stark.
From VModel Require FFT Merkle Transcript Enforce.
From VProofs Require Import StarkPoly StarkDeep StarkComplete.
From VProofs Require FFTSpec FFTEval FFTOffset MerkleBase MerkleSingle TranscriptRun EnforceField EnforceDivisor.
From VProps Require C09 C10 C04 C16.
Import ListNotations.

(* ================================================================================================ C09 *)
Section InterpInst.
Context {F : Type} (O : FOps F) (L : FLaws O).
Local Notation zero := (fzero O).
Local Notation one := (fone O).
Local Notation "a *f b" := (fmul O a b) (at level 40, left associativity).
Add Ring FringI : (FLaws_ring_theory O L).

Lemma fft_peval_eq : forall p x, FFT.peval O p x = peval O p x.
Proof. induction p as [|c t IH]; intros x; [reflexivity|]. cbn [FFT.peval peval]. now rewrite IH. Qed.
Lemma fft_fpow_eq : forall x n, FFT.fpow O x n = fpow O x n.
Proof. induction n as [|n IH]; [reflexivity|]. cbn [FFT.fpow fpow]. now rewrite IH. Qed.

(* parameters of fft::interpolate_poly_with_offset as called by CompositionPoly::new *)
Variables (two_adicity : nat) (itw : list F) (K : nat) (w winv offset : F).
Definition ce_size : nat := 2 ^ S K.
Definition ce_coset : list F := map (fun i => offset *f fpow O w i) (seq 0 ce_size).
Definition interp_ce (f : F -> F) : list F :=
  match FFT.interpolate_poly_with_offset O two_adicity (map f ce_coset) itw offset with Some c => c | None => [] end.

Hypothesis Hitw : length itw = 2 ^ K.
Hypothesis Hta : S K <= two_adicity.
Hypothesis Hroot : FFTSpec.root_cond O (S K) w.
Hypothesis Hinv : w *f winv = one.
Hypothesis Htw : FFTEval.tw_ok O itw (S K) winv.
Hypothesis Hoff : offset <> zero.
Hypothesis Hn_inv : FFTSpec.two_pow_f O (S K) *f FFTOffset.n_inv O (S K) = one.

(* interp_complete, from C09_interpolate_with_offset_spec *)
Theorem interp_complete_inst : forall f Q, length Q <= ce_size -> (forall x, In x ce_coset -> f x = peval O Q x) ->
  interp_ce f = Q ++ repeat zero (ce_size - length Q).
Proof.
  intros f Q Hl Hf. unfold interp_ce.
  set (p := Q ++ repeat zero (ce_size - length Q)).
  assert (Hp : length p = 2 ^ S K). { unfold p. rewrite app_length, repeat_length. unfold ce_size in *. lia. }
  assert (E : map f ce_coset = map (fun i => FFT.peval O p (offset *f FFT.fpow O w i)) (seq 0 (2 ^ S K))).
  { unfold ce_coset. rewrite map_map. apply map_ext_in. intros i H.
    change (FFT.peval O p) with (peval O p). change (FFT.fpow O w i) with (fpow O w i). unfold p. rewrite (peval_app O L), (peval_repeat_zero O L).
    rewrite Hf. { ring. } unfold ce_coset. apply in_map_iff. exists i. split; [reflexivity|].
    apply in_seq. apply in_seq in H. exact H. }
  rewrite E. rewrite (C09.C09_interpolate_with_offset_spec F O L two_adicity itw K w winv offset p Hp Hitw Hta Hroot Hinv Htw Hoff Hn_inv).
  reflexivity.
Qed.

(* coset_off_domain: the coset offset*<w> does not meet the trace domain <g> when g lies in <w> and offset does not *)
Lemma root_cond_order : fpow O w ce_size = one.
Proof.
  unfold ce_size. cbn [FFTSpec.root_cond] in Hroot. change (FFT.fpow O w (2 ^ K)) with (fpow O w (2 ^ K)) in Hroot.
  replace (2 ^ S K) with (2 ^ K + 2 ^ K) by (simpl; lia). rewrite (fpow_add O L), Hroot. ring.
Qed.

Theorem coset_off_domain_inst g n : fpow O g ce_size = one -> fpow O offset ce_size <> one ->
  forall x, In x ce_coset -> ~ In x (domain O g n).
Proof.
  intros Hg Ho x Hx Hd. unfold ce_coset in Hx. apply in_map_iff in Hx. destruct Hx as (i & <- & _).
  apply (In_domain O) in Hd. destruct Hd as (j & _ & E).
  apply Ho. assert (E2 : fpow O (offset *f fpow O w i) ce_size = fpow O (fpow O g j) ce_size) by now rewrite E.
  rewrite (fpow_mul_base O L) in E2.
  rewrite <- !(fpow_mul O L) in E2. rewrite (Nat.mul_comm ce_size i), (Nat.mul_comm ce_size j) in E2.
  rewrite !(fpow_mul O L) in E2. rewrite root_cond_order, Hg, !(fpow_one O L) in E2. rewrite <- E2. ring.
Qed.
End InterpInst.

(* position of a point in a list of distinct points (the LDE domain in position order) *)
Section Find.
Context {F : Type} (O : FOps F) (L : FLaws O).
Fixpoint find (l : list F) (x : F) : nat :=
  match l with [] => 0 | h :: t => if feqb O h x then 0 else S (find t x) end.

Lemma find_spec : forall l x, In x l -> find l x < length l /\ nth_error l (find l x) = Some x.
Proof.
  induction l as [|h t IH]; intros x Hx; [contradiction|]. cbn [find].
  destruct (feqb O h x) eqn:E.
  - apply (feqb_true O L) in E. subst. simpl. split; [lia | reflexivity].
  - destruct Hx as [->|Hx]; [rewrite (feqb_refl O L) in E; discriminate|].
    destruct (IH x Hx) as [H1 H2]. simpl. split; [lia | exact H2].
Qed.
End Find.

(* ================================================================================================ C10 *)
Section MerkleInst.
Context {F : Type} (O : FOps F) (L : FLaws O).
Variable D : Type.
Variable D_eqb : D -> D -> bool.
Hypothesis D_eqb_spec : forall a b, D_eqb a b = true <-> a = b.
Variable d0 : D.
Variable merge : D -> D -> D.
Variable hash_row : list F -> D.          (* H::hash_elements of one row of the LDE matrix *)
Variable lde : list F.                    (* the LDE domain, in position order: lde[i] = offset * g_lde^i *)
Variable depth : nat.
Hypothesis Hdepth : 1 <= depth <= 62.
Hypothesis Hlde_len : length lde = 2 ^ depth.

Definition pos_of (x : F) : Z := Z.of_nat (find O lde x).


Definition leaves_of (cs : list (list F)) : list D := map (fun x => hash_row (evals O cs x)) lde.
Definition Opening : Type := (list (list D) * Z)%type.      (* BatchMerkleProof without its leaves: nodes, depth *)

Definition commit (cs : list (list F)) : D :=
  match Merkle.mt_new D d0 merge (leaves_of cs) with
  | Merkle.Ok t => match Merkle.mt_root D t with Merkle.Ok r => r | _ => d0 end
  | _ => d0
  end.
Definition open_prove (cs : list (list F)) (xs : list F) : Opening :=
  match Merkle.mt_new D d0 merge (leaves_of cs) with
  | Merkle.Ok t => match Merkle.mt_prove_batch D d0 t (map pos_of xs) with
                   | Merkle.Ok p => (@Merkle.bp_nodes D p, @Merkle.bp_depth D p) | _ => ([], 0%Z) end
  | _ => ([], 0%Z)
  end.
(* the verifier hashes the opened rows into the leaves of the batch proof and calls verify_batch *)
Definition open_ok (root : D) (xs : list F) (rows : list (list F)) (op : Opening) : bool :=
  match Merkle.verify_batch D D_eqb merge root (map pos_of xs)
          (@Merkle.Build_bproof D (map hash_row rows) (fst op) (snd op)) with
  | Merkle.Ok _ => true | _ => false end.

Lemma nth_error_ext_eq {A} : forall l1 l2 : list A, (forall j, nth_error l1 j = nth_error l2 j) -> l1 = l2.
Proof.
  induction l1 as [|a l1 IH]; intros [|b l2] H; try reflexivity.
  - specialize (H 0). discriminate.
  - specialize (H 0). discriminate.
  - pose proof (H 0) as H0. simpl in H0. inversion H0; subst. f_equal. apply IH. intros j. exact (H (S j)).
Qed.

(* merkle_complete, from C10_new_ok / C10_build_nodes_spec / C10_batch_complete *)
Theorem merkle_complete_inst : forall (cs : list (list F)) xs, incl xs lde -> NoDup xs -> xs <> [] -> length xs <= 255 ->
  open_ok (commit cs) xs (map (evals O cs) xs) (open_prove cs xs) = true.
Proof.
  intros cs xs Hin Hnd Hne H255.
  assert (Hll : Merkle.zlen (leaves_of cs) = (2 ^ Z.of_nat depth)%Z).
  { unfold Merkle.zlen, leaves_of. rewrite map_length, Hlde_len. rewrite Nat2Z.inj_pow. reflexivity. }
  assert (Hbr : Z.of_nat (2 ^ depth) = (2 ^ Z.of_nat depth)%Z) by (rewrite Nat2Z.inj_pow; reflexivity).
  destruct (C10.C10_new_ok D d0 merge (leaves_of cs) depth ltac:(lia) Hll) as (t & Ht).
  destruct (C10.C10_build_nodes_spec D d0 merge (leaves_of cs) t Ht) as (Hlv & d' & WF).
  assert (d' = depth).
  { pose proof (MerkleSingle.wf_leaves D d0 merge d' t WF) as E. rewrite Hlv, Hll in E.
    apply Z.pow_inj_r in E; lia. }
  subst d'.
  pose proof (MerkleSingle.root_hval D d0 merge t depth WF ltac:(lia)) as Hroot.
  set (root := MerkleSingle.hval D d0 t 1%Z) in *.
  assert (Hidx : forall i, In i (map pos_of xs) -> (0 <= i < Merkle.zlen (leaves_of cs))%Z).
  { intros i Hi. apply in_map_iff in Hi. destruct Hi as (x & <- & Hx).
    destruct (find_spec O L lde x (Hin x Hx)) as [Hlt _]. unfold pos_of. rewrite Hll, <- Hbr, <- Hlde_len. lia. }
  assert (Hnd' : NoDup (map pos_of xs)).
  { clear Hne H255 Hidx. induction xs as [|x xs' IH]; [constructor|]. inversion Hnd; subst. cbn [map]. constructor.
    - intros Hi. apply in_map_iff in Hi. destruct Hi as (y & Ey & Hy).
      destruct (find_spec O L lde x (Hin x (or_introl eq_refl))) as [_ Hx].
      destruct (find_spec O L lde y (Hin y (or_intror Hy))) as [_ Hy'].
      unfold pos_of in Ey. apply Nat2Z.inj in Ey. rewrite Ey in Hy'. rewrite Hx in Hy'. inversion Hy'; subst. contradiction.
    - apply IH; [intros y Hy; apply Hin; now right | assumption]. }
  destruct (C10.C10_batch_complete D D_eqb D_eqb_spec d0 merge (leaves_of cs) t depth root (map pos_of xs)
              Ht Hll ltac:(lia) Hroot) as (p & Hp & _ & Hlen & Hleaves & _ & Hver).
  { destruct xs; [congruence | discriminate]. }
  { unfold Merkle.zlen. rewrite map_length. lia. }
  { exact Hnd'. }
  { exact Hidx. }
  (* the proof's leaves are the hashes of the opened rows *)
  assert (El : @Merkle.bp_leaves D p = map hash_row (map (evals O cs) xs)).
  { apply nth_error_ext_eq. intros j. rewrite map_length in Hlen.
    destruct (nth_error xs j) as [x|] eqn:Ex.
    - assert (Hx : In x xs) by (eapply nth_error_In; eassumption).
      rewrite (Hleaves j (pos_of x)) by (rewrite nth_error_map, Ex; reflexivity).
      unfold pos_of. rewrite Nat2Z.id. destruct (find_spec O L lde x (Hin x Hx)) as [_ Hf].
      unfold leaves_of. rewrite !nth_error_map, Hf, Ex. reflexivity.
    - apply nth_error_None in Ex.
      assert (nth_error (@Merkle.bp_leaves D p) j = None) as -> by (apply nth_error_None; lia).
      symmetry. apply nth_error_None. rewrite !map_length. exact Ex. }
  unfold open_ok, commit, open_prove. rewrite Ht, Hroot, Hp. cbn [fst snd]. rewrite <- El.
  destruct p as [pl pn pd]. cbn [Merkle.bp_leaves Merkle.bp_nodes Merkle.bp_depth]. rewrite Hver. reflexivity.
Qed.
End MerkleInst.

(* ================================================================================================ C16 *)
Section EnforceInst.
Context {F : Type} (O : FOps F) (L : FLaws O).
Local Notation zero := (fzero O).
Add Ring FringE : (FLaws_ring_theory O L).

Lemma vanish_is_pprod x : forall l, EnforceField.vanish O x l = pprod O l x.
Proof.
  induction l as [|r l IH]; [reflexivity|]. rewrite (EnforceField.vanish_cons O L), IH. reflexivity.
Qed.

(* C16's quotient polynomial Zt of the transition divisor is the vanishing polynomial of the first n - e trace-domain points *)
Lemma Zt_is_pprod g (n e : nat) x : e <= n ->
  EnforceDivisor.Zt O g (Z.of_nat n) (Z.of_nat e) x = pprod O (domain O g (n - e)) x.
Proof.
  intros He. unfold EnforceDivisor.Zt. rewrite vanish_is_pprod.
  rewrite (EnforceDivisor.map_pw_zrange O L g (Z.of_nat n)) by lia.
  replace (Z.to_nat (Z.of_nat n - Z.of_nat e - 0)) with (n - e) by lia. reflexivity.
Qed.

(* ConstraintDivisor::from_transition(n, e).evaluate_at(x), as modelled and proved by C16, is the divisor of
   quotient_is_poly wherever the exemption product is non-zero (in particular for every x outside the trace domain) *)
Theorem transition_divisor_inst g (n e : nat) d x :
  (exists k, (0 <= k)%Z /\ Z.of_nat n = (2 ^ k)%Z) -> (Z.of_nat n < 2 ^ 64)%Z ->
  Enforce.fpow O g (Z.of_nat n) = fone O -> (forall i, (0 < i < Z.of_nat n)%Z -> Enforce.fpow O g i <> fone O) ->
  e <= n -> Enforce.from_transition O g (Z.of_nat n) (Z.of_nat e) = Some d ->
  Enforce.eval_exemptions O d x <> zero ->
  Enforce.evaluate_at O d x = pprod O (domain O g (n - e)) x.
Proof.
  intros Hp H64 Hgn Hord He Hd Hx.
  destruct (C16.C16_transition_divisor_is_polynomial O L g (Z.of_nat n) Hp H64 Hgn Hord (Z.of_nat e) d x ltac:(lia) Hd) as (_ & H2 & _).
  rewrite (H2 Hx). now apply Zt_is_pprod.
Qed.
(* An assertion divisor x^m - c^m (ConstraintDivisor::from_assertion: m = number of asserted steps, c = g^first_step, so that
   the Rust offset g^(m * first_step) is c^m), evaluated by C16's model of evaluate_at, is the vanishing polynomial of the
   asserted steps c * h^i (h = g^stride a primitive m-th root): the divisor by which air_quotient_exists divides a boundary group *)
Theorem assertion_divisor_inst (n : Z) (m : nat) c h x : (n < 2 ^ 64)%Z -> (Z.of_nat m <= n)%Z ->
  primitive_root O h m -> 0 < m -> c <> zero ->
  Enforce.evaluate_at O (Enforce.mkD [(Z.of_nat m, fpow O c m)] []) x = pprod O (coset O c h m) x.
Proof.
  intros H64 Hmn Hh Hm Hc. rewrite (EnforceDivisor.assertion_evaluate_at O L n H64) by lia.
  rewrite (EnforceField.fpow_of_nat O L). rewrite (coset_vanishing O L c h m Hh Hm Hc). reflexivity.
Qed.
End EnforceInst.

(* ================================================================================================ C04 *)
Section TranscriptInst.
Context {F : Type}.
(* Any reading of the coin values off the labelled challenge list (the label says which challenge, the symbolic value
   says from which absorbed history and with which draw index it is derived; `sem` is the concrete coin: hashing,
   rejection sampling, position de-duplication).  Prover and verifier use the SAME function of their own lists. *)
Variable sem : list (Transcript.chal * Transcript.cval) -> @Coin F.
Definition coin_prover (s : Transcript.shape) : @Coin F := sem (Transcript.run Transcript.cs_init (Transcript.prover s)).
Definition coin_verifier (s : Transcript.shape) : @Coin F :=
  sem (filter TranscriptRun.usedb (Transcript.run Transcript.cs_init (Transcript.verifier s))).

(* transcript_agree, from C04_transcript_agree: the challenges the verifier uses are, label by label and term by term,
   the prover's (it derives one more value, the unused last FRI alpha, on which nothing depends) *)
Theorem transcript_agree_inst : forall s, coin_verifier s = coin_prover s.
Proof.
  intros s. unfold coin_verifier, coin_prover.
  destruct (C04.C04_transcript_agree s) as (_ & E & _). now rewrite E.
Qed.
End TranscriptInst.

(* ================================================================================================ the capstone, instantiated *)
Section Final.
Context {F : Type} (O : FOps F) (L : FLaws O).
Local Notation zero := (fzero O).
Local Notation one := (fone O).
Local Notation "a *f b" := (fmul O a b) (at level 40, left associativity).

(* Merkle side (C10): any digest type with decidable equality, any merge and row-hash functions *)
Variable D : Type.
Variable D_eqb : D -> D -> bool.
Hypothesis D_eqb_spec : forall a b, D_eqb a b = true <-> a = b.
Variables (d0 : D) (merge : D -> D -> D) (hash_row : list F -> D).
Variables (lde : list F) (depth : nat).
Hypothesis Hdepth : 1 <= depth <= 62.
Hypothesis Hlde_len : length lde = 2 ^ depth.
(* interpolation side (C09): parameters of fft::interpolate_poly_with_offset over the constraint evaluation coset *)
Variables (two_adicity : nat) (rou : nat -> F) (itw : list F) (K : nat) (w offset : F).
Hypothesis Hta : S K <= two_adicity.
Hypothesis Hrou : rou (S K) = w.                       (* B::get_root_of_unity(log2 ce_size) *)
Hypothesis Hroot : FFTSpec.root_cond O (S K) w.          (* ... is a primitive 2^(S K)-th root of unity: w^(2^K) = -1 *)
Hypothesis Hget : FFT.get_inv_twiddles O two_adicity rou (2 ^ S K) = Some itw.   (* fft::get_inv_twiddles(ce_size) *)
Hypothesis Hoff : offset <> zero.
Hypothesis Hn_inv : FFTSpec.two_pow_f O (S K) *f FFTOffset.n_inv O (S K) = one.
(* FRI (C15): still abstract *)
Variable FriProof : Type.
Variable fri_prove : list F -> list F -> FriProof.
Variable fri_verify : FriProof -> nat -> list F -> list F -> bool.
(* the AIR and the coin semantics *)
Variable air_eval : F -> list F -> list F -> F.
Variable sem : list (Transcript.chal * Transcript.cval) -> @Coin F.
Variables (n cols ce_b : nat) (g : F).

Local Notation prove' := (prove O D (Opening D) FriProof (commit O D d0 merge hash_row lde) (open_prove O D d0 merge hash_row lde)
                                 fri_prove air_eval (interp_ce O two_adicity itw K w offset)).
Local Notation verify' := (verify O D (Opening D) FriProof (open_ok O D D_eqb merge hash_row lde) fri_verify air_eval).

(* THE ONE REMAINING STAGE PREMISE.  fri_complete (C15): FRI accepts the evaluations, at query points of the LDE domain, of
   a polynomial given by n coefficients whose top coefficient is zero (degree <= n - 2).  Props/C15.v exports the per-layer
   statements that compose to it — C15_drp_identity (folding the honest layer gives the folded polynomial at the folded
   point), C15_fri_complete_partial (the verifier's interpolation of an opened row at alpha is the prover's next-layer
   value), C15_degree_propagates (the folded polynomial keeps the degree bound), C15_fold_positions_spec /
   C15_query_layout_agree (positions and row layout agree), and C10_batch_complete for the layer openings; the composition
   over all layers and the remainder check is not exported (C15: "the composition over all layers is NOT proved"). *)
Hypothesis fri_complete : forall d xs, length d = n -> last d zero = zero -> incl xs lde -> xs <> [] -> length xs <= 255 ->
  fri_verify (fri_prove d xs) (n - 2) xs (map (peval O d) xs) = true.

Theorem stark_complete (dbg : bool) (s : Transcript.shape) (Ts : list (list F))
    (e : nat) (N : list F) (bs : list (list F * list F)) :
  let cP := coin_prover sem s in
  let cV := coin_verifier sem s in
  (* domains: g generates the trace domain, which lies in <w>; the coset offset does not *)
  primitive_root O g n -> fpow O offset (2 ^ S K) <> one ->
  (* shape: the constraint evaluation domain has n * ce_b points and holds the cols composition columns *)
  2 <= n -> 1 <= cols -> 2 ^ S K = n * ce_b -> cols <= ce_b ->
  (* the trace: polynomials of n coefficients on which all constraints hold *)
  Ts <> [] -> Forall (fun p => length p = n) Ts -> e <= n ->
  (forall i, i < n - e -> peval O N (fpow O g i) = zero) ->
  length N - (n - e) <= n * cols ->
  Forall (fun br => NoDup (snd br) /\ incl (snd br) (domain O g n) /\
                    (forall r, In r (snd br) -> peval O (fst br) r = zero) /\ length (fst br) - length (snd br) <= n * cols) bs ->
  (forall x, ~ In x (domain O g n) -> air_eval x (evals O Ts x) (evals O Ts (x *f g)) = combined O g n e N bs x) ->
  (* assumptions on the drawn values *)
  ~ In (c_z cP) (domain O g n) -> c_z cP <> zero -> c_z cP *f g <> zero ->
  incl (c_xs cP) lde -> NoDup (c_xs cP) -> c_xs cP <> [] -> length (c_xs cP) <= 255 ->
  (forall x, In x (c_xs cP) -> x <> c_z cP /\ x <> c_z cP *f g) ->
  exists pf, prove' (mkParams n g cols false dbg) cP Ts = Done pf /\
             verify' (mkParams n g cols false dbg) cV pf = None.
Proof.
  intros cP cV Hg Hoce Hn Hcols Hsz Hcb HTs HTl He Hv HNl Hbs Hair Hz Hz0 Hzg0 Hxs Hnd Hne H255 Hxz.
  (* C09_get_inv_twiddles: the inverse twiddles have the right length and shape *)
  destruct (C09.C09_get_inv_twiddles F O L two_adicity rou K w Hta Hrou Hroot) as (itw' & Hg' & Hitw & Htw & Hinv).
  rewrite Hget in Hg'. injection Hg' as <-. set (winv := FFT.fpow O w (2 ^ S K - 1)) in *.
  assert (Hce : n * cols <= 2 ^ S K) by (rewrite Hsz; apply Nat.mul_le_mono_l; exact Hcb).
  assert (Hgce : fpow O g (2 ^ S K) = one).
  { rewrite Hsz, Nat.mul_comm, (fpow_mul O L). destruct Hg as [Hgn _]. rewrite Hgn. apply (fpow_one O L). }
  apply (stark_complete_valid_trace_partial O L D (Opening D) FriProof
           (commit O D d0 merge hash_row lde) (open_prove O D d0 merge hash_row lde) (open_ok O D D_eqb merge hash_row lde)
           fri_prove fri_verify air_eval (interp_ce O two_adicity itw K w offset)
           n cols (ce_size K) g (ce_coset O K w offset) lde) with (e := e) (N := N) (bs := bs); try assumption.
  - apply (merkle_complete_inst O L D D_eqb D_eqb_spec d0 merge hash_row lde depth Hdepth Hlde_len).
  - apply (interp_complete_inst O L two_adicity itw K w winv offset Hitw Hta Hroot Hinv Htw Hoff Hn_inv).
  - apply (coset_off_domain_inst O L two_adicity itw K w offset Hitw Hta Hroot g n Hgce Hoce).
  - apply transcript_agree_inst.
Qed.
End Final.
