(* C16: the hand-written integer-level model (Model/Enforce.v) EQUALS the Gallina that rs2v regenerates from
   air/src/air/assertions/mod.rs on every run (Gen/Assertions.v), on usize arguments.  With these equalities the
   theorems of Proofs/EnforceSteps.v are statements about the generated code.
   Generated functions come in pairs: `f` (value, wrapping arithmetic) and `f_ok` (no checked operation / assert! /
   unwrap fails = the debug build does not panic).  The model folds both into one option / VRes result.  stdlib style. *)
From Coq Require Import ZArith List Bool Lia.
From VBase Require Import MachInt.
From VGen Require Assertions.
From VModel Require Import Enforce.
From VProofs Require Import EnforceSteps.
Open Scope Z_scope.

Definition to_gen (a : Assertion) : Assertions.GAssertion :=
  Assertions.mkGAssertion (a_col a) (a_first a) (a_stride a) (a_nvals a).
Definition of_gen (g : Assertions.GAssertion) : Assertion :=
  mkA (Assertions.ga_column g) (Assertions.ga_first_step g) (Assertions.ga_stride g) (Assertions.ga_values g).

Lemma of_to_gen a : of_gen (to_gen a) = a. Proof. destruct a; reflexivity. Qed.
Lemma to_of_gen g : to_gen (of_gen g) = g. Proof. destruct g; reflexivity. Qed.

Definition usize (x : Z) : Prop := 0 <= x < 2 ^ 64.
Definition usize_a (a : Assertion) : Prop :=
  usize (a_col a) /\ usize (a_first a) /\ usize (a_stride a) /\ usize (a_nvals a).

(* ------------------------------------------------------------------ helpers, kinds *)
Lemma gen_is_pow2 x : Assertions.is_pow2 x = is_pow2 x.
Proof. reflexivity. Qed.

Lemma gen_is_single a : Assertions.assertions_is_single (to_gen a) = is_single a.
Proof. reflexivity. Qed.

Lemma gen_is_periodic a : Assertions.assertions_is_periodic (to_gen a) = is_periodic a.
Proof. reflexivity. Qed.

Lemma gen_is_sequence a : Assertions.assertions_is_sequence (to_gen a) = is_sequence a.
Proof.
  unfold Assertions.assertions_is_sequence, is_sequence, Assertions.vec_len. cbn [to_gen Assertions.ga_values].
  apply Z.gtb_ltb.
Qed.

(* ------------------------------------------------------------------ constructors *)
Lemma gen_validate_stride stride first col :
  Assertions.assertions_validate_stride_ok stride first col = validate_stride stride first.
Proof.
  unfold Assertions.assertions_validate_stride_ok, validate_stride,
    Assertions.assertions_MIN_STRIDE_LENGTH, MIN_STRIDE_LENGTH.
  change (Assertions.is_pow2 stride) with (is_pow2 stride). rewrite Z.geb_leb, andb_assoc. reflexivity.
Qed.

Theorem gen_single col step :
  mk_single col step = Some (of_gen (Assertions.assertions_single col step tt)).
Proof. reflexivity. Qed.

Theorem gen_periodic col first stride :
  mk_periodic col first stride =
  if Assertions.assertions_periodic_ok col first stride tt
  then Some (of_gen (Assertions.assertions_periodic col first stride tt)) else None.
Proof.
  unfold mk_periodic, Assertions.assertions_periodic_ok. rewrite gen_validate_stride.
  destruct (validate_stride stride first); reflexivity.
Qed.

(* `values` is the vector, represented by its length *)
Theorem gen_sequence col first stride nvals :
  mk_sequence col first stride nvals =
  if Assertions.assertions_sequence_ok col first stride nvals
  then Some (of_gen (Assertions.assertions_sequence col first stride nvals)) else None.
Proof.
  unfold mk_sequence, Assertions.assertions_sequence_ok, Assertions.assertions_sequence,
    Assertions.vec_is_empty, Assertions.vec_len, Assertions.assertions_NO_STRIDE, NO_STRIDE.
  rewrite gen_validate_stride. change (Assertions.is_pow2 nvals) with (is_pow2 nvals).
  destruct (validate_stride stride first); cbn [andb]; [|reflexivity].
  destruct (negb (nvals =? 0)); cbn [andb]; [|reflexivity].
  destruct (is_pow2 nvals); reflexivity.
Qed.

(* ------------------------------------------------------------------ overlaps_with *)
Lemma rem_leaf x y d : 0 <= y -> x < 2 ^ 64 -> (y <? x) = true ->
  rem_is_zero x y d =
  if andb (in_u 64 (x - y)) (negb (d =? 0)) then Some (Z.modulo (wrap 64 (x - y)) d =? 0) else None.
Proof.
  intros Hy Hx Hlt. apply Z.ltb_lt in Hlt.
  unfold rem_is_zero, checked_sub, checked_rem, in_u, wrap.
  replace (x <? y) with false by (symmetry; apply Z.ltb_ge; lia).
  replace (0 <=? x - y) with true by (symmetry; apply Z.leb_le; lia).
  replace (x - y <? 2 ^ 64) with true by (symmetry; apply Z.ltb_lt; lia).
  rewrite (Z.mod_small (x - y) (2 ^ 64)) by lia. cbn [andb].
  destruct (d =? 0); reflexivity.
Qed.

Theorem gen_overlaps_with a b : usize_a a -> usize_a b ->
  overlaps_with a b =
  if Assertions.assertions_overlaps_with_ok (to_gen a) (to_gen b)
  then Some (Assertions.assertions_overlaps_with (to_gen a) (to_gen b)) else None.
Proof.
  intros (_ & Hfa & _ & _) (_ & Hfb & _ & _). unfold usize in *.
  unfold overlaps_with, Assertions.assertions_overlaps_with_ok, Assertions.assertions_overlaps_with.
  rewrite !gen_is_single. cbn [to_gen Assertions.ga_column Assertions.ga_first_step Assertions.ga_stride].
  destruct (negb (a_col a =? a_col b)); [reflexivity|].
  destruct (Z.eqb_spec (a_first a) (a_first b)) as [Ef|Ef]; [reflexivity|].
  destruct (a_stride a =? a_stride b); [reflexivity|].
  destruct (Z.ltb_spec (a_first a) (a_first b)) as [Hlt|Hge].
  - destruct (is_single a); [reflexivity|].
    destruct (is_single b || (a_stride a <? a_stride b)); [|reflexivity].
    apply rem_leaf; [lia|lia|apply Z.ltb_lt; lia].
  - destruct (is_single b); [reflexivity|].
    destruct (is_single a || (a_stride b <? a_stride a)); [|reflexivity].
    apply rem_leaf; [lia|lia|apply Z.ltb_lt; lia].
Qed.

(* ------------------------------------------------------------------ validate_trace_width / length *)
Theorem gen_validate_trace_width a w :
  Assertions.assertions_validate_trace_width (to_gen a) w =
  if validate_trace_width a w then Some tt else None.
Proof.
  unfold Assertions.assertions_validate_trace_width, validate_trace_width.
  cbn [to_gen Assertions.ga_column]. rewrite Z.geb_leb. destruct (w <=? a_col a); reflexivity.
Qed.

(* the payload `(first_step + 1).next_power_of_two()` of TraceLengthTooShort fits usize iff first_step + 1 <= 2^63 *)
Lemma next_pow2_fits f : 0 <= f < 2 ^ 64 ->
  andb (in_u 64 (f + 1)) (in_u 64 (Assertions.next_pow2 (wrap 64 (f + 1)))) = negb (2 ^ 63 <? f + 1).
Proof.
  intros Hf. unfold in_u at 1.
  replace (0 <=? f + 1) with true by (symmetry; apply Z.leb_le; lia). cbn [andb].
  destruct (Z.ltb_spec (f + 1) (2 ^ 64)) as [Hlt|Hge].
  - unfold wrap. rewrite Z.mod_small by lia. unfold Assertions.next_pow2.
    destruct (Z.leb_spec (f + 1) 1) as [H1|H1].
    + replace (2 ^ 63 <? f + 1) with false by (symmetry; apply Z.ltb_ge; lia). reflexivity.
    + pose proof (Z.log2_up_le_pow2 (f + 1) 63 ltac:(lia)) as Hl.
      pose proof (Z.log2_up_nonneg (f + 1)) as Hn.
      unfold in_u. destruct (Z.ltb_spec (2 ^ 63) (f + 1)) as [Hbig|Hsmall]; cbn [negb].
      * assert (64 <= Z.log2_up (f + 1)) by (destruct (Z.le_gt_cases (Z.log2_up (f + 1)) 63); [apply Hl in H; lia|lia]).
        assert (2 ^ 64 <= 2 ^ Z.log2_up (f + 1)) by (apply Z.pow_le_mono_r; lia).
        replace (2 ^ Z.log2_up (f + 1) <? 2 ^ 64) with false by (symmetry; apply Z.ltb_ge; lia).
        apply andb_false_r.
      * assert (Z.log2_up (f + 1) <= 63) by (apply Hl; lia).
        assert (2 ^ Z.log2_up (f + 1) <= 2 ^ 63) by (apply Z.pow_le_mono_r; lia).
        assert (0 < 2 ^ Z.log2_up (f + 1)) by (apply Z.pow_pos_nonneg; lia).
        replace (0 <=? 2 ^ Z.log2_up (f + 1)) with true by (symmetry; apply Z.leb_le; lia).
        replace (2 ^ Z.log2_up (f + 1) <? 2 ^ 64) with true by (symmetry; apply Z.ltb_lt; lia).
        reflexivity.
  - replace (2 ^ 63 <? f + 1) with true by (symmetry; apply Z.ltb_lt; lia). reflexivity.
Qed.

(* the debug build panics (overflow while computing) exactly where the model says VOverflow *)
Theorem gen_validate_trace_length_ok a n : usize_a a ->
  Assertions.assertions_validate_trace_length_ok (to_gen a) n =
  match validate_trace_length a n with VOverflow => false | _ => true end.
Proof.
  intros (_ & Hf & Hs & Hv). unfold usize in *.
  unfold Assertions.assertions_validate_trace_length_ok, validate_trace_length, USIZE_MAX1.
  change (Assertions.is_pow2 n) with (is_pow2 n). rewrite gen_is_single, gen_is_periodic.
  cbn [to_gen Assertions.ga_first_step Assertions.ga_stride Assertions.ga_values]. unfold Assertions.vec_len.
  destruct (negb (is_pow2 n)); [reflexivity|].
  destruct (is_single a).
  - rewrite Z.geb_leb. destruct (n <=? a_first a); [|reflexivity].
    rewrite next_pow2_fits by lia. destruct (2 ^ 63 <? a_first a + 1); reflexivity.
  - destruct (is_periodic a).
    + destruct (n <? a_stride a); reflexivity.
    + unfold in_u. replace (0 <=? a_nvals a * a_stride a) with true by (symmetry; apply Z.leb_le; nia).
      cbn [andb]. rewrite Z.ltb_antisym.
      destruct (2 ^ 64 <=? a_nvals a * a_stride a); cbn [negb]; [reflexivity|].
      destruct (a_nvals a * a_stride a =? n); reflexivity.
Qed.

(* where it does not panic, the answer (Ok / Err) is the model's *)
Theorem gen_validate_trace_length a n : usize_a a -> validate_trace_length a n <> VOverflow ->
  Assertions.assertions_validate_trace_length (to_gen a) n =
  match validate_trace_length a n with VOk => Some tt | _ => None end.
Proof.
  intros (_ & Hf & Hs & Hv). unfold usize in *.
  unfold Assertions.assertions_validate_trace_length, validate_trace_length, USIZE_MAX1.
  change (Assertions.is_pow2 n) with (is_pow2 n). rewrite gen_is_single, gen_is_periodic.
  cbn [to_gen Assertions.ga_first_step Assertions.ga_stride Assertions.ga_values]. unfold Assertions.vec_len.
  destruct (negb (is_pow2 n)); [reflexivity|].
  destruct (is_single a).
  - rewrite Z.geb_leb. destruct (n <=? a_first a); [|reflexivity].
    destruct (2 ^ 63 <? a_first a + 1); reflexivity.
  - destruct (is_periodic a).
    + rewrite Z.gtb_ltb. destruct (n <? a_stride a); reflexivity.
    + destruct (Z.leb_spec (2 ^ 64) (a_nvals a * a_stride a)) as [Hov|Hin]; [congruence|]. intros _.
      unfold wrap. rewrite Z.mod_small by nia.
      destruct (a_nvals a * a_stride a =? n); reflexivity.
Qed.

(* ------------------------------------------------------------------ get_num_steps *)
Theorem gen_get_num_steps a n : usize_a a ->
  get_num_steps a n =
  if Assertions.assertions_get_num_steps_ok (to_gen a) n
  then Some (Assertions.assertions_get_num_steps (to_gen a) n) else None.
Proof.
  intros Hu. unfold get_num_steps, Assertions.assertions_get_num_steps_ok, Assertions.assertions_get_num_steps.
  rewrite (gen_validate_trace_length_ok a n Hu), gen_is_single, gen_is_periodic.
  cbn [to_gen Assertions.ga_stride Assertions.ga_values]. unfold Assertions.vec_len.
  destruct (validate_trace_length a n) eqn:V; cbn [andb]; try reflexivity;
    rewrite (gen_validate_trace_length a n Hu) by congruence; rewrite V; cbn [Assertions.opt_is_some andb]; try reflexivity.
  destruct (is_single a); [reflexivity|].
  destruct (is_periodic a) eqn:P; [|reflexivity].
  unfold is_periodic, NO_STRIDE in P. apply andb_true_iff in P. destruct P as [P _]. rewrite P. reflexivity.
Qed.

(* ------------------------------------------------------------------ the theorems, restated on the generated code *)
(* the regenerated overlaps_with does not panic on assertions valid for a common length and answers true exactly
   when they name a common cell *)
Theorem gen_overlaps_iff a b n : usize_a a -> usize_a b -> valid a n -> valid b n ->
  Assertions.assertions_overlaps_with_ok (to_gen a) (to_gen b) = true /\
  (Assertions.assertions_overlaps_with (to_gen a) (to_gen b) = true <->
   a_col a = a_col b /\ exists s, In s (steps a n) /\ In s (steps b n)).
Proof.
  intros Ua Ub Va Vb. destruct (overlaps_iff a b n Va Vb) as [Ht Hf].
  rewrite (gen_overlaps_with a b Ua Ub) in Ht, Hf.
  destruct (Assertions.assertions_overlaps_with_ok (to_gen a) (to_gen b)).
  - split; [reflexivity|]. rewrite <- Ht. split; [intros ->; reflexivity|intros [= ->]; reflexivity].
  - exfalso. assert (Hn : ~ common_cell a b n) by (intros H; apply Ht in H; discriminate).
    apply Hf in Hn. discriminate.
Qed.
