(* C17 — round 10: the mixed model of the multi-segment prover path equals the single-field model over the extension field
   applied to the embedded inputs (evaluate_mixed_full_embeds), and the `_ext` table theorem for the multi-segment case.
   stdlib style. *)
From Coq Require Import List Arith Bool Lia Ring Field ZArith.
From VBase Require Import FieldOps.
From VModel Require Import Composition CompositionMixed CompositionMixedWhole CompositionMixedFull.
From VProofs Require Import CompositionBase CompositionIndex CompositionVerifier CompositionTable CompositionMixed CompositionMixedWhole.
Import ListNotations.

Section Full.
Context {B E : Type} (OB : FOps B) (OE : FOps E) (LB : FLaws OB) (LE : FLaws OE).
Variable emb : B -> E.
Variable mul_base : E -> B -> E.
Hypothesis H : Emb OB OE emb mul_base.
Add Ring RE : (FLaws_ring_theory OE LE).

Local Notation emul := (emb_mul _ _ _ _ H).

Variable n ceb ldeb : nat.
Variable offset : B.
Variable rou : nat -> B.
Local Notation rouE := (fun m => emb (rou m)).
Local Notation offE := (emb offset).

(* ---------------------------------------------------------------- divisor equality commutes with the embedding *)
Lemma feqb_emb a b : feqb OE (emb a) (emb b) = feqb OB a b.
Proof.
  destruct (feqb OB a b) eqn:Eb.
  - apply (fl_eqb_spec OB LB) in Eb. subst. now apply (fl_eqb_spec OE LE).
  - destruct (feqb OE (emb a) (emb b)) eqn:Ee; [|reflexivity].
    apply (fl_eqb_spec OE LE) in Ee. apply (emb_inj _ _ _ _ H) in Ee. subst.
    assert (T : feqb OB b b = true) by now apply (fl_eqb_spec OB LB). congruence.
Qed.

Lemma div_eqb_emb d e : div_eqb OE (embD emb d) (embD emb e) = div_eqb OB d e.
Proof.
  unfold div_eqb, embD. cbn [dv_a dv_b dv_ex]. rewrite feqb_emb, !map_length. f_equal.
  generalize (dv_ex e). induction (dv_ex d) as [|a l IH]; intros [|b l']; cbn [map combine forallb]; try reflexivity.
  cbn [fst snd]. now rewrite feqb_emb, IH.
Qed.

(* ---------------------------------------------------------------- merged groups *)
Definition embAG (ag : @AGm B E) : @AG E :=
  match ag with (d, m, a) => (embD emb d, map (embBC emb) m, map (embBCa emb) a) end.

Lemma ag_merge_emb : forall ps g,
  ag_merge OE (map embAG ps) (embGa emb g) = map embAG (ag_merge_m OB ps g).
Proof.
  induction ps as [|[[d m] a] t IH]; intros g; cbn [map ag_merge ag_merge_m embAG].
  - reflexivity.
  - cbn [embGa bg_div bg_cs]. rewrite div_eqb_emb. destruct (div_eqb OB d (ga_div g)); cbn [map embAG].
    + now rewrite map_app.
    + f_equal. apply IH.
Qed.

Lemma ags_emb mg ag :
  ags OE (map (embG emb) mg) (map (embGa emb) ag) = map embAG (ags_m OB mg ag).
Proof.
  unfold ags, ags_m.
  assert (E0 : map (fun g : @BGroup E => (bg_div g, bg_cs g, @nil (@BC E))) (map (embG emb) mg)
               = map embAG (map (fun g : @BGm B E => (gm_div g, gm_cs g, @nil (@BCa B E))) mg)).
  { rewrite !map_map. apply map_ext. intros g. reflexivity. }
  rewrite E0. generalize (map (fun g : @BGm B E => (gm_div g, gm_cs g, @nil (@BCa B E))) mg).
  induction ag as [|g gs IH]; intros l; cbn [map fold_left]; [reflexivity|].
  rewrite ag_merge_emb. apply IH.
Qed.

(* ---------------------------------------------------------------- auxiliary evaluations *)
Lemma peval_mb_spec p b : peval_mb OE mul_base p b = peval OE p (emb b).
Proof. induction p; simpl; [reflexivity|]. rewrite IHp, (emb_mul_base _ _ _ _ H). ring. Qed.

Lemma horner_mb_spec p b : horner_mb OE mul_base p b = horner OE p (emb b).
Proof.
  unfold horner_mb, horner. generalize (fzero OE). induction (rev p) as [|c l IH]; intros a0; cbn [fold_left]; [reflexivity|].
  rewrite (emb_mul_base _ _ _ _ H). apply IH.
Qed.

Lemma eval_poly_with_offset_mb_spec p off blowup :
  eval_poly_with_offset_mb OB OE mul_base rou p off blowup = eval_poly_with_offset OE rouE p (emb off) blowup.
Proof.
  unfold eval_poly_with_offset_mb, eval_poly_with_offset, power_series.
  rewrite <- (emb_one _ _ _ _ H), <- (emb_power_series_from OB OE emb mul_base H), map_map.
  apply map_ext. intros w. now rewrite peval_mb_spec, emul.
Qed.

Lemma a_is_single_emb c : is_single (embBCa emb c) = a_is_single c.
Proof. reflexivity. Qed.
Lemma a_is_small_emb c : is_small (embBCa emb c) = a_is_small c.
Proof. reflexivity. Qed.
Lemma a_is_large_emb c : is_large (embBCa emb c) = a_is_large c.
Proof. reflexivity. Qed.

Lemma ag_evaluate_all_emb ag cur acur step x :
  pg_evaluate_all OE (realize OE n ceb offE rouE (embAG ag)) (map emb cur) acur step (emb x)
  = ag_evaluate_all OB OE mul_base n ceb offset rou ag cur acur step x.
Proof.
  destruct ag as [[d m] a]. unfold pg_evaluate_all, ag_evaluate_all.
  assert (Em : pg_evaluate_main OE (realize OE n ceb offE rouE (embAG (d, m, a))) (map emb cur) step (emb x)
               = gm_evaluate_main OB OE mul_base n ceb offset rou (mkBGm d m) cur step x).
  { rewrite <- (emb_gm_evaluate_main OB OE LB LE emb mul_base H). reflexivity. }
  rewrite Em. cbn [embAG realize pg_aux_single pg_aux_small pg_aux_large].
  rewrite !filter_map_comm, !map_map, !(acc_opt_map' OE).
  rewrite (filter_ext _ _ a_is_single_emb), (filter_ext _ _ a_is_small_emb), (filter_ext _ _ a_is_large_emb).
  assert (X : forall A (f g : A -> option E) l i j, (forall y, In y l -> f y = g y) -> i = j -> acc_opt OE f l i = acc_opt OE g l j)
    by (intros; subst; now apply (acc_opt_ext' OE)).
  apply X; [|apply X; [|apply X; [|reflexivity]]].
  - intros c _. unfold large_aux_eval, large_new. cbn [embBCa bc_col bc_poly bc_first bc_cc].
    now rewrite eval_poly_with_offset_mb_spec.
  - intros c _. unfold small_aux_eval, small_eval, small_new. cbn [embBCa bc_col bc_poly bc_xoff bc_cc pc_col pc_poly pc_xoff pc_cc].
    now rewrite horner_mb_spec, emul.
  - intros c _. reflexivity.
Qed.

(* ---------------------------------------------------------------- rows and the whole table *)
Variable num_main : nat.
Variable tmainB : list B -> list B -> list B -> list B.
Variable tmainE : list E -> list E -> list E -> list E.
Variable tauxM : list B -> list B -> list E -> list E -> list B -> list E -> list E.
Variable tauxE : list E -> list E -> list E -> list E -> list E -> list E -> list E.
(* the AIR's evaluators commute with the embedding (generic-in-the-field polynomial maps with base-field coefficients) *)
Hypothesis tmain_commutes : forall cur nxt pv, tmainE (map emb cur) (map emb nxt) (map emb pv) = map emb (tmainB cur nxt pv).
Hypothesis taux_commutes : forall cur nxt ac an pv rs,
  tauxE (map emb cur) (map emb nxt) ac an (map emb pv) rs = tauxM cur nxt ac an pv rs.
Variable ppolys : list (list B).
Variable exemptions : nat.
Variable tcoef : list E.
Variable main_groups : list (@BGm B E).
Variable aux_groups : list (@BGa B E).
Variable rands : list E.
Variable lde_main : list (list B).
Variable lde_aux : list (list E).

Local Notation evalE :=
  (evaluate OE n ceb ldeb offE rouE num_main tmainE tauxE (map (map emb) ppolys) exemptions tcoef (map (embG emb) main_groups)
            (map (embGa emb) aux_groups) rands true (map (map emb) lde_main) lde_aux (fun _ v => v)).
Local Notation evalM :=
  (evaluate_mixed_full OB OE mul_base n ceb ldeb offset rou num_main tmainB tauxM ppolys exemptions tcoef main_groups aux_groups
                       rands lde_main lde_aux).

Lemma eval_row_full_emb t (groups : list (@AGm B E)) step :
  eval_row OE n ceb ldeb offE rouE num_main tmainE tauxE tcoef rands true (map (map emb) lde_main) lde_aux (embT emb t)
           (map (realize OE n ceb offE rouE) (map embAG groups)) step
  = eval_row_full_mixed OB OE mul_base n ceb ldeb offset rou num_main tmainB tauxM tcoef rands lde_main lde_aux t groups step.
Proof.
  unfold eval_row, eval_row_full_mixed. rewrite (emb_read_frame emb), (emb_get_ce_x_at OB OE emb mul_base H).
  destruct (read_frame ldeb lde_main _) as [[cur nxt]|]; cbn [option_map fst snd]; [|reflexivity].
  destruct (get_ce_x_at OB n ceb offset rou step) as [x|]; cbn [option_map]; [|reflexivity].
  destruct (read_frame ldeb lde_aux _) as [[acur anxt]|]; [|reflexivity].
  unfold evaluate_main_transition, evaluate_aux_transition. rewrite (emb_pt_get_row emb).
  destruct (pt_get_row t step) as [pv|]; cbn [option_map]; [|reflexivity].
  rewrite tmain_commutes, taux_commutes, <- (lincomb_mixed_embeds OB OE emb mul_base H).
  rewrite !mapM_map_l.
  rewrite (mapM_ext_in _ (fun ag => ag_evaluate_all OB OE mul_base n ceb offset rou ag cur acur step x))
    by (intros ag _; apply ag_evaluate_all_emb).
  destruct (mapM _ groups); reflexivity.
Qed.

(* evaluate_mixed_full_embeds: the mixed multi-segment evaluate() IS the single-field evaluate over OE on the embedded inputs *)
Theorem evaluate_mixed_full_embeds : evalM = evalE.
Proof.
  unfold evaluate_mixed_full, Composition.evaluate.
  rewrite (emb_ptable_new OB OE emb mul_base H).
  destruct (ptable_new OB n ceb offset rou ppolys) as [t|]; cbn [option_map]; [|reflexivity].
  rewrite prover_groups_realize, ags_emb.
  set (groups := ags_m OB main_groups aux_groups).
  assert (Edivs : tdiv OE n rouE exemptions :: map (@pg_div E) (map (realize OE n ceb offE rouE) (map embAG groups))
                  = map (embD emb) (tdiv OB n rou exemptions :: map (@agm_div B E) groups)).
  { cbn [map]. rewrite (emb_tdiv OB OE emb mul_base H). f_equal. rewrite !map_map. apply map_ext.
    intros [[d m] a]. reflexivity. }
  rewrite Edivs, mapM_map_l.
  rewrite (mapM_opt _ (fun d => match get_inv_evaluation OB n ceb offset rou d with Some zs => Some (d, zs) | None => None end)
                      (fun dz => (embD emb (fst dz), map emb (snd dz)))).
  2:{ intros d _. rewrite (emb_get_inv_evaluation OB OE LB LE emb mul_base H).
      destruct (get_inv_evaluation OB n ceb offset rou d); reflexivity. }
  destruct (mapM _ (tdiv OB n rou exemptions :: _)) as [divs|]; cbn [option_map]; [|reflexivity].
  apply mapM_ext_in. intros i _.
  rewrite eval_row_full_emb.
  match goal with |- match ?e with Some _ => _ | None => _ end = _ => destruct e as [row|]; [|reflexivity] end.
  rewrite (emb_combine_row OB OE emb mul_base H).
  match goal with |- _ = match ?e with Some _ => _ | None => _ end => destruct e; reflexivity end.
Qed.
(* ---------------------------------------------------------------- table_row_spec for E != B, multi-segment path: the
   hypotheses about main-segment data are BASE-field hypotheses; the auxiliary segment is extension-field data *)
Section TableExtFull.
Variable r' : nat.
Variable wlde ginv : B.
Hypothesis n_pos : n <> 0.
Hypothesis ceb_pos : ceb <> 0.
Hypothesis r_pos : r' <> 0.
Hypothesis ldeb_eq : ldeb = ceb * r'.
Hypothesis wlde_order : cpow OB wlde (lde_size n ldeb) = fone OB.
Hypothesis wlde_wce : cpow OB wlde r' = wce n ceb rou.
Hypothesis wlde_g : cpow OB wlde ldeb = gtrace n rou.
Hypothesis ginv_spec : fmul OB ginv (gtrace n rou) = fone OB.
Hypothesis tmainE_len : forall cur nxt pv, length (tmainE cur nxt pv) = num_main.
Hypothesis exemptions_le : exemptions <= n.
Hypothesis poly_len_pos : forall p, In p ppolys -> length p <> 0.
Hypothesis poly_len_div_n : forall p, In p ppolys -> length p * (n / length p) = n.
Hypothesis poly_len_div_max : forall p, In p ppolys -> exists q, fold_left Nat.max (map (@length B) ppolys) 0 = length p * q.
Hypothesis rou_compat : forall p, In p ppolys -> rou (length p * ceb) = cpow OB (wce n ceb rou) (n / length p).
Variable tpolys : list (list B).
Variable apolys : list (list E).
Definition div_okB (d : @Div B) : Prop :=
  dv_ex d = [] /\ dv_a d <> 0 /\ dv_a d * (ce_size n ceb / dv_a d) = ce_size n ceb.
Hypothesis main_groups_ok : forall g, In g main_groups ->
  div_okB (gm_div g)
  /\ forall c, In c (gm_cs g) ->
       m_col c < length tpolys /\ length (m_poly c) <> 0 /\ m_xoff c = cpow OB ginv (m_first c) /\ m_first c < n
       /\ length (m_poly c) * (ce_size n ceb / length (m_poly c)) = ce_size n ceb.
Hypothesis aux_groups_ok : forall g, In g aux_groups ->
  div_okB (ga_div g)
  /\ forall c, In c (ga_cs g) ->
       a_col c < length apolys /\ length (a_poly c) <> 0 /\ a_xoff c = cpow OB ginv (a_first c) /\ a_first c < n
       /\ length (a_poly c) * (ce_size n ceb / length (a_poly c)) = ce_size n ceb.
Hypothesis lde_main_ok : lde_rows_of OB n ldeb offset wlde lde_main tpolys.
(* the auxiliary trace LDE: extension-field rows = auxiliary column polynomials on the (embedded) LDE coset *)
Hypothesis lde_aux_ok : lde_rows_of OE n ldeb offE (emb wlde) lde_aux apolys.

Local Notation comp_defE :=
  (comp_def OE n rouE tmainE tauxE (map (map emb) ppolys) exemptions tcoef (map (embG emb) main_groups) (map (embGa emb) aux_groups)
            rands true (map (map emb) tpolys) apolys).

Lemma evalE_spec :
  evalE = Some (map (fun i => comp_defE (ce_x OE n ceb offE rouE i)) (seq 0 (ce_size n ceb))).
Proof.
  apply (evaluate_spec_aux OE LE n ceb ldeb r' offE rouE (emb wlde) (emb ginv)); try assumption.
  - rewrite <- (emb_cpow OB OE emb mul_base H), wlde_order. exact (emb_one _ _ _ _ H).
  - rewrite <- (emb_cpow OB OE emb mul_base H), wlde_wce. reflexivity.
  - rewrite <- (emb_cpow OB OE emb mul_base H), wlde_g. reflexivity.
  - unfold gtrace. rewrite <- emul. unfold gtrace in ginv_spec. rewrite ginv_spec. exact (emb_one _ _ _ _ H).
  - intros p Hp. apply in_map_iff in Hp. destruct Hp as [p0 [<- Hp0]]. rewrite map_length. now apply poly_len_pos.
  - intros p Hp. apply in_map_iff in Hp. destruct Hp as [p0 [<- Hp0]]. rewrite map_length. now apply poly_len_div_n.
  - intros p Hp. apply in_map_iff in Hp. destruct Hp as [p0 [<- Hp0]]. rewrite map_length, fold_max_map_length.
    now apply poly_len_div_max.
  - intros p Hp. apply in_map_iff in Hp. destruct Hp as [p0 [<- Hp0]]. rewrite map_length.
    rewrite (rou_compat p0 Hp0). unfold wce. apply (emb_cpow OB OE emb mul_base H).
  - intros g Hg. apply in_map_iff in Hg. destruct Hg as [g0 [<- Hg0]]. destruct (main_groups_ok g0 Hg0) as [[Hd1 [Hd2 Hd3]] Hc].
    split.
    + unfold div_ok, embG, embD. cbn [bg_div dv_ex dv_a]. rewrite Hd1. repeat split; assumption.
    + intros c Hcin. cbn [embG bg_cs] in Hcin. apply in_map_iff in Hcin. destruct Hcin as [c0 [<- Hc0]].
      destruct (Hc c0 Hc0) as [K1 [K2 [K3 [K4 K5]]]].
      unfold bc_ok, embBC. cbn [bc_col bc_poly bc_xoff bc_first]. rewrite !map_length.
      repeat split; try assumption. rewrite K3. apply (emb_cpow OB OE emb mul_base H).
  - intros g Hg. apply in_map_iff in Hg. destruct Hg as [g0 [<- Hg0]]. destruct (aux_groups_ok g0 Hg0) as [[Hd1 [Hd2 Hd3]] Hc].
    split.
    + unfold div_ok, embGa, embD. cbn [bg_div dv_ex dv_a]. rewrite Hd1. repeat split; assumption.
    + intros c Hcin. cbn [embGa bg_cs] in Hcin. apply in_map_iff in Hcin. destruct Hcin as [c0 [<- Hc0]].
      destruct (Hc c0 Hc0) as [K1 [K2 [K3 [K4 K5]]]].
      unfold bc_ok, embBCa. cbn [bc_col bc_poly bc_xoff bc_first].
      repeat split; try assumption. rewrite K3. apply (emb_cpow OB OE emb mul_base H).
  - destruct lde_main_ok as [Hl Hr]. split; [now rewrite map_length|].
    intros j Hj. rewrite nth_error_map, (Hr j Hj). cbn [option_map]. f_equal. rewrite !map_map. apply map_ext. intros T.
    now rewrite (emb_peval OB OE emb mul_base H), emul, (emb_cpow OB OE emb mul_base H).
Qed.

Theorem table_row_spec_multi_segment_ext :
  evalM = Some (map (fun i => comp_defE (emb (ce_x OB n ceb offset rou i))) (seq 0 (ce_size n ceb))).
Proof.
  rewrite evaluate_mixed_full_embeds, evalE_spec. f_equal. apply map_ext. intros i.
  now rewrite (emb_ce_x OB OE emb mul_base H).
Qed.

(* the capstone for E != B, multi-segment path; premises: the interpolation round trip over E and a coefficient list for
   comp_def over E (as in composition_is_definition_ext) *)
Variable interp : list E -> list E.
Hypothesis interp_roundtrip : forall p, length p = ce_size n ceb ->
  interp (map (fun i => peval OE p (ce_x OE n ceb offE rouE i)) (seq 0 (ce_size n ceb))) = p.
Variable good : E -> Prop.
Variable q : list E.
Variable num_cols : nat.
Hypothesis q_is_def : forall z, good z -> peval OE q z = comp_defE z.
Hypothesis ce_good : forall i, i < ce_size n ceb -> good (ce_x OE n ceb offE rouE i).
Hypothesis q_len_ce : length q <= ce_size n ceb.
Hypothesis q_len_cols : length q <= num_cols * n.
Hypothesis n_lt_ce : n < ce_size n ceb.

Theorem composition_is_definition_aux_ext :
  exists evals cols,
    evalM = Some evals
    /\ composition_poly_new n interp evals num_cols = Some cols
    /\ (forall z, recombine OE n (cp_evaluate_at OE cols z) z = peval OE q z)
    /\ (forall z, good z -> recombine OE n (cp_evaluate_at OE cols z) z = comp_defE z).
Proof.
  rewrite evaluate_mixed_full_embeds.
  apply (composition_core OE LE n ceb ldeb r' offE rouE n_pos ceb_pos r_pos ldeb_eq num_main tmainE tauxE (map (map emb) ppolys)
           exemptions tcoef (map (embG emb) main_groups) (map (embGa emb) aux_groups) rands (map (map emb) tpolys) apolys
           (map (map emb) lde_main) lde_aux exemptions_le interp good q num_cols true q_is_def ce_good q_len_ce q_len_cols n_lt_ce).
  - exact evalE_spec.
  - exact interp_roundtrip.
Qed.
End TableExtFull.

End Full.
