(* C09/C14: the four-step ("split radix") FFT of math/src/fft/concurrent.rs equals fft_in_place (same bit-reversed
   output), for n = 4^k and n = 2*4^k, every k >= 1, any field with FLaws.  Not a simulation: the row transforms are
   replaced by their specification (fft_in_place_spec + brfft_dft: DFT in bit-reversed order on strided
   subsequences), the data movement by the index characterisation of the transposition, and the algebra is the
   radix decimation identity  P(y) = sum_m y^m P_m(y^Ou)  (`peval_radix`) with y = w^(a + I b).  stdlib style. *)
From Coq Require Import List Arith Bool ZArith NArith Lia Ring Field.
From VBase Require Import FieldOps.
From VModel Require Import FFT FFTSplit.
From VProofs Require Import FFTSpec FFTRefine FFTEval FFTOffset FFTSegments.
Import ListNotations.

(* ---------------------------------------------------------------- lists *)
Lemma nth_firstn_lt {A} (d : A) : forall n l m, m < n -> nth m (firstn n l) d = nth m l d.
Proof.
  induction n; intros l m Hm; [lia|]. destruct l; [destruct m; reflexivity|].
  destruct m; cbn; [reflexivity | apply IHn; lia].
Qed.

Lemma nth_skipn' {A} (d : A) : forall a l m, nth m (skipn a l) d = nth (a + m) l d.
Proof.
  induction a; intros l m; [reflexivity|]. destruct l; cbn [skipn Nat.add nth]; [destruct m; reflexivity | apply IHa].
Qed.

Lemma combine_seq_map {B} (h : nat -> B) n : combine (seq 0 n) (map h (seq 0 n)) = map (fun r => (r, h r)) (seq 0 n).
Proof.
  generalize 0. induction n; intros s; cbn; [reflexivity | f_equal; apply IHn].
Qed.

Section SplitProof.
Context {F : Type} (O : FOps F) (L : FLaws O).
Add Ring Fring5 : (FLaws_ring_theory O L).

Local Notation fz := (fzero O).
Local Notation f1 := (fone O).
Local Infix "+f" := (fadd O) (at level 50, left associativity).
Local Infix "*f" := (fmul O) (at level 40, left associativity).
Local Notation peval := (peval O).
Local Notation fpow := (fpow O).
Local Notation sub := (sub O).

(* ---------------------------------------------------------------- rows *)
Lemma rows_of_eq (v : list F) Ln R : 0 < Ln -> length v = R * Ln ->
  rows_of v Ln = map (fun r => firstn Ln (skipn (r * Ln) v)) (seq 0 R).
Proof. intros HL Hl. unfold rows_of. rewrite Hl, Nat.div_mul by lia. reflexivity. Qed.

Lemma row_nth (v : list F) Ln r m : m < Ln -> nth m (firstn Ln (skipn (r * Ln) v)) fz = nth (r * Ln + m) v fz.
Proof. intros Hm. rewrite nth_firstn_lt by exact Hm. apply nth_skipn'. Qed.

Lemma row_length (v : list F) Ln R r : length v = R * Ln -> r < R -> length (firstn Ln (skipn (r * Ln) v)) = Ln.
Proof. intros Hl Hr. rewrite firstn_length, skipn_length, Hl. nia. Qed.

(* ---------------------------------------------------------------- transposition, by indices *)
Lemma transpose_spec_length I st (x : list F) : length (transpose_spec O I st x) = length x.
Proof. unfold transpose_spec. rewrite map_length, seq_length. reflexivity. Qed.

Lemma transpose_spec_nth I st (x : list F) r c e :
  length x = I * I * st -> r < I -> c < I -> e < st ->
  nth ((r * I + c) * st + e) (transpose_spec O I st x) fz = nth ((c * I + r) * st + e) x fz.
Proof.
  intros Hl Hr Hc He. unfold transpose_spec.
  assert (Hcell : r * I + c + 1 <= I * I) by nia.
  assert (Hpos : (r * I + c + 1) * st <= I * I * st) by (apply Nat.mul_le_mono_r; exact Hcell).
  rewrite map_seq_nth by (rewrite Hl; lia).
  assert (E1 : ((r * I + c) * st + e) / st = r * I + c) by (symmetry; apply Nat.div_unique with e; lia).
  assert (E2 : ((r * I + c) * st + e) mod st = e) by (symmetry; apply Nat.mod_unique with (r * I + c); lia).
  assert (E3 : (r * I + c) mod I = c) by (symmetry; apply Nat.mod_unique with r; lia).
  assert (E4 : (r * I + c) / I = r) by (symmetry; apply Nat.div_unique with c; lia).
  rewrite E1, E2, E3, E4. reflexivity.
Qed.

(* ---------------------------------------------------------------- algebra: radix-Ou decimation *)
Lemma peval_map_zero : forall (l : list nat) y, peval (map (fun _ => fz) l) y = fz.
Proof. induction l; intros; cbn [map FFT.peval]; [reflexivity | rewrite IHl; ring]. Qed.

Lemma peval_map_lin (f g : nat -> F) c : forall (l : list nat) y,
  peval (map (fun m => f m +f c *f g m) l) y = peval (map f l) y +f c *f peval (map g l) y.
Proof. induction l; intros; cbn [map FFT.peval]; [ring | rewrite IHl; ring]. Qed.

Lemma firstn_as_map (x : list F) n : n <= length x -> firstn n x = map (fun m => nth m x fz) (seq 0 n).
Proof.
  intros Hn. apply nth_ext with (d := fz) (d' := fz).
  - rewrite firstn_length, map_length, seq_length. lia.
  - rewrite firstn_length. intros m Hm. rewrite nth_firstn_lt by lia. rewrite map_seq_nth by lia. reflexivity.
Qed.

(* P(y) = sum_{m < Ou} y^m * P_m(y^Ou),  P_m = the stride-Ou subsequence starting at m; as one peval *)
Lemma peval_radix Ou : forall I (x : list F) y, length x = Ou * I ->
  peval x y = peval (map (fun m => peval (sub x m Ou I) (fpow y Ou)) (seq 0 Ou)) y.
Proof.
  induction I as [|I IH]; intros x y Hl.
  - rewrite Nat.mul_0_r in Hl. destruct x; [|discriminate]. cbn [FFT.peval].
    unfold FFTRefine.sub. cbn [seq map FFT.peval]. rewrite peval_map_zero. reflexivity.
  - rewrite <- (firstn_skipn Ou x) at 1. rewrite (peval_app O L).
    assert (Hlf : length (firstn Ou x) = Ou) by (rewrite firstn_length, Hl; nia).
    assert (Hlr : length (skipn Ou x) = Ou * I) by (rewrite skipn_length, Hl; nia).
    rewrite Hlf, (IH (skipn Ou x) y Hlr).
    rewrite (firstn_as_map x Ou) by (rewrite Hl; nia).
    rewrite <- (peval_map_lin (fun m => nth m x fz) (fun m => peval (sub (skipn Ou x) m Ou I) (fpow y Ou)) (fpow y Ou)).
    f_equal. apply map_ext. intros m.
    unfold FFTRefine.sub. cbn [seq map FFT.peval]. rewrite <- seq_shift, map_map.
    replace (m + Ou * 0) with m by lia. f_equal. f_equal. f_equal.
    apply map_ext. intros q. rewrite nth_skipn'. f_equal. lia.
Qed.

(* ---------------------------------------------------------------- roots and twiddles of the sub-transforms *)
Lemma root_cond_pow : forall d k w, root_cond O (k + d) w -> root_cond O k (fpow w (2 ^ d)).
Proof.
  induction d as [|d IH]; intros k w H.
  - rewrite Nat.add_0_r in H. replace (fpow w (2 ^ 0)) with w by (cbn; ring). exact H.
  - replace (k + S d) with (S (k + d)) in H by lia. apply (root_cond_sq O L) in H. apply IH in H.
    replace (fpow w (2 ^ S d)) with (fpow (w *f w) (2 ^ d)); [exact H|].
    rewrite (fpow_sq2 O L). reflexivity.
Qed.

Lemma tw_ok_pow tw : forall d k w, tw_ok O tw (k + d) w -> tw_ok O tw k (fpow w (2 ^ d)).
Proof.
  induction d as [|d IH]; intros k w H.
  - rewrite Nat.add_0_r in H. replace (fpow w (2 ^ 0)) with w by (cbn; ring). exact H.
  - replace (k + S d) with (S (k + d)) in H by lia. apply (tw_ok_sq O L) in H. apply IH in H.
    replace (fpow w (2 ^ S d)) with (fpow (w *f w) (2 ^ d)); [exact H|].
    rewrite (fpow_sq2 O L). reflexivity.
Qed.

Lemma scale_row_eq (row : list F) u : scale_row O row u = shift_by_series O row f1 u.
Proof.
  destruct row as [|h t]; [reflexivity|]. cbn [scale_row shift_by_series]. f_equal; [ring|].
  f_equal. ring.
Qed.

(* ---------------------------------------------------------------- the four-step algorithm = fft_in_place *)
Theorem split_radix_spec_tr_is_fft tw K s w (x : list F) :
  s <= 1 ->
  length x = 2 ^ (S K + S K + s) -> length tw = 2 ^ (S K + K + s) ->
  tw_ok O tw (S K + S K + s) w -> root_cond O (S K + S K + s) w ->
  split_radix_fft_spec_tr O x tw = Some (fft_in_place_top O x tw).
Proof.
  intros Hs Hl Hlt Ht Hw.
  set (kI := S K). set (kO := S K + s). set (k := S K + S K + s) in *.
  set (I := 2 ^ kI). set (Ou := 2 ^ kO). set (st := 2 ^ s).
  assert (HI : 0 < I) by apply pow2_pos. assert (HO : 0 < Ou) by apply pow2_pos. assert (Hst : 0 < st) by apply pow2_pos.
  assert (HOu : Ou = I * st) by (unfold Ou, I, st, kO, kI; rewrite Nat.pow_add_r; reflexivity).
  assert (Hn : 2 ^ k = I * Ou) by (unfold k, I, Ou, kI, kO; rewrite <- Nat.pow_add_r; f_equal; lia).
  assert (Hn' : length x = I * I * st) by (rewrite Hl, Hn, HOu; lia).
  (* the size arithmetic of the code *)
  assert (Elog : Nat.log2 (length x) / 2 = kI).
  { rewrite Hl, log2_pow2. unfold k, kI. symmetry. apply Nat.div_unique with s; lia. }
  assert (Eout : length x / I = Ou) by (rewrite Hl, Hn, Nat.mul_comm; apply Nat.div_mul; lia).
  assert (Estr : Ou / I = st) by (rewrite HOu, Nat.mul_comm; apply Nat.div_mul; lia).
  (* g = twiddles[len/2] = w *)
  assert (Hg : vget O tw (length tw / 2) = w).
  { rewrite Hlt. replace (S K + K + s) with (S (K + K + s)) by lia. rewrite half_pow2'.
    unfold k in Ht. replace (S K + S K + s) with (S (S (K + K + s))) in Ht by lia. cbn [tw_ok] in Ht.
    rewrite Ht by (rewrite pow2_S; pose proof (pow2_pos (K + K + s)); lia).
    replace (2 ^ (K + K + s)) with (0 + 2 ^ (K + K + s)) by lia.
    rewrite rev_bits_high by apply pow2_pos. rewrite rev_bits_0. cbn. ring. }
  (* roots of the row transforms *)
  set (wI := fpow w Ou). set (wO := fpow w I).
  assert (HwI : root_cond O kI wI) by (apply root_cond_pow; replace (kI + kO) with k by (unfold k, kI, kO; lia); exact Hw).
  assert (HtI : tw_ok O tw kI wI) by (apply tw_ok_pow; replace (kI + kO) with k by (unfold k, kI, kO; lia); exact Ht).
  assert (HwO : root_cond O kO wO) by (apply root_cond_pow; replace (kO + kI) with k by (unfold k, kI, kO; lia); exact Hw).
  assert (HtO : tw_ok O tw kO wO) by (apply tw_ok_pow; replace (kO + kI) with k by (unfold k, kI, kO; lia); exact Ht).
  assert (Hwn : fpow w (I * Ou) = f1).
  { rewrite <- Hn. unfold k. replace (S K + S K + s) with (S (K + S K + s)) by lia. apply (root_cond_one O L).
    replace (S (K + S K + s)) with (S K + S K + s) by lia. exact Hw. }
  unfold split_radix_fft_spec_tr, split_radix_fft_with.
  rewrite Elog. fold I. rewrite Eout, Estr, Hg.
  assert (Eg1 : (length x =? I * I * st) = true) by (apply Nat.eqb_eq; exact Hn').
  rewrite Eg1. cbn [negb].
  (* step 1 + 2 *)
  set (v1 := transpose_spec O I st x).
  assert (Lv1 : length v1 = I * Ou) by (unfold v1; rewrite transpose_spec_length, Hl; exact Hn).
  rewrite (rows_of_eq v1 Ou I HO Lv1), map_map.
  set (f2 := fun r => fft_in_place O (length (firstn Ou (skipn (r * Ou) v1))) (firstn Ou (skipn (r * Ou) v1)) tw st st 0).
  set (A := fun m a => peval (sub x m Ou I) (fpow wI a)).
  assert (Hf2 : forall r, r < I ->
            length (f2 r) = Ou /\
            forall j q, j < st -> q < I -> nth (j + st * q) (f2 r) fz = A (r * st + j) (rev_bits kI q)).
  { intros r Hr. unfold f2.
    assert (Lrow := row_length v1 Ou I r Lv1 Hr). rewrite Lrow.
    destruct (fft_in_place_spec O tw K Ou (firstn Ou (skipn (r * Ou) v1)) st st 0) as [La Na]; try lia.
    { unfold Ou, kO. pose proof (Nat.pow_gt_lin_r 2 (S K + s)). lia. }
    { rewrite Lrow, HOu. reflexivity. }
    split; [rewrite La; exact Lrow|].
    intros j q Hj Hq. rewrite (Na j q Hj Hq).
    assert (Er : in_rng 0 st j = true) by (apply in_rng_spec; lia). rewrite Er.
    fold kI. fold I.
    assert (Esub : sub (firstn Ou (skipn (r * Ou) v1)) j st I = sub x (r * st + j) Ou I).
    { unfold FFTRefine.sub. apply map_ext_in. intros c' Hc'. apply in_seq in Hc'.
      rewrite row_nth by (rewrite HOu; nia).
      replace (r * Ou + (j + st * c')) with ((r * I + c') * st + j) by (rewrite HOu; lia).
      unfold v1. rewrite transpose_spec_nth by (try assumption; lia).
      f_equal. rewrite HOu. lia. }
    rewrite Esub.
    apply (brfft_dft O L tw kI wI); try assumption. apply sub_length. }
  set (v2 := concat (map f2 (seq 0 I))).
  destruct (concat_uniform_gen fz (map f2 (seq 0 I)) Ou) as [L2 N2].
  { intros l Hin. apply in_map_iff in Hin. destruct Hin as (r & <- & Hr). apply in_seq in Hr. apply Hf2. lia. }
  rewrite map_length, seq_length in L2, N2. fold v2 in L2, N2.
  assert (Eg2 : (length v2 =? I * I * st) = true) by (apply Nat.eqb_eq; rewrite L2, HOu; lia).
  rewrite Eg2. cbn [negb].
  (* step 3: rows of the second transposition hold A[m][rev r] *)
  set (v3 := transpose_spec O I st v2).
  assert (Lv3 : length v3 = I * Ou) by (unfold v3; rewrite transpose_spec_length; exact L2).
  rewrite (rows_of_eq v3 Ou I HO Lv3), combine_seq_map, map_map. cbn [fst snd].
  assert (Hrow3 : forall r, r < I ->
            firstn Ou (skipn (r * Ou) v3) = map (fun m => A m (rev_bits kI r)) (seq 0 Ou)).
  { intros r Hr. apply nth_ext with (d := fz) (d' := fz).
    - rewrite (row_length v3 Ou I r Lv3 Hr), map_length, seq_length. reflexivity.
    - rewrite (row_length v3 Ou I r Lv3 Hr). intros m Hm. rewrite row_nth by exact Hm. rewrite map_seq_nth by exact Hm.
      pose proof (Nat.div_mod m st ltac:(lia)) as Hdm. pose proof (Nat.mod_upper_bound m st ltac:(lia)) as Hme.
      set (c := m / st) in *. set (e := m mod st) in *.
      assert (Hc : c < I) by (unfold c; apply Nat.div_lt_upper_bound; [lia | rewrite Nat.mul_comm, <- HOu; exact Hm]).
      replace (r * Ou + m) with ((r * I + c) * st + e) by (rewrite HOu; lia).
      unfold v3. rewrite transpose_spec_nth by (try assumption; rewrite L2, HOu; lia).
      replace ((c * I + r) * st + e) with (c * Ou + (e + st * r)) by (rewrite HOu; lia).
      rewrite N2 by (try assumption; rewrite HOu; nia).
      rewrite map_seq_nth by exact Hc.
      destruct (Hf2 c Hc) as [_ Nf]. rewrite (Nf e r Hme Hr). f_equal. lia. }
  (* step 4 *)
  set (f4 := fun r => fft_in_place_top O
                 (if 0 <? r then scale_row O (firstn Ou (skipn (r * Ou) v3)) (fpow_N O w (N.of_nat (permute_index I r)))
                  else firstn Ou (skipn (r * Ou) v3)) tw).
  assert (Hf4 : forall r, r < I ->
            length (f4 r) = Ou /\
            forall q, q < Ou -> nth q (f4 r) fz = peval x (fpow w (rev_bits kI r + I * rev_bits kO q))).
  { intros r Hr. unfold f4.
    set (a := rev_bits kI r).
    assert (Erow : (if 0 <? r then scale_row O (firstn Ou (skipn (r * Ou) v3)) (fpow_N O w (N.of_nat (permute_index I r)))
                    else firstn Ou (skipn (r * Ou) v3))
                   = shift_by_series O (map (fun m => A m a) (seq 0 Ou)) f1 (fpow w a)).
    { rewrite (Hrow3 r Hr). fold a. destruct (Nat.ltb_spec 0 r) as [Hr0 | Hr0].
      - rewrite scale_row_eq. unfold I. rewrite permute_index_spec, (fpow_N_spec O L). reflexivity.
      - assert (r = 0) by lia. subst r. unfold a. rewrite rev_bits_0. cbn [FFT.fpow].
        symmetry. apply (shift_by_series_one O L). }
    rewrite Erow.
    assert (Lr : length (shift_by_series O (map (fun m => A m a) (seq 0 Ou)) f1 (fpow w a)) = 2 ^ S (K + s)).
    { rewrite (shift_by_series_length O), map_length, seq_length. unfold Ou, kO. reflexivity. }
    rewrite (fft_in_place_top_brfft O tw (K + s) _ Lr).
    split; [rewrite brfft_length by exact Lr; unfold Ou, kO; reflexivity|].
    intros q Hq.
    change (S (K + s)) with kO. change (S (K + s)) with kO in Lr.
    rewrite (brfft_dft O L tw kO wO _ q Lr HwO HtO Hq).
    rewrite (peval_shift_by_series O L).
    set (b := rev_bits kO q).
    set (y := fpow w (a + I * b)).
    assert (Ey : fpow w a *f fpow wO b = y).
    { unfold y, wO. rewrite (fpow_add O L), (fpow_mul O L). reflexivity. }
    assert (EyO : fpow y Ou = fpow wI a).
    { unfold y, wI. rewrite <- !(fpow_mul O L).
      replace ((a + I * b) * Ou) with (Ou * a + (I * Ou) * b) by lia.
      rewrite (fpow_add O L), (fpow_mul O L w (I * Ou) b), Hwn, (fpow_one O L). ring. }
    rewrite Ey. unfold A. rewrite <- EyO.
    transitivity (peval (map (fun m => peval (sub x m Ou I) (fpow y Ou)) (seq 0 Ou)) y); [ring|].
    symmetry. apply peval_radix. rewrite Hl, Hn. lia. }
  f_equal.
  destruct (concat_uniform_gen fz (map f4 (seq 0 I)) Ou) as [L4 N4].
  { intros l Hin. apply in_map_iff in Hin. destruct Hin as (r & <- & Hr). apply in_seq in Hr. apply Hf4. lia. }
  rewrite map_length, seq_length in L4, N4.
  (* compare with fft_in_place = bit-reversed DFT *)
  assert (Hlx : length x = 2 ^ S (K + S K + s)) by (rewrite Hl; f_equal; lia).
  rewrite (fft_in_place_top_brfft O tw (K + S K + s) x Hlx).
  apply nth_ext with (d := fz) (d' := fz).
  - rewrite brfft_length by exact Hlx. fold f4. rewrite L4, <- Hn. first [reflexivity | f_equal; unfold k; lia].
  - fold f4. rewrite L4. intros p Hp.
    pose proof (Nat.div_mod p Ou ltac:(lia)) as Hdm. pose proof (Nat.mod_upper_bound p Ou ltac:(lia)) as Hq.
    set (r := p / Ou) in *. set (q := p mod Ou) in *.
    assert (Hr : r < I) by (unfold r; apply Nat.div_lt_upper_bound; lia).
    replace p with (r * Ou + q) by lia.
    rewrite N4 by assumption. rewrite map_seq_nth by exact Hr.
    destruct (Hf4 r Hr) as [_ Nf]. rewrite (Nf q Hq).
    assert (Hw' : root_cond O (S (K + S K + s)) w) by (replace (S (K + S K + s)) with k by (unfold k; lia); exact Hw).
    assert (Ht' : tw_ok O tw (S (K + S K + s)) w) by (replace (S (K + S K + s)) with k by (unfold k; lia); exact Ht).
    rewrite (brfft_dft O L tw (S (K + S K + s)) w x (r * Ou + q) Hlx Hw' Ht').
    2:{ replace (S (K + S K + s)) with k by (unfold k; lia). rewrite Hn. nia. }
    f_equal. f_equal.
    replace (S (K + S K + s)) with (kO + kI) by (unfold kO, kI; lia).
    unfold Ou. rewrite rev_bits_concat by exact Hq. unfold I. reflexivity.
Qed.

End SplitProof.
