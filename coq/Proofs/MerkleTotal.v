(* C10 — totality: get_root / verify_batch / into_paths never panic, for ANY proof and index list. *)
From Coq Require Import ZArith List Bool Lia.
From VBase Require Import MachInt.
From VModel Require Import Merkle.
From VProofs Require Import MerkleBase MerkleIdx MerkleBatch.
Import ListNotations.
Open Scope Z_scope.

(* [safe r P]: r is not a panic, and if it is a value, the value satisfies P *)
Definition safe {A} (r : res A) (P : A -> Prop) : Prop :=
  match r with Ok a => P a | Err _ => True | Panic => False end.

Lemma safe_bind {A B} (r : res A) (f : A -> res B) P Q :
  safe r P -> (forall a, P a -> safe (f a) Q) -> safe (bind r f) Q.
Proof. destruct r; simpl; auto. Qed.

Lemma safe_mono {A} (r : res A) (P Q : A -> Prop) : safe r P -> (forall a, P a -> Q a) -> safe r Q.
Proof. destruct r; simpl; auto. Qed.

Lemma safe_not_Panic {A} (r : res A) P : safe r P -> r <> Panic.
Proof. destruct r; simpl; congruence. Qed.

Lemma safe_Ok {A} (r : res A) P a : safe r P -> r = Ok a -> P a.
Proof. intros H ->. exact H. Qed.

Lemma safe_idx {A} (l : list A) i : 0 <= i < zlen l -> safe (idx l i) (fun x => nth_error l (Z.to_nat i) = Some x).
Proof.
  intros H. destruct (idx l i) eqn:E; simpl.
  - apply idx_inv in E. tauto.
  - exact Logic.I.
  - exact (idx_not_Panic _ _ H E).
Qed.

Lemma safe_upd {A} (l : list A) i x : 0 <= i < zlen l ->
  safe (upd l i x) (fun l' => length l' = length l /\
                             forall j, nth_error l' j = if Nat.eqb j (Z.to_nat i) then Some x else nth_error l j).
Proof. intros H. destruct (upd_Ok l i x H) as (l' & E & P). rewrite E. exact P. Qed.

Lemma safe_uadd a b : a + b < usz -> safe (uadd a b) (fun s => s = a + b).
Proof. intros H. rewrite uadd_Ok by assumption. reflexivity. Qed.

Definition nonneg (l : list Z) : Prop := Forall (fun x => 0 <= x) l.

Section Total.
Variable D : Type.
Variable merge : D -> D -> D.

Notation gscan := (gscan D merge).
Notation glevels := (glevels D merge).
Notation gfirst := (gfirst D merge).
Notation gleaf := (gleaf D).
Notation gstep := (gstep D merge).
Notation gsib := (gsib D).
Notation gcore := (gcore D merge).
Notation get_root := (get_root D merge).
Notation into_paths := (into_paths D merge).

Lemma gstep_safe a s v ptm : safe (gstep a s v ptm) (fun _ => True).
Proof. unfold Merkle.gstep. destruct (bt_get a v); exact Logic.I. Qed.

Lemma gsib_safe pn ptrs i : 0 <= i < zlen ptrs -> zlen ptrs = zlen pn -> nonneg ptrs ->
  safe (gsib pn ptrs i) (fun r => length (snd r) = length ptrs /\ nonneg (snd r)).
Proof.
  intros Hi HL Hnn. unfold Merkle.gsib.
  eapply safe_bind; [apply safe_idx; assumption|]. intros pointer Ep. cbv beta.
  assert (Hp : 0 <= pointer). { apply nth_error_In in Ep. unfold nonneg in Hnn. rewrite Forall_forall in Hnn. auto. }
  eapply safe_bind; [apply safe_idx; lia|]. intros nd End. cbv beta.
  destruct (Z.leb_spec (zlen nd) pointer); [exact Logic.I|].
  eapply safe_bind; [apply safe_idx; lia|]. intros s Es. cbv beta.
  eapply safe_bind; [apply safe_upd; assumption|]. intros ptrs' [L Nn]. cbn [safe snd]. split; [assumption|].
  unfold nonneg in *. rewrite Forall_forall in *. intros x Hx. apply In_nth_error in Hx. destruct Hx as [j Hj].
  rewrite Nn in Hj. destruct (Nat.eqb j (Z.to_nat i)); [injection Hj as <-; lia|]. apply Hnn. eapply nth_error_In. eassumption.
Qed.

Lemma gscan_safe pn : forall n I i v ptrs ptm, (length I <= n)%nat ->
  0 <= i -> i + zlen I <= zlen ptrs -> zlen ptrs = zlen pn -> nonneg ptrs ->
  safe (gscan pn I i v ptrs ptm)
       (fun r => let '(_, ptrs', _, next) := r in
                 length ptrs' = length ptrs /\ nonneg ptrs' /\ (length next <= length I)%nat).
Proof.
  induction n as [|n IH]; intros I i v ptrs ptm Hn Hi Hl HL Hnn.
  - destruct I; [|simpl in Hn; lia]. cbn. auto.
  - destruct I as [|a rest]; [cbn; auto|]. rewrite zlen_cons in Hl.
    rewrite gscan_unfold. destruct (merged a rest) eqn:Em.
    + destruct (merged_inv _ _ Em) as (rest' & ->). cbn [tl]. rewrite zlen_cons in Hl.
      destruct (bt_get (Z.lxor a 1) v); [|exact Logic.I].
      eapply safe_bind; [apply gstep_safe|]. intros [[v1 ptm1] pi] _.
      eapply safe_bind; [apply (IH rest' (i + 2) v1 ptrs ptm1); try assumption; try lia; simpl in Hn; lia|].
      intros [[[vF ptrsF] ptmF] next] (L & Nn & Ln). cbn [safe]. split; [assumption|]. split; [assumption|]. simpl. lia.
    + eapply safe_bind; [apply gsib_safe; try assumption; pose proof (zlen_nonneg rest); lia|].
      intros [s ptrs1] [L1 N1]. cbn [snd] in *.
      eapply safe_bind; [apply gstep_safe|]. intros [[v1 ptm1] pi] _.
      eapply safe_bind; [apply (IH rest (i + 1) v1 ptrs1 ptm1); try assumption; try lia; [simpl in Hn; lia|unfold zlen in *; lia|unfold zlen in *; lia]|].
      intros [[[vF ptrsF] ptmF] next] (L & Nn & Ln). cbn [safe]. split; [lia|]. split; [assumption|]. simpl. lia.
Qed.

Lemma glevels_safe pn : forall k I v ptrs ptm,
  zlen I <= zlen ptrs -> zlen ptrs = zlen pn -> nonneg ptrs ->
  safe (glevels k pn I v ptrs ptm) (fun _ => True).
Proof.
  induction k as [|k IH]; intros I v ptrs ptm Hl HL Hnn; [exact Logic.I|].
  cbn [Merkle.glevels]. eapply safe_bind; [apply (gscan_safe pn (length I)); try assumption; lia|].
  intros [[[v1 ptrs1] ptm1] next] (L & Nn & Ln). apply IH; [unfold zlen in *; lia|unfold zlen in *; lia|assumption].
Qed.

Section First.
Variable p : bproof D.
Variable imap : bmap Z.
Hypothesis imap_nonneg : forall k j, bt_get k imap = Some j -> 0 <= j.

Lemma gleafv_safe j : 0 <= j -> safe (gleafv D p j) (fun _ => True).
Proof.
  intros Hj. unfold Merkle.gleafv. destruct (Z.leb_spec (zlen (bp_leaves p)) j); [exact Logic.I|].
  eapply safe_mono; [apply safe_idx; lia|auto].
Qed.

Lemma gnode0_safe i : 0 <= i < zlen (bp_nodes p) -> safe (gnode0 D p i) (fun _ => True).
Proof.
  intros Hi. unfold Merkle.gnode0. eapply safe_bind; [apply safe_idx; assumption|]. intros [|x nd] _; exact Logic.I.
Qed.

Lemma gleaf_safe i index : 0 <= i < zlen (bp_nodes p) -> index + 1 < usz ->
  safe (gleaf p imap i index) (fun r => 0 <= snd r).
Proof.
  intros Hi Hx. unfold Merkle.gleaf. rewrite uadd_Ok by assumption. cbn [bind].
  destruct (bt_get index imap) as [j1|] eqn:E1; destruct (bt_get (index + 1) imap) as [j2|] eqn:E2.
  - eapply safe_bind; [apply gleafv_safe; eauto|]. intros b0 _.
    eapply safe_bind; [apply gleafv_safe; eauto|]. intros b1 _. cbn. lia.
  - eapply safe_bind; [apply gleafv_safe; eauto|]. intros b0 _.
    eapply safe_bind; [apply gnode0_safe; assumption|]. intros b1 _. cbn. lia.
  - eapply safe_bind; [apply gnode0_safe; assumption|]. intros b0 _.
    eapply safe_bind; [apply gleafv_safe; eauto|]. intros b1 _. cbn. lia.
  - eapply safe_bind; [apply gnode0_safe; assumption|]. intros b0 _. exact Logic.I.
Qed.

Lemma gfirst_safe offset : forall norm i v ptm,
  0 <= i -> i + zlen norm <= zlen (bp_nodes p) ->
  (forall e, In e norm -> e + 1 < usz /\ offset + e < usz) ->
  safe (gfirst p imap offset norm i v ptm)
       (fun r => let '(_, ptrs, _, next) := r in
                 length ptrs = length norm /\ nonneg ptrs /\ length next = length norm).
Proof.
  induction norm as [|e rest IH]; intros i v ptm Hi Hl Hr.
  - cbn. repeat split; auto. constructor.
  - rewrite zlen_cons in Hl. cbn [Merkle.gfirst]. destruct (Hr e (or_introl eq_refl)) as [H1 H2].
    eapply safe_bind; [apply gleaf_safe; [pose proof (zlen_nonneg rest); lia|assumption]|].
    intros [[b0 b1] ptr] Hp. cbn [snd] in Hp.
    rewrite uadd_Ok by assumption. cbn [bind].
    eapply safe_bind; [apply IH; [lia|lia|intros e' He'; apply Hr; right; assumption]|].
    intros [[[vF ptrs] ptmF] next] (L & Nn & Ln). cbn [safe]. split; [simpl; lia|]. split; [constructor; assumption|simpl; lia].
Qed.
End First.

Definition usize_list (l : list Z) : Prop := forall x, In x l -> 0 <= x.

Theorem gcore_safe : forall p indexes ptm0, 0 <= bp_depth p -> usize_list indexes ->
  safe (gcore p indexes ptm0) (fun _ => True).
Proof.
  intros p indexes ptm0 Hd Hu. unfold Merkle.gcore.
  destruct (map_indexes indexes (bp_depth p)) as [imap| |] eqn:Emi; cbn [bind]; [|exact Logic.I|exact (map_indexes_not_Panic _ _ Emi)].
  apply map_indexes_inv in Emi. destruct Emi as (Hd64 & ND & Hr & IM & _).
  destruct (Z.eqb_spec (zlen (normalize_indexes indexes)) (zlen (bp_nodes p))) as [HL|]; cbn [negb]; [|exact Logic.I].
  assert (H63 : 2 ^ bp_depth p <= 2 ^ 63) by (apply pow2_le_mono; lia).
  eapply safe_bind.
  { apply (gfirst_safe p imap).
    - intros k j E. apply IM in E. tauto.
    - lia.
    - lia.
    - intros e He. apply normalize_In in He. destruct He as (i & Hi & ->).
      pose proof (Hr i Hi). pose proof (Hu i Hi). pose proof (Z.mod_pos_bound i 2 ltac:(lia)).
      rewrite usz_eq. change (2 ^ 64) with (2 * 2 ^ 63). lia. }
  intros [[[v ptrs] ptm] next] (L & Nn & Ln).
  eapply safe_bind; [apply glevels_safe; [unfold zlen in *; lia|unfold zlen in *; lia|assumption]|].
  intros [[v' ptrs'] ptm'] _. destruct (negb _); exact Logic.I.
Qed.

(* get_root_total: for EVERY batch proof (any leaves, node vectors, depth byte) and EVERY index list *)
Theorem get_root_total : forall p indexes, 0 <= bp_depth p -> usize_list indexes -> get_root p indexes <> Panic.
Proof.
  intros p indexes Hd Hu. unfold Merkle.get_root. destruct indexes as [|i0 ir] eqn:Ei; [discriminate|]. rewrite <- Ei in *.
  destruct (max_paths <? zlen indexes); [discriminate|]. destruct (negb _); [discriminate|].
  eapply safe_not_Panic. eapply safe_bind; [apply gcore_safe; assumption|].
  intros [v ptm] _. destruct (bt_get 1 v); exact Logic.I.
Qed.


(* acceptance implies every structural guard: an opening with an empty / too long / duplicated /
   out-of-range position list, a wrong number of leaves or of node vectors, or a depth >= 64 is
   never accepted (and, by get_root_total, never panics: it is an error) *)
Theorem get_root_Ok_guards : forall p indexes r, get_root p indexes = Ok r ->
  indexes <> [] /\ zlen indexes <= 255 /\ zlen indexes = zlen (bp_leaves p) /\ NoDup indexes /\
  (forall i, In i indexes -> i < 2 ^ bp_depth p) /\ bp_depth p < 64 /\
  zlen (normalize_indexes indexes) = zlen (bp_nodes p).
Proof.
  intros p indexes r. unfold Merkle.get_root. destruct indexes as [|i0 ir] eqn:Ei; [discriminate|]. rewrite <- Ei in *.
  unfold max_paths. destruct (Z.ltb_spec 255 (zlen indexes)); [discriminate|].
  destruct (Z.eqb_spec (zlen indexes) (zlen (bp_leaves p))); cbn [negb]; [|discriminate].
  intros E. apply bind_Ok in E. destruct E as ([v ptm] & Eg & _).
  unfold Merkle.gcore in Eg. apply bind_Ok in Eg. destruct Eg as (imap & Emi & Eg).
  apply map_indexes_inv in Emi. destruct Emi as (Hd & ND & Hr & _).
  destruct (Z.eqb_spec (zlen (normalize_indexes indexes)) (zlen (bp_nodes p))); cbn [negb] in Eg; [|discriminate].
  repeat split; try assumption; try lia. rewrite Ei. discriminate.
Qed.

Theorem verify_batch_total : forall D_eqb root p indexes, 0 <= bp_depth p -> usize_list indexes ->
  verify_batch D D_eqb merge root indexes p <> Panic.
Proof.
  intros D_eqb root p indexes Hd Hu. unfold Merkle.verify_batch.
  apply bind_not_Panic; [apply get_root_total; assumption|]. intros r _. destruct (D_eqb root r); discriminate.
Qed.

Lemma get_path_up_safe tree : forall fuel s, 0 <= s < 2 ^ Z.of_nat fuel -> safe (get_path_up D fuel tree s) (fun _ => True).
Proof.
  induction fuel as [|fuel IH]; intros s Hs.
  - cbn in Hs. cbn. destruct (Z.leb_spec s 1); [exact Logic.I|lia].
  - cbn [Merkle.get_path_up]. destruct (Z.leb_spec s 1); [exact Logic.I|].
    destruct (bt_get (Z.lxor s 1) tree); [|exact Logic.I].
    eapply safe_bind; [apply IH|intros; exact Logic.I].
    rewrite shiftr1. rewrite Nat2Z.inj_succ, Z.pow_succ_r in Hs by lia.
    pose proof (Z.div_mod s 2 ltac:(lia)). pose proof (Z.mod_pos_bound s 2 ltac:(lia)). lia.
Qed.

Lemma mapM_safe {A B} (f : A -> res B) (l : list A) : (forall a, In a l -> safe (f a) (fun _ => True)) -> safe (mapM f l) (fun _ => True).
Proof.
  induction l as [|a r IH]; intros H; [exact Logic.I|]. cbn [mapM].
  eapply safe_bind; [apply H; left; reflexivity|]. intros b _.
  eapply safe_bind; [apply IH; intros; apply H; right; assumption|]. intros; exact Logic.I.
Qed.

Theorem into_paths_total : forall p indexes, 0 <= bp_depth p -> usize_list indexes -> into_paths p indexes <> Panic.
Proof.
  intros p indexes Hd Hu. unfold Merkle.into_paths. destruct indexes as [|i0 ir] eqn:Ei; [discriminate|]. rewrite <- Ei in *.
  destruct (max_paths <? zlen indexes); [discriminate|]. destruct (negb _); [discriminate|].
  eapply safe_not_Panic.
  destruct (gcore p indexes _) as [[v ptm]| |] eqn:Eg; cbn [bind].
  - (* success of gcore implies the index guards *)
    unfold Merkle.gcore in Eg. apply bind_Ok in Eg. destruct Eg as (imap & Emi & _).
    apply map_indexes_inv in Emi. destruct Emi as (Hd64 & _ & Hr & _).
    apply mapM_safe. intros i Hi. unfold Merkle.get_path.
    destruct (Z.leb_spec 64 (bp_depth p)); [lia|].
    assert (H63 : 2 ^ bp_depth p <= 2 ^ 63) by (apply pow2_le_mono; lia).
    pose proof (Hr i Hi). pose proof (Hu i Hi).
    rewrite uadd_Ok by (rewrite usz_eq; change (2 ^ 64) with (2 * 2 ^ 63); lia). cbn [bind].
    destruct (bt_get _ ptm); [|exact Logic.I].
    eapply safe_bind; [apply get_path_up_safe|intros; exact Logic.I].
    change (Z.of_nat 64) with 64. change (2 ^ 64) with (2 * 2 ^ 63). lia.
  - exact Logic.I.
  - exfalso. pose proof (gcore_safe p indexes (ptm_leaves D (2 ^ bp_depth p) indexes (bp_leaves p) []) Hd Hu) as S.
    rewrite Eg in S. exact S.
Qed.

End Total.
